(* C05/ProofsChange.v — osm.Change (change.go): default struct coding with the three nested *OSM
   blocks going through OSM.MarshalJSON / OSM.UnmarshalJSON.  Round trip up to the same
   equivalence, for every Change whose blocks are well-formed, every map order. *)
From Coq Require Import ZArith List String Ascii Bool Permutation Lia.
From Verif Require Import C05.Json C05.Schema C05.Model C05.Fmt C05.Osm C05.Spec C05.SortTags
     C05.Fields C05.ProofsGeneric C05.Resolve C05.ProofsOsm C05.ProofsDoc.
From VerifGen Require Import GenJsonTags.
Import ListNotations.
Open Scope string_scope.

Definition oo_equiv (a b : option osmv) : Prop :=
  match a, b with None, None => True | Some x, Some y => osm_equiv x y | _, _ => False end.
Definition change_equiv (a b : changev) : Prop :=
  c_version a = c_version b /\ c_generator a = c_generator b /\ c_copyright a = c_copyright b
  /\ c_attribution a = c_attribution b /\ c_license a = c_license b
  /\ oo_equiv (c_create a) (c_create b) /\ oo_equiv (c_modify a) (c_modify b)
  /\ oo_equiv (c_delete a) (c_delete b).
Definition wf_change (c : changev) : Prop :=
  (forall o, c_create c = Some o -> wf_osm o = true) /\ (forall o, c_modify c = Some o -> wf_osm o = true)
  /\ (forall o, c_delete c = Some o -> wf_osm o = true).

(* a field of Change and the value it holds *)
Definition cf_ok (f : field) (v : cfield) : Prop :=
  match f_ty f, v with
  | TStr, CStr _ => True
  | TPtr TOSMRef, COsm None => True
  | TPtr TOSMRef, COsm (Some o) => wf_osm o = true
  | _, _ => False
  end.
Definition cf_equiv (a b : cfield) : Prop :=
  match a, b with CStr x, CStr y => x = y | COsm x, COsm y => oo_equiv x y | _, _ => False end.

(* exact-key version of the field decoder *)
Definition cdec_x (kv : list (string * json)) (n : string) (ft : ty) : res cfield :=
  match ft with
  | TStr => match lookup n kv with
            | None => Ok (CStr "")
            | Some j => rbind (dec TStr j) (fun v => match v with VStr s => Ok (CStr s) | _ => Unmodelled end)
            end
  | TPtr TOSMRef => match lookup n kv with
                    | None | Some JNull => Ok (COsm None)
                    | Some j => rmap (fun o => COsm (Some o)) (osm_unmarshal j)
                    end
  | _ => Unmodelled
  end.
Fixpoint change_dec_x (fs : list field) (kv : list (string * json)) : res (list cfield) :=
  match fs with
  | [] => Ok []
  | Field _ n _ ft :: fr =>
      rbind (cdec_x kv n ft) (fun v => rbind (change_dec_x fr kv) (fun vs => Ok (v :: vs)))
  end.

Lemma change_dec_exact : forall ns kv fs, (forall k, In k (keys kv) -> In k ns) -> NoDup (keys kv) ->
  change_dec_ns ns fs kv = change_dec_x fs kv.
Proof.
  intros ns kv fs H Hnd. induction fs as [|[g n om ft] fr IH]; [reflexivity|].
  cbn [change_dec_ns change_dec_x]. rewrite IH. f_equal. unfold cdec_x.
  rewrite (entries_f_exact ns n kv H Hnd).
  destruct ft; try reflexivity.
  - destruct (lookup n kv); reflexivity.
  - destruct ft; try reflexivity. destruct (lookup n kv) as [j|]; [destruct j|]; reflexivity.
Qed.

Section Change.
Variable mo : list (string * string) -> list (string * string).
Hypothesis mo_perm : forall l, Permutation (mo l) l.

Lemma keys_change_kvs : forall fs vs n, In n (keys (change_kvs mo fs vs)) -> In n (map f_name fs).
Proof.
  induction fs as [|[g m om ft] fr IH]; intros vs n H; [destruct vs; exact H|].
  destruct ft; try (destruct vs as [|[|[|]]]; simpl in H; contradiction).
  - destruct vs as [|v vr]; [simpl in H; contradiction|]. destruct v; [|simpl in H; contradiction].
    cbn [change_kvs] in H. destruct (om && String.eqb s ""); simpl in H |- *;
      [right; eapply IH; exact H|destruct H as [H|H]; [left; exact H|right; eapply IH; exact H]].
  - destruct ft; try (destruct vs as [|[|[|]]]; simpl in H; contradiction).
    destruct vs as [|v vr]; [simpl in H; contradiction|]. destruct v as [|[o|]]; [simpl in H; contradiction| |].
    + cbn [change_kvs] in H. simpl in H |- *. destruct H as [H|H]; [left; exact H|right; eapply IH; exact H].
    + cbn [change_kvs] in H. destruct om; simpl in H |- *;
        [right; eapply IH; exact H|destruct H as [H|H]; [left; exact H|right; eapply IH; exact H]].
Qed.

Lemma change_kvs_nodup : forall fs vs, NoDup (map f_name fs) -> NoDup (keys (change_kvs mo fs vs)).
Proof.
  induction fs as [|[g m om ft] fr IH]; intros vs H; [destruct vs; constructor|].
  simpl in H. inversion H as [|? ? Hni Hnd]; subst.
  assert (K : forall r, ~ In m (keys (change_kvs mo fr r))) by (intros r HI; apply Hni; eapply keys_change_kvs; exact HI).
  destruct ft; try (destruct vs as [|[|[|]]]; simpl; constructor).
  - destruct vs as [|v vr]; [simpl; constructor|]. destruct v; [|simpl; constructor].
    cbn [change_kvs]. destruct (om && String.eqb s ""); [apply IH; exact Hnd|].
    simpl. constructor; [apply K|apply IH; exact Hnd].
  - destruct ft; try (destruct vs as [|[|[|]]]; simpl; constructor).
    destruct vs as [|v vr]; [simpl; constructor|]. destruct v as [|[o|]]; [simpl; constructor| |]; cbn [change_kvs].
    + simpl. constructor; [apply K|apply IH; exact Hnd].
    + destruct om; [apply IH; exact Hnd|simpl; constructor; [apply K|apply IH; exact Hnd]].
Qed.

Lemma change_fields_rt : forall fs vs pre,
  Forall2 cf_ok fs vs -> NoDup (map f_name fs) ->
  (forall n, In n (map f_name fs) -> ~ In n (keys pre)) ->
  exists vs', change_dec_x fs (pre ++ change_kvs mo fs vs) = Ok vs' /\ Forall2 cf_equiv vs' vs.
Proof.
  induction fs as [|[g n om ft] fr IH]; intros vs pre Hok Hnd Hpre.
  - inversion Hok; subst. exists []. split; [reflexivity|constructor].
  - inversion Hok as [|? v ? vr Hv Hr]; subst. simpl in Hnd. inversion Hnd as [|? ? Hni Hnd']; subst.
    assert (Hrest : forall r, lookup n (change_kvs mo fr r) = None).
    { intros r. apply lookup_notin. intro HI. apply Hni. eapply keys_change_kvs. exact HI. }
    assert (Hpn : lookup n pre = None) by (apply lookup_notin; apply Hpre; left; reflexivity).
    unfold cf_ok in Hv. cbn [f_ty] in Hv.
    destruct ft; try contradiction.
    + (* string field *)
      destruct v as [s|]; try contradiction. cbn [change_kvs change_dec_x].
      destruct (om && String.eqb s "") eqn:Eom.
      * rewrite andb_true_iff in Eom. destruct Eom as [_ Es]. apply String.eqb_eq in Es. subst s.
        destruct (IH vr pre Hr Hnd') as [vs' [E1 E2]]; [intros m Hm; apply Hpre; right; exact Hm|].
        exists (CStr "" :: vs'). split.
        -- unfold cdec_x. rewrite lookup_app, Hrest, Hpn. cbn [rbind]. rewrite E1. reflexivity.
        -- constructor; [reflexivity|exact E2].
      * destruct (IH vr (pre ++ [(n, JStr s)])%list Hr Hnd') as [vs' [E1 E2]].
        { intros m Hm HI. unfold keys in HI. rewrite map_app in HI. apply in_app_or in HI.
          destruct HI as [HI|HI]; [apply (Hpre m); [right; exact Hm|exact HI]|].
          simpl in HI. destruct HI as [HI|[]]. subst m. apply Hni. exact Hm. }
        rewrite <- app_assoc in E1. simpl in E1.
        exists (CStr s :: vs'). split.
        -- unfold cdec_x. rewrite lookup_app. cbn [lookup]. rewrite Hrest, str_eqb_refl. cbn [dec rbind].
           rewrite E1. reflexivity.
        -- constructor; [reflexivity|exact E2].
    + (* *OSM field *)
      destruct ft; try contradiction. destruct v as [|[o|]]; try contradiction; cbn [change_kvs change_dec_x].
      * (* Some o *)
        destruct (osm_roundtrip mo mo_perm o Hv) as [o' [Eo Qo]].
        destruct (IH vr (pre ++ [(n, osm_marshal mo o)])%list Hr Hnd') as [vs' [E1 E2]].
        { intros m Hm HI. unfold keys in HI. rewrite map_app in HI. apply in_app_or in HI.
          destruct HI as [HI|HI]; [apply (Hpre m); [right; exact Hm|exact HI]|].
          simpl in HI. destruct HI as [HI|[]]. subst m. apply Hni. exact Hm. }
        rewrite <- app_assoc in E1. simpl in E1.
        exists (COsm (Some o') :: vs'). split.
        -- unfold cdec_x. rewrite lookup_app. cbn [lookup]. rewrite Hrest, str_eqb_refl.
           rewrite (marshal_is_doc_entries mo o) in *. rewrite Eo. cbn [rmap rbind].
           rewrite E1. reflexivity.
        -- constructor; [exact Qo|exact E2].
      * (* None *)
        destruct om.
        -- destruct (IH vr pre Hr Hnd') as [vs' [E1 E2]]; [intros m Hm; apply Hpre; right; exact Hm|].
           exists (COsm None :: vs'). split.
           ++ unfold cdec_x. rewrite lookup_app, Hrest, Hpn. cbn [rbind]. rewrite E1. reflexivity.
           ++ constructor; [exact I|exact E2].
        -- destruct (IH vr (pre ++ [(n, JNull)])%list Hr Hnd') as [vs' [E1 E2]].
           { intros m Hm HI. unfold keys in HI. rewrite map_app in HI. apply in_app_or in HI.
             destruct HI as [HI|HI]; [apply (Hpre m); [right; exact Hm|exact HI]|].
             simpl in HI. destruct HI as [HI|[]]. subst m. apply Hni. exact Hm. }
           rewrite <- app_assoc in E1. simpl in E1.
           exists (COsm None :: vs'). split.
           ++ unfold cdec_x. rewrite lookup_app. cbn [lookup]. rewrite Hrest, str_eqb_refl. cbn [rbind].
              rewrite E1. reflexivity.
           ++ constructor; [exact I|exact E2].
Qed.

Lemma f_Change_names : map f_name f_Change = names f_Change /\ NoDup (map f_name f_Change).
Proof. split; [reflexivity|]. vm_compute. repeat constructor; simpl; intuition discriminate. Qed.

Theorem change_roundtrip : forall c, wf_change c ->
  exists c', change_unmarshal (change_marshal mo c) = Ok c' /\ change_equiv c' c.
Proof.
  intros c [W1 [W2 W3]]. destruct f_Change_names as [En Hnd].
  assert (Hok : Forall2 cf_ok f_Change (change_fields c)).
  { unfold f_Change, change_fields. repeat constructor; unfold cf_ok; cbn [f_ty].
    - destruct (c_create c) eqn:E; [apply W1; reflexivity|exact I].
    - destruct (c_modify c) eqn:E; [apply W2; reflexivity|exact I].
    - destruct (c_delete c) eqn:E; [apply W3; reflexivity|exact I]. }
  destruct (change_fields_rt f_Change (change_fields c) [] Hok Hnd) as [vs' [E1 E2]]; [intros n _ []|].
  cbn [app] in E1. unfold change_unmarshal, change_marshal, change_dec.
  rewrite change_dec_exact;
    [|intros k Hk; rewrite <- En; eapply keys_change_kvs; exact Hk|apply change_kvs_nodup; exact Hnd].
  rewrite E1. cbn [rbind]. unfold change_fields in E2.
  inversion E2 as [|v1 ? l1 ? H1 E3]; subst. inversion E3 as [|v2 ? l2 ? H2 E4]; subst.
  inversion E4 as [|v3 ? l3 ? H3 E5]; subst. inversion E5 as [|v4 ? l4 ? H4 E6]; subst.
  inversion E6 as [|v5 ? l5 ? H5 E7]; subst. inversion E7 as [|v6 ? l6 ? H6 E8]; subst.
  inversion E8 as [|v7 ? l7 ? H7 E9]; subst. inversion E9 as [|v8 ? l8 ? H8 E10]; subst.
  inversion E10; subst.
  destruct v1; simpl in H1; try contradiction. destruct v2; simpl in H2; try contradiction.
  destruct v3; simpl in H3; try contradiction. destruct v4; simpl in H4; try contradiction.
  destruct v5; simpl in H5; try contradiction. destruct v6; simpl in H6; try contradiction.
  destruct v7; simpl in H7; try contradiction. destruct v8; simpl in H8; try contradiction.
  eexists. split; [reflexivity|]. unfold change_equiv; cbn. repeat split; assumption.
Qed.
End Change.
