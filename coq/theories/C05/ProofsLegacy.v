(* C05/ProofsLegacy.v — the two defects of the unchanged tree (/repo 8c4814b), as refutations
   of the property's statements over the model of the code as it was (the *_legacy definitions
   of C05/Osm.v).  Both were replayed on the real implementation and repaired
   (/repo f6e3a8f, bbea2b1); the positive theorems are about the repaired code. *)
From Coq Require Import ZArith List String Ascii Bool.
From Verif Require Import C05.Json C05.Schema C05.Model C05.Fmt C05.Osm C05.Spec.
From VerifGen Require Import GenJsonTags.
Import ListNotations.
Open Scope string_scope.
Open Scope Z_scope.

Definition std := @sort_kv string.

Definition doc_without_version : json := JObj [("elements", JArr [])].

Lemma absent_version_legacy :
  lookup "version" [("elements", JArr [])] = None /\
  exists o, osm_unmarshal_legacy doc_without_version = Ok o /\ o_version o = "<nil>".
Proof. split; [reflexivity|]. eexists. split; vm_compute; reflexivity. Qed.

Definition osm_with_bounds : osmv :=
  mkOsm "" "" "" "" "" (Some (VStruct [VFloat 1 0; VFloat 2 0; VFloat 3 0; VFloat 4 0])) [] [] [] [] [] [].

Lemma own_output_legacy :
  wf_osm osm_with_bounds = true /\
  osmjson_shape (osm_marshal_legacy std osm_with_bounds) = false /\
  osm_unmarshal_legacy (osm_marshal_legacy std osm_with_bounds) = Err.
Proof. repeat split; vm_compute; reflexivity. Qed.

(* the same inputs on the repaired code *)
Lemma absent_version_fixed :
  exists o, osm_unmarshal doc_without_version = Ok o /\ o_version o = "".
Proof. eexists. split; vm_compute; reflexivity. Qed.

Lemma own_output_fixed :
  osmjson_shape (osm_marshal std osm_with_bounds) = true /\
  osm_unmarshal (osm_marshal std osm_with_bounds) = Ok osm_with_bounds.
Proof. split; vm_compute; reflexivity. Qed.

(* ---- the domain boundary of the round trip: duplicate tag keys --------------------------
   osm.Tags is a slice, so a Go value CAN hold two tags with the same key; osmjson writes tags
   as a JSON object, which cannot (and OSM itself does not allow it on an element).  Such a
   value is outside the property's domain (wf requires distinct keys); what happens to it: the
   last tag with the key wins and the round trip returns fewer tags. *)
Definition dup_tags : val := VList [mk_tag ("a", "1"); mk_tag ("a", "2")].

Lemma duplicate_tag_keys_collapse :
  wf TTags dup_tags = false /\
  enc std TTags dup_tags = JObj [("a", JStr "2")] /\
  dec TTags (enc std TTags dup_tags) = Ok (VList [mk_tag ("a", "2")]) /\
  canon TTags (VList [mk_tag ("a", "2")]) <> canon TTags dup_tags.
Proof. repeat split; try (vm_compute; reflexivity). vm_compute. discriminate. Qed.
