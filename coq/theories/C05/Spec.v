(* C05/Spec.v — the property's own vocabulary, written down independently of the model:
   (1) the osmjson shape of a document (names of Overpass/OSM-API osmjson, not read from
       /repo), (2) the explicit equivalence "same elements up to tag order and up to the
       annotations osmjson has no place for". Executable; used as the property oracle on what
       the implementation returned and as the statement language of the theorems. *)
From Coq Require Import ZArith List String Ascii Bool.
From Verif Require Import C05.Json C05.Schema C05.Model C05.Fmt C05.Osm C05.SortTags.
From VerifGen Require Import GenJsonTags.
Import ListNotations.
Open Scope string_scope.
Open Scope Z_scope.

(* ---- (1) osmjson shape ------------------------------------------------------------------ *)
Definition osmjson_types : list string :=
  ["node"; "way"; "relation"; "changeset"; "note"; "user"; "bounds"].
Definition member_types : list string := ["node"; "way"; "relation"].

Definition mem_str (s : string) (l : list string) : bool := existsb (String.eqb s) l.

Definition is_int_num (j : json) : bool := match j with JNum _ k => k =? 0 | _ => false end.
Definition is_str (j : json) : bool := match j with JStr _ => true | _ => false end.

(* an array (never null) of integer ids *)
Definition id_array (j : json) : bool :=
  match j with JArr l => forallb is_int_num l | _ => false end.

(* a JSON object whose values are all strings *)
Definition tags_object (j : json) : bool :=
  match j with JObj kv => forallb (fun p => is_str (snd p)) kv | _ => false end.

Definition opt_ok (o : option json) (p : json -> bool) : bool :=
  match o with None => true | Some j => p j end.
Definition req_ok (o : option json) (p : json -> bool) : bool :=
  match o with None => false | Some j => p j end.

Definition member_shape (j : json) : bool :=
  match j with
  | JObj kv =>
      req_ok (lookup "type" kv) is_str
      && req_ok (lookup "ref" kv) is_int_num
      && req_ok (lookup "role" kv) is_str
      && opt_ok (lookup "nodes" kv) id_array
  | _ => false
  end.

(* members: an array, never null *)
Definition members_array (j : json) : bool :=
  match j with JArr l => forallb member_shape l | _ => false end.

Definition type_of (kv : list (string * json)) : option string :=
  match lookup "type" kv with Some (JStr t) => Some t | _ => None end.

Definition element_shape (j : json) : bool :=
  match j with
  | JObj kv =>
      match type_of kv with
      | Some t =>
          mem_str t osmjson_types
          && opt_ok (lookup "tags" kv) tags_object
          && (if String.eqb t "way" then req_ok (lookup "nodes" kv) id_array else true)
          && (if String.eqb t "relation" then req_ok (lookup "members" kv) members_array else true)
      | None => false
      end
  | _ => false
  end.

Definition osmjson_shape (j : json) : bool :=
  match j with
  | JObj kv => match lookup "elements" kv with
               | Some (JArr es) => forallb element_shape es
               | _ => false
               end
  | _ => false
  end.

(* ---- (2) the equivalence ------------------------------------------------------------------
   canon t v: tags sorted by (an injective integer code of) the key (so two tag lists with the same key/value pairs and distinct
   keys have the same canon), way nodes reduced to their ids (Version, ChangesetID, Lat, Lon of
   a WayNode have no place in osmjson), json:"-" fields dropped.   v ~ v'  :=  canon v = canon v' *)
Fixpoint canon (t : ty) (v : val) {struct t} : val :=
  match t, v with
  | TTags, VList l => VList (map mk_tag (sort_tags (tag_pairs l)))
  | TWayNodes fs, VList l => VList (map (fun n => mk_waynode fs (wn_id n)) l)
  | TMembers t', VList l | TSlice t', VList l => VList (map (canon t') l)
  | TPtr t', VSome x => VSome (canon t' x)
  | TStruct fs, VStruct vs =>
      VStruct ((fix go (fs : list field) (vs : list val) {struct fs} : list val :=
                  match fs, vs with
                  | Field _ _ _ ft :: fr, x :: vr => canon ft x :: go fr vr
                  | _, _ => []
                  end) fs vs)
  | TSkip, _ => VUnit
  | _, _ => v
  end.

Definition equiv (t : ty) (a b : val) : Prop := canon t a = canon t b.
Definition equivb (t : ty) (a b : val) : bool := val_eqb (canon t a) (canon t b).

Definition canon_osm (o : osmv) : osmv :=
  mkOsm (o_version o) (o_generator o) (o_copyright o) (o_attribution o) (o_license o)
        (option_map (canon t_Bounds) (o_bounds o))
        (map (canon t_Node) (o_nodes o)) (map (canon t_Way) (o_ways o))
        (map (canon t_Relation) (o_relations o)) (map (canon t_Changeset) (o_changesets o))
        (map (canon t_Note) (o_notes o)) (map (canon t_User) (o_users o)).

Definition osm_equiv (a b : osmv) : Prop := canon_osm a = canon_osm b.
Definition osm_equivb (a b : osmv) : bool :=
  val_eqb (osm_to_val (canon_osm a)) (osm_to_val (canon_osm b)).

(* trees compared up to the order of the entries of every "tags" object (a Go map) *)
Fixpoint canon_json (j : json) : json :=
  match j with
  | JArr l => JArr (map canon_json l)
  | JObj kv =>
      JObj ((fix go (kv : list (string * json)) : list (string * json) :=
               match kv with
               | [] => []
               | (k, x) :: r =>
                   (k, if String.eqb k "tags"
                       then match x with JObj tv => JObj (sort_kv tv) | _ => canon_json x end
                       else canon_json x) :: go r
               end) kv)
  | _ => j
  end.
Definition json_equivb (a b : json) : bool := json_eqb (canon_json a) (canon_json b).

(* ---- (3) what a document says about the header fields ------------------------------------
   Written independently of the model's key resolution (Json.resolve / entries_f): a document
   key names a header field when it equals the field's osmjson name up to ASCII case (the
   table below), and the document "gives" the field when exactly one key does.  Documents
   that repeat a header key are outside this specification (no claim). *)
Definition lower_spec (c : ascii) : ascii :=
  match c with
  | "A" => "a" | "B" => "b" | "C" => "c" | "D" => "d" | "E" => "e" | "F" => "f" | "G" => "g"
  | "H" => "h" | "I" => "i" | "J" => "j" | "K" => "k" | "L" => "l" | "M" => "m" | "N" => "n"
  | "O" => "o" | "P" => "p" | "Q" => "q" | "R" => "r" | "S" => "s" | "T" => "t" | "U" => "u"
  | "V" => "v" | "W" => "w" | "X" => "x" | "Y" => "y" | "Z" => "z" | c => c
  end%char.
Fixpoint eq_nocase (a b : string) : bool :=
  match a, b with
  | EmptyString, EmptyString => true
  | String x a', String y b' => Ascii.eqb (lower_spec x) (lower_spec y) && eq_nocase a' b'
  | _, _ => false
  end.

Definition field_values (n : string) (kv : list (string * json)) : list json :=
  map snd (filter (fun p => eq_nocase (fst p) n) kv).

Inductive given : Type := Absent | Given (j : json) | Repeated.
Definition header_entry (n : string) (kv : list (string * json)) : given :=
  match field_values n kv with [] => Absent | [j] => Given j | _ => Repeated end.

(* the text of a JSON number as fmt's %v prints the float64 (C05/Fmt.v: a model of strconv's
   shortest 'g' formatting, tied to the implementation by correspondence and examples only) *)
Definition number_text : Z -> Z -> string := fmt_g.

(* version: absent or null stays EMPTY; a string is taken as is; a number becomes its text *)
Definition version_spec (kv : list (string * json)) (s : string) : Prop :=
  match header_entry "version" kv with
  | Absent | Given JNull => s = ""
  | Given (JStr x) => s = x
  | Given (JNum m k) => s = number_text m k
  | Given (JBool b) => s = (if b then "true" else "false")
  | Given _ => False                    (* arrays / objects: the model makes no prediction *)
  | Repeated => True
  end.
(* the other header fields: absent or null stays EMPTY, a string is taken as is, anything else
   cannot decode *)
Definition string_field_spec (kv : list (string * json)) (n : string) (s : string) : Prop :=
  match header_entry n kv with
  | Absent | Given JNull => s = ""
  | Given (JStr x) => s = x
  | Given _ => False
  | Repeated => True
  end.
