(* C05/CodecGeneric.v — the codec threaded explicitly through the WHOLE generic encoder and
   decoder (not only the helpers): [enc_c e c] is the struct walk performed by the enclosing
   codec [e]; at every type with a hand-written MarshalJSON the method's bytes — produced by
   the configured codec [c] through marshalJSON, or a byte literal — are re-read by [e] and
   embedded.  Members.MarshalJSON hands the whole member slice to [c], which then is the
   enclosing codec of everything inside.  [dec_c e c s] likewise: [e] hands the raw bytes of a
   subtree to the UnmarshalJSON method, which parses them with the codec it calls ([c] for
   WayNodes, encoding/json [s] for Tags — see GenOk.Codec_entry_points).
   Theorems: under the laws of C05/Codec.v these equal the tree-level [enc (c_mapord c)] and
   [dec], for every type descriptor and every value: no result can depend on which lawful
   codec is installed, except through the order of map entries. *)
From Coq Require Import ZArith List String Ascii Bool Permutation.
From Verif Require Import C05.Json C05.Schema C05.Model C05.Fmt C05.Osm C05.Spec C05.Fields
     C05.ProofsGeneric C05.ProofsOsm C05.Codec.
From VerifGen Require Import GenJsonTags.
Import ListNotations.

Arguments c_ser {bytes} _ _.
Arguments c_par {bytes} _ _.
Arguments c_raw {bytes} _ _.
Arguments c_mapord {bytes} _ _.

Fixpoint map_opt {A B} (f : A -> option B) (l : list A) : option (list B) :=
  match l with
  | [] => Some []
  | a :: r => match f a, map_opt f r with Some b, Some bs => Some (b :: bs) | _, _ => None end
  end.

Fixpoint enc_fields_with (f : ty -> val -> option json) (fs : list field) (vs : list val)
  : option (list (string * json)) :=
  match fs, vs with
  | Field _ n om ft :: fr, x :: vr =>
      match ft with
      | TSkip => enc_fields_with f fr vr
      | _ => if om && is_empty x then enc_fields_with f fr vr
             else match f ft x, enc_fields_with f fr vr with
                  | Some j, Some r => Some ((n, j) :: r)
                  | _, _ => None
                  end
      end
  | _, _ => Some []
  end.

Fixpoint dec_fields_with (f : ty -> json -> res val) (ns : list string) (kv : list (string * json))
         (fs : list field) : res (list val) :=
  match fs with
  | [] => Ok []
  | Field _ n _ ft :: fr =>
      rbind (match ft with
             | TSkip => Ok VUnit
             | _ => dec_occs (f ft) ft (entries_f ns n kv)
             end)
            (fun v => rbind (dec_fields_with f ns kv fr) (fun vs => Ok (v :: vs)))
  end.

Section UnmarshalExt.
Variables (vt : json -> res string) (add1 add2 : osmv -> json -> res osmv).
Hypothesis Hadd : forall o j, add1 o j = add2 o j.

Lemma add_elements_ext : forall l o, add_elements add1 o l = add_elements add2 o l.
Proof.
  induction l as [|x r IH]; intros o; [reflexivity|].
  cbn [add_elements]. destruct x; try reflexivity. rewrite Hadd.
  destruct (add2 o j); cbn [rbind]; try reflexivity. apply IH.
Qed.

Lemma unmarshal_with_ext : forall o0 doc,
  unmarshal_with vt add1 o0 doc = unmarshal_with vt add2 o0 doc.
Proof.
  intros o0 doc. unfold unmarshal_with.
  destruct (dec (TStruct f_OSM_UnmarshalJSON) doc) as [v| |]; cbn [rbind]; try reflexivity.
  repeat (match goal with |- context [match ?x with _ => _ end] => destruct x end; try reflexivity).
  all: match goal with |- context [vt ?j] => destruct (vt j); cbn [rbind]; try reflexivity end.
  all: apply add_elements_ext.
Qed.
End UnmarshalExt.

Section CodecGeneric.
Variable bytes : Type.
Variable sem : bytes -> option json.
Variable lit : json -> bytes.
Hypothesis lit_sem : forall t, sem (lit t) = Some t.
Notation codec := (codec bytes).
Notation lawful := (lawful bytes sem).

Variables c s : codec.          (* configured codec; encoding/json *)
Hypothesis Hc : lawful c.
Hypothesis Hs : lawful s.

Fixpoint enc_c (e : codec) (t : ty) (v : val) {struct t} : option json :=
  match t, v with
  | TInt _ _, VInt z => Some (JNum z 0)
  | TFloat, VFloat m k => Some (JNum m k)
  | TBool, VBool b => Some (JBool b)
  | TStr, VStr x => Some (JStr x)
  | TTime, VTime x => Some (JStr x)
  | TDate, VTime x =>                                   (* Date.MarshalJSON *)
      c_par e (if String.eqb x zero_time then lit JNull else c_ser c (JStr x))
  | TShim n, _ => c_par e (lit (JStr n))                (* shim MarshalJSON: a byte literal *)
  | TAny, VJson j => Some j
  | TObjects, VList l => Some (JArr (map (fun v => match v with VJson j => j | _ => JNull end) l))
  | TTags, VList l =>                                   (* Tags.MarshalJSON: marshalJSON(ts.Map()) *)
      c_par e (c_ser c (JObj (map (fun p => (fst p, JStr (snd p))) (c_mapord c (dedup_last (tag_pairs l))))))
  | TWayNodes _, VList l =>                             (* WayNodes.MarshalJSON: marshalJSON([]int64) *)
      c_par e (c_ser c (JArr (map (fun n => JNum (wn_id n) 0) l)))
  | TMembers t', VList l =>                             (* Members.MarshalJSON *)
      match l with
      | [] => c_par e (lit (JArr []))
      | _ => match map_opt (enc_c c t') l with          (* marshalJSON([]Member(ms)): c walks the members *)
             | Some js => c_par e (c_ser c (JArr js))
             | None => None
             end
      end
  | TPtr _, VNone => Some JNull
  | TPtr t', VSome v' => enc_c e t' v'
  | TSlice _, VList [] => Some JNull
  | TSlice t', VList l => option_map JArr (map_opt (enc_c e t') l)
  | TStruct fs, VStruct vs =>
      option_map JObj
        ((fix go (fs : list field) (vs : list val) {struct fs} : option (list (string * json)) :=
            match fs, vs with
            | Field _ n om ft :: fr, x :: vr =>
                match ft with
                | TSkip => go fr vr
                | _ => if om && is_empty x then go fr vr
                       else match enc_c e ft x, go fr vr with
                            | Some j, Some r => Some ((n, j) :: r)
                            | _, _ => None
                            end
                end
            | _, _ => Some []
            end) fs vs)
  | _, _ => Some JNull
  end.

Lemma enc_c_struct : forall e fs vs,
  enc_c e (TStruct fs) (VStruct vs) = option_map JObj (enc_fields_with (enc_c e) fs vs).
Proof.
  intros e fs. induction fs as [|[g n om ft] fr IH]; intros vs.
  - destruct vs; reflexivity.
  - destruct vs as [|x vr]; [reflexivity|].
    specialize (IH vr). cbn [enc_c] in IH.
    assert (E : forall a b : option (list (string * json)), option_map JObj a = option_map JObj b -> a = b)
      by (intros [a|] [b|] H; simpl in H; congruence).
    apply E in IH. cbn [enc_c enc_fields_with]. rewrite IH. destruct ft; reflexivity.
Qed.

Lemma reread : forall (e k : codec) t, lawful e -> lawful k -> c_par e (c_ser k t) = Some t.
Proof. intros e k t [_ [_ [E3 _]]] [K1 _]. apply E3, K1. Qed.
Lemma reread_lit : forall (e : codec) t, lawful e -> c_par e (lit t) = Some t.
Proof. intros e t [_ [_ [E3 _]]]. apply E3, lit_sem. Qed.

Lemma map_opt_some : forall {A B} (f : A -> option B) (g : A -> B) l,
  (forall a, In a l -> f a = Some (g a)) -> map_opt f l = Some (map g l).
Proof.
  intros A B f g l. induction l as [|a r IH]; intros H; [reflexivity|].
  simpl. rewrite (H a (or_introl eq_refl)), IH; [reflexivity|]. intros b Hb. apply H. right. exact Hb.
Qed.

Theorem enc_c_ok : forall t e v, lawful e -> enc_c e t v = Some (enc (c_mapord c) t v).
Proof.
  intros t. pattern t.
  apply (ty_ind' _ (fun fs => forall e vs, lawful e ->
           enc_fields_with (enc_c e) fs vs = Some (enc_fields (c_mapord c) fs vs))); clear t;
    try (intros; destruct v; reflexivity).
  - (* TDate *) intros e v He. destruct v; try reflexivity. cbn [enc_c enc].
    destruct (String.eqb s0 zero_time); [apply reread_lit; exact He|apply reread; assumption].
  - (* TShim *) intros n e v He. cbn [enc_c]. rewrite reread_lit by exact He. destruct v; reflexivity.
  - (* TTags *) intros e v He. destruct v; try reflexivity. cbn [enc_c enc]. apply reread; assumption.
  - (* TWayNodes *) intros fs _ e v He. destruct v; try reflexivity. cbn [enc_c enc]. apply reread; assumption.
  - (* TMembers *) intros t IH e v He. destruct v; try reflexivity. cbn [enc_c enc].
    destruct l as [|a l]; [apply reread_lit; exact He|].
    rewrite (map_opt_some _ (enc (c_mapord c) t)) by (intros x _; apply IH; exact Hc).
    apply reread; assumption.
  - (* TPtr *) intros t IH e v He. destruct v; try reflexivity. cbn [enc_c enc]. apply IH. exact He.
  - (* TSlice *) intros t IH e v He. destruct v; try reflexivity. destruct l as [|a l]; [reflexivity|].
    cbn [enc_c enc]. rewrite (map_opt_some _ (enc (c_mapord c) t)) by (intros x _; apply IH; exact He).
    reflexivity.
  - (* TStruct *) intros fs IH e v He. destruct v; try reflexivity. rewrite enc_c_struct, (IH e l He), enc_struct. reflexivity.
  - (* nil *) intros e vs He. destruct vs; reflexivity.
  - (* cons *) intros g n o t fs IHt IHfs e vs He. destruct vs as [|x vr]; [reflexivity|].
    cbn [enc_fields_with enc_fields]. rewrite (IHfs e vr He), (IHt e x He).
    destruct t; try reflexivity; destruct (o && is_empty x); reflexivity.
Qed.

(* ---- decoder ---- *)
Fixpoint dec_c (e : codec) (t : ty) (j : json) {struct t} : res val :=
  match t with
  | TTags =>                          (* Tags.UnmarshalJSON(raw): json.Unmarshal, i.e. codec s *)
      match c_par s (c_raw e j) with Some j' => dec TTags j' | None => Err end
  | TWayNodes fs =>                   (* WayNodes.UnmarshalJSON(raw): unmarshalJSON, i.e. codec c *)
      match c_par c (c_raw e j) with Some j' => dec (TWayNodes fs) j' | None => Err end
  | TMembers t' | TSlice t' =>
      match j with
      | JNull => Ok (VList [])
      | JArr l => rmap VList (map_res (dec_c e t') l)
      | _ => Err
      end
  | TPtr t' => match j with JNull => Ok VNone | _ => rmap VSome (dec_c e t' j) end
  | TStruct fs =>
      match j with
      | JNull => Ok (zero (TStruct fs))
      | JObj kv =>
          rmap VStruct
            ((fix go (fr : list field) : res (list val) :=
                match fr with
                | [] => Ok []
                | Field _ n _ ft :: fr' =>
                    rbind (match ft with
                           | TSkip => Ok VUnit
                           | _ => dec_occs (dec_c e ft) ft (entries_f (names fs) n kv)
                           end)
                          (fun v => rbind (go fr') (fun vs => Ok (v :: vs)))
                end) fs)
      | _ => Err
      end
  | _ => dec t j                      (* no codec involved: scalars, times, shims, raw messages *)
  end.

Lemma dec_c_struct_gen : forall e ns kv fs,
  (fix go (fr : list field) : res (list val) :=
     match fr with
     | [] => Ok []
     | Field _ n _ ft :: fr' =>
         rbind (match ft with
                | TSkip => Ok VUnit
                | _ => dec_occs (dec_c e ft) ft (entries_f ns n kv)
                end)
               (fun v => rbind (go fr') (fun vs => Ok (v :: vs)))
     end) fs = dec_fields_with (dec_c e) ns kv fs.
Proof.
  intros e ns kv fs. induction fs as [|[g n om ft] fr IH]; [reflexivity|].
  cbn [dec_fields_with]. rewrite <- IH. reflexivity.
Qed.

Lemma dec_occs_ext : forall (d1 d2 : json -> res val) t js, (forall j, d1 j = d2 j) -> dec_occs d1 t js = dec_occs d2 t js.
Proof.
  intros d1 d2 t js H. unfold dec_occs. destruct js as [|j [|j2 r]]; [reflexivity|apply H|].
  destruct (seq_type t); [|reflexivity].
  generalize (Ok (zero t)) as acc. generalize (j :: j2 :: r) as l.
  induction l as [|x l IH]; intros acc; [reflexivity|]. cbn [fold_left]. rewrite H. apply IH.
Qed.

Lemma map_res_ext : forall {A B} (f g : A -> res B) l, (forall a, f a = g a) -> map_res f l = map_res g l.
Proof. intros A B f g l H. induction l as [|a r IH]; [reflexivity|]. simpl. rewrite H, IH. reflexivity. Qed.

Theorem dec_c_ok : forall t e j, lawful e -> dec_c e t j = dec t j.
Proof.
  intros t. pattern t.
  apply (ty_ind' _ (fun fs => forall e ns kv, lawful e ->
           dec_fields_with (dec_c e) ns kv fs = dec_fields ns kv fs)); clear t;
    try (intros; reflexivity).
  - (* TTags *) intros e j [_ [E2 _]]. cbn [dec_c]. destruct Hs as [_ [_ [S3 _]]]. rewrite (S3 _ _ (E2 j)). reflexivity.
  - (* TWayNodes *) intros fs _ e j [_ [E2 _]]. cbn [dec_c]. destruct Hc as [_ [_ [C3 _]]]. rewrite (C3 _ _ (E2 j)). reflexivity.
  - (* TMembers *) intros t IH e j He. cbn [dec_c dec]. destruct j; try reflexivity.
    rewrite (map_res_ext _ (dec t)) by (intros a; apply IH; exact He). reflexivity.
  - (* TPtr *) intros t IH e j He. cbn [dec_c dec]. destruct j; try reflexivity; rewrite IH by exact He; reflexivity.
  - (* TSlice *) intros t IH e j He. cbn [dec_c dec]. destruct j; try reflexivity.
    rewrite (map_res_ext _ (dec t)) by (intros a; apply IH; exact He). reflexivity.
  - (* TStruct *) intros fs IH e j He. destruct j; try reflexivity.
    rewrite dec_struct. cbn [dec_c]. rewrite dec_c_struct_gen, IH by exact He. reflexivity.
  - (* cons *) intros g n o t fs IHt IHfs e ns kv He. cbn [dec_fields_with dec_fields].
    rewrite IHfs by exact He. unfold dec_field.
    rewrite (dec_occs_ext (dec_c e t) (dec t)) by (intros j; apply IHt; exact He). reflexivity.
Qed.

(* ---- the containers, every call spelled out ---- *)
(* OSM.MarshalJSON: marshalJSON(struct{..., Elements}) — c walks the header struct and every
   element; the caller (json.Marshal of the user, codec [top]) re-reads the method's bytes *)
Definition osm_marshal_c (top : codec) (o : osmv) : option json :=
  match map_opt (fun p => enc_c c (fst p) (snd p))
          (match o_bounds o with Some b => [(t_jsonBoundsElement, bounds_element b)] | None => [] end
           ++ map (pair t_Node) (o_nodes o) ++ map (pair t_Way) (o_ways o)
           ++ map (pair t_Relation) (o_relations o) ++ map (pair t_Changeset) (o_changesets o)
           ++ map (pair t_User) (o_users o) ++ map (pair t_Note) (o_notes o))%list with
  | Some els =>
      match enc_c c (TStruct f_OSM_MarshalJSON)
              (VStruct [VStr (o_version o); VStr (o_generator o); VStr (o_copyright o);
                        VStr (o_attribution o); VStr (o_license o); VList (map VJson els)]) with
      | Some tree => c_par top (c_ser c tree)
      | None => None
      end
  | None => None
  end.

Theorem osm_marshal_c_ok : forall top o, lawful top ->
  osm_marshal_c top o = Some (osm_marshal (c_mapord c) o).
Proof.
  intros top o Ht. unfold osm_marshal_c.
  rewrite (map_opt_some _ (fun p => enc (c_mapord c) (fst p) (snd p))) by (intros p _; apply enc_c_ok; exact Hc).
  rewrite enc_c_ok by exact Hc. rewrite (reread top c _ Ht Hc).
  unfold osm_marshal, marshal_with, objects. do 3 f_equal.
  rewrite !map_app, !map_map. destruct (o_bounds o); reflexivity.
Qed.

(* OSM.UnmarshalJSON: unmarshalJSON(data, &s) by c; every element is a raw message handed to
   findType (unmarshalJSON by c) and to the element decoder (unmarshalJSON by c, which walks
   the element struct and calls the UnmarshalJSON methods inside) *)
Definition find_type_c (raw : bytes) : res string :=
  match c_par c raw with Some j => find_type j | None => Err end.

Definition add_element_c (o : osmv) (j : json) : res osmv :=
  let raw := c_raw c j in
  rbind (find_type_c raw) (fun t =>
    match c_par c raw with
    | None => Err
    | Some j' =>
        let upd (ty : ty) (f : val -> osmv) := rmap f (dec_c c ty j') in
        if String.eqb t "bounds" then
          upd t_Bounds (fun b => mkOsm (o_version o) (o_generator o) (o_copyright o) (o_attribution o)
            (o_license o) (Some b) (o_nodes o) (o_ways o) (o_relations o) (o_changesets o) (o_notes o) (o_users o))
        else if String.eqb t "node" then
          upd t_Node (fun x => mkOsm (o_version o) (o_generator o) (o_copyright o) (o_attribution o)
            (o_license o) (o_bounds o) (o_nodes o ++ [x]) (o_ways o) (o_relations o) (o_changesets o) (o_notes o) (o_users o))
        else if String.eqb t "way" then
          upd t_Way (fun x => mkOsm (o_version o) (o_generator o) (o_copyright o) (o_attribution o)
            (o_license o) (o_bounds o) (o_nodes o) (o_ways o ++ [x]) (o_relations o) (o_changesets o) (o_notes o) (o_users o))
        else if String.eqb t "relation" then
          upd t_Relation (fun x => mkOsm (o_version o) (o_generator o) (o_copyright o) (o_attribution o)
            (o_license o) (o_bounds o) (o_nodes o) (o_ways o) (o_relations o ++ [x]) (o_changesets o) (o_notes o) (o_users o))
        else if String.eqb t "changeset" then
          upd t_Changeset (fun x => mkOsm (o_version o) (o_generator o) (o_copyright o) (o_attribution o)
            (o_license o) (o_bounds o) (o_nodes o) (o_ways o) (o_relations o) (o_changesets o ++ [x]) (o_notes o) (o_users o))
        else if String.eqb t "note" then
          upd t_Note (fun x => mkOsm (o_version o) (o_generator o) (o_copyright o) (o_attribution o)
            (o_license o) (o_bounds o) (o_nodes o) (o_ways o) (o_relations o) (o_changesets o) (o_notes o ++ [x]) (o_users o))
        else if String.eqb t "user" then
          upd t_User (fun x => mkOsm (o_version o) (o_generator o) (o_copyright o) (o_attribution o)
            (o_license o) (o_bounds o) (o_nodes o) (o_ways o) (o_relations o) (o_changesets o) (o_notes o) (o_users o ++ [x]))
        else Err
    end).

Lemma add_element_c_ok : forall o j, add_element_c o j = add_element o j.
Proof.
  intros o j. unfold add_element_c, add_element, find_type_c.
  destruct Hc as [_ [C2 [C3 _]]]. rewrite (C3 _ _ (C2 j)).
  destruct (find_type j) as [t| |]; cbn [rbind]; [|reflexivity|reflexivity].
  rewrite !(dec_c_ok _ c j Hc). reflexivity.
Qed.

Definition osm_unmarshal_c (data : bytes) : res osmv :=
  match c_par c data with
  | Some doc => unmarshal_with version_text add_element_c empty_osm doc
  | None => Err
  end.

Theorem osm_unmarshal_c_ok : forall data doc, sem data = Some doc ->
  osm_unmarshal_c data = osm_unmarshal doc.
Proof.
  intros data doc H. unfold osm_unmarshal_c, osm_unmarshal.
  destruct Hc as [_ [_ [C3 _]]]. rewrite (C3 _ _ H).
  apply unmarshal_with_ext. exact add_element_c_ok.
Qed.

(* end to end, every call through its codec: a value written under configuration c and read
   back under configuration c comes back equivalent *)
Theorem roundtrip_all_through_codec : forall top o, lawful top -> wf_osm o = true ->
  exists tree o', osm_marshal_c top o = Some tree /\
    osm_unmarshal_c (c_ser top tree) = Ok o' /\ osm_equiv o' o.
Proof.
  intros top o Ht Hw. destruct Hc as [C1 [C2 [C3 C4]]].
  destruct (osm_roundtrip (c_mapord c) C4 o Hw) as [o' [E Q]].
  exists (osm_marshal (c_mapord c) o), o'. split; [apply osm_marshal_c_ok; exact Ht|].
  split; [|exact Q]. rewrite (osm_unmarshal_c_ok _ (osm_marshal (c_mapord c) o)); [exact E|].
  destruct Ht as [T1 _]. apply T1.
Qed.
End CodecGeneric.
