(* C05/Osm.v — model of the hand-written container methods (definitions only):
   OSM.Objects, OSM.MarshalJSON, findType, OSM.UnmarshalJSON (osm.go) and the default struct
   coding of Change with its nested *OSM (change.go).  Models /repo at the two C05 fix
   commits (version stays empty; bounds element typed); the pre-fix behaviour is kept as
   [version_text_legacy] / [objects_legacy] for the refutation witnesses. *)
From Coq Require Import ZArith List String Ascii Bool.
From Verif Require Import C05.Json C05.Schema C05.Model C05.Fmt.
From VerifGen Require Import GenJsonTags.
Import ListNotations.
Open Scope string_scope.
Open Scope Z_scope.

Record osmv : Type := mkOsm {
  o_version : string; o_generator : string; o_copyright : string;
  o_attribution : string; o_license : string;
  o_bounds : option val;
  o_nodes : list val; o_ways : list val; o_relations : list val;
  o_changesets : list val; o_notes : list val; o_users : list val }.

Definition empty_osm : osmv := mkOsm "" "" "" "" "" None [] [] [] [] [] [].

(* the Go struct OSM as a generic value (field order of osm.go; GenOk checks the names) *)
Definition opt_val (o : option val) : val := match o with Some v => VSome v | None => VNone end.
Definition osm_to_val (o : osmv) : val :=
  VStruct [VStr (o_version o); VStr (o_generator o); VStr (o_copyright o);
           VStr (o_attribution o); VStr (o_license o); opt_val (o_bounds o);
           VList (o_nodes o); VList (o_ways o); VList (o_relations o);
           VList (o_changesets o); VList (o_notes o); VList (o_users o)].
Definition osm_of_val (v : val) : option osmv :=
  match v with
  | VStruct [VStr a; VStr b; VStr c; VStr d; VStr e; bo; VList n; VList w; VList r;
             VList cs; VList nt; VList u] =>
      match bo with
      | VNone => Some (mkOsm a b c d e None n w r cs nt u)
      | VSome x => Some (mkOsm a b c d e (Some x) n w r cs nt u)
      | _ => None
      end
  | _ => None
  end.

Definition wf_osm (o : osmv) : bool := wf t_OSM (osm_to_val o).

(* ---- marshal -------------------------------------------------------------------------- *)
Section Marshal.
Variable mapord : list (string * string) -> list (string * string).

(* jsonBoundsElement{Type: TypeBounds, Bounds: b} *)
Definition bounds_element (b : val) : val :=
  match b with VStruct fs => VStruct (VStr bounds_type_name :: fs) | _ => b end.

(* OSM.Objects() followed by the bounds wrapping loop of OSM.MarshalJSON, each element
   already encoded: bounds, nodes, ways, relations, changesets, users, notes *)
Definition objects (o : osmv) : list json :=
  match o_bounds o with
  | Some b => [enc mapord t_jsonBoundsElement (bounds_element b)]
  | None => []
  end
  ++ map (enc mapord t_Node) (o_nodes o)
  ++ map (enc mapord t_Way) (o_ways o)
  ++ map (enc mapord t_Relation) (o_relations o)
  ++ map (enc mapord t_Changeset) (o_changesets o)
  ++ map (enc mapord t_User) (o_users o)
  ++ map (enc mapord t_Note) (o_notes o).

(* before fix bbea2b1: the bounds went out as a plain Bounds struct, without "type" *)
Definition objects_legacy (o : osmv) : list json :=
  match o_bounds o with Some b => [enc mapord t_Bounds b] | None => [] end
  ++ map (enc mapord t_Node) (o_nodes o)
  ++ map (enc mapord t_Way) (o_ways o)
  ++ map (enc mapord t_Relation) (o_relations o)
  ++ map (enc mapord t_Changeset) (o_changesets o)
  ++ map (enc mapord t_User) (o_users o)
  ++ map (enc mapord t_Note) (o_notes o).

Definition marshal_with (objs : osmv -> list json) (o : osmv) : json :=
  enc mapord (TStruct f_OSM_MarshalJSON)
      (VStruct [VStr (o_version o); VStr (o_generator o); VStr (o_copyright o);
                VStr (o_attribution o); VStr (o_license o); VList (map VJson (objs o))]).

Definition osm_marshal : osmv -> json := marshal_with objects.
Definition osm_marshal_legacy : osmv -> json := marshal_with objects_legacy.
End Marshal.

(* marshalJSON calls of json.Marshal(osm): OSM.MarshalJSON itself, then the elements *)
Definition sum_calls (t : ty) (l : list val) : Z := fold_right (fun x a => mcalls t x + a) 0%Z l.
Definition osm_mcalls (o : osmv) : Z :=
  (1 + sum_calls t_Node (o_nodes o) + sum_calls t_Way (o_ways o) + sum_calls t_Relation (o_relations o)
   + sum_calls t_Changeset (o_changesets o) + sum_calls t_User (o_users o) + sum_calls t_Note (o_notes o))%Z.
Definition oo_mcalls (o : option osmv) : Z := match o with Some x => osm_mcalls x | None => 0%Z end.

(* ---- unmarshal ------------------------------------------------------------------------ *)

(* findType *)
Definition find_type (j : json) : res string :=
  rbind (dec t_typeStruct j)
        (fun v => match v with
                  | VStruct [VStr s] => if String.eqb s "" then Err else Ok s
                  | _ => Unmodelled
                  end).

(* fmt.Sprintf("%v", x) for what a JSON decoder stores in an interface{} *)
Definition sprint_any (j : json) : res string :=
  match j with
  | JStr s => Ok s
  | JNum m k => Ok (fmt_g m k)
  | JBool true => Ok "true"
  | JBool false => Ok "false"
  | JNull => Ok "<nil>"
  | _ => Unmodelled
  end.

(* osm.go after fix f6e3a8f:  o.Version = ""; if s.Version != nil { Sprintf("%v") } *)
Definition version_text (j : json) : res string :=
  match j with JNull => Ok "" | _ => sprint_any j end.
Definition version_text_legacy (j : json) : res string := sprint_any j.

Definition add_element (o : osmv) (j : json) : res osmv :=
  rbind (find_type j) (fun t =>
    let upd (ty : ty) (f : val -> osmv) := rmap f (dec ty j) in
    if String.eqb t "bounds" then
      upd t_Bounds (fun b => mkOsm (o_version o) (o_generator o) (o_copyright o) (o_attribution o)
        (o_license o) (Some b) (o_nodes o) (o_ways o) (o_relations o) (o_changesets o) (o_notes o) (o_users o))
    else if String.eqb t "node" then
      upd t_Node (fun x => mkOsm (o_version o) (o_generator o) (o_copyright o) (o_attribution o)
        (o_license o) (o_bounds o) (o_nodes o ++ [x]) (o_ways o) (o_relations o) (o_changesets o) (o_notes o) (o_users o))
    else if String.eqb t "way" then
      upd t_Way (fun x => mkOsm (o_version o) (o_generator o) (o_copyright o) (o_attribution o)
        (o_license o) (o_bounds o) (o_nodes o) (o_ways o ++ [x]) (o_relations o) (o_changesets o) (o_notes o) (o_users o))
    else if String.eqb t "relation" then
      upd t_Relation (fun x => mkOsm (o_version o) (o_generator o) (o_copyright o) (o_attribution o)
        (o_license o) (o_bounds o) (o_nodes o) (o_ways o) (o_relations o ++ [x]) (o_changesets o) (o_notes o) (o_users o))
    else if String.eqb t "changeset" then
      upd t_Changeset (fun x => mkOsm (o_version o) (o_generator o) (o_copyright o) (o_attribution o)
        (o_license o) (o_bounds o) (o_nodes o) (o_ways o) (o_relations o) (o_changesets o ++ [x]) (o_notes o) (o_users o))
    else if String.eqb t "note" then
      upd t_Note (fun x => mkOsm (o_version o) (o_generator o) (o_copyright o) (o_attribution o)
        (o_license o) (o_bounds o) (o_nodes o) (o_ways o) (o_relations o) (o_changesets o) (o_notes o ++ [x]) (o_users o))
    else if String.eqb t "user" then
      upd t_User (fun x => mkOsm (o_version o) (o_generator o) (o_copyright o) (o_attribution o)
        (o_license o) (o_bounds o) (o_nodes o) (o_ways o) (o_relations o) (o_changesets o) (o_notes o) (o_users o ++ [x]))
    else Err).

(* pre-fix dispatch: no "bounds" case *)
Definition add_element_legacy (o : osmv) (j : json) : res osmv :=
  rbind (find_type j) (fun t => if String.eqb t "bounds" then Err else add_element o j).

Fixpoint add_elements (add : osmv -> json -> res osmv) (o : osmv) (l : list val) : res osmv :=
  match l with
  | [] => Ok o
  | VJson j :: r => rbind (add o j) (fun o' => add_elements add o' r)
  | _ :: _ => Unmodelled
  end.

Definition unmarshal_with (vt : json -> res string) (add : osmv -> json -> res osmv)
           (o0 : osmv) (doc : json) : res osmv :=
  rbind (dec (TStruct f_OSM_UnmarshalJSON) doc) (fun s =>
    match s with
    | VStruct [VJson ver; VStr g; VStr c; VStr a; VStr l; VList raws] =>
        rbind (vt ver) (fun vs =>
          add_elements add
            (mkOsm vs g c a l (o_bounds o0) (o_nodes o0) (o_ways o0) (o_relations o0)
                   (o_changesets o0) (o_notes o0) (o_users o0)) raws)
    | _ => Unmodelled
    end).

(* json.Unmarshal(data, &OSM{}) *)
Definition osm_unmarshal : json -> res osmv := unmarshal_with version_text add_element empty_osm.
Definition osm_unmarshal_legacy : json -> res osmv :=
  unmarshal_with version_text_legacy add_element_legacy empty_osm.

(* ---- Change (default struct coding; *OSM fields use the OSM methods) --------------------- *)
Record changev : Type := mkChange {
  c_version : string; c_generator : string; c_copyright : string;
  c_attribution : string; c_license : string;
  c_create : option osmv; c_modify : option osmv; c_delete : option osmv }.

Inductive cfield := CStr (s : string) | COsm (o : option osmv).
Definition change_fields (c : changev) : list cfield :=
  [CStr (c_version c); CStr (c_generator c); CStr (c_copyright c); CStr (c_attribution c);
   CStr (c_license c); COsm (c_create c); COsm (c_modify c); COsm (c_delete c)].

Fixpoint change_kvs (mapord : list (string * string) -> list (string * string))
         (fs : list field) (vs : list cfield) : list (string * json) :=
  match fs, vs with
  | Field _ n om TStr :: fr, CStr s :: vr =>
      if om && String.eqb s "" then change_kvs mapord fr vr
      else (n, JStr s) :: change_kvs mapord fr vr
  | Field _ n om (TPtr TOSMRef) :: fr, COsm None :: vr =>
      if om then change_kvs mapord fr vr else (n, JNull) :: change_kvs mapord fr vr
  | Field _ n om (TPtr TOSMRef) :: fr, COsm (Some o) :: vr =>
      (n, osm_marshal mapord o) :: change_kvs mapord fr vr
  | _, _ => []
  end.
Definition change_marshal mapord (c : changev) : json := JObj (change_kvs mapord f_Change (change_fields c)).

Fixpoint change_dec_ns (ns : list string) (fs : list field) (kv : list (string * json)) : res (list cfield) :=
  match fs with
  | [] => Ok []
  | Field _ n _ ft :: fr =>
      rbind (match ft with
             | TStr => rbind (dec_occs (dec TStr) TStr (entries_f ns n kv))
                             (fun v => match v with VStr s => Ok (CStr s) | _ => Unmodelled end)
             | TPtr TOSMRef => match entries_f ns n kv with
                               | [] | [JNull] => Ok (COsm None)
                               | [j] => rmap (fun o => COsm (Some o)) (osm_unmarshal j)
                               | _ => Unmodelled
                               end
             | _ => Unmodelled
             end)
            (fun v => rbind (change_dec_ns ns fr kv) (fun vs => Ok (v :: vs)))
  end.
(* the decoder resolves keys against the names of the whole Change struct *)
Definition change_dec (fs : list field) (kv : list (string * json)) : res (list cfield) :=
  change_dec_ns (names f_Change) fs kv.

Definition change_unmarshal (doc : json) : res changev :=
  match doc with
  | JNull => Ok (mkChange "" "" "" "" "" None None None)
  | JObj kv =>
      rbind (change_dec f_Change kv) (fun l =>
        match l with
        | [CStr a; CStr b; CStr c; CStr d; CStr e; COsm x; COsm y; COsm z] => Ok (mkChange a b c d e x y z)
        | _ => Unmodelled
        end)
  | _ => Err
  end.
