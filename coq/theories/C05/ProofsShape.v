(* C05/ProofsShape.v — the osmjson shape facts, for every value (no well-formedness needed for
   the three special encodings): tags are an object of strings, way nodes an array of integer
   ids, members an array that is never null; every element kind carries its type. *)
From Coq Require Import ZArith List String Ascii Bool.
From Verif Require Import C05.Json C05.Schema C05.Model C05.Osm C05.Spec C05.Fields C05.ProofsGeneric C05.ProofsOsm.
From VerifGen Require Import GenJsonTags.
Import ListNotations.
Open Scope string_scope.

Section Shape.
Variable mo : list (string * string) -> list (string * string).

Lemma tags_is_object : forall l, tags_object (enc mo TTags (VList l)) = true.
Proof.
  intros l. cbn [enc tags_object]. apply forallb_forall. intros p Hp.
  apply in_map_iff in Hp. destruct Hp as [q [<- _]]. reflexivity.
Qed.

Lemma waynodes_is_id_array : forall fs l, id_array (enc mo (TWayNodes fs) (VList l)) = true.
Proof.
  intros fs l. cbn [enc id_array]. apply forallb_forall. intros j Hj.
  apply in_map_iff in Hj. destruct Hj as [n [<- _]]. reflexivity.
Qed.

Lemma members_never_null : forall t l, exists js, enc mo (TMembers t) (VList l) = JArr js.
Proof. intros t l. eexists. reflexivity. Qed.

(* every element of the "elements" array can be told apart by its type *)
Lemma element_carries_type : forall k v, wf (ktype k) v = true ->
  find_type (enc mo (ktype k) v) = Ok (kname k) /\ mem_str (kname k) osmjson_types = true.
Proof.
  intros k v H. split; [apply find_type_elem; exact H|].
  do 6 (destruct k as [|k]; [reflexivity|]). reflexivity.
Qed.

Lemma bounds_carries_type : forall b, wf t_Bounds b = true ->
  find_type (enc mo t_jsonBoundsElement (bounds_element b)) = Ok "bounds".
Proof.
  intros b H. unfold t_Bounds in H. apply wf_struct_inv in H. destruct H as [vs [-> Hw]].
  unfold bounds_element, t_jsonBoundsElement, f_jsonBoundsElement. rewrite enc_struct.
  apply find_type_obj; [|discriminate].
  destruct vs as [|a vs]; [discriminate Hw|]. destruct vs as [|b vs]; [simpl in Hw; rewrite andb_false_r in Hw; discriminate|].
  destruct vs as [|c vs]; [simpl in Hw; rewrite !andb_false_r in Hw; discriminate|].
  destruct vs as [|d vs]; [simpl in Hw; rewrite !andb_false_r in Hw; discriminate|].
  reflexivity.
Qed.

(* the container: "elements" is always an array (never null, even when empty) *)
Lemma elements_is_array : forall o, exists kv,
  osm_marshal mo o = JObj kv /\ lookup "elements" kv = Some (JArr (objects mo o)).
Proof.
  intros o. unfold osm_marshal, marshal_with. rewrite enc_struct. eexists. split; [reflexivity|].
  unfold f_OSM_MarshalJSON. cbn [enc_fields is_empty andb].
  assert (Hm : forall els, map (fun v : val => match v with VJson j => j | _ => JNull end) (map VJson els) = els)
    by (intros els; rewrite map_map; simpl; apply map_id).
  destruct (String.eqb (o_version o) ""); destruct (String.eqb (o_generator o) "");
  destruct (String.eqb (o_copyright o) ""); destruct (String.eqb (o_attribution o) "");
  destruct (String.eqb (o_license o) "");
  cbn [enc lookup String.eqb Ascii.eqb Bool.eqb]; rewrite Hm; reflexivity.
Qed.
End Shape.

(* ------------------------------------------------------------------------------------ *)
(* the full shape theorem: key lookups through the generic struct encoding                *)

Fixpoint field_ty_of (fs : list field) (n : string) : option (bool * ty) :=
  match fs with
  | [] => None
  | Field _ m om ft :: fr =>
      match ft with
      | TSkip => field_ty_of fr n
      | _ => if String.eqb m n then Some (om, ft) else field_ty_of fr n
      end
  end.

Lemma field_ty_of_in : forall fs n om ft, field_ty_of fs n = Some (om, ft) -> In n (names fs).
Proof.
  induction fs as [|[g m o t] fr IH]; intros n om ft H; [discriminate H|].
  simpl in H. destruct t; try (simpl; destruct (String.eqb m n) eqn:E;
    [apply String.eqb_eq in E; left; exact E|right; eapply IH; exact H]).
  simpl. eapply IH. exact H.
Qed.

Section Lookup.
Variable mo : list (string * string) -> list (string * string).

Lemma lookup_field : forall fs vs n, wf_fields fs vs = true -> str_nodup (names fs) = true ->
  match field_ty_of fs n with
  | None => lookup n (enc_fields mo fs vs) = None
  | Some (om, ft) => exists x, wf ft x = true /\
      lookup n (enc_fields mo fs vs) = if om && is_empty x then None else Some (enc mo ft x)
  end.
Proof.
  induction fs as [|[g m om ft] fr IH]; intros vs n Hw Hnd.
  - destruct vs; reflexivity.
  - destruct vs as [|x vr]; [discriminate Hw|].
    simpl in Hw. rewrite andb_true_iff in Hw. destruct Hw as [Hx Hr].
    destruct (match ft with TSkip => true | _ => false end) eqn:Eskip.
    + destruct ft; try discriminate Eskip. simpl in Hnd |- *. apply IH; assumption.
    + assert (Hnames : names (Field g m om ft :: fr) = m :: names fr) by (destruct ft; try reflexivity; discriminate Eskip).
      rewrite Hnames in Hnd. simpl in Hnd. rewrite andb_true_iff, negb_true_iff in Hnd.
      destruct Hnd as [Hm Hnd]. apply existsb_str_false in Hm.
      assert (Henc : enc_fields mo (Field g m om ft :: fr) (x :: vr) =
                     if om && is_empty x then enc_fields mo fr vr else (m, enc mo ft x) :: enc_fields mo fr vr)
        by (destruct ft; try reflexivity; discriminate Eskip).
      assert (Hfty : field_ty_of (Field g m om ft :: fr) n =
                     if String.eqb m n then Some (om, ft) else field_ty_of fr n)
        by (destruct ft; try reflexivity; discriminate Eskip).
      rewrite Henc, Hfty. specialize (IH vr n Hr Hnd).
      destruct (String.eqb m n) eqn:E.
      * apply String.eqb_eq in E. subst m. exists x. split; [exact Hx|].
        assert (Hrest : lookup n (enc_fields mo fr vr) = None).
        { apply lookup_notin. intro HI. apply Hm. eapply keys_enc_fields. exact HI. }
        destruct (om && is_empty x); [exact Hrest|].
        cbn [lookup]. rewrite Hrest, str_eqb_refl. reflexivity.
      * destruct (om && is_empty x).
        -- exact IH.
        -- destruct (field_ty_of fr n) as [[om' ft']|].
           ++ destruct IH as [x' [Hx' IH]]. exists x'. split; [exact Hx'|].
              cbn [lookup]. rewrite IH. destruct (om' && is_empty x'); [rewrite E|]; reflexivity.
           ++ cbn [lookup]. rewrite IH, E. reflexivity.
Qed.

(* schema conditions for the shape (decidable; computed on the generated schemas) *)
Definition opt_field_is (fs : list field) (n : string) (p : ty -> bool) : bool :=
  match field_ty_of fs n with None => true | Some (_, t) => p t end.
Definition req_field_is (fs : list field) (n : string) (p : ty -> bool) : bool :=
  match field_ty_of fs n with Some (false, t) => p t | _ => false end.
Definition is_TTags (t : ty) := match t with TTags => true | _ => false end.
Definition is_TWayNodes (t : ty) := match t with TWayNodes _ => true | _ => false end.
Definition is_TStr (t : ty) := match t with TStr => true | _ => false end.
Definition is_TInt (t : ty) := match t with TInt _ _ => true | _ => false end.
Definition member_schema_ok (mfs : list field) : bool :=
  str_nodup (names mfs) && req_field_is mfs "type" is_TStr && req_field_is mfs "ref" is_TInt
  && req_field_is mfs "role" is_TStr && opt_field_is mfs "nodes" is_TWayNodes.
Definition is_members (t : ty) :=
  match t with TMembers (TStruct mfs) => member_schema_ok mfs | _ => false end.
Definition elem_schema_ok (nm : string) (fs : list field) : bool :=
  str_nodup (names fs)
  && req_field_is fs "type" (fun t => match t with TShim n => String.eqb n nm | _ => false end)
  && mem_str nm osmjson_types
  && opt_field_is fs "tags" is_TTags
  && (if String.eqb nm "way" then req_field_is fs "nodes" is_TWayNodes else true)
  && (if String.eqb nm "relation" then req_field_is fs "members" is_members else true).

Lemma req_lookup : forall fs vs n p, wf_fields fs vs = true -> str_nodup (names fs) = true ->
  req_field_is fs n p = true ->
  exists t x, p t = true /\ wf t x = true /\ lookup n (enc_fields mo fs vs) = Some (enc mo t x).
Proof.
  intros fs vs n p Hw Hnd H. unfold req_field_is in H. pose proof (lookup_field fs vs n Hw Hnd) as L.
  destruct (field_ty_of fs n) as [[om t]|]; [|discriminate H]. destruct om; [discriminate H|].
  destruct L as [x [Hx L]]. exists t, x. repeat split; assumption.
Qed.

Lemma opt_lookup : forall fs vs n p, wf_fields fs vs = true -> str_nodup (names fs) = true ->
  opt_field_is fs n p = true ->
  lookup n (enc_fields mo fs vs) = None \/
  exists t x, p t = true /\ wf t x = true /\ lookup n (enc_fields mo fs vs) = Some (enc mo t x).
Proof.
  intros fs vs n p Hw Hnd H. unfold opt_field_is in H. pose proof (lookup_field fs vs n Hw Hnd) as L.
  destruct (field_ty_of fs n) as [[om t]|]; [|left; exact L].
  destruct L as [x [Hx L]]. destruct (om && is_empty x); [left; exact L|].
  right. exists t, x. repeat split; assumption.
Qed.

Lemma wf_list_inv : forall t v, (is_TTags t || is_TWayNodes t)%bool = true -> wf t v = true -> exists l, v = VList l.
Proof.
  intros t v Ht H. destruct t; try discriminate Ht; destruct v; try discriminate H; eexists; reflexivity.
Qed.

Lemma member_shape_ok : forall mfs v, member_schema_ok mfs = true -> wf (TStruct mfs) v = true ->
  member_shape (enc mo (TStruct mfs) v) = true.
Proof.
  intros mfs v Hs Hw. unfold member_schema_ok in Hs. rewrite !andb_true_iff in Hs.
  destruct Hs as [[[[Hnd Ht] Hr] Hro] Hn].
  apply wf_struct_inv in Hw. destruct Hw as [vs [-> Hw]]. rewrite enc_struct. cbn [member_shape].
  destruct (req_lookup mfs vs "type" _ Hw Hnd Ht) as [t1 [x1 [P1 [W1 L1]]]].
  destruct (req_lookup mfs vs "ref" _ Hw Hnd Hr) as [t2 [x2 [P2 [W2 L2]]]].
  destruct (req_lookup mfs vs "role" _ Hw Hnd Hro) as [t3 [x3 [P3 [W3 L3]]]].
  rewrite L1, L2, L3.
  destruct t1; try discriminate P1. destruct x1; try discriminate W1.
  destruct t2; try discriminate P2. destruct x2; try discriminate W2.
  destruct t3; try discriminate P3. destruct x3; try discriminate W3.
  cbn [req_ok enc is_str is_int_num andb]. rewrite Z.eqb_refl. cbn [andb].
  destruct (opt_lookup mfs vs "nodes" _ Hw Hnd Hn) as [L4|[t4 [x4 [P4 [W4 L4]]]]]; rewrite L4; [reflexivity|].
  cbn [opt_ok]. destruct (wf_list_inv t4 x4) as [l ->]; [rewrite P4; apply orb_true_r|exact W4|].
  destruct t4; try discriminate P4. apply waynodes_is_id_array.
Qed.

Theorem element_shape_ok : forall nm fs v, elem_schema_ok nm fs = true -> wf (TStruct fs) v = true ->
  element_shape (enc mo (TStruct fs) v) = true.
Proof.
  intros nm fs v Hs Hw. unfold elem_schema_ok in Hs. rewrite !andb_true_iff in Hs.
  destruct Hs as [[[[[Hnd Hty] Hmem] Htags] Hway] Hrel].
  apply wf_struct_inv in Hw. destruct Hw as [vs [-> Hw]]. rewrite enc_struct. cbn [element_shape].
  destruct (req_lookup fs vs "type" _ Hw Hnd Hty) as [t1 [x1 [P1 [W1 L1]]]].
  destruct t1; try discriminate P1. apply String.eqb_eq in P1. subst name.
  unfold type_of. rewrite L1. cbn [enc]. rewrite Hmem. cbn [andb].
  assert (Tg : opt_ok (lookup "tags" (enc_fields mo fs vs)) tags_object = true).
  { destruct (opt_lookup fs vs "tags" _ Hw Hnd Htags) as [L|[t [x [P [W L]]]]]; rewrite L; [reflexivity|].
    cbn [opt_ok]. destruct (wf_list_inv t x) as [l ->]; [rewrite P; reflexivity|exact W|].
    destruct t; try discriminate P. apply tags_is_object. }
  rewrite Tg. cbn [andb].
  assert (Wy : (if String.eqb nm "way" then req_ok (lookup "nodes" (enc_fields mo fs vs)) id_array else true) = true).
  { destruct (String.eqb nm "way"); [|reflexivity].
    destruct (req_lookup fs vs "nodes" _ Hw Hnd Hway) as [t [x [P [W L]]]]. rewrite L. cbn [req_ok].
    destruct (wf_list_inv t x) as [l ->]; [rewrite P; apply orb_true_r|exact W|].
    destruct t; try discriminate P. apply waynodes_is_id_array. }
  rewrite Wy. cbn [andb].
  destruct (String.eqb nm "relation"); [|reflexivity].
  destruct (req_lookup fs vs "members" _ Hw Hnd Hrel) as [t [x [P [W L]]]]. rewrite L. cbn [req_ok].
  destruct t; try discriminate P. destruct t; try discriminate P. cbn [is_members] in P.
  destruct x; try discriminate W. cbn [enc members_array]. cbn [wf] in W.
  apply forallb_forall. intros j Hj. apply in_map_iff in Hj. destruct Hj as [m [<- Hm]].
  apply member_shape_ok; [exact P|]. rewrite forallb_forall in W. apply W. exact Hm.
Qed.

Lemma generated_elem_schemas_ok :
  elem_schema_ok "node" f_Node && elem_schema_ok "way" f_Way && elem_schema_ok "relation" f_Relation
  && elem_schema_ok "changeset" f_Changeset && elem_schema_ok "note" f_Note && elem_schema_ok "user" f_User = true.
Proof. vm_compute. reflexivity. Qed.

Lemma kind_shape : forall k v, wf (ktype k) v = true -> element_shape (enc mo (ktype k) v) = true.
Proof.
  intros k v H. pose proof generated_elem_schemas_ok as G. rewrite !andb_true_iff in G.
  destruct G as [[[[[G0 G1] G2] G3] G4] G5].
  do 6 (destruct k as [|k]; [eapply element_shape_ok; [eassumption|exact H]|]).
  eapply element_shape_ok; [exact G5|exact H].
Qed.

Lemma bounds_shape : forall b, wf t_Bounds b = true ->
  element_shape (enc mo t_jsonBoundsElement (bounds_element b)) = true.
Proof.
  intros b H. unfold t_Bounds in H. apply wf_struct_inv in H. destruct H as [vs [-> Hw]].
  unfold f_Bounds in Hw.
  destruct vs as [|a vs]; [discriminate Hw|]. destruct vs as [|b0 vs]; [simpl in Hw; rewrite andb_false_r in Hw; discriminate|].
  destruct vs as [|c vs]; [simpl in Hw; rewrite !andb_false_r in Hw; discriminate|].
  destruct vs as [|d vs]; [simpl in Hw; rewrite !andb_false_r in Hw; discriminate|].
  destruct vs as [|e vs]; [|simpl in Hw; rewrite !andb_false_r in Hw; discriminate].
  simpl in Hw. rewrite !andb_true_iff in Hw. destruct Hw as [Ha [Hb [Hc [Hd _]]]].
  destruct a; try discriminate Ha. destruct b0; try discriminate Hb.
  destruct c; try discriminate Hc. destruct d; try discriminate Hd.
  vm_compute. reflexivity.
Qed.

Lemma forallb_map_shape : forall k l, forallb (wf (ktype k)) l = true ->
  forallb element_shape (map (enc mo (ktype k)) l) = true.
Proof.
  intros k l H. apply forallb_forall. intros j Hj. apply in_map_iff in Hj. destruct Hj as [v [<- Hv]].
  apply kind_shape. rewrite forallb_forall in H. apply H. exact Hv.
Qed.

Theorem json_shape : forall o, wf_osm o = true -> osmjson_shape (osm_marshal mo o) = true.
Proof.
  intros o H. apply wf_osm_all in H. destruct H as [Hb Hk].
  destruct (elements_is_array mo o) as [kv [E L]]. rewrite E. cbn [osmjson_shape]. rewrite L.
  unfold objects. rewrite !forallb_app.
  pose proof (forallb_map_shape 0 _ (Hk 0%nat)) as S0. pose proof (forallb_map_shape 1 _ (Hk 1%nat)) as S1.
  pose proof (forallb_map_shape 2 _ (Hk 2%nat)) as S2. pose proof (forallb_map_shape 3 _ (Hk 3%nat)) as S3.
  pose proof (forallb_map_shape 4 _ (Hk 4%nat)) as S4. pose proof (forallb_map_shape 5 _ (Hk 5%nat)) as S5.
  cbn [ktype kget] in S0, S1, S2, S3, S4, S5. rewrite S0, S1, S2, S3, S4, S5.
  rewrite !andb_true_r. destruct (o_bounds o) as [b|]; [|reflexivity].
  cbn [forallb]. rewrite (bounds_shape b Hb). reflexivity.
Qed.
End Lookup.
