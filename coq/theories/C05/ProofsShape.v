(* C05/ProofsShape.v — the osmjson shape facts, for every value (no well-formedness needed for
   the three special encodings): tags are an object of strings, way nodes an array of integer
   ids, members an array that is never null; every element kind carries its type. *)
From Coq Require Import ZArith List String Ascii Bool.
From Verif Require Import C05.Json C05.Schema C05.Model C05.Osm C05.Spec C05.Fields C05.ProofsGeneric C05.ProofsOsm.
From VerifGen Require Import GenJsonTags.
Import ListNotations.
Open Scope string_scope.

Section Shape.
Variable mo : list (string * string) -> list (string * string).

Lemma tags_is_object : forall l, tags_object (enc mo TTags (VList l)) = true.
Proof.
  intros l. cbn [enc tags_object]. apply forallb_forall. intros p Hp.
  apply in_map_iff in Hp. destruct Hp as [q [<- _]]. reflexivity.
Qed.

Lemma waynodes_is_id_array : forall fs l, id_array (enc mo (TWayNodes fs) (VList l)) = true.
Proof.
  intros fs l. cbn [enc id_array]. apply forallb_forall. intros j Hj.
  apply in_map_iff in Hj. destruct Hj as [n [<- _]]. reflexivity.
Qed.

Lemma members_never_null : forall t l, exists js, enc mo (TMembers t) (VList l) = JArr js.
Proof. intros t l. eexists. reflexivity. Qed.

(* every element of the "elements" array can be told apart by its type *)
Lemma element_carries_type : forall k v, wf (ktype k) v = true ->
  find_type (enc mo (ktype k) v) = Ok (kname k) /\ mem_str (kname k) osmjson_types = true.
Proof.
  intros k v H. split; [apply find_type_elem; exact H|].
  do 6 (destruct k as [|k]; [reflexivity|]). reflexivity.
Qed.

Lemma bounds_carries_type : forall b, wf t_Bounds b = true ->
  find_type (enc mo t_jsonBoundsElement (bounds_element b)) = Ok "bounds".
Proof.
  intros b H. unfold t_Bounds in H. apply wf_struct_inv in H. destruct H as [vs [-> Hw]].
  unfold bounds_element, t_jsonBoundsElement, f_jsonBoundsElement. rewrite enc_struct.
  apply find_type_obj; [|discriminate].
  destruct vs as [|a vs]; [discriminate Hw|]. destruct vs as [|b vs]; [simpl in Hw; rewrite andb_false_r in Hw; discriminate|].
  destruct vs as [|c vs]; [simpl in Hw; rewrite !andb_false_r in Hw; discriminate|].
  destruct vs as [|d vs]; [simpl in Hw; rewrite !andb_false_r in Hw; discriminate|].
  reflexivity.
Qed.

(* the container: "elements" is always an array (never null, even when empty) *)
Lemma elements_is_array : forall o, exists kv,
  osm_marshal mo o = JObj kv /\ lookup "elements" kv = Some (JArr (objects mo o)).
Proof.
  intros o. unfold osm_marshal, marshal_with. rewrite enc_struct. eexists. split; [reflexivity|].
  unfold f_OSM_MarshalJSON. cbn [enc_fields is_empty andb].
  assert (Hm : forall els, map (fun v : val => match v with VJson j => j | _ => JNull end) (map VJson els) = els)
    by (intros els; rewrite map_map; simpl; apply map_id).
  destruct (String.eqb (o_version o) ""); destruct (String.eqb (o_generator o) "");
  destruct (String.eqb (o_copyright o) ""); destruct (String.eqb (o_attribution o) "");
  destruct (String.eqb (o_license o) "");
  cbn [enc lookup String.eqb Ascii.eqb Bool.eqb]; rewrite Hm; reflexivity.
Qed.
End Shape.
