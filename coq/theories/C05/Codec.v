(* C05/Codec.v — the codec indirection of json.go (CustomJSONMarshaler / CustomJSONUnmarshaler)
   made explicit.  A codec is a serialiser of trees, a parser, and the order in which it
   emits the entries of a Go map; [sem] is the meaning of JSON text, which every codec
   implements.  No axioms: everything is a Section variable with hypotheses (tree-level laws).

   Every hand-written helper is written here with the codec it actually calls (GenOk.
   Codec_entry_points ties this to the source): all of them call the configured codec [c],
   except Tags.UnmarshalJSON which calls encoding/json ([s]) directly.  The lemmas show that,
   under the laws, each helper computes exactly the tree-level function of C05/Model.v for
   the map order of the codec in use, so results cannot depend on the codec beyond tag order. *)
From Coq Require Import ZArith List String Ascii Bool Permutation.
From Verif Require Import C05.Json C05.Schema C05.Model C05.Fmt C05.Osm C05.Spec C05.ProofsGeneric C05.ProofsOsm.
From VerifGen Require Import GenJsonTags.
Import ListNotations.

Section Codec.
Variable bytes : Type.
Variable sem : bytes -> option json.          (* the meaning of JSON text *)
Variable lit : json -> bytes.                 (* byte literals in the source: []byte(`[]`), `null`, `"node"` *)
Hypothesis lit_sem : forall t, sem (lit t) = Some t.

Record codec : Type := mkCodec {
  c_ser : json -> bytes;                      (* Marshal, after the struct walk built the tree *)
  c_par : bytes -> option json;               (* Unmarshal's reading of the text *)
  c_raw : json -> bytes;                      (* the bytes handed to an Unmarshaler / raw message for a subtree *)
  c_mapord : list (string * string) -> list (string * string) }.

Definition lawful (c : codec) : Prop :=
  (forall t, sem (c_ser c t) = Some t) /\
  (forall t, sem (c_raw c t) = Some t) /\
  (forall b t, sem b = Some t -> c_par c b = Some t) /\
  (forall l, Permutation (c_mapord c l) l).

Variables c s : codec.                        (* configured codec; encoding/json *)
Hypothesis Hc : lawful c.
Hypothesis Hs : lawful s.

(* marshal helpers: bytes returned by the MarshalJSON method, then embedded by the caller *)
Definition tags_marshal (l : list val) : bytes :=                     (* marshalJSON(ts.Map()) *)
  c_ser c (JObj (map (fun p => (fst p, JStr (snd p))) (c_mapord c (dedup_last (tag_pairs l))))).
Definition waynodes_marshal (l : list val) : bytes :=                 (* marshalJSON([]int64) *)
  c_ser c (JArr (map (fun n => JNum (wn_id n) 0) l)).
Definition members_marshal (t : ty) (l : list val) : bytes :=         (* `[]` or marshalJSON([]Member) *)
  match l with [] => lit (JArr []) | _ => c_ser c (JArr (map (enc (c_mapord c) t) l)) end.
Definition date_marshal (tm : string) : bytes :=                      (* `null` or marshalJSON(d.Time) *)
  if String.eqb tm zero_time then lit JNull else c_ser c (JStr tm).
Definition embed (b : bytes) : option json := c_par c b.              (* the enclosing encoder re-reads them *)

Lemma tags_marshal_ok : forall l, embed (tags_marshal l) = Some (enc (c_mapord c) TTags (VList l)).
Proof. intros l. destruct Hc as [H1 [_ [H3 _]]]. apply H3, H1. Qed.
Lemma waynodes_marshal_ok : forall fs l, embed (waynodes_marshal l) = Some (enc (c_mapord c) (TWayNodes fs) (VList l)).
Proof. intros fs l. destruct Hc as [H1 [_ [H3 _]]]. apply H3, H1. Qed.
Lemma members_marshal_ok : forall t l, embed (members_marshal t l) = Some (enc (c_mapord c) (TMembers t) (VList l)).
Proof.
  intros t l. destruct Hc as [H1 [_ [H3 _]]]. destruct l; [apply H3, lit_sem|apply H3, H1].
Qed.
Lemma date_marshal_ok : forall tm, embed (date_marshal tm) = Some (enc (c_mapord c) TDate (VTime tm)).
Proof.
  intros tm. destruct Hc as [H1 [_ [H3 _]]]. unfold date_marshal. simpl.
  destruct (String.eqb tm zero_time); [apply H3, lit_sem|apply H3, H1].
Qed.

(* unmarshal helpers: they receive the raw bytes of their subtree from the enclosing decoder *)
Definition tags_unmarshal (b : bytes) : res val :=                    (* json.Unmarshal: codec s *)
  match c_par s b with Some j => dec TTags j | None => Err end.
Definition waynodes_unmarshal (fs : list field) (b : bytes) : res val := (* unmarshalJSON: codec c *)
  match c_par c b with Some j => dec (TWayNodes fs) j | None => Err end.

Lemma tags_unmarshal_ok : forall j, tags_unmarshal (c_raw c j) = dec TTags j.
Proof. intros j. unfold tags_unmarshal. destruct Hc as [_ [H2 _]], Hs as [_ [_ [H3 _]]]. rewrite (H3 _ _ (H2 j)). reflexivity. Qed.
Lemma waynodes_unmarshal_ok : forall fs j, waynodes_unmarshal fs (c_raw c j) = dec (TWayNodes fs) j.
Proof. intros fs j. unfold waynodes_unmarshal. destruct Hc as [_ [H2 [H3 _]]]. rewrite (H3 _ _ (H2 j)). reflexivity. Qed.

(* the containers at byte level *)
Definition osm_marshal_bytes (k : codec) (o : osmv) : bytes := c_ser k (osm_marshal (c_mapord k) o).
Definition osm_unmarshal_bytes (k : codec) (b : bytes) : res osmv :=
  match c_par k b with Some doc => osm_unmarshal doc | None => Err end.

(* whichever lawful codec wrote the text and whichever reads it, the result is the same up to
   tag order (and the erased way-node annotations): equivalent to the input *)
Theorem codec_independent : forall o, wf_osm o = true ->
  exists o1 o2,
    osm_unmarshal_bytes c (osm_marshal_bytes s o) = Ok o1 /\
    osm_unmarshal_bytes s (osm_marshal_bytes c o) = Ok o2 /\
    osm_equiv o1 o /\ osm_equiv o2 o /\ osm_equiv o1 o2.
Proof.
  intros o H.
  destruct Hc as [C1 [_ [C3 C4]]]. destruct Hs as [S1 [_ [S3 S4]]].
  destruct (osm_roundtrip (c_mapord s) S4 o H) as [o1 [E1 Q1]].
  destruct (osm_roundtrip (c_mapord c) C4 o H) as [o2 [E2 Q2]].
  exists o1, o2. unfold osm_unmarshal_bytes, osm_marshal_bytes, osm_equiv.
  rewrite (C3 _ _ (S1 _)), (S3 _ _ (C1 _)). repeat split; congruence.
Qed.
End Codec.

(* the laws are satisfiable: the identity codec on trees *)
Example lawful_identity :
  lawful json (fun j => Some j) (mkCodec json (fun j => j) (fun j => Some j) (fun j => j) (@sort_kv string)).
Proof.
  repeat split; try reflexivity; try (intros; assumption).
  intros l. induction l as [|x r IH]; simpl; [constructor|].
  assert (Hi : forall (y : string * string) l, Permutation (insert_kv y l) (y :: l)).
  { intros y l0. induction l0 as [|z q IHq]; simpl; [apply Permutation_refl|].
    destruct (str_leb (fst y) (fst z)); [apply Permutation_refl|].
    eapply Permutation_trans; [apply perm_skip; exact IHq|apply perm_swap]. }
  eapply Permutation_trans; [apply Hi|apply perm_skip; exact IH].
Qed.
