(* C05/Fields.v — the struct-field loops of enc/dec/wf/canon/zero as standalone functions,
   with the unfolding equations, and an induction principle for the nested type [ty]. *)
From Coq Require Import ZArith List String Ascii Bool Lia.
From Verif Require Import C05.Json C05.Schema C05.Model C05.Spec.
Import ListNotations.
Open Scope Z_scope.

Section TyInd.
  Variable P : ty -> Prop.
  Variable Q : list field -> Prop.
  Hypothesis HInt : forall lo hi, P (TInt lo hi).
  Hypothesis HFloat : P TFloat.
  Hypothesis HBool : P TBool.
  Hypothesis HStr : P TStr.
  Hypothesis HTime : P TTime.
  Hypothesis HDate : P TDate.
  Hypothesis HShim : forall n, P (TShim n).
  Hypothesis HSkip : P TSkip.
  Hypothesis HNil : P TNilOnly.
  Hypothesis HAny : P TAny.
  Hypothesis HRaw : P TRawList.
  Hypothesis HObjs : P TObjects.
  Hypothesis HOsm : P TOSMRef.
  Hypothesis HTags : P TTags.
  Hypothesis HWn : forall fs, Q fs -> P (TWayNodes fs).
  Hypothesis HMem : forall t, P t -> P (TMembers t).
  Hypothesis HPtr : forall t, P t -> P (TPtr t).
  Hypothesis HSlice : forall t, P t -> P (TSlice t).
  Hypothesis HStruct : forall fs, Q fs -> P (TStruct fs).
  Hypothesis HQnil : Q [].
  Hypothesis HQcons : forall g n o t fs, P t -> Q fs -> Q (Field g n o t :: fs).

  Fixpoint ty_ind' (t : ty) : P t :=
    let fields_ind := (fix go (fs : list field) : Q fs :=
         match fs with
         | [] => HQnil
         | Field g n o t :: r => HQcons g n o t r (ty_ind' t) (go r)
         end) in
    match t with
    | TInt lo hi => HInt lo hi | TFloat => HFloat | TBool => HBool | TStr => HStr
    | TTime => HTime | TDate => HDate | TShim n => HShim n | TSkip => HSkip
    | TNilOnly => HNil | TAny => HAny | TRawList => HRaw | TObjects => HObjs
    | TOSMRef => HOsm | TTags => HTags
    | TWayNodes fs => HWn fs (fields_ind fs)
    | TMembers t => HMem t (ty_ind' t)
    | TPtr t => HPtr t (ty_ind' t)
    | TSlice t => HSlice t (ty_ind' t)
    | TStruct fs => HStruct fs (fields_ind fs)
    end.
End TyInd.

(* ---- standalone field loops ---- *)
Fixpoint enc_fields (mo : list (string * string) -> list (string * string))
         (fs : list field) (vs : list val) : list (string * json) :=
  match fs, vs with
  | Field _ n om ft :: fr, x :: vr =>
      match ft with
      | TSkip => enc_fields mo fr vr
      | _ => if om && is_empty x then enc_fields mo fr vr else (n, enc mo ft x) :: enc_fields mo fr vr
      end
  | _, _ => []
  end.

Definition dec_field (ns : list string) (kv : list (string * json)) (n : string) (ft : ty) : res val :=
  match ft with
  | TSkip => Ok VUnit
  | _ => dec_occs (dec ft) ft (entries_f ns n kv)
  end.

Fixpoint dec_fields (ns : list string) (kv : list (string * json)) (fs : list field) : res (list val) :=
  match fs with
  | [] => Ok []
  | Field _ n _ ft :: fr =>
      rbind (dec_field ns kv n ft) (fun v => rbind (dec_fields ns kv fr) (fun vs => Ok (v :: vs)))
  end.

(* the same with exact-case key lookup (what the decoder does on the library's own output) *)
Definition dec_field_x (kv : list (string * json)) (n : string) (ft : ty) : res val :=
  match ft with
  | TSkip => Ok VUnit
  | _ => match lookup n kv with None => Ok (zero ft) | Some x => dec ft x end
  end.

Fixpoint dec_fields_x (kv : list (string * json)) (fs : list field) : res (list val) :=
  match fs with
  | [] => Ok []
  | Field _ n _ ft :: fr =>
      rbind (dec_field_x kv n ft) (fun v => rbind (dec_fields_x kv fr) (fun vs => Ok (v :: vs)))
  end.

Fixpoint wf_fields (fs : list field) (vs : list val) : bool :=
  match fs, vs with
  | [], [] => true
  | Field _ _ _ ft :: fr, x :: vr => wf ft x && wf_fields fr vr
  | _, _ => false
  end.

Fixpoint canon_fields (fs : list field) (vs : list val) : list val :=
  match fs, vs with
  | Field _ _ _ ft :: fr, x :: vr => canon ft x :: canon_fields fr vr
  | _, _ => []
  end.

Fixpoint zero_fields (fs : list field) : list val :=
  match fs with [] => [] | Field _ _ _ ft :: r => zero ft :: zero_fields r end.

Lemma enc_struct : forall mo fs vs, enc mo (TStruct fs) (VStruct vs) = JObj (enc_fields mo fs vs).
Proof.
  intros mo fs. induction fs as [|[g n om ft] fr IH]; intros vs.
  - reflexivity.
  - destruct vs as [|x vr]; [reflexivity|].
    specialize (IH vr). simpl in IH. injection IH as IH.
    simpl. destruct ft; try (rewrite IH; reflexivity); destruct (om && is_empty x); rewrite IH; reflexivity.
Qed.

Lemma dec_struct_gen : forall ns fs kv,
  rmap VStruct
    ((fix go (fs : list field) : res (list val) :=
        match fs with
        | [] => Ok []
        | Field _ n _ ft :: fr =>
            rbind (match ft with
                   | TSkip => Ok VUnit
                   | _ => dec_occs (dec ft) ft (entries_f ns n kv)
                   end)
                  (fun v => rbind (go fr) (fun vs => Ok (v :: vs)))
        end) fs) = rmap VStruct (dec_fields ns kv fs).
Proof.
  intros ns fs kv. f_equal. induction fs as [|[g n om ft] fr IH]; [reflexivity|].
  cbn [dec_fields]. rewrite <- IH. unfold dec_field. destruct ft; reflexivity.
Qed.

Lemma dec_struct : forall fs kv, dec (TStruct fs) (JObj kv) = rmap VStruct (dec_fields (names fs) kv fs).
Proof. intros fs kv. cbn [dec]. apply dec_struct_gen. Qed.

(* on objects whose keys are all (exactly) field names, folding lookup = exact lookup *)
Lemma resolve_exact : forall ns k, In k ns -> resolve ns k = Some k.
Proof.
  intros ns k H. unfold resolve.
  assert (existsb (String.eqb k) ns = true) as ->; [|reflexivity].
  apply existsb_exists. exists k. split; [exact H|apply String.eqb_eq; reflexivity].
Qed.

Lemma lookup_notin : forall n kv, ~ In n (keys kv) -> lookup n kv = None.
Proof.
  intros n kv. induction kv as [|[k j] r IH]; intros H; [reflexivity|].
  simpl in *. rewrite IH by tauto.
  destruct (String.eqb k n) eqn:E; [|reflexivity]. apply String.eqb_eq in E. tauto.
Qed.

Lemma entries_f_exact : forall ns n kv, (forall k, In k (keys kv) -> In k ns) -> NoDup (keys kv) ->
  entries_f ns n kv = match lookup n kv with Some j => [j] | None => [] end.
Proof.
  intros ns n kv. induction kv as [|[k j] r IH]; intros H Hnd; [reflexivity|].
  cbn [entries_f lookup]. inversion Hnd as [|? ? Hni Hnd']; subst.
  rewrite IH by (try exact Hnd'; intros k' Hk'; apply H; right; exact Hk').
  rewrite (resolve_exact ns k) by (apply H; left; reflexivity).
  destruct (String.eqb k n) eqn:E.
  - apply String.eqb_eq in E. subst k. rewrite (lookup_notin n r Hni). reflexivity.
  - destruct (lookup n r); reflexivity.
Qed.

Lemma dec_fields_exact : forall ns kv fs, (forall k, In k (keys kv) -> In k ns) -> NoDup (keys kv) ->
  dec_fields ns kv fs = dec_fields_x kv fs.
Proof.
  intros ns kv fs H Hnd. induction fs as [|[g n om ft] fr IH]; [reflexivity|].
  cbn [dec_fields dec_fields_x]. rewrite IH. unfold dec_field, dec_field_x.
  rewrite (entries_f_exact ns n kv H Hnd). destruct (lookup n kv); reflexivity.
Qed.

Lemma wf_struct_eq : forall fs vs, wf (TStruct fs) (VStruct vs) = wf_fields fs vs.
Proof.
  induction fs as [|[g n om ft] fr IH]; intros [|x vr]; try reflexivity;
  try (specialize (IH vr); simpl in IH; simpl; rewrite IH; reflexivity).
Qed.

Lemma canon_struct : forall fs vs, canon (TStruct fs) (VStruct vs) = VStruct (canon_fields fs vs).
Proof.
  induction fs as [|[g n om ft] fr IH]; intros [|x vr]; try reflexivity;
  try (specialize (IH vr); simpl in IH; injection IH as IH; simpl; rewrite IH; reflexivity).
Qed.

Lemma zero_struct : forall fs, zero (TStruct fs) = VStruct (zero_fields fs).
Proof.
  induction fs as [|[g n om ft] fr IH]; [reflexivity|].
  simpl in IH. simpl. first [ congruence | injection IH as IH; rewrite IH; reflexivity ].
Qed.

Lemma wf_struct_inv : forall fs v, wf (TStruct fs) v = true -> exists vs, v = VStruct vs /\ wf_fields fs vs = true.
Proof.
  intros fs v H. destruct v; try discriminate H. exists l. split; [reflexivity|]. rewrite <- wf_struct_eq. exact H.
Qed.
