(* C05/SortTags.v — a canonical order on tag lists (sort by an injective integer code of the
   key) and the fact that makes "up to tag order" precise: two lists of tags with distinct
   keys that are permutations of each other have the same canonical form. *)
From Coq Require Import ZArith List String Ascii Bool Lia Permutation.
Import ListNotations.
Open Scope Z_scope.

Fixpoint key_code (s : string) : Z :=
  match s with
  | EmptyString => 0
  | String c r => (Z.of_N (N_of_ascii c) + 1) + 257 * key_code r
  end.

Lemma key_code_nonneg : forall s, 0 <= key_code s.
Proof. induction s as [|c r IH]; cbn [key_code]; [lia|]. pose proof (N_ascii_bounded c). lia. Qed.

Lemma key_code_inj : forall a b, key_code a = key_code b -> a = b.
Proof.
  induction a as [|c r IH]; intros [|c' r'] H; cbn [key_code] in H.
  - reflexivity.
  - pose proof (key_code_nonneg r'). pose proof (N_ascii_bounded c'). lia.
  - pose proof (key_code_nonneg r). pose proof (N_ascii_bounded c). lia.
  - pose proof (N_ascii_bounded c) as Hc. pose proof (N_ascii_bounded c') as Hc'.
    assert (Z.of_N (N_of_ascii c) = Z.of_N (N_of_ascii c') /\ key_code r = key_code r') as [H1 H2] by lia.
    f_equal.
    + apply N2Z.inj in H1. rewrite <- (ascii_N_embedding c), <- (ascii_N_embedding c'), H1. reflexivity.
    + apply IH. exact H2.
Qed.

Section Sort.
Context {A : Type}.
Definition kc (p : string * A) : Z := key_code (fst p).

Fixpoint insert_tag (x : string * A) (l : list (string * A)) : list (string * A) :=
  match l with
  | [] => [x]
  | y :: r => if kc x <=? kc y then x :: l else y :: insert_tag x r
  end.
Definition sort_tags (l : list (string * A)) : list (string * A) := fold_right insert_tag [] l.

Lemma insert_comm : forall x y l, kc x <> kc y ->
  insert_tag x (insert_tag y l) = insert_tag y (insert_tag x l).
Proof.
  intros x y l Hxy. induction l as [|z r IH].
  - simpl. destruct (kc x <=? kc y) eqn:E1, (kc y <=? kc x) eqn:E2; try reflexivity; lia.
  - cbn [insert_tag].
    destruct (kc y <=? kc z) eqn:Eyz; destruct (kc x <=? kc z) eqn:Exz; cbn [insert_tag];
      destruct (kc x <=? kc y) eqn:Exy; destruct (kc y <=? kc x) eqn:Eyx;
      rewrite ?Eyz, ?Exz; try reflexivity; try lia.
    all: try (rewrite IH; reflexivity).
Qed.

Lemma insert_perm : forall x l, Permutation (insert_tag x l) (x :: l).
Proof.
  intros x l. induction l as [|y r IH]; simpl; [apply Permutation_refl|].
  destruct (kc x <=? kc y); [apply Permutation_refl|].
  eapply Permutation_trans; [apply perm_skip; exact IH|apply perm_swap].
Qed.

Lemma sort_tags_perm : forall l, Permutation (sort_tags l) l.
Proof.
  induction l as [|x r IH]; simpl; [constructor|].
  eapply Permutation_trans; [apply insert_perm|apply perm_skip; exact IH].
Qed.

Lemma sort_tags_of_perm : forall l l', Permutation l l' -> NoDup (map kc l) -> sort_tags l = sort_tags l'.
Proof.
  intros l l' HP. induction HP as [|x l l' HP IH|x y l|l l' l'' HP1 IH1 HP2 IH2]; intros HN.
  - reflexivity.
  - simpl. rewrite IH; [reflexivity|]. inversion HN; assumption.
  - simpl. apply insert_comm. inversion HN as [|? ? Hni HN']; subst. simpl in Hni.
    intro E. apply Hni. left. symmetry. exact E.
  - rewrite IH1 by exact HN. apply IH2.
    eapply Permutation_NoDup; [apply Permutation_map; exact HP1|exact HN].
Qed.
End Sort.
