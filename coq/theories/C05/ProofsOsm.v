(* C05/ProofsOsm.v — the container level: OSM.MarshalJSON / OSM.UnmarshalJSON round trip,
   own output decodable, absent fields stay empty, version number-or-string. *)
From Coq Require Import ZArith List String Ascii Bool Lia Permutation.
From Verif Require Import C05.Json C05.Schema C05.Model C05.Fmt C05.Osm C05.Spec C05.SortTags
     C05.Fields C05.ProofsGeneric C05.Resolve.
From VerifGen Require Import GenJsonTags.
Import ListNotations.
Open Scope string_scope.
Open Scope Z_scope.

(* ---- schema obligations on the generated element types (computation) ---- *)
Lemma schemas_rt_ok :
  rt_ok t_Node && rt_ok t_Way && rt_ok t_Relation && rt_ok t_Changeset && rt_ok t_Note
  && rt_ok t_User && rt_ok t_Bounds = true.
Proof. vm_compute. reflexivity. Qed.

(* element kinds 0..5 = node way relation changeset note user *)
Definition ktype (k : nat) : ty :=
  match k with 0 => t_Node | 1 => t_Way | 2 => t_Relation | 3 => t_Changeset | 4 => t_Note | _ => t_User end%nat.
Definition kname (k : nat) : string :=
  match k with 0 => "node" | 1 => "way" | 2 => "relation" | 3 => "changeset" | 4 => "note" | _ => "user" end%nat.
Definition kget (k : nat) (o : osmv) : list val :=
  match k with 0 => o_nodes o | 1 => o_ways o | 2 => o_relations o | 3 => o_changesets o
             | 4 => o_notes o | _ => o_users o end%nat.
Definition kapp (k : nat) (o : osmv) (l : list val) : osmv :=
  let a (j : nat) (x : list val) := if Nat.eqb j (Nat.min k 5) then (x ++ l)%list else x in
  mkOsm (o_version o) (o_generator o) (o_copyright o) (o_attribution o) (o_license o) (o_bounds o)
        (a 0%nat (o_nodes o)) (a 1%nat (o_ways o)) (a 2%nat (o_relations o))
        (a 3%nat (o_changesets o)) (a 4%nat (o_notes o)) (a 5%nat (o_users o)).

Lemma ktype_rt_ok : forall k, rt_ok (ktype k) = true.
Proof. intros k. do 6 (destruct k as [|k]; [vm_compute; reflexivity|]). vm_compute. reflexivity. Qed.

(* the struct of every element kind starts with the "type" shim and has no other key that
   resolves (exactly or by case folding) to "type" *)
Definition no_type_key (ns : list string) : bool :=
  forallb (fun m => match resolve ["type"] m with None => true | Some _ => false end) ns.

Lemma ktype_shape : forall k, exists g fr,
  ktype k = TStruct (Field g "type" false (TShim (kname k)) :: fr) /\ no_type_key (names fr) = true.
Proof.
  intros k. do 6 (destruct k as [|k]; [eexists; eexists; split; [reflexivity|vm_compute; reflexivity]|]).
  eexists; eexists; split; [reflexivity|vm_compute; reflexivity].
Qed.

Lemma find_type_obj : forall kv nm, entries_f ["type"] "type" kv = [JStr nm] -> nm <> "" ->
  find_type (JObj kv) = Ok nm.
Proof.
  intros kv nm H Hne. unfold find_type, t_typeStruct, f_typeStruct. rewrite dec_struct.
  cbn [dec_fields dec_field names]. rewrite H. simpl.
  destruct (String.eqb nm "") eqn:E; [apply String.eqb_eq in E; contradiction|reflexivity].
Qed.

Lemma no_type_key_unknown : forall rest, no_type_key (keys rest) = true ->
  forall k, In k (keys rest) -> resolve ["type"] k = None.
Proof.
  intros rest H k Hk. unfold no_type_key in H. rewrite forallb_forall in H. specialize (H k Hk).
  destruct (resolve ["type"] k); [discriminate H|reflexivity].
Qed.

Lemma type_first : forall j rest, no_type_key (keys rest) = true ->
  entries_f ["type"] "type" (("type", j) :: rest) = [j].
Proof.
  intros j rest H. cbn [entries_f]. rewrite entries_f_unknown; [reflexivity|].
  apply no_type_key_unknown. exact H.
Qed.

Lemma no_type_key_sub : forall a b, (forall k, In k a -> In k b) -> no_type_key b = true -> no_type_key a = true.
Proof.
  intros a b Hs H. unfold no_type_key in *. rewrite forallb_forall in *. intros k Hk. apply H, Hs, Hk.
Qed.

Section Osm.
Variable mo : list (string * string) -> list (string * string).
Hypothesis mo_perm : forall l, Permutation (mo l) l.

Lemma find_type_elem : forall k v, wf (ktype k) v = true -> find_type (enc mo (ktype k) v) = Ok (kname k).
Proof.
  intros k v H. destruct (ktype_shape k) as [g [fr [E Hn]]]. rewrite E in *.
  apply wf_struct_inv in H. destruct H as [vs [-> Hw]].
  destruct vs as [|x vr]; [discriminate Hw|].
  rewrite enc_struct. apply find_type_obj.
  - cbn [enc_fields andb]. apply type_first.
    eapply no_type_key_sub; [|exact Hn]. intros m Hm. eapply keys_enc_fields. exact Hm.
  - do 6 (destruct k as [|k]; [discriminate|]). discriminate.
Qed.

Lemma add_element_kind : forall k o j, find_type j = Ok (kname k) ->
  add_element o j = rmap (fun x => kapp k o [x]) (dec (ktype k) j).
Proof.
  intros k o j H. unfold add_element. rewrite H.
  do 6 (destruct k as [|k]; [reflexivity|]). reflexivity.
Qed.

Lemma kapp_app : forall k o a b, kapp k (kapp k o a) b = kapp k o (a ++ b).
Proof.
  intros k o a b. unfold kapp. destruct o; simpl.
  do 6 (destruct k as [|k]; [simpl; rewrite <- ?app_assoc; reflexivity|]). simpl. rewrite <- ?app_assoc. reflexivity.
Qed.

Lemma kapp_nil : forall k o, kapp k o [] = o.
Proof.
  intros k o. unfold kapp. destruct o; simpl.
  do 6 (destruct k as [|k]; [simpl; rewrite ?app_nil_r; reflexivity|]). simpl. rewrite ?app_nil_r. reflexivity.
Qed.

Lemma add_kind : forall k l o, forallb (wf (ktype k)) l = true ->
  exists l', add_elements add_element o (map VJson (map (enc mo (ktype k)) l)) = Ok (kapp k o l') /\
             map (canon (ktype k)) l' = map (canon (ktype k)) l.
Proof.
  intros k l. induction l as [|v r IH]; intros o H.
  - exists []. split; [simpl; rewrite kapp_nil; reflexivity|reflexivity].
  - simpl in H. rewrite andb_true_iff in H. destruct H as [Hv Hr].
    destruct (enc_dec mo mo_perm (ktype k) (ktype_rt_ok k) v Hv) as [v' [E1 E2]].
    destruct (IH (kapp k o [v']) Hr) as [l' [E3 E4]].
    exists (v' :: l'). split.
    + cbn [map add_elements]. rewrite (add_element_kind k o _ (find_type_elem k v Hv)), E1. simpl.
      rewrite E3, kapp_app. reflexivity.
    + simpl. rewrite E2, E4. reflexivity.
Qed.

Lemma add_elements_app : forall add a b o,
  add_elements add o (a ++ b) = rbind (add_elements add o a) (fun o' => add_elements add o' b).
Proof.
  intros add a. induction a as [|x r IH]; intros b o; [reflexivity|].
  simpl. destruct x; try reflexivity. destruct (add o j); simpl; try reflexivity. apply IH.
Qed.

(* the bounds element *)
Lemma bounds_elem : forall o b, wf t_Bounds b = true ->
  exists b', add_element o (enc mo t_jsonBoundsElement (bounds_element b)) =
             Ok (mkOsm (o_version o) (o_generator o) (o_copyright o) (o_attribution o) (o_license o)
                       (Some b') (o_nodes o) (o_ways o) (o_relations o) (o_changesets o) (o_notes o) (o_users o))
             /\ canon t_Bounds b' = canon t_Bounds b.
Proof.
  intros o b H. unfold t_Bounds in H. apply wf_struct_inv in H. destruct H as [vs [-> Hw]].
  unfold f_Bounds in Hw.
  destruct vs as [|a vs]; [discriminate Hw|]. destruct vs as [|b0 vs]; [simpl in Hw; rewrite andb_false_r in Hw; discriminate Hw|].
  destruct vs as [|c vs]; [simpl in Hw; rewrite !andb_false_r in Hw; discriminate Hw|].
  destruct vs as [|d vs]; [simpl in Hw; rewrite !andb_false_r in Hw; discriminate Hw|].
  destruct vs as [|e vs]; [|simpl in Hw; rewrite !andb_false_r in Hw; discriminate Hw].
  simpl in Hw. rewrite !andb_true_iff in Hw. destruct Hw as [Ha [Hb [Hc [Hd _]]]].
  destruct a; try discriminate Ha. destruct b0; try discriminate Hb.
  destruct c; try discriminate Hc. destruct d; try discriminate Hd.
  eexists. split; [vm_compute; reflexivity|reflexivity].
Qed.

Definition all_wf (o : osmv) : Prop :=
  (match o_bounds o with Some b => wf t_Bounds b = true | None => True end) /\
  forall k, forallb (wf (ktype k)) (kget k o) = true.

Lemma wf_osm_all : forall o, wf_osm o = true -> all_wf o.
Proof.
  intros o H. unfold wf_osm, t_OSM, osm_to_val in H. rewrite wf_struct_eq in H. unfold f_OSM in H.
  cbn [wf_fields] in H. rewrite !andb_true_iff in H.
  destruct H as [_ [_ [_ [_ [_ [Hb [Hn [Hw [Hr [Hc [Hnt [Hu _]]]]]]]]]]]].
  split.
  - destruct (o_bounds o); [exact Hb|exact I].
  - intros k. do 6 (destruct k as [|k]; [assumption|]). exact Hu.
Qed.

(* the header struct: five omitempty strings and the elements *)
Lemma header_rt : forall a b c d e (els : list json),
  dec (TStruct f_OSM_UnmarshalJSON)
      (enc mo (TStruct f_OSM_MarshalJSON)
           (VStruct [VStr a; VStr b; VStr c; VStr d; VStr e; VList (map VJson els)]))
  = Ok (VStruct [VJson (if String.eqb a "" then JNull else JStr a); VStr b; VStr c; VStr d; VStr e;
                 VList (map VJson els)]).
Proof.
  intros a b c d e els. rewrite enc_struct, dec_struct.
  rewrite dec_fields_exact.
  2:{ intros k Hk. apply (keys_enc_fields mo) in Hk. vm_compute in Hk |- *. tauto. }
  2:{ apply enc_fields_keys_nodup. vm_compute. reflexivity. }
  unfold f_OSM_MarshalJSON, f_OSM_UnmarshalJSON.
  cbn [enc_fields is_empty andb].
  assert (Hm : map (fun v : val => match v with VJson j => j | _ => JNull end) (map VJson els) = els)
    by (rewrite map_map; simpl; apply map_id).
  destruct (String.eqb a "") eqn:Ea; destruct (String.eqb b "") eqn:Eb; destruct (String.eqb c "") eqn:Ec;
    destruct (String.eqb d "") eqn:Ed; destruct (String.eqb e "") eqn:Ee;
    rewrite ?String.eqb_eq in *; subst;
    cbn [enc dec_fields_x dec_field_x lookup String.eqb Ascii.eqb Bool.eqb rbind rmap zero dec];
    rewrite ?Hm; reflexivity.
Qed.

Theorem osm_roundtrip : forall o, wf_osm o = true ->
  exists o', osm_unmarshal (osm_marshal mo o) = Ok o' /\ canon_osm o' = canon_osm o.
Proof.
  intros o H. apply wf_osm_all in H. destruct H as [Hb Hk].
  unfold osm_unmarshal, unmarshal_with, osm_marshal, marshal_with. rewrite header_rt.
  cbn [rbind].
  assert (Hv : version_text (if String.eqb (o_version o) "" then JNull else JStr (o_version o)) = Ok (o_version o)).
  { destruct (String.eqb (o_version o) "") eqn:E; [apply String.eqb_eq in E; rewrite E|]; reflexivity. }
  rewrite Hv. cbn [rbind]. unfold objects.
  set (o0 := mkOsm (o_version o) (o_generator o) (o_copyright o) (o_attribution o) (o_license o)
                   (o_bounds empty_osm) (o_nodes empty_osm) (o_ways empty_osm) (o_relations empty_osm)
                   (o_changesets empty_osm) (o_notes empty_osm) (o_users empty_osm)).
  (* bounds *)
  assert (HB : exists ob, add_elements add_element o0
                 (map VJson match o_bounds o with
                            | Some b => [enc mo t_jsonBoundsElement (bounds_element b)]
                            | None => []
                            end)
               = Ok (mkOsm (o_version o) (o_generator o) (o_copyright o) (o_attribution o) (o_license o)
                           ob [] [] [] [] [] [])
               /\ option_map (canon t_Bounds) ob = option_map (canon t_Bounds) (o_bounds o)).
  { destruct (o_bounds o) as [b|].
    - destruct (bounds_elem o0 b Hb) as [b' [E1 E2]]. exists (Some b'). split.
      + cbn [map add_elements]. rewrite E1. reflexivity.
      + cbn [option_map]. rewrite E2. reflexivity.
    - exists None. split; reflexivity. }
  destruct HB as [ob [EB1 EB2]].
  set (mk := mkOsm (o_version o) (o_generator o) (o_copyright o) (o_attribution o) (o_license o) ob) in *.
  rewrite !map_app. rewrite add_elements_app, EB1. cbn [rbind].
  destruct (add_kind 0 (o_nodes o) (mk [] [] [] [] [] []) (Hk 0%nat)) as [ln [En1 En2]].
  change (kapp 0 (mk [] [] [] [] [] []) ln) with (mk ln [] [] [] [] []) in En1.
  change (ktype 0) with t_Node in *. rewrite add_elements_app, En1. cbn [rbind].
  destruct (add_kind 1 (o_ways o) (mk ln [] [] [] [] []) (Hk 1%nat)) as [lw [Ew1 Ew2]].
  change (kapp 1 (mk ln [] [] [] [] []) lw) with (mk ln lw [] [] [] []) in Ew1.
  change (ktype 1) with t_Way in *. rewrite add_elements_app, Ew1. cbn [rbind].
  destruct (add_kind 2 (o_relations o) (mk ln lw [] [] [] []) (Hk 2%nat)) as [lr [Er1 Er2]].
  change (kapp 2 (mk ln lw [] [] [] []) lr) with (mk ln lw lr [] [] []) in Er1.
  change (ktype 2) with t_Relation in *. rewrite add_elements_app, Er1. cbn [rbind].
  destruct (add_kind 3 (o_changesets o) (mk ln lw lr [] [] []) (Hk 3%nat)) as [lc [Ec1 Ec2]].
  change (kapp 3 (mk ln lw lr [] [] []) lc) with (mk ln lw lr lc [] []) in Ec1.
  change (ktype 3) with t_Changeset in *. rewrite add_elements_app, Ec1. cbn [rbind].
  destruct (add_kind 5 (o_users o) (mk ln lw lr lc [] []) (Hk 5%nat)) as [lu [Eu1 Eu2]].
  change (kapp 5 (mk ln lw lr lc [] []) lu) with (mk ln lw lr lc [] lu) in Eu1.
  change (ktype 5) with t_User in *. rewrite add_elements_app, Eu1. cbn [rbind].
  destruct (add_kind 4 (o_notes o) (mk ln lw lr lc [] lu) (Hk 4%nat)) as [lt [Et1 Et2]].
  change (kapp 4 (mk ln lw lr lc [] lu) lt) with (mk ln lw lr lc lt lu) in Et1.
  change (ktype 4) with t_Note in *. rewrite Et1.
  exists (mk ln lw lr lc lt lu). split; [reflexivity|].
  unfold canon_osm, mk.
  cbn [o_version o_generator o_copyright o_attribution o_license o_bounds o_nodes o_ways o_relations
       o_changesets o_notes o_users].
  rewrite EB2, En2, Ew2, Er2, Ec2, Eu2, Et2. reflexivity.
Qed.

(* every element of the output is found again by findType: the output is decodable *)
Corollary own_output_decodable : forall o, wf_osm o = true ->
  exists o', osm_unmarshal (osm_marshal mo o) = Ok o'.
Proof. intros o H. destruct (osm_roundtrip o H) as [o' [E _]]. exists o'. exact E. Qed.
End Osm.

(* ---- documents: absent fields stay empty, version number or string ---- *)
Lemma add_element_header : forall o j o', add_element o j = Ok o' ->
  o_version o' = o_version o /\ o_generator o' = o_generator o /\ o_copyright o' = o_copyright o
  /\ o_attribution o' = o_attribution o /\ o_license o' = o_license o.
Proof.
  intros o j o' H. unfold add_element in H. destruct (find_type j) as [t| |]; try discriminate H.
  cbn [rbind] in H.
  repeat match type of H with
         | (if ?b then _ else _) = _ => destruct b
         end; try discriminate H;
  match type of H with rmap _ ?d = _ => destruct d; try discriminate H end;
  cbn [rmap rbind] in H; injection H as <-; cbn [o_version o_generator o_copyright o_attribution o_license];
  repeat split; reflexivity.
Qed.

Lemma add_elements_header : forall l o o', add_elements add_element o l = Ok o' ->
  o_version o' = o_version o /\ o_generator o' = o_generator o /\ o_copyright o' = o_copyright o
  /\ o_attribution o' = o_attribution o /\ o_license o' = o_license o.
Proof.
  induction l as [|x r IH]; intros o o' H.
  - injection H as <-. repeat split; reflexivity.
  - simpl in H. destruct x; try discriminate H.
    destruct (add_element o j) as [o1| |] eqn:E; try discriminate H. simpl in H.
    destruct (add_element_header o j o1 E) as [A1 [A2 [A3 [A4 A5]]]].
    destruct (IH o1 o' H) as [B1 [B2 [B3 [B4 B5]]]].
    repeat split; congruence.
Qed.

Definition hdr_names : list string := names f_OSM_UnmarshalJSON.

Lemma hdr_names_folds : NoDup (map fold_case hdr_names).
Proof. vm_compute. repeat constructor; simpl; intuition discriminate. Qed.

(* the decoder's entries for a header field are exactly the document's values for that name
   up to case (Spec.field_values, written independently of the resolution) *)
Lemma hdr_entries : forall n kv, In n hdr_names -> entries_f hdr_names n kv = field_values n kv.
Proof. intros n kv H. apply entries_f_spec; [exact hdr_names_folds|exact H]. Qed.

Lemma rbind_ok : forall {A B} (r : res A) (f : A -> res B) b,
  rbind r f = Ok b -> exists a, r = Ok a /\ f a = Ok b.
Proof. intros A B r f b H. destruct r; try discriminate H. exists a. split; [reflexivity|exact H]. Qed.

Definition str_acc (acc : res val) : Prop :=
  match acc with Ok (VStr _) => True | Ok _ => False | _ => True end.

Lemma fold_str_acc : forall l acc, str_acc acc ->
  str_acc (fold_left (fun cur j => rbind cur (fun c => if is_null j && null_noop TStr then Ok c else dec TStr j)) l acc).
Proof.
  induction l as [|x l IH]; intros acc Ha; [exact Ha|].
  cbn [fold_left]. apply IH. destruct acc as [v| |]; try exact I.
  destruct v; try contradiction. destruct x; exact I.
Qed.

Lemma string_field_dec : forall kv n v, In n hdr_names -> dec_field hdr_names kv n TStr = Ok v ->
  exists s, v = VStr s /\ string_field_spec kv n s.
Proof.
  intros kv n v Hn H. unfold dec_field in H. rewrite (hdr_entries n kv Hn) in H.
  unfold string_field_spec, header_entry. destruct (field_values n kv) as [|j [|j2 r]].
  - injection H as <-. exists "". split; reflexivity.
  - destruct j; simpl in H; try discriminate H; injection H as <-; eexists; split; reflexivity.
  - cbn [dec_occs seq_type] in H.
    pose proof (fold_str_acc (j :: j2 :: r) (Ok (zero TStr)) I) as P. rewrite H in P.
    destruct v; try contradiction. exists s. split; [reflexivity|exact I].
Qed.

(* what a successfully decoded document's header says, for every document object: the
   specification side (Spec.version_spec / string_field_spec) is written over the document's
   keys compared case-insensitively, independently of the model's resolution *)
Theorem header_of_document : forall kv o, osm_unmarshal (JObj kv) = Ok o ->
  version_spec kv (o_version o)
  /\ string_field_spec kv "generator" (o_generator o) /\ string_field_spec kv "copyright" (o_copyright o)
  /\ string_field_spec kv "attribution" (o_attribution o) /\ string_field_spec kv "license" (o_license o).
Proof.
  intros kv o H. unfold osm_unmarshal, unmarshal_with in H. rewrite dec_struct in H.
  change (names f_OSM_UnmarshalJSON) with hdr_names in H.
  unfold f_OSM_UnmarshalJSON, rmap in H. cbn [dec_fields] in H.
  apply rbind_ok in H. destruct H as [s0 [H H0]].
  apply rbind_ok in H. destruct H as [l0 [H Hs0]]. injection Hs0 as <-.
  apply rbind_ok in H. destruct H as [vv [Hv H]].
  apply rbind_ok in H. destruct H as [l1 [H E1]]. injection E1 as <-.
  apply rbind_ok in H. destruct H as [vg [Hg H]].
  apply rbind_ok in H. destruct H as [l2 [H E2]]. injection E2 as <-.
  apply rbind_ok in H. destruct H as [vc [Hc H]].
  apply rbind_ok in H. destruct H as [l3 [H E3]]. injection E3 as <-.
  apply rbind_ok in H. destruct H as [va [Ha H]].
  apply rbind_ok in H. destruct H as [l4 [H E4]]. injection E4 as <-.
  apply rbind_ok in H. destruct H as [vl [Hl H]].
  apply rbind_ok in H. destruct H as [l5 [H E5]]. injection E5 as <-.
  apply rbind_ok in H. destruct H as [ve [He H]].
  injection H as <-.
  assert (In1 : In "generator" hdr_names) by (vm_compute; tauto).
  assert (In2 : In "copyright" hdr_names) by (vm_compute; tauto).
  assert (In3 : In "attribution" hdr_names) by (vm_compute; tauto).
  assert (In4 : In "license" hdr_names) by (vm_compute; tauto).
  assert (In0 : In "version" hdr_names) by (vm_compute; tauto).
  destruct (string_field_dec _ _ _ In1 Hg) as [sg [-> Fg]]. destruct (string_field_dec _ _ _ In2 Hc) as [sc [-> Fc]].
  destruct (string_field_dec _ _ _ In3 Ha) as [sa [-> Fa]]. destruct (string_field_dec _ _ _ In4 Hl) as [sl [-> Fl]].
  unfold dec_field in Hv. rewrite (hdr_entries "version" kv In0) in Hv.
  destruct vv; try (destruct ve; discriminate H0).
  destruct ve; try discriminate H0.
  apply rbind_ok in H0. destruct H0 as [vs [Hvs H0]].
  apply add_elements_header in H0. cbn in H0. destruct H0 as [B1 [B2 [B3 [B4 B5]]]].
  rewrite B1, B2, B3, B4, B5. repeat split; try assumption.
  unfold version_spec, header_entry. destruct (field_values "version" kv) as [|j1 [|j2 r]]; [| |exact I].
  - injection Hv as <-. injection Hvs as <-. reflexivity.
  - simpl in Hv. injection Hv as <-.
    destruct j1; simpl in Hvs; try discriminate Hvs; try (injection Hvs as <-; reflexivity).
    destruct b; injection Hvs as <-; reflexivity.
Qed.
