(* C05/ProofsDoc.v — independently written documents: a document that spells the same elements
   with the keys of every object in any order and with unknown keys added (document level and
   element level) decodes to exactly what the library's own output decodes to — hence, by the
   round-trip theorem, to the elements that were written, up to tag order and way-node
   annotations. *)
From Coq Require Import ZArith List String Ascii Bool Permutation Lia.
From Verif Require Import C05.Json C05.Schema C05.Model C05.Fmt C05.Osm C05.Spec C05.SortTags
     C05.Fields C05.ProofsGeneric C05.Resolve C05.ProofsOsm.
From VerifGen Require Import GenJsonTags.
Import ListNotations.
Open Scope string_scope.

Definition kfields (k : nat) : list field :=
  match k with 0 => f_Node | 1 => f_Way | 2 => f_Relation | 3 => f_Changeset | 4 => f_Note | _ => f_User end%nat.
Lemma ktype_fields : forall k, ktype k = TStruct (kfields k).
Proof. intros k. do 6 (destruct k as [|k]; [reflexivity|]). reflexivity. Qed.

Lemma kfields_nodup : forall k, str_nodup (names (kfields k)) = true.
Proof. intros k. do 6 (destruct k as [|k]; [vm_compute; reflexivity|]). vm_compute. reflexivity. Qed.

Lemma kfields_has_type : forall k, In "type" (names (kfields k)).
Proof. intros k. do 6 (destruct k as [|k]; [vm_compute; tauto|]). vm_compute. tauto. Qed.

(* a key unknown to a struct is unknown to any struct with fewer names *)
Lemma resolve_none_sub : forall ns ns' k, (forall m, In m ns' -> In m ns) ->
  resolve ns k = None -> resolve ns' k = None.
Proof.
  intros ns ns' k Hs H. unfold resolve in *.
  destruct (existsb (String.eqb k) ns) eqn:E1; [discriminate H|].
  assert (existsb (String.eqb k) ns' = false) as ->.
  { destruct (existsb (String.eqb k) ns') eqn:E2; [|reflexivity].
    apply existsb_exists in E2. destruct E2 as [m [Hm E]].
    assert (existsb (String.eqb k) ns = true) by (apply existsb_exists; exists m; split; [apply Hs; exact Hm|exact E]).
    congruence. }
  destruct (find (fun m => String.eqb (fold_case m) (fold_case k)) ns') as [m|] eqn:F; [|reflexivity].
  apply find_some in F. destruct F as [Hm E].
  pose proof (find_none _ _ H m (Hs m Hm)) as N. simpl in N. congruence.
Qed.

Lemma respelled_sub : forall ns ns' kv' kv, (forall m, In m ns' -> In m ns) ->
  respelled ns kv' kv -> respelled ns' kv' kv.
Proof.
  intros ns ns' kv' kv Hs [extra [HP Hx]]. exists extra. split; [exact HP|].
  intros k Hk. eapply resolve_none_sub; [exact Hs|apply Hx; exact Hk].
Qed.

Section Doc.
Variable mo : list (string * string) -> list (string * string).
Hypothesis mo_perm : forall l, Permutation (mo l) l.

(* ---- one element ---- *)
Lemma find_type_respelled : forall kv' nm rest,
  respelled ["type"] kv' (("type", JStr nm) :: rest) -> no_type_key (keys rest) = true -> nm <> "" ->
  find_type (JObj kv') = Ok nm.
Proof.
  intros kv' nm rest Hr Hn Hne. apply find_type_obj; [|exact Hne].
  rewrite (entries_respelled ["type"] "type" kv' _ Hr); rewrite (type_first (JStr nm) rest Hn); [reflexivity|simpl; lia].
Qed.

Lemma kind_element_respelled : forall k v kv kv' o, wf (ktype k) v = true ->
  enc mo (ktype k) v = JObj kv -> respelled (names (kfields k)) kv' kv ->
  add_element o (JObj kv') = add_element o (JObj kv).
Proof.
  intros k v kv kv' o Hw He Hr.
  pose proof (find_type_elem mo k v Hw) as Ft. rewrite He in Ft.
  destruct (ktype_shape k) as [g [fr [E Hn]]]. pose proof (ktype_fields k) as Ef. rewrite E in Ef.
  injection Ef as Ef.
  assert (Hw' := Hw). rewrite E in Hw'. apply wf_struct_inv in Hw'. destruct Hw' as [vs [-> Hwf]].
  destruct vs as [|x vr]; [discriminate Hwf|].
  rewrite E, enc_struct in He. injection He as He. cbn [enc_fields andb] in He.
  assert (Hkeys : no_type_key (keys (enc_fields mo fr vr)) = true).
  { eapply no_type_key_sub; [|exact Hn]. intros m Hm. eapply keys_enc_fields. exact Hm. }
  assert (Ft' : find_type (JObj kv') = Ok (kname k)).
  { subst kv. eapply (find_type_respelled kv' (kname k) (enc_fields mo fr vr)); [|exact Hkeys|].
    - eapply respelled_sub; [|exact Hr]. intros m [<-|[]]. apply kfields_has_type.
    - do 6 (destruct k as [|k]; [discriminate|]). discriminate. }
  rewrite (add_element_kind k o _ Ft'), (add_element_kind k o _ Ft). f_equal.
  rewrite (ktype_fields k). apply dec_respelled; [exact Hr| |].
  - apply self_resolving_exact. intros m Hm. subst kv. rewrite <- Ef.
    change (In m (keys (enc_fields mo (Field g "type" false (TShim (kname k)) :: fr) (x :: vr)))) in Hm.
    eapply keys_enc_fields. exact Hm.
  - subst kv.
    change (NoDup (keys (enc_fields mo (Field g "type" false (TShim (kname k)) :: fr) (x :: vr)))).
    apply enc_fields_keys_nodup. rewrite Ef. apply kfields_nodup.
Qed.

Lemma bounds_names_sub : forall m, In m (names f_Bounds) -> In m (names f_jsonBoundsElement).
Proof. intros m H. vm_compute in H |- *. tauto. Qed.

Lemma bounds_element_respelled : forall b kv kv' o, wf t_Bounds b = true ->
  enc mo t_jsonBoundsElement (bounds_element b) = JObj kv -> respelled (names f_jsonBoundsElement) kv' kv ->
  add_element o (JObj kv') = add_element o (JObj kv).
Proof.
  intros b kv kv' o Hw He Hr.
  unfold t_Bounds in Hw. apply wf_struct_inv in Hw. destruct Hw as [vs [-> Hw]]. unfold f_Bounds in Hw.
  destruct vs as [|a vs]; [discriminate Hw|]. destruct vs as [|b0 vs]; [simpl in Hw; rewrite andb_false_r in Hw; discriminate|].
  destruct vs as [|c vs]; [simpl in Hw; rewrite !andb_false_r in Hw; discriminate|].
  destruct vs as [|d vs]; [simpl in Hw; rewrite !andb_false_r in Hw; discriminate|].
  destruct vs as [|e vs]; [|simpl in Hw; rewrite !andb_false_r in Hw; discriminate].
  simpl in Hw. rewrite !andb_true_iff in Hw. destruct Hw as [Ha [Hb [Hc [Hd _]]]].
  destruct a; try discriminate Ha. destruct b0; try discriminate Hb.
  destruct c; try discriminate Hc. destruct d; try discriminate Hd.
  vm_compute in He. injection He as <-.
  assert (Ft : forall kv0, respelled ["type"] kv0
                 [("type", JStr "bounds"); ("MinLat", JNum m k); ("MaxLat", JNum m0 k0); ("MinLon", JNum m1 k1); ("MaxLon", JNum m2 k2)] ->
               find_type (JObj kv0) = Ok "bounds").
  { intros kv0 H0. eapply (find_type_respelled kv0 "bounds"); [exact H0|vm_compute; reflexivity|discriminate]. }
  assert (R1 : respelled ["type"] kv' [("type", JStr "bounds"); ("MinLat", JNum m k); ("MaxLat", JNum m0 k0); ("MinLon", JNum m1 k1); ("MaxLon", JNum m2 k2)]).
  { eapply respelled_sub; [|exact Hr]. intros x [<-|[]]. vm_compute. tauto. }
  assert (R0 : respelled ["type"] [("type", JStr "bounds"); ("MinLat", JNum m k); ("MaxLat", JNum m0 k0); ("MinLon", JNum m1 k1); ("MaxLon", JNum m2 k2)]
                 [("type", JStr "bounds"); ("MinLat", JNum m k); ("MaxLat", JNum m0 k0); ("MinLon", JNum m1 k1); ("MaxLon", JNum m2 k2)]).
  { exists []. split; [rewrite app_nil_r; apply Permutation_refl|intros x []]. }
  unfold add_element. rewrite (Ft _ R1), (Ft _ R0). cbn [rbind String.eqb Ascii.eqb Bool.eqb]. f_equal.
  unfold t_Bounds. apply dec_respelled.
  - eapply respelled_sub; [exact bounds_names_sub|exact Hr].
  - intros x Hx. simpl in Hx. destruct Hx as [<-|[<-|[<-|[<-|[<-|[]]]]]]; vm_compute; tauto.
  - simpl. repeat constructor; simpl; intuition discriminate.
Qed.

(* e' spells the library's encoding e of a well-formed element with its keys in any order and
   unknown keys added *)
Inductive written_as : json -> json -> Prop :=
| WKind : forall k v kv kv', wf (ktype k) v = true -> enc mo (ktype k) v = JObj kv ->
    respelled (names (kfields k)) kv' kv -> written_as (JObj kv') (JObj kv)
| WBounds : forall b kv kv', wf t_Bounds b = true ->
    enc mo t_jsonBoundsElement (bounds_element b) = JObj kv ->
    respelled (names f_jsonBoundsElement) kv' kv -> written_as (JObj kv') (JObj kv).

Lemma written_as_add : forall e' e o, written_as e' e -> add_element o e' = add_element o e.
Proof.
  intros e' e o H. destruct H as [k v kv kv' Hw He Hr|b kv kv' Hw He Hr].
  - eapply kind_element_respelled; eassumption.
  - eapply bounds_element_respelled; eassumption.
Qed.

Lemma add_elements_written : forall es' es o, Forall2 written_as es' es ->
  add_elements add_element o (map VJson es') = add_elements add_element o (map VJson es).
Proof.
  intros es' es o H. revert o. induction H as [|e' e es' es He Hes IH]; intros o; [reflexivity|].
  cbn [map add_elements]. rewrite (written_as_add e' e o He).
  destruct (add_element o e); cbn [rbind]; try reflexivity. apply IH.
Qed.

(* ---- the document ---- *)
(* the entries of the library's output with another elements array *)
Definition doc_entries (o : osmv) (es : list json) : list (string * json) :=
  enc_fields mo f_OSM_MarshalJSON
    [VStr (o_version o); VStr (o_generator o); VStr (o_copyright o); VStr (o_attribution o);
     VStr (o_license o); VList (map VJson es)].

Lemma marshal_is_doc_entries : forall o, osm_marshal mo o = JObj (doc_entries o (objects mo o)).
Proof. intros o. unfold osm_marshal, marshal_with. rewrite enc_struct. reflexivity. Qed.

Lemma unmarshal_doc_entries : forall o es dkv', respelled hdr_names dkv' (doc_entries o es) ->
  osm_unmarshal (JObj dkv') =
  add_elements add_element
    (mkOsm (o_version o) (o_generator o) (o_copyright o) (o_attribution o) (o_license o)
           None [] [] [] [] [] []) (map VJson es).
Proof.
  intros o es dkv' Hr. unfold osm_unmarshal, unmarshal_with.
  assert (Hd : dec (TStruct f_OSM_UnmarshalJSON) (JObj dkv') =
               dec (TStruct f_OSM_UnmarshalJSON) (JObj (doc_entries o es))).
  { apply dec_respelled; [exact Hr| |].
    - apply self_resolving_exact. intros m Hm. apply (keys_enc_fields mo) in Hm. vm_compute in Hm |- *. tauto.
    - apply enc_fields_keys_nodup. vm_compute. reflexivity. }
  rewrite Hd. unfold doc_entries. rewrite <- enc_struct, header_rt. cbn [rbind].
  assert (Hv : version_text (if String.eqb (o_version o) "" then JNull else JStr (o_version o)) = Ok (o_version o)).
  { destruct (String.eqb (o_version o) "") eqn:E; [apply String.eqb_eq in E; rewrite E|]; reflexivity. }
  rewrite Hv. reflexivity.
Qed.

Theorem document_elements : forall o es' dkv', wf_osm o = true ->
  Forall2 written_as es' (objects mo o) ->
  respelled hdr_names dkv' (doc_entries o es') ->
  exists o', osm_unmarshal (JObj dkv') = Ok o' /\ osm_equiv o' o.
Proof.
  intros o es' dkv' Hw Hes Hr.
  destruct (osm_roundtrip mo mo_perm o Hw) as [o' [E Q]]. exists o'. split; [|exact Q].
  rewrite (unmarshal_doc_entries o es' dkv' Hr), (add_elements_written es' (objects mo o) _ Hes).
  rewrite <- E, marshal_is_doc_entries.
  symmetry. apply unmarshal_doc_entries. exists []. split; [rewrite app_nil_r; apply Permutation_refl|intros k []].
Qed.
End Doc.
