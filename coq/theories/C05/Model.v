(* C05/Model.v — executable model of the JSON side of package osm (definitions only).

   Anchors: osm.go (OSM.MarshalJSON, OSM.UnmarshalJSON, findType, Objects), json.go (shims),
   tag.go (Tags as object), way.go (WayNodes as id array), relation.go (Members never null),
   note.go (Date null when zero), change.go (Change with nested *OSM).

   Level: JSON trees (C05/Json.v).  What encoding/json (or an installed codec) does for a
   struct — field order, json names, omitempty, null for nil pointers/slices, calling the
   MarshalJSON/UnmarshalJSON methods — is the generic, schema-directed [enc]/[dec] below; the
   schemas themselves are regenerated from the source (VerifGen.GenJsonTags).  The hand-written
   Go methods are modelled one by one.

   Outside the model (explicit [Unmodelled] results, never silently totalised): time texts
   that are not in canonical RFC 3339 UTC form, non-ASCII case folding of keys, "version"
   given as array/object, Changeset.Change (kept nil), duplicate keys on struct / pointer / slice valued fields
   (merged by encoding/json; scalar-like duplicates are modelled, see dec_occs). *)
From Coq Require Import ZArith List String Ascii Bool DecimalString Decimal.
From Verif Require Import C05.Json C05.Schema.
From VerifGen Require Import GenJsonTags.
Import ListNotations.
Open Scope Z_scope.

Inductive res (A : Type) : Type := Ok (a : A) | Err | Unmodelled.
Arguments Ok {A} a. Arguments Err {A}. Arguments Unmodelled {A}.

Definition rbind {A B} (r : res A) (f : A -> res B) : res B :=
  match r with Ok a => f a | Err => Err | Unmodelled => Unmodelled end.
Definition rmap {A B} (f : A -> B) (r : res A) : res B := rbind r (fun a => Ok (f a)).

Fixpoint map_res {A B} (f : A -> res B) (l : list A) : res (list B) :=
  match l with
  | [] => Ok []
  | a :: r => rbind (f a) (fun b => rbind (map_res f r) (fun bs => Ok (b :: bs)))
  end.

(* ------------------------------------------------------------------------------------ *)
(* canonical RFC 3339 UTC time texts:  YYYY-MM-DDThh:mm:ss[.f{1,9} without trailing 0]Z   *)

Definition digit_val (c : ascii) : option Z :=
  let n := Z.of_N (N_of_ascii c) in
  if (48 <=? n) && (n <=? 57) then Some (n - 48) else None.

Fixpoint take_digits (n : nat) (s : string) (acc : Z) : option (Z * string) :=
  match n with
  | O => Some (acc, s)
  | S n' =>
      match s with
      | String c r => match digit_val c with
                      | Some d => take_digits n' r (acc * 10 + d)
                      | None => None
                      end
      | EmptyString => None
      end
  end.

Definition expect (c : ascii) (s : string) : option string :=
  match s with String c' r => if Ascii.eqb c c' then Some r else None | _ => None end.

Definition leap (y : Z) : bool :=
  ((y mod 4 =? 0) && negb (y mod 100 =? 0)) || (y mod 400 =? 0).
Definition days_in (y m : Z) : Z :=
  if m =? 2 then (if leap y then 29 else 28)
  else if (m =? 4) || (m =? 6) || (m =? 9) || (m =? 11) then 30 else 31.

(* fraction: 1..9 digits, the last one not 0, then "Z" and the end *)
Fixpoint frac_ok (n : nat) (s : string) (last_nonzero : bool) (seen : bool) : bool :=
  match s with
  | String c r =>
      match digit_val c with
      | Some d => match n with
                  | O => false
                  | S n' => frac_ok n' r (negb (d =? 0)) true
                  end
      | None => Ascii.eqb c "Z" && seen && last_nonzero && String.eqb r ""
      end
  | EmptyString => false
  end.

Definition canon_time (s : string) : bool :=
  match take_digits 4 s 0 with
  | Some (y, s) =>
    match expect "-" s with Some s =>
    match take_digits 2 s 0 with Some (mo, s) =>
    match expect "-" s with Some s =>
    match take_digits 2 s 0 with Some (d, s) =>
    match expect "T" s with Some s =>
    match take_digits 2 s 0 with Some (h, s) =>
    match expect ":" s with Some s =>
    match take_digits 2 s 0 with Some (mi, s) =>
    match expect ":" s with Some s =>
    match take_digits 2 s 0 with Some (se, s) =>
      (1 <=? mo) && (mo <=? 12) && (1 <=? d) && (d <=? days_in y mo)
      && (h <=? 23) && (mi <=? 59) && (se <=? 59)
      && (String.eqb s "Z"
          || match s with String "." r => frac_ok 9 r false false | _ => false end)
    | None => false end | None => false end | None => false end | None => false end
    | None => false end | None => false end | None => false end | None => false end
    | None => false end | None => false end
  | None => false
  end.

(* ------------------------------------------------------------------------------------ *)
(* tags and way nodes as values                                                           *)

Definition mk_tag (kv : string * string) : val := VStruct [VStr (fst kv); VStr (snd kv)].
Definition tag_pair (v : val) : option (string * string) :=
  match v with VStruct [VStr k; VStr x] => Some (k, x) | _ => None end.
Fixpoint tag_pairs (l : list val) : list (string * string) :=
  match l with
  | [] => []
  | v :: r => match tag_pair v with Some p => p :: tag_pairs r | None => tag_pairs r end
  end.

Definition has_key {A} (k : string) (l : list (string * A)) : bool :=
  existsb (fun p => String.eqb (fst p) k) l.

(* Tags.Map(): a Go map, the last tag with a given key wins *)
Fixpoint dedup_last {A} (l : list (string * A)) : list (string * A) :=
  match l with
  | [] => []
  | p :: r => if has_key (fst p) r then dedup_last r else p :: dedup_last r
  end.

Definition wn_id (v : val) : Z := match v with VStruct (VInt id :: _) => id | _ => 0 end.
Definition mk_waynode (fs : list field) (id : Z) : val :=
  match zero (TStruct fs) with VStruct (_ :: r) => VStruct (VInt id :: r) | z => z end.

Definition int64_min : Z := -9223372036854775808.
Definition int64_max : Z := 9223372036854775807.

(* ------------------------------------------------------------------------------------ *)
(* generic encoder: what the codec's struct walk produces, as a tree                      *)

Section Enc.
(* the order in which the codec emits the entries of a Go map (encoding/json: sorted keys) *)
Variable mapord : list (string * string) -> list (string * string).

Fixpoint enc (t : ty) (v : val) {struct t} : json :=
  match t, v with
  | TInt _ _, VInt z => JNum z 0
  | TFloat, VFloat m k => JNum m k
  | TBool, VBool b => JBool b
  | TStr, VStr s => JStr s
  | TTime, VTime s => JStr s
  | TDate, VTime s => if String.eqb s zero_time then JNull else JStr s   (* Date.MarshalJSON *)
  | TShim n, _ => JStr n                                                (* shim MarshalJSON *)
  | TAny, VJson j => j
  | TObjects, VList l => JArr (map (fun v => match v with VJson j => j | _ => JNull end) l)
  | TTags, VList l =>                                                   (* Tags.MarshalJSON *)
      JObj (map (fun p => (fst p, JStr (snd p))) (mapord (dedup_last (tag_pairs l))))
  | TWayNodes _, VList l => JArr (map (fun n => JNum (wn_id n) 0) l)   (* WayNodes.MarshalJSON *)
  | TMembers t', VList l => JArr (map (enc t') l)                       (* Members.MarshalJSON *)
  | TPtr _, VNone => JNull
  | TPtr t', VSome v' => enc t' v'
  | TSlice _, VList [] => JNull
  | TSlice t', VList l => JArr (map (enc t') l)
  | TStruct fs, VStruct vs =>
      JObj ((fix go (fs : list field) (vs : list val) {struct fs} : list (string * json) :=
               match fs, vs with
               | Field _ n om ft :: fr, x :: vr =>
                   match ft with
                   | TSkip => go fr vr
                   | _ => if om && is_empty x then go fr vr else (n, enc ft x) :: go fr vr
                   end
               | _, _ => []
               end) fs vs)
  | _, _ => JNull
  end.
End Enc.

(* how many times the walk of [enc] goes through marshalJSON (json.go), i.e. through the
   configured codec: once per Tags / WayNodes value that is written, once per non-empty Members
   (plus whatever its members need), once per non-zero Date; byte literals ([], null, shims) and
   everything else need none.  Observable with a counting codec. *)
Fixpoint mcalls (t : ty) (v : val) {struct t} : Z :=
  match t, v with
  | TDate, VTime s => if String.eqb s zero_time then 0 else 1
  | TTags, VList _ => 1
  | TWayNodes _, VList _ => 1
  | TMembers t', VList l => match l with [] => 0 | _ => 1 + fold_right (fun x a => mcalls t' x + a) 0 l end
  | TPtr t', VSome v' => mcalls t' v'
  | TSlice t', VList l => fold_right (fun x a => mcalls t' x + a) 0 l
  | TStruct fs, VStruct vs =>
      (fix go (fs : list field) (vs : list val) {struct fs} : Z :=
         match fs, vs with
         | Field _ _ om ft :: fr, x :: vr =>
             match ft with
             | TSkip => go fr vr
             | _ => if om && is_empty x then go fr vr else mcalls ft x + go fr vr
             end
         | _, _ => 0
         end) fs vs
  | _, _ => 0
  end.

(* the standard library's behaviour: map keys sorted *)
Definition enc_std := enc (@sort_kv string).

(* ------------------------------------------------------------------------------------ *)
(* generic decoder                                                                        *)

Definition dec_tag_value (j : json) : res string :=
  match j with JStr s => Ok s | JNull => Ok ""%string | _ => Err end.

Definition dec_id (j : json) : res Z :=
  match j with
  | JNull => Ok 0
  | JNum m k => if (k =? 0) && (int64_min <=? m) && (m <=? int64_max) then Ok m else Err
  | _ => Err
  end.

(* json names of the fields a decoder can address (json:"-" fields excluded) *)
Fixpoint names (fs : list field) : list string :=
  match fs with
  | [] => []
  | Field _ n _ ft :: r => match ft with TSkip => names r | _ => n :: names r end
  end.

(* Duplicate keys.  encoding/json decodes every occurrence, in document order, into the same
   target.  For the types below this is fully determined by the occurrences themselves:
   each one REPLACES the value (an ill-typed one makes the whole decode fail, even if a later
   one is fine), except that null leaves numbers, strings, bools, times and shims untouched
   (it does reset interface{}, Tags and WayNodes).  For structs, pointers and slices a second
   occurrence is MERGED into the first (fields of the first survive, slice elements are
   reused): that is outside the model, the result is the explicit [Unmodelled]. *)
Definition seq_type (t : ty) : bool :=
  match t with
  | TInt _ _ | TFloat | TBool | TStr | TTime | TDate | TShim _ | TAny | TTags | TWayNodes _ => true
  | _ => false
  end.
Definition null_noop (t : ty) : bool :=
  match t with
  | TInt _ _ | TFloat | TBool | TStr | TTime | TDate | TShim _ => true
  | _ => false
  end.
Definition dec_occs (d : json -> res val) (t : ty) (js : list json) : res val :=
  match js with
  | [] => Ok (zero t)                       (* absent: the field keeps its zero value *)
  | [j] => d j
  | _ => if seq_type t
         then fold_left (fun cur j => rbind cur (fun c => if is_null j && null_noop t then Ok c else d j))
                        js (Ok (zero t))
         else Unmodelled
  end.

Fixpoint dec (t : ty) (j : json) {struct t} : res val :=
  match t with
  | TInt lo hi =>
      match j with
      | JNull => Ok (VInt 0)
      | JNum m k => if (k =? 0) && (lo <=? m) && (m <=? hi) then Ok (VInt m) else Err
      | _ => Err
      end
  | TFloat => match j with JNull => Ok (VFloat 0 0) | JNum m k => Ok (VFloat m k) | _ => Err end
  | TBool => match j with JNull => Ok (VBool false) | JBool b => Ok (VBool b) | _ => Err end
  | TStr => match j with JNull => Ok (VStr "") | JStr s => Ok (VStr s) | _ => Err end
  | TTime | TDate =>
      match j with
      | JNull => Ok (VTime zero_time)
      | JStr s => if canon_time s then Ok (VTime s) else Unmodelled
      | _ => Err
      end
  | TShim _ => Ok VUnit                       (* shim UnmarshalJSON: return nil *)
  | TSkip => Ok VUnit
  | TNilOnly => match j with JNull => Ok VNone | _ => Unmodelled end
  | TAny => Ok (VJson j)
  | TRawList =>
      match j with JNull => Ok (VList []) | JArr l => Ok (VList (map VJson l)) | _ => Err end
  | TObjects | TOSMRef => Unmodelled
  | TTags =>                                  (* Tags.UnmarshalJSON: map[string]string *)
      match j with
      | JNull => Ok (VList [])
      | JObj kv =>
          rmap (fun l => VList (map mk_tag (dedup_last l)))
               (map_res (fun p => rmap (fun s => (fst p, s)) (dec_tag_value (snd p))) kv)
      | _ => Err
      end
  | TWayNodes fs =>                           (* WayNodes.UnmarshalJSON: []int64 *)
      match j with
      | JNull => Ok (VList [])
      | JArr l => rmap (fun ids => VList (map (mk_waynode fs) ids)) (map_res dec_id l)
      | _ => Err
      end
  | TMembers t' | TSlice t' =>
      match j with
      | JNull => Ok (VList [])
      | JArr l => rmap VList (map_res (dec t') l)
      | _ => Err
      end
  | TPtr t' => match j with JNull => Ok VNone | _ => rmap VSome (dec t' j) end
  | TStruct fs0 =>
      match j with
      | JNull => Ok (zero (TStruct fs0))
      | JObj kv =>
          rmap VStruct
            ((fix go (fs : list field) : res (list val) :=
                match fs with
                | [] => Ok []
                | Field _ n _ ft :: fr =>
                    rbind (match ft with
                           | TSkip => Ok VUnit
                           | _ => dec_occs (dec ft) ft (entries_f (names fs0) n kv)
                           end)
                          (fun v => rbind (go fr) (fun vs => Ok (v :: vs)))
                end) fs0)
      | _ => Err
      end
  end.

(* ------------------------------------------------------------------------------------ *)
(* well-formed values of a type (the domain of the theorems; the harness generates these)  *)

Definition is_tagb (v : val) : bool := match tag_pair v with Some _ => true | None => false end.
Fixpoint nodup_keys {A} (l : list (string * A)) : bool :=
  match l with [] => true | p :: r => negb (has_key (fst p) r) && nodup_keys r end.

Fixpoint wf (t : ty) (v : val) {struct t} : bool :=
  match t, v with
  | TInt lo hi, VInt z => (lo <=? z) && (z <=? hi)
  | TFloat, VFloat m k => num_normb m k
  | TBool, VBool _ => true
  | TStr, VStr _ => true
  | TTime, VTime s | TDate, VTime s => canon_time s
  | TShim _, VUnit | TSkip, VUnit => true
  | TNilOnly, VNone => true
  | TTags, VList l => forallb is_tagb l && nodup_keys (tag_pairs l)
  | TWayNodes fs, VList l =>
      match fs with
      | Field _ _ _ (TInt lo hi) :: _ => (lo =? int64_min) && (hi =? int64_max)
      | _ => false
      end &&
      forallb (fun v =>
        match v with
        | VStruct vs =>
            (fix go (fs : list field) (vs : list val) {struct fs} : bool :=
               match fs, vs with
               | [], [] => true
               | Field _ _ _ ft :: fr, x :: vr => wf ft x && go fr vr
               | _, _ => false
               end) fs vs
        | _ => false
        end) l
  | TMembers t', VList l | TSlice t', VList l => forallb (wf t') l
  | TPtr _, VNone => true
  | TPtr t', VSome v' => wf t' v'
  | TStruct fs, VStruct vs =>
      (fix go (fs : list field) (vs : list val) {struct fs} : bool :=
         match fs, vs with
         | [], [] => true
         | Field _ _ _ ft :: fr, x :: vr => wf ft x && go fr vr
         | _, _ => false
         end) fs vs
  | _, _ => false
  end.
