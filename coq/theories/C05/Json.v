(* C05/Json.v — JSON documents as trees (the abstraction level of the C05 model).

   Numbers are exact decimals  m * 10^(-k)  in normal form (k >= 0, and k = 0 or m not
   divisible by 10), so that integers are [JNum z 0] and e.g. 12.375 is [JNum 12375 3].
   Objects keep their keys in document order (a list, duplicates possible).
   Text-level matters (escaping, whitespace, number spelling) are below this abstraction. *)
From Coq Require Import ZArith List String Ascii Bool.
Import ListNotations.
Open Scope Z_scope.

Inductive json : Type :=
| JNull
| JBool (b : bool)
| JNum (m k : Z)
| JStr (s : string)
| JArr (l : list json)
| JObj (kv : list (string * json)).

Fixpoint json_eqb (a b : json) {struct a} : bool :=
  match a, b with
  | JNull, JNull => true
  | JBool x, JBool y => Bool.eqb x y
  | JNum m k, JNum m' k' => (m =? m') && (k =? k')
  | JStr s, JStr s' => String.eqb s s'
  | JArr l, JArr l' =>
      (fix go (l l' : list json) {struct l} : bool :=
         match l, l' with
         | [], [] => true
         | x :: r, y :: r' => json_eqb x y && go r r'
         | _, _ => false
         end) l l'
  | JObj kv, JObj kv' =>
      (fix go (l l' : list (string * json)) {struct l} : bool :=
         match l, l' with
         | [], [] => true
         | (k, x) :: r, (k', y) :: r' => String.eqb k k' && json_eqb x y && go r r'
         | _, _ => false
         end) kv kv'
  | _, _ => false
  end.

(* key lookup with encoding/json's "the last occurrence wins" reading of duplicate keys *)
Fixpoint lookup (n : string) (kv : list (string * json)) : option json :=
  match kv with
  | [] => None
  | (k, j) :: r =>
      match lookup n r with
      | Some x => Some x
      | None => if String.eqb k n then Some j else None
      end
  end.

Definition keys (kv : list (string * json)) : list string := map fst kv.

(* encoding/json resolves a document key to a struct field by exact name first, otherwise
   case-insensitively.  Model: ASCII case folding (keys containing U+017F / U+212A, which
   Unicode folding also sends to s / k, are outside the model).  [ns] = the json names of the
   struct's fields in declaration order. *)
Definition lower (c : ascii) : ascii :=
  let n := N_of_ascii c in
  if (N.leb 65 n && N.leb n 90)%bool then ascii_of_N (n + 32) else c.
Fixpoint fold_case (s : string) : string :=
  match s with EmptyString => EmptyString | String c r => String (lower c) (fold_case r) end.
Definition resolve (ns : list string) (k : string) : option string :=
  if existsb (String.eqb k) ns then Some k
  else find (fun m => String.eqb (fold_case m) (fold_case k)) ns.

(* the document entries a decoder applies to the field named n, in document order: every entry
   whose key resolves to n.  encoding/json decodes EACH of them, in order, into the same
   target (so duplicates are neither rejected nor simply "last wins": see Model.dec_occs). *)
Fixpoint entries_f (ns : list string) (n : string) (kv : list (string * json)) : list json :=
  match kv with
  | [] => []
  | (k, j) :: r =>
      match resolve ns k with
      | Some m => if String.eqb m n then j :: entries_f ns n r else entries_f ns n r
      | None => entries_f ns n r
      end
  end.

Definition is_null (j : json) : bool := match j with JNull => true | _ => false end.

(* normal form of a decimal *)
Definition num_normb (m k : Z) : bool :=
  (0 <=? k) && ((k =? 0) || negb (m mod 10 =? 0)).

(* ---- total order on strings (for sorting map keys the way encoding/json does) ---- *)
Definition str_leb (a b : string) : bool :=
  match String.compare a b with Gt => false | _ => true end.

Fixpoint insert_kv {A} (x : string * A) (l : list (string * A)) : list (string * A) :=
  match l with
  | [] => [x]
  | y :: r => if str_leb (fst x) (fst y) then x :: l else y :: insert_kv x r
  end.
Definition sort_kv {A} (l : list (string * A)) : list (string * A) := fold_right insert_kv [] l.
