(* C05/ProofsGeneric.v — the schema-generic round trip:
     rt_ok t -> wf t v -> dec t (enc mo t v) = Ok v' with canon t v' = canon t v
   for every map order [mo] that permutes its argument. *)
From Coq Require Import ZArith List String Ascii Bool Lia Permutation.
From Verif Require Import C05.Json C05.Schema C05.Model C05.Spec C05.SortTags C05.Fields.
Import ListNotations.
Open Scope Z_scope.

(* ---- schema conditions (decidable; discharged on the generated schemas by computation) ---- *)
Fixpoint str_nodup (l : list string) : bool :=
  match l with [] => true | x :: r => negb (existsb (String.eqb x) r) && str_nodup r end.

(* types whose encoding of a well-formed value is never null *)
Definition nonnull_ty (t : ty) : bool :=
  match t with
  | TInt _ _ | TFloat | TBool | TStr | TTime | TShim _ | TStruct _ | TTags | TWayNodes _ | TMembers _ => true
  | _ => false
  end.

Fixpoint rt_ok (t : ty) : bool :=
  match t with
  | TPtr t' => nonnull_ty t' && rt_ok t'
  | TMembers t' | TSlice t' => rt_ok t'
  | TStruct fs =>
      str_nodup (names fs) &&
      (fix go (fs : list field) : bool :=
         match fs with [] => true | Field _ _ _ ft :: r => rt_ok ft && go r end) fs
  | _ => true
  end.
Fixpoint rt_ok_fields (fs : list field) : bool :=
  match fs with [] => true | Field _ _ _ ft :: r => rt_ok ft && rt_ok_fields r end.
Lemma rt_ok_struct : forall fs, rt_ok (TStruct fs) = str_nodup (names fs) && rt_ok_fields fs.
Proof.
  intros fs. simpl. f_equal; induction fs as [|[g n o t] r IH]; try reflexivity; simpl; rewrite IH; reflexivity.
Qed.

(* ---- small facts ---- *)
Lemma str_eqb_refl : forall s, String.eqb s s = true.
Proof. intros s. apply String.eqb_eq. reflexivity. Qed.

Lemma existsb_str_false : forall x l, existsb (String.eqb x) l = false -> ~ In x l.
Proof.
  intros x l H HI. assert (existsb (String.eqb x) l = true) as E.
  { apply existsb_exists. exists x. split; [exact HI|apply str_eqb_refl]. }
  congruence.
Qed.

Lemma lookup_app : forall n a b,
  lookup n (a ++ b) = match lookup n b with Some x => Some x | None => lookup n a end.
Proof.
  intros n a b. induction a as [|[k j] r IH]; simpl.
  - destruct (lookup n b); reflexivity.
  - rewrite IH. destruct (lookup n b); reflexivity.
Qed.

Lemma keys_enc_fields : forall mo fs vs n, In n (keys (enc_fields mo fs vs)) -> In n (names fs).
Proof.
  intros mo fs. induction fs as [|[g m om ft] fr IH]; intros vs n H; [destruct vs; exact H|].
  destruct vs as [|x vr]; [contradiction|].
  simpl in H. simpl.
  destruct ft; try (destruct (om && is_empty x); simpl in H;
                    [right; eapply IH; exact H | destruct H as [H|H]; [left; exact H|right; eapply IH; exact H]]).
  eapply IH; exact H.
Qed.


Lemma enc_fields_keys_nodup : forall mo fs vs, str_nodup (names fs) = true -> NoDup (keys (enc_fields mo fs vs)).
Proof.
  intros mo fs. induction fs as [|[g m om ft] fr IH]; intros vs H; [destruct vs; constructor|].
  destruct vs as [|x vr]; [constructor|].
  destruct (match ft with TSkip => true | _ => false end) eqn:Eskip.
  - destruct ft; try discriminate Eskip. simpl in H |- *. apply IH. exact H.
  - assert (Hnames : names (Field g m om ft :: fr) = m :: names fr) by (destruct ft; try reflexivity; discriminate Eskip).
    rewrite Hnames in H. simpl in H. rewrite andb_true_iff, negb_true_iff in H. destruct H as [Hm Hr].
    apply existsb_str_false in Hm.
    assert (Henc : enc_fields mo (Field g m om ft :: fr) (x :: vr) =
                   if om && is_empty x then enc_fields mo fr vr else (m, enc mo ft x) :: enc_fields mo fr vr)
      by (destruct ft; try reflexivity; discriminate Eskip).
    rewrite Henc. destruct (om && is_empty x); [apply IH; exact Hr|].
    simpl. constructor; [|apply IH; exact Hr]. intro HI. apply Hm. eapply keys_enc_fields. exact HI.
Qed.

(* an empty well-formed value is the zero value of its type *)
Lemma empty_is_zero : forall t v, wf t v = true -> is_empty v = true -> v = zero t.
Proof.
  intros t v Hw He. destruct v; simpl in He; try discriminate He.
  - destruct t; simpl in Hw; try discriminate Hw. apply Z.eqb_eq in He. subst. reflexivity.
  - destruct t; simpl in Hw; try discriminate Hw. apply Z.eqb_eq in He. subst.
    unfold num_normb in Hw. simpl.
    assert (k = 0) as -> ; [|reflexivity].
    destruct (k =? 0) eqn:Ek; [apply Z.eqb_eq in Ek; exact Ek|].
    rewrite andb_true_iff in Hw. destruct Hw as [_ Hw]. simpl in Hw. discriminate Hw.
  - destruct t; simpl in Hw; try discriminate Hw. destruct b; [discriminate He|reflexivity].
  - destruct t; simpl in Hw; try discriminate Hw. apply String.eqb_eq in He. subst. reflexivity.
  - destruct j; discriminate He || (destruct t; discriminate Hw).
  - destruct t; simpl in Hw; try discriminate Hw; reflexivity.
  - destruct l; [|discriminate He]. destruct t; simpl in Hw; try discriminate Hw; try reflexivity.
Qed.

Lemma map_res_ok : forall {A B} (f : A -> res B) (g : A -> B) l,
  (forall a, In a l -> f a = Ok (g a)) -> map_res f l = Ok (map g l).
Proof.
  intros A B f g l. induction l as [|a r IH]; intros H; [reflexivity|].
  simpl. rewrite (H a (or_introl eq_refl)). simpl. rewrite IH; [reflexivity|].
  intros b Hb. apply H. right. exact Hb.
Qed.

(* ---- tags ---- *)
Lemma tag_pairs_mk : forall l, tag_pairs (map mk_tag l) = l.
Proof. induction l as [|[k v] r IH]; [reflexivity|]. simpl. rewrite IH. reflexivity. Qed.

Lemma tags_are_mk : forall l, forallb is_tagb l = true -> l = map mk_tag (tag_pairs l).
Proof.
  induction l as [|v r IH]; intros H; [reflexivity|].
  simpl in H. rewrite andb_true_iff in H. destruct H as [Hv Hr].
  unfold is_tagb in Hv. simpl. destruct (tag_pair v) as [[k x]|] eqn:E; [|discriminate Hv].
  simpl. rewrite <- IH by exact Hr. f_equal.
  unfold tag_pair in E.
  destruct v; try discriminate E. destruct l as [|a l]; try discriminate E.
  destruct a; try discriminate E. destruct l as [|b l]; try discriminate E.
  destruct b; try discriminate E. destruct l; try discriminate E.
  injection E as -> ->. reflexivity.
Qed.

Lemma has_key_in : forall {A} k (l : list (string * A)), has_key k l = true <-> In k (map fst l).
Proof.
  intros A k l. unfold has_key. rewrite existsb_exists. split.
  - intros [p [Hp E]]. apply String.eqb_eq in E. subst. apply in_map. exact Hp.
  - intros H. apply in_map_iff in H. destruct H as [p [E Hp]]. exists p. split; [exact Hp|].
    apply String.eqb_eq. exact E.
Qed.

Lemma nodup_keys_NoDup : forall {A} (l : list (string * A)), nodup_keys l = true <-> NoDup (map fst l).
Proof.
  intros A l. induction l as [|p r IH]; simpl.
  - split; [constructor|reflexivity].
  - rewrite andb_true_iff, negb_true_iff, IH. split.
    + intros [H1 H2]. constructor; [|exact H2]. intro HI. apply has_key_in in HI. congruence.
    + intros H. inversion H as [|? ? Hni Hnd]; subst. split; [|exact Hnd].
      destruct (has_key (fst p) r) eqn:E; [|reflexivity]. apply has_key_in in E. contradiction.
Qed.

Lemma dedup_last_id : forall {A} (l : list (string * A)), nodup_keys l = true -> dedup_last l = l.
Proof.
  intros A l. induction l as [|p r IH]; intros H; [reflexivity|].
  simpl in *. rewrite andb_true_iff, negb_true_iff in H. destruct H as [H1 H2].
  rewrite H1, IH by exact H2. reflexivity.
Qed.

Lemma NoDup_kc : forall {A} (l : list (string * A)), NoDup (map fst l) -> NoDup (map kc l).
Proof.
  intros A l. induction l as [|p r IH]; intros H; simpl; [constructor|].
  inversion H as [|? ? Hni Hnd]; subst. constructor; [|apply IH; exact Hnd].
  intro HI. apply Hni. apply in_map_iff in HI. destruct HI as [q [E Hq]].
  unfold kc in E. apply key_code_inj in E. rewrite <- E. apply in_map. exact Hq.
Qed.

Section RT.
Variable mo : list (string * string) -> list (string * string).
Hypothesis mo_perm : forall l, Permutation (mo l) l.

Lemma tags_rt : forall l, wf TTags (VList l) = true ->
  exists v', dec TTags (enc mo TTags (VList l)) = Ok v' /\ canon TTags v' = canon TTags (VList l).
Proof.
  intros l H. simpl in H. rewrite andb_true_iff in H. destruct H as [Ht Hn].
  set (ps := tag_pairs l) in *.
  assert (Hd : dedup_last ps = ps) by (apply dedup_last_id; exact Hn).
  assert (HP : Permutation (mo ps) ps) by apply mo_perm.
  assert (Hn' : nodup_keys (mo ps) = true).
  { apply nodup_keys_NoDup. apply nodup_keys_NoDup in Hn.
    eapply Permutation_NoDup; [apply Permutation_map; apply Permutation_sym; exact HP|exact Hn]. }
  exists (VList (map mk_tag (mo ps))). split.
  - cbn [enc dec]. fold ps. rewrite Hd.
    erewrite (map_res_ok _ (fun q : string * json => (fst q, match snd q with JStr s => s | _ => ""%string end))).
    + unfold rmap. simpl. rewrite map_map. simpl.
      replace (map (fun x : string * string => (fst x, snd x)) (mo ps)) with (mo ps).
      * rewrite (dedup_last_id _ Hn'). reflexivity.
      * clear. induction (mo ps) as [|[a b] r IH]; [reflexivity|]. simpl. rewrite <- IH. reflexivity.
    + intros q Hq. apply in_map_iff in Hq. destruct Hq as [[a b] [E _]]. subst q. reflexivity.
  - cbn [canon]. rewrite tag_pairs_mk. fold ps. f_equal. f_equal.
    apply sort_tags_of_perm; [exact HP|].
    apply NoDup_kc. apply nodup_keys_NoDup. exact Hn'.
Qed.

(* ---- way nodes ---- *)
Lemma wn_wf_id : forall fs lo hi g n o r v,
  fs = Field g n o (TInt lo hi) :: r -> wf (TStruct fs) v = true ->
  exists id rest, v = VStruct (VInt id :: rest) /\ lo <= id <= hi.
Proof.
  intros fs lo hi g n o r v -> H. apply wf_struct_inv in H. destruct H as [vs [-> H]].
  destruct vs as [|x vr]; [discriminate H|]. simpl in H. rewrite andb_true_iff in H. destruct H as [Hx _].
  destruct x; try discriminate Hx. exists z, vr. split; [reflexivity|]. lia.
Qed.

Lemma wn_id_mk : forall fs id, fs <> [] -> wn_id (mk_waynode fs id) = id.
Proof.
  intros fs id H. unfold mk_waynode. rewrite zero_struct.
  destruct fs as [|[g n o t] r]; [contradiction|]. reflexivity.
Qed.

Lemma waynodes_rt : forall fs l, wf (TWayNodes fs) (VList l) = true ->
  exists v', dec (TWayNodes fs) (enc mo (TWayNodes fs) (VList l)) = Ok v' /\
             canon (TWayNodes fs) v' = canon (TWayNodes fs) (VList l).
Proof.
  intros fs l H.
  assert (Hfs : exists g n o r, fs = Field g n o (TInt int64_min int64_max) :: r /\
                forall v, In v l -> wf (TStruct fs) v = true).
  { simpl in H. destruct fs as [|[g n o t] r]; [discriminate H|].
    destruct t; try discriminate H. rewrite !andb_true_iff in H. destruct H as [[H1 H2] H3].
    apply Z.eqb_eq in H1, H2. subst. exists g, n, o, r. split; [reflexivity|].
    intros v Hv. rewrite forallb_forall in H3. specialize (H3 v Hv).
    destruct v; try discriminate H3. exact H3. }
  destruct Hfs as [g [n [o [r [Efs Hall]]]]].
  exists (VList (map (mk_waynode fs) (map wn_id l))). split.
  - cbn [enc dec]. rewrite (map_res_ok _ (fun j => match j with JNum m _ => m | _ => 0 end)).
    + unfold rmap. simpl. rewrite !map_map. reflexivity.
    + intros j Hj. apply in_map_iff in Hj. destruct Hj as [v [E Hv]]. subst j.
      destruct (wn_wf_id fs _ _ g n o r v Efs (Hall v Hv)) as [id [rest [-> Hr]]].
      simpl. unfold int64_min, int64_max in *.
      destruct (-9223372036854775808 <=? id) eqn:E1; [|lia].
      destruct (id <=? 9223372036854775807) eqn:E2; [|lia]. reflexivity.
  - cbn [canon]. f_equal. rewrite !map_map. apply map_ext. intros v.
    rewrite wn_id_mk; [reflexivity|]. rewrite Efs. discriminate.
Qed.

(* ---- lists ---- *)
Lemma list_rt : forall t l,
  (forall v, In v l -> wf t v = true -> exists v', dec t (enc mo t v) = Ok v' /\ canon t v' = canon t v) ->
  forallb (wf t) l = true ->
  exists l', map_res (dec t) (map (enc mo t) l) = Ok l' /\ map (canon t) l' = map (canon t) l.
Proof.
  intros t l. induction l as [|v r IH]; intros H Hw.
  - exists []. split; reflexivity.
  - simpl in Hw. rewrite andb_true_iff in Hw. destruct Hw as [Hv Hr].
    destruct (H v (or_introl eq_refl) Hv) as [v' [E1 E2]].
    destruct IH as [l' [E3 E4]]; [intros x Hx; apply H; right; exact Hx|exact Hr|].
    exists (v' :: l'). split.
    + simpl. rewrite E1. simpl. rewrite E3. reflexivity.
    + simpl. rewrite E2, E4. reflexivity.
Qed.

Lemma enc_nonnull : forall t v, nonnull_ty t = true -> wf t v = true -> enc mo t v <> JNull.
Proof.
  intros t v Ht Hw. destruct t; try discriminate Ht; destruct v; try discriminate Hw; simpl; try discriminate;
  try (rewrite enc_struct; discriminate).
Qed.

(* ---- structs ---- *)
Definition field_rt (ft : ty) : Prop :=
  forall v, wf ft v = true -> exists v', dec ft (enc mo ft v) = Ok v' /\ canon ft v' = canon ft v.

Lemma fields_rt : forall fs,
  Forall (fun f => field_rt (f_ty f)) fs ->
  str_nodup (names fs) = true ->
  forall vs pre, wf_fields fs vs = true ->
    (forall n, In n (names fs) -> ~ In n (keys pre)) ->
    exists vs', dec_fields_x (pre ++ enc_fields mo fs vs) fs = Ok vs' /\
                canon_fields fs vs' = canon_fields fs vs.
Proof.
  induction fs as [|[g n om ft] fr IH]; intros HF Hnd vs pre Hw Hpre.
  - destruct vs; [|discriminate Hw]. exists []. split; reflexivity.
  - destruct vs as [|x vr]; [discriminate Hw|].
    simpl in Hw. rewrite andb_true_iff in Hw. destruct Hw as [Hx Hr].
    inversion HF as [|? ? Hft HFr]; subst. simpl in Hft.
    destruct (match ft with TSkip => true | _ => false end) eqn:Eskip.
    + (* skipped field *)
      destruct ft; try discriminate Eskip. simpl in Hnd.
      destruct (IH HFr Hnd vr pre Hr) as [vs' [E1 E2]]; [intros m Hm; apply Hpre; exact Hm|].
      exists (VUnit :: vs'). split.
      * simpl. rewrite E1. reflexivity.
      * simpl. rewrite E2. reflexivity.
    + assert (Hnames : names (Field g n om ft :: fr) = n :: names fr) by (destruct ft; try reflexivity; discriminate Eskip).
      rewrite Hnames in Hnd, Hpre. simpl in Hnd. rewrite andb_true_iff, negb_true_iff in Hnd.
      destruct Hnd as [Hn Hnd]. apply existsb_str_false in Hn.
      assert (Henc : enc_fields mo (Field g n om ft :: fr) (x :: vr) =
                     if om && is_empty x then enc_fields mo fr vr else (n, enc mo ft x) :: enc_fields mo fr vr)
        by (destruct ft; try reflexivity; discriminate Eskip).
      assert (Hdecf : forall kv, dec_field_x kv n ft =
                      match lookup n kv with None => Ok (zero ft) | Some j => dec ft j end)
        by (intros kv; destruct ft; try reflexivity; discriminate Eskip).
      rewrite Henc.
      assert (Hrest : lookup n (enc_fields mo fr vr) = None).
      { apply lookup_notin. intro HI. apply Hn. eapply keys_enc_fields. exact HI. }
      destruct (om && is_empty x) eqn:Eom.
      * (* omitted: the key is absent, the field keeps its zero value *)
        rewrite andb_true_iff in Eom. destruct Eom as [_ Eem].
        destruct (IH HFr Hnd vr pre Hr) as [vs' [E1 E2]]; [intros m Hm; apply Hpre; right; exact Hm|].
        exists (zero ft :: vs'). split.
        -- cbn [dec_fields_x]. rewrite Hdecf, lookup_app, Hrest.
           rewrite lookup_notin by (apply Hpre; left; reflexivity).
           simpl. rewrite E1. reflexivity.
        -- simpl. rewrite E2. rewrite (empty_is_zero ft x Hx Eem). reflexivity.
      * destruct (Hft x Hx) as [x' [Ex1 Ex2]].
        destruct (IH HFr Hnd vr (pre ++ [(n, enc mo ft x)])%list Hr) as [vs' [E1 E2]].
        { intros m Hm HI. unfold keys in HI. rewrite map_app in HI. apply in_app_or in HI.
          destruct HI as [HI|HI]; [apply (Hpre m); [right; exact Hm|exact HI]|].
          simpl in HI. destruct HI as [HI|[]]. subst m. apply Hn. exact Hm. }
        rewrite <- app_assoc in E1. simpl in E1.
        exists (x' :: vs'). split.
        -- cbn [dec_fields_x]. rewrite Hdecf, lookup_app. simpl. rewrite Hrest, str_eqb_refl.
           rewrite Ex1. simpl. rewrite E1. reflexivity.
        -- simpl. rewrite Ex2, E2. reflexivity.
Qed.

Theorem enc_dec : forall t, rt_ok t = true -> forall v, wf t v = true ->
  exists v', dec t (enc mo t v) = Ok v' /\ canon t v' = canon t v.
Proof.
  intros t. pattern t.
  apply (ty_ind' _ (fun fs => rt_ok_fields fs = true -> Forall (fun f => field_rt (f_ty f)) fs));
    clear t; try (intros; destruct v; try discriminate; eexists; split; simpl; reflexivity).
  - (* TInt *) intros lo hi _ v H. destruct v; try discriminate H. simpl in H.
    exists (VInt z). split; [|reflexivity]. simpl. rewrite H. reflexivity.
  - (* TTime *) intros _ v H. destruct v; try discriminate H. simpl in H.
    exists (VTime s). split; [|reflexivity]. simpl. rewrite H. reflexivity.
  - (* TDate *) intros _ v H. destruct v; try discriminate H. simpl in H.
    exists (VTime s). split; [|reflexivity]. simpl.
    destruct (String.eqb s zero_time) eqn:E; simpl; [apply String.eqb_eq in E; subst; reflexivity|].
    rewrite H. reflexivity.
  - (* TTags *) intros _ v H. destruct v; try discriminate H. apply tags_rt. exact H.
  - (* TWayNodes *) intros fs _ _ v H. destruct v; try discriminate H. apply waynodes_rt. exact H.
  - (* TMembers *) intros t IH Hok v H. simpl in Hok. destruct v; try discriminate H. simpl in H.
    destruct (list_rt t l (fun v _ => IH Hok v) H) as [l' [E1 E2]].
    exists (VList l'). split; [cbn [enc dec]; rewrite E1; reflexivity|cbn [canon]; rewrite E2; reflexivity].
  - (* TPtr *) intros t IH Hok v H. simpl in Hok. rewrite andb_true_iff in Hok. destruct Hok as [Hnn Hok].
    destruct v; try discriminate H.
    + exists VNone. split; reflexivity.
    + simpl in H. destruct (IH Hok v H) as [v' [E1 E2]].
      exists (VSome v'). split.
      * cbn [enc dec]. pose proof (enc_nonnull t v Hnn H) as Hne.
        destruct (enc mo t v); try congruence; rewrite E1; reflexivity.
      * cbn [canon]. rewrite E2. reflexivity.
  - (* TSlice *) intros t IH Hok v H. simpl in Hok. destruct v; try discriminate H. simpl in H.
    destruct l as [|a l]; [exists (VList []); split; reflexivity|].
    destruct (list_rt t (a :: l) (fun v _ => IH Hok v) H) as [l' [E1 E2]].
    exists (VList l'). split; [simpl in E1 |- *; rewrite E1; reflexivity|cbn [canon]; rewrite E2; reflexivity].
  - (* TStruct *) intros fs IH Hok v H. rewrite rt_ok_struct, andb_true_iff in Hok. destruct Hok as [Hnd Hf].
    apply wf_struct_inv in H. destruct H as [vs [-> Hw]].
    destruct (fields_rt fs (IH Hf) Hnd vs [] Hw) as [vs' [E1 E2]]; [intros n _ []|].
    exists (VStruct vs'). split.
    + rewrite enc_struct, dec_struct.
      rewrite dec_fields_exact;
        [|intros k Hk; eapply keys_enc_fields; exact Hk|apply enc_fields_keys_nodup; exact Hnd].
      simpl in E1. rewrite E1. reflexivity.
    + rewrite !canon_struct, E2. reflexivity.
  - (* Q [] *) intros _. constructor.
  - (* Q cons *) intros g n o t fs IHt IHfs Hok. simpl in Hok. rewrite andb_true_iff in Hok.
    destruct Hok as [H1 H2]. constructor; [exact (IHt H1)|exact (IHfs H2)].
Qed.
End RT.
