(* C13/GenSupport.v — names used by the code regenerated from annotate/change.go
   (VerifGen.GenChange, translator/cmd/change).  Definitions only. *)
From Coq Require Import ZArith List Bool.
From Verif Require Import C13.Model.
Import ListNotations.

(* the (old, err) pair returned by findPreviousX, read off the model's result: old is the
   element found (nil otherwise), err is the result itself (checkErr inspects it) *)
Definition fp_old (r : fp_res) : option elem := match r with FOld o => Some o | _ => None end.
Definition fp_pair (r : fp_res) : option elem * fp_res := (fp_old r, r).

(* &osm.OSM{Nodes: .., Ways: .., Relations: ..} as the action fields see it: the one element *)
Definition osm_lit (nodes ways rels : list elem) : option elem := hd_error (nodes ++ ways ++ rels).

(* == on osm.ActionType *)
Definition atype_eqb (a b : atype) : bool :=
  match a, b with TCreate, TCreate | TModify, TModify | TDelete, TDelete => true | _, _ => false end.

(* actionType == osm.ActionDelete *)
Definition atype_is_delete (t : atype) : bool := match t with TDelete => true | _ => false end.

(* *osm.Change with its three optional sections *)
Record gchange := mkGChange { gc_create : option section; gc_modify : option section; gc_delete : option section }.
Definition empty_section : section := mkSection [] [] [].
Definition sec_of (o : option section) : section := match o with Some s => s | None => empty_section end.
Definition change_of (g : gchange) : change :=
  mkChange (sec_of (gc_create g)) (sec_of (gc_modify g)) (sec_of (gc_delete g)).
