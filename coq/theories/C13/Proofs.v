(* C13/Proofs.v — lemmas about the predecessor search and the action list. *)
From Coq Require Import ZArith List Bool Lia.
From Verif Require Import C13.Model C13.Spec.
Import ListNotations.
Open Scope Z_scope.

(* ---------- the predecessor search ---------- *)
Lemma fp_loop_spec ver : forall hist best mx,
  match best with None => mx = -1 | Some b => mx = e_ver b /\ e_ver b < ver end ->
  versions_nonneg hist = true ->
  match fp_loop ver hist best mx with
  | Some o => (In o hist \/ best = Some o) /\ e_ver o < ver /\ mx <= e_ver o /\
              (forall h, In h hist -> e_ver h < ver -> e_ver h <= e_ver o)
  | None => best = None /\ forall h, In h hist -> ~ e_ver h < ver
  end.
Proof.
  induction hist as [|x r IH]; intros best mx Hb Hnn.
  - cbn. destruct best as [b|].
    + destruct Hb as [Hm Hlt]. split; [right; reflexivity|]. split; [exact Hlt|]. split; [lia|]. intros h [].
    + split; [reflexivity|]. intros h [].
  - cbn in Hnn. apply andb_prop in Hnn as [Hx Hr]. cbn [fp_loop].
    destruct ((e_ver x <? ver) && (mx <? e_ver x)) eqn:Eq.
    + assert (Hb' : match Some x with None => e_ver x = -1 | Some b => e_ver x = e_ver b /\ e_ver b < ver end)
        by (split; [reflexivity|lia]).
      specialize (IH (Some x) (e_ver x) Hb' Hr).
      destruct (fp_loop ver r (Some x) (e_ver x)) as [o|].
      * destruct IH as (Hin & Hlt & Hge & Hall). split.
        { left. destruct Hin as [Hin|Heq]; [right; exact Hin|left; inversion Heq; reflexivity]. }
        split; [exact Hlt|]. split; [lia|].
        intros h [Hh|Hh] Hhv; [subst h; lia|exact (Hall h Hh Hhv)].
      * destruct IH as [Habs _]. discriminate.
    + specialize (IH best mx Hb Hr).
      destruct (fp_loop ver r best mx) as [o|].
      * destruct IH as (Hin & Hlt & Hge & Hall). split.
        { destruct Hin as [Hin|Heq]; [left; right; exact Hin|right; exact Heq]. }
        split; [exact Hlt|]. split; [exact Hge|].
        intros h [Hh|Hh] Hhv; [subst h; lia|exact (Hall h Hh Hhv)].
      * destruct IH as [Hnone Hall]. split; [exact Hnone|].
        intros h [Hh|Hh]; [|exact (Hall h Hh)]. subst h. subst best. lia.
Qed.

Lemma find_previous_spec ver hist :
  versions_nonneg hist = true ->
  match find_previous ver hist with
  | Some o => is_prev ver hist o
  | None => no_prev ver hist
  end.
Proof.
  intro Hnn. unfold find_previous.
  pose proof (fp_loop_spec ver hist None (-1) eq_refl Hnn) as H.
  destruct (fp_loop ver hist None (-1)) as [o|].
  - destruct H as (Hin & Hlt & _ & Hall). destruct Hin as [Hin|Habs]; [|discriminate].
    split; [exact Hin|]. split; [exact Hlt|exact Hall].
  - exact (proj2 H).
Qed.

Lemma is_prev_not_no_prev ver hist o : is_prev ver hist o -> ~ no_prev ver hist.
Proof. intros (Hin & Hlt & _) Hn. exact (Hn o Hin Hlt). Qed.

(* equality with the two-pass reference (greatest version below, then the first entry with it) *)
Lemma max_below_bound ver hist : max_below ver hist = -1 \/ max_below ver hist < ver.
Proof.
  induction hist as [|x r IH]; [left; reflexivity|].
  unfold max_below. cbn [fold_right]. fold (max_below ver r).
  destruct (e_ver x <? ver) eqn:E; [|exact IH]. lia.
Qed.

Lemma max_below_ge ver hist : -1 <= max_below ver hist.
Proof.
  induction hist as [|x r IH]; [cbn; lia|].
  unfold max_below. cbn [fold_right]. fold (max_below ver r). destruct (e_ver x <? ver); lia.
Qed.

Lemma fp_loop_two_pass ver : forall hist best mx,
  -1 <= mx -> versions_nonneg hist = true ->
  fp_loop ver hist best mx =
  if mx <? max_below ver hist then find (fun h => e_ver h =? max_below ver hist) hist else best.
Proof.
  induction hist as [|x r IH]; intros best mx Hmx Hnn.
  - cbn. replace (mx <? -1) with false by lia. reflexivity.
  - cbn in Hnn. apply andb_prop in Hnn as [Hx Hr]. cbn [fp_loop max_below fold_right find].
    fold (max_below ver r).
    pose proof (max_below_bound ver r) as Hb. pose proof (max_below_ge ver r) as Hg.
    destruct (e_ver x <? ver) eqn:Elt; cbn [andb].
    + destruct (mx <? e_ver x) eqn:Emx.
      * rewrite (IH (Some x) (e_ver x) ltac:(lia) Hr).
        replace (mx <? Z.max (e_ver x) (max_below ver r)) with true by lia.
        destruct (e_ver x <? max_below ver r) eqn:E2.
        -- replace (Z.max (e_ver x) (max_below ver r)) with (max_below ver r) by lia.
           replace (e_ver x =? max_below ver r) with false by lia. reflexivity.
        -- replace (Z.max (e_ver x) (max_below ver r)) with (e_ver x) by lia.
           rewrite Z.eqb_refl. reflexivity.
      * rewrite (IH best mx Hmx Hr).
        destruct (mx <? max_below ver r) eqn:E2.
        -- replace (Z.max (e_ver x) (max_below ver r)) with (max_below ver r) by lia.
           rewrite E2. replace (e_ver x =? max_below ver r) with false by lia. reflexivity.
        -- replace (mx <? Z.max (e_ver x) (max_below ver r)) with false by lia. reflexivity.
    + rewrite (IH best mx Hmx Hr).
      destruct (mx <? max_below ver r) eqn:E2; [|reflexivity].
      replace (e_ver x =? max_below ver r) with false by lia. reflexivity.
Qed.

Lemma find_previous_two_pass ver hist :
  versions_nonneg hist = true -> find_previous ver hist = spec_prev ver hist.
Proof.
  intro Hnn. unfold find_previous, spec_prev.
  rewrite (fp_loop_two_pass ver hist None (-1) ltac:(lia) Hnn).
  pose proof (max_below_ge ver hist).
  destruct (-1 <? max_below ver hist) eqn:E.
  - replace (max_below ver hist <? 0) with false by lia. reflexivity.
  - replace (max_below ver hist <? 0) with true by lia. reflexivity.
Qed.

(* ---------- one loop of addUpdate ---------- *)
Definition ty_of (s : sec) : atype := match s with SDelete => TDelete | _ => TModify end.
Definition vis_of (s : sec) : bool := match s with SDelete => false | _ => true end.

(* what the property asks of the action produced for one element *)
Definition outcome_ok (ds : datasource) (ign : bool) (se : sec * elem) (a : action) : Prop :=
  match fst se with
  | SCreate => a = create_action (snd se)
  | s =>
      let e := snd se in
      match ds (e_kind e) (e_id e) with
      | LOk h => (exists o, is_prev (e_ver e) h o /\ a = update_action s o e) \/
                 (no_prev (e_ver e) h /\ ign = true /\ a = create_action e)
      | LNotFound => ign = true /\ a = create_action e
      | LOther _ => False
      end
  end.

(* ... and when the element makes the whole call fail, with which error *)
Definition outcome_err (ds : datasource) (ign : bool) (se : sec * elem) (err : error) : Prop :=
  fst se <> SCreate /\
  let e := snd se in
  match ds (e_kind e) (e_id e) with
  | LOk h => no_prev (e_ver e) h /\ ign = false /\ err = ENoVisibleChild (e_kind e) (e_id e)
  | LNotFound => ign = false /\ err = ENoVisibleChild (e_kind e) (e_id e)
  | LOther c => err = EOther c
  end.

Lemma add_update_loop_app nft ds ign ty vis : forall l1 l2 acts,
  add_update_loop nft ds ign ty vis (l1 ++ l2) acts =
  match add_update_loop nft ds ign ty vis l1 acts with
  | inr e => inr e
  | inl a1 => add_update_loop nft ds ign ty vis l2 a1
  end.
Proof.
  induction l1 as [|e r IH]; intros l2 acts; [reflexivity|]. cbn.
  destruct (check_err nft ign (find_previous_elem ds ign e) e); [reflexivity|].
  destruct (find_previous_elem ds ign e); apply IH.
Qed.

Lemma add_update_as_loop nft ds ign ty s acts :
  add_update nft ds ign ty s acts =
  add_update_loop nft ds ign ty (match ty with TDelete => false | _ => true end) (sec_elems s) acts.
Proof.
  unfold add_update, sec_elems. rewrite add_update_loop_app.
  destruct (add_update_loop nft ds ign ty _ (s_nodes s) acts) as [a1|]; [|reflexivity].
  rewrite add_update_loop_app.
  destruct (add_update_loop nft ds ign ty _ (s_ways s) a1); reflexivity.
Qed.

Lemma add_update_loop_spec nft ds ign (s : sec) : ds_nonneg ds -> s <> SCreate ->
  forall es acts,
  match add_update_loop nft ds ign (ty_of s) (vis_of s) es acts with
  | inl acts' => exists new, acts' = acts ++ new /\ Forall2 (outcome_ok ds ign) (map (pair s) es) new
  | inr err => exists pre e post new,
                 es = pre ++ e :: post /\ Forall2 (outcome_ok ds ign) (map (pair s) pre) new /\
                 outcome_err ds ign (s, e) err
  end.
Proof.
  intros Hds Hs. induction es as [|e r IH]; intro acts.
  - cbn. exists []. rewrite app_nil_r. split; [reflexivity|constructor].
  - cbn [add_update_loop]. unfold find_previous_elem.
    destruct (ds (e_kind e) (e_id e)) as [h| |c] eqn:Eds.
    + pose proof (find_previous_spec (e_ver e) h (Hds _ _ _ Eds)) as Hfp.
      destruct (find_previous (e_ver e) h) as [o|] eqn:Efp.
      * (* old found: modify / delete action *)
        cbn [check_err].
        assert (Hok : outcome_ok ds ign (s, e) (mkAction (ty_of s) None (Some o) (Some (set_vis e (vis_of s))))).
        { unfold outcome_ok. cbn [fst snd]. destruct s; [contradiction| |]; rewrite Eds; left; exists o;
            (split; [exact Hfp|reflexivity]). }
        specialize (IH (acts ++ [mkAction (ty_of s) None (Some o) (Some (set_vis e (vis_of s)))])).
        destruct (add_update_loop nft ds ign (ty_of s) (vis_of s) r _) as [acts'|err].
        -- destruct IH as (new & Eacts & Hall).
           exists (mkAction (ty_of s) None (Some o) (Some (set_vis e (vis_of s))) :: new). split.
           ++ rewrite Eacts, <- app_assoc. reflexivity.
           ++ cbn [map]. constructor; [exact Hok|exact Hall].
        -- destruct IH as (pre & x & post & new & Ees & Hall & Herr).
           exists (e :: pre), x, post, (mkAction (ty_of s) None (Some o) (Some (set_vis e (vis_of s))) :: new).
           split; [rewrite Ees; reflexivity|].
           split; [cbn [map]; constructor; [exact Hok|exact Hall]|exact Herr].
      * destruct ign eqn:Eign; cbn [check_err].
        -- (* no predecessor, ignored: create *)
           assert (Hok : outcome_ok ds true (s, e) (create_action e)).
           { unfold outcome_ok. cbn [fst snd]. destruct s; [contradiction| |]; rewrite Eds; right; auto. }
           specialize (IH (acts ++ [create_action e])).
           destruct (add_update_loop nft ds true (ty_of s) (vis_of s) r _) as [acts'|err].
           ++ destruct IH as (new & Eacts & Hall). exists (create_action e :: new). split.
              ** rewrite Eacts, <- app_assoc. reflexivity.
              ** cbn [map]. constructor; [exact Hok|exact Hall].
           ++ destruct IH as (pre & x & post & new & Ees & Hall & Herr).
              exists (e :: pre), x, post, (create_action e :: new). split; [rewrite Ees; reflexivity|].
              split; [cbn [map]; constructor; [exact Hok|exact Hall]|exact Herr].
        -- destruct nft; (exists [], e, r, []; split; [reflexivity|]; split; [constructor|];
           split; [exact Hs|]; cbn [snd]; rewrite Eds; auto).
    + destruct ign eqn:Eign; cbn [check_err].
      * assert (Hok : outcome_ok ds true (s, e) (create_action e)).
        { unfold outcome_ok. cbn [fst snd]. destruct s; [contradiction| |]; rewrite Eds; auto. }
        specialize (IH (acts ++ [create_action e])).
        destruct (add_update_loop nft ds true (ty_of s) (vis_of s) r _) as [acts'|err].
        -- destruct IH as (new & Eacts & Hall). exists (create_action e :: new). split.
           ++ rewrite Eacts, <- app_assoc. reflexivity.
           ++ cbn [map]. constructor; [exact Hok|exact Hall].
        -- destruct IH as (pre & x & post & new & Ees & Hall & Herr).
           exists (e :: pre), x, post, (create_action e :: new). split; [rewrite Ees; reflexivity|].
           split; [cbn [map]; constructor; [exact Hok|exact Hall]|exact Herr].
      * exists [], e, r, []. split; [reflexivity|]. split; [constructor|].
        split; [exact Hs|]. cbn [snd]. rewrite Eds. auto.
    + cbn [check_err]. exists [], e, r, []. split; [reflexivity|]. split; [constructor|].
      split; [exact Hs|]. cbn [snd]. rewrite Eds. reflexivity.
Qed.

Lemma creates_ok ds ign es :
  Forall2 (outcome_ok ds ign) (map (pair SCreate) es) (map create_action es).
Proof. induction es as [|e r IH]; cbn; constructor; [reflexivity|exact IH]. Qed.

Lemma Forall2_app_l {A B} (R : A -> B -> Prop) l1 l2 m1 m2 :
  Forall2 R l1 m1 -> Forall2 R l2 m2 -> Forall2 R (l1 ++ l2) (m1 ++ m2).
Proof. intros H1 H2. induction H1; cbn; [exact H2|constructor; assumption]. Qed.

(* ---------- the whole function ---------- *)
Lemma annotate_change_spec nft ds ign c : ds_nonneg ds ->
  match annotate_change nft ds ign c with
  | ROk acts => Forall2 (outcome_ok ds ign) (elems_in_order c) acts
  | RErr err => exists pre se post acts,
                  elems_in_order c = pre ++ se :: post /\
                  Forall2 (outcome_ok ds ign) pre acts /\ outcome_err ds ign se err
  end.
Proof.
  intro Hds. unfold annotate_change, elems_in_order.
  rewrite <- !map_app. fold (sec_elems (c_create c)).
  rewrite add_update_as_loop.
  change (match TModify with TDelete => false | _ => true end) with true.
  pose proof (creates_ok ds ign (sec_elems (c_create c))) as Hc.
  set (a0 := map create_action (sec_elems (c_create c))) in *.
  pose proof (add_update_loop_spec nft ds ign SModify Hds ltac:(discriminate) (sec_elems (c_modify c)) a0) as Hm.
  cbn [ty_of vis_of] in Hm.
  destruct (add_update_loop nft ds ign TModify true (sec_elems (c_modify c)) a0) as [a1|err].
  - destruct Hm as (n1 & Ea1 & Hall1). rewrite add_update_as_loop.
    change (match TDelete with TDelete => false | _ => true end) with false.
    pose proof (add_update_loop_spec nft ds ign SDelete Hds ltac:(discriminate) (sec_elems (c_delete c)) a1) as Hd.
    cbn [ty_of vis_of] in Hd.
    destruct (add_update_loop nft ds ign TDelete false (sec_elems (c_delete c)) a1) as [a2|err].
    + destruct Hd as (n2 & Ea2 & Hall2). subst a2 a1. rewrite <- app_assoc.
      apply Forall2_app_l; [exact Hc|]. apply Forall2_app_l; assumption.
    + destruct Hd as (pre & e & post & new & Ees & Hall2 & Herr).
      exists (map (pair SCreate) (sec_elems (c_create c)) ++ map (pair SModify) (sec_elems (c_modify c))
              ++ map (pair SDelete) pre), (SDelete, e), (map (pair SDelete) post), (a0 ++ n1 ++ new).
      split.
      * rewrite Ees, map_app. cbn [map]. rewrite <- !app_assoc. reflexivity.
      * split; [|exact Herr]. apply Forall2_app_l; [exact Hc|]. apply Forall2_app_l; assumption.
  - destruct Hm as (pre & e & post & new & Ees & Hall1 & Herr).
    exists (map (pair SCreate) (sec_elems (c_create c)) ++ map (pair SModify) pre), (SModify, e),
           (map (pair SModify) post ++ map (pair SDelete) (sec_elems (c_delete c))), (a0 ++ new).
    split.
    + rewrite Ees, map_app. cbn [map]. rewrite <- !app_assoc. reflexivity.
    + split; [|exact Herr]. apply Forall2_app_l; assumption.
Qed.

(* ---------- equality with the executable specification ---------- *)
Lemma sequence_app {A E} (l1 l2 : list (A + E)) :
  sequence (l1 ++ l2) =
  match sequence l1 with
  | inr e => inr e
  | inl a1 => match sequence l2 with inl a2 => inl (a1 ++ a2) | inr e => inr e end
  end.
Proof.
  induction l1 as [|[a|e] r IH]; cbn.
  - destruct (sequence l2); reflexivity.
  - rewrite IH. destruct (sequence r); [|reflexivity]. destruct (sequence l2); reflexivity.
  - reflexivity.
Qed.

Lemma sequence_creates ds ign es :
  sequence (map (spec_elem ds ign) (map (pair SCreate) es)) = inl (map create_action es).
Proof. induction es as [|e r IH]; cbn; [reflexivity|]. cbn in IH. rewrite IH. reflexivity. Qed.

Lemma add_update_loop_sequence nft ds ign (s : sec) : ds_nonneg ds -> s <> SCreate ->
  forall es acts,
  add_update_loop nft ds ign (ty_of s) (vis_of s) es acts =
  match sequence (map (spec_elem ds ign) (map (pair s) es)) with
  | inl new => inl (acts ++ new)
  | inr e => inr e
  end.
Proof.
  intros Hds Hs. induction es as [|e r IH]; intro acts.
  - cbn. rewrite app_nil_r. reflexivity.
  - cbn [add_update_loop map sequence]. unfold find_previous_elem.
    assert (Hse : spec_elem ds ign (s, e) =
                  match ds (e_kind e) (e_id e) with
                  | LOther c => inr (EOther c)
                  | LNotFound => if ign then inl (create_action e) else inr (ENoVisibleChild (e_kind e) (e_id e))
                  | LOk h => match spec_prev (e_ver e) h with
                             | Some o => inl (update_action s o e)
                             | None => if ign then inl (create_action e) else inr (ENoVisibleChild (e_kind e) (e_id e))
                             end
                  end) by (destruct s; [contradiction|reflexivity|reflexivity]).
    rewrite Hse. clear Hse.
    destruct (ds (e_kind e) (e_id e)) as [h| |c] eqn:Eds.
    + rewrite (find_previous_two_pass _ _ (Hds _ _ _ Eds)).
      destruct (spec_prev (e_ver e) h) as [o|].
      * cbn [check_err]. rewrite IH.
        assert (Hua : update_action s o e = mkAction (ty_of s) None (Some o) (Some (set_vis e (vis_of s))))
          by (destruct s; [contradiction|reflexivity|reflexivity]).
        rewrite Hua.
        destruct (sequence (map (spec_elem ds ign) (map (pair s) r))); [|reflexivity].
        rewrite <- app_assoc. reflexivity.
      * destruct ign; cbn [check_err]; [|destruct nft; reflexivity]. rewrite IH.
        destruct (sequence (map (spec_elem ds true) (map (pair s) r))); [|reflexivity].
        rewrite <- app_assoc. reflexivity.
    + destruct ign; cbn [check_err]; [|reflexivity]. rewrite IH.
      destruct (sequence (map (spec_elem ds true) (map (pair s) r))); [|reflexivity].
      rewrite <- app_assoc. reflexivity.
    + reflexivity.
Qed.

Lemma annotate_change_eq_spec nft ds ign c : ds_nonneg ds ->
  annotate_change nft ds ign c = spec_change ds ign c.
Proof.
  intro Hds. unfold annotate_change, spec_change, elems_in_order.
  rewrite <- !map_app. fold (sec_elems (c_create c)). rewrite add_update_as_loop.
  change (match TModify with TDelete => false | _ => true end) with true.
  rewrite !map_app, !sequence_app, sequence_creates.
  rewrite (add_update_loop_sequence nft ds ign SModify Hds ltac:(discriminate)).
  destruct (sequence (map (spec_elem ds ign) (map (pair SModify) (sec_elems (c_modify c))))) as [n1|e1];
    [|reflexivity].
  rewrite add_update_as_loop.
  change (match TDelete with TDelete => false | _ => true end) with false.
  rewrite (add_update_loop_sequence nft ds ign SDelete Hds ltac:(discriminate)).
  destruct (sequence (map (spec_elem ds ign) (map (pair SDelete) (sec_elems (c_delete c))))) as [n2|e2];
    [|reflexivity].
  rewrite <- app_assoc. reflexivity.
Qed.


(* ---------- the oracle's boolean predicates reflect the predicates of the theorems ---------- *)
Lemma no_prevb_iff ver hist : no_prevb ver hist = true <-> no_prev ver hist.
Proof.
  unfold no_prevb, no_prev. rewrite forallb_forall. split.
  - intros H h Hin Hlt. specialize (H h Hin). lia.
  - intros H h Hin. specialize (H h Hin). lia.
Qed.

Lemma is_prevb_iff ver hist v p vis :
  is_prevb ver hist v p vis = true <->
  exists o, In o hist /\ e_ver o = v /\ e_pay o = p /\ e_vis o = vis /\ is_prev ver hist o.
Proof.
  unfold is_prevb, is_prev. split.
  - intro H. apply andb_prop in H as [H Hall]. apply andb_prop in H as [Hex Hlt].
    apply existsb_exists in Hex as (o & Hin & Ho).
    apply andb_prop in Ho as [Ho Hvis]. apply andb_prop in Ho as [Hv Hp].
    apply Z.eqb_eq in Hv. apply Z.eqb_eq in Hp. apply Bool.eqb_prop in Hvis.
    exists o. repeat split; auto; try lia.
    rewrite forallb_forall in Hall. intros h Hh Hhv. specialize (Hall h Hh). lia.
  - intros (o & Hin & Hv & Hp & Hvis & _ & Hlt & Hall).
    apply andb_true_intro. split; [apply andb_true_intro; split|].
    + apply existsb_exists. exists o. split; [exact Hin|].
      rewrite Hv, Hp, Hvis, !Z.eqb_refl, Bool.eqb_reflx. reflexivity.
    + lia.
    + rewrite forallb_forall. intros h Hh. specialize (Hall h Hh).
      destruct (e_ver h <? ver) eqn:E; [|reflexivity]. cbn. lia.
Qed.
