(* C13/Spec.v — what the diff must be, written without accumulators: the element list in the
   order the property names, one outcome per element, first error wins. *)
From Coq Require Import ZArith List Bool.
From Verif Require Import C13.Model.
Import ListNotations.
Open Scope Z_scope.

(* SPEC predecessor: an entry of the history whose version is below [ver] and not below any
   other such entry *)
Definition is_prev (ver : Z) (hist : list elem) (o : elem) : Prop :=
  In o hist /\ e_ver o < ver /\ forall h, In h hist -> e_ver h < ver -> e_ver h <= e_ver o.
Definition no_prev (ver : Z) (hist : list elem) : Prop :=
  forall h, In h hist -> ~ (e_ver h < ver).

(* executable forms used by the oracle *)
Definition is_prevb (ver : Z) (hist : list elem) (o_ver o_pay : Z) (o_vis : bool) : bool :=
  existsb (fun h => (e_ver h =? o_ver) && (e_pay h =? o_pay) && Bool.eqb (e_vis h) o_vis) hist
  && (o_ver <? ver)
  && forallb (fun h => negb (e_ver h <? ver) || (e_ver h <=? o_ver)) hist.
Definition no_prevb (ver : Z) (hist : list elem) : bool :=
  forallb (fun h => negb (e_ver h <? ver)) hist.

(* two-pass reference: the greatest version below, then the first entry carrying it *)
Definition max_below (ver : Z) (hist : list elem) : Z :=
  fold_right (fun h m => if e_ver h <? ver then Z.max (e_ver h) m else m) (-1) hist.
Definition spec_prev (ver : Z) (hist : list elem) : option elem :=
  let m := max_below ver hist in
  if m <? 0 then None else find (fun h => e_ver h =? m) hist.

Definition versions_nonneg (hist : list elem) : bool := forallb (fun h => 0 <=? e_ver h) hist.

Inductive sec := SCreate | SModify | SDelete.

(* the elements in the order of the property: create, modify, delete; node, way, relation *)
Definition sec_elems (s : section) : list elem := s_nodes s ++ s_ways s ++ s_rels s.
Definition elems_in_order (c : change) : list (sec * elem) :=
  map (pair SCreate) (sec_elems (c_create c)) ++ map (pair SModify) (sec_elems (c_modify c))
  ++ map (pair SDelete) (sec_elems (c_delete c)).

Definition update_action (s : sec) (o e : elem) : action :=
  match s with
  | SDelete => mkAction TDelete None (Some o) (Some (set_vis e false))
  | _ => mkAction TModify None (Some o) (Some (set_vis e true))
  end.

(* outcome for one element *)
Definition spec_elem (ds : datasource) (ign : bool) (se : sec * elem) : action + error :=
  let '(s, e) := se in
  match s with
  | SCreate => inl (create_action e)
  | _ =>
      let missing := if ign then inl (create_action e) else inr (ENoVisibleChild (e_kind e) (e_id e)) in
      match ds (e_kind e) (e_id e) with
      | LOther c => inr (EOther c)
      | LNotFound => missing
      | LOk h => match spec_prev (e_ver e) h with Some o => inl (update_action s o e) | None => missing end
      end
  end.

(* all outcomes, or the first error *)
Fixpoint sequence {A E} (l : list (A + E)) : list A + E :=
  match l with
  | [] => inl []
  | inr e :: _ => inr e
  | inl a :: r => match sequence r with inl as_ => inl (a :: as_) | inr e => inr e end
  end.

Definition spec_change (ds : datasource) (ign : bool) (c : change) : result :=
  match sequence (map (spec_elem ds ign) (elems_in_order c)) with
  | inl acts => ROk acts
  | inr e => RErr e
  end.

(* all histories the change can reach have non-negative versions *)
Definition ds_nonneg (ds : datasource) : Prop :=
  forall k id h, ds k id = LOk h -> versions_nonneg h = true.
