(* C13/Check.v — correspondence + property oracle for one harness case (executable only).

   Case layout (first token = tag 1, zigzag-encoded):
     ign  nft (does the data source's NotFound also accept the typed NoVisibleChildError?)
     ds: list of (kind id status code hist)   status 0 = history, 1 = not found, 2 = other error(code)
         hist = list of (ver vis pay); ids not listed are not found
     create, modify, delete: each nodes ways relations, each a list of (id ver vis pay)
   | errkind ek eid actions
     errkind 0 ok, 1 NoVisibleChildError{ek,eid}, 2 the data source's other error returned
             unchanged (eid = code), 3 anything else
     actions = list of (type osm old new), type 0 create 1 modify 2 delete,
               osm/old/new = list of (kind id ver vis pay)  (the elements of that *osm.OSM)
   kind codes: 0 node, 1 way, 2 relation.
   codes: 1 = model <> implementation, 2 = property oracle fails, 0 = case does not parse. *)
From Coq Require Import ZArith List Bool.
From Verif Require Import Base.Wire C13.Model C13.Spec.
Import ListNotations.
Open Scope Z_scope.
Open Scope wire_scope.

Definition pkind : P kind :=
  c <- pint ;; if c =? 0 then ret KNode else if c =? 1 then ret KWay else if c =? 2 then ret KRel else pfail.
Definition kind_code (k : kind) : Z := match k with KNode => 0 | KWay => 1 | KRel => 2 end.

Definition phist (k : kind) (id : Z) : P elem :=
  v <- pint ;; vis <- pbool ;; pay <- pint ;; ret (mkElem k id v vis pay).
Definition pds_entry : P (kind * Z * lookup) :=
  k <- pkind ;; id <- pint ;; st <- pint ;; code <- pint ;; h <- plist (phist k id) ;;
  ret (k, id, if st =? 0 then LOk h else if st =? 1 then LNotFound else LOther code).
Definition pchange_elem (k : kind) : P elem :=
  id <- pint ;; v <- pint ;; vis <- pbool ;; pay <- pint ;; ret (mkElem k id v vis pay).
Definition psection : P section :=
  n <- plist (pchange_elem KNode) ;; w <- plist (pchange_elem KWay) ;; r <- plist (pchange_elem KRel) ;;
  ret (mkSection n w r).
Definition pobs_elem : P elem :=
  k <- pkind ;; id <- pint ;; v <- pint ;; vis <- pbool ;; pay <- pint ;; ret (mkElem k id v vis pay).

Record obs_action := mkOA { oa_type : Z; oa_osm : list elem; oa_old : list elem; oa_new : list elem }.
Definition pobs_action : P obs_action :=
  ty <- pint ;; o <- plist pobs_elem ;; old <- plist pobs_elem ;; new <- plist pobs_elem ;;
  ret (mkOA ty o old new).

Definition elem_eqb (a b : elem) : bool :=
  kind_eqb (e_kind a) (e_kind b) && (e_id a =? e_id b) && (e_ver a =? e_ver b)
  && Bool.eqb (e_vis a) (e_vis b) && (e_pay a =? e_pay b).
Definition atype_code (t : atype) : Z := match t with TCreate => 0 | TModify => 1 | TDelete => 2 end.

Fixpoint list_eqb2 {A B} (eqb : A -> B -> bool) (a : list A) (b : list B) : bool :=
  match a, b with
  | [], [] => true
  | x :: a', y :: b' => eqb x y && list_eqb2 eqb a' b'
  | _, _ => false
  end.

Definition opt_list {A} (o : option A) : list A := match o with Some x => [x] | None => [] end.

(* judgement 1.  The old element is compared up to the choice among history entries that carry
   the same version (the property does not say which duplicate is taken). *)
Definition old_matches (ds : datasource) (m o : elem) : bool :=
  elem_eqb m o ||
  (kind_eqb (e_kind m) (e_kind o) && (e_id m =? e_id o) && (e_ver m =? e_ver o) &&
   match ds (e_kind m) (e_id m) with
   | LOk h => existsb (elem_eqb o) h
   | _ => false
   end).
Definition action_matches (ds : datasource) (m : action) (o : obs_action) : bool :=
  (atype_code (a_type m) =? oa_type o) && list_eqb elem_eqb (opt_list (a_osm m)) (oa_osm o)
  && list_eqb (old_matches ds) (opt_list (a_old m)) (oa_old o)
  && list_eqb elem_eqb (opt_list (a_new m)) (oa_new o).

Definition result_matches (ds : datasource) (r : result) (errkind ek eid : Z) (acts : list obs_action) : bool :=
  match r with
  | ROk ma => (errkind =? 0) && list_eqb2 (action_matches ds) ma acts
  | RErr (ENoVisibleChild k id) => (errkind =? 1) && (kind_code k =? ek) && (id =? eid)
  | RErr (EOther c) => (errkind =? 2) && (c =? eid)
  end.

(* judgement 2: the property, from Spec predicates only *)
Definition elem_error (ds : datasource) (ign : bool) (e : elem) : option error :=
  match ds (e_kind e) (e_id e) with
  | LOther c => Some (EOther c)
  | LNotFound => if ign then None else Some (ENoVisibleChild (e_kind e) (e_id e))
  | LOk h => if no_prevb (e_ver e) h then (if ign then None else Some (ENoVisibleChild (e_kind e) (e_id e)))
             else None
  end.
Fixpoint first_error (ds : datasource) (ign : bool) (es : list (sec * elem)) : option error :=
  match es with
  | [] => None
  | (SCreate, _) :: r => first_error ds ign r
  | (_, e) :: r => match elem_error ds ign e with Some x => Some x | None => first_error ds ign r end
  end.

Definition is_create_of (e : elem) (o : obs_action) : bool :=
  (oa_type o =? 0) && list_eqb elem_eqb [set_vis e true] (oa_osm o)
  && match oa_old o, oa_new o with [], [] => true | _, _ => false end.

Definition action_ok (ds : datasource) (se : sec * elem) (o : obs_action) : bool :=
  let '(s, e) := se in
  match s with
  | SCreate => is_create_of e o
  | _ =>
      match ds (e_kind e) (e_id e) with
      | LOk h =>
          if no_prevb (e_ver e) h then is_create_of e o
          else
            (oa_type o =? (match s with SDelete => 2 | _ => 1 end))
            && match oa_osm o with [] => true | _ => false end
            && list_eqb elem_eqb [set_vis e (match s with SDelete => false | _ => true end)] (oa_new o)
            && match oa_old o with
               | [x] => kind_eqb (e_kind x) (e_kind e) && (e_id x =? e_id e)
                        && is_prevb (e_ver e) h (e_ver x) (e_pay x) (e_vis x)
               | _ => false
               end
      | _ => is_create_of e o   (* only reached when the missing history is ignored *)
      end
  end.

Definition ds_list_nonneg (l : list (kind * Z * lookup)) : bool :=
  forallb (fun x => match snd x with LOk h => versions_nonneg h | _ => true end) l.

Definition oracle (dsl : list (kind * Z * lookup)) (ign : bool) (c : change)
           (errkind ek eid : Z) (acts : list obs_action) : bool :=
  if negb (ds_list_nonneg dsl) then false   (* not generated (outside the domain): a case that has one is rejected, see check_change *)
  else
    let ds := ds_of dsl in
    let es := elems_in_order c in
    match first_error ds ign es with
    | Some (ENoVisibleChild k id) => (errkind =? 1) && (kind_code k =? ek) && (id =? eid)
    | Some (EOther code) => (errkind =? 2) && (code =? eid)
    | None => (errkind =? 0) && list_eqb2 (action_ok ds) es acts
    end.

Definition check_change : P (list Z) :=
  ign <- pbool ;; nft <- pbool ;; dsl <- plist pds_entry ;;
  cr <- psection ;; mo <- psection ;; de <- psection ;;
  errkind <- pint ;; ek <- pint ;; eid <- pint ;; acts <- plist pobs_action ;;
  let c := mkChange cr mo de in
  let ds := ds_of dsl in
  let j1 := result_matches ds (annotate_change nft ds ign c) errkind ek eid acts in
  let j2 := oracle dsl ign c errkind ek eid acts in
  (* a negative history version is outside the domain and never generated: such a case counts
     as not parsed (code 0), so a generator regression cannot silently void judgement 2 *)
  if negb (ds_list_nonneg dsl) then ret [0]
  else ret (code_if j1 1 ++ code_if j2 2)%list.

Definition check_case (t : toks) : list Z :=
  match t with
  | tag :: rest =>
      let p := if tag =? 2 then check_change else pfail in
      match parse_all p rest with Some codes => codes | None => [0] end
  | [] => [0]
  end.
