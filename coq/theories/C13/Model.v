(* C13/Model.v — executable model of annotate.Change (annotate/change.go) over an abstract
   HistoryDatasourcer (datasource.go) producing osm.Diff actions (diff.go).  Definitions only.

   An element is (kind, id, version, visible, payload); the payload stands for everything else
   the element carries (the harness uses a distinct changeset id per object), so "the old state
   is THAT history entry" is observable.  The three per-kind loops of Change/addUpdate and the
   three findPrevious* functions are textually identical up to the type, so each is modelled
   once and used three times, in the order of the code.

     findPrevious{Node,Way,Relation}  -> [fp_loop] / [find_previous] / [find_previous_elem]
     checkErr                          -> [check_err]
     addUpdate (one per-kind loop)     -> [add_update_loop];  whole function -> [add_update]
     Change                            -> [annotate_change]

   The data source is a function to [lookup]: LOk history | LNotFound (an error for which
   ds.NotFound is true) | LOther code (any other error).  What ds.NotFound answers for the
   NoVisibleChildError created by findPrevious itself is the parameter [nft]. *)
From Coq Require Import ZArith List Bool.
Import ListNotations.
Open Scope Z_scope.

Inductive kind := KNode | KWay | KRel.
Definition kind_eqb (a b : kind) : bool :=
  match a, b with KNode, KNode | KWay, KWay | KRel, KRel => true | _, _ => false end.

Record elem := mkElem { e_kind : kind; e_id : Z; e_ver : Z; e_vis : bool; e_pay : Z }.
Definition set_vis (e : elem) (v : bool) : elem := mkElem (e_kind e) (e_id e) (e_ver e) v (e_pay e).

(* one section of an osmChange: nodes, ways, relations (nil section = three empty lists) *)
Record section := mkSection { s_nodes : list elem; s_ways : list elem; s_rels : list elem }.
Record change := mkChange { c_create : section; c_modify : section; c_delete : section }.

Inductive atype := TCreate | TModify | TDelete.
(* osm.Action: Type, embedded *OSM, Old, New (each holds exactly one element when present) *)
Record action := mkAction { a_type : atype; a_osm : option elem; a_old : option elem; a_new : option elem }.

Inductive lookup := LOk (h : list elem) | LNotFound | LOther (code : Z).
Definition datasource := kind -> Z -> lookup.

Inductive error := ENoVisibleChild (k : kind) (id : Z) | EOther (code : Z).
Inductive result := ROk (acts : list action) | RErr (e : error).

(* loc, max := -1, -1; for i, x := range hist { if v := x.Version; v < ver && v > max { max = v; loc = i } } *)
Fixpoint fp_loop (ver : Z) (hist : list elem) (best : option elem) (mx : Z) : option elem :=
  match hist with
  | [] => best
  | x :: r => if (e_ver x <? ver) && (mx <? e_ver x) then fp_loop ver r (Some x) (e_ver x)
              else fp_loop ver r best mx
  end.
Definition find_previous (ver : Z) (hist : list elem) : option elem := fp_loop ver hist None (-1).

(* result of findPreviousX: (old, err) *)
Inductive fp_res :=
| FOld (o : elem)                 (* hist[loc], nil *)
| FNil                            (* nil, nil  (ignoreMissing) *)
| FNoVisible (k : kind) (id : Z)  (* nil, &NoVisibleChildError{ID} *)
| FDsNotFound                     (* nil, err with ds.NotFound(err) *)
| FDsOther (code : Z).            (* nil, any other data source error *)

Definition find_previous_elem (ds : datasource) (ign : bool) (e : elem) : fp_res :=
  match ds (e_kind e) (e_id e) with
  | LNotFound => FDsNotFound
  | LOther c => FDsOther c
  | LOk h =>
      match find_previous (e_ver e) h with
      | Some o => FOld o
      | None => if ign then FNil else FNoVisible (e_kind e) (e_id e)
      end
  end.

(* checkErr(ds, ignoreMissing, err, id).  [nft] is the data source's answer ds.NotFound(err) when
   err is the NoVisibleChildError made by findPrevious itself (false for osm.HistoryDatasource;
   the interface does not say): the outcome does not depend on it (C13_not_found_irrelevant). *)
Definition check_err (nft ign : bool) (r : fp_res) (e : elem) : option error :=
  match r with
  | FOld _ | FNil => None
  | FDsNotFound => if ign then None else Some (ENoVisibleChild (e_kind e) (e_id e))
  | FNoVisible k id =>
      if nft then (if ign then None else Some (ENoVisibleChild (e_kind e) (e_id e)))
      else Some (ENoVisibleChild k id)
  | FDsOther c => Some (EOther c)
  end.

Definition create_action (e : elem) : action := mkAction TCreate (Some (set_vis e true)) None None.

(* one `for _, x := range o.Xs { ... }` loop of addUpdate *)
Fixpoint add_update_loop (nft : bool) (ds : datasource) (ign : bool) (ty : atype) (vis : bool)
         (es : list elem) (acts : list action) : list action + error :=
  match es with
  | [] => inl acts
  | e :: r =>
      let fr := find_previous_elem ds ign e in
      match check_err nft ign fr e with
      | Some err => inr err
      | None =>
          match fr with
          | FOld o => add_update_loop nft ds ign ty vis r
                        (acts ++ [mkAction ty None (Some o) (Some (set_vis e vis))])
          | _ => add_update_loop nft ds ign ty vis r (acts ++ [create_action e])
          end
      end
  end.

Definition add_update (nft : bool) (ds : datasource) (ign : bool) (ty : atype) (s : section) (acts : list action)
  : list action + error :=
  let vis := match ty with TDelete => false | _ => true end in
  match add_update_loop nft ds ign ty vis (s_nodes s) acts with
  | inr e => inr e
  | inl a1 =>
      match add_update_loop nft ds ign ty vis (s_ways s) a1 with
      | inr e => inr e
      | inl a2 => add_update_loop nft ds ign ty vis (s_rels s) a2
      end
  end.

Definition annotate_change (nft : bool) (ds : datasource) (ign : bool) (c : change) : result :=
  let cr := c_create c in
  let a0 := map create_action (s_nodes cr) ++ map create_action (s_ways cr) ++ map create_action (s_rels cr) in
  match add_update nft ds ign TModify (c_modify c) a0 with
  | inr e => RErr e
  | inl a1 =>
      match add_update nft ds ign TDelete (c_delete c) a1 with
      | inr e => RErr e
      | inl a2 => ROk a2
      end
  end.

(* results of the regenerated findPrevious functions and checkErr (VerifGen.GenChange, tied to
   this model in C13/GenOk.v) *)
Inductive fpg_res := FPG_DsErr (code : Z) | FPG_Nil | FPG_NoVisible | FPG_At (loc : Z).
Inductive ce_res := CE_Nil | CE_NoVisible | CE_Same.

(* a data source given as an association list (first match; absent = not found), as the
   harness describes osm.HistoryDatasource and its error-injecting wrapper *)
Fixpoint ds_of (l : list (kind * Z * lookup)) (k : kind) (id : Z) : lookup :=
  match l with
  | [] => LNotFound
  | (k', id', r) :: rest => if kind_eqb k k' && (id =? id') then r else ds_of rest k id
  end.
