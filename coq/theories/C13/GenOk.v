(* C13/GenOk.v — findPreviousNode / findPreviousWay / findPreviousRelation and checkErr as
   regenerated from annotate/change.go on every run (VerifGen.GenChange, translator/cmd/change
   with tr/loops.go) agree with the hand model.  The data source answer is the pair
   (history, err) with err = 0 for nil; FPG_At loc stands for `return hist[loc], nil`. *)
From Coq Require Import ZArith List Bool Lia.
From Verif Require Import Base.GenLoop C13.Model C13.Spec C13.Proofs.
From VerifGen Require Import GenChange.
Import ListNotations.
Open Scope Z_scope.

(* the three per-kind functions are the same function *)
Lemma gen_find_previous_way_same : gen_find_previous_way = gen_find_previous_node.
Proof. reflexivity. Qed.
Lemma gen_find_previous_relation_same : gen_find_previous_relation = gen_find_previous_node.
Proof. reflexivity. Qed.

(* the `loc, max := -1, -1` scan, as a step function on (i, loc, max) *)
Definition scan_step (ver : Z) (st : Z * Z * Z) (x : elem) : Z * Z * Z :=
  let '(i, loc, mx) := st in
  if (e_ver x <? ver) && (mx <? e_ver x) then (i + 1, i, e_ver x) else (i + 1, loc, mx).

Definition loc_is (full : list elem) (loc : Z) (best : option elem) : Prop :=
  (loc = -1 /\ best = None) \/
  (0 <= loc /\ exists o, best = Some o /\ nth_error full (Z.to_nat loc) = Some o).

Lemma scan_spec ver full : forall hist pre loc mx best i' loc' mx',
  full = pre ++ hist -> loc_is full loc best ->
  fold_left (scan_step ver) hist (Z.of_nat (length pre), loc, mx) = (i', loc', mx') ->
  loc_is full loc' (fp_loop ver hist best mx).
Proof.
  induction hist as [|x r IH]; intros pre loc mx best i' loc' mx' Hfull Hloc Hfold.
  - cbn in Hfold. inversion Hfold; subst. exact Hloc.
  - cbn [fold_left fp_loop] in *. unfold scan_step at 2 in Hfold.
    assert (Hpre : full = (pre ++ [x]) ++ r) by (rewrite <- app_assoc; exact Hfull).
    assert (Hlen : Z.of_nat (length pre) + 1 = Z.of_nat (length (pre ++ [x])))
      by (rewrite app_length; cbn; lia).
    rewrite Hlen in Hfold.
    destruct ((e_ver x <? ver) && (mx <? e_ver x)).
    + refine (IH _ _ _ _ _ _ _ Hpre _ Hfold). right. split; [lia|].
      exists x. split; [reflexivity|]. rewrite Nat2Z.id, Hfull, nth_error_app2, Nat.sub_diag; [reflexivity|lia].
    + exact (IH _ _ _ _ _ _ _ Hpre Hloc Hfold).
Qed.

Lemma fold_left_ext {A B} (f g : A -> B -> A) : (forall a b, f a b = g a b) ->
  forall l a, fold_left f l a = fold_left g l a.
Proof. intros H. induction l as [|x r IH]; intro a; cbn; [reflexivity|]. rewrite H. apply IH. Qed.

Lemma loop_fold_ext {A S R} (f g : S -> A -> lstep S R) :
  (forall s x, f s x = g s x) -> forall l s, loop_fold f l s = loop_fold g l s.
Proof.
  intros H. induction l as [|x l IH]; intro s; [reflexivity|].
  rewrite !loop_fold_cons, H. destruct (g s x); [apply IH|reflexivity].
Qed.

(* the same scan leaving the loop (`break`) once the direct predecessor ver-1 is found: what follows
   the loop, KB, runs on the state of that moment.  Nothing can be closer than ver-1, so the rest of
   the scan would not change loc and max. *)
Definition scan_step_b {R} (ver : Z) (KB : Z * Z * Z -> R) (st : Z * Z * Z) (x : elem) : lstep (Z * Z * Z) R :=
  let '(i, loc, mx) := st in
  if (e_ver x <? ver) && (mx <? e_ver x)
  then (if e_ver x =? ver - 1 then LRet (KB (i, i, e_ver x)) else LNext (i + 1, i, e_ver x))
  else LNext (i + 1, loc, mx).

Lemma scan_stuck ver : forall l j loc,
  fold_left (scan_step ver) l (j, loc, ver - 1) = (j + Z.of_nat (length l), loc, ver - 1).
Proof.
  induction l as [|x r IH]; intros j loc.
  - cbn. rewrite Z.add_0_r. reflexivity.
  - cbn [fold_left length]. unfold scan_step at 2.
    replace ((e_ver x <? ver) && (ver - 1 <? e_ver x)) with false
      by (symmetry; apply andb_false_iff; destruct (e_ver x <? ver) eqn:E; [right; apply Z.ltb_ge; apply Z.ltb_lt in E; lia|left; reflexivity]).
    rewrite IH. f_equal. f_equal. lia.
Qed.

Lemma scan_break {R} ver (KB : Z * Z * Z -> R) :
  (forall i i' loc mx, KB (i, loc, mx) = KB (i', loc, mx)) ->
  forall l st,
    match loop_fold (scan_step_b ver KB) l st with LRet r => r | LNext s => KB s end
    = KB (fold_left (scan_step ver) l st).
Proof.
  intros Hi. induction l as [|x r IH]; intros [[i loc] mx]; [reflexivity|].
  rewrite loop_fold_cons. cbn [fold_left]. unfold scan_step_b, scan_step at 2.
  destruct ((e_ver x <? ver) && (mx <? e_ver x)); [|apply IH].
  destruct (e_ver x =? ver - 1) eqn:E; [|apply IH].
  apply Z.eqb_eq in E. rewrite E, scan_stuck. apply Hi.
Qed.

(* no data source error: the regenerated function returns what the model's find_previous_elem
   returns for a data source that answers with this history *)
Definition interp_fpg (h : list elem) (e : elem) (r : fpg_res) : option fp_res :=
  match r with
  | FPG_Nil => Some FNil
  | FPG_NoVisible => Some (FNoVisible (e_kind e) (e_id e))
  | FPG_At loc => if loc <? 0 then None else option_map FOld (nth_error h (Z.to_nat loc))
  | FPG_DsErr _ => None
  end.

Lemma gen_find_previous_node_ok h e ign :
  interp_fpg h e (gen_find_previous_node h 0 e ign) = Some (find_previous_elem (fun _ _ => LOk h) ign e).
Proof.
  unfold gen_find_previous_node, find_previous_elem, find_previous. cbv zeta.
  change (negb (0 =? 0)) with false. cbv iota.
  (* the code after the loop, as a function of the loop state *)
  set (KB0 := fun st : Z * Z * Z => let '(_, loc, _) := st in
                if loc =? -1 then (if ign then FPG_Nil else FPG_NoVisible) else FPG_At loc).
  first
    [ (* a plain scan *)
      rewrite (fold_left_ext _ (scan_step (e_ver e)))
        by (intros [[i loc] mx] x; unfold scan_step; destruct ((e_ver x <? e_ver e) && (mx <? e_ver x)); reflexivity)
    | (* a scan that stops at the direct predecessor *)
      rewrite (loop_fold_ext _ (scan_step_b (e_ver e) KB0))
        by (intros [[i loc] mx] x; unfold scan_step_b; cbv beta zeta;
            destruct ((e_ver x <? e_ver e) && (mx <? e_ver x)); [destruct (e_ver x =? e_ver e - 1)|]; reflexivity);
      match goal with
      | |- _ = ?rhs =>
          change (interp_fpg h e (match loop_fold (scan_step_b (e_ver e) KB0) h (0, -1, -1) with
                                  | LRet r => r | LNext s => KB0 s end) = rhs)
      end;
      rewrite (scan_break (e_ver e) KB0) by (intros; reflexivity) ];
  subst KB0; cbv beta.
  destruct (fold_left (scan_step (e_ver e)) h (0, -1, -1)) as [[i' loc'] mx'] eqn:Ef.
  pose proof (scan_spec (e_ver e) h h [] (-1) (-1) None i' loc' mx' eq_refl (or_introl (conj eq_refl eq_refl)) Ef) as H.
  destruct H as [[Hl Hb]|[Hl (o & Hb & Hn)]].
  - subst loc'. rewrite Hb. cbn. destruct ign; reflexivity.
  - rewrite Hb. replace (loc' =? -1) with false by lia. cbn [interp_fpg].
    replace (loc' <? 0) with false by lia. rewrite Hn. reflexivity.
Qed.

(* a data source error is passed on unchanged, whatever the history value *)
Lemma gen_find_previous_node_err h c e ign : c <> 0 -> gen_find_previous_node h c e ign = FPG_DsErr c.
Proof.
  intro H. unfold gen_find_previous_node. cbv zeta. replace (c =? 0) with false by lia. reflexivity.
Qed.

(* checkErr: the decision structure over (err == nil, ds.NotFound(err), ignoreMissing) *)
Definition fp_err_nil (r : fp_res) : bool := match r with FOld _ | FNil => true | _ => false end.
Definition fp_not_found (nft : bool) (r : fp_res) : bool :=
  match r with FDsNotFound => true | FNoVisible _ _ => nft | _ => false end.

Lemma gen_check_err_ok nft ign r e :
  check_err nft ign r e =
  match gen_check_err (fp_err_nil r) (fp_not_found nft r) ign with
  | CE_Nil => None
  | CE_NoVisible => Some (ENoVisibleChild (e_kind e) (e_id e))
  | CE_Same => match r with
               | FNoVisible k id => Some (ENoVisibleChild k id)
               | FDsOther c => Some (EOther c)
               | _ => None
               end
  end.
Proof. destruct r, nft, ign; reflexivity. Qed.

(* hence what ds.NotFound says about the typed error does not matter: findPrevious builds it
   from the very element whose id checkErr would use, and only when ignore-missing is off *)
Lemma check_err_nft_irrelevant ds ign e nft :
  check_err nft ign (find_previous_elem ds ign e) e = check_err false ign (find_previous_elem ds ign e) e.
Proof.
  unfold find_previous_elem. destruct (ds (e_kind e) (e_id e)); try reflexivity.
  destruct (find_previous (e_ver e) h); [reflexivity|]. destruct ign, nft; reflexivity.
Qed.

(* ================= wave 4: addUpdate and Change ================= *)
From Verif Require Import Base.GenLoop C13.GenSupport.


(* one per-kind loop of addUpdate *)
Definition au_body (nft : bool) (ds : datasource) (ign : bool) (ty : atype) (vis : bool)
           (acts : list action) (e : elem) : lstep (list action) (list action + error) :=
  let r := find_previous_elem ds ign e in
  match check_err nft ign r e with
  | Some err => LRet (inr err)
  | None =>
      match fp_old r with
      | None => LNext (acts ++ [mkAction TCreate (Some (set_vis e true)) None None])
      | Some o => LNext (acts ++ [mkAction ty None (Some o) (Some (set_vis e vis))])
      end
  end.

Lemma au_body_loop nft ds ign ty vis : forall es acts,
  loop_fold (au_body nft ds ign ty vis) es acts =
  match add_update_loop nft ds ign ty vis es acts with
  | inl a => LNext a
  | inr e => LRet (inr e)
  end.
Proof.
  induction es as [|e r IH]; intro acts; [reflexivity|].
  rewrite loop_fold_cons. cbn [add_update_loop]. unfold au_body at 1. cbv zeta.
  destruct (check_err nft ign (find_previous_elem ds ign e) e); [reflexivity|].
  destruct (find_previous_elem ds ign e); cbn [fp_old]; apply IH.
Qed.

Lemma gen_add_update_some nft ds acts s ty ign :
  gen_add_update nft ds acts (Some s) ty ign = add_update nft ds ign ty s acts.
Proof.
  unfold gen_add_update, add_update. cbv zeta.
  destruct ty; cbn [atype_is_delete atype_eqb negb];
    match goal with
    | |- context [add_update_loop nft ds ign ?ty ?vis (s_nodes s) acts] =>
        rewrite (loop_fold_ext _ (au_body nft ds ign ty vis)) by (intros a e; reflexivity);
        rewrite au_body_loop;
        destruct (add_update_loop nft ds ign ty vis (s_nodes s) acts) as [a1|e1]; [|reflexivity];
        rewrite (loop_fold_ext _ (au_body nft ds ign ty vis)) by (intros a e; reflexivity);
        rewrite au_body_loop;
        destruct (add_update_loop nft ds ign ty vis (s_ways s) a1) as [a2|e2]; [|reflexivity];
        rewrite (loop_fold_ext _ (au_body nft ds ign ty vis)) by (intros a e; reflexivity);
        rewrite au_body_loop;
        destruct (add_update_loop nft ds ign ty vis (s_rels s) a2); reflexivity
    end.
Qed.

Lemma gen_add_update_ok nft ds acts o ty ign :
  gen_add_update nft ds acts o ty ign = add_update nft ds ign ty (sec_of o) acts.
Proof.
  destruct o as [s|]; [apply gen_add_update_some|].
  unfold gen_add_update, add_update, sec_of, empty_section. reflexivity.
Qed.

Lemma fold_append_map {A B} (f : A -> B) (l : list A) : forall acc,
  fold_left (fun st x => (st ++ [f x])%list) l acc = (acc ++ map f l)%list.
Proof.
  induction l as [|x l IH]; intro acc; cbn [fold_left map]; [rewrite app_nil_r; reflexivity|].
  rewrite IH, <- app_assoc. reflexivity.
Qed.

Theorem gen_change_ok nft ds ign g :
  gen_change nft ds ign g = annotate_change nft ds ign (change_of g).
Proof.
  unfold gen_change, annotate_change. cbv zeta.
  unfold change_of. cbn [c_create c_modify c_delete].
  destruct (gc_create g) as [s|]; cbn [sec_of].
  - rewrite (fold_left_ext _ (fun st x => (st ++ [create_action x])%list)) by (intros; reflexivity).
    rewrite fold_append_map.
    rewrite (fold_left_ext _ (fun st x => (st ++ [create_action x])%list)) by (intros; reflexivity).
    rewrite fold_append_map.
    rewrite (fold_left_ext _ (fun st x => (st ++ [create_action x])%list)) by (intros; reflexivity).
    rewrite fold_append_map. cbn [app]. rewrite <- app_assoc. rewrite gen_add_update_ok.
    destruct (add_update nft ds ign TModify (sec_of (gc_modify g)) _) as [a1|e1]; [|reflexivity].
    rewrite gen_add_update_ok. destruct (add_update nft ds ign TDelete (sec_of (gc_delete g)) a1); reflexivity.
  - cbn [empty_section s_nodes s_ways s_rels map app]. rewrite gen_add_update_ok.
    destruct (add_update nft ds ign TModify (sec_of (gc_modify g)) []) as [a1|e1]; [|reflexivity].
    rewrite gen_add_update_ok. destruct (add_update nft ds ign TDelete (sec_of (gc_delete g)) a1); reflexivity.
Qed.
