(* C06/Spec.v — the ground truth of property C06, written directly from the property text and
   independent of the reader model: which blocks are complete before a cut, which cut offsets are
   block boundaries.  Executable. *)
From Coq Require Import ZArith List Bool.
From Verif Require Import Framing.Model Framing.Valid.
Import ListNotations.
Open Scope Z_scope.

Section Spec.
Context {T : Type}.

(* the frames that lie wholly before byte offset k *)
Fixpoint frames_before (fs : list (frame T)) (k : Z) : list (frame T) :=
  match fs with
  | [] => []
  | f :: r => if frame_size f <=? k then f :: frames_before r (k - frame_size f) else []
  end.

(* objects of a list of intact frames *)
Definition objs_of (fs : list (frame T)) : list T := concat (map frame_objs fs).

(* "exactly the objects of the complete blocks before the cut" *)
Definition objs_before (fs : list (frame T)) (k : Z) : list T := objs_of (frames_before fs k).

(* "the cut falls on a block boundary": k is 0 or the end of some frame *)
Fixpoint is_boundary (fs : list (frame T)) (k : Z) : bool :=
  (k =? 0) ||
  match fs with
  | [] => false
  | f :: r => (frame_size f <=? k) && is_boundary r (k - frame_size f)
  end.

(* expected outcome of scanning the stream cut at k *)
Definition cut_outcome (fs : list (frame T)) (k : Z) : outcome :=
  if is_boundary fs k then Done else Failed.

End Spec.
