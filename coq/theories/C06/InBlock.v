(* C06/InBlock.v — in-block damage classes of property C06, derived from the layer-L1 model
   (theories/Pbf/Model.v, the model of osmpbf/decode_data.go).

   For a block's message tree [m] carrying one of the enumerated damages, [scan_result c st m] is
   [Err _] for EVERY scanner configuration that looks at the damaged element and EVERY incoming
   decoder state: missing mandatory dense columns, a plain Node group, string-table indices out of
   range at every place an index is used (dense keys_vals, dense user_sid, way/relation keys and
   vals, way/relation info.user_sid, relation roles_sid), parallel columns of different length
   (way refs/lat/lon, relation roles/memids/types, dense columns shorter than ids, vals shorter
   than keys).  The proofs show "the result is not Ok"; L1's [scan_result_never_panics] turns that
   into "the result is Err".

   Damage is located by membership: a group [(2, WMsg g)] of the block and an element
   [(n, WMsg e)] of the group; fields may be repeated and in any order. *)
From Coq Require Import ZArith List Bool Lia Arith.
From Verif Require Import Base.Int64 Pbf.Tree Pbf.Model Pbf.ProofsNoPanic.
Import ListNotations.
Open Scope Z_scope.
Open Scope res_scope.

(* ---------- inversion of the error monad and of the field loops ---------- *)
Lemma rbind_ok {A B} (r : result A) (f : A -> result B) b :
  rbind r f = Ok b -> exists a, r = Ok a /\ f a = Ok b.
Proof. destruct r as [a| |]; simpl; intros H; try discriminate. exists a. auto. Qed.

Ltac rb H :=
  let a := fresh "a" in let Ha := fresh "Ha" in
  apply rbind_ok in H; destruct H as (a & Ha & H).

Section GLoop.
  Context {S : Type} (step : S -> Z * wval -> result S).
  Fixpoint gloop (m : msg) (s : S) : result S :=
    match m with
    | [] => Ok s
    | f :: r => s' <- step s f ;;; gloop r s'
    end.

  (* every field of a loop that ended Ok was processed Ok, in a state satisfying any invariant *)
  Lemma gloop_in (P : S -> Prop) :
    (forall s f s', P s -> step s f = Ok s' -> P s') ->
    forall m s s', P s -> gloop m s = Ok s' ->
    P s' /\ forall f, In f m -> exists s1 s2, P s1 /\ step s1 f = Ok s2.
  Proof.
    intros Hinv. induction m as [|f r IH]; intros s s' Hs H.
    - simpl in H. injection H as <-. split; [exact Hs|]. intros f [].
    - simpl in H. rb H. destruct (IH a s' (Hinv _ _ _ Hs Ha) H) as [Hp Hall].
      split; [exact Hp|]. intros f0 [<-|Hin].
      + exists s, a. auto.
      + apply Hall. exact Hin.
  Qed.
End GLoop.

Lemma way_loop_g p m : forall s, way_loop p m s = gloop (way_step p) m s.
Proof. induction m as [|f r IH]; intros s; simpl; [reflexivity|].
  destruct (way_step p s f); simpl; auto. Qed.
Lemma rel_loop_g p m : forall s, rel_loop p m s = gloop (rel_step p) m s.
Proof. induction m as [|f r IH]; intros s; simpl; [reflexivity|].
  destruct (rel_step p s f); simpl; auto. Qed.
Lemma dense_loop_g m : forall s, dense_loop m s = gloop dense_step m s.
Proof. induction m as [|f r IH]; intros s; simpl; [reflexivity|].
  destruct (dense_step s f); simpl; auto. Qed.
Lemma dinfo_loop_g m : forall s, dinfo_loop m s = gloop dinfo_step m s.
Proof. induction m as [|f r IH]; intros s; simpl; [reflexivity|].
  destruct (dinfo_step s f); simpl; auto. Qed.
Lemma group_loop_g c m : forall s, group_loop c m s = gloop (group_step c) m s.
Proof. induction m as [|f r IH]; intros s; simpl; [reflexivity|].
  destruct (group_step c s f); simpl; auto. Qed.
Lemma info_loop_g p m : forall i, info_loop p m i = gloop (info_step p) m i.
Proof. induction m as [|f r IH]; intros i; simpl; [reflexivity|].
  destruct (info_step p i f); simpl; auto. Qed.

(* ---------- from the block down to one element of one group ---------- *)
(* what holds of the group state whenever an element is reached: the block parameters are the ones
   of pass 1, and the reused way accumulator has no nodes (way0 or reset_way) *)
Definition Ginv (p : bparams) (s : gst) : Prop :=
  d_p (g_d s) = p /\ w_nodes (g_way s) = [].

Lemma group_step_inv c p s f s' : Ginv p s -> group_step c s f = Ok s' -> Ginv p s'.
Proof.
  intros [Hp Hw] H. unfold group_step in H.
  destruct (fst f =? 1); [discriminate|].
  destruct ((fst f =? 2) && negb (skip_nodes c)).
  { rb H. rb H. destruct a0 as [dc' q']. injection H as <-. split; assumption. }
  destruct ((fst f =? 3) && negb (skip_ways c)).
  { rb H. rb H. destruct a0 as [w wc']. destruct (f_way c w); injection H as <-; split; auto. }
  destruct ((fst f =? 4) && negb (skip_rels c)).
  { rb H. rb H. destruct a0 as [r wc']. destruct (f_rel c r); injection H as <-; split; auto. }
  injection H as <-. split; assumption.
Qed.

Lemma scan_group_params c d g q d' q' : scan_group c d g q = Ok (d', q') -> d_p d' = d_p d.
Proof.
  unfold scan_group. intros H. rb H. injection H as <- <-.
  rewrite group_loop_g in Ha.
  assert (Hi : Ginv (d_p d) (mkG d way0 rel0 q)) by (split; reflexivity).
  destruct (gloop_in (group_step c) (Ginv (d_p d)) (group_step_inv c (d_p d)) g _ _ Hi Ha)
    as [[Hp _] _].
  exact Hp.
Qed.

Lemma pass2_group c : forall m d q r g,
  pass2 c m d q = Ok r -> In (2, WMsg g) m ->
  exists d1 q1 r1, d_p d1 = d_p d /\ scan_group c d1 g q1 = Ok r1.
Proof.
  induction m as [|f m IH]; intros d q r g H Hin; [destruct Hin|].
  simpl in H. destruct Hin as [->|Hin].
  - simpl in H. rb H. exists d, q, a. auto.
  - destruct (fst f =? 2).
    + rb H. rb H. destruct a0 as [d' q'].
      destruct (IH d' q' r g H Hin) as (d1 & q1 & r1 & Hp & Hs).
      exists d1, q1, r1. split; [|exact Hs]. rewrite Hp. eapply scan_group_params. exact Ha0.
    + eapply IH; eassumption.
Qed.

(* the central inversion: a block that scans Ok has scanned every element of every group Ok *)
Lemma ok_element c st m q g f :
  scan_result c st m = Ok q -> In (2, WMsg g) m -> In f g ->
  exists p s1 s2, pass1 m p0 = Ok p /\ Ginv p s1 /\ group_step c s1 f = Ok s2.
Proof.
  unfold scan_result, scan_block. intros H Hg Hf.
  destruct (pass1 m p0) as [p| |] eqn:Ep; simpl in H; try discriminate.
  destruct (pass2 c m (mkD p (d_dc st) (d_wc st)) []) as [[d' q']| |] eqn:E2; try discriminate.
  destruct (pass2_group c m _ _ _ g E2 Hg) as (d1 & q1 & [d2 q2] & Hp & Hs).
  simpl in Hp. unfold scan_group in Hs. rb Hs. rewrite group_loop_g in Ha.
  assert (Hi : Ginv p (mkG d1 way0 rel0 q1)) by (split; [exact Hp|reflexivity]).
  destruct (gloop_in (group_step c) (Ginv p) (group_step_inv c p) g _ _ Hi Ha) as [_ Hall].
  destruct (Hall f Hf) as (s1 & s2 & Hi1 & Hst).
  exists p, s1, s2. auto.
Qed.

(* not Ok, never Panic: Err *)
Lemma not_ok_is_err c st m : (forall q, scan_result c st m <> Ok q) -> exists e, scan_result c st m = Err e.
Proof.
  intros H. pose proof (scan_result_never_panics c st m) as Hn.
  destruct (scan_result c st m) as [q|e|]; [exfalso; exact (H q eq_refl)|exists e; reflexivity|congruence].
Qed.

(* ---------- generic lifting, one per element kind ---------- *)
Theorem bad_way_is_err c st m g w :
  In (2, WMsg g) m -> In (3, WMsg w) g -> skip_ways c = false ->
  (forall p wc w0 r, pass1 m p0 = Ok p -> w_nodes w0 = [] -> scan_way p wc w w0 <> Ok r) ->
  exists e, scan_result c st m = Err e.
Proof.
  intros Hg Hw Hskip Hbad. apply not_ok_is_err. intros q H.
  destruct (ok_element c st m q g _ H Hg Hw) as (p & s1 & s2 & Hp & [Hdp Hwn] & Hst).
  unfold group_step in Hst. cbn [fst snd] in Hst. rewrite Hskip in Hst. cbn in Hst.
  rb Hst. destruct a as [w' wc']. rewrite Hdp in Ha. exact (Hbad p _ _ _ Hp Hwn Ha).
Qed.

Theorem bad_relation_is_err c st m g r :
  In (2, WMsg g) m -> In (4, WMsg r) g -> skip_rels c = false ->
  (forall p wc r0 x, pass1 m p0 = Ok p -> scan_relation p wc r r0 <> Ok x) ->
  exists e, scan_result c st m = Err e.
Proof.
  intros Hg Hr Hskip Hbad. apply not_ok_is_err. intros q H.
  destruct (ok_element c st m q g _ H Hg Hr) as (p & s1 & s2 & Hp & [Hdp Hwn] & Hst).
  unfold group_step in Hst. cbn [fst snd] in Hst. rewrite Hskip in Hst. cbn in Hst.
  rb Hst. destruct a as [r' wc']. rewrite Hdp in Ha. exact (Hbad p _ _ _ Hp Ha).
Qed.

Theorem bad_dense_is_err c st m g d :
  In (2, WMsg g) m -> In (2, WMsg d) g -> skip_nodes c = false ->
  (forall p dc q x, pass1 m p0 = Ok p -> scan_dense c p dc d q <> Ok x) ->
  exists e, scan_result c st m = Err e.
Proof.
  intros Hg Hd Hskip Hbad. apply not_ok_is_err. intros q H.
  destruct (ok_element c st m q g _ H Hg Hd) as (p & s1 & s2 & Hp & [Hdp Hwn] & Hst).
  unfold group_step in Hst. cbn [fst snd] in Hst. rewrite Hskip in Hst. cbn in Hst.
  rb Hst. destruct a as [dc' q']. rewrite Hdp in Ha. exact (Hbad p _ _ _ Hp Ha).
Qed.

(* ---------- class: plain (non-dense) Node group ---------- *)
Theorem plain_node_group_is_err c st m g v :
  In (2, WMsg g) m -> In (1, v) g -> exists e, scan_result c st m = Err e.
Proof.
  intros Hg Hv. apply not_ok_is_err. intros q H.
  destruct (ok_element c st m q g _ H Hg Hv) as (p & s1 & s2 & _ & _ & Hst).
  unfold group_step in Hst. cbn in Hst. discriminate.
Qed.

(* ---------- columns and flags of an element message, as functions of the tree ---------- *)
Definition has_field (n : Z) (m : msg) : bool := existsb (fun f => fst f =? n) m.

(* the packed column number n of a message as the decoder sees it: the LAST field n *)
Fixpoint last_packed (n : Z) (m : msg) (acc : iter) : iter :=
  match m with
  | [] => acc
  | f :: r => last_packed n r (if fst f =? n then match snd f with WPacked l => Some l | _ => acc end
                               else acc)
  end.
Definition col (n : Z) (m : msg) : iter := last_packed n m None.

Definition or_else (a b : iter) : iter := match a with Some l => Some l | None => b end.

Lemma last_packed_acc n : forall m acc, last_packed n m acc = or_else (col n m) acc.
Proof.
  unfold col. induction m as [|f r IH]; intros acc; [reflexivity|].
  cbn [last_packed].
  rewrite (IH (if fst f =? n then match snd f with WPacked l => Some l | _ => acc end else acc)).
  rewrite (IH (if fst f =? n then match snd f with WPacked l => Some l | _ => None end else None)).
  destruct (last_packed n r None); [reflexivity|]. cbn [or_else].
  destruct (fst f =? n); [|reflexivity]. destruct (snd f); reflexivity.
Qed.

Section Track.
  Context {S : Type} (step : S -> Z * wval -> result S).

  Lemma gloop_col (get : S -> iter) n :
    (forall s f s', step s f = Ok s' ->
       get s' = if fst f =? n then match snd f with WPacked l => Some l | _ => get s end else get s) ->
    forall m s s', gloop step m s = Ok s' -> get s' = or_else (col n m) (get s).
  Proof.
    intros Hst. induction m as [|f r IH]; intros s s' H.
    - simpl in H. injection H as <-. reflexivity.
    - simpl in H. rb H. rewrite (IH _ _ H), (Hst _ _ _ Ha).
      unfold col. cbn [last_packed].
      rewrite (last_packed_acc n r (if fst f =? n then match snd f with WPacked l => Some l | _ => None end
                                    else None)).
      unfold col. destruct (last_packed n r None); [reflexivity|]. cbn [or_else].
      destruct (fst f =? n); [|reflexivity]. destruct (snd f); reflexivity.
  Qed.

  Lemma gloop_flag (get : S -> bool) n :
    (forall s f s', step s f = Ok s' -> get s' = get s || (fst f =? n)) ->
    forall m s s', gloop step m s = Ok s' -> get s' = get s || has_field n m.
  Proof.
    intros Hst. induction m as [|f r IH]; intros s s' H.
    - simpl in H. injection H as <-. cbn. rewrite orb_false_r. reflexivity.
    - simpl in H. rb H. rewrite (IH _ _ H), (Hst _ _ _ Ha). cbn [has_field existsb].
      rewrite orb_assoc. reflexivity.
  Qed.
End Track.

Lemma as_packed_ok v l : as_packed v = Ok l -> v = WPacked l.
Proof. destruct v; simpl; intros H; try discriminate. injection H as ->. reflexivity. Qed.
Lemma as_msg_ok v m : as_msg v = Ok m -> v = WMsg m.
Proof. destruct v; simpl; intros H; try discriminate. injection H as ->. reflexivity. Qed.
Lemma as_var_ok v x : as_var v = Ok x -> v = WVar x.
Proof. destruct v; simpl; intros H; try discriminate. injection H as ->. reflexivity. Qed.

(* case analysis of a step function that returned Ok *)
Ltac split_ifs H :=
  repeat match type of H with
         | (if ?b then _ else _) = Ok _ => let E := fresh "E" in destruct b eqn:E
         end.
Ltac know_fields :=
  repeat match goal with
         | E : (fst ?f =? ?k) = true |- _ => apply Z.eqb_eq in E; rewrite E in *
         end.

(* ---------- string table ---------- *)
Definition in_table (st : list bytes) (i : Z) : Prop := 0 <= i < Z.of_nat (length st).

Lemma idx_ok {A} (l : list A) i a : idx l i = Ok a -> 0 <= i < Z.of_nat (length l).
Proof.
  unfold idx, oob. destruct (i <? 0) eqn:E; [discriminate|]. apply Z.ltb_ge in E.
  destruct (nth_error l (Z.to_nat i)) eqn:En; [|discriminate]. intros _.
  assert (Hn : nth_error l (Z.to_nat i) <> None) by congruence.
  apply nth_error_Some in Hn. lia.
Qed.

Lemma uint32_ok v u : uint32 v = Ok u -> v < two35 /\ u = v mod two32.
Proof.
  unfold uint32. destruct (v <? two35) eqn:E; [|discriminate]. apply Z.ltb_lt in E.
  intros H. injection H as <-. auto.
Qed.

(* an index as scanTags / Info read it (Uint32) *)
Definition u32_in_table (st : list bytes) (v : Z) : Prop := v < two35 /\ in_table st (v mod two32).

Lemma scan_tags_ok st : forall ks vs tags, scan_tags st ks vs = Ok tags ->
  (length ks <= length vs)%nat /\ Forall (u32_in_table st) ks
  /\ Forall (u32_in_table st) (firstn (length ks) vs).
Proof.
  induction ks as [|k kr IH]; intros vs tags H.
  - cbn. repeat split; [lia|constructor|constructor].
  - cbn [scan_tags] in H. rb H. destruct vs as [|v vr]; [discriminate|].
    rb H. rb H. rb H. rb H.
    destruct (IH vr _ Ha3) as (Hl & Hk & Hv).
    destruct (uint32_ok _ _ Ha) as [Hk1 ->]. destruct (uint32_ok _ _ Ha0) as [Hv1 ->].
    apply idx_ok in Ha1, Ha2.
    cbn [length firstn]. repeat split; [lia| |]; constructor; auto; split; assumption.
Qed.

(* ---------- ways ---------- *)
Lemma way_step_keys p s f s' : way_step p s f = Ok s' ->
  c_keys (ws_wc s') = (if fst f =? 2 then match snd f with WPacked l => Some l | _ => c_keys (ws_wc s) end
                       else c_keys (ws_wc s)).
Proof.
  intros H. unfold way_step in H. split_ifs H; know_fields; cbn;
    repeat (let a := fresh "a" in rb H); try (injection H as <-); cbn; try reflexivity.
  apply as_packed_ok in Ha. rewrite Ha. reflexivity.
Qed.
Lemma way_step_vals p s f s' : way_step p s f = Ok s' ->
  c_vals (ws_wc s') = (if fst f =? 3 then match snd f with WPacked l => Some l | _ => c_vals (ws_wc s) end
                       else c_vals (ws_wc s)).
Proof.
  intros H. unfold way_step in H. split_ifs H; know_fields; cbn;
    repeat (let a := fresh "a" in rb H); try (injection H as <-); cbn; try reflexivity.
  apply as_packed_ok in Ha. rewrite Ha. reflexivity.
Qed.
Lemma way_step_fk p s f s' : way_step p s f = Ok s' -> ws_fk s' = ws_fk s || (fst f =? 2).
Proof.
  intros H. unfold way_step in H. split_ifs H; know_fields; cbn;
    repeat (let a := fresh "a" in rb H); try (injection H as <-); cbn;
    rewrite ?orb_false_r, ?orb_true_r; reflexivity.
Qed.
Lemma way_step_fv p s f s' : way_step p s f = Ok s' -> ws_fv s' = ws_fv s || (fst f =? 3).
Proof.
  intros H. unfold way_step in H. split_ifs H; know_fields; cbn;
    repeat (let a := fresh "a" in rb H); try (injection H as <-); cbn;
    rewrite ?orb_false_r, ?orb_true_r; reflexivity.
Qed.

Ltac col_tac H :=
  split_ifs H; know_fields; cbn;
  repeat (let a := fresh "a" in rb H); try (injection H as <-); cbn;
  rewrite ?orb_false_r, ?orb_true_r; try reflexivity;
  try (match goal with
       | Hp : as_packed _ = Ok _ |- _ => apply as_packed_ok in Hp; rewrite Hp; reflexivity
       end).

Lemma col_has_field n : forall m l, col n m = Some l -> has_field n m = true.
Proof.
  unfold col. induction m as [|f r IH]; intros l H; [discriminate|].
  cbn [last_packed] in H. cbn [has_field existsb]. rewrite last_packed_acc in H.
  destruct (fst f =? n); [reflexivity|]. cbn [orb].
  destruct (col n r) eqn:E; [eapply IH; exact E|].
  cbn [or_else] in H. destruct (fst f =? n); discriminate.
Qed.

Lemma scan_way_loop p wc w w0 r : scan_way p wc w w0 = Ok r ->
  exists s, gloop (way_step p) w (mkWst w0 wc false false) = Ok s /\
            exists tags, tags_if_found (p_st p) (ws_fk s) (ws_fv s) (ws_wc s) (w_tags (ws_way s)) = Ok tags.
Proof.
  unfold scan_way. intros H. rb H. rb H. rewrite way_loop_g in Ha. exists a. split; [exact Ha|].
  exists a0. exact Ha0.
Qed.

(* way keys / vals: every index a tag uses, and vals at least as long as keys *)
Theorem way_tags_ok p wc w w0 r ks vs :
  scan_way p wc w w0 = Ok r -> col 2 w = Some ks -> col 3 w = Some vs ->
  (length ks <= length vs)%nat /\ Forall (u32_in_table (p_st p)) ks
  /\ Forall (u32_in_table (p_st p)) (firstn (length ks) vs).
Proof.
  intros H Hk Hv. destruct (scan_way_loop _ _ _ _ _ H) as (s & Hl & tags & Ht).
  pose proof (gloop_col (way_step p) (fun s => c_keys (ws_wc s)) 2 (way_step_keys p) _ _ _ Hl) as Ck.
  pose proof (gloop_col (way_step p) (fun s => c_vals (ws_wc s)) 3 (way_step_vals p) _ _ _ Hl) as Cv.
  pose proof (gloop_flag (way_step p) ws_fk 2 (way_step_fk p) _ _ _ Hl) as Fk.
  pose proof (gloop_flag (way_step p) ws_fv 3 (way_step_fv p) _ _ _ Hl) as Fv.
  cbn in Ck, Cv, Fk, Fv. rewrite Hk in Ck. rewrite Hv in Cv. cbn in Ck, Cv.
  rewrite (col_has_field 2 w ks Hk) in Fk. rewrite (col_has_field 3 w vs Hv) in Fv.
  unfold tags_if_found in Ht. rewrite Fk, Fv, Ck, Cv in Ht. cbn in Ht.
  eapply scan_tags_ok. exact Ht.
Qed.

(* Info.user_sid of a way or relation *)
Lemma info_user_ok p di i i' x :
  info_loop p di i = Ok i' -> In (5, WVar x) di -> u32_in_table (p_st p) x.
Proof.
  intros H Hin. rewrite info_loop_g in H.
  destruct (gloop_in (info_step p) (fun _ => True) (fun _ _ _ _ _ => I) di _ _ I H) as [_ Hall].
  destruct (Hall _ Hin) as (i1 & i2 & _ & Hs).
  unfold info_step in Hs. cbn in Hs. rb Hs. rb Hs. destruct (uint32_ok _ _ Ha) as [H1 ->].
  apply idx_ok in Ha0. split; assumption.
Qed.

Theorem way_info_user_ok p wc w w0 r di x :
  scan_way p wc w w0 = Ok r -> In (4, WMsg di) w -> In (5, WVar x) di -> u32_in_table (p_st p) x.
Proof.
  intros H Hi Hx. destruct (scan_way_loop _ _ _ _ _ H) as (s & Hl & _).
  destruct (gloop_in (way_step p) (fun _ => True) (fun _ _ _ _ _ => I) w _ _ I Hl) as [_ Hall].
  destruct (Hall _ Hi) as (s1 & s2 & _ & Hs).
  unfold way_step in Hs. cbn in Hs. rb Hs. eapply info_user_ok; eassumption.
Qed.

(* parallel columns refs / lat / lon *)
Lemma set_nth_length {A} (f : A -> A) : forall l n l', set_nth l n f = Some l' -> length l' = length l.
Proof.
  induction l as [|a r IH]; intros n l' H; [discriminate|].
  destruct n as [|k]; cbn in H.
  - injection H as <-. reflexivity.
  - destruct (set_nth r k f) eqn:E; [|discriminate]. injection H as <-. cbn. f_equal. eapply IH. exact E.
Qed.

Lemma upd_ok {A} (l : list A) i f l' : upd l i f = Ok l' -> length l' = length l /\ (i < length l)%nat.
Proof.
  unfold upd. destruct (set_nth l i f) eqn:E; [|discriminate]. intros H. injection H as <-.
  split; [eapply set_nth_length; exact E|].
  clear - E. revert i l0 E. induction l as [|a r IH]; intros i l0 E; [discriminate|].
  destruct i as [|k]; cbn in *; [lia|]. destruct (set_nth r k f) eqn:E1; [|discriminate].
  specialize (IH _ _ E1). lia.
Qed.

Lemma full_ok {A} (l : list A) i l' : full l i = Ok l' -> l' = l /\ i = length l.
Proof.
  unfold full. destruct (Nat.eqb i (length l)) eqn:E; [|discriminate]. apply Nat.eqb_eq in E.
  intros H. injection H as <-. auto.
Qed.

Lemma fill_ok f : forall l prev i nodes ns, fill f l prev i nodes = Ok ns ->
  length ns = length nodes /\ (i + length l = length nodes)%nat.
Proof.
  induction l as [|v r IH]; intros prev i nodes ns H; cbn [fill] in H.
  - apply full_ok in H as [-> ->]. cbn. split; [reflexivity|lia].
  - rb H. destruct (upd_ok _ _ _ _ Ha) as [Hl Hi]. destruct (IH _ _ _ _ H) as [H1 H2].
    cbn [length]. split; lia.
Qed.

Definition is_node_col (n : Z) : Prop := n = 8 \/ n = 9 \/ n = 10.

Lemma way_step_nodes p s f s' : way_step p s f = Ok s' ->
  let L := length (w_nodes (ws_way s)) in
  let L' := length (w_nodes (ws_way s')) in
  (L <> O -> L' = L) /\
  (forall l, is_node_col (fst f) -> snd f = WPacked l -> l = [] \/ (length l = L' /\ L' <> O)).
Proof.
  intros H. unfold way_step in H. unfold is_node_col.
  assert (Hfill : forall g l ns, fill g l 0 O (alloc_nodes (w_nodes (ws_way s)) l) = Ok ns ->
            (length (w_nodes (ws_way s)) <> O -> length ns = length (w_nodes (ws_way s))) /\
            (l = [] \/ (length l = length ns /\ length ns <> O))).
  { intros g l ns Hf. destruct (fill_ok _ _ _ _ _ _ Hf) as [H1 H2]. unfold alloc_nodes in *.
    destruct (w_nodes (ws_way s)) as [|n0 r0] eqn:En.
    - rewrite repeat_length in *. split; [cbn; lia|]. destruct l; [left; reflexivity|right; cbn in *; lia].
    - split; [intros _; exact H1|]. destruct l; [left; reflexivity|right; cbn in *; lia]. }
  split_ifs H; know_fields; cbn;
    repeat (let a := fresh "a" in rb H); try (injection H as <-); cbn;
    try (split; [reflexivity|intros l [?|[?|?]]; lia]).
  all: match goal with
       | Hp : as_packed (snd _) = Ok ?a, Hf : fill _ ?a _ _ _ = Ok _ |- _ =>
           apply as_packed_ok in Hp; destruct (Hfill _ _ _ Hf) as [G1 G2];
           split; [exact G1|intros l _ Hl; rewrite Hp in Hl; injection Hl as <-; exact G2]
       end.
Qed.

Lemma way_nodes_len p : forall w s s', gloop (way_step p) w s = Ok s' ->
  let L := length (w_nodes (ws_way s)) in
  let L' := length (w_nodes (ws_way s')) in
  (L <> O -> L' = L) /\
  (forall n l, In (n, WPacked l) w -> is_node_col n -> l = [] \/ length l = L').
Proof.
  induction w as [|f r IH]; intros s s' H.
  - simpl in H. injection H as <-. split; [auto|]. intros n l [].
  - simpl in H. rb H. destruct (way_step_nodes _ _ _ _ Ha) as [S1 S2].
    destruct (IH _ _ H) as [I1 I2]. cbn zeta in *. split.
    + intros HL. rewrite I1; [apply S1; exact HL|]. rewrite (S1 HL). exact HL.
    + intros n l [Hf|Hin] Hc.
      * subst f. destruct (S2 l Hc eq_refl) as [->|[E1 E2]]; [left; reflexivity|right].
        rewrite (I1 E2). exact E1.
      * eapply I2; eassumption.
Qed.

Theorem way_columns_ok p wc w w0 r a la b lb :
  scan_way p wc w w0 = Ok r -> w_nodes w0 = [] ->
  In (a, WPacked la) w -> In (b, WPacked lb) w -> is_node_col a -> is_node_col b ->
  la <> [] -> lb <> [] -> length la = length lb.
Proof.
  intros H _ Ha Hb Ca Cb Na Nb. destruct (scan_way_loop _ _ _ _ _ H) as (s & Hl & _).
  destruct (way_nodes_len p _ _ _ Hl) as [_ Hall].
  destruct (Hall _ _ Ha Ca) as [->|E1]; [congruence|].
  destruct (Hall _ _ Hb Cb) as [->|E2]; [congruence|]. congruence.
Qed.

(* ---------- relations ---------- *)
Definition rel_col_spec (get : wcols -> iter) (n : Z) : Prop :=
  forall p s f s', rel_step p s f = Ok s' ->
    get (rs_wc s') = (if fst f =? n then match snd f with WPacked l => Some l | _ => get (rs_wc s) end
                      else get (rs_wc s)).
Lemma rel_step_keys : rel_col_spec c_keys 2.
Proof. intros p s f s' H. unfold rel_step in H. col_tac H. Qed.
Lemma rel_step_vals : rel_col_spec c_vals 3.
Proof. intros p s f s' H. unfold rel_step in H. col_tac H. Qed.
Lemma rel_step_roles : rel_col_spec c_roles 8.
Proof. intros p s f s' H. unfold rel_step in H. col_tac H. Qed.
Lemma rel_step_memids : rel_col_spec c_memids 9.
Proof. intros p s f s' H. unfold rel_step in H. col_tac H. Qed.
Lemma rel_step_types : rel_col_spec c_types 10.
Proof. intros p s f s' H. unfold rel_step in H. col_tac H. Qed.

Definition rel_flag_spec (get : rst -> bool) (n : Z) : Prop :=
  forall p s f s', rel_step p s f = Ok s' -> get s' = get s || (fst f =? n).
Lemma rel_step_fk : rel_flag_spec rs_fk 2.
Proof. intros p s f s' H. unfold rel_step in H. col_tac H. Qed.
Lemma rel_step_fv : rel_flag_spec rs_fv 3.
Proof. intros p s f s' H. unfold rel_step in H. col_tac H. Qed.
Lemma rel_step_fr : rel_flag_spec rs_fr 8.
Proof. intros p s f s' H. unfold rel_step in H. col_tac H. Qed.
Lemma rel_step_fm : rel_flag_spec rs_fm 9.
Proof. intros p s f s' H. unfold rel_step in H. col_tac H. Qed.
Lemma rel_step_ft : rel_flag_spec rs_ft 10.
Proof. intros p s f s' H. unfold rel_step in H. col_tac H. Qed.

Lemma scan_relation_loop p wc m r0 x : scan_relation p wc m r0 = Ok x ->
  exists s, gloop (rel_step p) m (mkRst r0 wc false false false false false) = Ok s /\
    (exists tags, tags_if_found (p_st p) (rs_fk s) (rs_fv s) (rs_wc s) (r_tags (rs_rel s)) = Ok tags) /\
    (exists ms, members_if_found (p_st p) (rs_fr s) (rs_fm s) (rs_ft s) (rs_wc s) (r_members (rs_rel s)) = Ok ms).
Proof.
  unfold scan_relation. intros H. rb H. rb H. rb H. rewrite rel_loop_g in Ha. exists a.
  split; [exact Ha|]. split; [exists a0; exact Ha0|exists a1; exact Ha1].
Qed.

Theorem relation_tags_ok p wc m r0 x ks vs :
  scan_relation p wc m r0 = Ok x -> col 2 m = Some ks -> col 3 m = Some vs ->
  (length ks <= length vs)%nat /\ Forall (u32_in_table (p_st p)) ks
  /\ Forall (u32_in_table (p_st p)) (firstn (length ks) vs).
Proof.
  intros H Hk Hv. destruct (scan_relation_loop _ _ _ _ _ H) as (s & Hl & (tags & Ht) & _).
  pose proof (gloop_col (rel_step p) (fun s => c_keys (rs_wc s)) 2 (rel_step_keys p) _ _ _ Hl) as Ck.
  pose proof (gloop_col (rel_step p) (fun s => c_vals (rs_wc s)) 3 (rel_step_vals p) _ _ _ Hl) as Cv.
  pose proof (gloop_flag (rel_step p) rs_fk 2 (rel_step_fk p) _ _ _ Hl) as Fk.
  pose proof (gloop_flag (rel_step p) rs_fv 3 (rel_step_fv p) _ _ _ Hl) as Fv.
  cbn in Ck, Cv, Fk, Fv. rewrite Hk in Ck. rewrite Hv in Cv. cbn in Ck, Cv.
  rewrite (col_has_field 2 m ks Hk) in Fk. rewrite (col_has_field 3 m vs Hv) in Fv.
  unfold tags_if_found in Ht. rewrite Fk, Fv, Ck, Cv in Ht. cbn in Ht.
  eapply scan_tags_ok. exact Ht.
Qed.

Theorem relation_info_user_ok p wc m r0 x di u :
  scan_relation p wc m r0 = Ok x -> In (4, WMsg di) m -> In (5, WVar u) di -> u32_in_table (p_st p) u.
Proof.
  intros H Hi Hx. destruct (scan_relation_loop _ _ _ _ _ H) as (s & Hl & _).
  destruct (gloop_in (rel_step p) (fun _ => True) (fun _ _ _ _ _ => I) m _ _ I Hl) as [_ Hall].
  destruct (Hall _ Hi) as (s1 & s2 & _ & Hs).
  unfold rel_step in Hs. cbn in Hs. rb Hs. eapply info_user_ok; eassumption.
Qed.

(* a role index as extractMembers reads it (Int32) *)
Definition i32_in_table (st : list bytes) (v : Z) : Prop := in_table st (int32 v).

Lemma members_loop_ok st : forall roles memids types memid i ms ms',
  members_loop st roles memids types memid i ms = Ok ms' ->
  (i + length roles = length ms)%nat /\ length roles = length memids
  /\ (length roles <= length types)%nat /\ Forall (i32_in_table st) roles.
Proof.
  induction roles as [|r rr IH]; intros memids types memid i ms ms' H; cbn [members_loop] in H.
  - destruct memids as [|mi mr]; [|discriminate].
    apply full_ok in H as [_ ->]. cbn. repeat split; try lia. constructor.
  - rb H. rb H. rb H. destruct memids as [|mi mr]; [discriminate|].
    destruct types as [|t tr]; [discriminate|]. rb H.
    destruct (upd_ok _ _ _ _ Ha) as [_ Hi]. destruct (upd_ok _ _ _ _ Ha1) as [L1 _].
    destruct (upd_ok _ _ _ _ Ha2) as [L2 _]. apply idx_ok in Ha0.
    destruct (IH _ _ _ _ _ _ H) as (I1 & I2 & I3 & I4).
    cbn [length]. repeat split; try lia. constructor; [exact Ha0|exact I4].
Qed.

(* roles / memids / types: same length (all three, since fix bf5fa46), every role index in the table *)
Theorem relation_members_ok p wc m r0 x roles memids types :
  scan_relation p wc m r0 = Ok x ->
  col 8 m = Some roles -> col 9 m = Some memids -> col 10 m = Some types ->
  length roles = length types /\ length roles = length memids
  /\ Forall (i32_in_table (p_st p)) roles.
Proof.
  intros H Hr Hm Ht. destruct (scan_relation_loop _ _ _ _ _ H) as (s & Hl & _ & (ms & Hms)).
  pose proof (gloop_col (rel_step p) (fun s => c_roles (rs_wc s)) 8 (rel_step_roles p) _ _ _ Hl) as Cr.
  pose proof (gloop_col (rel_step p) (fun s => c_memids (rs_wc s)) 9 (rel_step_memids p) _ _ _ Hl) as Cm.
  pose proof (gloop_col (rel_step p) (fun s => c_types (rs_wc s)) 10 (rel_step_types p) _ _ _ Hl) as Ct.
  pose proof (gloop_flag (rel_step p) rs_fr 8 (rel_step_fr p) _ _ _ Hl) as Fr.
  pose proof (gloop_flag (rel_step p) rs_fm 9 (rel_step_fm p) _ _ _ Hl) as Fm.
  pose proof (gloop_flag (rel_step p) rs_ft 10 (rel_step_ft p) _ _ _ Hl) as Ft.
  cbn in Cr, Cm, Ct, Fr, Fm, Ft. rewrite Hr in Cr. rewrite Hm in Cm. rewrite Ht in Ct. cbn in Cr, Cm, Ct.
  rewrite (col_has_field 8 m _ Hr) in Fr. rewrite (col_has_field 9 m _ Hm) in Fm.
  rewrite (col_has_field 10 m _ Ht) in Ft.
  unfold members_if_found in Hms. rewrite Fr, Fm, Ft, Cr, Cm, Ct in Hms. cbn in Hms.
  unfold extract_members in Hms. destruct (members_loop_ok _ _ _ _ _ _ _ _ Hms) as (I1 & I2 & I3 & I4).
  rewrite repeat_length in I1. repeat split; [lia|exact I2|exact I4].
Qed.

(* ---------- dense nodes: the columns as functions of the tree ---------- *)
Fixpoint last_msg (n : Z) (m : msg) (acc : option msg) : option msg :=
  match m with
  | [] => acc
  | f :: r => last_msg n r (if fst f =? n then match snd f with WMsg d => Some d | _ => acc end else acc)
  end.
(* the DenseInfo submessage the decoder ends up with: the LAST field 5 *)
Definition dense_info (d : msg) : option msg := last_msg 5 d None.

Lemma gloop_msg {S} (step : S -> Z * wval -> result S) (get : S -> iter) (F : msg -> iter) n :
  (forall s f s', step s f = Ok s' ->
     get s' = if fst f =? n then match snd f with WMsg d => F d | _ => get s end else get s) ->
  forall m s s' acc, gloop step m s = Ok s' ->
    get s = match acc with Some d => F d | None => get s end ->
    get s' = match last_msg n m acc with Some d => F d | None => get s' end.
Proof.
  intros Hst. induction m as [|f r IH]; intros s s' acc H Hacc.
  - simpl in H. injection H as <-. cbn. exact Hacc.
  - simpl in H. rb H. cbn [last_msg]. eapply IH; [exact H|].
    rewrite (Hst _ _ _ Ha). destruct (fst f =? n); [|destruct acc; [exact Hacc|reflexivity]].
    destruct (snd f); try (destruct acc; [exact Hacc|reflexivity]). reflexivity.
Qed.

Definition icol (k : Z) (ic : icols) : iter :=
  if k =? 1 then c_versions ic else if k =? 2 then c_timestamps ic else if k =? 3 then c_changesets ic
  else if k =? 4 then c_uids ic else if k =? 5 then c_usids ic else c_visibles ic.
Definition ifl (k : Z) (fi : ifound) : bool :=
  if k =? 1 then fi_ver fi else if k =? 2 then fi_ts fi else if k =? 3 then fi_cs fi
  else if k =? 4 then fi_uid fi else if k =? 5 then fi_usid fi else fi_vis fi.

Ltac six k Hk :=
  let H := fresh in
  assert (H : k = 1 \/ k = 2 \/ k = 3 \/ k = 4 \/ k = 5 \/ k = 6) by lia;
  destruct H as [->|[->|[->|[->|[->| ->]]]]]; clear Hk.

Lemma dinfo_step_col k : 1 <= k <= 6 -> forall s f s', dinfo_step s f = Ok s' ->
  keep (ifl k (snd s')) (icol k (fst s')) =
  (if fst f =? k then match snd f with WPacked l => Some l | _ => keep (ifl k (snd s)) (icol k (fst s)) end
   else keep (ifl k (snd s)) (icol k (fst s))).
Proof.
  intros Hk s f s' H. unfold dinfo_step in H. six k Hk; unfold icol, ifl; cbn; col_tac H.
Qed.

Lemma dinfo_result k di ic s' : 1 <= k <= 6 ->
  dinfo_loop di (ic, if0) = Ok s' -> icol k (nil_info (snd s') (fst s')) = col k di.
Proof.
  intros Hk H. rewrite dinfo_loop_g in H.
  pose proof (gloop_col dinfo_step (fun s => keep (ifl k (snd s)) (icol k (fst s))) k
                        (dinfo_step_col k Hk) _ _ _ H) as G.
  assert (E0 : keep (ifl k (snd (ic, if0))) (icol k (fst (ic, if0))) = None).
  { six k Hk; reflexivity. }
  cbn beta in G. rewrite E0 in G. assert (E1 : or_else (col k di) None = col k di) by (destruct (col k di); reflexivity).
  rewrite E1 in G. rewrite <- G. six k Hk; reflexivity.
Qed.

Definition dense_col_spec (get : dcols * dfound -> iter) (n : Z) : Prop :=
  forall s f s', dense_step s f = Ok s' ->
    get s' = (if fst f =? n then match snd f with WPacked l => Some l | _ => get s end else get s).
Lemma dense_step_ids : dense_col_spec (fun s => c_ids (fst s)) 1.
Proof. intros s f s' H. unfold dense_step in H. col_tac H. Qed.
Lemma dense_step_lats : dense_col_spec (fun s => c_lats (fst s)) 8.
Proof. intros s f s' H. unfold dense_step in H. col_tac H. Qed.
Lemma dense_step_lons : dense_col_spec (fun s => c_lons (fst s)) 9.
Proof. intros s f s' H. unfold dense_step in H. col_tac H. Qed.
Lemma dense_step_kv : dense_col_spec (fun s => keep (fd_kv (snd s)) (c_keyvals (fst s))) 10.
Proof. intros s f s' H. unfold dense_step in H. col_tac H. Qed.

Definition dense_flag_spec (get : dfound -> bool) (n : Z) : Prop :=
  forall s f s', dense_step s f = Ok s' -> get (snd s') = get (snd s) || (fst f =? n).
Lemma dense_step_fids : dense_flag_spec fd_ids 1.
Proof. intros s f s' H. unfold dense_step in H. col_tac H. Qed.
Lemma dense_step_flats : dense_flag_spec fd_lats 8.
Proof. intros s f s' H. unfold dense_step in H. col_tac H. Qed.
Lemma dense_step_flons : dense_flag_spec fd_lons 9.
Proof. intros s f s' H. unfold dense_step in H. col_tac H. Qed.
Lemma dense_step_finfo : dense_flag_spec fd_info 5.
Proof. intros s f s' H. unfold dense_step in H. col_tac H. Qed.
Lemma dense_step_fkv : dense_flag_spec fd_kv 10.
Proof. intros s f s' H. unfold dense_step in H. col_tac H. Qed.

(* a DenseNodes message with at least one of its five columns: ids (1), DenseInfo (5), lat (8),
   lon (9), keys_vals (10).  One with none is a group without nodes (what encoders write for it:
   empty packed fields are not written) and is accepted as such (fix d133072). *)
Definition dense_nonempty (d : msg) : bool :=
  has_field 1 d || has_field 5 d || has_field 8 d || has_field 9 d || has_field 10 d.

Lemma dense_empty_flags d dc s : gloop dense_step d (dc, df0) = Ok s ->
  dense_empty (snd s) = negb (dense_nonempty d).
Proof.
  intros Hl.
  pose proof (gloop_flag dense_step (fun s => fd_ids (snd s)) 1 dense_step_fids _ _ _ Hl) as G1.
  pose proof (gloop_flag dense_step (fun s => fd_info (snd s)) 5 dense_step_finfo _ _ _ Hl) as G5.
  pose proof (gloop_flag dense_step (fun s => fd_lats (snd s)) 8 dense_step_flats _ _ _ Hl) as G8.
  pose proof (gloop_flag dense_step (fun s => fd_lons (snd s)) 9 dense_step_flons _ _ _ Hl) as G9.
  pose proof (gloop_flag dense_step (fun s => fd_kv (snd s)) 10 dense_step_fkv _ _ _ Hl) as G10.
  cbn in G1, G5, G8, G9, G10. unfold dense_empty, dense_nonempty. rewrite G1, G5, G8, G9, G10.
  destruct (has_field 1 d), (has_field 5 d), (has_field 8 d), (has_field 9 d), (has_field 10 d); reflexivity.
Qed.

(* a DenseInfo column after the field loop and the fix-up: column k of the last field 5 *)
Definition getI (k : Z) (s : dcols * dfound) : iter :=
  if fd_info (snd s) then icol k (c_info (fst s)) else None.

Lemma dense_step_info k : 1 <= k <= 6 -> forall s f s', dense_step s f = Ok s' ->
  getI k s' = if fst f =? 5 then match snd f with WMsg di => col k di | _ => getI k s end else getI k s.
Proof.
  intros Hk s f s' H. unfold dense_step in H. unfold getI.
  split_ifs H; know_fields; cbn;
    repeat (let a := fresh "a" in rb H); try (injection H as <-); cbn; try reflexivity.
  apply as_msg_ok in Ha. rewrite Ha. eapply dinfo_result; eassumption.
Qed.

(* ---------- extractDenseNodes ---------- *)
(* a column that was read once: non-nil columns lose their head, nil columns stay nil *)
Definition shrinks (c c' : iter) : Prop :=
  match c with None => c' = None | Some l => exists v r, l = v :: r /\ c' = Some r end.

Lemma col_next_ok c o c' : col_next c = Ok (o, c') ->
  shrinks c c' /\ (o = match c with Some (v :: _) => Some v | _ => None end).
Proof.
  destruct c as [[|v r]|]; cbn; intros H; try discriminate; injection H as <- <-.
  - split; [exists v, r; auto|reflexivity].
  - split; reflexivity.
Qed.

Lemma it_next_ok l v r : it_next l = Ok (v, r) -> l = v :: r.
Proof. destruct l; cbn; intros H; [discriminate|]. injection H as <- <-. reflexivity. Qed.

Ltac rbn H a Ha := apply rbind_ok in H; destruct H as (a & Ha & H).

(* the eight parallel columns of a DenseNodes message other than ids and keys_vals *)
Definition dget (k : Z) (dc : dcols) : iter :=
  if k =? 8 then c_lats dc else if k =? 9 then c_lons dc else icol k (c_info dc).
Definition par_col (k : Z) : Prop := 1 <= k <= 6 \/ k = 8 \/ k = 9.

(* one key or value position of keys_vals: the delimiter 0, or an index into the table *)
Definition kv_ok (st : list bytes) (e : Z) : Prop := int32 e = 0 \/ in_table st (int32 e).

Lemma kv_loop_ok st : forall kv tags kv' t, kv_loop st kv tags = Ok (kv', t) ->
  exists used, kv = used ++ kv' /\ Forall (kv_ok st) used /\ Exists (fun e => int32 e = 0) used.
Proof.
  intros kv. remember (length kv) as n eqn:Hn. revert kv Hn.
  induction n as [n IH] using lt_wf_ind. intros kv Hn tags kv' t H.
  destruct kv as [|k r]; [discriminate|]. cbn [kv_loop] in H.
  destruct (int32 k =? 0) eqn:E.
  - injection H as <- <-. apply Z.eqb_eq in E. exists [k]. repeat split.
    + constructor; [left; exact E|constructor].
    + constructor. exact E.
  - destruct r as [|v r']; [discriminate|]. rbn H ks Hk. rbn H vs Hv.
    apply idx_ok in Hk, Hv.
    destruct (IH (length r') ltac:(subst n; cbn; lia) r' eq_refl _ _ _ H) as (used & -> & Hf & He).
    exists (k :: v :: used). repeat split.
    + constructor; [right; exact Hk|]. constructor; [right; exact Hv|exact Hf].
    + constructor 2. constructor 2. exact He.
Qed.

Lemma extract_pre_inv p v1 x n' x' : extract_pre p v1 x = Ok (n', x') ->
  (forall k, par_col k -> shrinks (dget k (x_dc x)) (dget k (x_dc x'))) /\
  (match c_usids (c_info (x_dc x)) with
   | Some (v :: _) => a_usid x' = wrap32 (a_usid x + sint32 v) /\ in_table (p_st p) (a_usid x')
   | _ => True
   end) /\
  (match c_keyvals (x_dc x) with
   | Some kv => exists kv' t, kv_loop (p_st p) kv (n_tags (x_n x)) = Ok (kv', t)
                              /\ c_keyvals (x_dc x') = Some kv'
   | None => c_keyvals (x_dc x') = None
   end).
Proof.
  intros H. unfold extract_pre in H.
  rbn H r1 H1. destruct r1 as [ov cver]. rbn H r2 H2. destruct r2 as [ot cts].
  rbn H r3 H3. destruct r3 as [oc ccs]. rbn H r4 H4. destruct r4 as [ou cuid].
  rbn H r5 H5. destruct r5 as [os cusid]. rbn H user Hu. rbn H r6 H6. destruct r6 as [ob cvis].
  destruct (c_lats (x_dc x)) as [lats|] eqn:El; [|discriminate].
  destruct (c_lons (x_dc x)) as [lons|] eqn:Eo; [|discriminate].
  rbn H r7 H7. destruct r7 as [v8 lats']. rbn H r8 H8. destruct r8 as [v9 lons'].
  rbn H r9 H9. destruct r9 as [ckv tags]. injection H as <- <-. cbn [x_dc a_usid].
  apply col_next_ok in H1 as [S1 _], H2 as [S2 _], H3 as [S3 _], H4 as [S4 _], H6 as [S6 _].
  apply col_next_ok in H5 as [S5 O5]. apply it_next_ok in H7, H8.
  split; [|split].
  - intros k [Hk|[->| ->]]; unfold dget; cbn.
    + six k Hk; unfold icol; cbn; assumption.
    + rewrite El. exists v8, lats'. auto.
    + rewrite Eo. exists v9, lons'. auto.
  - destruct (c_usids (c_info (x_dc x))) as [[|v6 r6]|]; try exact I.
    subst os. apply idx_ok in Hu. split; [reflexivity|exact Hu].
  - destruct (c_keyvals (x_dc x)) as [kv|].
    + rbn H9 r10 H10. destruct r10 as [kv' t]. injection H9 as <- _. exists kv', t. auto.
    + injection H9 as <- _. reflexivity.
Qed.

Lemma extract_post_dc c n' x : x_dc (extract_post c n' x) = x_dc x /\ a_usid (extract_post c n' x) = a_usid x.
Proof. unfold extract_post. destruct (f_node c n'); split; reflexivity. Qed.

(* every parallel column has at least as many entries as ids *)
Lemma extract_loop_cols c p k : par_col k -> forall ids x x' l,
  extract_loop c p ids x = Ok x' -> dget k (x_dc x) = Some l -> (length ids <= length l)%nat.
Proof.
  intros Hk. induction ids as [|v1 r IH]; intros x x' l H Hl; [cbn; lia|].
  cbn [extract_loop] in H. rbn H x1 H1. unfold extract_body in H1. rbn H1 r1 Hp.
  destruct r1 as [n' x0]. injection H1 as <-.
  destruct (extract_pre_inv _ _ _ _ _ Hp) as (Hs & _ & _). specialize (Hs k Hk).
  rewrite Hl in Hs. destruct Hs as (v & l' & -> & Hs).
  destruct (extract_post_dc c n' x0) as [Ed _].
  assert (Hl' : dget k (x_dc (extract_post c n' x0)) = Some l') by (rewrite Ed; exact Hs).
  specialize (IH _ _ _ H Hl'). cbn [length]. lia.
Qed.

(* the accumulated user_sid values (delta coded, int32) *)
Fixpoint usid_acc (acc : Z) (l : list Z) : list Z :=
  match l with
  | [] => []
  | v :: r => let a := wrap32 (acc + sint32 v) in a :: usid_acc a r
  end.

Lemma extract_loop_usid c p : forall ids x x' us,
  extract_loop c p ids x = Ok x' -> c_usids (c_info (x_dc x)) = Some us ->
  Forall (in_table (p_st p)) (firstn (length ids) (usid_acc (a_usid x) us)).
Proof.
  induction ids as [|v1 r IH]; intros x x' us H Hu; [constructor|].
  cbn [extract_loop] in H. rbn H x1 H1. unfold extract_body in H1. rbn H1 r1 Hp.
  destruct r1 as [n' x0]. injection H1 as <-.
  destruct (extract_pre_inv _ _ _ _ _ Hp) as (Hs & Hus & _).
  specialize (Hs 5 ltac:(left; lia)). unfold dget, icol in Hs. cbn in Hs.
  rewrite Hu in Hs, Hus. destruct Hs as (v & us' & -> & Hs). destruct Hus as [Ea Ht].
  destruct (extract_post_dc c n' x0) as [Ed Eu].
  assert (Hu' : c_usids (c_info (x_dc (extract_post c n' x0))) = Some us') by (rewrite Ed; exact Hs).
  specialize (IH _ _ _ H Hu'). rewrite Eu, Ea in IH.
  cbn [length firstn usid_acc]. constructor; [rewrite <- Ea; exact Ht|exact IH].
Qed.

(* keys_vals: everything before the N-th zero entry is consumed for the first N nodes *)
Fixpoint before_zeros (n : nat) (kv : list Z) : list Z :=
  match n, kv with
  | O, _ => []
  | _, [] => []
  | S n', e :: r => if int32 e =? 0 then e :: before_zeros n' r else e :: before_zeros n r
  end.

Lemma before_zeros_S P : forall l n, Forall P (before_zeros (S n) l) -> Forall P (before_zeros n l).
Proof.
  induction l as [|e r IH]; intros n H; [destruct n; constructor|].
  destruct n as [|n]; [constructor|]. cbn [before_zeros] in *.
  destruct (int32 e =? 0); inversion H; subst; constructor; auto.
Qed.

Lemma before_zeros_app P : forall u n kv, Forall P u -> Forall P (before_zeros n kv) ->
  Forall P (before_zeros n (u ++ kv)).
Proof.
  induction u as [|e u IH]; intros n kv Hu Hk; [exact Hk|].
  inversion Hu; subst. destruct n as [|n]; [constructor|]. cbn [app before_zeros].
  destruct (int32 e =? 0); constructor; auto.
  apply IH; [assumption|]. apply before_zeros_S. exact Hk.
Qed.

Lemma before_zeros_used P : forall u n kv, Forall P u -> Exists (fun e => int32 e = 0) u ->
  Forall P (before_zeros n kv) -> Forall P (before_zeros (S n) (u ++ kv)).
Proof.
  induction u as [|e u IH]; intros n kv Hu He Hk; [inversion He|].
  inversion Hu; subst. cbn [app before_zeros]. destruct (int32 e =? 0) eqn:E.
  - constructor; [assumption|]. apply before_zeros_app; assumption.
  - constructor; [assumption|]. apply IH; try assumption.
    inversion He; subst; [apply Z.eqb_neq in E; contradiction|assumption].
Qed.

Lemma extract_loop_kv c p : forall ids x x' kv,
  extract_loop c p ids x = Ok x' -> c_keyvals (x_dc x) = Some kv ->
  Forall (kv_ok (p_st p)) (before_zeros (length ids) kv).
Proof.
  induction ids as [|v1 r IH]; intros x x' kv H Hk; [destruct kv; constructor|].
  cbn [extract_loop] in H. rbn H x1 H1. unfold extract_body in H1. rbn H1 r1 Hp.
  destruct r1 as [n' x0]. injection H1 as <-.
  destruct (extract_pre_inv _ _ _ _ _ Hp) as (_ & _ & Hkv). rewrite Hk in Hkv.
  destruct Hkv as (kv' & t & Hl & Hk').
  destruct (kv_loop_ok _ _ _ _ _ Hl) as (used & -> & Hf & He).
  destruct (extract_post_dc c n' x0) as [Ed _].
  assert (Hk2 : c_keyvals (x_dc (extract_post c n' x0)) = Some kv') by (rewrite Ed; exact Hk').
  specialize (IH _ _ _ H Hk2). cbn [length]. apply before_zeros_used; assumption.
Qed.

(* keys_vals: one delimiter (zero entry) at least is consumed per node, so a column with fewer zero
   entries than ids runs out: "the column ends at a node boundary before every id is covered" *)
Definition zeros (kv : list Z) : nat := length (filter (fun e => int32 e =? 0) kv).

Lemma zeros_app a b : zeros (a ++ b) = (zeros a + zeros b)%nat.
Proof. unfold zeros. rewrite filter_app, app_length. reflexivity. Qed.

Lemma zeros_exists u : Exists (fun e => int32 e = 0) u -> (1 <= zeros u)%nat.
Proof.
  induction 1 as [e u He|e u _ IH]; unfold zeros in *; cbn [filter].
  - rewrite He. cbn. lia.
  - destruct (int32 e =? 0); cbn [length]; lia.
Qed.

Lemma extract_loop_kv_zeros c p : forall ids x x' kv,
  extract_loop c p ids x = Ok x' -> c_keyvals (x_dc x) = Some kv -> (length ids <= zeros kv)%nat.
Proof.
  induction ids as [|v1 r IH]; intros x x' kv H Hk; [cbn; lia|].
  cbn [extract_loop] in H. rbn H x1 H1. unfold extract_body in H1. rbn H1 r1 Hp.
  destruct r1 as [n' x0]. injection H1 as <-.
  destruct (extract_pre_inv _ _ _ _ _ Hp) as (_ & _ & Hkv). rewrite Hk in Hkv.
  destruct Hkv as (kv' & t & Hl & Hk').
  destruct (kv_loop_ok _ _ _ _ _ Hl) as (used & -> & Hf & He).
  destruct (extract_post_dc c n' x0) as [Ed _].
  assert (Hk2 : c_keyvals (x_dc (extract_post c n' x0)) = Some kv') by (rewrite Ed; exact Hk').
  specialize (IH _ _ _ H Hk2). rewrite zeros_app. pose proof (zeros_exists used He). cbn [length]. lia.
Qed.

(* ---------- scanDenseNodes as a whole ---------- *)
Lemma icol_ic0 k : icol k ic0 = None.
Proof. unfold icol. repeat destruct (_ =? _); reflexivity. Qed.

Lemma scan_dense_inv c p dc d q x : scan_dense c p dc d q = Ok x -> dense_nonempty d = true ->
  exists s ids xf,
    gloop dense_step d (dc, df0) = Ok s /\
    fd_ids (snd s) = true /\ fd_lats (snd s) = true /\ fd_lons (snd s) = true /\
    c_ids (fst s) = Some ids /\
    exists dc1, extract_loop c p ids (mkX dc1 0 0 0 0 0 0 0 node0 q) = Ok xf /\
      c_lats dc1 = c_lats (fst s) /\ c_lons dc1 = c_lons (fst s) /\
      (forall k, icol k (c_info dc1) = getI k s) /\
      c_keyvals dc1 = keep (fd_kv (snd s)) (c_keyvals (fst s)).
Proof.
  unfold scan_dense. intros H Hne. rbn H s Hl. rewrite dense_loop_g in Hl.
  rewrite (dense_empty_flags _ _ _ Hl), Hne in H. cbn [negb] in H. rbn H dc1 Hf.
  unfold dense_fixup in Hf.
  destruct (fd_ids (snd s)) eqn:F1; [|discriminate]. destruct (fd_lats (snd s)) eqn:F2; [|discriminate].
  destruct (fd_lons (snd s)) eqn:F3; [|discriminate]. cbn in Hf. injection Hf as <-.
  unfold extract_dense in H. cbn [c_ids] in H.
  destruct (c_ids (fst s)) as [ids|] eqn:Ei; [|discriminate]. rbn H xf Hx.
  exists s, ids, xf. repeat split; try assumption.
  eexists. split; [exact Hx|]. cbn. repeat split.
  intros k. unfold getI. destruct (fd_info (snd s)); [reflexivity|apply icol_ic0].
Qed.

Theorem dense_mandatory_ok c p dc d q x : scan_dense c p dc d q = Ok x -> dense_nonempty d = true ->
  has_field 1 d = true /\ has_field 8 d = true /\ has_field 9 d = true.
Proof.
  intros H Hne. destruct (scan_dense_inv _ _ _ _ _ _ H Hne) as (s & ids & xf & Hl & F1 & F2 & F3 & _).
  pose proof (gloop_flag dense_step (fun s => fd_ids (snd s)) 1 dense_step_fids _ _ _ Hl) as G1.
  pose proof (gloop_flag dense_step (fun s => fd_lats (snd s)) 8 dense_step_flats _ _ _ Hl) as G2.
  pose proof (gloop_flag dense_step (fun s => fd_lons (snd s)) 9 dense_step_flons _ _ _ Hl) as G3.
  cbn in G1, G2, G3. rewrite F1 in G1. rewrite F2 in G2. rewrite F3 in G3. auto.
Qed.

(* the parallel column k of a DenseNodes tree: lat (8), lon (9), or DenseInfo column 1..6 *)
Definition dense_par_col (k : Z) (d : msg) : iter :=
  if k =? 8 then col 8 d else if k =? 9 then col 9 d
  else match dense_info d with Some di => col k di | None => None end.

Lemma scan_dense_cols c p dc d q x ids :
  scan_dense c p dc d q = Ok x -> col 1 d = Some ids ->
  exists dc1 xf, extract_loop c p ids (mkX dc1 0 0 0 0 0 0 0 node0 q) = Ok xf /\
    (forall k l, par_col k -> dense_par_col k d = Some l -> dget k dc1 = Some l) /\
    (forall kv, col 10 d = Some kv -> c_keyvals dc1 = Some kv).
Proof.
  intros H Hi.
  assert (Hne : dense_nonempty d = true) by (unfold dense_nonempty; rewrite (col_has_field 1 d ids Hi); reflexivity).
  destruct (scan_dense_inv _ _ _ _ _ _ H Hne)
    as (s & ids' & xf & Hl & _ & _ & _ & Ei & dc1 & Hx & E8 & E9 & EI & Ekv).
  pose proof (gloop_col dense_step _ 1 dense_step_ids _ _ _ Hl) as G1.
  pose proof (gloop_col dense_step _ 8 dense_step_lats _ _ _ Hl) as G8.
  pose proof (gloop_col dense_step _ 9 dense_step_lons _ _ _ Hl) as G9.
  pose proof (gloop_col dense_step _ 10 dense_step_kv _ _ _ Hl) as G10.
  cbn beta in G1, G8, G9, G10. rewrite Hi in G1. cbn in G1. rewrite G1 in Ei. injection Ei as <-.
  exists dc1, xf. split; [exact Hx|]. split.
  - intros k l [Hk|[->| ->]] Hc; unfold dense_par_col, dget in *; cbn in *.
    + assert (E : (k =? 8) = false) by (apply Z.eqb_neq; lia).
      assert (E' : (k =? 9) = false) by (apply Z.eqb_neq; lia). rewrite E, E' in *.
      destruct (dense_info d) as [di|] eqn:Edi; [|discriminate].
      rewrite EI.
      pose proof (gloop_msg dense_step (getI k) (col k) 5 (dense_step_info k Hk) _ _ _ None Hl eq_refl) as GI.
      unfold dense_info in Edi. rewrite Edi in GI. rewrite GI. exact Hc.
    + rewrite E8, G8, Hc. reflexivity.
    + rewrite E9, G9, Hc. reflexivity.
  - intros kv Hk. rewrite Ekv, G10, Hk. reflexivity.
Qed.

Theorem dense_columns_ok c p dc d q x ids k l :
  scan_dense c p dc d q = Ok x -> col 1 d = Some ids -> par_col k -> dense_par_col k d = Some l ->
  (length ids <= length l)%nat.
Proof.
  intros H Hi Hk Hc. destruct (scan_dense_cols _ _ _ _ _ _ _ H Hi) as (dc1 & xf & Hx & Hcols & _).
  eapply (extract_loop_cols c p k Hk); [exact Hx|]. cbn [x_dc]. apply Hcols; assumption.
Qed.

Theorem dense_usid_ok c p dc d q x ids us :
  scan_dense c p dc d q = Ok x -> col 1 d = Some ids -> dense_par_col 5 d = Some us ->
  Forall (in_table (p_st p)) (firstn (length ids) (usid_acc 0 us)).
Proof.
  intros H Hi Hc. destruct (scan_dense_cols _ _ _ _ _ _ _ H Hi) as (dc1 & xf & Hx & Hcols & _).
  apply (extract_loop_usid c p _ _ _ us Hx). cbn [x_dc].
  exact (Hcols 5 us ltac:(left; lia) Hc).
Qed.

Theorem dense_keyvals_ok c p dc d q x ids kv :
  scan_dense c p dc d q = Ok x -> col 1 d = Some ids -> col 10 d = Some kv ->
  Forall (kv_ok (p_st p)) (before_zeros (length ids) kv).
Proof.
  intros H Hi Hc. destruct (scan_dense_cols _ _ _ _ _ _ _ H Hi) as (dc1 & xf & Hx & _ & Hkv).
  apply (extract_loop_kv c p _ _ _ kv Hx). cbn [x_dc]. apply Hkv. exact Hc.
Qed.

Theorem dense_keyvals_delims_ok c p dc d q x ids kv :
  scan_dense c p dc d q = Ok x -> col 1 d = Some ids -> col 10 d = Some kv ->
  (length ids <= zeros kv)%nat.
Proof.
  intros H Hi Hc. destruct (scan_dense_cols _ _ _ _ _ _ _ H Hi) as (dc1 & xf & Hx & _ & Hkv).
  apply (extract_loop_kv_zeros c p _ _ _ kv Hx). cbn [x_dc]. apply Hkv. exact Hc.
Qed.

(* ---------- the string table of a block ---------- *)
Definition table_from (t : list bytes) (m : msg) : list bytes :=
  fold_left (fun t f => if fst f =? 1 then match snd f with WMsg d => strings_of d | _ => t end else t) m t.
(* the table the block decoder uses: the strings of the LAST field 1 (none: empty table) *)
Definition table_of (m : msg) : list bytes := table_from [] m.

Lemma pass1_table : forall m p p', pass1 m p = Ok p' -> p_st p' = table_from (p_st p) m.
Proof.
  induction m as [|f r IH]; intros p p' H.
  - simpl in H. injection H as <-. reflexivity.
  - simpl in H. rbn H p1 H1. rewrite (IH _ _ H). cbn [table_from fold_left]. f_equal.
    unfold pass1_step in H1. split_ifs H1; know_fields; cbn;
      repeat (let a := fresh "a" in rb H1); try (injection H1 as <-); cbn; try reflexivity.
    apply as_msg_ok in Ha. rewrite Ha. reflexivity.
Qed.

Lemma pass1_table_of m p : pass1 m p0 = Ok p -> p_st p = table_of m.
Proof. intros H. apply (pass1_table m p0 p H). Qed.

(* ---------- the enumerated in-block damage classes, as predicates on the block's tree ---------- *)
Lemma in_firstn_nth {A} : forall (l : list A) n j a,
  nth_error l j = Some a -> (j < n)%nat -> In a (firstn n l).
Proof.
  induction l as [|x r IH]; intros n j a H Hj; [destruct j; discriminate|].
  destruct n as [|n]; [lia|]. destruct j as [|j]; cbn in *.
  - injection H as <-. left. reflexivity.
  - right. eapply IH; [exact H|lia].
Qed.

Inductive in_block_damage (c : cfg) (m : msg) : Prop :=
  (* a group of plain (non-dense) Node messages *)
  | IB_plain_node g v :
      In (2, WMsg g) m -> In (1, v) g -> in_block_damage c m
  (* DenseNodes with some column but without ids (1), lat (8) or lon (9) *)
  | IB_dense_missing g d n :
      In (2, WMsg g) m -> In (2, WMsg d) g -> skip_nodes c = false ->
      n = 1 \/ n = 8 \/ n = 9 -> has_field n d = false -> dense_nonempty d = true -> in_block_damage c m
  (* a dense column (lat, lon, or one of the six DenseInfo columns) shorter than ids *)
  | IB_dense_short g d ids k l :
      In (2, WMsg g) m -> In (2, WMsg d) g -> skip_nodes c = false ->
      col 1 d = Some ids -> par_col k -> dense_par_col k d = Some l -> (length l < length ids)%nat ->
      in_block_damage c m
  (* dense user_sid (delta coded) of node j outside the string table *)
  | IB_dense_user_sid g d ids us j a :
      In (2, WMsg g) m -> In (2, WMsg d) g -> skip_nodes c = false ->
      col 1 d = Some ids -> dense_par_col 5 d = Some us -> (j < length ids)%nat ->
      nth_error (usid_acc 0 us) j = Some a -> ~ in_table (table_of m) a -> in_block_damage c m
  (* dense keys_vals: a key or value index outside the table among the entries of the nodes *)
  | IB_dense_keyvals g d ids kv e :
      In (2, WMsg g) m -> In (2, WMsg d) g -> skip_nodes c = false ->
      col 1 d = Some ids -> col 10 d = Some kv -> In e (before_zeros (length ids) kv) ->
      ~ kv_ok (table_of m) e -> in_block_damage c m
  (* way: tag key/value index, vals shorter than keys, info.user_sid, refs/lat/lon lengths *)
  | IB_way_tag g w ks vs x :
      In (2, WMsg g) m -> In (3, WMsg w) g -> skip_ways c = false ->
      col 2 w = Some ks -> col 3 w = Some vs -> In x ks \/ In x (firstn (length ks) vs) ->
      ~ u32_in_table (table_of m) x -> in_block_damage c m
  | IB_way_vals_short g w ks vs :
      In (2, WMsg g) m -> In (3, WMsg w) g -> skip_ways c = false ->
      col 2 w = Some ks -> col 3 w = Some vs -> (length vs < length ks)%nat -> in_block_damage c m
  | IB_way_user_sid g w di x :
      In (2, WMsg g) m -> In (3, WMsg w) g -> skip_ways c = false ->
      In (4, WMsg di) w -> In (5, WVar x) di -> ~ u32_in_table (table_of m) x -> in_block_damage c m
  | IB_way_columns g w a la b lb :
      In (2, WMsg g) m -> In (3, WMsg w) g -> skip_ways c = false ->
      In (a, WPacked la) w -> In (b, WPacked lb) w -> is_node_col a -> is_node_col b ->
      la <> [] -> lb <> [] -> length la <> length lb -> in_block_damage c m
  (* relation: the same, plus roles_sid indices and roles/memids/types lengths *)
  | IB_rel_tag g r ks vs x :
      In (2, WMsg g) m -> In (4, WMsg r) g -> skip_rels c = false ->
      col 2 r = Some ks -> col 3 r = Some vs -> In x ks \/ In x (firstn (length ks) vs) ->
      ~ u32_in_table (table_of m) x -> in_block_damage c m
  | IB_rel_vals_short g r ks vs :
      In (2, WMsg g) m -> In (4, WMsg r) g -> skip_rels c = false ->
      col 2 r = Some ks -> col 3 r = Some vs -> (length vs < length ks)%nat -> in_block_damage c m
  | IB_rel_user_sid g r di x :
      In (2, WMsg g) m -> In (4, WMsg r) g -> skip_rels c = false ->
      In (4, WMsg di) r -> In (5, WVar x) di -> ~ u32_in_table (table_of m) x -> in_block_damage c m
  | IB_rel_role g r roles memids types x :
      In (2, WMsg g) m -> In (4, WMsg r) g -> skip_rels c = false ->
      col 8 r = Some roles -> col 9 r = Some memids -> col 10 r = Some types ->
      In x roles -> ~ i32_in_table (table_of m) x -> in_block_damage c m
  | IB_rel_columns g r roles memids types :
      In (2, WMsg g) m -> In (4, WMsg r) g -> skip_rels c = false ->
      col 8 r = Some roles -> col 9 r = Some memids -> col 10 r = Some types ->
      length roles <> length types \/ length memids <> length roles -> in_block_damage c m
  (* dense keys_vals with fewer delimiters (zero entries) than ids: the column ends, at a node
     boundary or inside a node, before every node is covered *)
  | IB_dense_keyvals_short g d ids kv :
      In (2, WMsg g) m -> In (2, WMsg d) g -> skip_nodes c = false ->
      col 1 d = Some ids -> col 10 d = Some kv -> (zeros kv < length ids)%nat -> in_block_damage c m.

(* every class makes the block decoder return an error, from every incoming decoder state *)
Theorem in_block_damage_is_err c m : in_block_damage c m ->
  forall st, exists e, scan_result c st m = Err e.
Proof.
  intros D st. destruct D.
  - eapply plain_node_group_is_err; eassumption.
  - eapply bad_dense_is_err; try eassumption. intros p dc q x Hp Hs.
    destruct (dense_mandatory_ok _ _ _ _ _ _ Hs H4) as (M1 & M8 & M9).
    destruct H2 as [->|[->| ->]]; congruence.
  - eapply bad_dense_is_err; try eassumption. intros p dc q x Hp Hs.
    pose proof (dense_columns_ok _ _ _ _ _ _ _ _ _ Hs H2 H3 H4). lia.
  - eapply bad_dense_is_err; try eassumption. intros p dc q x Hp Hs.
    pose proof (dense_usid_ok _ _ _ _ _ _ _ _ Hs H2 H3) as F. rewrite (pass1_table_of _ _ Hp) in F.
    rewrite Forall_forall in F. apply H6, F. eapply in_firstn_nth; eassumption.
  - eapply bad_dense_is_err; try eassumption. intros p dc q x Hp Hs.
    pose proof (dense_keyvals_ok _ _ _ _ _ _ _ _ Hs H2 H3) as F. rewrite (pass1_table_of _ _ Hp) in F.
    rewrite Forall_forall in F. apply H5, F. assumption.
  - eapply bad_way_is_err; try eassumption. intros p wc w0 r Hp _ Hs.
    destruct (way_tags_ok _ _ _ _ _ _ _ Hs H2 H3) as (_ & F1 & F2).
    rewrite (pass1_table_of _ _ Hp) in F1, F2. rewrite Forall_forall in F1, F2.
    destruct H4 as [Hx|Hx]; [apply H5, F1|apply H5, F2]; assumption.
  - eapply bad_way_is_err; try eassumption. intros p wc w0 r Hp _ Hs.
    destruct (way_tags_ok _ _ _ _ _ _ _ Hs H2 H3) as (L & _). lia.
  - eapply bad_way_is_err; try eassumption. intros p wc w0 r Hp _ Hs.
    pose proof (way_info_user_ok _ _ _ _ _ _ _ Hs H2 H3) as F. rewrite (pass1_table_of _ _ Hp) in F.
    contradiction.
  - eapply bad_way_is_err; try eassumption. intros p wc w0 r Hp Hn Hs.
    pose proof (way_columns_ok _ _ _ _ _ _ _ _ _ Hs Hn H2 H3 H4 H5 H6 H7). contradiction.
  - eapply bad_relation_is_err; try eassumption. intros p wc r0 y Hp Hs.
    destruct (relation_tags_ok _ _ _ _ _ _ _ Hs H2 H3) as (_ & F1 & F2).
    rewrite (pass1_table_of _ _ Hp) in F1, F2. rewrite Forall_forall in F1, F2.
    destruct H4 as [Hx|Hx]; [apply H5, F1|apply H5, F2]; assumption.
  - eapply bad_relation_is_err; try eassumption. intros p wc r0 y Hp Hs.
    destruct (relation_tags_ok _ _ _ _ _ _ _ Hs H2 H3) as (L & _). lia.
  - eapply bad_relation_is_err; try eassumption. intros p wc r0 y Hp Hs.
    pose proof (relation_info_user_ok _ _ _ _ _ _ _ Hs H2 H3) as F. rewrite (pass1_table_of _ _ Hp) in F.
    contradiction.
  - eapply bad_relation_is_err; try eassumption. intros p wc r0 y Hp Hs.
    destruct (relation_members_ok _ _ _ _ _ _ _ _ Hs H2 H3 H4) as (_ & _ & F).
    rewrite (pass1_table_of _ _ Hp) in F. rewrite Forall_forall in F. apply H6, F. assumption.
  - eapply bad_relation_is_err; try eassumption. intros p wc r0 y Hp Hs.
    destruct (relation_members_ok _ _ _ _ _ _ _ _ Hs H2 H3 H4) as (L1 & L2 & _).
    destruct H5; [contradiction|lia].
  - eapply bad_dense_is_err; try eassumption. intros p dc q x Hp Hs.
    pose proof (dense_keyvals_delims_ok _ _ _ _ _ _ _ _ Hs H2 H3). lia.
Qed.

(* a block without any stringtable field has the empty table, whatever the decoder decoded before:
   every string reference in it is out of range *)
Lemma table_from_no_field : forall m t, has_field 1 m = false -> table_from t m = t.
Proof.
  unfold table_from. induction m as [|f r IH]; intros t H; [reflexivity|].
  cbn [has_field existsb] in H. apply orb_false_iff in H as [H1 H2].
  cbn [fold_left]. rewrite H1. apply IH. exact H2.
Qed.

Lemma table_of_no_field m : has_field 1 m = false -> table_of m = [].
Proof. intros H. apply (table_from_no_field m [] H). Qed.

(* hence: a way with at least one tag in a block without stringtable is damage, whatever table the
   decoder holds from the block it decoded before *)
Theorem stringtable_removed_way_is_err c m g w k ks vs :
  has_field 1 m = false ->
  In (2, WMsg g) m -> In (3, WMsg w) g -> skip_ways c = false ->
  col 2 w = Some (k :: ks) -> col 3 w = Some vs ->
  forall st, exists e, scan_result c st m = Err e.
Proof.
  intros Hno Hg Hw Hs Hk Hv. apply in_block_damage_is_err.
  eapply (IB_way_tag c m g w (k :: ks) vs k); try eassumption; [left; left; reflexivity|].
  rewrite (table_of_no_field m Hno). unfold u32_in_table, in_table. cbn. lia.
Qed.
