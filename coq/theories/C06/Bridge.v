(* C06/Bridge.v — the link between layer L2 (Framing: a block's in-block outcome is an oracle value
   [dres]) and layer L1 (theories/Pbf: [scan_result] is the model of dataDecoder.Decode's
   scanPrimitiveBlock on the block's message tree).  With L1's theorems the oracle is discharged:
   whatever message tree a block carries and whatever state the worker's decoder is in, the outcome
   is never a panic, and it does not depend on the decoder state (so the "objects of a block" that
   C06 and C09 speak of are a function of the block alone). *)
From Coq Require Import ZArith List Bool.
From Verif Require Import Framing.Model Framing.Valid Framing.Bytes C06.Spec C06.Proofs C06.ProofsDamage C06.InBlock.
From Verif Require Pbf.Tree Pbf.Model Pbf.ProofsNoPanic Pbf.ProofsIndep.
Import ListNotations.

Module L1T := Verif.Pbf.Tree.
Module L1 := Verif.Pbf.Model.

Definition dres_of {A} (r : L1T.result (list A)) : dres A :=
  match r with
  | L1T.Ok q => DOk q
  | L1T.Err _ => DErr
  | L1T.Panic => DPanic
  end.

(* what a worker whose decoder is in state [st] makes of a block whose payload is the tree [m] *)
Definition decode_tree (c : L1.cfg) (st : L1.dstate) (m : L1T.msg) : dres L1.obj :=
  dres_of (L1.scan_result c st m).

Lemma decode_tree_state_independent : forall c st1 st2 m,
  decode_tree c st1 m = decode_tree c st2 m.
Proof.
  intros c st1 st2 m. unfold decode_tree.
  rewrite (Verif.Pbf.ProofsIndep.scan_result_state_independent c st1 st2 m). reflexivity.
Qed.

Lemma decode_tree_never_panics : forall c st m, decode_tree c st m <> DPanic.
Proof.
  intros c st m. unfold decode_tree, dres_of.
  pose proof (Verif.Pbf.ProofsNoPanic.scan_result_never_panics c st m) as H.
  destruct (L1.scan_result c st m); [discriminate|discriminate|congruence].
Qed.

(* a frame whose data payload, if any, is the decoding of SOME message tree in SOME worker state *)
Definition from_tree (c : L1.cfg) (f : frame L1.obj) : Prop :=
  match f_blob f with
  | BlobOk b => match b_pay b with
                | PData d => exists st m, d = decode_tree c st m
                | PHeader _ => True
                end
  | BlobBad => True
  end.

Lemma from_tree_no_dpanic : forall c f, from_tree c f -> no_dpanic f = true.
Proof.
  intros c f H. unfold from_tree in H. unfold no_dpanic.
  destruct (f_blob f) as [|b]; [reflexivity|].
  destruct (b_pay b) as [h|d]; [reflexivity|].
  destruct H as (st & m & ->).
  pose proof (decode_tree_never_panics c st m) as Hn.
  destruct (decode_tree c st m); [reflexivity|reflexivity|congruence].
Qed.

(* crash freedom without an oracle hypothesis: every frame list (any framing damage, any garbage)
   whose data payloads are message trees (any in-block damage), every amount of input *)
Theorem never_crashes_on_trees : forall c (fs : list (frame L1.obj)) avail,
  Forall (from_tree c) fs -> out (scan current fs avail) <> Crashed.
Proof.
  intros c fs avail H. apply scan_never_crashes.
  induction H as [|f r Hf _ IH]; [reflexivity|].
  cbn [forallb]. rewrite (from_tree_no_dpanic c f Hf), IH. reflexivity.
Qed.

(* ---- in-block damage: the oracle value DErr is derived from the block's tree (C06/InBlock.v) ---- *)
Lemma decode_tree_damaged : forall c st m, in_block_damage c m -> decode_tree c st m = DErr.
Proof.
  intros c st m D. unfold decode_tree. destruct (in_block_damage_is_err c m D st) as (e & ->).
  reflexivity.
Qed.

(* C06, second sentence, for the in-block classes, with nothing assumed about the block decoder:
   [good] intact frames; [bad] a completely available, correctly framed OSMData frame whose payload
   is a message tree [m] with one of the enumerated in-block damages, decoded by a worker in any
   state [st]; [rest] anything *)
Theorem in_block_damage_detected :
  forall c (good : list (frame L1.obj)) bad rest avail b st m,
  valid_file good = true ->
  block_read bad (avail - total_size good) = Some (TyData, b) ->
  enc_ok (b_enc b) = true -> b_pay b = PData (decode_tree c st m) ->
  in_block_damage c m ->
  scan current (good ++ bad :: rest) avail = Result (spec_deliveries good) Failed.
Proof.
  intros c good bad rest avail b st m Hv Hr He Hp D.
  apply damage_detected; [exact Hv|]. unfold damaged. apply existsb_exists.
  exists DmgInBlock. split; [unfold all_damages; cbn; tauto|].
  cbn [has_damage]. rewrite Hr, He, Hp, (decode_tree_damaged c st m D). reflexivity.
Qed.

(* ---- every byte string (Framing/Bytes.v b_scan_total) with the block decoder of layer L1 ---- *)
(* the Unmarshal oracles: ANY functions of the bytes such that the payload of a data block is what
   a worker in SOME decoder state makes of SOME message tree, and that of a header block is what
   decodeOSMHeader answers *)
Definition parses_trees (c : L1.cfg) (parse_blob : btype -> list Z -> blobp L1.obj) : Prop :=
  forall ty bb b, parse_blob ty bb = BlobOk b ->
    match ty with
    | TyData => exists st m, b_pay b = PData (decode_tree c st m)
    | TyHeader => exists h, b_pay b = PHeader h
    | TyOther => True
    end.

Theorem every_byte_string_settles : forall c parse_hdr parse_blob,
  parses_trees c parse_blob ->
  forall s, out (b_scan parse_hdr parse_blob current s) = Done \/
            out (b_scan parse_hdr parse_blob current s) = Failed.
Proof.
  intros c parse_hdr parse_blob H s. apply b_scan_total.
  intros ty bb b Pb. specialize (H ty bb b Pb). destruct ty.
  - destruct H as (h & ->). exact I.
  - destruct H as (st & m & ->). apply decode_tree_never_panics.
  - exact I.
Qed.

