(* C06/ProofsBytes.v — the truncation theorem over BYTES: for every byte offset k of the file
   (the concatenation of 4-byte big-endian prefix, BlobHeader bytes, Blob bytes of every block),
   scanning the first k bytes yields the blocks wholly before k, and succeeds iff k is a block
   boundary.  Also data[off:] at byte level (used by C09). *)
From Coq Require Import ZArith List Bool Lia.
From Verif Require Import Framing.Model Framing.Valid Framing.Proofs Framing.Bytes C06.Spec C06.Proofs.
Import ListNotations.
Open Scope Z_scope.

Section ProofsBytes.
Context {T : Type}.
Variable parse_hdr : list Z -> hdr.
Variable parse_blob : btype -> list Z -> blobp T.

Notation abs := (abstract parse_hdr parse_blob).
Notation bscan := (b_scan parse_hdr parse_blob).

Theorem truncation_bytes : forall (bfs : list bframe) (k : nat),
  valid_bytes parse_hdr parse_blob bfs -> (k <= length (encode bfs))%nat ->
  let fs := map abs bfs in
  bscan current (firstn k (encode bfs)) =
  Result (spec_deliveries (frames_before fs (Z.of_nat k))) (cut_outcome fs (Z.of_nat k)).
Proof.
  intros bfs k Hv Hk fs. destruct (valid_bytes_aligned _ _ _ Hv) as [Ha Hp].
  rewrite (bytes_refine parse_hdr parse_blob current bfs k Ha Hp Hk).
  apply scan_cut; [exact (proj1 Hv)|]. subst fs. rewrite total_size_encode. lia.
Qed.

Corollary truncation_bytes_objects : forall (bfs : list bframe) (k : nat),
  valid_bytes parse_hdr parse_blob bfs -> (k <= length (encode bfs))%nat ->
  let fs := map abs bfs in
  objects (bscan current (firstn k (encode bfs))) = objs_before fs (Z.of_nat k) /\
  out (bscan current (firstn k (encode bfs))) = (if is_boundary fs (Z.of_nat k) then Done else Failed).
Proof.
  intros bfs k Hv Hk fs. rewrite (truncation_bytes bfs k Hv Hk). unfold objects. cbn [deliveries out].
  split; [|reflexivity]. unfold objs_before. apply objs_spec_deliveries.
  apply frames_before_valid. exact (proj1 Hv).
Qed.

(* the byte offsets that are block boundaries are exactly the lengths of the encodings of the
   first j blocks *)
Lemma boundary_bytes : forall (bfs : list bframe) (j : nat),
  valid_bytes parse_hdr parse_blob bfs ->
  is_boundary (map abs bfs) (Z.of_nat (length (encode (firstn j bfs)))) = true.
Proof.
  intros bfs j [Hv _]. revert j.
  induction bfs as [|bf r IH]; intros j; [destruct j; reflexivity|].
  destruct j as [|j]; [reflexivity|].
  cbn [firstn encode flat_map map is_boundary]. fold (encode (firstn j r)).
  rewrite app_length, Nat2Z.inj_add, <- (frame_size_abstract parse_hdr parse_blob bf).
  assert (E : (frame_size (abs bf) <=? frame_size (abs bf) + Z.of_nat (length (encode (firstn j r)))) = true)
    by (apply Z.leb_le; lia).
  rewrite E. cbn [andb].
  replace (frame_size (abs bf) + Z.of_nat (length (encode (firstn j r))) - frame_size (abs bf))
    with (Z.of_nat (length (encode (firstn j r)))) by lia.
  rewrite IH; [apply orb_true_r|].
  cbn [map valid_file] in Hv. apply andb_prop in Hv as [_ Hr].
  destruct r as [|x r']; [reflexivity|]. cbn [map valid_file forallb] in *.
  apply andb_prop in Hr as [Hx Hr]. rewrite Hx, Hr, orb_true_r. reflexivity.
Qed.

(* data[off:] for off = the length of the first j blocks is the encoding of the remaining blocks *)
Lemma skipn_encode : forall (bfs : list bframe) (j : nat),
  skipn (length (encode (firstn j bfs))) (encode bfs) = encode (skipn j bfs).
Proof.
  intros bfs j. rewrite <- (firstn_skipn j bfs) at 2. unfold encode at 2. rewrite flat_map_app.
  fold (encode (firstn j bfs)). fold (encode (skipn j bfs)).
  rewrite skipn_app, skipn_all, Nat.sub_diag. reflexivity.
Qed.

Theorem resume_bytes : forall v (bfs : list bframe) (j : nat),
  Forall (aligned parse_hdr) bfs -> Forall (fun bf => 0 <= bf_pfx bf) bfs ->
  bscan v (skipn (length (encode (firstn j bfs))) (encode bfs)) =
  scan v (map abs (skipn j bfs)) (total_size (map abs (skipn j bfs))).
Proof.
  intros v bfs j Ha Hp. rewrite skipn_encode.
  assert (Ha' : Forall (aligned parse_hdr) (skipn j bfs)).
  { rewrite <- (firstn_skipn j bfs) in Ha. apply Forall_app in Ha. exact (proj2 Ha). }
  assert (Hp' : Forall (fun bf => 0 <= bf_pfx bf) (skipn j bfs)).
  { rewrite <- (firstn_skipn j bfs) in Hp. apply Forall_app in Hp. exact (proj2 Hp). }
  pose proof (bytes_refine parse_hdr parse_blob v (skipn j bfs) (length (encode (skipn j bfs))) Ha' Hp'
                           (le_n _)) as R.
  rewrite firstn_all in R. rewrite R, total_size_encode. reflexivity.
Qed.

End ProofsBytes.
