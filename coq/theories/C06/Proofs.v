(* C06/Proofs.v — truncation at every byte offset, detection of every enumerated damage class,
   crash freedom of the framing layer; refutation witnesses for the code as it was found. *)
From Coq Require Import ZArith List Bool Lia.
From Verif Require Import Framing.Model Framing.Valid Framing.Proofs C06.Spec.
Import ListNotations.
Open Scope Z_scope.

Section Proofs.
Context {T : Type}.
Implicit Types (f : frame T) (fs : list (frame T)).

Lemma total_size_cons : forall f fs, total_size (f :: fs) = frame_size f + total_size fs.
Proof. reflexivity. Qed.

(* ---- the reader loop on a cut stream of data frames ---- *)
Lemma blocks_loop_cut : forall fs avail off,
  forallb good_data_frame fs = true -> 0 <= avail <= total_size fs ->
  blocks_loop current fs avail off =
  Result (deliveries_from off (frames_before fs avail)) (cut_outcome fs avail).
Proof.
  induction fs as [|f r IH]; intros avail off Hg Ha.
  - cbn in Ha. assert (avail = 0) by lia. subst avail. reflexivity.
  - cbn [forallb] in Hg. apply andb_prop in Hg as [Hf Hr].
    destruct (good_data_frame_inv f Hf) as (b & objs & Hgf & He & Hp & Ho).
    pose proof (frame_size_pos f (good_data_framed f Hf)) as Hpos.
    pose proof (total_size_nonneg r Hr) as Hnn.
    rewrite total_size_cons in Ha.
    destruct (Z_le_gt_dec (frame_size f) avail) as [Hc|Hc].
    + cbn [blocks_loop]. rewrite (rfb_complete current TyData b f avail Hgf Hc).
      rewrite (decode_data_good b objs He Hp).
      rewrite (IH (avail - frame_size f) (off + frame_size f) Hr) by lia.
      unfold deliver, cut_outcome. cbn [deliveries out frames_before is_boundary].
      assert (E1 : (frame_size f <=? avail) = true) by (apply Z.leb_le; lia).
      assert (E2 : (avail =? 0) = false) by (apply Z.eqb_neq; lia).
      rewrite E1, E2. cbn [orb andb deliveries_from]. rewrite Ho. reflexivity.
    + assert (E1 : (frame_size f <=? avail) = false) by (apply Z.leb_gt; lia).
      unfold cut_outcome. cbn [blocks_loop frames_before is_boundary]. rewrite E1.
      cbn [andb deliveries_from]. rewrite orb_false_r.
      destruct (Z.eq_dec avail 0) as [H0|H0].
      * subst avail. rewrite (rfb_nothing current f 0) by lia. reflexivity.
      * rewrite (rfb_cut_inside TyData b f avail Hgf) by lia.
        assert (E2 : (avail =? 0) = false) by (apply Z.eqb_neq; lia). rewrite E2. reflexivity.
Qed.

Lemma valid_first_pos : forall f r, valid_file (f :: r) = true -> 0 < frame_size f.
Proof.
  intros f r H. cbn [valid_file] in H. apply andb_prop in H as [Hf _].
  apply orb_prop in Hf as [Hh|Hd].
  - destruct (good_header_frame_inv f Hh) as (b & Hg & _). apply frame_size_pos. exact (proj1 Hg).
  - apply frame_size_pos. apply good_data_framed. exact Hd.
Qed.

(* ---- the whole scan of a cut stream ---- *)
Lemma spec_deliveries_data : forall f r, is_header_frame f = false ->
  spec_deliveries (f :: r) = deliveries_from 0 (f :: r).
Proof. intros f r H. unfold spec_deliveries. rewrite H. reflexivity. Qed.

Theorem scan_cut : forall fs k,
  valid_file fs = true -> 0 <= k <= total_size fs ->
  scan current fs k = Result (spec_deliveries (frames_before fs k)) (cut_outcome fs k).
Proof.
  intros [|f r] k Hv Hk.
  - cbn in Hk. assert (k = 0) by lia. subst k. reflexivity.
  - cbn [valid_file] in Hv. apply andb_prop in Hv as [Hf Hr].
    pose proof (total_size_nonneg r Hr) as Hnn.
    rewrite total_size_cons in Hk.
    assert (Hgen : forall ty b, good_frame ty b f -> frame_size f > k ->
              scan current (f :: r) k = Result [] (cut_outcome (f :: r) k)
              /\ frames_before (f :: r) k = []).
    { intros ty b Hgf Hc.
      assert (E1 : (frame_size f <=? k) = false) by (apply Z.leb_gt; lia).
      unfold cut_outcome. cbn [scan frames_before is_boundary]. rewrite E1. cbn [andb].
      rewrite orb_false_r. split; [|reflexivity].
      destruct (Z.eq_dec k 0) as [H0|H0].
      - subst k. rewrite (rfb_nothing current f 0) by lia. reflexivity.
      - rewrite (rfb_cut_inside ty b f k Hgf) by lia.
        assert (E2 : (k =? 0) = false) by (apply Z.eqb_neq; lia). rewrite E2. reflexivity. }
    apply orb_prop in Hf as [Hh|Hd].
    + destruct (good_header_frame_inv f Hh) as (b & Hgf & He & Hp & Ho & Hih).
      pose proof (frame_size_pos f (proj1 Hgf)) as Hpos.
      destruct (Z_le_gt_dec (frame_size f) k) as [Hc|Hc].
      * cbn [scan]. rewrite (rfb_complete current TyHeader b f k Hgf Hc).
        rewrite (decode_header_good b He Hp).
        rewrite (blocks_loop_cut r (k - frame_size f) (frame_size f) Hr) by lia.
        unfold cut_outcome. cbn [frames_before is_boundary].
        assert (E1 : (frame_size f <=? k) = true) by (apply Z.leb_le; lia).
        assert (E2 : (k =? 0) = false) by (apply Z.eqb_neq; lia).
        rewrite E1, E2. cbn [orb andb]. unfold spec_deliveries. rewrite Hih. reflexivity.
      * destruct (Hgen TyHeader b Hgf Hc) as [H1 H2]. rewrite H1, H2. reflexivity.
    + destruct (good_data_frame_inv f Hd) as (b & objs & Hgf & He & Hp & Ho).
      pose proof (frame_size_pos f (proj1 Hgf)) as Hpos.
      pose proof (good_data_not_header f Hd) as Hnh.
      destruct (Z_le_gt_dec (frame_size f) k) as [Hc|Hc].
      * cbn [scan]. rewrite (rfb_complete current TyData b f k Hgf Hc).
        rewrite (decode_data_good b objs He Hp).
        rewrite (blocks_loop_cut r (k - frame_size f) (frame_size f) Hr) by lia.
        unfold deliver, cut_outcome. cbn [deliveries out frames_before is_boundary].
        assert (E1 : (frame_size f <=? k) = true) by (apply Z.leb_le; lia).
        assert (E2 : (k =? 0) = false) by (apply Z.eqb_neq; lia).
        rewrite E1, E2. cbn [orb andb]. rewrite (spec_deliveries_data f _ Hnh).
        cbn [deliveries_from]. rewrite Ho. reflexivity.
      * destruct (Hgen TyData b Hgf Hc) as [H1 H2]. rewrite H1, H2. reflexivity.
Qed.

(* the objects of a delivery list built from frames *)
Lemma objs_deliveries_from : forall fs off,
  concat (map snd (deliveries_from off fs)) = objs_of fs.
Proof.
  induction fs as [|f r IH]; intros off; [reflexivity|].
  cbn [deliveries_from map concat snd]. unfold objs_of in *. cbn [map concat]. rewrite IH. reflexivity.
Qed.

Lemma objs_spec_deliveries : forall fs, valid_file fs = true ->
  concat (map snd (spec_deliveries fs)) = objs_of fs.
Proof.
  intros [|f r] Hv; [reflexivity|].
  unfold spec_deliveries. destruct (is_header_frame f) eqn:Eh.
  - rewrite objs_deliveries_from. unfold objs_of. cbn [map concat].
    cbn [valid_file] in Hv. apply andb_prop in Hv as [Hf _].
    apply orb_prop in Hf as [Hh|Hd].
    + destruct (good_header_frame_inv f Hh) as (b & _ & _ & _ & Ho & _). rewrite Ho. reflexivity.
    + rewrite (good_data_not_header f Hd) in Eh. discriminate.
  - apply objs_deliveries_from.
Qed.

Lemma frames_before_valid : forall fs k, valid_file fs = true -> valid_file (frames_before fs k) = true.
Proof.
  assert (Hd : forall (r : list (frame T)) k, forallb good_data_frame r = true ->
               forallb good_data_frame (frames_before r k) = true).
  { induction r as [|g r IH]; intros k H; [reflexivity|].
    cbn [forallb] in H. apply andb_prop in H as [Hg Hr]. cbn [frames_before].
    destruct (frame_size g <=? k); [|reflexivity]. cbn [forallb]. rewrite Hg. cbn [andb]. auto. }
  intros [|f r] k Hv; [reflexivity|].
  cbn [valid_file] in Hv. apply andb_prop in Hv as [Hf Hr]. cbn [frames_before].
  destruct (frame_size f <=? k); [|reflexivity].
  cbn [valid_file]. rewrite Hf. cbn [andb]. auto.
Qed.

(* C06, first sentence: exactly the objects of the complete blocks before the cut, success iff
   the cut is a block boundary *)
Theorem truncation : forall fs k,
  valid_file fs = true -> 0 <= k <= total_size fs ->
  objects (scan current fs k) = objs_before fs k /\
  out (scan current fs k) = cut_outcome fs k.
Proof.
  intros fs k Hv Hk. rewrite (scan_cut fs k Hv Hk). unfold objects. cbn [deliveries out].
  split; [|reflexivity].
  unfold objs_before. apply objs_spec_deliveries. apply frames_before_valid. exact Hv.
Qed.

(* ---- crash freedom of the framing layer, for EVERY frame list and every amount of input ---- *)
Lemma rfb_no_panic : forall of avail, read_file_block current of avail <> @FbPanic T.
Proof.
  intros [f|] avail; unfold read_file_block.
  - destruct (read_full 4 avail); [discriminate|].
    destruct (f_pfx f >=? maxBlobHeaderSize); [discriminate|].
    destruct (read_full (f_pfx f) (avail - 4)); [discriminate|].
    destruct (negb (f_pfx f =? f_hlen f)); [discriminate|].
    destruct (f_hdr f) as [|ty ds]; [discriminate|].
    destruct (ds >=? maxBlobSize); [discriminate|].
    destruct (ds <? 0); [cbn; discriminate|].
    destruct (read_full ds (avail - 4 - f_pfx f)); [discriminate|].
    destruct (negb (ds =? f_blen f)); [discriminate|].
    destruct (f_blob f); discriminate.
  - destruct (avail <=? 0); discriminate.
Qed.

Lemma decode_data_no_panic : forall (b : blob T),
  (match b_pay b with PData DPanic => false | _ => true end) = true ->
  decode_data current b <> SPanic.
Proof.
  intros b H. unfold decode_data.
  pose proof (get_data_no_panic 0 (b_enc b)) as Hg.
  destruct (get_data current 0 (b_enc b)); [|discriminate|congruence|discriminate].
  destruct (b_pay b) as [h|[objs| |]]; try discriminate.
Qed.

Lemma decode_header_no_panic : forall (b : blob T), decode_header current b <> SPanic.
Proof.
  intros b. unfold decode_header.
  pose proof (get_data_no_panic 0 (b_enc b)) as Hg.
  destruct (get_data current 0 (b_enc b)); [|discriminate|congruence|discriminate].
  destruct (b_pay b) as [[|[|]]|d]; discriminate.
Qed.

Lemma of_err_not_crashed : forall e, out (@of_err T e) <> Crashed.
Proof. intros [| |]; discriminate. Qed.

Lemma rfb_ok_blob : forall f avail ty b n,
  read_file_block current (Some f) avail = FbOk ty b n -> f_blob f = BlobOk b.
Proof.
  intros f avail ty b n. unfold read_file_block.
  destruct (read_full 4 avail); [discriminate|].
  destruct (f_pfx f >=? maxBlobHeaderSize); [discriminate|].
  destruct (read_full (f_pfx f) (avail - 4)); [discriminate|].
  destruct (negb (f_pfx f =? f_hlen f)); [discriminate|].
  destruct (f_hdr f) as [|ty' ds]; [discriminate|].
  destruct (ds >=? maxBlobSize); [discriminate|].
  destruct (ds <? 0); [cbn; discriminate|].
  destruct (read_full ds (avail - 4 - f_pfx f)); [discriminate|].
  destruct (negb (ds =? f_blen f)); [discriminate|].
  destruct (f_blob f) as [|b']; [discriminate|].
  intros H. injection H as _ Hb _. subst b'. reflexivity.
Qed.

Lemma blocks_loop_no_crash : forall fs avail off,
  forallb no_dpanic fs = true -> out (blocks_loop current fs avail off) <> Crashed.
Proof.
  induction fs as [|f r IH]; intros avail off Hn.
  - cbn [blocks_loop]. destruct (read_file_block current None avail) as [e| | |ty b n];
      try discriminate. apply of_err_not_crashed.
  - cbn [forallb] in Hn. apply andb_prop in Hn as [Hf Hr]. cbn [blocks_loop].
    destruct (read_file_block current (Some f) avail) as [e| | |ty b n] eqn:E.
    + apply of_err_not_crashed.
    + exfalso. exact (rfb_no_panic (Some f) avail E).
    + discriminate.
    + destruct ty; try discriminate.
      pose proof (rfb_ok_blob f avail _ _ _ E) as Hb.
      assert (Hp : (match b_pay b with PData DPanic => false | _ => true end) = true).
      { unfold no_dpanic in Hf. rewrite Hb in Hf. exact Hf. }
      pose proof (decode_data_no_panic b Hp) as Hd.
      destruct (decode_data current b) as [objs| | | |]; try discriminate; [|congruence].
      unfold deliver. cbn [out]. apply IH. exact Hr.
Qed.

Theorem scan_never_crashes : forall fs avail,
  forallb no_dpanic fs = true -> out (scan current fs avail) <> Crashed.
Proof.
  intros [|f r] avail Hn.
  - apply (blocks_loop_no_crash [] avail 0). reflexivity.
  - cbn [forallb] in Hn. apply andb_prop in Hn as [Hf Hr]. cbn [scan].
    destruct (read_file_block current (Some f) avail) as [e| | |ty b n] eqn:E.
    + apply of_err_not_crashed.
    + exfalso. exact (rfb_no_panic (Some f) avail E).
    + discriminate.
    + pose proof (rfb_ok_blob f avail _ _ _ E) as Hb.
      assert (Hp : (match b_pay b with PData DPanic => false | _ => true end) = true).
      { unfold no_dpanic in Hf. rewrite Hb in Hf. exact Hf. }
      pose proof (decode_data_no_panic b Hp) as Hd.
      pose proof (decode_header_no_panic b) as Hh.
      destruct ty.
      * destruct (decode_header current b) as [objs| | | |]; try discriminate; [|congruence].
        apply blocks_loop_no_crash. exact Hr.
      * destruct (decode_data current b) as [objs| | | |]; try discriminate; [|congruence].
        unfold deliver. cbn [out]. apply blocks_loop_no_crash. exact Hr.
      * cbn [v_first_other_is_data current]. discriminate.
Qed.

(* ---- no hang: no decoder of the repaired code fails to return, on ANY frame list ---- *)
Lemma decode_data_no_hang : forall (b : blob T), decode_data current b <> SHang.
Proof.
  intros b. unfold decode_data. pose proof (get_data_no_hang 0 (b_enc b)) as Hg.
  destruct (get_data current 0 (b_enc b)); [|discriminate|discriminate|congruence].
  destruct (b_pay b) as [h|[objs| |]]; discriminate.
Qed.

Lemma decode_header_no_hang : forall (b : blob T), decode_header current b <> SHang.
Proof.
  intros b. unfold decode_header. pose proof (get_data_no_hang 0 (b_enc b)) as Hg.
  destruct (get_data current 0 (b_enc b)); [|discriminate|discriminate|congruence].
  destruct (b_pay b) as [[|[|]]|d]; discriminate.
Qed.

Lemma of_err_not_hung : forall e, out (@of_err T e) <> Hung.
Proof. intros [| |]; discriminate. Qed.

Lemma blocks_loop_no_hang : forall fs avail off, out (blocks_loop current fs avail off) <> Hung.
Proof.
  induction fs as [|f r IH]; intros avail off.
  - cbn [blocks_loop]. destruct (read_file_block current None avail) as [e| | |ty b n];
      try discriminate. apply of_err_not_hung.
  - cbn [blocks_loop].
    destruct (read_file_block current (Some f) avail) as [e| | |ty b n]; try discriminate.
    + apply of_err_not_hung.
    + destruct ty; try discriminate.
      pose proof (decode_data_no_hang b) as Hd.
      destruct (decode_data current b) as [objs| | | |]; try discriminate; [|congruence].
      unfold deliver. cbn [out]. apply IH.
Qed.

Theorem scan_never_hangs : forall fs avail, out (scan current fs avail) <> Hung.
Proof.
  intros [|f r] avail.
  - apply (blocks_loop_no_hang [] avail 0).
  - cbn [scan].
    destruct (read_file_block current (Some f) avail) as [e| | |ty b n]; try discriminate.
    + apply of_err_not_hung.
    + pose proof (decode_data_no_hang b) as Hd. pose proof (decode_header_no_hang b) as Hh.
      destruct ty.
      * destruct (decode_header current b) as [objs| | | |]; try discriminate; [|congruence].
        apply blocks_loop_no_hang.
      * destruct (decode_data current b) as [objs| | | |]; try discriminate; [|congruence].
        unfold deliver. cbn [out]. apply blocks_loop_no_hang.
      * cbn [v_first_other_is_data current]. discriminate.
Qed.

End Proofs.
