(* C06/Skip.v — an element kind the scanner is told to skip (SkipNodes / SkipWays / SkipRelations)
   is not read at all: decode_data.go tests `fn == 2 && !dec.scanner.SkipNodes` (3: ways, 4:
   relations) and otherwise lets the protobuf scanner step over the field, whatever it contains.
   So damage INSIDE a skipped kind (a DenseNodes message without lat under SkipNodes, a way with a
   string index out of range under SkipWays) cannot be reported: the block decodes to what the
   block without that damage decodes to, i.e. success with the objects of the other kinds.

   Stated on the L1 model: two block trees that differ only in the contents of PrimitiveGroup
   fields of skipped kinds have the same outcome, from every decoder state.  The in-block damage
   theorems of C06/InBlock.v therefore carry the hypotheses skip_* = false; this file says what
   happens in the other case. *)
From Coq Require Import ZArith List Bool Lia.
From Verif Require Import Pbf.Tree Pbf.Model.
Import ListNotations.
Open Scope Z_scope.

Definition skipped (c : cfg) (n : Z) : bool :=
  ((n =? 2) && skip_nodes c) || ((n =? 3) && skip_ways c) || ((n =? 4) && skip_rels c).

Lemma group_step_skipped : forall c s n v, skipped c n = true -> group_step c s (n, v) = Ok s.
Proof.
  intros c s n v H. unfold group_step. cbn [fst snd]. unfold skipped in H.
  destruct (n =? 2) eqn:E2.
  { apply Z.eqb_eq in E2; subst n. destruct (skip_nodes c); cbn in *; [|destruct (skip_ways c), (skip_rels c); discriminate].
    destruct (skip_ways c), (skip_rels c); reflexivity. }
  destruct (n =? 3) eqn:E3.
  { apply Z.eqb_eq in E3; subst n. destruct (skip_ways c); cbn in *; [|destruct (skip_rels c); discriminate].
    destruct (skip_rels c); reflexivity. }
  destruct (n =? 4) eqn:E4.
  { apply Z.eqb_eq in E4; subst n. destruct (skip_rels c); cbn in *; [reflexivity|discriminate]. }
  cbn in H. discriminate.
Qed.

(* two PrimitiveGroup messages with the same field numbers that agree on every field of a kind that
   is decoded *)
Definition same_field (c : cfg) (f1 f2 : Z * wval) : Prop :=
  fst f1 = fst f2 /\ (skipped c (fst f1) = true \/ snd f1 = snd f2).

Lemma group_loop_skipped : forall c g1 g2, Forall2 (same_field c) g1 g2 ->
  forall s, group_loop c g1 s = group_loop c g2 s.
Proof.
  intros c g1 g2 H. induction H as [|[n1 v1] [n2 v2] r1 r2 [Hn Hv] _ IH]; intros s; [reflexivity|].
  cbn [fst snd] in *. subst n2. cbn [group_loop].
  destruct Hv as [Hs| ->].
  - rewrite !(group_step_skipped c s n1 _ Hs). cbn. apply IH.
  - destruct (group_step c s (n1, v2)) as [s'|e|]; cbn; [apply IH|reflexivity|reflexivity].
Qed.

(* two PrimitiveBlock trees that are equal except inside the skipped kinds of their groups *)
Definition same_top (c : cfg) (f1 f2 : Z * wval) : Prop :=
  fst f1 = fst f2 /\
  (snd f1 = snd f2 \/
   (fst f1 = 2 /\ exists g1 g2, snd f1 = WMsg g1 /\ snd f2 = WMsg g2 /\ Forall2 (same_field c) g1 g2)).

Lemma pass1_same : forall c m1 m2, Forall2 (same_top c) m1 m2 -> forall p, pass1 m1 p = pass1 m2 p.
Proof.
  intros c m1 m2 H. induction H as [|[n1 v1] [n2 v2] r1 r2 [Hn Hv] _ IH]; intros p; [reflexivity|].
  cbn [fst snd] in *. subst n2. cbn [pass1].
  assert (E : pass1_step p (n1, v1) = pass1_step p (n1, v2)).
  { destruct Hv as [->|[-> _]]; [reflexivity|]. reflexivity. }
  rewrite E. destruct (pass1_step p (n1, v2)); cbn; [apply IH|reflexivity|reflexivity].
Qed.

Lemma pass2_same : forall c m1 m2, Forall2 (same_top c) m1 m2 ->
  forall d q, pass2 c m1 d q = pass2 c m2 d q.
Proof.
  intros c m1 m2 H. induction H as [|[n1 v1] [n2 v2] r1 r2 [Hn Hv] _ IH]; intros d q; [reflexivity|].
  cbn [fst snd] in *. subst n2. cbn [pass2 fst snd].
  destruct Hv as [->|(-> & g1 & g2 & -> & -> & Hg)].
  - destruct (n1 =? 2); [|apply IH].
    destruct (as_msg v2) as [g|e|]; cbn; [|reflexivity|reflexivity].
    destruct (scan_group c d g q) as [[d' q']|e|]; cbn; [apply IH|reflexivity|reflexivity].
  - cbn. unfold scan_group. rewrite (group_loop_skipped c g1 g2 Hg).
    destruct (group_loop c g2 (mkG d way0 rel0 q)) as [s|e|]; cbn; [apply IH|reflexivity|reflexivity].
Qed.

Theorem skipped_kind_is_not_read : forall c st m1 m2,
  Forall2 (same_top c) m1 m2 -> scan_result c st m1 = scan_result c st m2.
Proof.
  intros c st m1 m2 H. unfold scan_result, scan_block.
  rewrite (pass1_same c m1 m2 H p0).
  destruct (pass1 m2 p0) as [p1|e|]; cbn; [|reflexivity|reflexivity].
  rewrite (pass2_same c m1 m2 H). reflexivity.
Qed.
