(* C06/ProofsDamage.v — every enumerated damage class, at any block position, ends the scan with an
   error after exactly the objects of the intact blocks before it. *)
From Coq Require Import ZArith List Bool Lia.
From Verif Require Import Framing.Model Framing.Valid Framing.Proofs C06.Spec C06.Proofs.
Import ListNotations.
Open Scope Z_scope.

Section Damage.
Context {T : Type}.
Implicit Types (f : frame T) (fs : list (frame T)).

(* processing the (completely or partly available) frame ends the scan with an error *)
Definition rfb_fails (first : bool) f (a : Z) : Prop :=
  (exists e, read_file_block current (Some f) a = FbErr e /\ e <> EEOF) \/
  (exists ty b n, read_file_block current (Some f) a = FbOk ty b n /\
     match ty with
     | TyData => decode_data current b = SErr
     | TyHeader => if first then decode_header current b = SErr else True
     | TyOther => True
     end).

Lemma of_err_failed : forall e, e <> EEOF -> @of_err T e = stop Failed.
Proof. intros [| |] H; try reflexivity. congruence. Qed.

Lemma fails_loop : forall f rest a off, rfb_fails false f a ->
  blocks_loop current (f :: rest) a off = stop Failed.
Proof.
  intros f rest a off [(e & He & Hne)|(ty & b & n & He & Hd)]; cbn [blocks_loop]; rewrite He.
  - apply of_err_failed. exact Hne.
  - destruct ty; try reflexivity. rewrite Hd. reflexivity.
Qed.

Lemma fails_scan : forall f rest a, rfb_fails true f a ->
  scan current (f :: rest) a = stop Failed.
Proof.
  intros f rest a [(e & He & Hne)|(ty & b & n & He & Hd)]; cbn [scan]; rewrite He.
  - apply of_err_failed. exact Hne.
  - destruct ty; [rewrite Hd; reflexivity|rewrite Hd; reflexivity|reflexivity].
Qed.

Lemma inner_err_not_eof : forall e, inner_err current e <> EEOF.
Proof. intros [|]; discriminate. Qed.

Lemma hdr_read_facts : forall f a, hdr_read f a = true ->
  f_pfx f = f_hlen f /\ 0 <= f_pfx f < 65536 /\ 4 + f_pfx f <= a.
Proof.
  intros f a H. unfold hdr_read in H. repeat (apply andb_prop in H as [H ?]).
  apply Z.eqb_eq in H.
  repeat match goal with
         | h : (_ <? _) = true |- _ => apply Z.ltb_lt in h
         | h : (_ <=? _) = true |- _ => apply Z.leb_le in h
         end.
  rewrite maxBlobHeaderSize_val in *. lia.
Qed.

(* with the header segment read, readFileBlock is at the BlobHeader checks *)
Lemma rfb_after_hdr : forall f a, hdr_read f a = true ->
  read_file_block current (Some f) a =
  match f_hdr f with
  | HdrBad => FbErr EOther
  | HdrOk ty ds =>
      if ds >=? maxBlobSize then FbErr EOther else
      if ds <? 0 then FbErr EOther else
      match read_full ds (a - 4 - f_pfx f) with
      | Some e => FbErr (inner_err current e)
      | None => if negb (ds =? f_blen f) then FbOut else
                match f_blob f with
                | BlobBad => FbErr EOther
                | BlobOk b => FbOk ty b (4 + f_pfx f + ds)
                end
      end
  end.
Proof.
  intros f a H. destruct (hdr_read_facts f a H) as (Hp & Hr & Ha).
  unfold read_file_block. rewrite (read_full_enough 4 a) by lia.
  assert (E1 : (f_pfx f >=? maxBlobHeaderSize) = false)
    by (rewrite maxBlobHeaderSize_val; apply geb_false; lia).
  rewrite E1, (read_full_enough (f_pfx f) (a - 4)) by lia.
  assert (E2 : (f_pfx f =? f_hlen f) = true) by (apply Z.eqb_eq; exact Hp).
  rewrite E2. cbn [negb]. destruct (f_hdr f) as [|ty ds]; reflexivity.
Qed.

Lemma block_read_ok : forall f a ty b, block_read f a = Some (ty, b) ->
  read_file_block current (Some f) a = FbOk ty b (frame_size f).
Proof.
  intros f a ty b H. unfold block_read in H.
  destruct (f_hdr f) as [|ty' ds] eqn:Eh; [discriminate|].
  destruct (f_blob f) as [|b'] eqn:Eb; [discriminate|].
  destruct (hdr_read f a) eqn:Ehr; [|discriminate]. cbn [andb] in H.
  destruct ((ds =? f_blen f) && (0 <=? ds) && (ds <? maxBlobSize)
            && (frame_size f <=? a)) eqn:E; [|discriminate].
  injection H as -> ->.
  repeat (apply andb_prop in E as [E ?]).
  repeat match goal with
         | h : (_ <? _) = true |- _ => apply Z.ltb_lt in h
         | h : (_ <=? _) = true |- _ => apply Z.leb_le in h
         | h : (_ =? _) = true |- _ => apply Z.eqb_eq in h
         end.
  destruct (hdr_read_facts f a Ehr) as (Hp & Hr & Ha). subst ds.
  rewrite (rfb_after_hdr f a Ehr), Eh. unfold frame_size in *.
  assert (E3 : (f_blen f >=? maxBlobSize) = false) by (apply geb_false; lia).
  assert (E4 : (f_blen f <? 0) = false) by (apply Z.ltb_ge; lia).
  rewrite E3, E4, (read_full_enough (f_blen f) (a - 4 - f_pfx f)) by lia.
  rewrite Z.eqb_refl. cbn [negb]. rewrite Eb, Hp. reflexivity.
Qed.

Lemma decode_data_bad_enc : forall (b : blob T), enc_bad (b_enc b) = true -> decode_data current b = SErr.
Proof. intros b H. unfold decode_data. rewrite (get_data_bad _ H). reflexivity. Qed.
Lemma decode_header_bad_enc : forall (b : blob T), enc_bad (b_enc b) = true -> decode_header current b = SErr.
Proof. intros b H. unfold decode_header. rewrite (get_data_bad _ H). reflexivity. Qed.

(* every damage class makes the frame fail *)
Lemma damage_fails : forall d first f a, has_damage d first f a = true -> rfb_fails first f a.
Proof.
  intros d first f a H. unfold rfb_fails. destruct d; cbn [has_damage] in H.
  - (* prefix too big *)
    apply andb_prop in H as [Ha Hp]. apply Z.leb_le in Ha. left. exists EOther. split; [|discriminate].
    unfold read_file_block. rewrite (read_full_enough 4 a) by lia. rewrite Hp. reflexivity.
  - (* BlobHeader does not parse *)
    apply andb_prop in H as [Hr Hh]. left. exists EOther. split; [|discriminate].
    rewrite (rfb_after_hdr f a Hr). destruct (f_hdr f); [reflexivity|discriminate].
  - (* datasize too big *)
    apply andb_prop in H as [Hr Hh]. left. exists EOther. split; [|discriminate].
    rewrite (rfb_after_hdr f a Hr). destruct (f_hdr f) as [|ty ds]; [discriminate|]. rewrite Hh. reflexivity.
  - (* datasize negative *)
    apply andb_prop in H as [Hr Hh]. left. exists EOther. split; [|discriminate].
    rewrite (rfb_after_hdr f a Hr). destruct (f_hdr f) as [|ty ds]; [discriminate|]. rewrite Hh.
    destruct (ds >=? maxBlobSize); reflexivity.
  - (* datasize reaches past the end of the input *)
    apply andb_prop in H as [Hr Hh]. destruct (hdr_read_facts f a Hr) as (Hp & Hrg & Ha).
    rewrite (rfb_after_hdr f a Hr). destruct (f_hdr f) as [|ty ds]; [discriminate|].
    apply andb_prop in Hh as [Hh H3]. apply andb_prop in Hh as [H1 H2].
    apply Z.ltb_lt in H1, H2, H3.
    assert (E3 : (ds >=? maxBlobSize) = false) by (apply geb_false; lia).
    assert (E4 : (ds <? 0) = false) by (apply Z.ltb_ge; lia).
    rewrite E3, E4, (read_full_short ds (a - 4 - f_pfx f)) by lia.
    left. eexists. split; [reflexivity|apply inner_err_not_eof].
  - (* Blob does not parse *)
    apply andb_prop in H as [Hr Hh]. destruct (hdr_read_facts f a Hr) as (Hp & Hrg & Ha).
    rewrite (rfb_after_hdr f a Hr). destruct (f_hdr f) as [|ty ds]; [discriminate|].
    destruct (f_blob f) as [|b]; [|discriminate].
    repeat (apply andb_prop in Hh as [Hh ?]).
    repeat match goal with
           | h : (_ <? _) = true |- _ => apply Z.ltb_lt in h
           | h : (_ <=? _) = true |- _ => apply Z.leb_le in h
           end.
    apply Z.eqb_eq in Hh. subst ds. unfold frame_size in *.
    assert (E3 : (f_blen f >=? maxBlobSize) = false) by (apply geb_false; lia).
    assert (E4 : (f_blen f <? 0) = false) by (apply Z.ltb_ge; lia).
    rewrite E3, E4, (read_full_enough (f_blen f) (a - 4 - f_pfx f)) by lia.
    rewrite Z.eqb_refl. cbn [negb]. left. exists EOther. split; [reflexivity|discriminate].
  - (* unexpected block type *)
    destruct (block_read f a) as [[ty b]|] eqn:E; [|discriminate].
    right. exists ty, b, (frame_size f). split; [apply block_read_ok; exact E|].
    destruct ty; [|discriminate|exact I].
    destruct first; [discriminate|exact I].
  - (* encoding getData rejects *)
    destruct (block_read f a) as [[ty b]|] eqn:E; [|discriminate].
    apply andb_prop in H as [He Ht].
    right. exists ty, b, (frame_size f). split; [apply block_read_ok; exact E|].
    destruct ty; [|apply decode_data_bad_enc; exact He|discriminate].
    destruct first; [apply decode_header_bad_enc; exact He|exact I].
  - (* HeaderBlock does not parse *)
    apply andb_prop in H as [Hf H]. subst first.
    destruct (block_read f a) as [[ty b]|] eqn:E; [|discriminate].
    destruct ty; try discriminate. apply andb_prop in H as [He Hp].
    right. exists TyHeader, b, (frame_size f). split; [apply block_read_ok; exact E|].
    unfold decode_header. rewrite (get_data_ok _ He).
    destruct (b_pay b) as [[|s]|dr]; try discriminate. reflexivity.
  - (* unsupported required feature *)
    apply andb_prop in H as [Hf H]. subst first.
    destruct (block_read f a) as [[ty b]|] eqn:E; [|discriminate].
    destruct ty; try discriminate. apply andb_prop in H as [He Hp].
    right. exists TyHeader, b, (frame_size f). split; [apply block_read_ok; exact E|].
    unfold decode_header. rewrite (get_data_ok _ He).
    destruct (b_pay b) as [[|[|]]|dr]; try discriminate. reflexivity.
  - (* in-block damage: the block's decoder reports an error *)
    destruct (block_read f a) as [[ty b]|] eqn:E; [|discriminate].
    destruct ty; try discriminate. apply andb_prop in H as [He Hp].
    right. exists TyData, b, (frame_size f). split; [apply block_read_ok; exact E|].
    unfold decode_data. rewrite (get_data_ok _ He).
    destruct (b_pay b) as [h|[objs| |]]; try discriminate. reflexivity.
Qed.

Lemma damaged_min : forall first f a, damaged first f a = true -> 4 <= a.
Proof.
  intros first f a H. unfold damaged in H. apply existsb_exists in H as (d & _ & H).
  assert (Hr : forall f a, hdr_read f a = true -> 4 <= a).
  { intros f0 a0 H0. destruct (hdr_read_facts f0 a0 H0). lia. }
  assert (Hb : forall f a tb, block_read f a = Some tb -> 4 <= a).
  { intros f0 a0 tb H0. unfold block_read in H0.
    destruct (f_hdr f0) as [|ty ds]; [discriminate|]. destruct (f_blob f0); [discriminate|].
    destruct (hdr_read f0 a0) eqn:E; [|discriminate]. eapply Hr; exact E. }
  destruct d; cbn [has_damage] in H;
    try (apply andb_prop in H as [H _]; first [apply Z.leb_le in H; exact H | eapply Hr; exact H]).
  - destruct (block_read f a) eqn:E; [eapply Hb; exact E|discriminate].
  - destruct (block_read f a) eqn:E; [eapply Hb; exact E|discriminate].
  - apply andb_prop in H as [_ H]. destruct (block_read f a) eqn:E; [eapply Hb; exact E|discriminate].
  - apply andb_prop in H as [_ H]. destruct (block_read f a) eqn:E; [eapply Hb; exact E|discriminate].
  - destruct (block_read f a) eqn:E; [eapply Hb; exact E|discriminate].
Qed.

(* the reader loop over intact data frames followed by anything *)
Lemma blocks_loop_prefix : forall (good tail : list (frame T)) avail off,
  forallb good_data_frame good = true -> total_size good <= avail ->
  blocks_loop current (good ++ tail) avail off =
  let r := blocks_loop current tail (avail - total_size good) (off + total_size good) in
  Result (deliveries_from off good ++ deliveries r) (out r).
Proof.
  induction good as [|f g IH]; intros tail avail off Hg Ha.
  - cbn [app deliveries_from]. change (total_size (@nil (frame T))) with 0. rewrite Z.sub_0_r, Z.add_0_r.
    destruct (blocks_loop current tail avail off); reflexivity.
  - cbn [forallb] in Hg. apply andb_prop in Hg as [Hf Hr].
    destruct (good_data_frame_inv f Hf) as (b & objs & Hgf & He & Hp & Ho).
    pose proof (total_size_nonneg g Hr) as Hnn. rewrite total_size_cons in *.
    cbn [app blocks_loop]. rewrite (rfb_complete current TyData b f avail Hgf) by lia.
    rewrite (decode_data_good b objs He Hp), (IH tail _ _ Hr) by lia.
    cbn zeta. unfold deliver. cbn [deliveries out deliveries_from app]. rewrite Ho.
    replace (avail - frame_size f - total_size g) with (avail - (frame_size f + total_size g)) by lia.
    replace (off + frame_size f + total_size g) with (off + (frame_size f + total_size g)) by lia.
    reflexivity.
Qed.

(* C06, second sentence.  [good]: the intact frames before the damaged one (a valid stream:
   optional header, then data blocks); [bad]: a frame with one of the enumerated damages, seen
   with the bytes that are left when the reader gets there; [rest]: anything. *)
Theorem damage_detected : forall (good : list (frame T)) bad rest avail,
  valid_file good = true ->
  damaged (match good with [] => true | _ => false end) bad (avail - total_size good) = true ->
  scan current (good ++ bad :: rest) avail = Result (spec_deliveries good) Failed.
Proof.
  intros good bad rest avail Hv Hd.
  pose proof (damaged_min _ _ _ Hd) as Hmin.
  unfold damaged in Hd. apply existsb_exists in Hd as (d & _ & Hd).
  pose proof (damage_fails d _ bad _ Hd) as Hf.
  destruct good as [|f g].
  - cbn [app] in *. change (total_size (@nil (frame T))) with 0 in *. rewrite Z.sub_0_r in Hf.
    rewrite (fails_scan bad rest avail Hf). reflexivity.
  - pose proof (valid_first_pos f g Hv) as Hpos.
    cbn [valid_file] in Hv. apply andb_prop in Hv as [Hfirst Hg].
    pose proof (total_size_nonneg g Hg) as Hnn. rewrite total_size_cons in *.
    pose proof (fails_loop bad rest _ (frame_size f + total_size g) Hf) as Hl.
    cbn [app scan].
    apply orb_prop in Hfirst as [Hh|Hdt].
    + destruct (good_header_frame_inv f Hh) as (b & Hgf & He & Hp & Ho & Hih).
      rewrite (rfb_complete current TyHeader b f avail Hgf) by lia.
      rewrite (decode_header_good b He Hp).
      rewrite (blocks_loop_prefix g (bad :: rest) _ _ Hg) by lia. cbn zeta.
      replace (avail - frame_size f - total_size g) with (avail - (frame_size f + total_size g)) by lia.
      rewrite Hl. cbn [deliveries out stop]. rewrite app_nil_r.
      unfold spec_deliveries. rewrite Hih. reflexivity.
    + destruct (good_data_frame_inv f Hdt) as (b & objs & Hgf & He & Hp & Ho).
      rewrite (rfb_complete current TyData b f avail Hgf) by lia.
      rewrite (decode_data_good b objs He Hp).
      rewrite (blocks_loop_prefix g (bad :: rest) _ _ Hg) by lia. cbn zeta.
      replace (avail - frame_size f - total_size g) with (avail - (frame_size f + total_size g)) by lia.
      rewrite Hl. unfold deliver. cbn [deliveries out stop]. rewrite app_nil_r.
      rewrite (spec_deliveries_data f g (good_data_not_header f Hdt)).
      cbn [deliveries_from]. rewrite Ho, Z.add_0_l. reflexivity.
Qed.

Corollary damage_detected_objects : forall (good : list (frame T)) bad rest avail,
  valid_file good = true ->
  damaged (match good with [] => true | _ => false end) bad (avail - total_size good) = true ->
  objects (scan current (good ++ bad :: rest) avail) = objs_of good /\
  out (scan current (good ++ bad :: rest) avail) = Failed.
Proof.
  intros good bad rest avail Hv Hd. rewrite (damage_detected good bad rest avail Hv Hd).
  split; [exact (objs_spec_deliveries good Hv)|reflexivity].
Qed.

End Damage.
