(* C06/Check.v — correspondence + property oracle for one harness case (executable only).

   Case layouts (first token = tag, written with Int, i.e. zigzag):
   1 TRUNC : procs frames runs     run = k_lo k_hi objs outcome ; the runs partition 0..size:
             the observation of EVERY cut offset (consecutive equal observations merged)
   2 DAMAGE: frames damaged_frame obs* has_tree [tree]    obs = procs objs outcome; for in-block
             damage the block's message tree follows (code 4: the L1 model does not say Err on it)
   3 WHOLE : frames obs*                  a complete valid file
   4 TRAILER: as DAMAGE; bytes after a complete zlib stream, data intact (see check_trailer)
   5 SKIPDMG: sn sw sr frames damaged_frame obs* tree   in-block damage inside a skipped element
             kind (see check_skipdmg; code 4: the L1 model does not say Err without the flags, or
             not Ok with the frame's number of objects under them)
   6 ALLOC : frames damaged_frame (procs MiB)*   heap handed out while scanning a zip-bomb blob
             (see check_alloc)
   7 SESSION: mode frames k calls* (code tok)*   a call script (Scan, Err, Header, Close) on a cut valid
             file or on a damaged file (see check_session)
   outcome: 0 Err()=nil, 1 Err()<>nil, 2 process crashed, 3 hang.
   codes: 1 = model <> implementation, 2 = property oracle fails on the observation,
          3 = the runs do not partition 0..size, 0 = case does not parse. *)
From Coq Require Import ZArith List Bool.
From Verif Require Import Base.Wire Framing.Model Framing.Valid Framing.WireFrames C06.Spec C06.Session.
From Verif Require Pbf.Tree Pbf.Model Pbf.CheckLib.
Import ListNotations.
Open Scope Z_scope.
Open Scope wire_scope.

(* does the observation (objs, oc) agree with the model's result? *)
Definition agrees (r : result obj) (objs : list obj) (oc : Z) : bool :=
  if oc =? 2 then
    (* a crash kills the consumer at an arbitrary moment: any prefix may have been seen *)
    match out r with Crashed => is_prefix objs (objects r) | _ => false end
  else (oc =? outcome_code (out r)) && objs_eqb objs (objects r).

(* the property on a cut stream *)
Definition cut_ok (fs : list (frame obj)) (k : Z) (objs : list obj) (oc : Z) : bool :=
  (oc =? outcome_code (cut_outcome fs k)) && objs_eqb objs (objs_before fs k).

(* all cuts lo, lo+1, ... (n of them) *)
(* the two offsets read once Scan has returned false (with or without an error): model only; what
   they are after a failed scan is outside the property (modelled and observed, Framing/Model.v
   end_offsets) *)
Definition off_agrees (fs : list (frame obj)) (k : Z) (oc fsb pfsb : Z) : bool :=
  if (oc =? 0) || (oc =? 1) then
    let '(p, c) := end_offsets (scan current fs k) (scan_err_off current fs k) in
    (p =? pfsb) && (c =? fsb)
  else true.

Fixpoint sweep (fs : list (frame obj)) (k : Z) (n : nat) (objs : list obj) (oc fsb pfsb : Z) (j1 j2 : bool)
  : bool * bool :=
  match n with
  | O => (j1, j2)
  | S n' =>
      sweep fs (k + 1) n' objs oc fsb pfsb
            (j1 && agrees (scan current fs k) objs oc && off_agrees fs k oc fsb pfsb)
            (j2 && cut_ok fs k objs oc)
  end.

Definition prun : P (Z * Z * list obj * Z * Z * Z) :=
  lo <- pint ;; hi <- pint ;; objs <- pobjs ;; oc <- pint ;; fsb <- pint ;; pfsb <- pint ;;
  ret (lo, hi, objs, oc, fsb, pfsb).

(* runs must be lo_0 = 0, hi_i + 1 = lo_{i+1}, hi_last = total, lo <= hi *)
Fixpoint partition_ok (next total : Z) (runs : list (Z * Z * list obj * Z * Z * Z)) : bool :=
  match runs with
  | [] => next =? total + 1
  | (lo, hi, _, _, _, _) :: r => (lo =? next) && (lo <=? hi) && partition_ok (hi + 1) total r
  end.

Fixpoint sweep_runs (fs : list (frame obj)) (runs : list (Z * Z * list obj * Z * Z * Z)) (j1 j2 : bool)
  : bool * bool :=
  match runs with
  | [] => (j1, j2)
  | (lo, hi, objs, oc, fsb, pfsb) :: r =>
      let '(a, b) := sweep fs lo (Z.to_nat (hi - lo + 1)) objs oc fsb pfsb j1 j2 in
      sweep_runs fs r a b
  end.

Definition check_trunc : P (list Z) :=
  procs <- pint ;; fs <- pframes ;; runs <- plist prun ;;
  let '(j1, j2) := sweep_runs fs runs true true in
  ret (code_if j1 1 ++ code_if j2 2 ++ code_if (partition_ok 0 (total_size fs) runs) 3)%list.

Definition pobs : P (Z * list obj * Z * Z * Z) :=
  procs <- pint ;; objs <- pobjs ;; oc <- pint ;; fsb <- pint ;; pfsb <- pint ;;
  ret (procs, objs, oc, fsb, pfsb).

(* the layer-L1 model of the block decoder run on the damaged block's tree: it must say Err *)
Definition l1_err (t : Verif.Pbf.Tree.msg) : bool :=
  match Verif.Pbf.Model.scan_result Verif.Pbf.Model.cfg_all Verif.Pbf.Model.dstate0 t with
  | Verif.Pbf.Tree.Err _ => true
  | _ => false
  end.

Definition check_damage : P (list Z) :=
  fs <- pframes ;; di <- pnat ;; obs <- plist pobs ;;
  has_tree <- pbool ;;
  j4 <- (if has_tree then (t <- Verif.Pbf.CheckLib.ptree ;; ret (l1_err t)) else ret true) ;;
  let r := scan current fs (total_size fs) in
  let expected := objs_of (firstn di fs) in
  let j1 := forallb (fun '(_, objs, oc, fsb, pfsb) => agrees r objs oc && off_agrees fs (total_size fs) oc fsb pfsb) obs in
  let good := firstn di fs in
  (* the case lies in the domain of theorem C06_damage_detected: intact frames before, one of the
     enumerated damage classes at frame di *)
  let in_domain :=
    valid_file good &&
    match nth_error fs di with
    | Some bad => damaged (match good with [] => true | _ => false end) bad
                          (total_size fs - total_size good)
    | None => false
    end in
  let j2 := forallb (fun '(_, objs, oc, _, _) => (oc =? 1) && objs_eqb objs expected) obs
            && in_domain && negb (Nat.eqb (length obs) 0) in
  ret (code_if j1 1 ++ code_if j2 2 ++ code_if j4 4)%list.

(* 3 WHOLE: frames obs*  -- a complete VALID file (boundary values of the limits): every
   object, no error; the frames must satisfy the theorems' hypothesis [valid_file] *)
Definition check_whole : P (list Z) :=
  fs <- pframes ;; obs <- plist pobs ;;
  let r := scan current fs (total_size fs) in
  let j1 := forallb (fun '(_, objs, oc, fsb, pfsb) => agrees r objs oc && off_agrees fs (total_size fs) oc fsb pfsb) obs in
  let j2 := forallb (fun '(_, objs, oc, _, _) => (oc =? 0) && objs_eqb objs (objs_of fs)) obs
            && valid_file fs && negb (Nat.eqb (length obs) 0) in
  ret (code_if j1 1 ++ code_if j2 2)%list.

(* 5 SKIPDMG: sn sw sr frames di obs* tree -- in-block damage INSIDE an element kind the scan skips
   (the tree of block di has the damage; the frames describe the file under the skip flags, block
   di not in error).  The kind is not read (C06/Skip.v), so: success with every object of the
   other kinds.  Judgement 4: the L1 model says Err for the tree when nothing is skipped (the
   damage is real) and Ok with as many objects as the frame holds under the case's flags. *)
Definition cfg_skip (sn sw sr : bool) : Verif.Pbf.Model.cfg :=
  Verif.Pbf.Model.mkCfg sn sw sr (fun _ => true) (fun _ => true) (fun _ => true).

Definition check_skipdmg : P (list Z) :=
  sn <- pbool ;; sw <- pbool ;; sr <- pbool ;;
  fs <- pframes ;; di <- pnat ;; obs <- plist pobs ;; t <- Verif.Pbf.CheckLib.ptree ;;
  let r := scan current fs (total_size fs) in
  let j1 := forallb (fun '(_, objs, oc, fsb, pfsb) => agrees r objs oc && off_agrees fs (total_size fs) oc fsb pfsb) obs in
  let j2 := forallb (fun '(_, objs, oc, _, _) => (oc =? 0) && objs_eqb objs (objs_of fs)) obs
            && valid_file fs && negb (Nat.eqb (length obs) 0) && (sn || sw || sr) in
  let j4 := l1_err t &&
            match Verif.Pbf.Model.scan_result (cfg_skip sn sw sr) Verif.Pbf.Model.dstate0 t, nth_error fs di with
            | Verif.Pbf.Tree.Ok q, Some f => Nat.eqb (length q) (length (frame_objs f))
            | _, _ => false
            end in
  ret (code_if j1 1 ++ code_if j2 2 ++ code_if j4 4)%list.

(* 6 ALLOC: frames di (procs MiB)*  -- a blob whose zlib stream inflates to more than the blob size
   limit while raw_size is small (zip bomb); MiB = what the Go heap handed out during the scan.
   Judgement 2: every scan stayed within the budget the MODEL derives for the damaged frame: the
   read buffer of Start (maxBlobSize), twice what getData lets the inflater produce
   ([inflated_bytes current]: buffer with 10% spare + the cgo build's copy), 16 MiB for everything
   else; and the case is in the class (the stream is longer than the limit, so an unbounded
   inflater would exceed the budget). *)
Definition mib : Z := 1048576.
Definition alloc_budget_mib (e : encoding) : Z :=
  maxBlobSize / mib + 2 * ((inflated_bytes current e + mib - 1) / mib) + 16.

Definition check_alloc : P (list Z) :=
  fs <- pframes ;; di <- pnat ;; obs <- plist (p <- pint ;; a <- pint ;; ret (p, a)) ;;
  let j2 :=
    match nth_error fs di with
    | Some f =>
        match f_blob f with
        | BlobOk b =>
            let e := b_enc b in
            forallb (fun '(_, a) => (0 <=? a) && (a <=? alloc_budget_mib e)) obs
            && negb (Nat.eqb (length obs) 0)
            && match e with EncZlib _ z => maxBlobSize <? inflate_len z | _ => false end
        | BlobBad => false
        end
    | None => false
    end in
  ret (code_if j2 2).

(* 7 SESSION: mode frames k calls* (code tok)*  -- one scanner driven by a call script (0 Scan, 1 Err,
   2 Header, 3 Close); responses: 0 Scan false, 1 Scan true + object, 2/3 Err nil/non-nil, 4/5
   Header error nil/non-nil, 6 Close returned.  mode 0: the first k bytes of a VALID file; mode 1:
   a whole damaged file, k = index of the damaged frame.
   Judgement 1: the scanner.go model of C06/Session.v over [scan] answers every call alike (a
   Close that does not return is a missing response list).
   Judgement 2 (on the observation alone), on the part of the script before its first Close: the
   objects returned are a prefix of those of the intact blocks (all of them if a Scan returned
   false), after the first Scan = false no Scan returns true, every Err answers alike and Header
   reports an error, and that Err is non-nil iff the input is cut off a block boundary / damaged;
   after the first Close: no object, and an Err that was non-nil stays non-nil. *)
Definition call_of (z : Z) : call :=
  if z =? 0 then KScan else if z =? 1 then KErr else if z =? 2 then KHeader else KClose.
Definition resp_code (x : resp obj) : Z * obj :=
  match x with
  | RScanFalse => (0, 0) | RObj o => (1, o)
  | RErr false => (2, 0) | RErr true => (3, 0)
  | RHeader false => (4, 0) | RHeader true => (5, 0)
  | RClosed => (6, 0)
  end.
Definition pair_eqb (a b : Z * obj) : bool := (fst a =? fst b) && (snd a =? snd b).

(* after the first Scan = false: [seen] says it was seen, [e] the Err answer seen since *)
Fixpoint sticky (seen : bool) (e : option Z) (l : list (Z * obj)) : bool :=
  match l with
  | [] => true
  | (c, _) :: r =>
      if negb seen then sticky (c =? 0) e r
      else if c =? 1 then false
      else if c =? 4 then false
      else if (c =? 2) || (c =? 3) then
        match e with
        | Some c' => (c =? c') && sticky true e r
        | None => sticky true (Some c) r
        end
      else sticky true e r
  end.
Definition returned (l : list (Z * obj)) : list obj :=
  flat_map (fun x => if fst x =? 1 then [snd x] else []) l.
Definition last_err (l : list (Z * obj)) : Z :=
  fold_left (fun a x => if (fst x =? 2) || (fst x =? 3) then fst x else a) l (-1).
(* the responses after the first Scan = false *)
Fixpoint after_end (l : list (Z * obj)) : list (Z * obj) :=
  match l with [] => [] | x :: r => if fst x =? 0 then r else after_end r end.
(* the responses before / from the first Close *)
Fixpoint split_close (l : list (Z * obj)) : list (Z * obj) * list (Z * obj) :=
  match l with
  | [] => ([], [])
  | x :: r => if fst x =? 6 then ([], l) else let '(a, b) := split_close r in (x :: a, b)
  end.
Fixpoint after_close (bad : bool) (l : list (Z * obj)) : bool :=
  match l with
  | [] => true
  | (c, _) :: r => if c =? 1 then false else if bad && (c =? 2) then false else after_close (bad || (c =? 3)) r
  end.

Definition check_session : P (list Z) :=
  mode <- pint ;; fs <- pframes ;; k <- pint ;; calls <- plist pint ;;
  resps <- plist (c <- pint ;; t <- ptok ;; ret (c, t)) ;;
  let avail := if mode =? 0 then k else total_size fs in
  let good := if mode =? 0 then frames_before fs k else firstn (Z.to_nat k) fs in
  let model := map resp_code (session fs avail (map call_of calls)) in
  let j1 := list_eqb pair_eqb model resps in
  let '(pre, post) := split_close resps in
  let ended := existsb (fun x => fst x =? 0) pre in
  let expect_err := if mode =? 0 then (if is_boundary fs k then 2 else 3) else 3 in
  let j2 := valid_file (if mode =? 0 then fs else good) && (0 <=? k) && (avail <=? total_size fs)
            && (if ended then objs_eqb (returned pre) (objs_of good)
                             && ((last_err (after_end pre) =? expect_err) || (last_err (after_end pre) =? -1))  (* -1: Err was not asked *)
                else is_prefix (returned pre) (objs_of good))
            && sticky false None pre
            && after_close (last_err (after_end pre) =? 3) post
            && negb (Nat.eqb (length resps) 0) in
  ret (code_if j1 1 ++ code_if j2 2)%list.

(* 4 TRAILER: like DAMAGE, for BYTES FOLLOWING the end of the zlib stream inside zlib_data (the data
   are intact and raw_size is right).  Both builds ignore them; an error would also satisfy the
   property: an error after the intact blocks, or success with every object (nothing invented,
   nothing lost), never a hang.  (A stream WITHOUT its adler32 trailer is plain damage: kind 2.)
   The frames carry InflTrailing; [fix_trailer] is the identity on them. *)
Definition fix_trailer (f : frame obj) : frame obj :=
  match f_blob f with
  | BlobOk (Blob (EncZlib rs InflErr) p) =>
      Frame (f_pfx f) (f_hlen f) (f_hdr f) (f_blen f) (BlobOk (Blob (EncZlib rs (InflOk rs)) p))
  | _ => f
  end.

Definition check_trailer : P (list Z) :=
  fs <- pframes ;; di <- pnat ;; obs <- plist pobs ;; _ <- pbool ;;
  let total := total_size fs in
  let fs' := (firstn di fs ++ match nth_error fs di with Some f => [fix_trailer f] | None => [] end
              ++ skipn (S di) fs)%list in
  let strict := scan current fs total in
  let lenient := scan current fs' total in
  let j1 := forallb (fun '(_, objs, oc, _, _) => agrees strict objs oc || agrees lenient objs oc) obs in
  let j2 := forallb (fun '(_, objs, oc, _, _) =>
                       ((oc =? 1) && objs_eqb objs (objs_of (firstn di fs)))
                       || ((oc =? 0) && objs_eqb objs (objs_of fs'))) obs
            && valid_file fs' && negb (Nat.eqb (length obs) 0) in
  ret (code_if j1 1 ++ code_if j2 2)%list.

Definition check_case (t : toks) : list Z :=
  match t with
  | tag :: rest =>
      let p := if tag =? 2 then check_trunc       (* zigzag: 1 -> 2, 2 -> 4 *)
               else if tag =? 4 then check_damage
               else if tag =? 6 then check_whole
               else if tag =? 8 then check_trailer
               else if tag =? 10 then check_skipdmg
               else if tag =? 12 then check_alloc
               else if tag =? 14 then check_session
               else pfail in
      match parse_all p rest with Some codes => codes | None => [0] end
  | [] => [0]
  end.
