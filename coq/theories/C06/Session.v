(* C06/Session.v — the Scanner's call interface (scanner.go: Scan, Err, Header) over the
   sequential scan model: "... an error after the objects of the intact blocks, THEN STOPS".

   scanner.go keeps ONE error slot s.err: Start's error (the first call of Scan or Header starts
   the decoder), then whatever Next returned last; Scan refuses to call Next once it is set.
   io.EOF in the slot is the clean end: Err() hides it, Header() does not (it returns s.err as
   is, so after a complete scan Header() reports io.EOF).

   [sstep] is that code; the decoder behind it is [scan] of Framing/Model.v: the objects it
   delivers, then the clean end (Done) or the error (Failed); [start_status] is decoder.Start,
   which reads the first block and decodes it only if it is the header block.

   Theorem [then_stops]: once a Scan of a scanner that was not closed has returned false, every later
   Scan returns false, every later Err returns the same value, every later Header reports an
   error, Close returns: whatever calls follow.  (After a Close in mid-scan Scan returns false too,
   with the error slot empty: Err then answers ErrScannerClosed, Header no error.) *)
From Coq Require Import ZArith List Bool Lia.
From Verif Require Import Framing.Model.
Import ListNotations.
Open Scope Z_scope.

Inductive serr := ENil | EEof | EFail.
Inductive call := KScan | KErr | KHeader | KClose.
Inductive resp (O : Type) := RObj (o : O) | RScanFalse | RErr (nonnil : bool) | RHeader (nonnil : bool)
                           | RClosed.
Arguments RObj {O}.
Arguments RScanFalse {O}.
Arguments RErr {O}.
Arguments RHeader {O}.
Arguments RClosed {O}.

(* decoder.Start on the input: nil, io.EOF (nothing to read) or another error *)
Definition start_status {O} (v : variant) (fs : list (frame O)) (avail : Z) : serr :=
  match read_file_block v (hd_error fs) avail with
  | FbErr EEOF => EEof
  | FbErr _ => EFail
  | FbOk TyHeader b _ => match decode_header v b with SObjs _ => ENil | _ => EFail end
  | FbOk TyData _ _ => ENil
  | FbOk TyOther _ _ => if v_first_other_is_data v then ENil else EFail
  | _ => EFail
  end.

Section Session.
Context {O : Type}.
Variable start : serr.          (* what Start will answer *)
Variable fin : serr.            (* what Next answers once the objects are used up: EEof or EFail *)

(* [closed]: Scanner.Close was called (it returns: decoder.Close cancels the context and waits for
   the goroutines Start has started, none if Start failed).  Close on a scanner that was never
   started is not modelled (the call scripts do not do it). *)
Record sess := Sess { started : bool; s_err : serr; feed : list O; closed : bool }.

Definition nonnil (e : serr) : bool := match e with ENil => false | _ => true end.
(* Scanner.Err: io.EOF is hidden, then the stored error, then ErrScannerClosed *)
Definition err_value (e : serr) (cl : bool) : bool :=
  match e with EFail => true | EEof => false | ENil => cl end.

Definition ensure_started (s : sess) : sess :=
  if started s then s else Sess true start (feed s) (closed s).

Definition sstep (s : sess) (c : call) : sess * resp O :=
  match c with
  | KScan =>
      let s1 := ensure_started s in
      if nonnil (s_err s1) || closed s1 then (s1, RScanFalse)
      else match feed s1 with
           | o :: t => (Sess true ENil t false, RObj o)
           | [] => (Sess true fin [] false, RScanFalse)
           end
  | KErr => (s, RErr (err_value (s_err s) (closed s)))
  | KHeader => let s1 := ensure_started s in (s1, RHeader (nonnil (s_err s1)))
  | KClose => (Sess (started s) (s_err s) (feed s) true, RClosed)
  end.

Fixpoint srun (s : sess) (cs : list call) : list (resp O) :=
  match cs with
  | [] => []
  | c :: r => let '(s', x) := sstep s c in x :: srun s' r
  end.

(* a session that has stopped: started, the error slot is set *)
Definition stopped (s : sess) : Prop := started s = true /\ nonnil (s_err s) = true.

(* after the stop: Scan false, Err the same value (the error slot is set, so Close does not change
   it), Header an error, Close returns *)
Definition quiet (e : serr) (x : resp O) : Prop :=
  x = RScanFalse \/ x = RErr (err_value e false) \/ x = RHeader true \/ x = RClosed.

Lemma err_value_set e cl : nonnil e = true -> err_value e cl = err_value e false.
Proof. destruct e; [discriminate|reflexivity|reflexivity]. Qed.

Lemma stopped_step s c : stopped s ->
  stopped (fst (sstep s c)) /\ s_err (fst (sstep s c)) = s_err s /\ quiet (s_err s) (snd (sstep s c)).
Proof.
  intros [Hs He]. destruct c; unfold sstep, ensure_started; rewrite ?Hs, ?He; cbn.
  - repeat split; try assumption. left; reflexivity.
  - repeat split; try assumption. right; left. rewrite (err_value_set _ _ He). reflexivity.
  - repeat split; try assumption. right; right; left; reflexivity.
  - repeat split; try assumption. right; right; right; reflexivity.
Qed.

Lemma stopped_run : forall cs s, stopped s -> Forall (quiet (s_err s)) (srun s cs).
Proof.
  induction cs as [|c r IH]; intros s H; [constructor|].
  cbn [srun]. destruct (stopped_step s c H) as (S' & E & Q). destruct (sstep s c) as [s' x]. cbn in S', E, Q.
  constructor; [exact Q|]. rewrite <- E. apply IH. exact S'.
Qed.

Hypothesis fin_set : nonnil fin = true.

Lemma scan_false_stops s s' : closed s = false -> sstep s KScan = (s', RScanFalse) -> stopped s'.
Proof.
  intros Hc. unfold sstep.
  assert (Hc' : closed (ensure_started s) = false).
  { unfold ensure_started. destruct (started s); exact Hc. }
  rewrite Hc', orb_false_r. destruct (nonnil (s_err (ensure_started s))) eqn:E.
  - intros H. inversion H; subst. split; [|exact E].
    unfold ensure_started. destruct (started s) eqn:Es; [exact Es|reflexivity].
  - destruct (feed (ensure_started s)); intros H; inversion H; subst. split; [reflexivity|exact fin_set].
Qed.

(* THEN STOPS *)
(* the first Scan that returns false on a scanner that was not closed sets the error slot *)
Theorem then_stops : forall s s' cs, closed s = false -> sstep s KScan = (s', RScanFalse) ->
  Forall (quiet (s_err s')) (srun s' cs).
Proof. intros s s' cs Hc H. apply stopped_run. exact (scan_false_stops s s' Hc H). Qed.

(* a Scan loop on a fresh scanner returns the decoder's objects, then false *)
Lemma scan_loop : forall (l : list O) s, started s = true -> s_err s = ENil -> closed s = false -> feed s = l ->
  srun s (repeat KScan (S (length l))) = map (@RObj O) l ++ [RScanFalse].
Proof.
  induction l as [|o t IH]; intros s Hs He Hc Hf.
  - cbn. unfold ensure_started. rewrite Hs, He, Hc, Hf. reflexivity.
  - cbn [length repeat srun]. unfold sstep, ensure_started. rewrite Hs, He, Hc, Hf. cbn [nonnil orb map app].
    f_equal. apply IH; reflexivity.
Qed.

Fixpoint sfinal (s : sess) (cs : list call) : sess :=
  match cs with [] => s | c :: r => sfinal (fst (sstep s c)) r end.

Lemma srun_app s a b : srun s (a ++ b) = srun s a ++ srun (sfinal s a) b.
Proof.
  revert s. induction a as [|c r IH]; intros s; [reflexivity|].
  cbn [app srun sfinal]. destruct (sstep s c) as [s' x]. cbn [fst]. rewrite IH. reflexivity.
Qed.

(* whatever was called before (cs1) and whatever is called after (cs2) *)
Theorem then_stops_any : forall s cs1 cs2,
  closed (sfinal s cs1) = false ->
  snd (sstep (sfinal s cs1) KScan) = RScanFalse ->
  exists e ys, srun s (cs1 ++ KScan :: cs2) = srun s cs1 ++ RScanFalse :: ys /\ Forall (quiet e) ys.
Proof.
  intros s cs1 cs2 Hc H. rewrite srun_app. cbn [srun].
  destruct (sstep (sfinal s cs1) KScan) as [s' x] eqn:E. cbn in H. subst x.
  exists (s_err s'), (srun s' cs2). split; [reflexivity|]. exact (then_stops _ _ cs2 Hc E).
Qed.

End Session.

(* the session of a scanner on input (fs, avail) *)
Definition fin_of (o : outcome) : serr := match o with Done => EEof | _ => EFail end.
Definition session {O} (fs : list (frame O)) (avail : Z) (cs : list call) : list (resp O) :=
  let r := scan current fs avail in
  srun (start_status current fs avail) (fin_of (out r)) (Sess false ENil (objects r) false) cs.
