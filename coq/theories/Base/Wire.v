(* Base/Wire.v — transport of harness cases into vm_compute.

   A case file written by the Go harness is
     Definition cases : list (list (list int)) := [ case ; case ; ... ].
   where a case is a list of chunks (<= 100 tokens each) of primitive uint63
   literals.  Everything here is executable; no theorem mentions [int].

   Token encoding of a signed 64-bit integer v (Go: wire.Int):
     z = zigzag64 v  (as an unsigned 64-bit number)
     z < 2^62   ->  one token  z
     otherwise  ->  three tokens  2^62, z / 2^32, z mod 2^32
   Strings/byte strings: length, then one token per byte.
   Lists: length, then the elements.  Options: 0 | 1 x.  Bools: 0 | 1. *)

From Coq Require Import List ZArith Uint63 String Ascii.
Import ListNotations.
Open Scope Z_scope.

Definition toks := list Z.
Definition P (A : Type) := toks -> option (A * toks).

Definition ret {A} (a : A) : P A := fun t => Some (a, t).
Definition bind {A B} (p : P A) (f : A -> P B) : P B :=
  fun t => match p t with Some (a, t') => f a t' | None => None end.
Definition pfail {A} : P A := fun _ => None.

Declare Scope wire_scope.
Delimit Scope wire_scope with wire.
Notation "x <- p ;; q" := (bind p (fun x => q))
  (at level 61, p at next level, right associativity) : wire_scope.
Open Scope wire_scope.

Definition ptok : P Z := fun t => match t with x :: r => Some (x, r) | [] => None end.

Definition unzig (z : Z) : Z := if Z.even z then z / 2 else - ((z + 1) / 2).
Definition zig (v : Z) : Z := if 0 <=? v then 2 * v else - 2 * v - 1.

Definition esc : Z := 4611686018427387904. (* 2^62 *)

Definition pint : P Z :=
  x <- ptok ;;
  if x =? esc then
    (hi <- ptok ;; lo <- ptok ;; ret (unzig (hi * 4294967296 + lo)))
  else ret (unzig x).

Definition pnat : P nat := x <- pint ;; if x <? 0 then pfail else ret (Z.to_nat x).
Definition pbool : P bool := x <- pint ;; ret (negb (x =? 0)).

Fixpoint prep {A} (n : nat) (p : P A) : P (list A) :=
  match n with
  | O => ret []
  | S k => a <- p ;; r <- prep k p ;; ret (a :: r)
  end.

Definition plist {A} (p : P A) : P (list A) := n <- pnat ;; prep n p.
Definition popt {A} (p : P A) : P (option A) :=
  b <- pbool ;; if b then (a <- p ;; ret (Some a)) else ret None.
Definition ppair {A B} (p : P A) (q : P B) : P (A * B) := a <- p ;; b <- q ;; ret (a, b).

(* byte strings are lists of Z in 0..255; text strings are Coq strings *)
Definition pbytes : P (list Z) := plist ptok.
Definition byte_ascii (b : Z) : ascii := ascii_of_N (Z.to_N b).
Fixpoint string_of_bytes (l : list Z) : string :=
  match l with [] => EmptyString | b :: r => String (byte_ascii b) (string_of_bytes r) end.
Fixpoint bytes_of_string (s : string) : list Z :=
  match s with EmptyString => [] | String a r => Z.of_N (N_of_ascii a) :: bytes_of_string r end.
Definition pstring : P string := l <- pbytes ;; ret (string_of_bytes l).

(* run a parser on a whole case: all tokens must be consumed *)
Definition parse_all {A} (p : P A) (t : toks) : option A :=
  match p t with Some (a, []) => Some a | _ => None end.

Definition case_toks (c : list (list int)) : toks := List.map Uint63.to_Z (List.concat c).

(* [chk] returns the list of failed judgement codes for one case
   (empty = all judgements hold).  Code 0 is reserved for "case did not parse". *)
Fixpoint run_from (chk : toks -> list Z) (i : Z) (cs : list (list (list int)))
  : list (Z * list Z) :=
  match cs with
  | [] => []
  | c :: r =>
      match chk (case_toks c) with
      | [] => run_from chk (i + 1) r
      | codes => (i, codes) :: run_from chk (i + 1) r
      end
  end.
Definition run_cases chk cs := run_from chk 0 cs.

(* helpers for writing check functions *)
Definition code_if (b : bool) (c : Z) : list Z := if b then [] else [c].

Fixpoint list_eqb {A} (eqb : A -> A -> bool) (a b : list A) : bool :=
  match a, b with
  | [], [] => true
  | x :: a', y :: b' => eqb x y && list_eqb eqb a' b'
  | _, _ => false
  end.
Definition opt_eqb {A} (eqb : A -> A -> bool) (a b : option A) : bool :=
  match a, b with
  | None, None => true
  | Some x, Some y => eqb x y
  | _, _ => false
  end.
Definition pair_eqb {A B} (ea : A -> A -> bool) (eb : B -> B -> bool) (x y : A * B) : bool :=
  ea (fst x) (fst y) && eb (snd x) (snd y).
Definition bytes_eqb := list_eqb Z.eqb.
