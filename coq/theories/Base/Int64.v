(* Base/Int64.v — Go's fixed-width two's-complement arithmetic written out in Z. *)
From Coq Require Import ZArith Lia.
Open Scope Z_scope.

Definition two63 : Z := 9223372036854775808.
Definition two64 : Z := 18446744073709551616.
Definition two31 : Z := 2147483648.
Definition two32 : Z := 4294967296.

(* the value of an int64 computation whose mathematical result is z *)
Definition wrap64 (z : Z) : Z := (z + two63) mod two64 - two63.
Definition wrap32 (z : Z) : Z := (z + two31) mod two32 - two31.
(* uint64 / uint32 *)
Definition uwrap64 (z : Z) : Z := z mod two64.
Definition uwrap32 (z : Z) : Z := z mod two32.

Definition in_int64 (z : Z) : Prop := - two63 <= z < two63.
Definition in_int64b (z : Z) : bool := (- two63 <=? z) && (z <? two63).

Lemma wrap64_id z : in_int64 z -> wrap64 z = z.
Proof.
  unfold in_int64, wrap64, two63, two64; intros H.
  rewrite Z.mod_small by lia. lia.
Qed.

Lemma wrap64_range z : in_int64 (wrap64 z).
Proof.
  unfold in_int64, wrap64, two63, two64.
  pose proof (Z.mod_pos_bound (z + 9223372036854775808) 18446744073709551616 ltac:(lia)). lia.
Qed.

Lemma wrap32_id z : - two31 <= z < two31 -> wrap32 z = z.
Proof.
  unfold wrap32, two31, two32; intros H.
  rewrite Z.mod_small by lia. lia.
Qed.

Lemma wrap64_idem z : wrap64 (wrap64 z) = wrap64 z.
Proof. apply wrap64_id, wrap64_range. Qed.
