(* C12/Proofs.v — the witness history (two versions of a node in the same second), the refutation
   of determinism for the comparison function of the pinned snapshot, and non-vacuity instances. *)
From Coq Require Import ZArith List Bool Lia Permutation Sorted Arith.
From Verif Require Import Annotate.Model Annotate.SortProofs Annotate.Plans Annotate.Determinism.
Import ListNotations.
Open Scope Z_scope.

(* osm.CommitInfoStart of the pinned snapshot, 2012-09-12T09:30:03Z, in Unix ns *)
Definition w_cis : Z := 1347442203000000000.
Definition w_t (s : Z) : Z := w_cis + 86400000000000 + s * 1000000000.

(* node 100: v1 before the way, v2 and v3 in the same second after it *)
Definition w_versions : list hver :=
  [ mkHver 1 11 (w_t 0) (w_t 0) 1 0 false true;
    mkHver 2 12 (w_t 7200) (w_t 7200) 2 0 false true;
    mkHver 3 13 (w_t 7200) (w_t 7200) 3 0 false true ].

Definition w_hist (fid : Z) : hres :=
  if fid =? 100 then HFound (to_child_list 100 w_versions) else HNotFound.

Definition w_parents : list parent :=
  [ mkParent 1 true (w_t 3600) (w_t 3600) [mkRef 100 0 0 0 0 0] ].

Definition w_opts : opts := mkOpts 1800000000000 false false None.

Definition w_entries := map_child_locs w_parents None.

Lemma w_hist_ok : hist_ok w_hist.
Proof.
  intros fid cl H a b Ha Hb Hv. unfold w_hist in H.
  destruct (fid =? 100); [|discriminate]. inversion H; subst cl. clear H.
  vm_compute in Ha, Hb.
  destruct Ha as [<-|[<-|[<-|[]]]]; destruct Hb as [<-|[<-|[<-|[]]]];
    try reflexivity; vm_compute in Hv; discriminate Hv.
Qed.

Lemma w_valid_order : valid_order w_opts w_parents w_entries.
Proof. apply Permutation_refl. Qed.

Definition sort_a (lt : update -> update -> bool) := isort lt.
Definition sort_b (lt : update -> update -> bool) := fun l => isort lt (rev l).

(* With the comparison of the pinned snapshot (index, timestamp) two results of sort.Sort that
   its contract allows give different update lists, and applying the second leaves the OLDER
   version of the node. *)
Lemma compute_order_refuted_v0 :
  exists r r',
    sort_spec less_v0 (sort_a less_v0) /\ sort_spec less_v0 (sort_b less_v0) /\
    compute_with w_cis w_opts w_parents w_hist w_entries (sort_a less_v0) = Ok r /\
    compute_with w_cis w_opts w_parents w_hist w_entries (sort_b less_v0) = Ok r' /\
    map (map u_version) (snd r) = [[3; 2]] /\ map (map u_version) (snd r') = [[2; 3]] /\
    (exists refs pend, apply_updates_up_to false (w_t 9000) (flat_map p_refs (fst r)) (concat (snd r))
                       = ApplyOk refs pend /\ map r_version refs = [2]) /\
    (exists refs pend, apply_updates_up_to false (w_t 9000) (flat_map p_refs (fst r')) (concat (snd r'))
                       = ApplyOk refs pend /\ map r_version refs = [3]).
Proof.
  eexists. eexists.
  split; [apply isort_sort_spec, less_v0_asym|].
  split; [apply isort_rev_sort_spec, less_v0_asym|].
  split; [vm_compute; reflexivity|]. split; [vm_compute; reflexivity|].
  split; [vm_compute; reflexivity|]. split; [vm_compute; reflexivity|].
  split; eexists; eexists; split; vm_compute; reflexivity.
Qed.

(* the same history with the repaired comparison: both sorts agree (non-vacuity instance) *)
Lemma w_deterministic_instance :
  exists r,
    compute_with w_cis w_opts w_parents w_hist w_entries (sort_a less) = Ok r /\
    compute_with w_cis w_opts w_parents w_hist w_entries (sort_b less) = Ok r /\
    map (map u_version) (snd r) = [[2; 3]].
Proof. eexists. repeat split; vm_compute; reflexivity. Qed.
