(* C12/Check.v — correspondence + property oracle for one harness case (executable only).

   tag 1  ANN : <annotation input (Annotate/Case.v)> nruns  outcomes : list outcome
                the implementation annotated [nruns] deep copies of the input (fresh maps, so
                fresh iteration orders); [outcomes] are the distinct outcomes, in order of first
                appearance (the harness compares the serialised results byte for byte).
   tag 2  SORT: input : list update   observed : list update     (osm.Updates.SortByIndex)

   codes: 1 model <> implementation; 2 the property fails on the observation:
            - some runs fail and others succeed, or two successful runs differ, or
            - an update list is not ordered by (index, timestamp, version);
          0 case did not parse. *)
From Coq Require Import ZArith List Bool.
From Verif Require Import Base.Wire Annotate.Model Annotate.Case Annotate.GenConst.
Import ListNotations.
Open Scope Z_scope.
Open Scope wire_scope.

(* SPEC: lexicographic order on (index, timestamp, version) *)
Definition itv_leb (a b : update) : bool :=
  let ia := Z.of_nat (u_index a) in let ib := Z.of_nat (u_index b) in
  (ia <? ib) ||
  ((ia =? ib) && ((u_timestamp a <? u_timestamp b) ||
                  ((u_timestamp a =? u_timestamp b) && (u_version a <=? u_version b)))).

Fixpoint sortedb {A} (le : A -> A -> bool) (l : list A) : bool :=
  match l with
  | a :: ((b :: _) as r) => le a b && sortedb le r
  | _ => true
  end.

Definition outcome_eqb (a b : outcome) : bool :=
  (oc_status a =? 0) && (oc_status b =? 0)
  && list_eqb (list_eqb ref_eqb) (oc_parents a) (oc_parents b)
  && list_eqb (list_eqb update_eqb) (oc_updates a) (oc_updates b).

Definition check_ann : P (list Z) :=
  i <- pinput ;; nruns <- pnat ;; outs <- plist poutcome ;;
  let m := model_outcome i in
  let j1 := forallb (outcome_matches i m) outs && negb (Nat.eqb (length outs) 0) in
  let j2 :=
    match outs with
    | [] => false
    | o0 :: rest =>
        if oc_status o0 =? 0 then
          forallb (outcome_eqb o0) rest
          && forallb (fun o => forallb (sortedb itv_leb) (oc_updates o)) outs
        else forallb (fun o => negb (oc_status o =? 0)) rest
    end in
  ret (code_if j1 1 ++ code_if j2 2 ++ code_if (i_cis i =? commit_info_start) 3)%list.

Definition check_sort : P (list Z) :=
  inp <- plist pupdate ;; obs <- plist pupdate ;;
  let j1 := list_eqb update_eqb (isort less inp) obs in
  (* permutation test independent of the comparison under test: equal multiplicities *)
  let cnt := fun (l : list update) (u : update) => length (filter (update_eqb u) l) in
  let j2 := sortedb itv_leb obs && Nat.eqb (length inp) (length obs)
            && forallb (fun u => Nat.eqb (cnt inp u) (cnt obs u)) inp in
  ret (code_if j1 1 ++ code_if j2 2)%list.

(* tag 3  BULK: children later_versions nruns | status count ordered hashes windows
   one parent version; every child has one version before it and [later_versions] visible versions
   after it, so the SPECIFICATION (C11 updates_exact, last parent version) demands exactly
   children * later_versions updates.  Run-to-run identity is decided HERE on the hashes of the
   runs; the order is re-checked HERE on windows of the list (the full-list flag [ordered] is the
   harness's). *)
Definition check_bulk : P (list Z) :=
  nch <- pint ;; nver <- pint ;; nruns <- pint ;;
  st <- pint ;; count <- pint ;; ordered <- pbool ;;
  hashes <- plist ptok ;;                 (* 56 bits of the SHA-256 of each run's serialised result *)
  windows <- plist (plist pupdate) ;;     (* the list around its beginning, 2^15, 2^16 and its end *)
  let identical := match hashes with
                   | [] => false
                   | h :: r => forallb (Z.eqb h) r && (Z.of_nat (length hashes) =? nruns)
                   end in
  let j := (st =? 0) && (count =? nch * nver) && ordered && identical
           && forallb (sortedb itv_leb) windows in
  ret (code_if j 2)%list.

Definition check_case (t : toks) : list Z :=
  match parse_all (tag <- pint ;;
                   if tag =? 1 then check_ann else if tag =? 2 then check_sort else if tag =? 3 then check_bulk else pfail) t with
  | Some codes => codes
  | None => [0]
  end.
