(* C20/Closed.v — closed forms of getFromAPI and of a whole call, used ONLY as intermediate
   objects of the proofs: ProofsCall.v shows that the interpreter of the generated effect
   sequence (Model.get_from_api_w over GenOsmapi.api_steps) equals them for the current source;
   that equation is the obligation that breaks when the sequence of effects changes. *)
From Coq Require Import ZArith List String Ascii Bool.
From Verif Require Import C20.Syntax C20.Text C20.Types C20.Model.
From VerifGen Require Import GenOsmapi.
Import ListNotations.
Open Scope Z_scope.
Open Scope list_scope.

Definition get_from_api_c (lim : limiter) (url : str) (target : string) (resp : response)
  : list event * errv * option decoded :=
  let request := EvRequest http_method url in
  let after_request :=
    match status_error (r_status resp) with
    | Some t => (Some t, None)
    | None => match decode target (r_body resp) with
              | Some d => (None, Some d)
              | None => (Some ""%string, None)
              end
    end in
  let wait_ok := match lim with LimiterFails => false | _ => true end in
  match lim, wait_before_do with
  | NoLimiter, _ => ([request], fst after_request, snd after_request)
  | _, true =>
      if wait_ok || negb wait_error_returns
      then ([EvWait; request], fst after_request, snd after_request)
      else ([EvWait], Some ""%string, None)
  | _, false =>
      (* (not the current source) Wait after the request *)
      if wait_ok || negb wait_error_returns
      then ([request; EvWait], fst after_request, snd after_request)
      else ([request; EvWait], Some ""%string, None)
  end.


Definition call_c (configured : str) (lim : limiter) (ep : endpoint) (resp : response) : outcome :=
  match find_method (method_name ep), url_of configured ep with
  | Some m, Ok url =>
      let '(tr, err, d) := get_from_api_c lim url (m_target m) resp in
      match err, d with
      | None, Some d =>
          match select (m_ret m) d with
          | SData l => {| o_trace := tr; o_err := None; o_data := Some l; o_panic := false; o_bad := false |}
          | SError => {| o_trace := tr; o_err := Some ""%string; o_data := None; o_panic := false; o_bad := false |}
          | SPanic => {| o_trace := tr; o_err := None; o_data := None; o_panic := true; o_bad := false |}
          | SBad => bad_outcome
          end
      | Some t, _ => {| o_trace := tr; o_err := Some t; o_data := None; o_panic := false; o_bad := false |}
      | None, None => bad_outcome
      end
  | Some _, Reject =>
      {| o_trace := []; o_err := Some ""%string; o_data := None; o_panic := false; o_bad := false |}
  | _, _ => bad_outcome
  end.


Definition get_from_api_wc (w : world) (url : str) (target : string)
  : list event * errv * option decoded :=
  let '(reqs, tr) := client_do w url in
  let after := match tr with
               | TResp r => after_response target r
               | TErr => (Some ""%string, None)
               end in
  (* Limiter.Wait(ctx) fails when the limiter refuses or the context is already done *)
  let wait_ok := match w_lim w, w_ctx w with
                 | LimiterFails, _ | _, CtxCancelledBefore => false
                 | _, _ => true
                 end in
  match w_lim w, wait_before_do with
  | NoLimiter, _ => (reqs, fst after, snd after)
  | _, true =>
      if wait_ok || negb wait_error_returns
      then (EvWait :: reqs, fst after, snd after)
      else ([EvWait], Some ""%string, None)
  | _, false =>
      if wait_ok || negb wait_error_returns
      then (reqs ++ [EvWait], fst after, snd after)
      else (reqs ++ [EvWait], Some ""%string, None)
  end.


Definition call_wc (configured : str) (w : world) (ep : endpoint) : outcome :=
  match find_method (method_name ep), url_of configured ep with
  | Some m, Ok url =>
      let '(tr, err, d) := get_from_api_wc w url (m_target m) in finish m tr err d
  | Some _, Reject =>
      {| o_trace := []; o_err := Some ""%string; o_data := None; o_panic := false; o_bad := false |}
  | _, _ => bad_outcome
  end.

