(* C20/SpecApi.v — the specification, written from the OSM API v0.6 documentation
   (https://wiki.openstreetmap.org/wiki/API_v0.6) and the property text, independently of the
   Go source: the documented path and query parameters of every call, what the status codes
   mean, which calls return one element.  Nothing here reads gen/GenOsmapi.v.

     Read:        GET /api/0.6/[node|way|relation]/#id
     Version:     GET /api/0.6/[node|way|relation]/#id/#version
     History:     GET /api/0.6/[node|way|relation]/#id/history
     Multi fetch: GET /api/0.6/[nodes|ways|relations]?#parameters   (nodes=1,2,3)
     Relations for element: GET /api/0.6/[node|way|relation]/#id/relations
     Ways for node:         GET /api/0.6/node/#id/ways
     Full:        GET /api/0.6/[way|relation]/#id/full
     Map:         GET /api/0.6/map?bbox=left,bottom,right,top
     Changeset:   GET /api/0.6/changeset/#id?include_discussion=true
     Download:    GET /api/0.6/changeset/#id/download
     Notes:       GET /api/0.6/notes?bbox=left,bottom,right,top   (limit 1..10000, closed)
     Note:        GET /api/0.6/notes/#id
     Search:      GET /api/0.6/notes/search?q=SearchTerm          (limit, closed)
     User:        GET /api/0.6/user/#id
   plus the osm.fyi extension documented in options.go:  at=2006-01-02T15:04:05Z  (UTC). *)
From Coq Require Import ZArith List String Ascii Bool.
From Verif Require Import C20.Text C20.Types.
Import ListNotations.
Open Scope Z_scope.
Open Scope list_scope.

Definition doc_base : str := lit "http://api.openstreetmap.org/api/0.6".

(* Datasource.BaseURL, or the public API when none is configured *)
Definition spec_base (configured : str) : str :=
  match configured with [] => doc_base | _ => configured end.

(* the configured bases the statements are about: an absolute http(s) URL with a host, made of
   characters net/url sends unchanged (RFC 3986 unreserved / sub-delims / ":" "@" "/" and
   well-formed percent escapes), hence without query, fragment, spaces, control or non-ASCII
   characters; or none (the package default) *)
Definition wf_char (a : ascii) : bool :=
  is_alnum a || existsb (Ascii.eqb a) (lit "-._~:/@!$&'()*+,;=%").

Definition base_wf (cfg : str) : bool :=
  match cfg with
  | [] => true
  | _ =>
      match http_rest cfg with
      | Some (h :: _) => negb (Ascii.eqb h "/") && forallb wf_char cfg && negb (bad_percent cfg)
      | _ => false
      end
  end.

Definition ename (e : elem) : str :=
  match e with Node => lit "node" | Way => lit "way" | Relation => lit "relation" end.
Definition fname (e : full_elem) : str :=
  match e with FWay => lit "way" | FRelation => lit "relation" end.
Definition plural (e : elem) : str := ename e ++ lit "s".

Definition sl : str := lit "/".

(* path below the API base *)
Definition spec_path (ep : endpoint) : str :=
  match ep with
  | Get e id _ => sl ++ ename e ++ sl ++ dec id
  | Multi e _ _ => sl ++ plural e
  | Version e id v => sl ++ ename e ++ sl ++ dec id ++ sl ++ dec v
  | History e id => sl ++ ename e ++ sl ++ dec id ++ lit "/history"
  | NodeWays id _ => lit "/node/" ++ dec id ++ lit "/ways"
  | RelationsOf e id _ => sl ++ ename e ++ sl ++ dec id ++ lit "/relations"
  | Full e id _ => sl ++ fname e ++ sl ++ dec id ++ lit "/full"
  | Map _ _ => lit "/map"
  | Changeset id | ChangesetWithDiscussion id => lit "/changeset/" ++ dec id
  | ChangesetDownload id => lit "/changeset/" ++ dec id ++ lit "/download"
  | Note id => lit "/notes/" ++ dec id
  | Notes _ _ => lit "/notes"
  | NotesSearch _ _ => lit "/notes/search"
  | User id => lit "/user/" ++ dec id
  end.

(* a decoded query value is either a text or a bounding box read as four numbers *)
Inductive qval := QText (s : str) | QBBox (b : bounds) | QTime (unix : Z).

(* ---------- the time of the at= parameter: the specification's own calendar ----------

   Independent of the model's formatter (Text.civil_of_unix / fmt_time): the specification READS
   the transmitted text 2006-01-02T15:04:05Z, checks that it names a date of the proleptic
   Gregorian calendar, and counts the seconds from 1970-01-01T00:00:00Z to it with the textbook
   day count (whole years, leap days every 4th year except centuries not divisible by 400,
   month lengths).  No inverse (seconds -> date) is defined here. *)

Definition is_leap (y : Z) : bool :=
  (y mod 4 =? 0) && (negb (y mod 100 =? 0) || (y mod 400 =? 0)).

Definition days_in_month (y m : Z) : Z :=
  if m =? 2 then (if is_leap y then 29 else 28)
  else if (m =? 4) || (m =? 6) || (m =? 9) || (m =? 11) then 30 else 31.

(* leap years among the years 1 .. y *)
Definition leaps_upto (y : Z) : Z := y / 4 - y / 100 + y / 400.

(* days from 1970-01-01 to the first day of year y *)
Definition days_before_year (y : Z) : Z := 365 * (y - 1970) + (leaps_upto (y - 1) - leaps_upto 1969).

Definition days_before_month (y m : Z) : Z :=
  fold_left (fun acc k => acc + days_in_month y k) (map Z.of_nat (seq 1 (Z.to_nat (m - 1)))) 0.

Definition days_from_civil (y m d : Z) : Z := days_before_year y + days_before_month y m + (d - 1).

Definition valid_date (y m d : Z) : bool := (1 <=? m) && (m <=? 12) && (1 <=? d) && (d <=? days_in_month y m).

Definition unix_of_civil (y m d hh mi ss : Z) : Z :=
  days_from_civil y m d * 86400 + hh * 3600 + mi * 60 + ss.

Definition dig (a : ascii) : option Z := if is_digit a then Some (code a - 48) else None.

Definition num2 (a b : ascii) : option Z :=
  match dig a, dig b with Some x, Some y => Some (10 * x + y) | _, _ => None end.
Definition num4 (a b c d : ascii) : option Z :=
  match num2 a b, num2 c d with Some x, Some y => Some (100 * x + y) | _, _ => None end.

(* YYYY-MM-DDTHH:MM:SSZ naming the instant [unix] (UTC, no leap seconds) *)
Definition time_text_ok (unix : Z) (s : str) : bool :=
  match s with
  | [y1; y2; y3; y4; d1; m1; m2; d2; a1; a2; t; h1; h2; c1; i1; i2; c2; s1; s2; z] =>
      Ascii.eqb d1 "-" && Ascii.eqb d2 "-" && Ascii.eqb t "T" && Ascii.eqb c1 ":" && Ascii.eqb c2 ":" &&
      Ascii.eqb z "Z" &&
      match num4 y1 y2 y3 y4, num2 m1 m2, num2 a1 a2, num2 h1 h2, num2 i1 i2, num2 s1 s2 with
      | Some y, Some m, Some d, Some hh, Some mi, Some ss =>
          valid_date y m d && (hh <? 24) && (mi <? 60) && (ss <? 60) &&
          (unix_of_civil y m d hh mi ss =? unix)
      | _, _, _, _, _, _ => false
      end
  | _ => false
  end.

(* the instants that have such a text: years 0000 .. 9999 *)
Definition time_in_range (unix : Z) : bool := (-62167219200 <=? unix) && (unix <=? 253402300799).

Definition at_param (o : fopt) : str * qval := match o with At t => (lit "at", QTime t) end.
Definition note_param (o : nopt) : str * qval :=
  match o with
  | Limit n => (lit "limit", QText (dec n))
  | MaxDaysClosed n => (lit "closed", QText (dec n))
  end.

(* decoded query parameters, in order *)
Definition spec_query (ep : endpoint) : list (str * qval) :=
  match ep with
  | Get _ _ o | NodeWays _ o | RelationsOf _ _ o | Full _ _ o => map at_param o
  | Multi e ids o => (plural e, QText (join (lit ",") (map dec ids))) :: map at_param o
  | Map b o => (lit "bbox", QBBox b) :: map at_param o
  | ChangesetWithDiscussion _ => [(lit "include_discussion", QText (lit "true"))]
  | Notes b o => (lit "bbox", QBBox b) :: map note_param o
  | NotesSearch q o => (lit "q", QText q) :: map note_param o
  | Version _ _ _ | History _ _ | Changeset _ | ChangesetDownload _ | Note _ | User _ => []
  end.

(* the at= times have a text of the documented form: years 0000 .. 9999 *)
Definition fopt_in_range (o : fopt) : bool := match o with At t => time_in_range t end.
Definition times_in_range (ep : endpoint) : bool :=
  match ep with
  | Get _ _ o | NodeWays _ o | RelationsOf _ _ o | Full _ _ o | Multi _ _ o | Map _ o =>
      forallb fopt_in_range o
  | _ => true
  end.

(* documented validity of options: limit in [1, 10000] *)
Definition nopt_valid (o : nopt) : bool :=
  match o with Limit n => (1 <=? n) && (n <=? 10000) | MaxDaysClosed _ => true end.
Definition options_valid (ep : endpoint) : bool :=
  match ep with
  | Notes _ o | NotesSearch _ o => forallb nopt_valid o
  | _ => true
  end.

(* ---------- numbers in a bbox ---------- *)

(* RESOLUTION ASSUMPTION OF THIS SPECIFICATION.  The property text asks for "the documented API
   v0.6 path for its ARGUMENTS"; for a bounding box the arguments are four float64 numbers and
   the documentation (wiki.openstreetmap.org/wiki/API_v0.6, "Retrieving map data by bounding
   box: GET /api/0.6/map?bbox=left,bottom,right,top" — "left is the longitude of the left
   (westernmost) side of the bounding box", ...) says the URL carries those numbers.  A decimal
   text cannot carry every float64 exactly in a useful length, so the specification has to say
   at which resolution "the same number" is meant.  It takes the resolution of OSM coordinates
   themselves: the wiki page "Node" ("Latitude ... decimal number >= -90.0000000 and <= 90.0000000
   with 7 decimal places", likewise longitude) and the API's own XML, which prints lat/lon with 7
   decimals; the database stores integers of 10^-7 degree.  A transmitted coordinate is faithful
   when it differs from the argument by at most half a unit of that resolution:
     | (-1)^qn * num / 10^k  -  (-1)^neg * m * 2^e |  <=  1 / (2 * 10^7)
   Two boxes that differ by less contain the same OSM elements; boxes that differ in the 7th
   decimal need not.  This choice is NOT in the property text; it is recorded as an assumption in
   checks.d/C20.json and in the finding's entry.  Under a coarser choice (six decimals) the
   package's former %f formatting was already faithful (C20_percent_f_is_lossy shows it is not
   at seven). *)
Definition coord_within (inv_tol : Z) (x : fl) (q : bool * Z * nat) : bool :=
  let '(qn, num, k) := q in
  (f_class x =? 0) &&
  let up := 2 ^ (Z.max 0 (- f_e x)) in        (* clears the binary denominator *)
  let a := (if qn then - num else num) * up in
  let b := (if f_neg x then - f_m x else f_m x) * 2 ^ (Z.max 0 (f_e x)) * 10 ^ Z.of_nat k in
  (* q - x = (a - b) / (up * 10^k) *)
  inv_tol * Z.abs (a - b) <=? up * 10 ^ Z.of_nat k.

(* [strict]: half a unit of the 7th decimal.  not strict: half a unit of the 6th decimal — used
   only to keep judging the rest of a request whose bbox falls in the known-finding class *)
Definition coord_faithful (strict : bool) : fl -> bool * Z * nat -> bool :=
  coord_within (if strict then 20000000 else 2000000).

Definition coord_text_ok (strict : bool) (x : fl) (s : str) : bool :=
  match read_decimal s with Some q => coord_faithful strict x q | None => false end.

(* bbox=left,bottom,right,top *)
Definition bbox_text_ok (strict : bool) (b : bounds) (s : str) : bool :=
  match split_on "," s with
  | [l; bo; r; t] =>
      coord_text_ok strict (MinLon b) l && coord_text_ok strict (MinLat b) bo &&
      coord_text_ok strict (MaxLon b) r && coord_text_ok strict (MaxLat b) t
  | _ => false
  end.

Definition qval_ok (strict : bool) (v : qval) (s : str) : bool :=
  match v with
  | QText t => str_eqb t s
  | QBBox b => bbox_text_ok strict b s
  | QTime t => time_text_ok t s
  end.

Fixpoint query_ok (strict : bool) (spec : list (str * qval)) (got : list (str * str)) : bool :=
  match spec, got with
  | [], [] => true
  | (k, v) :: spec', (k', s) :: got' =>
      str_eqb k k' && qval_ok strict v s && query_ok strict spec' got'
  | _, _ => false
  end.

(* the request a server must see for [ep] under the configured base: split the URL at the first
   '?', compare the part before with base ++ documented path, decode the query *)
Definition request_ok_at (strict : bool) (configured : str) (ep : endpoint) (url : str) : bool :=
  let '(path, raw) := split_target url in
  str_eqb path (spec_base configured ++ spec_path ep) &&
  match decode_query raw with
  | Some kvs => query_ok strict (spec_query ep) kvs
  | None => false
  end.
Definition request_ok := request_ok_at true.

(* ---------- statuses and results ---------- *)

Definition status_class (code : Z) : err_class :=
  if code =? 200 then CNone
  else if code =? 404 then CNotFound
  else if code =? 403 then CForbidden
  else if code =? 410 then CGone
  else if code =? 414 then CURITooLong
  else CUnexpected.

Definition kind_of (e : elem) : Z := match e with Node => 1 | Way => 2 | Relation => 3 end.

(* calls that return one element / a list of one kind / a whole document *)
Inductive shape := One (k : Z) | Many (k : Z) | Whole | WholeChange.

Definition shape_of (ep : endpoint) : shape :=
  match ep with
  | Get e _ _ | Version e _ _ => One (kind_of e)
  | Changeset _ | ChangesetWithDiscussion _ => One 4
  | Note _ => One 5
  | User _ => One 6
  | Multi e _ _ | History e _ => Many (kind_of e)
  | NodeWays _ _ => Many 2
  | RelationsOf _ _ _ => Many 3
  | Notes _ _ | NotesSearch _ _ => Many 5
  | Full _ _ _ | Map _ _ => Whole
  | ChangesetDownload _ => WholeChange
  end.

Definition expect_one (ep : endpoint) : bool :=
  match shape_of ep with One _ => true | _ => false end.

Definition count_kind (k : Z) (els : list el) : Z :=
  Z.of_nat (List.length (filter (fun e => fst e =? k) els)).

Definition by_kind (els : list el) : list el :=
  flat_map (fun k => filter (fun e => fst e =? k) els) [1; 2; 3; 4; 5; 6].
Definition tagged (s : Z) (els : list el) : list el :=
  map (fun e => (10 * s + fst e, snd e)) (by_kind els).

Inductive expected := XData (l : list el) | XErr (c : err_class).

(* what a call must return for a response *)
Definition spec_result (ep : endpoint) (resp : response) : expected :=
  if negb (r_status resp =? 200) then XErr (status_class (r_status resp))
  else
    match r_body resp, shape_of ep with
    | BMalformed, _ => XErr COther
    | BOsm els, One k =>
        if count_kind k els =? 1 then XData (filter (fun e => fst e =? k) els) else XErr COther
    | BOsm els, Many k => XData (filter (fun e => fst e =? k) els)
    | BOsm els, Whole => XData (by_kind els)
    | BOsm _, WholeChange => XData []              (* no create/modify/delete sections; NB: that a document with another root element is
                                                      accepted at all (here and in the next two lines) is what encoding/xml does with these
                                                      structs (no XMLName), not something the API documents; the API never answers so *)
    | BChange _ _ _, One _ => XErr COther          (* an osmChange document has no top-level elements *)
    | BChange _ _ _, (Many _ | Whole) => XData []
    | BChange c m d, WholeChange => XData (tagged 1 c ++ tagged 2 m ++ tagged 3 d)
    end.

(* the request trace: Wait first when a limiter is set; no request when Wait fails or an option
   is invalid *)
Inductive xevent := XWait | XGet.
Definition spec_events (lim : limiter) (ep : endpoint) : list xevent :=
  if negb (options_valid ep) then []
  else match lim with
       | NoLimiter => [XGet]
       | LimiterOk => [XWait; XGet]
       | LimiterFails => [XWait]
       end.

(* ---------- the same, in a world with redirects and cancellation ----------

   What "exactly one GET" means when the configured http.Client follows redirects: the PACKAGE
   issues one request, to the documented URL, after one Wait; if the server answers 3xx with a
   Location and the client's policy follows it, net/http issues the further GETs the server
   named (at most 10 requests in all) and the call's result is that of the final answer.  With
   a policy that does not follow (or a 3xx without Location) the 3xx itself is the answer: an
   unexpected status.  A context cancelled before the call sends nothing (a limiter, asked
   first, refuses); one cancelled in flight has sent the one request; both are ordinary
   errors. *)

Definition permitted (w : world) (ep : endpoint) : bool :=
  options_valid ep &&
  match w_lim w with LimiterFails => false | _ => true end &&
  match w_ctx w with CtxCancelledBefore => false | _ => true end.

Definition waits (w : world) (ep : endpoint) : bool :=
  options_valid ep && match w_lim w with NoLimiter => false | _ => true end.

(* the Locations net/http goes on to request *)
Definition spec_followed (w : world) : list str :=
  match w_ctx w with
  | CtxLive => if w_follow w then firstn 9 (w_hops w) else []
  | _ => []
  end.

(* a redirect answer that is handed back to the package has a status other than 200 (only
   matters when there is such an answer and the client does not follow it) *)
Definition redirect_status_ok (w : world) : bool :=
  match w_hops w with [] => true | _ :: _ => w_follow w || negb (w_hop_status w =? 200) end.

Definition spec_result_w (w : world) (ep : endpoint) : expected :=
  match w_ctx w with
  | CtxCancelledBefore | CtxCancelledDuring => XErr COther
  | CtxLive =>
      match w_hops w with
      | [] => spec_result ep (w_resp w)
      | _ :: _ =>
          if w_follow w then
            if Z.of_nat (List.length (w_hops w)) <=? 9 then spec_result ep (w_resp w)
            else XErr COther
          else XErr (status_class (w_hop_status w))
      end
  end.
