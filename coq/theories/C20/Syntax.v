(* C20/Syntax.v — the small symbolic language in which translator/cmd/osmapi re-emits, on
   every run, how each exported osmapi.Datasource method builds its URL and selects its
   result, how the options render their query parameter, and how getFromAPI maps statuses.
   Definitions only.  gen/GenOsmapi.v is a list of terms of these types. *)
From Coq Require Import ZArith List String.
Import ListNotations.

(* a string-valued (or Sprintf-argument-valued) expression of a method body *)
Inductive sexpr :=
| ELit (s : string)
| EBase                                   (* ds.baseURL() *)
| EParam (i : nat)                        (* i-th parameter after ctx *)
| EField (i : nat) (f : string)           (* bounds.MinLon ... *)
| ESprintf (fmt : string) (args : sargs)  (* fmt.Sprintf(fmt, args...) *)
| EConcat (a b : sexpr)                   (* a + b *)
| EFeatureOpts (i : nat)                  (* featureOptions(opts) *)
| EIdList (i : nat) (sep : string)        (* the strconv.AppendInt loop with separator *)
| EQueryEscape (a : sexpr)                (* url.QueryEscape(a) *)
| EJoin (l : lexpr) (sep : string)        (* strings.Join(l, sep) *)
| EIfNonEmpty (c a b : sexpr)             (* if len(c) > 0 { a } else { b } *)
| EFixed (a : sexpr) (prec : nat)         (* strconv.FormatFloat(a, 'f', prec, 64) *)
| ETrimSuffix (a suf : sexpr)             (* strings.TrimSuffix(a, suf) *)
| EOptInt                                 (* o.n inside an option's apply method *)
| EOptTime (utc : bool) (layout : string) (* o.t[.UTC()].Format(layout) *)
with sargs :=
| ANil
| ACons (a : sexpr) (r : sargs)
with lexpr :=
| LNil                                    (* make([]string, 0, n) *)
| LSnoc (l : lexpr) (a : sexpr)           (* append(l, a) *)
| LNotesOpts (l : lexpr) (i : nat).       (* for _, o := range opts { l, err = o.applyNotes(l) } *)

(* result selection after a successful getFromAPI *)
Inductive ret_shape :=
| RetIndex0 (field : string) (guard : option (string * Z))
    (* return o.field[0]; guard (op, n): "if l := len(o.field); l op n { return nil, error }" *)
| RetList (field : string)                (* return o.field *)
| RetWhole.                               (* return o / change *)

Record method := {
  m_name : string;
  m_params : list string;   (* "id" | "int" | "ids" | "fopts" | "nopts" | "bounds" | "string" *)
  m_url : sexpr;
  m_target : string;        (* "OSM" | "Change": what the body is decoded into *)
  m_ret : ret_shape }.

(* one option type: its apply method appends o_expr unless the guard rejects *)
Record opt_rule := {
  o_ctor : string;                 (* exported constructor: "At" | "Limit" | "MaxDaysClosed" *)
  o_iface : string;                (* "applyFeature" | "applyNotes" *)
  o_reject : option (Z * Z);       (* Some (lo, hi): error unless lo <= n <= hi *)
  o_expr : sexpr }.

(* getFromAPI as the sequence of its effectful calls, in source order.  [err_returns]: the
   error of the call makes getFromAPI return it. *)
Inductive step :=
| SWait (guarded err_returns : bool)          (* [if ds.Limiter != nil] ds.Limiter.Wait(ctx) *)
| SNewRequest (http_method : string) (err_returns : bool)   (* http.NewRequest(m, url, nil) *)
| SDo (with_ctx err_returns : bool)           (* client.Do(req[.WithContext(ctx)]) *)
| SClose                                      (* defer resp.Body.Close() *)
| SStatus                                     (* the status chain (status_rules / ok / other) *)
| SDecode.                                    (* return xml.NewDecoder(resp.Body).Decode(item) *)
