(* C20/ProofsCall.v — a whole call_c: the request trace (limiter first, exactly one GET of the
   closed-form URL, nothing when an option is invalid or Wait fails), the status chain
   regenerated from getFromAPI against the documented classes, NotFound, and the returned
   elements against SpecApi.spec_result, for every call_c, limiter mode, status and body. *)
From Coq Require Import ZArith List String Ascii Bool Lia.
From Verif Require Import C20.Syntax C20.Text C20.Types C20.Model C20.Closed C20.SpecApi
  C20.ProofsText C20.ProofsFloat C20.ProofsUrl C20.ProofsSpec.
From VerifGen Require Import GenOsmapi.
Import ListNotations.
Open Scope Z_scope.
Open Scope list_scope.

(* ---------- the status chain ---------- *)

Ltac case_codes code :=
  repeat match goal with
  | |- context [Z.eqb ?a code] => destruct (Z.eqb_spec a code); [subst code|]
  | |- context [Z.eqb code ?a] => destruct (Z.eqb_spec code a); [subst code|]
  end.

Lemma status_error_class code : class_of (status_error code) = status_class code.
Proof.
  unfold status_error, status_class, status_rules, status_ok, status_other.
  cbn [find fst snd]. case_codes code; try reflexivity; lia.
Qed.

Lemma status_error_none code : status_error code = None <-> code = 200.
Proof.
  unfold status_error, status_rules, status_ok, status_other. cbn [find fst snd].
  case_codes code; split; intros; try reflexivity; try discriminate; try lia.
Qed.

Lemma status_error_notfound code : not_found (status_error code) = (code =? 404).
Proof.
  unfold status_error, status_rules, status_ok, status_other, not_found, notfound_type.
  cbn [find fst snd].
  destruct (Z.eqb_spec code 404) as [->|H404]; [reflexivity|].
  case_codes code; try reflexivity; lia.
Qed.

(* each documented status has its own class, 200 is the only success, everything else is
   "unexpected" *)
Lemma status_class_cases code :
  (status_class code = CNone <-> code = 200) /\
  (status_class code = CNotFound <-> code = 404) /\
  (status_class code = CForbidden <-> code = 403) /\
  (status_class code = CGone <-> code = 410) /\
  (status_class code = CURITooLong <-> code = 414) /\
  (status_class code = CUnexpected <->
     code <> 200 /\ code <> 404 /\ code <> 403 /\ code <> 410 /\ code <> 414) /\
  status_class code <> COther.
Proof.
  unfold status_class.
  destruct (Z.eqb_spec code 200) as [->|H200]; [repeat split; intros; try discriminate; try lia|].
  destruct (Z.eqb_spec code 404) as [->|H404]; [repeat split; intros; try discriminate; try lia|].
  destruct (Z.eqb_spec code 403) as [->|H403]; [repeat split; intros; try discriminate; try lia|].
  destruct (Z.eqb_spec code 410) as [->|H410]; [repeat split; intros; try discriminate; try lia|].
  destruct (Z.eqb_spec code 414) as [->|H414]; repeat split; intros; try discriminate; try lia.
Qed.

(* ---------- result selection against the specification ---------- *)

Definition ret_matches (target : string) (r : ret_shape) (s : shape) : Prop :=
  match s with
  | One k => target = "OSM"%string /\
             exists f, r = RetIndex0 f (Some ("!="%string, 1)) /\ field_kind f = Some k
  | Many k => target = "OSM"%string /\ exists f, r = RetList f /\ field_kind f = Some k
  | Whole => target = "OSM"%string /\ r = RetWhole
  | WholeChange => target = "Change"%string /\ r = RetWhole
  end.

Lemma method_matches ep :
  exists m, find_method (method_name ep) = Some m /\ ret_matches (m_target m) (m_ret m) (shape_of ep).
Proof.
  destruct ep as [e id o|e ids o|e id v|e id|id o|e id o|e id o|b o|id|id|id|id|b os|q os|id];
    try destruct e;
    (eexists; split; [vm_compute; reflexivity|]);
    cbn [m_target m_ret shape_of ret_matches kind_of];
    (split; [reflexivity|]); try reflexivity;
    (eexists; split; [reflexivity|reflexivity]).
Qed.

Definition result_of (target : string) (r : ret_shape) (b : body) : option selected :=
  option_map (select r) (decode target b).

Lemma length_one_inv {A} (l : list A) : Z.of_nat (List.length l) = 1 -> exists x, l = [x].
Proof.
  destruct l as [|x [|y l]]; cbn [List.length]; intros H; try lia. eauto.
Qed.

(* for a 200 response: data exactly as specified, or an ordinary error, never a panic *)
Lemma select_spec ep target r b :
  ret_matches target r (shape_of ep) ->
  match spec_result ep {| r_status := 200; r_body := b |} with
  | XData l => result_of target r b = Some (SData l)
  | XErr _ => result_of target r b = None \/ result_of target r b = Some SError
  end.
Proof.
  unfold spec_result, result_of. cbn [r_status r_body Z.eqb Pos.eqb negb].
  intros HM. destruct (shape_of ep) as [k|k| |]; cbn [ret_matches] in HM.
  - destruct HM as [-> [f [-> Hf]]].
    destruct b as [|els|c m d]; cbn [decode String.eqb Ascii.eqb Bool.eqb andb option_map].
    + left; reflexivity.
    + cbn [select]. rewrite Hf. unfold of_kind, count_kind.
      remember (filter (fun e => fst e =? k) els) as l eqn:El. clear El.
      destruct (Z.of_nat (List.length l) =? 1) eqn:E1.
      * apply Z.eqb_eq in E1. destruct (length_one_inv l E1) as [x Hx]. rewrite Hx. reflexivity.
      * right. cbn.
        match goal with |- context [negb ?c] => replace c with false by (symmetry; exact E1) end.
        reflexivity.
    + cbn [select]. rewrite Hf. right. reflexivity.
  - destruct HM as [-> [f [-> Hf]]].
    destruct b as [|els|c m d]; cbn [decode String.eqb Ascii.eqb Bool.eqb andb option_map].
    + left; reflexivity.
    + cbn [select]. rewrite Hf. reflexivity.
    + cbn [select]. rewrite Hf. reflexivity.
  - destruct HM as [-> ->].
    destruct b as [|els|c m d]; cbn [decode String.eqb Ascii.eqb Bool.eqb andb option_map].
    + left; reflexivity.
    + reflexivity.
    + reflexivity.
  - destruct HM as [-> ->].
    destruct b as [|els|c m d]; cbn [decode String.eqb Ascii.eqb Bool.eqb andb option_map].
    + left; reflexivity.
    + reflexivity.
    + reflexivity.
Qed.

(* ---------- a whole call_c, unfolded ---------- *)

Definition request_event (cfg : str) (ep : endpoint) : event :=
  EvRequest "GET" (explicit_url cfg ep).

Definition spec_trace (cfg : str) (lim : limiter) (ep : endpoint) : list event :=
  match lim with
  | NoLimiter => [request_event cfg ep]
  | LimiterOk => [EvWait; request_event cfg ep]
  | LimiterFails => [EvWait]
  end.

Lemma call_invalid cfg lim ep resp :
  options_valid ep = false ->
  call_c cfg lim ep resp =
  {| o_trace := []; o_err := Some ""%string; o_data := None; o_panic := false; o_bad := false |}.
Proof.
  intros Hv. unfold call_c. rewrite (url_of_reject cfg ep Hv).
  destruct (find_method_some ep) as [m ->]. reflexivity.
Qed.

Lemma call_wait_fails cfg ep resp :
  options_valid ep = true ->
  call_c cfg LimiterFails ep resp =
  {| o_trace := [EvWait]; o_err := Some ""%string; o_data := None; o_panic := false; o_bad := false |}.
Proof.
  intros Hv. unfold call_c. rewrite (url_of_explicit cfg ep Hv).
  destruct (find_method_some ep) as [m ->]. reflexivity.
Qed.

Lemma call_non200 cfg lim ep resp :
  options_valid ep = true -> lim <> LimiterFails -> r_status resp <> 200 ->
  call_c cfg lim ep resp =
  {| o_trace := spec_trace cfg lim ep; o_err := status_error (r_status resp); o_data := None;
     o_panic := false; o_bad := false |}.
Proof.
  intros Hv Hl Hs. unfold call_c. rewrite (url_of_explicit cfg ep Hv).
  destruct (find_method_some ep) as [m ->].
  destruct (status_error (r_status resp)) as [t|] eqn:E.
  - unfold get_from_api_c. rewrite E.
    destruct lim; try congruence; reflexivity.
  - apply status_error_none in E. congruence.
Qed.

Lemma call_200 cfg lim ep resp :
  options_valid ep = true -> lim <> LimiterFails -> r_status resp = 200 ->
  let o := call_c cfg lim ep resp in
  o_trace o = spec_trace cfg lim ep /\ o_panic o = false /\ o_bad o = false /\
  match spec_result ep resp with
  | XData l => o_err o = None /\ o_data o = Some l
  | XErr c => c = COther /\ o_err o = Some ""%string /\ o_data o = None
  end.
Proof.
  intros Hv Hl Hs. destruct resp as [st b]. cbn [r_status] in Hs. subst st.
  destruct (method_matches ep) as [m [Hm HM]].
  pose proof (select_spec ep (m_target m) (m_ret m) b HM) as Hsel.
  assert (Hx : forall c, spec_result ep {| r_status := 200; r_body := b |} = XErr c -> c = COther).
  { unfold spec_result. cbn [r_status r_body Z.eqb Pos.eqb negb].
    intros c. destruct b; destruct (shape_of ep); try discriminate;
      try (destruct (count_kind _ _ =? 1); try discriminate); intros H; injection H; auto. }
  unfold call_c. rewrite (url_of_explicit cfg ep Hv), Hm.
  unfold get_from_api_c. cbn [r_status r_body].
  replace (status_error 200) with (@None string) by reflexivity.
  unfold result_of in Hsel.
  destruct (spec_result ep {| r_status := 200; r_body := b |}) as [l|c] eqn:Esp.
  - destruct (decode (m_target m) b) as [d|]; cbn [option_map] in Hsel; [|discriminate].
    injection Hsel as Hsel.
    destruct lim; try congruence; cbn; rewrite Hsel; cbn; repeat split; try reflexivity; auto.
  - specialize (Hx c eq_refl).
    destruct (decode (m_target m) b) as [d|]; cbn [option_map] in Hsel.
    + destruct Hsel as [Hsel|Hsel]; [discriminate|]. injection Hsel as Hsel.
      destruct lim; try congruence; cbn; rewrite Hsel; cbn; repeat split; try reflexivity; auto.
    + destruct lim; try congruence; cbn; repeat split; try reflexivity; auto.
Qed.

(* ---------- the statements of Properties/C20.v ---------- *)

Lemma lim_cases (lim : limiter) : lim = LimiterFails \/ lim <> LimiterFails.
Proof. destruct lim; [right|right|left]; congruence. Qed.

Lemma call_trace cfg lim ep resp :
  options_valid ep = true -> o_trace (call_c cfg lim ep resp) = spec_trace cfg lim ep.
Proof.
  intros Hv. destruct (lim_cases lim) as [->|Hl].
  - rewrite call_wait_fails by exact Hv. reflexivity.
  - destruct (Z.eq_dec (r_status resp) 200) as [Hs|Hs].
    + apply (call_200 cfg lim ep resp Hv Hl Hs).
    + rewrite call_non200 by assumption. reflexivity.
Qed.

Lemma call_covered cfg lim ep resp :
  o_bad (call_c cfg lim ep resp) = false /\ o_panic (call_c cfg lim ep resp) = false.
Proof.
  destruct (options_valid ep) eqn:Hv.
  - destruct (lim_cases lim) as [->|Hl].
    + rewrite call_wait_fails by exact Hv. split; reflexivity.
    + destruct (Z.eq_dec (r_status resp) 200) as [Hs|Hs].
      * destruct (call_200 cfg lim ep resp Hv Hl Hs) as [_ [Hp [Hb _]]]. split; assumption.
      * rewrite call_non200 by assumption. split; reflexivity.
  - rewrite call_invalid by exact Hv. split; reflexivity.
Qed.

Lemma call_result cfg lim ep resp :
  options_valid ep = true -> lim <> LimiterFails ->
  let o := call_c cfg lim ep resp in
  match spec_result ep resp with
  | XData l => o_err o = None /\ o_data o = Some l
  | XErr c => class_of (o_err o) = c /\ o_data o = None
  end.
Proof.
  intros Hv Hl. destruct (Z.eq_dec (r_status resp) 200) as [Hs|Hs].
  - destruct (call_200 cfg lim ep resp Hv Hl Hs) as [_ [_ [_ H]]]. cbv zeta.
    destruct (spec_result ep resp) as [l|c]; [exact H|].
    destruct H as [-> [He Hd]]. rewrite He. split; [reflexivity|exact Hd].
  - cbv zeta. rewrite call_non200 by assumption. cbn [o_err o_data].
    unfold spec_result. destruct (Z.eqb_spec (r_status resp) 200) as [E|E]; [congruence|].
    cbn [negb]. split; [apply status_error_class|reflexivity].
Qed.

Lemma call_no_request cfg lim ep resp :
  options_valid ep = false \/ lim = LimiterFails ->
  let o := call_c cfg lim ep resp in
  (forall m u, ~ In (EvRequest m u) (o_trace o)) /\
  class_of (o_err o) = COther /\ not_found (o_err o) = false /\ o_data o = None.
Proof.
  intros H. cbv zeta. destruct (options_valid ep) eqn:Hv.
  - destruct H as [H| ->]; [discriminate|].
    rewrite call_wait_fails by exact Hv. cbn. repeat split; try reflexivity.
    intros m u [E|[]]. discriminate.
  - rewrite call_invalid by exact Hv. cbn. repeat split; try reflexivity. intros m u [].
Qed.

Lemma not_found_iff cfg lim ep resp :
  not_found (o_err (call_c cfg lim ep resp)) = true <->
  (options_valid ep = true /\ lim <> LimiterFails /\ r_status resp = 404).
Proof.
  destruct (options_valid ep) eqn:Hv.
  - destruct (lim_cases lim) as [->|Hl].
    + rewrite call_wait_fails by exact Hv. cbn. split; [discriminate|intros [_ [H _]]; congruence].
    + destruct (Z.eq_dec (r_status resp) 200) as [Hs|Hs].
      * destruct (call_200 cfg lim ep resp Hv Hl Hs) as [_ [_ [_ H]]].
        destruct (spec_result ep resp) as [l|c].
        -- destruct H as [He _]. rewrite He. cbn. split; [discriminate|intros [_ [_ E]]; lia].
        -- destruct H as [_ [He _]]. rewrite He. cbn. split; [discriminate|intros [_ [_ E]]; lia].
      * rewrite call_non200 by assumption. cbn [o_err]. rewrite status_error_notfound.
        rewrite Z.eqb_eq. tauto.
  - rewrite call_invalid by exact Hv. cbn. split; [discriminate|intros [H _]; discriminate].
Qed.

Lemma non_200_no_data cfg lim ep resp :
  r_status resp <> 200 ->
  let o := call_c cfg lim ep resp in o_data o = None /\ o_err o <> None.
Proof.
  intros Hs. cbv zeta. destruct (options_valid ep) eqn:Hv.
  - destruct (lim_cases lim) as [->|Hl].
    + rewrite call_wait_fails by exact Hv. cbn. split; [reflexivity|discriminate].
    + rewrite call_non200 by assumption. cbn. split; [reflexivity|].
      intros E. apply status_error_none in E. contradiction.
  - rewrite call_invalid by exact Hv. cbn. split; [reflexivity|discriminate].
Qed.

(* single-element calls: one element of the requested kind or an error, whatever else the
   document holds *)
Lemma expect_one_counts cfg lim ep els :
  options_valid ep = true -> lim <> LimiterFails -> expect_one ep = true ->
  let o := call_c cfg lim ep {| r_status := 200; r_body := BOsm els |} in
  exists k, shape_of ep = One k /\
  ((count_kind k els = 1 ->
      exists id, filter (fun e => fst e =? k) els = [(k, id)] /\ o_err o = None /\ o_data o = Some [(k, id)])
   /\ (count_kind k els <> 1 -> class_of (o_err o) = COther /\ o_data o = None)).
Proof.
  intros Hv Hl H1. cbv zeta.
  pose proof (call_result cfg lim ep {| r_status := 200; r_body := BOsm els |} Hv Hl) as Hr.
  cbv zeta in Hr. unfold spec_result in Hr. cbn [r_status r_body Z.eqb Pos.eqb negb] in Hr.
  unfold expect_one in H1. destruct (shape_of ep) as [k| | |]; try discriminate.
  exists k. split; [reflexivity|]. split.
  - intros Hc. rewrite Hc in Hr. cbn [Z.eqb Pos.eqb] in Hr.
    unfold count_kind in Hc. destruct (length_one_inv _ Hc) as [[k' id] Hx].
    assert (Hk : k' = k).
    { assert (Hin : In (k', id) (filter (fun e => fst e =? k) els)) by (rewrite Hx; left; reflexivity).
      apply filter_In in Hin as [_ Hin]. cbn in Hin. apply Z.eqb_eq in Hin. exact Hin. }
    subst k'. exists id. rewrite Hx in Hr. split; [exact Hx|exact Hr].
  - intros Hc. destruct (Z.eqb_spec (count_kind k els) 1); [contradiction|]. exact Hr.
Qed.

(* ---------- result shape of every method, spelled out ---------- *)

Definition ok200 (b : body) : response := {| r_status := 200; r_body := b |}.

(* list calls (Nodes/Ways/Relations, *History, NodeWays, *Relations, Notes, NotesSearch): all
   elements of the call_c's kind, in document order, nothing else; an empty list is not an error *)
Lemma many_returns_kind cfg lim ep k els :
  options_valid ep = true -> lim <> LimiterFails -> shape_of ep = Many k ->
  let o := call_c cfg lim ep (ok200 (BOsm els)) in
  o_err o = None /\ o_data o = Some (filter (fun e => fst e =? k) els).
Proof.
  intros Hv Hl Hs. pose proof (call_result cfg lim ep (ok200 (BOsm els)) Hv Hl) as Hr.
  cbv zeta in *. unfold spec_result, ok200 in Hr. cbn [r_status r_body Z.eqb Pos.eqb negb] in Hr.
  rewrite Hs in Hr. exact Hr.
Qed.

(* WayFull / RelationFull / Map: the whole document, grouped by kind *)
Lemma whole_returns_document cfg lim ep els :
  options_valid ep = true -> lim <> LimiterFails -> shape_of ep = Whole ->
  let o := call_c cfg lim ep (ok200 (BOsm els)) in
  o_err o = None /\ o_data o = Some (by_kind els).
Proof.
  intros Hv Hl Hs. pose proof (call_result cfg lim ep (ok200 (BOsm els)) Hv Hl) as Hr.
  cbv zeta in *. unfold spec_result, ok200 in Hr. cbn [r_status r_body Z.eqb Pos.eqb negb] in Hr.
  rewrite Hs in Hr. exact Hr.
Qed.

(* ChangesetDownload: a non-nil *osm.Change with the create / modify / delete sections of the
   osmChange document; no element-count condition (an empty change is a valid result) *)
Lemma download_returns_sections cfg lim id c m d :
  lim <> LimiterFails ->
  let o := call_c cfg lim (ChangesetDownload id) (ok200 (BChange c m d)) in
  o_err o = None /\ o_data o = Some (tagged 1 c ++ tagged 2 m ++ tagged 3 d).
Proof.
  intros Hl. exact (call_result cfg lim (ChangesetDownload id) (ok200 (BChange c m d)) eq_refl Hl).
Qed.

Lemma download_of_osm_document_is_empty cfg lim id els :
  lim <> LimiterFails ->
  let o := call_c cfg lim (ChangesetDownload id) (ok200 (BOsm els)) in
  o_err o = None /\ o_data o = Some [].
Proof.
  intros Hl. exact (call_result cfg lim (ChangesetDownload id) (ok200 (BOsm els)) eq_refl Hl).
Qed.

(* the shape of each call_c, as a table *)
Lemma shape_table ep :
  shape_of ep =
  match ep with
  | Get Node _ _ | Version Node _ _ => One 1
  | Get Way _ _ | Version Way _ _ => One 2
  | Get Relation _ _ | Version Relation _ _ => One 3
  | Changeset _ | ChangesetWithDiscussion _ => One 4
  | Note _ => One 5
  | User _ => One 6
  | Multi Node _ _ | History Node _ => Many 1
  | Multi Way _ _ | History Way _ | NodeWays _ _ => Many 2
  | Multi Relation _ _ | History Relation _ | RelationsOf _ _ _ => Many 3
  | Notes _ _ | NotesSearch _ _ => Many 5
  | Full _ _ _ | Map _ _ => Whole
  | ChangesetDownload _ => WholeChange
  end.
Proof. destruct ep as [[]| []|[]|[]| |[]| | | | | | | | | ]; reflexivity. Qed.

(* Limit is valid exactly in [1, 10000]; MaxDaysClosed always *)
Lemma notes_options_valid_iff os :
  forallb nopt_valid os = true <-> (forall n, In (Limit n) os -> 1 <= n <= 10000).
Proof.
  rewrite forallb_forall. split.
  - intros H n Hin. specialize (H _ Hin). cbn in H. lia.
  - intros H [n|n] Hin; cbn; [specialize (H n Hin); lia|reflexivity].
Qed.

(* ---------- worlds: redirects and cancellation ---------- *)

Lemma finish_fields m tr1 tr2 err d :
  o_err (finish m tr1 err d) = o_err (finish m tr2 err d) /\
  o_data (finish m tr1 err d) = o_data (finish m tr2 err d) /\
  o_panic (finish m tr1 err d) = o_panic (finish m tr2 err d) /\
  o_bad (finish m tr1 err d) = o_bad (finish m tr2 err d) /\
  (o_bad (finish m tr1 err d) = false -> o_trace (finish m tr1 err d) = tr1).
Proof.
  unfold finish. destruct err as [t|]; [repeat split|].
  destruct d as [d|]; [|repeat split; discriminate].
  destruct (select (m_ret m) d); repeat split; discriminate.
Qed.

Lemma call_as_finish cfg ep m r :
  options_valid ep = true -> find_method (method_name ep) = Some m ->
  call_c cfg NoLimiter ep r =
  finish m [request_event cfg ep] (fst (after_response (m_target m) r)) (snd (after_response (m_target m) r)).
Proof.
  intros Hv Hm. unfold call_c. rewrite (url_of_explicit cfg ep Hv), Hm.
  unfold get_from_api_c, after_response, finish, request_event.
  destruct (status_error (r_status r)); [reflexivity|].
  destruct (decode (m_target m) (r_body r)); reflexivity.
Qed.

Definition get (u : str) : event := EvRequest "GET" u.

(* the trace of a call_c in any world *)
Definition world_trace (cfg : str) (w : world) (ep : endpoint) : list event :=
  (if waits w ep then [EvWait] else []) ++
  (if permitted w ep then map get (explicit_url cfg ep :: spec_followed w) else []).

Definition other_error (tr : list event) : outcome :=
  {| o_trace := tr; o_err := Some ""%string; o_data := None; o_panic := false; o_bad := false |}.

(* what net/http hands back, by cases *)
Lemma client_do_cases w u :
  client_do w u =
  match w_ctx w with
  | CtxCancelledBefore => ([], TErr)
  | CtxCancelledDuring => ([get u], TErr)
  | CtxLive =>
      match w_hops w with
      | [] => ([get u], TResp (w_resp w))
      | _ :: _ =>
          if w_follow w then
            if Z.of_nat (List.length (w_hops w)) <=? 9
            then (map get (u :: w_hops w), TResp (w_resp w))
            else (map get (u :: firstn 9 (w_hops w)), TErr)
          else ([get u], TResp {| r_status := w_hop_status w; r_body := BMalformed |})
      end
  end.
Proof. reflexivity. Qed.

Lemma firstn_short {A} n (l : list A) : (List.length l <= n)%nat -> firstn n l = l.
Proof. apply firstn_all2. Qed.

(* a call_c in a world = the plain call_c on the answer net/http hands back, with the world's trace;
   or an ordinary error when net/http hands back an error or Wait fails *)
Lemma call_w_decompose cfg w ep :
  options_valid ep = true ->
  let o := call_wc cfg w ep in
  o_bad o = false /\ o_panic o = false /\ o_trace o = world_trace cfg w ep /\
  (permitted w ep = false -> o_err o = Some ""%string /\ o_data o = None) /\
  (permitted w ep = true ->
     match snd (client_do w (explicit_url cfg ep)) with
     | TErr => o_err o = Some ""%string /\ o_data o = None
     | TResp r => o_err o = o_err (call_c cfg NoLimiter ep r) /\ o_data o = o_data (call_c cfg NoLimiter ep r)
     end).
Proof.
  intros Hv. cbv zeta.
  destruct (method_matches ep) as [m [Hm _]].
  assert (Hcall : forall r, o_bad (call_c cfg NoLimiter ep r) = false /\ o_panic (call_c cfg NoLimiter ep r) = false)
    by (intros r; apply call_covered).
  assert (Hfin : forall tr r,
    let e := fst (after_response (m_target m) r) in let d := snd (after_response (m_target m) r) in
    o_bad (finish m tr e d) = false /\ o_panic (finish m tr e d) = false /\
    o_trace (finish m tr e d) = tr /\
    o_err (finish m tr e d) = o_err (call_c cfg NoLimiter ep r) /\
    o_data (finish m tr e d) = o_data (call_c cfg NoLimiter ep r)).
  { intros tr r. cbv zeta. destruct (Hcall r) as [Hb Hp].
    rewrite (call_as_finish cfg ep m r Hv Hm) in *.
    destruct (finish_fields m tr [request_event cfg ep]
                (fst (after_response (m_target m) r)) (snd (after_response (m_target m) r)))
      as [He [Hd [Hp' [Hb' Ht]]]].
    rewrite Hb', Hp', He, Hd. repeat split; try assumption. apply Ht. rewrite Hb'. exact Hb. }
  unfold call_wc. rewrite (url_of_explicit cfg ep Hv), Hm.
  unfold get_from_api_wc, world_trace, permitted, waits. rewrite Hv. cbn [andb].
  rewrite client_do_cases. unfold spec_followed.
  unfold wait_before_do, wait_error_returns.
  destruct w as [lim cx fol hops hs resp]. cbn [w_lim w_ctx w_follow w_hops w_hop_status w_resp].
  destruct cx.
  - (* live *)
    destruct hops as [|h hops].
    + destruct fol; destruct lim; cbn [orb negb andb fst snd app map firstn];
        try (destruct (Hfin [get (explicit_url cfg ep)] resp) as [A [B [C [D E]]]]);
        try (destruct (Hfin [EvWait; get (explicit_url cfg ep)] resp) as [A' [B' [C' [D' E']]]]);
        repeat split; try assumption; try discriminate; try reflexivity; intros; try discriminate; auto.
    + destruct fol.
      * destruct (Z.leb_spec (Z.of_nat (List.length (h :: hops))) 9) as [Hle|Hgt].
        -- rewrite (firstn_short 9 (h :: hops)) by lia.
           destruct lim; cbn [orb negb andb fst snd app map];
             try (destruct (Hfin (map get (explicit_url cfg ep :: h :: hops)) resp) as [A [B [C [D E]]]]);
             try (destruct (Hfin (EvWait :: map get (explicit_url cfg ep :: h :: hops)) resp) as [A' [B' [C' [D' E']]]]);
             repeat split; try assumption; try discriminate; try reflexivity; intros; try discriminate; auto.
        -- destruct lim; cbn [orb negb andb fst snd app map];
             repeat split; try reflexivity; intros; try discriminate; auto.
      * set (r3 := {| r_status := hs; r_body := BMalformed |}).
        destruct lim; cbn [orb negb andb fst snd app map firstn];
          try (destruct (Hfin [get (explicit_url cfg ep)] r3) as [A [B [C [D E]]]]);
          try (destruct (Hfin [EvWait; get (explicit_url cfg ep)] r3) as [A' [B' [C' [D' E']]]]);
          repeat split; try assumption; try discriminate; try reflexivity; intros; try discriminate; auto.
  - (* cancelled before *)
    destruct lim; cbn [orb negb andb fst snd app map];
      repeat split; try reflexivity; intros; try discriminate; auto.
  - (* cancelled in flight *)
    destruct lim; cbn [orb negb andb fst snd app map firstn];
      repeat split; try reflexivity; intros; try discriminate; auto.
Qed.

(* the world without redirects and with a live context is the plain call_c *)
Lemma call_w_plain cfg lim ep resp : call_wc cfg (plain_world lim resp) ep = call_c cfg lim ep resp.
Proof.
  unfold call_wc, call_c. destruct (find_method (method_name ep)) as [m|]; [|reflexivity].
  destruct (url_of cfg ep) as [u| |]; reflexivity.
Qed.

Lemma call_w_result cfg w ep :
  options_valid ep = true -> permitted w ep = true -> redirect_status_ok w = true ->
  let o := call_wc cfg w ep in
  match spec_result_w w ep with
  | XData l => o_err o = None /\ o_data o = Some l
  | XErr c => class_of (o_err o) = c /\ o_data o = None
  end.
Proof.
  intros Hv Hp Hhs. cbv zeta.
  destruct (call_w_decompose cfg w ep Hv) as [_ [_ [_ [_ Hr]]]]. specialize (Hr Hp).
  rewrite client_do_cases in Hr. unfold spec_result_w. unfold redirect_status_ok in Hhs.
  assert (Hplain : forall r,
    match spec_result ep r with
    | XData l => o_err (call_c cfg NoLimiter ep r) = None /\ o_data (call_c cfg NoLimiter ep r) = Some l
    | XErr c => class_of (o_err (call_c cfg NoLimiter ep r)) = c /\ o_data (call_c cfg NoLimiter ep r) = None
    end) by (intros r; apply (call_result cfg NoLimiter ep r Hv); discriminate).
  destruct (w_ctx w) eqn:Ec.
  - destruct (w_hops w) as [|h hops] eqn:Eh.
    + cbn [snd] in Hr. destruct Hr as [He Hd]. rewrite He, Hd. apply Hplain.
    + destruct (w_follow w) eqn:Ef.
      * destruct (Z.of_nat (List.length (h :: hops)) <=? 9); cbn [snd] in Hr.
        -- destruct Hr as [He Hd]. rewrite He, Hd. apply Hplain.
        -- destruct Hr as [He Hd]. rewrite He, Hd. split; reflexivity.
      * cbn [snd] in Hr. destruct Hr as [He Hd]. rewrite He, Hd.
        specialize (Hplain {| r_status := w_hop_status w; r_body := BMalformed |}).
        unfold spec_result in Hplain. cbn [r_status] in Hplain.
        cbn [orb] in Hhs. destruct (Z.eqb_spec (w_hop_status w) 200) as [E|E]; [discriminate Hhs|].
        exact Hplain.
  - unfold permitted in Hp. rewrite Hv, Ec in Hp. destruct (w_lim w); cbn in Hp; discriminate Hp.
  - cbn [snd] in Hr. destruct Hr as [He Hd]. rewrite He, Hd. split; reflexivity.
Qed.

Lemma call_w_refused cfg w ep :
  options_valid ep = true -> permitted w ep = false ->
  let o := call_wc cfg w ep in
  (forall m u, ~ In (EvRequest m u) (o_trace o)) /\
  class_of (o_err o) = COther /\ not_found (o_err o) = false /\ o_data o = None.
Proof.
  intros Hv Hp. cbv zeta.
  destruct (call_w_decompose cfg w ep Hv) as [_ [_ [Ht [Hn _]]]]. destruct (Hn Hp) as [He Hd].
  rewrite Ht, He, Hd. unfold world_trace. rewrite Hp, app_nil_r.
  repeat split; try reflexivity.
  intros m u Hin. destruct (waits w ep); [destruct Hin as [E|[]]; discriminate|destruct Hin].
Qed.

(* ---------- the interpreter of the generated effect sequence equals the closed forms ----------

   These equations are the obligations that tie every statement about [call] / [call_w] to the
   sequence of effectful calls the translator read out of getFromAPI: with another sequence
   (a second client.Do, Wait after Do, a missing error return ...) they no longer hold. *)

Lemma interp_closed w url target :
  get_from_api_w false w url target = get_from_api_wc w url target.
Proof.
  unfold get_from_api_w, get_from_api_wc, api_steps, client_do, after_response,
    wait_before_do, wait_error_returns.
  destruct w as [lim cx fol hops hs resp].
  destruct lim; destruct cx; destruct hops as [|h hops]; destruct fol;
    cbn -[Z.of_nat Z.leb List.length status_error decode];
    repeat (match goal with
            | |- context [Z.of_nat ?n <=? 9] => destruct (Z.of_nat n <=? 9)
            | |- context [status_error ?c] => destruct (status_error c)
            | |- context [decode ?t ?b] => destruct (decode t b)
            end; cbn -[Z.of_nat Z.leb List.length status_error decode]);
    reflexivity.
Qed.

(* a URL the client refuses: the limiter (if any) has been waited on, nothing is sent *)
Lemma interp_refused w url target :
  get_from_api_w true w url target =
  ((match w_lim w with NoLimiter => [] | _ => [EvWait] end), Some ""%string, None).
Proof.
  unfold get_from_api_w, api_steps. destruct w as [lim cx fol hops hs resp].
  destruct lim; destruct cx; reflexivity.
Qed.

Lemma call_w_is_closed cfg w ep : base_wf cfg = true -> call_w cfg w ep = call_wc cfg w ep.
Proof.
  intros Hb. unfold call_w, call_wc. rewrite (base_wf_not_refused cfg Hb).
  destruct (find_method (method_name ep)) as [m|]; [|reflexivity].
  destruct (url_of cfg ep) as [u| |]; try reflexivity.
  rewrite interp_closed. reflexivity.
Qed.

Lemma call_is_closed cfg lim ep resp : base_wf cfg = true -> call cfg lim ep resp = call_c cfg lim ep resp.
Proof. intros Hb. unfold call. rewrite (call_w_is_closed cfg _ ep Hb). apply call_w_plain. Qed.

(* a base the client refuses (no http scheme, control character, broken escape, space in the
   host): the limiter, if any, has been asked; nothing is sent; an ordinary error *)
Lemma call_w_unusable_base cfg w ep :
  url_refused (base_url cfg) = true -> options_valid ep = true ->
  call_w cfg w ep = other_error (match w_lim w with NoLimiter => [] | _ => [EvWait] end).
Proof.
  intros Hr Hv. unfold call_w. rewrite Hr, (url_of_explicit cfg ep Hv).
  destruct (find_method_some ep) as [m ->]. rewrite interp_refused. reflexivity.
Qed.

(* ---------- the statements, over the interpreted call ([Model.call], [Model.call_w]) ---------- *)

Ltac to_closed :=
  cbv zeta;
  repeat match goal with
         | Hb : base_wf ?cfg = true |- context [call ?cfg ?lim ?ep ?resp] =>
             rewrite (call_is_closed cfg lim ep resp Hb)
         | Hb : base_wf ?cfg = true |- context [call_w ?cfg ?w ?ep] =>
             rewrite (call_w_is_closed cfg w ep Hb)
         end.

Lemma i_call_trace cfg lim ep resp :
  base_wf cfg = true -> options_valid ep = true ->
  o_trace (call cfg lim ep resp) = spec_trace cfg lim ep.
Proof. intros Hb Hv. to_closed. apply call_trace, Hv. Qed.

Lemma i_call_invalid cfg lim ep resp :
  base_wf cfg = true -> options_valid ep = false -> o_trace (call cfg lim ep resp) = [].
Proof. intros Hb Hv. to_closed. rewrite (call_invalid cfg lim ep resp Hv). reflexivity. Qed.

Lemma i_call_no_request cfg lim ep resp :
  base_wf cfg = true -> options_valid ep = false \/ lim = LimiterFails ->
  let o := call cfg lim ep resp in
  (forall m u, ~ In (EvRequest m u) (o_trace o)) /\
  class_of (o_err o) = COther /\ not_found (o_err o) = false /\ o_data o = None.
Proof. intros Hb H. to_closed. apply (call_no_request cfg lim ep resp H). Qed.

Lemma i_not_found_iff cfg lim ep resp :
  base_wf cfg = true ->
  (not_found (o_err (call cfg lim ep resp)) = true <->
   (options_valid ep = true /\ lim <> LimiterFails /\ r_status resp = 404)).
Proof. intros Hb. to_closed. apply not_found_iff. Qed.

Lemma i_non_200_no_data cfg lim ep resp :
  base_wf cfg = true -> r_status resp <> 200 ->
  let o := call cfg lim ep resp in o_data o = None /\ o_err o <> None.
Proof. intros Hb Hs. to_closed. apply (non_200_no_data cfg lim ep resp Hs). Qed.

Lemma i_call_result cfg lim ep resp :
  base_wf cfg = true -> options_valid ep = true -> lim <> LimiterFails ->
  let o := call cfg lim ep resp in
  match spec_result ep resp with
  | XData l => o_err o = None /\ o_data o = Some l
  | XErr c => class_of (o_err o) = c /\ o_data o = None
  end.
Proof. intros Hb Hv Hl. to_closed. apply (call_result cfg lim ep resp Hv Hl). Qed.

Lemma i_expect_one_counts cfg lim ep els :
  base_wf cfg = true -> options_valid ep = true -> lim <> LimiterFails -> expect_one ep = true ->
  let o := call cfg lim ep {| r_status := 200; r_body := BOsm els |} in
  exists k, shape_of ep = One k /\
  ((count_kind k els = 1 ->
      exists id, filter (fun e => fst e =? k) els = [(k, id)] /\ o_err o = None /\ o_data o = Some [(k, id)])
   /\ (count_kind k els <> 1 -> class_of (o_err o) = COther /\ o_data o = None)).
Proof. intros Hb Hv Hl H1. to_closed. apply (expect_one_counts cfg lim ep els Hv Hl H1). Qed.

Lemma i_call_w_covered cfg w ep :
  base_wf cfg = true -> o_bad (call_w cfg w ep) = false /\ o_panic (call_w cfg w ep) = false.
Proof.
  intros Hb. to_closed. destruct (options_valid ep) eqn:Hv.
  - destruct (call_w_decompose cfg w ep Hv) as [A [B _]]. split; assumption.
  - unfold call_wc. rewrite (url_of_reject cfg ep Hv). destruct (find_method_some ep) as [m ->].
    split; reflexivity.
Qed.

Lemma i_many_returns_kind cfg lim ep k els :
  base_wf cfg = true -> options_valid ep = true -> lim <> LimiterFails -> shape_of ep = Many k ->
  let o := call cfg lim ep (ok200 (BOsm els)) in
  o_err o = None /\ o_data o = Some (filter (fun e => fst e =? k) els).
Proof. intros Hb Hv Hl Hs. to_closed. apply (many_returns_kind cfg lim ep k els Hv Hl Hs). Qed.

Lemma i_whole_returns_document cfg lim ep els :
  base_wf cfg = true -> options_valid ep = true -> lim <> LimiterFails -> shape_of ep = Whole ->
  let o := call cfg lim ep (ok200 (BOsm els)) in
  o_err o = None /\ o_data o = Some (by_kind els).
Proof. intros Hb Hv Hl Hs. to_closed. apply (whole_returns_document cfg lim ep els Hv Hl Hs). Qed.

Lemma i_download cfg lim id c m d els :
  base_wf cfg = true -> lim <> LimiterFails ->
  (let o := call cfg lim (ChangesetDownload id) (ok200 (BChange c m d)) in
   o_err o = None /\ o_data o = Some (tagged 1 c ++ tagged 2 m ++ tagged 3 d)) /\
  (let o := call cfg lim (ChangesetDownload id) (ok200 (BOsm els)) in
   o_err o = None /\ o_data o = Some []).
Proof.
  intros Hb Hl. split; to_closed.
  - apply (download_returns_sections cfg lim id c m d Hl).
  - apply (download_of_osm_document_is_empty cfg lim id els Hl).
Qed.

Lemma i_world_trace cfg w ep :
  base_wf cfg = true -> options_valid ep = true ->
  o_trace (call_w cfg w ep) = world_trace cfg w ep.
Proof. intros Hb Hv. to_closed. exact (proj1 (proj2 (proj2 (call_w_decompose cfg w ep Hv)))). Qed.

Lemma i_world_result cfg w ep :
  base_wf cfg = true -> options_valid ep = true -> permitted w ep = true -> redirect_status_ok w = true ->
  let o := call_w cfg w ep in
  match spec_result_w w ep with
  | XData l => o_err o = None /\ o_data o = Some l
  | XErr c => class_of (o_err o) = c /\ o_data o = None
  end.
Proof. intros Hb Hv Hp Hh. to_closed. apply (call_w_result cfg w ep Hv Hp Hh). Qed.

Lemma i_world_refused cfg w ep :
  base_wf cfg = true -> options_valid ep = true -> permitted w ep = false ->
  let o := call_w cfg w ep in
  (forall m u, ~ In (EvRequest m u) (o_trace o)) /\
  class_of (o_err o) = COther /\ not_found (o_err o) = false /\ o_data o = None.
Proof. intros Hb Hv Hp. to_closed. apply (call_w_refused cfg w ep Hv Hp). Qed.
