(* C20/ProofsCall.v — a whole call: the request trace (limiter first, exactly one GET of the
   closed-form URL, nothing when an option is invalid or Wait fails), the status chain
   regenerated from getFromAPI against the documented classes, NotFound, and the returned
   elements against SpecApi.spec_result, for every call, limiter mode, status and body. *)
From Coq Require Import ZArith List String Ascii Bool Lia.
From Verif Require Import C20.Syntax C20.Text C20.Types C20.Model C20.SpecApi
  C20.ProofsText C20.ProofsUrl.
From VerifGen Require Import GenOsmapi.
Import ListNotations.
Open Scope Z_scope.
Open Scope list_scope.

(* ---------- the status chain ---------- *)

Ltac case_codes code :=
  repeat match goal with
  | |- context [Z.eqb ?a code] => destruct (Z.eqb_spec a code); [subst code|]
  | |- context [Z.eqb code ?a] => destruct (Z.eqb_spec code a); [subst code|]
  end.

Lemma status_error_class code : class_of (status_error code) = status_class code.
Proof.
  unfold status_error, status_class, status_rules, status_ok, status_other.
  cbn [find fst snd]. case_codes code; try reflexivity; lia.
Qed.

Lemma status_error_none code : status_error code = None <-> code = 200.
Proof.
  unfold status_error, status_rules, status_ok, status_other. cbn [find fst snd].
  case_codes code; split; intros; try reflexivity; try discriminate; try lia.
Qed.

Lemma status_error_notfound code : not_found (status_error code) = (code =? 404).
Proof.
  unfold status_error, status_rules, status_ok, status_other, not_found, notfound_type.
  cbn [find fst snd].
  destruct (Z.eqb_spec code 404) as [->|H404]; [reflexivity|].
  case_codes code; try reflexivity; lia.
Qed.

(* each documented status has its own class, 200 is the only success, everything else is
   "unexpected" *)
Lemma status_class_cases code :
  (status_class code = CNone <-> code = 200) /\
  (status_class code = CNotFound <-> code = 404) /\
  (status_class code = CForbidden <-> code = 403) /\
  (status_class code = CGone <-> code = 410) /\
  (status_class code = CURITooLong <-> code = 414) /\
  (status_class code = CUnexpected <->
     code <> 200 /\ code <> 404 /\ code <> 403 /\ code <> 410 /\ code <> 414) /\
  status_class code <> COther.
Proof.
  unfold status_class.
  destruct (Z.eqb_spec code 200) as [->|H200]; [repeat split; intros; try discriminate; try lia|].
  destruct (Z.eqb_spec code 404) as [->|H404]; [repeat split; intros; try discriminate; try lia|].
  destruct (Z.eqb_spec code 403) as [->|H403]; [repeat split; intros; try discriminate; try lia|].
  destruct (Z.eqb_spec code 410) as [->|H410]; [repeat split; intros; try discriminate; try lia|].
  destruct (Z.eqb_spec code 414) as [->|H414]; repeat split; intros; try discriminate; try lia.
Qed.

(* ---------- result selection against the specification ---------- *)

Definition ret_matches (target : string) (r : ret_shape) (s : shape) : Prop :=
  match s with
  | One k => target = "OSM"%string /\
             exists f, r = RetIndex0 f (Some ("!="%string, 1)) /\ field_kind f = Some k
  | Many k => target = "OSM"%string /\ exists f, r = RetList f /\ field_kind f = Some k
  | Whole => target = "OSM"%string /\ r = RetWhole
  | WholeChange => target = "Change"%string /\ r = RetWhole
  end.

Lemma method_matches ep :
  exists m, find_method (method_name ep) = Some m /\ ret_matches (m_target m) (m_ret m) (shape_of ep).
Proof.
  destruct ep as [e id o|e ids o|e id v|e id|id o|e id o|e id o|b o|id|id|id|id|b os|q os|id];
    try destruct e;
    (eexists; split; [vm_compute; reflexivity|]);
    cbn [m_target m_ret shape_of ret_matches kind_of];
    (split; [reflexivity|]); try reflexivity;
    (eexists; split; [reflexivity|reflexivity]).
Qed.

Definition result_of (target : string) (r : ret_shape) (b : body) : option selected :=
  option_map (select r) (decode target b).

Lemma length_one_inv {A} (l : list A) : Z.of_nat (List.length l) = 1 -> exists x, l = [x].
Proof.
  destruct l as [|x [|y l]]; cbn [List.length]; intros H; try lia. eauto.
Qed.

(* for a 200 response: data exactly as specified, or an ordinary error, never a panic *)
Lemma select_spec ep target r b :
  ret_matches target r (shape_of ep) ->
  match spec_result ep {| r_status := 200; r_body := b |} with
  | XData l => result_of target r b = Some (SData l)
  | XErr _ => result_of target r b = None \/ result_of target r b = Some SError
  end.
Proof.
  unfold spec_result, result_of. cbn [r_status r_body Z.eqb Pos.eqb negb].
  intros HM. destruct (shape_of ep) as [k|k| |]; cbn [ret_matches] in HM.
  - destruct HM as [-> [f [-> Hf]]].
    destruct b as [|els|c m d]; cbn [decode String.eqb Ascii.eqb Bool.eqb andb option_map].
    + left; reflexivity.
    + cbn [select]. rewrite Hf. unfold of_kind, count_kind.
      remember (filter (fun e => fst e =? k) els) as l eqn:El. clear El.
      destruct (Z.of_nat (List.length l) =? 1) eqn:E1.
      * apply Z.eqb_eq in E1. destruct (length_one_inv l E1) as [x Hx]. rewrite Hx. reflexivity.
      * right. cbn.
        match goal with |- context [negb ?c] => replace c with false by (symmetry; exact E1) end.
        reflexivity.
    + cbn [select]. rewrite Hf. right. reflexivity.
  - destruct HM as [-> [f [-> Hf]]].
    destruct b as [|els|c m d]; cbn [decode String.eqb Ascii.eqb Bool.eqb andb option_map].
    + left; reflexivity.
    + cbn [select]. rewrite Hf. reflexivity.
    + cbn [select]. rewrite Hf. reflexivity.
  - destruct HM as [-> ->].
    destruct b as [|els|c m d]; cbn [decode String.eqb Ascii.eqb Bool.eqb andb option_map].
    + left; reflexivity.
    + reflexivity.
    + reflexivity.
  - destruct HM as [-> ->].
    destruct b as [|els|c m d]; cbn [decode String.eqb Ascii.eqb Bool.eqb andb option_map].
    + left; reflexivity.
    + reflexivity.
    + reflexivity.
Qed.

(* ---------- a whole call, unfolded ---------- *)

Definition request_event (cfg : str) (ep : endpoint) : event :=
  EvRequest "GET" (explicit_url cfg ep).

Definition spec_trace (cfg : str) (lim : limiter) (ep : endpoint) : list event :=
  match lim with
  | NoLimiter => [request_event cfg ep]
  | LimiterOk => [EvWait; request_event cfg ep]
  | LimiterFails => [EvWait]
  end.

Lemma call_invalid cfg lim ep resp :
  options_valid ep = false ->
  call cfg lim ep resp =
  {| o_trace := []; o_err := Some ""%string; o_data := None; o_panic := false; o_bad := false |}.
Proof.
  intros Hv. unfold call. rewrite (url_of_reject cfg ep Hv).
  destruct (find_method_some ep) as [m ->]. reflexivity.
Qed.

Lemma call_wait_fails cfg ep resp :
  options_valid ep = true ->
  call cfg LimiterFails ep resp =
  {| o_trace := [EvWait]; o_err := Some ""%string; o_data := None; o_panic := false; o_bad := false |}.
Proof.
  intros Hv. unfold call. rewrite (url_of_explicit cfg ep Hv).
  destruct (find_method_some ep) as [m ->]. reflexivity.
Qed.

Lemma call_non200 cfg lim ep resp :
  options_valid ep = true -> lim <> LimiterFails -> r_status resp <> 200 ->
  call cfg lim ep resp =
  {| o_trace := spec_trace cfg lim ep; o_err := status_error (r_status resp); o_data := None;
     o_panic := false; o_bad := false |}.
Proof.
  intros Hv Hl Hs. unfold call. rewrite (url_of_explicit cfg ep Hv).
  destruct (find_method_some ep) as [m ->].
  destruct (status_error (r_status resp)) as [t|] eqn:E.
  - unfold get_from_api. rewrite E.
    destruct lim; try congruence; reflexivity.
  - apply status_error_none in E. congruence.
Qed.

Lemma call_200 cfg lim ep resp :
  options_valid ep = true -> lim <> LimiterFails -> r_status resp = 200 ->
  let o := call cfg lim ep resp in
  o_trace o = spec_trace cfg lim ep /\ o_panic o = false /\ o_bad o = false /\
  match spec_result ep resp with
  | XData l => o_err o = None /\ o_data o = Some l
  | XErr c => c = COther /\ o_err o = Some ""%string /\ o_data o = None
  end.
Proof.
  intros Hv Hl Hs. destruct resp as [st b]. cbn [r_status] in Hs. subst st.
  destruct (method_matches ep) as [m [Hm HM]].
  pose proof (select_spec ep (m_target m) (m_ret m) b HM) as Hsel.
  assert (Hx : forall c, spec_result ep {| r_status := 200; r_body := b |} = XErr c -> c = COther).
  { unfold spec_result. cbn [r_status r_body Z.eqb Pos.eqb negb].
    intros c. destruct b; destruct (shape_of ep); try discriminate;
      try (destruct (count_kind _ _ =? 1); try discriminate); intros H; injection H; auto. }
  unfold call. rewrite (url_of_explicit cfg ep Hv), Hm.
  unfold get_from_api. cbn [r_status r_body].
  replace (status_error 200) with (@None string) by reflexivity.
  unfold result_of in Hsel.
  destruct (spec_result ep {| r_status := 200; r_body := b |}) as [l|c] eqn:Esp.
  - destruct (decode (m_target m) b) as [d|]; cbn [option_map] in Hsel; [|discriminate].
    injection Hsel as Hsel.
    destruct lim; try congruence; cbn; rewrite Hsel; cbn; repeat split; try reflexivity; auto.
  - specialize (Hx c eq_refl).
    destruct (decode (m_target m) b) as [d|]; cbn [option_map] in Hsel.
    + destruct Hsel as [Hsel|Hsel]; [discriminate|]. injection Hsel as Hsel.
      destruct lim; try congruence; cbn; rewrite Hsel; cbn; repeat split; try reflexivity; auto.
    + destruct lim; try congruence; cbn; repeat split; try reflexivity; auto.
Qed.

(* ---------- the statements of Properties/C20.v ---------- *)

Lemma lim_cases (lim : limiter) : lim = LimiterFails \/ lim <> LimiterFails.
Proof. destruct lim; [right|right|left]; congruence. Qed.

Lemma call_trace cfg lim ep resp :
  options_valid ep = true -> o_trace (call cfg lim ep resp) = spec_trace cfg lim ep.
Proof.
  intros Hv. destruct (lim_cases lim) as [->|Hl].
  - rewrite call_wait_fails by exact Hv. reflexivity.
  - destruct (Z.eq_dec (r_status resp) 200) as [Hs|Hs].
    + apply (call_200 cfg lim ep resp Hv Hl Hs).
    + rewrite call_non200 by assumption. reflexivity.
Qed.

Lemma call_covered cfg lim ep resp :
  o_bad (call cfg lim ep resp) = false /\ o_panic (call cfg lim ep resp) = false.
Proof.
  destruct (options_valid ep) eqn:Hv.
  - destruct (lim_cases lim) as [->|Hl].
    + rewrite call_wait_fails by exact Hv. split; reflexivity.
    + destruct (Z.eq_dec (r_status resp) 200) as [Hs|Hs].
      * destruct (call_200 cfg lim ep resp Hv Hl Hs) as [_ [Hp [Hb _]]]. split; assumption.
      * rewrite call_non200 by assumption. split; reflexivity.
  - rewrite call_invalid by exact Hv. split; reflexivity.
Qed.

Lemma call_result cfg lim ep resp :
  options_valid ep = true -> lim <> LimiterFails ->
  let o := call cfg lim ep resp in
  match spec_result ep resp with
  | XData l => o_err o = None /\ o_data o = Some l
  | XErr c => class_of (o_err o) = c /\ o_data o = None
  end.
Proof.
  intros Hv Hl. destruct (Z.eq_dec (r_status resp) 200) as [Hs|Hs].
  - destruct (call_200 cfg lim ep resp Hv Hl Hs) as [_ [_ [_ H]]]. cbv zeta.
    destruct (spec_result ep resp) as [l|c]; [exact H|].
    destruct H as [-> [He Hd]]. rewrite He. split; [reflexivity|exact Hd].
  - cbv zeta. rewrite call_non200 by assumption. cbn [o_err o_data].
    unfold spec_result. destruct (Z.eqb_spec (r_status resp) 200) as [E|E]; [congruence|].
    cbn [negb]. split; [apply status_error_class|reflexivity].
Qed.

Lemma call_no_request cfg lim ep resp :
  options_valid ep = false \/ lim = LimiterFails ->
  let o := call cfg lim ep resp in
  (forall m u, ~ In (EvRequest m u) (o_trace o)) /\
  class_of (o_err o) = COther /\ not_found (o_err o) = false /\ o_data o = None.
Proof.
  intros H. cbv zeta. destruct (options_valid ep) eqn:Hv.
  - destruct H as [H| ->]; [discriminate|].
    rewrite call_wait_fails by exact Hv. cbn. repeat split; try reflexivity.
    intros m u [E|[]]. discriminate.
  - rewrite call_invalid by exact Hv. cbn. repeat split; try reflexivity. intros m u [].
Qed.

Lemma not_found_iff cfg lim ep resp :
  not_found (o_err (call cfg lim ep resp)) = true <->
  (options_valid ep = true /\ lim <> LimiterFails /\ r_status resp = 404).
Proof.
  destruct (options_valid ep) eqn:Hv.
  - destruct (lim_cases lim) as [->|Hl].
    + rewrite call_wait_fails by exact Hv. cbn. split; [discriminate|intros [_ [H _]]; congruence].
    + destruct (Z.eq_dec (r_status resp) 200) as [Hs|Hs].
      * destruct (call_200 cfg lim ep resp Hv Hl Hs) as [_ [_ [_ H]]].
        destruct (spec_result ep resp) as [l|c].
        -- destruct H as [He _]. rewrite He. cbn. split; [discriminate|intros [_ [_ E]]; lia].
        -- destruct H as [_ [He _]]. rewrite He. cbn. split; [discriminate|intros [_ [_ E]]; lia].
      * rewrite call_non200 by assumption. cbn [o_err]. rewrite status_error_notfound.
        rewrite Z.eqb_eq. tauto.
  - rewrite call_invalid by exact Hv. cbn. split; [discriminate|intros [H _]; discriminate].
Qed.

Lemma non_200_no_data cfg lim ep resp :
  r_status resp <> 200 ->
  let o := call cfg lim ep resp in o_data o = None /\ o_err o <> None.
Proof.
  intros Hs. cbv zeta. destruct (options_valid ep) eqn:Hv.
  - destruct (lim_cases lim) as [->|Hl].
    + rewrite call_wait_fails by exact Hv. cbn. split; [reflexivity|discriminate].
    + rewrite call_non200 by assumption. cbn. split; [reflexivity|].
      intros E. apply status_error_none in E. contradiction.
  - rewrite call_invalid by exact Hv. cbn. split; [reflexivity|discriminate].
Qed.

(* single-element calls: one element of the requested kind or an error, whatever else the
   document holds *)
Lemma expect_one_counts cfg lim ep els :
  options_valid ep = true -> lim <> LimiterFails -> expect_one ep = true ->
  let o := call cfg lim ep {| r_status := 200; r_body := BOsm els |} in
  exists k, shape_of ep = One k /\
  ((count_kind k els = 1 ->
      exists id, filter (fun e => fst e =? k) els = [(k, id)] /\ o_err o = None /\ o_data o = Some [(k, id)])
   /\ (count_kind k els <> 1 -> class_of (o_err o) = COther /\ o_data o = None)).
Proof.
  intros Hv Hl H1. cbv zeta.
  pose proof (call_result cfg lim ep {| r_status := 200; r_body := BOsm els |} Hv Hl) as Hr.
  cbv zeta in Hr. unfold spec_result in Hr. cbn [r_status r_body Z.eqb Pos.eqb negb] in Hr.
  unfold expect_one in H1. destruct (shape_of ep) as [k| | |]; try discriminate.
  exists k. split; [reflexivity|]. split.
  - intros Hc. rewrite Hc in Hr. cbn [Z.eqb Pos.eqb] in Hr.
    unfold count_kind in Hc. destruct (length_one_inv _ Hc) as [[k' id] Hx].
    assert (Hk : k' = k).
    { assert (Hin : In (k', id) (filter (fun e => fst e =? k) els)) by (rewrite Hx; left; reflexivity).
      apply filter_In in Hin as [_ Hin]. cbn in Hin. apply Z.eqb_eq in Hin. exact Hin. }
    subst k'. exists id. rewrite Hx in Hr. split; [exact Hx|exact Hr].
  - intros Hc. destruct (Z.eqb_spec (count_kind k els) 1); [contradiction|]. exact Hr.
Qed.
