(* C20/ProofsFloat.v — what formatCoord (strconv.FormatFloat(x, 'f', 7, 64) with one trailing
   zero trimmed) transmits of a float64 coordinate: the text reads back as
   round-half-even(|x| * 10^7) / 10^7 with the sign of x, which is within half a unit of the
   seventh decimal of x — OSM's coordinate resolution — for every finite x.  (%f, six decimals,
   which the package used before the repair, is not: percent_f_lossy.) *)
From Coq Require Import ZArith List String Ascii Bool Lia.
From Verif Require Import C20.Text C20.Types C20.SpecApi C20.ProofsText.
Import ListNotations.
Open Scope Z_scope.
Open Scope list_scope.

Definition finite (x : fl) : bool := (f_class x =? 0) && (0 <=? f_m x).

(* the text formatCoord produces *)
Definition coord_text (x : fl) : str := trim_suffix (lit "0") (fmt_fixed 7 x).

(* ---------- rounding ---------- *)

Lemma rne_div_close a b : 0 <= a -> 0 < b -> 2 * Z.abs (rne_div a b * b - a) <= b.
Proof.
  intros Ha Hb. unfold rne_div.
  pose proof (Z.div_mod a b ltac:(lia)) as Hdm.
  pose proof (Z.mod_pos_bound a b Hb) as Hr.
  set (q := a / b) in *. set (r := a mod b) in *.
  assert (Hq : q * b = b * q) by ring.
  destruct (Z.ltb_spec (2 * r) b); [lia|].
  destruct (Z.ltb_spec b (2 * r)); [lia|].
  destruct (Z.even q); lia.
Qed.

Lemma rne_div_nonneg a b : 0 <= a -> 0 < b -> 0 <= rne_div a b.
Proof.
  intros Ha Hb. unfold rne_div.
  assert (0 <= a / b) by (apply Z.div_pos; lia).
  destruct (2 * (a mod b) <? b); [lia|].
  destruct (b <? 2 * (a mod b)); [lia|].
  destruct (Z.even (a / b)); lia.
Qed.

Lemma pow10_pos d : 0 < 10 ^ Z.of_nat d.
Proof. apply Z.pow_pos_nonneg; lia. Qed.

Lemma scaled_nonneg d x : finite x = true -> 0 <= scaled (Z.of_nat d) x.
Proof.
  unfold finite. intros H. apply andb_true_iff in H as [_ Hm]. apply Z.leb_le in Hm.
  pose proof (pow10_pos d) as HP.
  unfold scaled. destruct (Z.leb_spec 0 (f_e x)).
  - assert (0 < 2 ^ f_e x) by (apply Z.pow_pos_nonneg; lia). nia.
  - apply rne_div_nonneg; [nia|apply Z.pow_pos_nonneg; lia].
Qed.

(* |x| * 10^d and its rounding, cleared of the binary denominator *)
Lemma scaled_close d x : finite x = true ->
  let n := scaled (Z.of_nat d) x in
  let up := 2 ^ Z.max 0 (- f_e x) in
  2 * Z.abs (n * up - f_m x * 2 ^ Z.max 0 (f_e x) * 10 ^ Z.of_nat d) <= up.
Proof.
  intros Hf. pose proof Hf as Hf'. unfold finite in Hf'.
  apply andb_true_iff in Hf' as [_ Hm]. apply Z.leb_le in Hm.
  pose proof (pow10_pos d) as HP. cbv zeta. unfold scaled.
  destruct (Z.leb_spec 0 (f_e x)) as [He|He].
  - rewrite (Z.max_l 0 (- f_e x)) by lia. rewrite (Z.max_r 0 (f_e x)) by lia.
    change (2 ^ 0) with 1.
    replace (f_m x * 2 ^ f_e x * 10 ^ Z.of_nat d * 1 - f_m x * 2 ^ f_e x * 10 ^ Z.of_nat d) with 0 by ring.
    cbn. lia.
  - rewrite (Z.max_r 0 (- f_e x)) by lia. rewrite (Z.max_l 0 (f_e x)) by lia.
    change (2 ^ 0) with 1.
    assert (HU : 0 < 2 ^ (- f_e x)) by (apply Z.pow_pos_nonneg; lia).
    pose proof (rne_div_close (f_m x * 10 ^ Z.of_nat d) (2 ^ (- f_e x)) ltac:(nia) HU) as Hcl.
    replace (f_m x * 1 * 10 ^ Z.of_nat d) with (f_m x * 10 ^ Z.of_nat d) by ring.
    exact Hcl.
Qed.

(* ---------- reading digits back ---------- *)

Lemma digit_code d : 0 <= d <= 9 -> code (digit d) - 48 = d.
Proof.
  intros H. destruct (digit_cases d H) as [?|[?|[?|[?|[?|[?|[?|[?|[?|?]]]]]]]]]; subst d; reflexivity.
Qed.

Lemma digits_value_snoc s a : digits_value (s ++ [a]) = 10 * digits_value s + (code a - 48).
Proof. unfold digits_value. rewrite fold_left_app. reflexivity. Qed.

Lemma fold_digits_app acc a b :
  fold_left (fun acc a => 10 * acc + (code a - 48)) (a ++ b) acc =
  fold_left (fun acc a => 10 * acc + (code a - 48)) b
            (fold_left (fun acc a => 10 * acc + (code a - 48)) a acc).
Proof. apply fold_left_app. Qed.

Lemma fixed_digits_value k : forall acc n,
  fold_left (fun acc a => 10 * acc + (code a - 48)) (fixed_digits k n) acc
  = acc * 10 ^ Z.of_nat k + n mod 10 ^ Z.of_nat k.
Proof.
  induction k as [|k IH]; intros acc n.
  - change (10 ^ Z.of_nat 0) with 1. rewrite Z.mod_1_r. cbn [fixed_digits fold_left]. lia.
  - cbn [fixed_digits]. rewrite fold_left_app, IH. cbn [fold_left].
    rewrite digit_code by (pose proof (Z.mod_pos_bound n 10 ltac:(lia)); lia).
    rewrite Nat2Z.inj_succ, Z.pow_succ_r by lia.
    assert (HP : 0 < 10 ^ Z.of_nat k) by (apply Z.pow_pos_nonneg; lia).
    rewrite (Z.rem_mul_r n 10 (10 ^ Z.of_nat k)) by lia.
    ring.
Qed.

Lemma udigits_value fuel : forall n, 0 <= n < 10 ^ Z.of_nat fuel -> digits_value (udigits fuel n) = n.
Proof.
  induction fuel as [|f IH]; intros n Hn.
  - change (10 ^ Z.of_nat 0) with 1 in Hn. assert (n = 0) by lia. subst n. reflexivity.
  - cbn [udigits]. destruct (Z.ltb_spec n 10) as [Hlt|Hge].
    + unfold digits_value. cbn [fold_left]. rewrite digit_code by lia. lia.
    + rewrite digits_value_snoc.
      rewrite digit_code by (pose proof (Z.mod_pos_bound n 10 ltac:(lia)); lia).
      rewrite IH.
      * pose proof (Z.div_mod n 10 ltac:(lia)). lia.
      * rewrite Nat2Z.inj_succ, Z.pow_succ_r in Hn by lia.
        split; [apply Z.div_pos; lia|]. apply Z.div_lt_upper_bound; lia.
Qed.

Lemma udec_value n : 0 <= n -> digits_value (udec n) = n.
Proof.
  intros Hn. unfold udec. apply udigits_value. split; [exact Hn|].
  rewrite Nat2Z.inj_succ, Z2Nat.id by apply Z.log2_nonneg.
  destruct (Z.eq_dec n 0) as [->|Hz]; [reflexivity|].
  pose proof (Z.log2_spec n ltac:(lia)) as [_ Hlt].
  eapply Z.lt_le_trans; [exact Hlt|].
  apply Z.pow_le_mono_l. lia.
Qed.

(* ---------- fixed-point text ---------- *)

Definition sign_text (neg : bool) : str := if neg then ["-"%char] else [].

Lemma head_digit_not_minus s :
  s <> [] -> forallb is_digit s = true -> forall t, strip_minus (s ++ t) = (false, s ++ t).
Proof.
  intros Hne Hd t. destruct s as [|a s]; [congruence|].
  cbn in Hd. apply andb_true_iff in Hd as [Ha _].
  cbn [app strip_minus]. destruct (Ascii.eqb a "-") eqn:E; [|reflexivity].
  apply Ascii.eqb_eq in E. subst a. discriminate Ha.
Qed.

(* sign, integer part, '.', exactly d decimals of n: reads back as n / 10^d *)
Lemma fixed_text_read neg n d :
  0 <= n ->
  read_decimal (sign_text neg ++ udec (n / 10 ^ Z.of_nat d) ++ "."%char :: fixed_digits d n)
  = Some (neg, n, d).
Proof.
  intros Hn. pose proof (pow10_pos d) as HP.
  assert (Hq : 0 <= n / 10 ^ Z.of_nat d) by (apply Z.div_pos; lia).
  assert (Hip : forallb is_digit (udec (n / 10 ^ Z.of_nat d)) = true)
    by (apply udec_all; [exact is_digit_on_digits|exact Hq]).
  assert (Hfp : forallb is_digit (fixed_digits d n) = true)
    by (apply fixed_digits_all; exact is_digit_on_digits).
  assert (Hnd : nochar "." (udec (n / 10 ^ Z.of_nat d)) = true)
    by (apply udec_all; [exact nodot_on_digits|exact Hq]).
  assert (Hbody :
    read_body neg (udec (n / 10 ^ Z.of_nat d) ++ "."%char :: fixed_digits d n) = Some (neg, n, d)).
  { unfold read_body. rewrite (cut_at_app _ _ _ Hnd). rewrite Hip, Hfp. cbn [andb negb].
    destruct (udec (n / 10 ^ Z.of_nat d)) eqn:Eu; [exfalso; exact (udec_nonempty _ Eu)|].
    rewrite <- Eu. rewrite fixed_digits_length.
    unfold digits_value. rewrite fold_left_app.
    fold (digits_value (udec (n / 10 ^ Z.of_nat d))). rewrite (udec_value _ Hq).
    rewrite fixed_digits_value.
    pose proof (Z.div_mod n (10 ^ Z.of_nat d) ltac:(lia)) as Hdm.
    replace (n / 10 ^ Z.of_nat d * 10 ^ Z.of_nat d + n mod 10 ^ Z.of_nat d) with n by lia.
    reflexivity. }
  unfold read_decimal, sign_text. destruct neg.
  - cbn [app strip_minus]. rewrite Ascii.eqb_refl. exact Hbody.
  - cbn [app]. rewrite (head_digit_not_minus _ (udec_nonempty _) Hip). exact Hbody.
Qed.

Lemma fmt_fixed_finite d x : finite x = true ->
  fmt_fixed (S d) x =
  sign_text (f_neg x) ++ udec (scaled (Z.of_nat (S d)) x / 10 ^ Z.of_nat (S d)) ++
  "."%char :: fixed_digits (S d) (scaled (Z.of_nat (S d)) x).
Proof.
  unfold finite. intros H. apply andb_true_iff in H as [Hc _]. apply Z.eqb_eq in Hc.
  unfold fmt_fixed. rewrite Hc. reflexivity.
Qed.

Lemma fmt_fixed_read d x : finite x = true ->
  read_decimal (fmt_fixed (S d) x) = Some (f_neg x, scaled (Z.of_nat (S d)) x, S d).
Proof.
  intros Hf. rewrite (fmt_fixed_finite d x Hf). apply fixed_text_read, scaled_nonneg, Hf.
Qed.

Lemma fmt_fixed_all P d x :
  finite x = true -> on_digits P -> P "-"%char = true -> P "."%char = true ->
  forallb P (fmt_fixed (S d) x) = true.
Proof.
  intros Hf HP Hm Hd. rewrite (fmt_fixed_finite d x Hf).
  pose proof (scaled_nonneg (S d) x Hf) as Hn. pose proof (pow10_pos (S d)) as HP10.
  rewrite !forallb_app. cbn [forallb].
  rewrite udec_all by (exact HP || (apply Z.div_pos; lia)).
  rewrite fixed_digits_all by exact HP. rewrite Hd.
  unfold sign_text. destruct (f_neg x); cbn; rewrite ?Hm; reflexivity.
Qed.

(* ---------- TrimSuffix ---------- *)

Lemma str_eqb_cons_nil a s : str_eqb (a :: s) [] = false.
Proof. reflexivity. Qed.

Lemma trim_suffix_snoc c s a :
  trim_suffix [c] (s ++ [a]) = if Ascii.eqb a c then s else s ++ [a].
Proof.
  induction s as [|x s IH].
  - cbn. destruct (Ascii.eqb a c); reflexivity.
  - cbn [app trim_suffix]. 
    assert (E : str_eqb (x :: s ++ [a]) [c] = false).
    { change (str_eqb (x :: s ++ [a]) [c]) with (Ascii.eqb x c && str_eqb (s ++ [a]) []).
      destruct s; cbn [app]; rewrite str_eqb_cons_nil; apply andb_false_r. }
    rewrite E, IH. destruct (Ascii.eqb a c); reflexivity.
Qed.

Lemma trim_suffix_all P suf s : forallb P s = true -> forallb P (trim_suffix suf s) = true.
Proof.
  induction s as [|a s IH]; intros H; [reflexivity|].
  cbn in H. apply andb_true_iff in H as [Ha Hs].
  cbn [trim_suffix]. destruct (str_eqb (a :: s) suf); [reflexivity|].
  cbn. rewrite Ha, (IH Hs). reflexivity.
Qed.

Lemma digit_is_zero d : 0 <= d <= 9 -> Ascii.eqb (digit d) "0" = (d =? 0).
Proof.
  intros H. destruct (digit_cases d H) as [?|[?|[?|[?|[?|[?|[?|[?|[?|?]]]]]]]]]; subst d; reflexivity.
Qed.

(* ---------- formatCoord ---------- *)

Lemma coord_text_shape x : finite x = true ->
  let n := scaled 7 x in
  coord_text x =
  if n mod 10 =? 0
  then sign_text (f_neg x) ++ udec ((n / 10) / 10 ^ Z.of_nat 6) ++ "."%char :: fixed_digits 6 (n / 10)
  else sign_text (f_neg x) ++ udec (n / 10 ^ Z.of_nat 7) ++ "."%char :: fixed_digits 7 n.
Proof.
  intros Hf. cbv zeta. unfold coord_text. rewrite (fmt_fixed_finite 6 x Hf).
  change (Z.of_nat 7) with 7. set (n := scaled 7 x).
  change (lit "0") with ["0"%char].
  assert (E : sign_text (f_neg x) ++ udec (n / 10 ^ 7) ++ "."%char :: fixed_digits 7 n =
              (sign_text (f_neg x) ++ udec (n / 10 ^ 7) ++ "."%char :: fixed_digits 6 (n / 10))
              ++ [digit (n mod 10)]).
  { change (fixed_digits 7 n) with (fixed_digits 6 (n / 10) ++ [digit (n mod 10)]).
    rewrite <- !app_assoc. reflexivity. }
  rewrite E.
  rewrite trim_suffix_snoc.
  rewrite digit_is_zero by (pose proof (Z.mod_pos_bound n 10 ltac:(lia)); lia).
  destruct (n mod 10 =? 0).
  - change (10 ^ Z.of_nat 6) with 1000000. change (10 ^ 7) with 10000000.
    rewrite Z.div_div by lia. reflexivity.
  - rewrite <- E. reflexivity.
Qed.

Lemma coord_text_read x : finite x = true ->
  let n := scaled 7 x in
  read_decimal (coord_text x) =
  Some (if n mod 10 =? 0 then (f_neg x, n / 10, 6%nat) else (f_neg x, n, 7%nat)).
Proof.
  intros Hf. cbv zeta. rewrite (coord_text_shape x Hf).
  pose proof (scaled_nonneg 7 x Hf) as Hn. change (Z.of_nat 7) with 7 in Hn.
  destruct (scaled 7 x mod 10 =? 0).
  - apply fixed_text_read. apply Z.div_pos; lia.
  - apply fixed_text_read. exact Hn.
Qed.

(* the coordinate text is faithful at OSM's resolution (and a fortiori at six decimals) *)
Lemma coord_text_faithful strict x : finite x = true -> coord_text_ok strict x (coord_text x) = true.
Proof.
  intros Hf. unfold coord_text_ok. rewrite (coord_text_read x Hf).
  pose proof Hf as Hf'. unfold finite in Hf'. apply andb_true_iff in Hf' as [Hc Hm].
  pose proof (scaled_close 7 x Hf) as Hcl. cbv zeta in Hcl.
  change (Z.of_nat 7) with 7 in Hcl. change (10 ^ 7) with 10000000 in Hcl.
  pose proof (scaled_nonneg 7 x Hf) as Hn. change (Z.of_nat 7) with 7 in Hn.
  set (n := scaled 7 x) in *. set (up := 2 ^ Z.max 0 (- f_e x)) in *.
  set (B := f_m x * 2 ^ Z.max 0 (f_e x)) in *.
  assert (Hup : 0 < up) by (apply Z.pow_pos_nonneg; lia).
  assert (Hstrict : forall tol, 0 < tol <= 20000000 ->
    (tol * Z.abs ((if f_neg x then - n else n) * up - (if f_neg x then - f_m x else f_m x) * 2 ^ Z.max 0 (f_e x) * 10000000)
     <=? up * 10000000) = true).
  { intros tol Ht. apply Z.leb_le. fold B.
    assert (E : Z.abs ((if f_neg x then - n else n) * up - (if f_neg x then - f_m x else f_m x) * 2 ^ Z.max 0 (f_e x) * 10000000)
                = Z.abs (n * up - B * 10000000)).
    { unfold B. destruct (f_neg x); [|reflexivity].
      replace (- n * up - - f_m x * 2 ^ Z.max 0 (f_e x) * 10000000)
        with (- (n * up - f_m x * 2 ^ Z.max 0 (f_e x) * 10000000)) by ring.
      apply Z.abs_opp. }
    rewrite E. nia. }
  destruct (Z.eqb_spec (n mod 10) 0) as [Hz|Hz].
  - (* trimmed: numerator n/10 over 10^6 *)
    unfold coord_faithful, coord_within. rewrite Hc. cbn [andb].
    change (10 ^ Z.of_nat 6) with 1000000. fold up.
    assert (En : n = 10 * (n / 10)) by (pose proof (Z.div_mod n 10 ltac:(lia)); lia).
    apply Z.leb_le.
    assert (E : Z.abs ((if f_neg x then - (n / 10) else n / 10) * up -
                       (if f_neg x then - f_m x else f_m x) * 2 ^ Z.max 0 (f_e x) * 1000000)
                = Z.abs ((n / 10) * up - B * 1000000)).
    { unfold B. destruct (f_neg x); [|reflexivity].
      replace (- (n / 10) * up - - f_m x * 2 ^ Z.max 0 (f_e x) * 1000000)
        with (- (n / 10 * up - f_m x * 2 ^ Z.max 0 (f_e x) * 1000000)) by ring.
      apply Z.abs_opp. }
    rewrite E.
    assert (E10 : n * up - B * 10000000 = 10 * ((n / 10) * up - B * 1000000)) by (rewrite En at 1; ring).
    rewrite E10, Z.abs_mul in Hcl. change (Z.abs 10) with 10 in Hcl.
    destruct strict; nia.
  - unfold coord_faithful, coord_within. rewrite Hc. cbn [andb].
    change (10 ^ Z.of_nat 7) with 10000000. fold up.
    destruct strict; apply Hstrict; lia.
Qed.

Lemma coord_text_all P x :
  finite x = true -> on_digits P -> P "-"%char = true -> P "."%char = true ->
  forallb P (coord_text x) = true.
Proof. intros Hf HP Hm Hd. apply trim_suffix_all, fmt_fixed_all; assumption. Qed.

(* before the repair the package printed %f: six decimals lose OSM's seventh *)
Lemma percent_f_lossy :
  exists x, finite x = true /\ coord_text_ok true x (fmt_f x) = false /\
            coord_text_ok true x (coord_text x) = true.
Proof.
  exists {| f_class := 0; f_neg := false; f_m := 5059597824406999; f_e := -52 |}.
  vm_compute. repeat split.
Qed.

(* ---------- the decimal printer against the specification's reader ----------

   SpecApi writes expected ids, versions, limits with the model's printer [dec]; these lemmas
   characterise that printer by the independent reader of Text.v ([read_decimal], [split_on]):
   the text of a number denotes that number, and a comma-joined list splits back. *)

Lemma dec_reads_back z : read_decimal (dec z) = Some (z <? 0, Z.abs z, 0%nat).
Proof.
  assert (Hbody : forall neg n, 0 <= n -> read_body neg (udec n) = Some (neg, n, 0%nat)).
  { intros neg n Hn. unfold read_body.
    rewrite (cut_at_none "." (udec n)) by (apply udec_all; [exact nodot_on_digits|exact Hn]).
    rewrite (udec_all is_digit n is_digit_on_digits Hn). cbn [forallb andb negb].
    destruct (udec n) eqn:Eu; [exfalso; exact (udec_nonempty _ Eu)|].
    rewrite <- Eu, app_nil_r, (udec_value n Hn). reflexivity. }
  unfold dec, read_decimal. destruct (Z.ltb_spec z 0) as [Hneg|Hpos].
  - cbn [strip_minus]. rewrite Ascii.eqb_refl. rewrite Hbody by lia. f_equal. f_equal. f_equal. lia.
  - pose proof (head_digit_not_minus (udec z) (udec_nonempty z)
                  (udec_all is_digit z is_digit_on_digits Hpos) []) as Hs.
    rewrite app_nil_r in Hs. rewrite Hs, Hbody by lia. f_equal. f_equal. f_equal. lia.
Qed.

Lemma nocomma_dec z : nochar "," (dec z) = true.
Proof. apply dec_all; [exact nocomma_on_digits|reflexivity]. Qed.

Lemma ids_split_back ids : ids <> [] ->
  split_on "," (join (lit ",") (map dec ids)) = map dec ids.
Proof.
  induction ids as [|a ids IH]; intros Hne; [congruence|].
  destruct ids as [|b ids].
  - cbn [map join]. apply split_on_none, nocomma_dec.
  - change (join (lit ",") (map dec (a :: b :: ids)))
      with (dec a ++ ","%char :: join (lit ",") (map dec (b :: ids))).
    rewrite (split_on_app _ _ _ (nocomma_dec a)), IH by discriminate. reflexivity.
Qed.
