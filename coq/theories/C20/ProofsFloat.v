(* C20/ProofsFloat.v — what %f (six decimals) transmits of a float64 coordinate: the text reads
   back as round-half-even(|x| * 10^6) / 10^6 with the sign of x, which is always within half a
   unit of the sixth decimal of x, and within half a unit of the seventh exactly for the
   coordinates outside the known-finding class. *)
From Coq Require Import ZArith List String Ascii Bool Lia.
From Verif Require Import C20.Text C20.Types C20.SpecApi C20.ProofsText.
Import ListNotations.
Open Scope Z_scope.
Open Scope list_scope.

Definition finite (x : fl) : bool := (f_class x =? 0) && (0 <=? f_m x).

(* six decimals carry x at OSM's resolution (the complement is the known-finding class) *)
Definition six_decimals_suffice (x : fl) : bool :=
  coord_faithful true x (f_neg x, scaled 6 x, 6%nat).

(* ---------- rounding ---------- *)

Lemma rne_div_close a b : 0 <= a -> 0 < b -> 2 * Z.abs (rne_div a b * b - a) <= b.
Proof.
  intros Ha Hb. unfold rne_div.
  pose proof (Z.div_mod a b ltac:(lia)) as Hdm.
  pose proof (Z.mod_pos_bound a b Hb) as Hr.
  set (q := a / b) in *. set (r := a mod b) in *.
  assert (Hq : q * b = b * q) by ring.
  destruct (Z.ltb_spec (2 * r) b); [lia|].
  destruct (Z.ltb_spec b (2 * r)); [lia|].
  destruct (Z.even q); lia.
Qed.

Lemma rne_div_nonneg a b : 0 <= a -> 0 < b -> 0 <= rne_div a b.
Proof.
  intros Ha Hb. unfold rne_div.
  assert (0 <= a / b) by (apply Z.div_pos; lia).
  destruct (2 * (a mod b) <? b); [lia|].
  destruct (b <? 2 * (a mod b)); [lia|].
  destruct (Z.even (a / b)); lia.
Qed.

Lemma scaled_nonneg x : finite x = true -> 0 <= scaled 6 x.
Proof.
  unfold finite. intros H. apply andb_true_iff in H as [_ Hm]. apply Z.leb_le in Hm.
  unfold scaled. destruct (Z.leb_spec 0 (f_e x)).
  - assert (0 < 2 ^ f_e x) by (apply Z.pow_pos_nonneg; lia). nia.
  - apply rne_div_nonneg; [|apply Z.pow_pos_nonneg; lia].
    change (10 ^ 6) with 1000000. lia.
Qed.

Lemma scaled_lax x : finite x = true -> coord_faithful false x (f_neg x, scaled 6 x, 6%nat) = true.
Proof.
  intros Hf. pose proof Hf as Hf'. unfold finite in Hf'.
  apply andb_true_iff in Hf' as [Hc Hm]. apply Z.leb_le in Hm.
  unfold coord_faithful, coord_within. rewrite Hc. cbn [andb].
  change (10 ^ Z.of_nat 6) with 1000000.
  apply Z.leb_le. unfold scaled. change (10 ^ 6) with 1000000.
  destruct (Z.leb_spec 0 (f_e x)) as [He|He].
  - rewrite (Z.max_l 0 (- f_e x)) by lia. rewrite (Z.max_r 0 (f_e x)) by lia.
    change (2 ^ 0) with 1. destruct (f_neg x); lia.
  - rewrite (Z.max_r 0 (- f_e x)) by lia. rewrite (Z.max_l 0 (f_e x)) by lia.
    change (2 ^ 0) with 1.
    assert (HU : 0 < 2 ^ (- f_e x)) by (apply Z.pow_pos_nonneg; lia).
    pose proof (rne_div_close (f_m x * 1000000) (2 ^ (- f_e x)) ltac:(lia) HU) as Hcl.
    set (U := 2 ^ (- f_e x)) in *. set (n := rne_div (f_m x * 1000000) U) in *.
    destruct (f_neg x); lia.
Qed.

(* ---------- reading digits back ---------- *)

Lemma digit_code d : 0 <= d <= 9 -> code (digit d) - 48 = d.
Proof.
  intros H. destruct (digit_cases d H) as [?|[?|[?|[?|[?|[?|[?|[?|[?|?]]]]]]]]]; subst d; reflexivity.
Qed.

Lemma digits_value_snoc s a : digits_value (s ++ [a]) = 10 * digits_value s + (code a - 48).
Proof. unfold digits_value. rewrite fold_left_app. reflexivity. Qed.

Lemma fold_digits_app acc a b :
  fold_left (fun acc a => 10 * acc + (code a - 48)) (a ++ b) acc =
  fold_left (fun acc a => 10 * acc + (code a - 48)) b
            (fold_left (fun acc a => 10 * acc + (code a - 48)) a acc).
Proof. apply fold_left_app. Qed.

Lemma fixed_digits_value k : forall acc n,
  fold_left (fun acc a => 10 * acc + (code a - 48)) (fixed_digits k n) acc
  = acc * 10 ^ Z.of_nat k + n mod 10 ^ Z.of_nat k.
Proof.
  induction k as [|k IH]; intros acc n.
  - change (10 ^ Z.of_nat 0) with 1. rewrite Z.mod_1_r. cbn [fixed_digits fold_left]. lia.
  - cbn [fixed_digits]. rewrite fold_left_app, IH. cbn [fold_left].
    rewrite digit_code by (pose proof (Z.mod_pos_bound n 10 ltac:(lia)); lia).
    rewrite Nat2Z.inj_succ, Z.pow_succ_r by lia.
    assert (HP : 0 < 10 ^ Z.of_nat k) by (apply Z.pow_pos_nonneg; lia).
    rewrite (Z.rem_mul_r n 10 (10 ^ Z.of_nat k)) by lia.
    ring.
Qed.

Lemma udigits_value fuel : forall n, 0 <= n < 10 ^ Z.of_nat fuel -> digits_value (udigits fuel n) = n.
Proof.
  induction fuel as [|f IH]; intros n Hn.
  - change (10 ^ Z.of_nat 0) with 1 in Hn. assert (n = 0) by lia. subst n. reflexivity.
  - cbn [udigits]. destruct (Z.ltb_spec n 10) as [Hlt|Hge].
    + unfold digits_value. cbn [fold_left]. rewrite digit_code by lia. lia.
    + rewrite digits_value_snoc.
      rewrite digit_code by (pose proof (Z.mod_pos_bound n 10 ltac:(lia)); lia).
      rewrite IH.
      * pose proof (Z.div_mod n 10 ltac:(lia)). lia.
      * rewrite Nat2Z.inj_succ, Z.pow_succ_r in Hn by lia.
        split; [apply Z.div_pos; lia|]. apply Z.div_lt_upper_bound; lia.
Qed.

Lemma udec_value n : 0 <= n -> digits_value (udec n) = n.
Proof.
  intros Hn. unfold udec. apply udigits_value. split; [exact Hn|].
  rewrite Nat2Z.inj_succ, Z2Nat.id by apply Z.log2_nonneg.
  destruct (Z.eq_dec n 0) as [->|Hz]; [reflexivity|].
  pose proof (Z.log2_spec n ltac:(lia)) as [_ Hlt].
  eapply Z.lt_le_trans; [exact Hlt|].
  apply Z.pow_le_mono_l. lia.
Qed.

(* ---------- %f ---------- *)

Lemma fmt_f_finite x : finite x = true ->
  fmt_f x = (if f_neg x then ["-"%char] else []) ++
            udec (scaled 6 x / 1000000) ++ "."%char :: fixed_digits 6 (scaled 6 x).
Proof.
  unfold finite. intros H. apply andb_true_iff in H as [Hc _]. apply Z.eqb_eq in Hc.
  unfold fmt_f. rewrite Hc. reflexivity.
Qed.

Lemma fmt_f_all P x :
  finite x = true -> on_digits P -> P "-"%char = true -> P "."%char = true ->
  forallb P (fmt_f x) = true.
Proof.
  intros Hf HP Hm Hd. rewrite (fmt_f_finite x Hf).
  pose proof (scaled_nonneg x Hf) as Hn.
  rewrite !forallb_app. cbn [forallb].
  rewrite udec_all by (exact HP || (apply Z.div_pos; lia)).
  rewrite fixed_digits_all by exact HP. rewrite Hd.
  destruct (f_neg x); cbn; rewrite ?Hm; reflexivity.
Qed.

Lemma head_digit_not_minus s :
  s <> [] -> forallb is_digit s = true -> forall t, strip_minus (s ++ t) = (false, s ++ t).
Proof.
  intros Hne Hd t. destruct s as [|a s]; [congruence|].
  cbn in Hd. apply andb_true_iff in Hd as [Ha _].
  cbn [app strip_minus]. destruct (Ascii.eqb a "-") eqn:E; [|reflexivity].
  apply Ascii.eqb_eq in E. subst a. discriminate Ha.
Qed.

Lemma fmt_f_read x : finite x = true -> read_decimal (fmt_f x) = Some (f_neg x, scaled 6 x, 6%nat).
Proof.
  intros Hf. rewrite (fmt_f_finite x Hf).
  pose proof (scaled_nonneg x Hf) as Hn.
  set (n := scaled 6 x) in *.
  assert (Hq : 0 <= n / 1000000) by (apply Z.div_pos; lia).
  assert (Hip : forallb is_digit (udec (n / 1000000)) = true)
    by (apply udec_all; [exact is_digit_on_digits|exact Hq]).
  assert (Hfp : forallb is_digit (fixed_digits 6 n) = true)
    by (apply fixed_digits_all; exact is_digit_on_digits).
  assert (Hnd : nochar "." (udec (n / 1000000)) = true)
    by (apply udec_all; [exact nodot_on_digits|exact Hq]).
  assert (Hbody : forall neg,
    read_body neg (udec (n / 1000000) ++ "."%char :: fixed_digits 6 n) = Some (neg, n, 6%nat)).
  { intros neg. unfold read_body. rewrite (cut_at_app _ _ _ Hnd). rewrite Hip, Hfp. cbn [andb negb].
    destruct (udec (n / 1000000)) eqn:Eu; [exfalso; exact (udec_nonempty _ Eu)|].
    rewrite <- Eu. rewrite fixed_digits_length.
    unfold digits_value. rewrite fold_left_app.
    fold (digits_value (udec (n / 1000000))). rewrite (udec_value _ Hq).
    rewrite fixed_digits_value. change (10 ^ Z.of_nat 6) with 1000000.
    pose proof (Z.div_mod n 1000000 ltac:(lia)) as Hdm.
    replace (n / 1000000 * 1000000 + n mod 1000000) with n by lia. reflexivity. }
  unfold read_decimal. destruct (f_neg x).
  - cbn [app strip_minus]. rewrite Ascii.eqb_refl. apply Hbody.
  - cbn [app]. rewrite (head_digit_not_minus _ (udec_nonempty _) Hip). apply Hbody.
Qed.

(* the coordinate text produced by %f is faithful to six decimals, always; and to seven exactly
   when six decimals suffice *)
Lemma fmt_f_coord_ok strict x :
  finite x = true -> (strict = true -> six_decimals_suffice x = true) ->
  coord_text_ok strict x (fmt_f x) = true.
Proof.
  intros Hf Hs. unfold coord_text_ok. rewrite (fmt_f_read x Hf).
  destruct strict; [exact (Hs eq_refl)|exact (scaled_lax x Hf)].
Qed.
