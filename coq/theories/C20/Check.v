(* C20/Check.v — correspondence + property oracle for one harness case (executable only).

   Case layout (ints are wire ints, strings are byte strings):
     tag(1)
     configured-base:string  limiter(0 none | 1 ok | 2 fails)
     context(0 live | 1 cancelled before the call | 2 cancelled while the request is in flight)
     follow-redirects:bool  hops: list of absolute Location strings  hop-status
     endpoint: code then arguments
        0 Get e id fopts | 1 Multi e ids fopts | 2 Version e id v | 3 History e id
        4 NodeWays id fopts | 5 RelationsOf e id fopts | 6 Full fe id fopts | 7 Map bounds fopts
        8 Changeset id | 9 ChangesetWithDiscussion id | 10 ChangesetDownload id | 11 Note id
        12 Notes bounds nopts | 13 NotesSearch q nopts | 14 User id
        e: 0 node 1 way 2 relation; fe: 0 way 1 relation; fopts: list of unix seconds;
        nopts: list of (0 limit | 1 closed, n); bounds: 4 floats (class neg m e)
     response: status, body (0 malformed | 1 els | 2 create modify delete), els: list (kind id)
     observed: events: list (1 wait | 2 request)
               requests: list (method:string url:string)   url = "http://" Host RequestURI
               error class (0 none 1 notfound 2 forbidden 3 gone 4 uritoolong 5 unexpected 6 other)
               NotFound(err):bool  has_data:bool  data: list (kind id)  panicked:bool
               content:bool (Go-side: every returned element carries the text the server sent)
               texts: list int (per returned element the number of the text it carries; judged
               here against Types.text_index; the model abstracts an element to (kind, id):
               decoding keeps its content)
   tag 2 (sequence): configured-base limiter | endpoint status body observed (first call)
                     | endpoint status body observed (second call)
                     | has_data:bool data (the first call's result re-read after the second call)
     Results are values in the model: a later call cannot change an earlier result.
   codes: 1 = model <> implementation, 2 = the property oracle (SpecApi) fails on the
          observation, 0 = case does not parse. *)
From Coq Require Import ZArith List String Ascii Bool.
From Verif Require Import Base.Wire C20.Syntax C20.Text C20.Types C20.Model C20.SpecApi.
Import ListNotations.
Open Scope Z_scope.
Open Scope list_scope.
Open Scope wire_scope.

Definition pstr : P str := s <- pstring ;; ret (list_ascii_of_string s).

Definition pelem : P elem :=
  c <- pint ;;
  if c =? 0 then ret Node else if c =? 1 then ret Way else if c =? 2 then ret Relation else pfail.
Definition pfull : P full_elem :=
  c <- pint ;; if c =? 0 then ret FWay else if c =? 1 then ret FRelation else pfail.

Definition pfl : P fl :=
  c <- pint ;; n <- pbool ;; m <- pint ;; e <- pint ;;
  ret {| f_class := c; f_neg := n; f_m := m; f_e := e |}.
Definition pbounds : P bounds :=
  a <- pfl ;; b <- pfl ;; c <- pfl ;; d <- pfl ;;
  ret {| MinLon := a; MinLat := b; MaxLon := c; MaxLat := d |}.

Definition pfopts : P (list fopt) := l <- plist pint ;; ret (map At l).
Definition pnopt : P nopt :=
  k <- pint ;; n <- pint ;;
  if k =? 0 then ret (Limit n) else if k =? 1 then ret (MaxDaysClosed n) else pfail.
Definition pnopts : P (list nopt) := plist pnopt.

Definition pendpoint : P endpoint :=
  c <- pint ;;
  if c =? 0 then e <- pelem ;; id <- pint ;; o <- pfopts ;; ret (Get e id o)
  else if c =? 1 then e <- pelem ;; ids <- plist pint ;; o <- pfopts ;; ret (Multi e ids o)
  else if c =? 2 then e <- pelem ;; id <- pint ;; v <- pint ;; ret (Version e id v)
  else if c =? 3 then e <- pelem ;; id <- pint ;; ret (History e id)
  else if c =? 4 then id <- pint ;; o <- pfopts ;; ret (NodeWays id o)
  else if c =? 5 then e <- pelem ;; id <- pint ;; o <- pfopts ;; ret (RelationsOf e id o)
  else if c =? 6 then e <- pfull ;; id <- pint ;; o <- pfopts ;; ret (Full e id o)
  else if c =? 7 then b <- pbounds ;; o <- pfopts ;; ret (Map b o)
  else if c =? 8 then id <- pint ;; ret (Changeset id)
  else if c =? 9 then id <- pint ;; ret (ChangesetWithDiscussion id)
  else if c =? 10 then id <- pint ;; ret (ChangesetDownload id)
  else if c =? 11 then id <- pint ;; ret (Note id)
  else if c =? 12 then b <- pbounds ;; o <- pnopts ;; ret (Notes b o)
  else if c =? 13 then q <- pstr ;; o <- pnopts ;; ret (NotesSearch q o)
  else if c =? 14 then id <- pint ;; ret (User id)
  else pfail.

Definition pel : P el := ppair pint pint.
Definition pbody : P body :=
  c <- pint ;;
  if c =? 0 then ret BMalformed
  else if c =? 1 then l <- plist pel ;; ret (BOsm l)
  else if c =? 2 then a <- plist pel ;; b <- plist pel ;; d <- plist pel ;; ret (BChange a b d)
  else pfail.

Definition plimiter : P limiter :=
  c <- pint ;;
  if c =? 0 then ret NoLimiter else if c =? 1 then ret LimiterOk
  else if c =? 2 then ret LimiterFails else pfail.

Record observed := {
  ob_events : list Z;
  ob_requests : list (str * str);
  ob_class : Z;
  ob_notfound : bool;
  ob_has_data : bool;
  ob_data : list el;
  ob_panic : bool;
  ob_content : bool;
  ob_texts : list Z }.

Definition pobserved : P observed :=
  ev <- plist pint ;; rq <- plist (ppair pstr pstr) ;; c <- pint ;; nf <- pbool ;;
  hd <- pbool ;; d <- plist pel ;; pn <- pbool ;; ct <- pbool ;; tx <- plist pint ;;
  ret {| ob_events := ev; ob_requests := rq; ob_class := c; ob_notfound := nf;
         ob_has_data := hd; ob_data := d; ob_panic := pn; ob_content := ct; ob_texts := tx |}.

Definition el_eqb (a b : el) : bool := (fst a =? fst b) && (snd a =? snd b).
Definition els_eqb := list_eqb el_eqb.

(* URLs are compared as (part before '?', non-empty '&' pieces): a trailing '?' or '&' or an
   empty piece is not a difference *)
Definition canon_url (u : str) : str * list str :=
  let '(p, q) := split_target u in
  (p, filter (fun s => match s with [] => false | _ => true end) (split_on "&" q)).
Definition url_eqb (a b : str) : bool :=
  let '(p, q) := canon_url a in let '(p', q') := canon_url b in
  str_eqb p p' && list_eqb str_eqb q q'.

Definition event_code (e : event) : Z := match e with EvWait => 1 | EvRequest _ _ => 2 end.
Definition requests_of (t : list event) : list (str * str) :=
  flat_map (fun e => match e with EvRequest m u => [(lit m, u)] | EvWait => [] end) t.

(* content: every returned element carries the text the body generator gave to (kind, id) —
   decided here, on the transported text numbers (the Go-side flag is kept as a fallback) *)
Definition texts_ok (ob : observed) : bool :=
  if ob_has_data ob
  then list_eqb Z.eqb (map (fun e => text_index (fst e) (snd e)) (ob_data ob)) (ob_texts ob)
  else match ob_texts ob with [] => true | _ => false end.

(* judgement 1: the model's outcome equals the observation *)
Definition model_agrees (cfg : str) (w : world) (ep : endpoint) (ob : observed) : bool :=
  let o := call_w cfg w ep in
  negb (o_bad o) && ob_content ob && texts_ok ob &&
  list_eqb Z.eqb (map event_code (o_trace o)) (ob_events ob) &&
  list_eqb (fun a b => str_eqb (fst a) (fst b) && url_eqb (snd a) (snd b))
           (requests_of (o_trace o)) (ob_requests ob) &&
  (class_code (class_of (o_err o)) =? ob_class ob) &&
  Bool.eqb (not_found (o_err o)) (ob_notfound ob) &&
  Bool.eqb (o_panic o) (ob_panic ob) &&
  match o_data o with
  | Some d => ob_has_data ob && els_eqb d (ob_data ob)
  | None => negb (ob_has_data ob)
  end.

(* judgement 2: the property, evaluated on what the implementation did *)
Definition spec_agrees (cfg : str) (w : world) (ep : endpoint) (ob : observed) : bool :=
  let hops := spec_followed w in
  (* a base the client refuses (no http scheme, control character, broken escape, space in the
     host) never leaves the client: like a refusing limiter, after the limiter was asked *)
  let permitted := fun w ep => permitted w ep && negb (url_refused (spec_base cfg)) in
  let want_events :=
    (if waits w ep then [1] else []) ++
    (if permitted w ep then repeat 2 (S (List.length hops)) else []) in
  negb (ob_panic ob) && ob_content ob && texts_ok ob &&
  list_eqb Z.eqb want_events (ob_events ob) &&
  if permitted w ep then
    (* one GET of the documented URL, then exactly the hops the server named; then the
       documented result for the answer *)
    match ob_requests ob with
    | (m, u) :: rest =>
        str_eqb m (lit "GET") && request_ok cfg ep u &&
        forallb (fun a => str_eqb (fst a) (lit "GET")) rest && list_eqb str_eqb (map snd rest) hops &&
        match spec_result_w w ep with
        | XData l => (ob_class ob =? 0) && negb (ob_notfound ob) && ob_has_data ob && els_eqb l (ob_data ob)
        | XErr c => (ob_class ob =? class_code c) && negb (ob_has_data ob) &&
                    Bool.eqb (ob_notfound ob) (class_code c =? 1)
        end
    | [] => false
    end
  else
    (* nothing may reach the server; the call fails with an ordinary error and no data *)
    match ob_requests ob with
    | [] => (ob_class ob =? 6) && negb (ob_notfound ob) && negb (ob_has_data ob)
    | _ => false
    end.

Definition pctx : P ctx_state :=
  c <- pint ;;
  if c =? 0 then ret CtxLive else if c =? 1 then ret CtxCancelledBefore
  else if c =? 2 then ret CtxCancelledDuring else pfail.

Definition check_call : P (list Z) :=
  cfg <- pstr ;; lim <- plimiter ;; cx <- pctx ;; fol <- pbool ;; hops <- plist pstr ;; hs <- pint ;;
  ep <- pendpoint ;;
  st <- pint ;; b <- pbody ;; ob <- pobserved ;;
  let w := {| w_lim := lim; w_ctx := cx; w_follow := fol; w_hops := hops; w_hop_status := hs;
              w_resp := {| r_status := st; r_body := b |} |} in
  ret (code_if (model_agrees cfg w ep ob) 1 ++ code_if (spec_agrees cfg w ep ob) 2).

Definition data_eqb (d : option (list el)) (has : bool) (l : list el) : bool :=
  match d with Some x => has && els_eqb x l | None => negb has end.

Definition check_seq : P (list Z) :=
  cfg <- pstr ;; lim <- plimiter ;;
  ep1 <- pendpoint ;; st1 <- pint ;; b1 <- pbody ;; ob1 <- pobserved ;;
  ep2 <- pendpoint ;; st2 <- pint ;; b2 <- pbody ;; ob2 <- pobserved ;;
  ahas <- pbool ;; adata <- plist pel ;;
  let w1 := plain_world lim {| r_status := st1; r_body := b1 |} in
  let w2 := plain_world lim {| r_status := st2; r_body := b2 |} in
  (* model: the first result is the value the first call returned *)
  let j1 := model_agrees cfg w1 ep1 ob1 && model_agrees cfg w2 ep2 ob2 &&
            data_eqb (o_data (call_w cfg w1 ep1)) ahas adata in
  (* property: the first call's result is (still) exactly the elements of ITS response *)
  let j2 := spec_agrees cfg w1 ep1 ob1 && spec_agrees cfg w2 ep2 ob2 &&
            (if permitted w1 ep1 then
               match spec_result_w w1 ep1 with
               | XData l => ahas && els_eqb l adata
               | XErr _ => negb ahas
               end
             else negb ahas) in
  ret (code_if j1 1 ++ code_if j2 2).

Definition check_case (t : toks) : list Z :=
  match parse_all (tag <- pint ;; if tag =? 1 then check_call else if tag =? 2 then check_seq else pfail) t with
  | Some codes => codes
  | None => [0]
  end.
