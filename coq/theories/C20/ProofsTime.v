(* C20/ProofsTime.v — the model's time formatter against the specification's own calendar.

   The model prints a time with Text.civil_of_unix (a closed-form days -> civil date algorithm)
   and zero-padded decimals; SpecApi reads the text back and counts days with the textbook
   formula (SpecApi.days_from_civil).  Here: for EVERY day number the model's date is a valid
   Gregorian date whose textbook day count is that day number (one 400-year era checked
   exhaustively by vm_compute, all others by the 146097-day periodicity of both sides), and for
   every instant of the years 0000..9999 the printed text satisfies SpecApi.time_text_ok. *)
From Coq Require Import ZArith List String Ascii Bool Lia.
From Verif Require Import C20.Text C20.Types C20.SpecApi C20.ProofsText C20.ProofsFloat.
Import ListNotations.
Open Scope Z_scope.
Open Scope list_scope.

(* ---------- zero padding = fixed-width digits ---------- *)

Lemma fixed_digits_zero k : fixed_digits k 0 = repeat "0"%char k.
Proof.
  induction k as [|k IH]; [reflexivity|].
  cbn [fixed_digits]. change (0 / 10) with 0. change (0 mod 10) with 0. rewrite IH.
  change (digit 0) with "0"%char. rewrite <- repeat_cons. reflexivity.
Qed.

Lemma udigits_fixed fuel : forall n k,
  0 <= n < 10 ^ Z.of_nat k -> 0 <= n < 10 ^ Z.of_nat fuel -> (1 <= k)%nat ->
  repeat "0"%char (k - List.length (udigits fuel n)) ++ udigits fuel n = fixed_digits k n.
Proof.
  induction fuel as [|f IH]; intros n k Hk Hf H1.
  - change (10 ^ Z.of_nat 0) with 1 in Hf. assert (n = 0) by lia. subst n.
    cbn [udigits List.length]. rewrite Nat.sub_0_r, app_nil_r, fixed_digits_zero. reflexivity.
  - cbn [udigits]. destruct k as [|k]; [lia|].
    destruct (Z.ltb_spec n 10) as [Hlt|Hge].
    + cbn [List.length fixed_digits]. replace (S k - 1)%nat with k by lia.
      rewrite Z.div_small, Z.mod_small by lia. rewrite fixed_digits_zero. reflexivity.
    + rewrite app_length. cbn [List.length fixed_digits].
      rewrite Nat2Z.inj_succ, Z.pow_succ_r in Hk, Hf by lia.
      assert (Hk' : (1 <= k)%nat).
      { destruct k; [change (10 ^ Z.of_nat 0) with 1 in Hk; lia|lia]. }
      assert (Hq : 0 <= n / 10 < 10 ^ Z.of_nat k)
        by (split; [apply Z.div_pos; lia|apply Z.div_lt_upper_bound; lia]).
      assert (Hq' : 0 <= n / 10 < 10 ^ Z.of_nat f)
        by (split; [apply Z.div_pos; lia|apply Z.div_lt_upper_bound; lia]).
      rewrite <- (IH (n / 10) k Hq Hq' Hk').
      replace (S k - (List.length (udigits f (n / 10)) + 1))%nat
        with (k - List.length (udigits f (n / 10)))%nat by lia.
      rewrite app_assoc. reflexivity.
Qed.

Lemma zpad_fixed w n : (1 <= w)%nat -> 0 <= n < 10 ^ Z.of_nat w -> zpad w n = fixed_digits w n.
Proof.
  intros Hw Hn. unfold zpad. destruct (Z.ltb_spec n 0); [lia|]. cbn [app].
  rewrite Z.abs_eq by lia. unfold udec. apply udigits_fixed; [exact Hn| |exact Hw].
  split; [lia|].
  rewrite Nat2Z.inj_succ, Z2Nat.id by apply Z.log2_nonneg.
  destruct (Z.eq_dec n 0) as [->|Hz]; [reflexivity|].
  pose proof (Z.log2_spec n ltac:(lia)) as [_ Hlt].
  eapply Z.lt_le_trans; [exact Hlt|]. apply Z.pow_le_mono_l. lia.
Qed.

Lemma dig_digit d : 0 <= d <= 9 -> dig (digit d) = Some d.
Proof.
  intros H. destruct (digit_cases d H) as [?|[?|[?|[?|[?|[?|[?|[?|[?|?]]]]]]]]]; subst d; reflexivity.
Qed.

Lemma num2_fixed n : 0 <= n < 100 ->
  match fixed_digits 2 n with [a; b] => num2 a b = Some n | _ => False end.
Proof.
  intros Hn. cbn [fixed_digits app]. unfold num2.
  rewrite !dig_digit by (pose proof (Z.mod_pos_bound (n / 10) 10 ltac:(lia));
                          pose proof (Z.mod_pos_bound n 10 ltac:(lia)); lia).
  f_equal. lia.
Qed.

Lemma num4_fixed n : 0 <= n < 10000 ->
  match fixed_digits 4 n with [a; b; c; d] => num4 a b c d = Some n | _ => False end.
Proof.
  intros Hn. cbn [fixed_digits app]. unfold num4, num2.
  rewrite !dig_digit by
    (pose proof (Z.mod_pos_bound (n / 10 / 10 / 10) 10 ltac:(lia));
     pose proof (Z.mod_pos_bound (n / 10 / 10) 10 ltac:(lia));
     pose proof (Z.mod_pos_bound (n / 10) 10 ltac:(lia));
     pose proof (Z.mod_pos_bound n 10 ltac:(lia)); lia).
  f_equal. lia.
Qed.

(* ---------- 400-year periodicity ---------- *)

Lemma is_leap_shift y k : is_leap (y + 400 * k) = is_leap y.
Proof.
  unfold is_leap.
  replace (y + 400 * k) with (y + (100 * k) * 4) at 1 by ring. rewrite Z_mod_plus_full.
  replace (y + 400 * k) with (y + (4 * k) * 100) at 1 by ring. rewrite Z_mod_plus_full.
  replace (y + 400 * k) with (y + k * 400) by ring. rewrite Z_mod_plus_full. reflexivity.
Qed.

Lemma days_in_month_shift y k m : days_in_month (y + 400 * k) m = days_in_month y m.
Proof. unfold days_in_month. rewrite is_leap_shift. reflexivity. Qed.

Lemma fold_left_ext {A B} (f g : A -> B -> A) l : (forall a b, f a b = g a b) ->
  forall a, fold_left f l a = fold_left g l a.
Proof. intros H. induction l as [|x l IH]; intros a; [reflexivity|]. cbn. rewrite H. apply IH. Qed.

Lemma days_before_month_shift y k m : days_before_month (y + 400 * k) m = days_before_month y m.
Proof.
  unfold days_before_month. apply fold_left_ext. intros a b. rewrite days_in_month_shift. reflexivity.
Qed.

Lemma days_before_year_shift y k : days_before_year (y + 400 * k) = days_before_year y + 146097 * k.
Proof. unfold days_before_year, leaps_upto. lia. Qed.

Lemma days_from_civil_shift y k m d :
  days_from_civil (y + 400 * k) m d = days_from_civil y m d + 146097 * k.
Proof.
  unfold days_from_civil. rewrite days_before_year_shift, days_before_month_shift. ring.
Qed.

Lemma valid_date_shift y k m d : valid_date (y + 400 * k) m d = valid_date y m d.
Proof. unfold valid_date. rewrite days_in_month_shift. reflexivity. Qed.

Lemma civil_of_days_shift d k :
  civil_of_days (d + 146097 * k) =
  let '(y, m, dd) := civil_of_days d in (y + 400 * k, m, dd).
Proof.
  unfold civil_of_days.
  replace (d + 146097 * k + 719468) with (d + 719468 + k * 146097) by ring.
  rewrite Z.div_add by lia.
  set (z := d + 719468). set (era := z / 146097).
  replace (z + k * 146097 - (era + k) * 146097) with (z - era * 146097) by ring.
  set (doe := z - era * 146097).
  set (yoe := (doe - doe / 1460 + doe / 36524 - doe / 146096) / 365).
  set (doy := doe - (365 * yoe + yoe / 4 - yoe / 100)).
  set (mp := (5 * doy + 2) / 153).
  cbv zeta.
  destruct ((if mp <? 10 then mp + 3 else mp - 9) <=? 2); f_equal; f_equal; ring.
Qed.

(* ---------- one era, exhaustively ---------- *)

Definition civil_ok (d : Z) : bool :=
  let '(y, m, dd) := civil_of_days d in
  valid_date y m dd && (days_from_civil y m dd =? d).

Fixpoint zrange (n : nat) (lo : Z) : list Z :=
  match n with O => [] | S n' => lo :: zrange n' (lo + 1) end.

Lemma zrange_in n : forall lo x, lo <= x < lo + Z.of_nat n -> In x (zrange n lo).
Proof.
  induction n as [|n IH]; intros lo x H; [lia|].
  cbn [zrange]. destruct (Z.eq_dec x lo) as [->|Hne]; [left; reflexivity|].
  right. apply IH. lia.
Qed.

Lemma era_checked : forallb civil_ok (zrange (Z.to_nat 146097) (-719468)) = true.
Proof. vm_compute. reflexivity. Qed.

Lemma civil_ok_era d : -719468 <= d < -719468 + 146097 -> civil_ok d = true.
Proof.
  intros H. apply (proj1 (forallb_forall _ _) era_checked). apply zrange_in.
  rewrite Z2Nat.id by lia. exact H.
Qed.

(* for EVERY day number: the model's date is a valid Gregorian date with that day count *)
Lemma civil_of_days_correct d :
  let '(y, m, dd) := civil_of_days d in
  valid_date y m dd = true /\ days_from_civil y m dd = d.
Proof.
  set (k := (d + 719468) / 146097). set (d0 := d - 146097 * k).
  assert (Hd0 : -719468 <= d0 < -719468 + 146097).
  { unfold d0, k. pose proof (Z.div_mod (d + 719468) 146097 ltac:(lia)) as Hdm.
    pose proof (Z.mod_pos_bound (d + 719468) 146097 ltac:(lia)). lia. }
  pose proof (civil_ok_era d0 Hd0) as Hok. unfold civil_ok in Hok.
  replace d with (d0 + 146097 * k) by (unfold d0; ring).
  rewrite civil_of_days_shift.
  destruct (civil_of_days d0) as [[y m] dd].
  apply andb_true_iff in Hok as [Hv He]. apply Z.eqb_eq in He.
  rewrite valid_date_shift, days_from_civil_shift. split; [exact Hv|lia].
Qed.

(* ---------- the year range ---------- *)

Lemma days_before_month_nonneg y m : 0 <= days_before_month y m.
Proof.
  unfold days_before_month.
  assert (H : forall l a, 0 <= a -> 0 <= fold_left (fun acc k => acc + days_in_month y k) l a).
  { induction l as [|x l IH]; intros a Ha; [exact Ha|]. cbn. apply IH.
    unfold days_in_month. destruct (x =? 2); [destruct (is_leap y); lia|].
    destruct ((x =? 4) || (x =? 6) || (x =? 9) || (x =? 11)); lia. }
  apply H. lia.
Qed.

Lemma days_before_month_le y m : 1 <= m <= 12 -> days_before_month y m <= 335.
Proof.
  intros Hm. assert (m = 1 \/ m = 2 \/ m = 3 \/ m = 4 \/ m = 5 \/ m = 6 \/ m = 7 \/ m = 8 \/ m = 9 \/
                     m = 10 \/ m = 11 \/ m = 12) as H by lia.
  unfold days_before_month, days_in_month.
  destruct H as [?|[?|[?|[?|[?|[?|[?|[?|[?|[?|[?|?]]]]]]]]]]]; subst m; destruct (is_leap y); vm_compute; intros Hc; discriminate Hc.
Qed.

(* away from the two ends of the range a linear estimate of the day count decides the year;
   within 400 days of the ends the year is computed *)
Lemma year_loose d y m dd :
  valid_date y m dd = true -> days_from_civil y m dd = d -> -719128 <= d <= 2932496 -> 0 <= y <= 9999.
Proof.
  unfold valid_date. intros Hv He Hd.
  apply andb_true_iff in Hv as [Hv Hd2]. apply andb_true_iff in Hv as [Hv Hd1].
  apply andb_true_iff in Hv as [Hm1 Hm2].
  apply Z.leb_le in Hm1, Hm2, Hd1, Hd2.
  pose proof (days_before_month_nonneg y m). pose proof (days_before_month_le y m ltac:(lia)).
  assert (dd <= 31) by (unfold days_in_month in Hd2; destruct (m =? 2); [destruct (is_leap y); lia|];
                        destruct ((m =? 4) || (m =? 6) || (m =? 9) || (m =? 11)); lia).
  unfold days_from_civil, days_before_year, leaps_upto in He. lia.
Qed.

Definition year_ok (d : Z) : bool :=
  let '(y, _, _) := civil_of_days d in (0 <=? y) && (y <=? 9999).

Lemma margins_checked :
  forallb year_ok (zrange 401 (-719528)) && forallb year_ok (zrange 401 2932496) = true.
Proof. vm_compute. reflexivity. Qed.

Lemma year_in_range d :
  -719528 <= d <= 2932896 -> let '(y, m, dd) := civil_of_days d in 0 <= y <= 9999.
Proof.
  intros Hd. pose proof margins_checked as Hm. apply andb_true_iff in Hm as [Hlo Hhi].
  destruct (Z_lt_dec d (-719128)) as [Hl|Hl].
  - assert (Hin : In d (zrange 401 (-719528))) by (apply zrange_in; change (Z.of_nat 401) with 401; lia).
    pose proof (proj1 (forallb_forall _ _) Hlo d Hin) as H.
    unfold year_ok in H. destruct (civil_of_days d) as [[y m] dd]. lia.
  - destruct (Z_lt_dec 2932496 d) as [Hh|Hh].
    + assert (Hin : In d (zrange 401 2932496)) by (apply zrange_in; change (Z.of_nat 401) with 401; lia).
      pose proof (proj1 (forallb_forall _ _) Hhi d Hin) as H.
      unfold year_ok in H. destruct (civil_of_days d) as [[y m] dd]. lia.
    + pose proof (civil_of_days_correct d) as Hc. destruct (civil_of_days d) as [[y m] dd].
      destruct Hc as [Hv He]. apply (year_loose d y m dd Hv He). lia.
Qed.

(* ---------- the printed text satisfies the specification ---------- *)

Definition time_text (c : civil) : str :=
  zpad 4 (c_year c) ++ lit "-" ++ zpad 2 (c_month c) ++ lit "-" ++ zpad 2 (c_day c) ++ lit "T" ++
  zpad 2 (c_hour c) ++ lit ":" ++ zpad 2 (c_min c) ++ lit ":" ++ zpad 2 (c_sec c) ++ lit "Z".

Lemma time_text_ok_of_model t :
  time_in_range t = true -> time_text_ok t (time_text (civil_of_unix t)) = true.
Proof.
  unfold time_in_range. intros Hr. apply andb_true_iff in Hr as [Hlo Hhi].
  apply Z.leb_le in Hlo, Hhi.
  unfold civil_of_unix.
  assert (Hdays : -719528 <= t / 86400 <= 2932896).
  { pose proof (Z.div_mod t 86400 ltac:(lia)). pose proof (Z.mod_pos_bound t 86400 ltac:(lia)). lia. }
  pose proof (civil_of_days_correct (t / 86400)) as Hc.
  pose proof (year_in_range (t / 86400) Hdays) as Hy.
  destruct (civil_of_days (t / 86400)) as [[y m] dd]. destruct Hc as [Hv He].
  pose proof Hv as Hv'. unfold valid_date in Hv'.
  apply andb_true_iff in Hv' as [Hv' Hd2]. apply andb_true_iff in Hv' as [Hv' Hd1].
  apply andb_true_iff in Hv' as [Hm1 Hm2]. apply Z.leb_le in Hm1, Hm2, Hd1, Hd2.
  assert (Hdd : dd <= 31) by (unfold days_in_month in Hd2; destruct (m =? 2); [destruct (is_leap y); lia|];
                              destruct ((m =? 4) || (m =? 6) || (m =? 9) || (m =? 11)); lia).
  pose proof (Z.mod_pos_bound t 86400 ltac:(lia)) as Hrem.
  set (rem := t mod 86400) in *.
  assert (Hh : 0 <= rem / 3600 < 24) by (split; [apply Z.div_pos; lia|apply Z.div_lt_upper_bound; lia]).
  pose proof (Z.mod_pos_bound rem 3600 ltac:(lia)) as Hr36.
  assert (Hmi : 0 <= rem mod 3600 / 60 < 60) by (split; [apply Z.div_pos; lia|apply Z.div_lt_upper_bound; lia]).
  pose proof (Z.mod_pos_bound rem 60 ltac:(lia)) as Hs.
  unfold time_text. cbn [c_year c_month c_day c_hour c_min c_sec].
  rewrite (zpad_fixed 4 y) by (change (10 ^ Z.of_nat 4) with 10000; lia).
  rewrite !(zpad_fixed 2) by (change (10 ^ Z.of_nat 2) with 100; lia).
  pose proof (num4_fixed y ltac:(lia)) as N4.
  pose proof (num2_fixed m ltac:(lia)) as Nm. pose proof (num2_fixed dd ltac:(lia)) as Nd.
  pose proof (num2_fixed (rem / 3600) ltac:(lia)) as Nh.
  pose proof (num2_fixed (rem mod 3600 / 60) ltac:(lia)) as Ni.
  pose proof (num2_fixed (rem mod 60) ltac:(lia)) as Ns.
  destruct (fixed_digits 4 y) as [|y1 [|y2 [|y3 [|y4 [|? ?]]]]]; try contradiction.
  destruct (fixed_digits 2 m) as [|m1 [|m2 [|? ?]]]; try contradiction.
  destruct (fixed_digits 2 dd) as [|a1 [|a2 [|? ?]]]; try contradiction.
  destruct (fixed_digits 2 (rem / 3600)) as [|h1 [|h2 [|? ?]]]; try contradiction.
  destruct (fixed_digits 2 (rem mod 3600 / 60)) as [|i1 [|i2 [|? ?]]]; try contradiction.
  destruct (fixed_digits 2 (rem mod 60)) as [|s1 [|s2 [|? ?]]]; try contradiction.
  cbn [app lit list_ascii_of_string time_text_ok]. rewrite !Ascii.eqb_refl. cbn [andb].
  rewrite N4, Nm, Nd, Nh, Ni, Ns, Hv. cbn [andb].
  destruct (Z.ltb_spec (rem / 3600) 24); [|lia].
  destruct (Z.ltb_spec (rem mod 3600 / 60) 60); [|lia].
  destruct (Z.ltb_spec (rem mod 60) 60); [|lia]. cbn [andb].
  apply Z.eqb_eq. unfold unix_of_civil. rewrite He.
  pose proof (Z.div_mod t 86400 ltac:(lia)). fold rem in H2.
  pose proof (Z.div_mod rem 3600 ltac:(lia)). pose proof (Z.div_mod (rem mod 3600) 60 ltac:(lia)).
  assert (rem mod 60 = rem mod 3600 mod 60) by lia.
  lia.
Qed.
