(* C20/Types.v — vocabulary shared by the model (Model.v) and the specification (SpecApi.v):
   calls with their arguments, limiter configurations, responses, error classes.
   Definitions only; nothing here depends on the generated file. *)
From Coq Require Import ZArith List String Ascii Bool.
From Verif Require Import C20.Text.
Import ListNotations.
Open Scope Z_scope.
Open Scope list_scope.

(* ---------- arguments ---------- *)

Record bounds := { MinLon : fl; MinLat : fl; MaxLon : fl; MaxLat : fl }.

Inductive fopt := At (unix : Z).                         (* osmapi.At(time.Unix(unix, _)) *)
Inductive nopt := Limit (n : Z) | MaxDaysClosed (n : Z).

Inductive elem := Node | Way | Relation.
Inductive full_elem := FWay | FRelation.

(* one constructor per kind of call, with its arguments and options *)
Inductive endpoint :=
| Get (e : elem) (id : Z) (o : list fopt)
| Multi (e : elem) (ids : list Z) (o : list fopt)
| Version (e : elem) (id v : Z)
| History (e : elem) (id : Z)
| NodeWays (id : Z) (o : list fopt)
| RelationsOf (e : elem) (id : Z) (o : list fopt)
| Full (e : full_elem) (id : Z) (o : list fopt)
| Map (b : bounds) (o : list fopt)
| Changeset (id : Z)
| ChangesetWithDiscussion (id : Z)
| ChangesetDownload (id : Z)
| Note (id : Z)
| Notes (b : bounds) (o : list nopt)
| NotesSearch (q : str) (o : list nopt)
| User (id : Z).

Inductive limiter := NoLimiter | LimiterOk | LimiterFails.

(* element kinds: 1 node 2 way 3 relation 4 changeset 5 note 6 user *)
Definition el := (Z * Z)%type.   (* (kind, id) *)

Inductive body :=
| BMalformed                                   (* not XML / truncated / empty *)
| BOsm (els : list el)                         (* <osm> with these children, in order *)
| BChange (cr mo de : list el).                (* <osmChange> create / modify / delete *)

Record response := { r_status : Z; r_body : body }.

(* the context handed to the call *)
Inductive ctx_state := CtxLive | CtxCancelledBefore | CtxCancelledDuring.

(* everything outside the package that a call meets: limiter, context, the client's redirect
   policy, the redirect answers the server gives before its final response *)
Record world := {
  w_lim : limiter;
  w_ctx : ctx_state;
  w_follow : bool;          (* false: Client.CheckRedirect returns http.ErrUseLastResponse *)
  w_hops : list str;        (* absolute Location values of successive 3xx answers *)
  w_hop_status : Z;         (* the 3xx status of those answers *)
  w_resp : response }.      (* the final answer *)

Definition plain_world (lim : limiter) (resp : response) : world :=
  {| w_lim := lim; w_ctx := CtxLive; w_follow := true; w_hops := []; w_hop_status := 302;
     w_resp := resp |}.

(* every element of a response body carries a text (user / display name / first comment); the
   body generator of the harness numbers the texts and gives element (kind, id) the text
     text_index kind id  =  (h xor (h >> 17)) mod 10,   h = (kind * 1000003 + id * 2654435761) mod 2^64
   (Go's wrapping uint64 arithmetic).  Decoding keeps an element's text: what comes back for
   (kind, id) must be that text. *)
Definition two64 : Z := 18446744073709551616.
Definition text_index (kind id : Z) : Z :=
  let h := ((kind mod 10) * 1000003 + (id mod two64) * 2654435761) mod two64 in
  (Z.lxor h (Z.shiftr h 17)) mod 10.

(* the error classes the harness can observe *)
Inductive err_class := CNone | CNotFound | CForbidden | CGone | CURITooLong | CUnexpected | COther.


Definition class_code (c : err_class) : Z :=
  match c with
  | CNone => 0 | CNotFound => 1 | CForbidden => 2 | CGone => 3 | CURITooLong => 4
  | CUnexpected => 5 | COther => 6
  end.
