(* C20/Text.v — executable text functions used by the osmapi model and its specification:
   byte strings as [list ascii], decimal printing (strconv / %d), fixed-point printing of a
   binary float (%f), Go's reference-layout time formatting for the six numeric tokens,
   url.QueryEscape, and — for the specification side — what a server does with a request
   target: split at '?', split the query at '&' and '=', percent-decode, read decimals.
   Definitions only; lemmas are in ProofsText.v. *)
From Coq Require Import ZArith List String Ascii Bool.
Import ListNotations.
Open Scope Z_scope.
Open Scope list_scope.

Definition str := list ascii.
Definition lit (s : string) : str := list_ascii_of_string s.

Definition str_eqb (a b : str) : bool :=
  (fix go (a b : str) : bool :=
     match a, b with
     | [], [] => true
     | x :: a', y :: b' => Ascii.eqb x y && go a' b'
     | _, _ => false
     end) a b.

Definition code (a : ascii) : Z := Z.of_N (N_of_ascii a).
Definition chr (z : Z) : ascii := ascii_of_N (Z.to_N z).

(* ---------- decimal integers ---------- *)

Definition digit (d : Z) : ascii := chr (48 + d).

(* most significant digit first; fuel bounds the number of digits *)
Fixpoint udigits (fuel : nat) (n : Z) : str :=
  match fuel with
  | O => []
  | S f => if n <? 10 then [digit n] else udigits f (n / 10) ++ [digit (n mod 10)]
  end.

(* log2 n + 1 binary digits bound the decimal digits *)
Definition udec (n : Z) : str := udigits (S (Z.to_nat (Z.log2 n))) n.

(* strconv.AppendInt(_, z, 10) and fmt's %d on an integer *)
Definition dec (z : Z) : str := if z <? 0 then "-"%char :: udec (- z) else udec z.

(* exactly [k] digits of n mod 10^k, zero padded *)
Fixpoint fixed_digits (k : nat) (n : Z) : str :=
  match k with
  | O => []
  | S k' => fixed_digits k' (n / 10) ++ [digit (n mod 10)]
  end.

(* time.Format's appendInt(b, n, width): zero padded to at least [width] digits, sign first *)
Definition zpad (width : nat) (n : Z) : str :=
  let body := udec (Z.abs n) in
  (if n <? 0 then ["-"%char] else []) ++ repeat "0"%char (width - List.length body) ++ body.

Fixpoint join (sep : str) (l : list str) : str :=
  match l with
  | [] => []
  | [a] => a
  | a :: r => a ++ sep ++ join sep r
  end.

(* ---------- binary floats and %f ---------- *)

(* a float64 argument, exactly: class 0 = finite value (-1)^neg * m * 2^e with m >= 0,
   class 1 = NaN, class 2 = infinity of the given sign *)
Record fl := { f_class : Z; f_neg : bool; f_m : Z; f_e : Z }.

(* round-half-even of a / b for a >= 0, b > 0 *)
Definition rne_div (a b : Z) : Z :=
  let q := a / b in
  let r := a mod b in
  if 2 * r <? b then q
  else if b <? 2 * r then q + 1
  else if Z.even q then q else q + 1.

(* |x| * 10^digits rounded half-even to an integer *)
Definition scaled (digits : Z) (x : fl) : Z :=
  let p := 10 ^ digits in
  if 0 <=? f_e x then f_m x * 2 ^ f_e x * p
  else rne_div (f_m x * p) (2 ^ (- f_e x)).

(* strconv.FormatFloat(x, 'f', d, 64): d decimals, round-half-even on the exact binary value *)
Definition fmt_fixed (d : nat) (x : fl) : str :=
  if f_class x =? 1 then lit "NaN"
  else if f_class x =? 2 then (if f_neg x then lit "-Inf" else lit "+Inf")
  else
    let n := scaled (Z.of_nat d) x in
    (if f_neg x then ["-"%char] else []) ++ udec (n / 10 ^ Z.of_nat d) ++
    match d with O => [] | _ => "."%char :: fixed_digits d n end.

(* fmt's %f (precision 6) on a float64 *)
Definition fmt_f (x : fl) : str := fmt_fixed 6 x.

(* strings.TrimSuffix(s, suf) *)
Fixpoint trim_suffix (suf s : str) : str :=
  match s with
  | [] => []
  | a :: r => if str_eqb (a :: r) suf then [] else a :: trim_suffix suf r
  end.

(* ---------- time ---------- *)

(* proleptic Gregorian civil date of a day number (days since 1970-01-01) *)
Definition civil_of_days (days : Z) : Z * Z * Z :=
  let z := days + 719468 in
  let era := z / 146097 in
  let doe := z - era * 146097 in
  let yoe := (doe - doe / 1460 + doe / 36524 - doe / 146096) / 365 in
  let y := yoe + era * 400 in
  let doy := doe - (365 * yoe + yoe / 4 - yoe / 100) in
  let mp := (5 * doy + 2) / 153 in
  let d := doy - (153 * mp + 2) / 5 + 1 in
  let m := if mp <? 10 then mp + 3 else mp - 9 in
  (if m <=? 2 then y + 1 else y, m, d).

Record civil := { c_year : Z; c_month : Z; c_day : Z; c_hour : Z; c_min : Z; c_sec : Z }.

Definition civil_of_unix (s : Z) : civil :=
  let days := s / 86400 in
  let rem := s mod 86400 in
  let '(y, m, d) := civil_of_days days in
  {| c_year := y; c_month := m; c_day := d;
     c_hour := rem / 3600; c_min := (rem mod 3600) / 60; c_sec := rem mod 60 |}.

(* time.Time.Format for layouts made of the numeric reference tokens 2006 01 02 15 04 05 and
   literal characters (the translator rejects any other layout) *)
Fixpoint strip_prefix (p s : str) : option str :=
  match p, s with
  | [], _ => Some s
  | a :: p', b :: s' => if Ascii.eqb a b then strip_prefix p' s' else None
  | _ :: _, [] => None
  end.

Definition layout_tokens (c : civil) : list (str * str) :=
  [ (lit "2006", zpad 4 (c_year c)); (lit "01", zpad 2 (c_month c)); (lit "02", zpad 2 (c_day c));
    (lit "15", zpad 2 (c_hour c)); (lit "04", zpad 2 (c_min c)); (lit "05", zpad 2 (c_sec c)) ].

Fixpoint first_token (toks : list (str * str)) (s : str) : option (str * str) :=
  match toks with
  | [] => None
  | (t, out) :: r =>
      match strip_prefix t s with
      | Some rest => Some (out, rest)
      | None => first_token r s
      end
  end.

Fixpoint fmt_layout (fuel : nat) (layout : str) (c : civil) : str :=
  match fuel with
  | O => []
  | S f =>
      match layout with
      | [] => []
      | a :: r =>
          match first_token (layout_tokens c) layout with
          | Some (out, rest) => out ++ fmt_layout f rest c
          | None => a :: fmt_layout f r c
          end
      end
  end.

Definition fmt_time (layout : string) (unix : Z) : str :=
  let l := lit layout in fmt_layout (S (List.length l)) l (civil_of_unix unix).

(* ---------- url.QueryEscape ---------- *)

Definition is_alnum (a : ascii) : bool :=
  let c := code a in
  ((48 <=? c) && (c <=? 57)) || ((65 <=? c) && (c <=? 90)) || ((97 <=? c) && (c <=? 122)).

(* net/url shouldEscape(c, encodeQueryComponent) = false *)
Definition unreserved (a : ascii) : bool :=
  is_alnum a || Ascii.eqb a "-" || Ascii.eqb a "_" || Ascii.eqb a "." || Ascii.eqb a "~".

Definition hex_digit (d : Z) : ascii := if d <? 10 then chr (48 + d) else chr (55 + d).

Fixpoint query_escape (s : str) : str :=
  match s with
  | [] => []
  | a :: r =>
      if Ascii.eqb a " " then "+"%char :: query_escape r
      else if unreserved a then a :: query_escape r
      else "%"%char :: hex_digit (code a / 16) :: hex_digit (code a mod 16) :: query_escape r
  end.

(* ---------- the server's view of a request target ---------- *)

(* split at the first occurrence of c; None when c does not occur *)
Fixpoint cut_at (c : ascii) (s : str) : option (str * str) :=
  match s with
  | [] => None
  | a :: r =>
      if Ascii.eqb a c then Some ([], r)
      else match cut_at c r with
           | Some (x, y) => Some (a :: x, y)
           | None => None
           end
  end.

Fixpoint split_on (c : ascii) (s : str) : list str :=
  match s with
  | [] => [[]]
  | a :: r =>
      if Ascii.eqb a c then [] :: split_on c r
      else match split_on c r with
           | p :: ps => (a :: p) :: ps
           | [] => [[a]]
           end
  end.

Definition unhex (a : ascii) : option Z :=
  let c := code a in
  if (48 <=? c) && (c <=? 57) then Some (c - 48)
  else if (65 <=? c) && (c <=? 70) then Some (c - 55)
  else if (97 <=? c) && (c <=? 102) then Some (c - 87)
  else None.

(* application/x-www-form-urlencoded decoding of one component *)
Fixpoint query_unescape (s : str) : option str :=
  match s with
  | [] => Some []
  | a :: r =>
      if Ascii.eqb a "+" then option_map (cons " "%char) (query_unescape r)
      else if Ascii.eqb a "%" then
        match r with
        | h :: l :: r' =>
            match unhex h, unhex l, query_unescape r' with
            | Some x, Some y, Some t => Some (chr (16 * x + y) :: t)
            | _, _, _ => None
            end
        | _ => None
        end
      else option_map (cons a) (query_unescape r)
  end.

Definition decode_pair (piece : str) : option (str * str) :=
  let '(k, v) := match cut_at "=" piece with Some kv => kv | None => (piece, []) end in
  match query_unescape k, query_unescape v with
  | Some k', Some v' => Some (k', v')
  | _, _ => None
  end.

Fixpoint decode_pieces (l : list str) : option (list (str * str)) :=
  match l with
  | [] => Some []
  | [] :: r => decode_pieces r            (* empty pieces ("a=1&&b=2", trailing '&') carry nothing *)
  | p :: r =>
      match decode_pair p, decode_pieces r with
      | Some kv, Some t => Some (kv :: t)
      | _, _ => None
      end
  end.

(* the ordered list of decoded (key, value) pairs of a raw query *)
Definition decode_query (raw : str) : option (list (str * str)) :=
  decode_pieces (split_on "&" raw).

(* a request target / URL is split at its first '?' *)
Definition split_target (u : str) : str * str :=
  match cut_at "?" u with Some pq => pq | None => (u, []) end.

(* ---------- reading decimals (specification side) ---------- *)

Definition is_digit (a : ascii) : bool := let c := code a in (48 <=? c) && (c <=? 57).

Definition digits_value (s : str) : Z := fold_left (fun acc a => 10 * acc + (code a - 48)) s 0.

(* [-]digits[.digits]  ->  (negative?, numerator, number of fraction digits):
   the value is (-1)^neg * numerator / 10^fraction *)
Definition strip_minus (s : str) : bool * str :=
  match s with
  | a :: r => if Ascii.eqb a "-" then (true, r) else (false, s)
  | [] => (false, s)
  end.

Definition read_body (neg : bool) (body : str) : option (bool * Z * nat) :=
  let '(ip, fp) := match cut_at "." body with Some x => x | None => (body, []) end in
  if negb (forallb is_digit ip && forallb is_digit fp) then None
  else match ip with
       | [] => None
       | _ => Some (neg, digits_value (ip ++ fp), List.length fp)
       end.

Definition read_decimal (s : str) : option (bool * Z * nat) :=
  let '(neg, body) := strip_minus s in read_body neg body.

(* ---------- URLs that never leave the client ---------- *)

Definition is_ctl (a : ascii) : bool := let c := code a in (c <? 32) || (c =? 127).

(* a '%' that is not followed by two hex digits *)
Fixpoint bad_percent (s : str) : bool :=
  match s with
  | [] => false
  | a :: r =>
      if Ascii.eqb a "%" then
        match r with
        | h :: l :: _ => match unhex h, unhex l with Some _, Some _ => bad_percent r | _, _ => true end
        | _ => true
        end
      else bad_percent r
  end.

Definition http_rest (u : str) : option str :=
  match strip_prefix (lit "http://") u with
  | Some r => Some r
  | None => strip_prefix (lit "https://") u
  end.

(* hand model of what net/url + net/http refuse before anything is sent (http.NewRequest fails,
   or the transport has no scheme to use): no http(s) scheme, a control character, a '%' that
   is not an escape, a space in the host part *)
Definition url_refused (u : str) : bool :=
  match http_rest u with
  | None => true
  | Some r =>
      existsb is_ctl u || bad_percent u ||
      existsb (fun a => Ascii.eqb a " ") (match cut_at "/" r with Some (h, _) => h | None => r end)
  end.
