(* C20/ProofsUrl.v — every call's URL, as computed by interpreting the expressions regenerated
   from the Go source (gen/GenOsmapi.v), in closed form; hence: the URL is defined exactly when
   the options are valid.  The closed forms are consumed by ProofsSpec.v. *)
From Coq Require Import ZArith List String Ascii Bool Lia.
From Verif Require Import C20.Syntax C20.Text C20.Types C20.Model C20.SpecApi C20.ProofsText.
From VerifGen Require Import GenOsmapi.
Import ListNotations.
Open Scope Z_scope.
Open Scope list_scope.

(* ---------- obligations on the generated data ---------- *)

Lemma base_default : lit c_BaseURL = doc_base.
Proof. reflexivity. Qed.

Lemma base_url_spec cfg : base_url cfg = spec_base cfg.
Proof. destruct cfg; reflexivity. Qed.

Lemma fmt_time_iso t : fmt_time "2006-01-02T15:04:05Z" t = iso8601 t.
Proof. reflexivity. Qed.

(* ---------- options ---------- *)

Definition at_piece (o : fopt) : str := match o with At t => lit "at=" ++ iso8601 t end.
Definition note_piece (o : nopt) : str :=
  match o with
  | Limit n => lit "limit=" ++ dec n
  | MaxDaysClosed n => lit "closed=" ++ dec n
  end.

Lemma apply_at t : apply_opt "applyFeature" "At" t = Ok (at_piece (At t)).
Proof. reflexivity. Qed.

Lemma apply_limit n :
  apply_opt "applyNotes" "Limit" n = if (1 <=? n) && (n <=? 10000) then Ok (note_piece (Limit n)) else Reject.
Proof.
  unfold apply_opt.
  set (r := find_opt _ _). vm_compute in r. subst r. cbv iota beta. cbn [o_reject o_expr].
  destruct ((1 <=? n) && (n <=? 10000)); [|reflexivity].
  cbn [eval eval_args e_opt rbind as_str sprintf sprintf_go sprintf_piece lit list_ascii_of_string
       Ascii.eqb Bool.eqb orb andb].
  rewrite app_nil_r. reflexivity.
Qed.

Lemma apply_closed n : apply_opt "applyNotes" "MaxDaysClosed" n = Ok (note_piece (MaxDaysClosed n)).
Proof.
  unfold apply_opt.
  set (r := find_opt _ _). vm_compute in r. subst r. cbv iota beta. cbn [o_reject o_expr].
  cbn [eval eval_args e_opt rbind as_str sprintf sprintf_go sprintf_piece lit list_ascii_of_string
       Ascii.eqb Bool.eqb orb andb].
  rewrite app_nil_r. reflexivity.
Qed.

Lemma rmap_fopts o :
  rmap (fun o => let '(c, n) := fopt_ctor o in apply_opt "applyFeature" c n) o = Ok (map at_piece o).
Proof.
  induction o as [|[t] o IH]; [reflexivity|].
  cbn [rmap map fopt_ctor]. rewrite apply_at, IH. reflexivity.
Qed.

Lemma rmap_nopts o :
  rmap (fun o => let '(c, n) := nopt_ctor o in apply_opt "applyNotes" c n) o =
  if forallb nopt_valid o then Ok (map note_piece o) else Reject.
Proof.
  induction o as [|[n|n] o IH]; [reflexivity| |].
  - cbn [rmap map nopt_ctor forallb nopt_valid]. rewrite apply_limit, IH.
    destruct ((1 <=? n) && (n <=? 10000)); [|reflexivity].
    destruct (forallb nopt_valid o); reflexivity.
  - cbn [rmap map nopt_ctor forallb nopt_valid]. rewrite apply_closed, IH.
    destruct (forallb nopt_valid o); reflexivity.
Qed.

(* ---------- closed forms ---------- *)

Definition amp : str := lit "&".
Definition fstring (o : list fopt) : str := join amp (map at_piece o).
Definition idlist (ids : list Z) : str := join (lit ",") (map dec ids).
Definition bbox_value (b : bounds) : str :=
  fmt_f (MinLon b) ++ lit "," ++ fmt_f (MinLat b) ++ lit "," ++ fmt_f (MaxLon b) ++ lit "," ++ fmt_f (MaxLat b).
Definition bbox_piece (b : bounds) : str := lit "bbox=" ++ bbox_value b.
Definition q_piece (q : str) : str := lit "q=" ++ query_escape q.

(* the text after '?', None when the URL has no '?' *)
Definition explicit_query (ep : endpoint) : option str :=
  match ep with
  | Get _ _ o | NodeWays _ o | RelationsOf _ _ o | Full _ _ o => Some (fstring o)
  | Multi e ids o =>
      Some (plural e ++ lit "=" ++ idlist ids ++ match o with [] => [] | _ => amp ++ fstring o end)
  | Map b o => Some (bbox_piece b ++ amp ++ fstring o)
  | ChangesetWithDiscussion _ => Some (lit "include_discussion=true")
  | Notes b os => Some (join amp (bbox_piece b :: map note_piece os))
  | NotesSearch q os => Some (join amp (q_piece q :: map note_piece os))
  | Version _ _ _ | History _ _ | Changeset _ | ChangesetDownload _ | Note _ | User _ => None
  end.

Definition explicit_url (cfg : str) (ep : endpoint) : str :=
  base_url cfg ++ spec_path ep ++
  match explicit_query ep with None => [] | Some q => "?"%char :: q end.

Lemma join_cons_head sep c x r : join sep ((c :: x) :: r) = c :: join sep (x :: r).
Proof. destruct r; reflexivity. Qed.

Lemma fstring_cons_nonempty a o : exists c t, join (lit feature_sep) (map at_piece (a :: o)) = c :: t.
Proof.
  destruct a as [t]. cbn [map at_piece].
  change (lit "at=" ++ iso8601 t) with ("a"%char :: lit "t=" ++ iso8601 t).
  rewrite join_cons_head. eauto.
Qed.

Ltac find_the_method :=
  unfold url_of; cbn [method_name elem_name full_name String.append];
  let m := fresh "m" in
  set (m := find_method _); vm_compute in m; subst m; cbv iota beta;
  cbn [m_params m_url params_of map pkind kinds_eqb String.eqb Ascii.eqb Bool.eqb andb].

Ltac eval_url :=
  cbn [eval eval_args eval_list e_params e_base e_opt nth_error field_of String.eqb Ascii.eqb Bool.eqb andb];
  rewrite ?rmap_fopts, ?rmap_nopts.

Ltac finish_url :=
  cbn [rbind as_str sprintf sprintf_go sprintf_piece lit list_ascii_of_string Ascii.eqb Bool.eqb orb andb];
  rewrite ?app_nil_r; try reflexivity;
  try (unfold explicit_url, explicit_query, spec_path, bbox_piece, bbox_value, q_piece; cbv iota; rewrite <- ?app_assoc, ?app_nil_r; reflexivity).

Ltac simple_url := find_the_method; eval_url; finish_url.

Lemma url_of_explicit cfg ep :
  options_valid ep = true -> url_of cfg ep = Ok (explicit_url cfg ep).
Proof.
  intros Hv. destruct ep as [e id o|e ids o|e id v|e id|id o|e id o|e id o|b o|id|id|id|id|b os|q os|id].
  - destruct e; simple_url.
  - destruct e; find_the_method; eval_url.
    all: change (lit feature_sep) with amp.
    all: destruct o as [|a o];
      [ finish_url; cbn [join map]; cbv iota; cbn [rbind as_str];
        unfold explicit_url, explicit_query; rewrite <- ?app_assoc, ?app_nil_r; reflexivity
      | destruct (fstring_cons_nonempty a o) as [c [t Ht]]; change (lit feature_sep) with amp in Ht;
        finish_url; unfold explicit_url, explicit_query, fstring;
        rewrite Ht; cbv iota; cbn [rbind as_str]; rewrite <- ?app_assoc; reflexivity ].
  - destruct e; simple_url.
  - destruct e; simple_url.
  - simple_url.
  - destruct e; simple_url.
  - destruct e; simple_url.
  - simple_url.
  - simple_url.
  - simple_url.
  - simple_url.
  - simple_url.
  - cbn [options_valid] in Hv. find_the_method; eval_url. rewrite Hv. finish_url.
  - cbn [options_valid] in Hv. find_the_method; eval_url. rewrite Hv. finish_url.
  - simple_url.
Qed.

Lemma url_of_reject cfg ep : options_valid ep = false -> url_of cfg ep = Reject.
Proof.
  intros Hv. destruct ep; try discriminate Hv; cbn [options_valid] in Hv.
  - find_the_method; eval_url. rewrite Hv. reflexivity.
  - find_the_method; eval_url. rewrite Hv. reflexivity.
Qed.

Lemma find_method_some ep : exists m, find_method (method_name ep) = Some m.
Proof.
  destruct ep as [e id o|e ids o|e id v|e id|id o|e id o|e id o|b o|id|id|id|id|b os|q os|id];
    try destruct e; eexists; vm_compute; reflexivity.
Qed.
