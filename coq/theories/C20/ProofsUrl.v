(* C20/ProofsUrl.v — every call's URL, as computed by interpreting the expressions regenerated
   from the Go source (gen/GenOsmapi.v), in closed form; hence: the URL is defined exactly when
   the options are valid.  The closed forms are consumed by ProofsSpec.v. *)
From Coq Require Import ZArith List String Ascii Bool Lia.
From Verif Require Import C20.Syntax C20.Text C20.Types C20.Model C20.SpecApi C20.ProofsText C20.ProofsFloat.
From VerifGen Require Import GenOsmapi.
Import ListNotations.
Open Scope Z_scope.
Open Scope list_scope.

(* ---------- obligations on the generated data ---------- *)

Lemma base_default : lit c_BaseURL = doc_base.
Proof. reflexivity. Qed.

Lemma base_url_spec cfg : base_url cfg = spec_base cfg.
Proof. destruct cfg; reflexivity. Qed.

(* the closed form of what the model's time formatter prints for the generated layout *)
Definition iso8601 (unix : Z) : str :=
  let c := civil_of_unix unix in
  zpad 4 (c_year c) ++ lit "-" ++ zpad 2 (c_month c) ++ lit "-" ++ zpad 2 (c_day c) ++ lit "T" ++
  zpad 2 (c_hour c) ++ lit ":" ++ zpad 2 (c_min c) ++ lit ":" ++ zpad 2 (c_sec c) ++ lit "Z".

Lemma fmt_time_iso t : fmt_time "2006-01-02T15:04:05Z" t = iso8601 t.
Proof. reflexivity. Qed.

(* ---------- options ---------- *)

Definition at_piece (o : fopt) : str := match o with At t => lit "at=" ++ iso8601 t end.
Definition note_piece (o : nopt) : str :=
  match o with
  | Limit n => lit "limit=" ++ dec n
  | MaxDaysClosed n => lit "closed=" ++ dec n
  end.

Lemma apply_at t : apply_opt "applyFeature" "At" t = Ok (at_piece (At t)).
Proof. reflexivity. Qed.

Lemma apply_limit n :
  apply_opt "applyNotes" "Limit" n = if (1 <=? n) && (n <=? 10000) then Ok (note_piece (Limit n)) else Reject.
Proof.
  unfold apply_opt.
  set (r := find_opt _ _). vm_compute in r. subst r. cbv iota beta. cbn [o_reject o_expr].
  destruct ((1 <=? n) && (n <=? 10000)); [|reflexivity].
  cbn [eval eval_args e_opt rbind as_str sprintf sprintf_go sprintf_piece lit list_ascii_of_string
       Ascii.eqb Bool.eqb orb andb].
  rewrite app_nil_r. reflexivity.
Qed.

Lemma apply_closed n : apply_opt "applyNotes" "MaxDaysClosed" n = Ok (note_piece (MaxDaysClosed n)).
Proof.
  unfold apply_opt.
  set (r := find_opt _ _). vm_compute in r. subst r. cbv iota beta. cbn [o_reject o_expr].
  cbn [eval eval_args e_opt rbind as_str sprintf sprintf_go sprintf_piece lit list_ascii_of_string
       Ascii.eqb Bool.eqb orb andb].
  rewrite app_nil_r. reflexivity.
Qed.

Lemma rmap_fopts o :
  rmap (fun o => let '(c, n) := fopt_ctor o in apply_opt "applyFeature" c n) o = Ok (map at_piece o).
Proof.
  induction o as [|[t] o IH]; [reflexivity|].
  cbn [rmap map fopt_ctor]. rewrite apply_at, IH. reflexivity.
Qed.

Lemma rmap_nopts o :
  rmap (fun o => let '(c, n) := nopt_ctor o in apply_opt "applyNotes" c n) o =
  if forallb nopt_valid o then Ok (map note_piece o) else Reject.
Proof.
  induction o as [|[n|n] o IH]; [reflexivity| |].
  - cbn [rmap map nopt_ctor forallb nopt_valid]. rewrite apply_limit, IH.
    destruct ((1 <=? n) && (n <=? 10000)); [|reflexivity].
    destruct (forallb nopt_valid o); reflexivity.
  - cbn [rmap map nopt_ctor forallb nopt_valid]. rewrite apply_closed, IH.
    destruct (forallb nopt_valid o); reflexivity.
Qed.

(* ---------- closed forms ---------- *)

Definition amp : str := lit "&".
Definition fstring (o : list fopt) : str := join amp (map at_piece o).
Definition idlist (ids : list Z) : str := join (lit ",") (map dec ids).
Definition bbox_value (b : bounds) : str :=
  coord_text (MinLon b) ++ lit "," ++ coord_text (MinLat b) ++ lit "," ++
  coord_text (MaxLon b) ++ lit "," ++ coord_text (MaxLat b).
Definition bbox_piece (b : bounds) : str := lit "bbox=" ++ bbox_value b.
Definition q_piece (q : str) : str := lit "q=" ++ query_escape q.

(* the text after '?', None when the URL has no '?' *)
Definition explicit_query (ep : endpoint) : option str :=
  match ep with
  | Get _ _ o | NodeWays _ o | RelationsOf _ _ o | Full _ _ o => Some (fstring o)
  | Multi e ids o =>
      Some (plural e ++ lit "=" ++ idlist ids ++ match o with [] => [] | _ => amp ++ fstring o end)
  | Map b o => Some (bbox_piece b ++ amp ++ fstring o)
  | ChangesetWithDiscussion _ => Some (lit "include_discussion=true")
  | Notes b os => Some (join amp (bbox_piece b :: map note_piece os))
  | NotesSearch q os => Some (join amp (q_piece q :: map note_piece os))
  | Version _ _ _ | History _ _ | Changeset _ | ChangesetDownload _ | Note _ | User _ => None
  end.

Definition explicit_url_std (cfg : str) (ep : endpoint) : str :=
  base_url cfg ++ spec_path ep ++
  match explicit_query ep with None => [] | Some q => "?"%char :: q end.

(* a second admissible shape when no feature option is given: no dangling '?' / '&' *)
Definition no_fopts (ep : endpoint) : bool :=
  match ep with
  | Get _ _ [] | NodeWays _ [] | RelationsOf _ _ [] | Full _ _ [] | Map _ [] | Multi _ _ [] => true
  | _ => false
  end.
Definition core_query (ep : endpoint) : option str :=
  match ep with
  | Map b _ => Some (bbox_piece b)
  | Multi e ids _ => Some (plural e ++ lit "=" ++ idlist ids)
  | _ => None
  end.
Definition alt_url (cfg : str) (ep : endpoint) : str :=
  base_url cfg ++ spec_path ep ++
  match core_query ep with None => [] | Some q => "?"%char :: q end.

Lemma join_cons_head sep c x r : join sep ((c :: x) :: r) = c :: join sep (x :: r).
Proof. destruct r; reflexivity. Qed.

Lemma fstring_cons_nonempty a o : exists c t, join amp (map at_piece (a :: o)) = c :: t.
Proof.
  destruct a as [t]. cbn [map at_piece].
  change (lit "at=" ++ iso8601 t) with ("a"%char :: lit "t=" ++ iso8601 t).
  rewrite join_cons_head. eauto.
Qed.

Ltac find_the_method :=
  unfold url_of; cbn [method_name elem_name full_name String.append];
  let m := fresh "m" in
  set (m := find_method _); vm_compute in m; subst m; cbv iota beta;
  cbn [m_params m_url params_of map pkind kinds_eqb String.eqb Ascii.eqb Bool.eqb andb].

Ltac eval_url :=
  cbn [eval eval_args eval_list e_params e_base e_opt nth_error field_of String.eqb Ascii.eqb Bool.eqb andb];
  rewrite ?rmap_fopts, ?rmap_nopts; change (lit feature_sep) with amp.

Ltac compute_url :=
  repeat (progress (cbn [rbind as_str sprintf sprintf_go sprintf_piece lit list_ascii_of_string
                         Ascii.eqb Bool.eqb orb andb]; cbv iota));
  rewrite ?app_nil_r.

Ltac norm_app :=
  repeat (progress (rewrite <- ?app_assoc, ?app_nil_r; cbn [app lit list_ascii_of_string])).

Ltac close_with defs :=
  defs; unfold explicit_query, core_query, spec_path, bbox_piece, bbox_value, q_piece, fstring;
  cbn [map join]; cbv iota; norm_app; reflexivity.

Ltac close_std := close_with ltac:(unfold explicit_url_std).
Ltac close_std_keep_join :=
  unfold explicit_url_std, explicit_query, spec_path, bbox_piece, bbox_value, q_piece;
  cbv iota; rewrite <- ?app_assoc, ?app_nil_r; reflexivity.
Ltac close_alt := close_with ltac:(unfold alt_url).

(* calls without feature options: one shape *)
Ltac simple_url := find_the_method; eval_url; compute_url; left; close_std.

(* calls with feature options [o]: empty list (either shape), non-empty list (standard shape) *)
Ltac fopts_url o :=
  find_the_method; eval_url;
  let a := fresh "a" in
  destruct o as [|a o];
  [ cbn [map join]; cbv iota; compute_url;
    first [ left; close_std | right; split; [reflexivity|close_alt] ]
  | let c := fresh "c" in let t := fresh "t" in let Ht := fresh "Ht" in
    destruct (fstring_cons_nonempty a o) as [c [t Ht]];
    left; unfold explicit_url_std, explicit_query, fstring;
    compute_url; rewrite ?Ht; cbv iota; compute_url; rewrite ?Ht;
    unfold spec_path, bbox_piece, bbox_value; norm_app; reflexivity ].

Lemma url_of_shape cfg ep :
  options_valid ep = true ->
  url_of cfg ep = Ok (explicit_url_std cfg ep) \/
  (no_fopts ep = true /\ url_of cfg ep = Ok (alt_url cfg ep)).
Proof.
  intros Hv. destruct ep as [e id o|e ids o|e id v|e id|id o|e id o|e id o|b o|id|id|id|id|b os|q os|id].
  - destruct e; fopts_url o.
  - destruct e; fopts_url o.
  - destruct e; simple_url.
  - destruct e; simple_url.
  - fopts_url o.
  - destruct e; fopts_url o.
  - destruct e; fopts_url o.
  - fopts_url o.
  - simple_url.
  - simple_url.
  - simple_url.
  - simple_url.
  - cbn [options_valid] in Hv. find_the_method; eval_url. rewrite Hv. compute_url. left; close_std_keep_join.
  - cbn [options_valid] in Hv. find_the_method; eval_url. rewrite Hv. compute_url. left; close_std_keep_join.
  - simple_url.
Qed.

(* the URL of a call (defined for valid options) *)
Definition explicit_url (cfg : str) (ep : endpoint) : str :=
  match url_of cfg ep with Ok u => u | _ => [] end.

Lemma url_of_explicit cfg ep :
  options_valid ep = true -> url_of cfg ep = Ok (explicit_url cfg ep).
Proof.
  intros Hv. unfold explicit_url.
  destruct (url_of_shape cfg ep Hv) as [H|[_ H]]; rewrite H; reflexivity.
Qed.

Lemma url_of_reject cfg ep : options_valid ep = false -> url_of cfg ep = Reject.
Proof.
  intros Hv. destruct ep; try discriminate Hv; cbn [options_valid] in Hv.
  - find_the_method; eval_url. rewrite Hv. reflexivity.
  - find_the_method; eval_url. rewrite Hv. reflexivity.
Qed.

Lemma find_method_some ep : exists m, find_method (method_name ep) = Some m.
Proof.
  destruct ep as [e id o|e ids o|e id v|e id|id o|e id o|e id o|b o|id|id|id|id|b os|q os|id];
    try destruct e; eexists; vm_compute; reflexivity.
Qed.
