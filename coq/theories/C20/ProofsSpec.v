(* C20/ProofsSpec.v — the URL every call builds is the documented request: split at '?', the
   part before is base ++ documented path, the query decodes (as a server decodes it) to the
   documented parameters, for all ids, id lists, option lists, queries and bases. *)
From Coq Require Import ZArith List String Ascii Bool Lia.
From Verif Require Import C20.Syntax C20.Text C20.Types C20.Model C20.SpecApi
  C20.ProofsText C20.ProofsFloat C20.ProofsTime C20.ProofsUrl.
Import ListNotations.
Open Scope Z_scope.
Open Scope list_scope.

(* ---------- hypotheses, as boolean predicates ---------- *)

(* the configured base is well formed (SpecApi.base_wf): in particular it has no '?', no '#',
   and is a URL the client does not refuse *)
Definition base_ok (cfg : str) : bool := base_wf cfg.

Lemma wf_char_facts a : wf_char a = true ->
  is_ctl a = false /\ Ascii.eqb a " " = false /\ Ascii.eqb a "?" = false /\ Ascii.eqb a "#" = false.
Proof. all_ascii a; vm_compute; intros H; try discriminate H; repeat split. Qed.

Lemma wf_forall_nochar c s :
  (forall a, wf_char a = true -> Ascii.eqb a c = false) -> forallb wf_char s = true -> nochar c s = true.
Proof.
  intros Hc. induction s as [|a s IH]; intros H; [reflexivity|].
  cbn in H. apply andb_true_iff in H as [Ha Hs].
  rewrite nochar_cons, (Hc a Ha), (IH Hs). reflexivity.
Qed.

Lemma base_wf_chars cfg : base_wf cfg = true -> cfg = [] \/ forallb wf_char cfg = true.
Proof.
  unfold base_wf. destruct cfg as [|a cfg]; [left; reflexivity|].
  destruct (http_rest (a :: cfg)) as [[|h r]|]; try discriminate.
  intros H. apply andb_true_iff in H as [H _]. apply andb_true_iff in H as [_ H]. right; exact H.
Qed.

Lemma base_wf_noq cfg : base_wf cfg = true -> nochar "?" cfg = true.
Proof.
  intros H. destruct (base_wf_chars cfg H) as [->|Hc]; [reflexivity|].
  apply (wf_forall_nochar "?"); [|exact Hc]. intros a Ha. apply (wf_char_facts a Ha).
Qed.

Lemma base_wf_nohash cfg : base_wf cfg = true -> nochar "#" cfg = true.
Proof.
  intros H. destruct (base_wf_chars cfg H) as [->|Hc]; [reflexivity|].
  apply (wf_forall_nochar "#"); [|exact Hc]. intros a Ha. apply (wf_char_facts a Ha).
Qed.

Lemma strip_prefix_suffix p : forall u r, strip_prefix p u = Some r -> exists q, u = q ++ r.
Proof.
  induction p as [|a p IH]; intros u r H.
  - cbn in H. injection H as <-. exists []. reflexivity.
  - destruct u as [|b u]; [discriminate|]. cbn in H.
    destruct (Ascii.eqb a b); [|discriminate].
    destruct (IH u r H) as [q ->]. exists (b :: q). reflexivity.
Qed.

Lemma cut_at_split c : forall s x y, cut_at c s = Some (x, y) -> s = x ++ c :: y.
Proof.
  induction s as [|a s IH]; intros x y H; [discriminate|].
  cbn in H. destruct (Ascii.eqb a c) eqn:E.
  - injection H as <- <-. apply Ascii.eqb_eq in E. subst a. reflexivity.
  - destruct (cut_at c s) as [[x' y']|]; [|discriminate]. injection H as <- <-.
    rewrite (IH x' y' eq_refl). reflexivity.
Qed.

Lemma forallb_existsb_false {A} (P Q : A -> bool) l :
  (forall a, P a = true -> Q a = false) -> forallb P l = true -> existsb Q l = false.
Proof.
  intros H. induction l as [|a l IH]; intros Hl; [reflexivity|].
  cbn in Hl. apply andb_true_iff in Hl as [Ha Hl]. cbn. rewrite (H a Ha), (IH Hl). reflexivity.
Qed.

(* a well-formed base is one the client does not refuse *)
Lemma base_wf_not_refused cfg : base_wf cfg = true -> url_refused (base_url cfg) = false.
Proof.
  intros H. destruct cfg as [|a cfg]; [vm_compute; reflexivity|].
  change (base_url (a :: cfg)) with (a :: cfg).
  unfold base_wf in H. unfold url_refused.
  destruct (http_rest (a :: cfg)) as [[|h r]|] eqn:Er; try discriminate.
  apply andb_true_iff in H as [H Hp]. apply andb_true_iff in H as [_ Hc].
  apply negb_true_iff in Hp. rewrite Hp.
  rewrite (forallb_existsb_false wf_char is_ctl _ (fun x Hx => proj1 (wf_char_facts x Hx)) Hc).
  cbn [orb].
  assert (Hr : forallb wf_char (h :: r) = true).
  { unfold http_rest in Er.
    destruct (strip_prefix (lit "http://") (a :: cfg)) as [r1|] eqn:E1.
    - injection Er as Er. subst r1. destruct (strip_prefix_suffix _ _ _ E1) as [q Hq].
      rewrite Hq, forallb_app in Hc. apply andb_true_iff in Hc as [_ Hc]. exact Hc.
    - destruct (strip_prefix_suffix _ _ _ Er) as [q Hq].
      rewrite Hq, forallb_app in Hc. apply andb_true_iff in Hc as [_ Hc]. exact Hc. }
  destruct (cut_at "/" (h :: r)) as [[x y]|] eqn:Ec.
  - rewrite (cut_at_split _ _ _ _ Ec), forallb_app in Hr. apply andb_true_iff in Hr as [Hx _].
    apply (forallb_existsb_false wf_char _ _ (fun z Hz => proj1 (proj2 (wf_char_facts z Hz))) Hx).
  - apply (forallb_existsb_false wf_char _ _ (fun z Hz => proj1 (proj2 (wf_char_facts z Hz))) Hr).
Qed.

Definition bounds_all (P : fl -> bool) (b : bounds) : bool :=
  P (MinLon b) && P (MinLat b) && P (MaxLon b) && P (MaxLat b).

(* bounding boxes hold finite numbers *)
Definition args_finite (ep : endpoint) : bool :=
  match ep with Map b _ | Notes b _ => bounds_all finite b | _ => true end.

(* ---------- pieces ---------- *)

Definition piece_ok (strict : bool) (p : str) (kq : str * qval) : Prop :=
  nochar "&" p = true /\ p <> [] /\
  exists v, decode_pair p = Some (fst kq, v) /\ qval_ok strict (snd kq) v = true.

Lemma query_ok_cons strict k q v spec kvs :
  qval_ok strict q v = true -> query_ok strict spec kvs = true ->
  query_ok strict ((k, q) :: spec) ((k, v) :: kvs) = true.
Proof. intros Hq Hr. cbn [query_ok]. rewrite str_eqb_refl, Hq, Hr. reflexivity. Qed.

Lemma decode_join strict ps : forall spec,
  Forall2 (piece_ok strict) ps spec ->
  exists kvs, decode_query (join amp ps) = Some kvs /\ query_ok strict spec kvs = true.
Proof.
  induction ps as [|p ps IH]; intros spec HF; inversion HF as [|p' kq ps' spec' Hp HF']; subst.
  - exists []. split; reflexivity.
  - destruct Hp as [Hamp [Hne [v [Hd Hq]]]]. destruct kq as [k q]. cbn [fst snd] in *.
    destruct ps as [|p2 ps].
    + inversion HF'; subst. exists [(k, v)]. split.
      * cbn [join]. apply decode_query_single; assumption.
      * apply query_ok_cons; [exact Hq|reflexivity].
    + destruct (IH _ HF') as [kvs [Hk Hok]].
      exists ((k, v) :: kvs). split.
      * change (join amp (p :: p2 :: ps)) with (p ++ "&"%char :: join amp (p2 :: ps)).
        rewrite (decode_query_cons p (k, v) _ Hamp Hne Hd), Hk. reflexivity.
      * apply query_ok_cons; assumption.
Qed.

(* a piece, '&', then a joined (possibly empty) list *)
Lemma decode_cons_join strict p kq ps spec :
  piece_ok strict p kq -> Forall2 (piece_ok strict) ps spec ->
  exists kvs, decode_query (p ++ amp ++ join amp ps) = Some kvs /\
              query_ok strict (kq :: spec) kvs = true.
Proof.
  intros [Hamp [Hne [v [Hd Hq]]]] HF. destruct kq as [k q]. cbn [fst snd] in *.
  destruct (decode_join strict ps spec HF) as [kvs [Hk Hok]].
  exists ((k, v) :: kvs). split.
  - change (p ++ amp ++ join amp ps) with (p ++ "&"%char :: join amp ps).
    rewrite (decode_query_cons p (k, v) _ Hamp Hne Hd), Hk. reflexivity.
  - apply query_ok_cons; assumption.
Qed.

Lemma clean_iso t : clean (iso8601 t) = true.
Proof. unfold iso8601. rewrite !clean_app, !clean_zpad. reflexivity. Qed.

Lemma kv_piece strict k v v' q :
  clean k = true -> k <> [] -> nochar "&" v = true -> query_unescape v = Some v' ->
  qval_ok strict q v' = true -> piece_ok strict (k ++ lit "=" ++ v) (k, q).
Proof.
  intros Hk Hne Hv Hu Hq. repeat split.
  - rewrite !nochar_app, (clean_no_amp _ Hk), Hv. reflexivity.
  - destruct k; [congruence|discriminate].
  - exists v'. split; [|exact Hq]. apply decode_pair_kv; assumption.
Qed.

Lemma at_piece_ok strict o : fopt_in_range o = true -> piece_ok strict (at_piece o) (at_param o).
Proof.
  destruct o as [t]. cbn [at_piece at_param fopt_in_range]. intros Ht.
  apply (kv_piece strict (lit "at") (iso8601 t) (iso8601 t)).
  - reflexivity.
  - discriminate.
  - apply clean_no_amp, clean_iso.
  - apply clean_unescape, clean_iso.
  - (* the specification reads the text back with its own calendar *)
    cbn [qval_ok]. exact (time_text_ok_of_model t Ht).
Qed.

Lemma at_pieces_ok strict o :
  forallb fopt_in_range o = true -> Forall2 (piece_ok strict) (map at_piece o) (map at_param o).
Proof.
  induction o as [|a o IH]; intros H; [constructor|].
  cbn in H. apply andb_true_iff in H as [Ha Ho].
  constructor; [apply at_piece_ok; exact Ha|apply IH; exact Ho].
Qed.

Lemma note_piece_ok strict o : piece_ok strict (note_piece o) (note_param o).
Proof.
  destruct o as [n|n]; cbn [note_piece note_param].
  - apply (kv_piece strict (lit "limit") (dec n) (dec n)); try reflexivity; try discriminate.
    + apply clean_no_amp, clean_dec.
    + apply clean_unescape, clean_dec.
    + cbn. apply str_eqb_refl.
  - apply (kv_piece strict (lit "closed") (dec n) (dec n)); try reflexivity; try discriminate.
    + apply clean_no_amp, clean_dec.
    + apply clean_unescape, clean_dec.
    + cbn. apply str_eqb_refl.
Qed.

Lemma note_pieces_ok strict o : Forall2 (piece_ok strict) (map note_piece o) (map note_param o).
Proof. induction o; constructor; [apply note_piece_ok|assumption]. Qed.

Lemma clean_plural e : clean (plural e) = true.
Proof. destruct e; reflexivity. Qed.

Lemma ids_piece_ok strict e ids :
  piece_ok strict (plural e ++ lit "=" ++ idlist ids) (plural e, QText (idlist ids)).
Proof.
  apply (kv_piece strict (plural e) (idlist ids) (idlist ids)).
  - apply clean_plural.
  - destruct e; discriminate.
  - apply clean_no_amp, clean_ids.
  - apply clean_unescape, clean_ids.
  - cbn. apply str_eqb_refl.
Qed.

Lemma q_piece_ok strict q : piece_ok strict (q_piece q) (lit "q", QText q).
Proof.
  apply (kv_piece strict (lit "q") (query_escape q) q); try reflexivity; try discriminate.
  - apply (sep_free_nochar "&"); [reflexivity|apply escape_sep_free].
  - apply escape_roundtrip.
  - cbn. apply str_eqb_refl.
Qed.

(* ---------- the bounding box ---------- *)

Definition coord_char (a : ascii) : bool :=
  clean_char a && negb (Ascii.eqb a ",").

Lemma coord_char_on_digits : on_digits coord_char.
Proof.
  intros d H. destruct (digit_cases d H) as [?|[?|[?|[?|[?|[?|[?|[?|[?|?]]]]]]]]]; subst d; reflexivity.
Qed.

Lemma coord_text_chars x : finite x = true -> forallb coord_char (coord_text x) = true.
Proof. intros H. apply coord_text_all; [exact H|exact coord_char_on_digits|reflexivity|reflexivity]. Qed.

Lemma coord_chars_clean s : forallb coord_char s = true -> clean s = true.
Proof.
  induction s as [|a s IH]; intros H; [reflexivity|].
  cbn in H. apply andb_true_iff in H as [Ha Hs]. unfold coord_char in Ha.
  apply andb_true_iff in Ha as [Ha _].
  change (clean (a :: s)) with (clean_char a && clean s). rewrite Ha, (IH Hs). reflexivity.
Qed.

Lemma coord_chars_nocomma s : forallb coord_char s = true -> nochar "," s = true.
Proof.
  induction s as [|a s IH]; intros H; [reflexivity|].
  cbn in H. apply andb_true_iff in H as [Ha Hs]. unfold coord_char in Ha.
  apply andb_true_iff in Ha as [_ Ha]. rewrite nochar_cons, Ha, (IH Hs). reflexivity.
Qed.

Lemma bbox_value_ok strict b :
  bounds_all finite b = true ->
  clean (bbox_value b) = true /\ bbox_text_ok strict b (bbox_value b) = true.
Proof.
  unfold bounds_all. intros Hf.
  apply andb_true_iff in Hf as [Hf H4]. apply andb_true_iff in Hf as [Hf H3].
  apply andb_true_iff in Hf as [H1 H2].
  pose proof (coord_text_chars _ H1) as C1. pose proof (coord_text_chars _ H2) as C2.
  pose proof (coord_text_chars _ H3) as C3. pose proof (coord_text_chars _ H4) as C4.
  split.
  - unfold bbox_value. rewrite !clean_app.
    rewrite (coord_chars_clean _ C1), (coord_chars_clean _ C2), (coord_chars_clean _ C3),
      (coord_chars_clean _ C4). reflexivity.
  - unfold bbox_text_ok, bbox_value.
    change (lit ",") with [","%char]. cbn [app].
    rewrite (split_on_app _ _ _ (coord_chars_nocomma _ C1)).
    rewrite (split_on_app _ _ _ (coord_chars_nocomma _ C2)).
    rewrite (split_on_app _ _ _ (coord_chars_nocomma _ C3)).
    rewrite (split_on_none _ _ (coord_chars_nocomma _ C4)).
    rewrite !coord_text_faithful by assumption. reflexivity.
Qed.

Lemma bbox_piece_ok strict b :
  bounds_all finite b = true ->
  piece_ok strict (bbox_piece b) (lit "bbox", QBBox b).
Proof.
  intros Hf. destruct (bbox_value_ok strict b Hf) as [Hc Hok].
  apply (kv_piece strict (lit "bbox") (bbox_value b) (bbox_value b)); try reflexivity; try discriminate.
  - apply clean_no_amp, Hc.
  - apply clean_unescape, Hc.
  - exact Hok.
Qed.

(* ---------- the path ---------- *)

Lemma clean_spec_path ep : clean (spec_path ep) = true.
Proof.
  destruct ep as [e id o|e ids o|e id v|e id|id o|e id o|e id o|b o|id|id|id|id|b os|q os|id];
    try destruct e; cbn [spec_path]; rewrite ?clean_app, ?clean_dec; reflexivity.
Qed.

Lemma base_path_noq cfg ep :
  base_ok cfg = true -> nochar "?" (base_url cfg ++ spec_path ep) = true.
Proof.
  intros Hb. rewrite nochar_app, (clean_no_q _ (clean_spec_path ep)), andb_true_r.
  destruct cfg; [reflexivity|exact (base_wf_noq _ Hb)].
Qed.

(* ---------- the query of every call ---------- *)

Lemma explicit_query_ok strict ep :
  args_finite ep = true -> times_in_range ep = true ->
  match explicit_query ep with
  | None => spec_query ep = []
  | Some q => exists kvs, decode_query q = Some kvs /\ query_ok strict (spec_query ep) kvs = true
  end.
Proof.
  intros Hf Ht.
  destruct ep as [e id o|e ids o|e id v|e id|id o|e id o|e id o|b o|id|id|id|id|b os|q os|id];
    cbn [explicit_query spec_query times_in_range] in *; try reflexivity.
  - apply decode_join, at_pieces_ok; exact Ht.
  - destruct o as [|a o].
    + rewrite app_nil_r.
      apply (decode_join strict [plural e ++ lit "=" ++ idlist ids] [(plural e, QText (idlist ids))]).
      constructor; [apply ids_piece_ok|constructor].
    + replace (plural e ++ lit "=" ++ idlist ids ++ amp ++ fstring (a :: o))
        with ((plural e ++ lit "=" ++ idlist ids) ++ amp ++ join amp (map at_piece (a :: o)))
        by (unfold fstring; rewrite <- !app_assoc; reflexivity).
      apply decode_cons_join; [apply ids_piece_ok|apply at_pieces_ok; exact Ht].
  - apply decode_join, at_pieces_ok; exact Ht.
  - apply decode_join, at_pieces_ok; exact Ht.
  - apply decode_join, at_pieces_ok; exact Ht.
  - apply decode_cons_join; [apply bbox_piece_ok; assumption|apply at_pieces_ok; exact Ht].
  - apply (decode_join strict [lit "include_discussion=true"]
             [(lit "include_discussion", QText (lit "true"))]).
    constructor; [|constructor].
    apply (kv_piece strict (lit "include_discussion") (lit "true") (lit "true")); reflexivity || discriminate.
  - apply (decode_join strict (bbox_piece b :: map note_piece os)
             ((lit "bbox", QBBox b) :: map note_param os)).
    constructor; [apply bbox_piece_ok; assumption|apply note_pieces_ok].
  - apply (decode_join strict (q_piece q :: map note_piece os)
             ((lit "q", QText q) :: map note_param os)).
    constructor; [apply q_piece_ok|apply note_pieces_ok].
Qed.

Lemma std_url_ok strict cfg ep :
  base_ok cfg = true -> args_finite ep = true -> times_in_range ep = true ->
  request_ok_at strict cfg ep (explicit_url_std cfg ep) = true.
Proof.
  intros Hb Hf Ht. unfold request_ok_at, explicit_url_std.
  pose proof (explicit_query_ok strict ep Hf Ht) as Hq.
  destruct (explicit_query ep) as [q|].
  - rewrite app_assoc, (split_target_query _ _ (base_path_noq cfg ep Hb)).
    rewrite base_url_spec, str_eqb_refl. cbn [andb].
    destruct Hq as [kvs [Hd Hok]]. rewrite Hd. exact Hok.
  - rewrite app_nil_r, (split_target_noquery _ (base_path_noq cfg ep Hb)).
    rewrite base_url_spec, str_eqb_refl, Hq. reflexivity.
Qed.

(* the shape without a dangling '?' / '&' when no feature option is given *)
Lemma alt_url_ok strict cfg ep :
  base_ok cfg = true -> args_finite ep = true -> no_fopts ep = true ->
  request_ok_at strict cfg ep (alt_url cfg ep) = true.
Proof.
  intros Hb Hf Hn. unfold request_ok_at, alt_url.
  assert (Hcore : match core_query ep with
                  | None => spec_query ep = []
                  | Some q => exists kvs, decode_query q = Some kvs /\
                                          query_ok strict (spec_query ep) kvs = true
                  end).
  { destruct ep as [e id o|e ids o|e id v|e id|id o|e id o|e id o|b o|id|id|id|id|b os|q os|id];
      try discriminate Hn; destruct o; try discriminate Hn; cbn [core_query spec_query map].
    - reflexivity.
    - apply (decode_join strict [plural e ++ lit "=" ++ idlist ids] [(plural e, QText (idlist ids))]).
      constructor; [apply ids_piece_ok|constructor].
    - reflexivity.
    - reflexivity.
    - reflexivity.
    - apply (decode_join strict [bbox_piece b] [(lit "bbox", QBBox b)]).
      constructor; [apply bbox_piece_ok; assumption|constructor]. }
  destruct (core_query ep) as [q|].
  - rewrite app_assoc, (split_target_query _ _ (base_path_noq cfg ep Hb)).
    rewrite base_url_spec, str_eqb_refl. cbn [andb].
    destruct Hcore as [kvs [Hd Hok]]. rewrite Hd. exact Hok.
  - rewrite app_nil_r, (split_target_noquery _ (base_path_noq cfg ep Hb)).
    rewrite base_url_spec, str_eqb_refl, Hcore. reflexivity.
Qed.

Lemma explicit_url_ok strict cfg ep :
  base_ok cfg = true -> options_valid ep = true -> args_finite ep = true -> times_in_range ep = true ->
  request_ok_at strict cfg ep (explicit_url cfg ep) = true.
Proof.
  intros Hb Hv Hf Ht. unfold explicit_url.
  destruct (url_of_shape cfg ep Hv) as [H|[Hn H]]; rewrite H.
  - apply std_url_ok; assumption.
  - apply alt_url_ok; assumption.
Qed.

(* url_matches_spec: for every call, all ids, id lists, option lists, queries and bases *)
Lemma url_matches_spec_at strict cfg ep :
  base_ok cfg = true -> options_valid ep = true -> args_finite ep = true -> times_in_range ep = true ->
  exists u, url_of cfg ep = Ok u /\ request_ok_at strict cfg ep u = true.
Proof.
  intros Hb Hv Hf Ht. exists (explicit_url cfg ep). split.
  - apply url_of_explicit, Hv.
  - apply explicit_url_ok; assumption.
Qed.

