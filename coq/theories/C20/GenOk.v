(* C20/GenOk.v — obligations on gen/GenOsmapi.v beyond those discharged inside the proofs
   (ProofsUrl.base_default, fmt_time_iso, apply_at, apply_limit, apply_closed, url_of_explicit, ProofsCall.method_matches,
   status_error_class, status_error_none): the endpoint inductive covers every exported Datasource method, and the
   error types are exactly the five the classes know. *)
From Coq Require Import ZArith List String Ascii Bool.
From Verif Require Import C20.Syntax C20.Text C20.Types C20.Model.
From VerifGen Require Import GenOsmapi.
Import ListNotations.
Open Scope Z_scope.

Definition zero : fl := {| f_class := 0; f_neg := false; f_m := 0; f_e := 0 |}.
Definition bb : bounds := {| MinLon := zero; MinLat := zero; MaxLon := zero; MaxLat := zero |}.

(* one representative per (constructor, element kind) *)
Definition representatives : list endpoint :=
  flat_map (fun e => [Get e 0 []; Multi e [] []; Version e 0 0; History e 0; RelationsOf e 0 []])
           [Node; Way; Relation] ++
  [NodeWays 0 []; Full FWay 0 []; Full FRelation 0 []; Map bb []; Changeset 0;
   ChangesetWithDiscussion 0; ChangesetDownload 0; Note 0; Notes bb []; NotesSearch [] []; User 0].

(* every exported method of the source is the method of some modelled call, and conversely *)
Lemma methods_covered :
  forallb (fun m => existsb (fun ep => String.eqb (method_name ep) (m_name m)) representatives) methods = true.
Proof. vm_compute. reflexivity. Qed.

Lemma calls_implemented :
  forallb (fun ep => match find_method (method_name ep) with Some _ => true | None => false end)
          representatives = true.
Proof. vm_compute. reflexivity. Qed.

Lemma method_count : List.length methods = List.length representatives.
Proof. vm_compute. reflexivity. Qed.

(* the error types of the package are the five typed errors, each with its own class *)
Lemma error_types_classes :
  map (fun t => class_code (class_of (Some t))) error_types = [2; 3; 1; 4; 5].
Proof. vm_compute. reflexivity. Qed.

Lemma status_rule_types_declared :
  forallb (fun r => existsb (String.eqb (snd r)) error_types) status_rules
  && existsb (String.eqb status_other) error_types
  && existsb (String.eqb notfound_type) error_types = true.
Proof. vm_compute. reflexivity. Qed.

Lemma request_shape : http_method = "GET"%string /\ wait_before_do = true /\ wait_error_returns = true.
Proof. repeat split. Qed.

(* every exported method has a package-level function of the same name whose body is exactly
   `return DefaultDatasource.<name>(<its own parameters>)` (checked by the translator, which
   lists them): a package-level call IS the method call on DefaultDatasource *)
Lemma package_functions_cover_methods :
  forallb (fun m => existsb (String.eqb (m_name m)) package_functions) methods = true
  /\ List.length package_functions = List.length methods.
Proof. vm_compute. split; reflexivity. Qed.
