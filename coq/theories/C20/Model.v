(* C20/Model.v — executable model of package osmapi (datasource.go, node.go, way.go,
   relation.go, changeset.go, note.go, user.go, map.go, options.go).

   What is data in the code — every method's URL expression, option formats and ranges, the
   status chain of getFromAPI, the count guards, NotFound's type — is NOT written here: it is
   read from gen/GenOsmapi.v (regenerated from /repo by translator/cmd/osmapi on every run)
   and interpreted by [eval] / [get_from_api_w] (the interpreter of getFromAPI's generated
   effect sequence) / [select] below.  Hand-modelled and tied by
   correspondence only: fmt.Sprintf verbs %s %d %f %v, strconv.AppendInt, time.Format,
   url.QueryEscape (Text.v), net/http as a request trace, encoding/xml as "the body is a
   list of (kind, id) elements or malformed".  Definitions only. *)
From Coq Require Import ZArith List String Ascii Bool.
From Verif Require Import C20.Syntax C20.Text C20.Types.
From VerifGen Require Import GenOsmapi.
Import ListNotations.
Open Scope Z_scope.
Open Scope list_scope.

Definition elem_name (e : elem) : string :=
  match e with Node => "Node" | Way => "Way" | Relation => "Relation" end.
Definition full_name (e : full_elem) : string :=
  match e with FWay => "Way" | FRelation => "Relation" end.

(* the Go method implementing the call *)
Definition method_name (ep : endpoint) : string :=
  match ep with
  | Get e _ _ => elem_name e
  | Multi e _ _ => elem_name e ++ "s"
  | Version e _ _ => elem_name e ++ "Version"
  | History e _ => elem_name e ++ "History"
  | NodeWays _ _ => "NodeWays"
  | RelationsOf e _ _ => elem_name e ++ "Relations"
  | Full e _ _ => full_name e ++ "Full"
  | Map _ _ => "Map"
  | Changeset _ => "Changeset"
  | ChangesetWithDiscussion _ => "ChangesetWithDiscussion"
  | ChangesetDownload _ => "ChangesetDownload"
  | Note _ => "Note"
  | Notes _ _ => "Notes"
  | NotesSearch _ _ => "NotesSearch"
  | User _ => "User"
  end%string.

Inductive pvalue :=
| PId (z : Z) | PInt (z : Z) | PIds (l : list Z) | PFOpts (l : list fopt) | PNOpts (l : list nopt)
| PBounds (b : bounds) | PString (s : str).

(* actual parameters after ctx, in Go order *)
Definition params_of (ep : endpoint) : list pvalue :=
  match ep with
  | Get _ id o | NodeWays id o | RelationsOf _ id o | Full _ id o => [PId id; PFOpts o]
  | Multi _ ids o => [PIds ids; PFOpts o]
  | Version _ id v => [PId id; PInt v]
  | History _ id | Changeset id | ChangesetWithDiscussion id | ChangesetDownload id
  | Note id | User id => [PId id]
  | Map b o => [PBounds b; PFOpts o]
  | Notes b o => [PBounds b; PNOpts o]
  | NotesSearch q o => [PString q; PNOpts o]
  end.

Definition pkind (p : pvalue) : string :=
  match p with
  | PId _ => "id" | PInt _ => "int" | PIds _ => "ids" | PFOpts _ => "fopts"
  | PNOpts _ => "nopts" | PBounds _ => "bounds" | PString _ => "string"
  end.

(* ---------- evaluation of the translated expressions ---------- *)

(* Reject: an option's validity check failed (the Go method returns an error before any
   request).  Bad: a construct / argument combination this model does not cover (Go would
   print %!d(...) etc.); never produced for the unchanged source (GenOk.v). *)
Inductive res (A : Type) := Ok (a : A) | Reject | Bad.
Arguments Ok {A}. Arguments Reject {A}. Arguments Bad {A}.

Definition rbind {A B} (r : res A) (f : A -> res B) : res B :=
  match r with Ok a => f a | Reject => Reject | Bad => Bad end.

Inductive value := VStr (s : str) | VInt (z : Z) | VFloat (x : fl).

Definition as_str (v : value) : res str := match v with VStr s => Ok s | _ => Bad end.

(* fmt.Sprintf for the verbs the package uses *)
Definition sprintf_piece (v : ascii) (a : value) : res str :=
  match a with
  | VStr s => if Ascii.eqb v "s" || Ascii.eqb v "v" then Ok s else Bad
  | VInt z => if Ascii.eqb v "d" || Ascii.eqb v "v" then Ok (dec z) else Bad
  | VFloat x => if Ascii.eqb v "f" then Ok (fmt_f x) else Bad
  end.

(* [pct] = the previous character was an unconsumed '%' *)
Fixpoint sprintf_go (pct : bool) (f : str) (args : list value) : res str :=
  match f with
  | [] => if pct then Bad else match args with [] => Ok [] | _ => Bad end
  | a :: r =>
      if pct then
        if Ascii.eqb a "%" then rbind (sprintf_go false r args) (fun t => Ok ("%"%char :: t))
        else match args with
             | [] => Bad
             | x :: args' =>
                 rbind (sprintf_piece a x) (fun p =>
                 rbind (sprintf_go false r args') (fun t => Ok (p ++ t)))
             end
      else if Ascii.eqb a "%" then sprintf_go true r args
      else rbind (sprintf_go false r args) (fun t => Ok (a :: t))
  end.
Definition sprintf := sprintf_go false.

Fixpoint rmap {A B} (f : A -> res B) (l : list A) : res (list B) :=
  match l with
  | [] => Ok []
  | a :: r => rbind (f a) (fun b => rbind (rmap f r) (fun t => Ok (b :: t)))
  end.

Record env := { e_base : str; e_params : list pvalue; e_opt : option Z }.

Definition field_of (b : bounds) (f : string) : res fl :=
  if String.eqb f "MinLon" then Ok (MinLon b)
  else if String.eqb f "MinLat" then Ok (MinLat b)
  else if String.eqb f "MaxLon" then Ok (MaxLon b)
  else if String.eqb f "MaxLat" then Ok (MaxLat b)
  else Bad.

Definition fopt_ctor (o : fopt) : string * Z := match o with At t => ("At"%string, t) end.
Definition nopt_ctor (o : nopt) : string * Z :=
  match o with Limit n => ("Limit"%string, n) | MaxDaysClosed n => ("MaxDaysClosed"%string, n) end.

Section Eval.
  (* how an option value renders its parameter: (interface, constructor, payload) *)
  Variable apply_opt : string -> string -> Z -> res str.
  Variable en : env.

  Fixpoint eval (e : sexpr) : res value :=
    match e with
    | ELit s => Ok (VStr (lit s))
    | EBase => Ok (VStr (e_base en))
    | EParam i =>
        match nth_error (e_params en) i with
        | Some (PId z) | Some (PInt z) => Ok (VInt z)
        | Some (PString s) => Ok (VStr s)
        | _ => Bad
        end
    | EField i f =>
        match nth_error (e_params en) i with
        | Some (PBounds b) => rbind (field_of b f) (fun x => Ok (VFloat x))
        | _ => Bad
        end
    | ESprintf f args =>
        rbind (eval_args args) (fun vs => rbind (sprintf (lit f) vs) (fun s => Ok (VStr s)))
    | EConcat a b =>
        rbind (rbind (eval a) as_str) (fun x =>
        rbind (rbind (eval b) as_str) (fun y => Ok (VStr (x ++ y))))
    | EFeatureOpts i =>
        match nth_error (e_params en) i with
        | Some (PFOpts l) =>
            rbind (rmap (fun o => let '(c, n) := fopt_ctor o in apply_opt "applyFeature" c n) l)
                  (fun ps => Ok (VStr (join (lit feature_sep) ps)))
        | _ => Bad
        end
    | EIdList i sep =>
        match nth_error (e_params en) i with
        | Some (PIds l) => Ok (VStr (join (lit sep) (map dec l)))
        | _ => Bad
        end
    | EQueryEscape a => rbind (rbind (eval a) as_str) (fun s => Ok (VStr (query_escape s)))
    | EJoin l sep => rbind (eval_list l) (fun ps => Ok (VStr (join (lit sep) ps)))
    | EIfNonEmpty c a b =>
        rbind (rbind (eval c) as_str) (fun s => match s with [] => eval b | _ => eval a end)
    | EFixed a prec =>
        rbind (eval a) (fun v => match v with VFloat x => Ok (VStr (fmt_fixed prec x)) | _ => Bad end)
    | ETrimSuffix a suf =>
        rbind (rbind (eval a) as_str) (fun s =>
        rbind (rbind (eval suf) as_str) (fun t => Ok (VStr (trim_suffix t s))))
    | EOptInt => match e_opt en with Some n => Ok (VInt n) | None => Bad end
    | EOptTime utc layout =>
        match e_opt en with
        | Some t => if utc then Ok (VStr (fmt_time layout t)) else Bad
        | None => Bad
        end
    end
  with eval_args (a : sargs) : res (list value) :=
    match a with
    | ANil => Ok []
    | ACons x r => rbind (eval x) (fun v => rbind (eval_args r) (fun t => Ok (v :: t)))
    end
  with eval_list (l : lexpr) : res (list str) :=
    match l with
    | LNil => Ok []
    | LSnoc l' a =>
        rbind (eval_list l') (fun ps => rbind (rbind (eval a) as_str) (fun s => Ok (ps ++ [s])))
    | LNotesOpts l' i =>
        rbind (eval_list l') (fun ps =>
          match nth_error (e_params en) i with
          | Some (PNOpts os) =>
              rbind (rmap (fun o => let '(c, n) := nopt_ctor o in apply_opt "applyNotes" c n) os)
                    (fun qs => Ok (ps ++ qs))
          | _ => Bad
          end)
    end.
End Eval.

Definition find_opt (iface ctor : string) : option opt_rule :=
  find (fun r => String.eqb (o_ctor r) ctor && String.eqb (o_iface r) iface) options.

(* <option>.applyFeature / applyNotes: the string appended to the parameter list *)
Definition apply_opt (iface ctor : string) (n : Z) : res str :=
  match find_opt iface ctor with
  | None => Bad
  | Some r =>
      let ok := match o_reject r with
                | Some (lo, hi) => (lo <=? n) && (n <=? hi)
                | None => true
                end in
      if ok then
        rbind (eval (fun _ _ _ => Bad) {| e_base := []; e_params := []; e_opt := Some n |} (o_expr r))
              as_str
      else Reject
  end.

Definition find_method (name : string) : option method :=
  find (fun m => String.eqb (m_name m) name) methods.

(* ds.baseURL() *)
Definition base_url (configured : str) : str :=
  match configured with [] => lit c_BaseURL | _ => configured end.

Fixpoint kinds_eqb (a b : list string) : bool :=
  match a, b with
  | [], [] => true
  | x :: a', y :: b' => String.eqb x y && kinds_eqb a' b'
  | _, _ => false
  end.

(* the URL string a call hands to getFromAPI; [configured] is Datasource.BaseURL *)
Definition url_of (configured : str) (ep : endpoint) : res str :=
  match find_method (method_name ep) with
  | None => Bad
  | Some m =>
      if kinds_eqb (m_params m) (map pkind (params_of ep)) then
        rbind (eval apply_opt
                 {| e_base := base_url configured; e_params := params_of ep; e_opt := None |}
                 (m_url m)) as_str
      else Bad
  end.

(* ---------- getFromAPI ---------- *)

Inductive event := EvWait | EvRequest (http_method : string) (url : str).

(* what xml.Decode leaves in the target *)
Inductive decoded := DOsm (els : list el) | DChange (cr mo de : list el).

(* the root element's name is not checked by either target (no XMLName field); children a
   target does not declare are skipped *)
Definition decode (target : string) (b : body) : option decoded :=
  match b with
  | BMalformed => None
  | BOsm els => if String.eqb target "OSM" then Some (DOsm els) else Some (DChange [] [] [])
  | BChange c m d => if String.eqb target "OSM" then Some (DOsm []) else Some (DChange c m d)
  end.

(* error values: None = nil; Some "" = an untyped error; Some T = *T of package osmapi *)
Definition errv := option string.

Definition status_error (code : Z) : errv :=
  match find (fun r => fst r =? code) status_rules with
  | Some r => Some (snd r)
  | None => if code =? status_ok then None else Some status_other
  end.

(* ---------- result selection ---------- *)

Definition field_kind (f : string) : option Z :=
  if String.eqb f "Nodes" then Some 1
  else if String.eqb f "Ways" then Some 2
  else if String.eqb f "Relations" then Some 3
  else if String.eqb f "Changesets" then Some 4
  else if String.eqb f "Notes" then Some 5
  else if String.eqb f "Users" then Some 6
  else None.

Definition of_kind (k : Z) (els : list el) : list el := filter (fun e => fst e =? k) els.

(* the struct groups children by field: nodes, ways, relations, changesets, notes, users *)
Definition grouped (els : list el) : list el := flat_map (fun k => of_kind k els) [1; 2; 3; 4; 5; 6].

Definition cmp_op (op : string) (a b : Z) : option bool :=
  if String.eqb op "!=" then Some (negb (a =? b))
  else if String.eqb op "==" then Some (a =? b)
  else if String.eqb op "<" then Some (a <? b)
  else if String.eqb op "<=" then Some (a <=? b)
  else if String.eqb op ">" then Some (b <? a)
  else if String.eqb op ">=" then Some (b <=? a)
  else None.

Definition section_tag (s : Z) (els : list el) : list el :=
  map (fun e => (10 * s + fst e, snd e)) (grouped els).

Inductive selected := SData (d : list el) | SError | SPanic | SBad.

Definition select (r : ret_shape) (d : decoded) : selected :=
  match r, d with
  | RetWhole, DOsm els => SData (grouped els)
  | RetWhole, DChange c m dl => SData (section_tag 1 c ++ section_tag 2 m ++ section_tag 3 dl)
  | RetList f, DOsm els =>
      match field_kind f with Some k => SData (of_kind k els) | None => SBad end
  | RetIndex0 f g, DOsm els =>
      match field_kind f with
      | Some k =>
          let l := of_kind k els in
          let rejected :=
            match g with
            | Some (op, n) => cmp_op op (Z.of_nat (List.length l)) n
            | None => Some false
            end in
          match rejected with
          | None => SBad
          | Some true => SError
          | Some false => match l with x :: _ => SData [x] | [] => SPanic end
          end
      | None => SBad
      end
  | _, _ => SBad
  end.

(* ---------- a whole call ---------- *)

Record outcome := {
  o_trace : list event;
  o_err : errv;
  o_data : option (list el);   (* None = nil result *)
  o_panic : bool;
  o_bad : bool }.              (* the model does not cover this configuration *)

Definition bad_outcome : outcome :=
  {| o_trace := []; o_err := None; o_data := None; o_panic := false; o_bad := true |}.

(* ---------- the same call in a world with redirects and cancellation ---------- *)

(* hand model of http.Client.Do (net/http, not osmapi code): the default policy follows up to
   10 requests in total, every hop of a GET is a GET of the Location; ErrUseLastResponse hands
   the 3xx back; a context cancelled before the call sends nothing; one cancelled while the
   request is in flight has sent it *)
Inductive transport_result := TResp (r : response) | TErr.

Definition client_do_m (meth : string) (w : world) (url : str) : list event * transport_result :=
  let req u := EvRequest meth u in
  match w_ctx w with
  | CtxCancelledBefore => ([], TErr)
  | CtxCancelledDuring => ([req url], TErr)
  | CtxLive =>
      match w_hops w with
      | [] => ([req url], TResp (w_resp w))
      | _ :: _ =>
          if w_follow w then
            if (Z.of_nat (List.length (w_hops w)) <=? 9)
            then (map req (url :: w_hops w), TResp (w_resp w))
            else (map req (url :: firstn 9 (w_hops w)), TErr)
          else ([req url], TResp {| r_status := w_hop_status w; r_body := BMalformed |})
      end
  end.

Definition client_do := client_do_m http_method.

Definition after_response (target : string) (resp : response) : errv * option decoded :=
  match status_error (r_status resp) with
  | Some t => (Some t, None)
  | None => match decode target (r_body resp) with
            | Some d => (None, Some d)
            | None => (Some ""%string, None)
            end
  end.

(* ---------- getFromAPI: the interpreter of its generated effect sequence ----------

   gen/GenOsmapi.v lists the effectful calls of getFromAPI in source order ([api_steps]); every
   other call expression in the body is a translator error.  The trace of a call IS what this
   interpreter produces from that list: a second client.Do in the source is a second SDo step
   and a second group of requests here. *)

Record gstate := {
  g_trace : list event;
  g_method : option string;             (* req exists, with this method *)
  g_resp : option response;             (* resp exists *)
  g_out : option (errv * option decoded);   (* getFromAPI has returned *)
  g_bad : bool }.                       (* something the model does not cover (nil dereference ...) *)

Definition g_return (g : gstate) (e : errv) (d : option decoded) : gstate :=
  {| g_trace := g_trace g; g_method := g_method g; g_resp := g_resp g; g_out := Some (e, d); g_bad := g_bad g |}.
Definition g_fail (g : gstate) : gstate :=
  {| g_trace := g_trace g; g_method := g_method g; g_resp := g_resp g; g_out := g_out g; g_bad := true |}.
Definition g_emit (g : gstate) (evs : list event) : gstate :=
  {| g_trace := g_trace g ++ evs; g_method := g_method g; g_resp := g_resp g; g_out := g_out g; g_bad := g_bad g |}.

Definition live (w : world) : world :=
  {| w_lim := w_lim w; w_ctx := CtxLive; w_follow := w_follow w; w_hops := w_hops w;
     w_hop_status := w_hop_status w; w_resp := w_resp w |}.

(* [refused]: the URL is one net/url / the transport refuse (Text.url_refused) *)
Definition exec_step (refused : bool) (w : world) (url : str) (target : string) (g : gstate) (s : step)
  : gstate :=
  match g_out g with
  | Some _ => g
  | None =>
    if g_bad g then g else
    match s with
    | SWait guarded err_returns =>
        match w_lim w with
        | NoLimiter => if guarded then g else g_fail g
        | _ =>
            (* Limiter.Wait(ctx) fails when the limiter refuses or the context is already done *)
            let ok := match w_lim w, w_ctx w with
                      | LimiterFails, _ | _, CtxCancelledBefore => false
                      | _, _ => true
                      end in
            let g' := g_emit g [EvWait] in
            if ok || negb err_returns then g' else g_return g' (Some ""%string) None
        end
    | SNewRequest meth err_returns =>
        if refused then (if err_returns then g_return g (Some ""%string) None else g_fail g)
        else {| g_trace := g_trace g; g_method := Some meth; g_resp := g_resp g; g_out := None; g_bad := false |}
    | SDo with_ctx err_returns =>
        match g_method g with
        | None => g_fail g
        | Some meth =>
            let '(evs, tr) := client_do_m meth (if with_ctx then w else live w) url in
            let g' := g_emit g evs in
            match tr with
            | TErr => if err_returns then g_return g' (Some ""%string) None else g_fail g'
            | TResp r => {| g_trace := g_trace g'; g_method := g_method g'; g_resp := Some r; g_out := None; g_bad := false |}
            end
        end
    | SClose => match g_resp g with Some _ => g | None => g_fail g end
    | SStatus =>
        match g_resp g with
        | Some r => match status_error (r_status r) with Some t => g_return g (Some t) None | None => g end
        | None => g_fail g
        end
    | SDecode =>
        match g_resp g with
        | Some r => match decode target (r_body r) with
                    | Some d => g_return g None (Some d)
                    | None => g_return g (Some ""%string) None
                    end
        | None => g_fail g
        end
    end
  end.

Definition get_from_api_w (refused : bool) (w : world) (url : str) (target : string)
  : list event * errv * option decoded :=
  let g := fold_left (exec_step refused w url target) api_steps
             {| g_trace := []; g_method := None; g_resp := None; g_out := None; g_bad := false |} in
  match g_bad g, g_out g with
  | false, Some (e, d) => (g_trace g, e, d)
  | _, _ => (g_trace g, None, None)        (* fell off the end / not covered: [finish] calls it bad *)
  end.

(* what a method does with getFromAPI's outcome *)
Definition finish (m : method) (tr : list event) (err : errv) (d : option decoded) : outcome :=
  match err, d with
  | None, Some d =>
      match select (m_ret m) d with
      | SData l => {| o_trace := tr; o_err := None; o_data := Some l; o_panic := false; o_bad := false |}
      | SError => {| o_trace := tr; o_err := Some ""%string; o_data := None; o_panic := false; o_bad := false |}
      | SPanic => {| o_trace := tr; o_err := None; o_data := None; o_panic := true; o_bad := false |}
      | SBad => bad_outcome
      end
  | Some t, _ => {| o_trace := tr; o_err := Some t; o_data := None; o_panic := false; o_bad := false |}
  | None, None => bad_outcome
  end.

Definition call_w (configured : str) (w : world) (ep : endpoint) : outcome :=
  match find_method (method_name ep), url_of configured ep with
  | Some m, Ok url =>
      (* whether the URL leaves the client at all is decided on the configured base: what the
         package appends is printable ASCII with well-formed escapes *)
      let '(tr, err, d) := get_from_api_w (url_refused (base_url configured)) w url (m_target m) in
      finish m tr err d
  | Some _, Reject =>
      {| o_trace := []; o_err := Some ""%string; o_data := None; o_panic := false; o_bad := false |}
  | _, _ => bad_outcome
  end.

(* the call in the world without redirects, with a live context *)
Definition call (configured : str) (lim : limiter) (ep : endpoint) (resp : response) : outcome :=
  call_w configured (plain_world lim resp) ep.

(* ds.NotFound(err) *)
Definition not_found (e : errv) : bool :=
  match e with Some t => String.eqb t notfound_type && negb (String.eqb t "") | None => false end.

Definition class_of (e : errv) : err_class :=
  match e with
  | None => CNone
  | Some t =>
      if String.eqb t "NotFoundError" then CNotFound
      else if String.eqb t "ForbiddenError" then CForbidden
      else if String.eqb t "GoneError" then CGone
      else if String.eqb t "RequestURITooLongError" then CURITooLong
      else if String.eqb t "UnexpectedStatusCodeError" then CUnexpected
      else COther
  end.

