(* C20/ProofsText.v — lemmas about the text functions of Text.v: which characters the printers
   emit, splitting and percent-decoding of what they emit, QueryEscape round trip. *)
From Coq Require Import ZArith List String Ascii Bool Lia.
From Verif Require Import C20.Text.
Import ListNotations.
Open Scope Z_scope.
Open Scope list_scope.

Ltac Zify.zify_post_hook ::= Z.div_mod_to_equations.

(* ---------- characters ---------- *)

Definition nochar (c : ascii) (s : str) : bool := forallb (fun a => negb (Ascii.eqb a c)) s.

Lemma nochar_app c a b : nochar c (a ++ b) = nochar c a && nochar c b.
Proof. apply forallb_app. Qed.

Lemma nochar_cons c a s : nochar c (a :: s) = negb (Ascii.eqb a c) && nochar c s.
Proof. reflexivity. Qed.

Lemma str_eqb_refl s : str_eqb s s = true.
Proof.
  induction s as [|a s IH]; [reflexivity|].
  cbn. rewrite Ascii.eqb_refl. exact IH.
Qed.

Lemma str_eqb_eq a b : str_eqb a b = true -> a = b.
Proof.
  revert b. induction a as [|x a IH]; intros [|y b] H; try discriminate; [reflexivity|].
  cbn in H. apply andb_true_iff in H as [Hxy Hab].
  apply Ascii.eqb_eq in Hxy. subst y. f_equal. apply IH. exact Hab.
Qed.

(* ---------- cut_at / split_on ---------- *)

Lemma cut_at_app c x y : nochar c x = true -> cut_at c (x ++ c :: y) = Some (x, y).
Proof.
  induction x as [|a x IH]; intros H.
  - cbn. rewrite Ascii.eqb_refl. reflexivity.
  - rewrite nochar_cons in H. apply andb_true_iff in H as [Ha Hx].
    cbn. destruct (Ascii.eqb a c); [discriminate|].
    rewrite (IH Hx). reflexivity.
Qed.

Lemma cut_at_none c x : nochar c x = true -> cut_at c x = None.
Proof.
  induction x as [|a x IH]; intros H; [reflexivity|].
  rewrite nochar_cons in H. apply andb_true_iff in H as [Ha Hx].
  cbn. destruct (Ascii.eqb a c); [discriminate|]. rewrite (IH Hx). reflexivity.
Qed.

Lemma split_on_app c x y : nochar c x = true -> split_on c (x ++ c :: y) = x :: split_on c y.
Proof.
  induction x as [|a x IH]; intros H.
  - cbn. rewrite Ascii.eqb_refl. reflexivity.
  - rewrite nochar_cons in H. apply andb_true_iff in H as [Ha Hx].
    cbn. destruct (Ascii.eqb a c); [discriminate|].
    rewrite (IH Hx). reflexivity.
Qed.

Lemma split_on_none c x : nochar c x = true -> split_on c x = [x].
Proof.
  induction x as [|a x IH]; intros H; [reflexivity|].
  rewrite nochar_cons in H. apply andb_true_iff in H as [Ha Hx].
  cbn. destruct (Ascii.eqb a c); [discriminate|]. rewrite (IH Hx). reflexivity.
Qed.

Lemma split_target_query x q : nochar "?" x = true -> split_target (x ++ "?"%char :: q) = (x, q).
Proof. intros H. unfold split_target. rewrite (cut_at_app _ _ _ H). reflexivity. Qed.

Lemma split_target_noquery x : nochar "?" x = true -> split_target x = (x, []).
Proof. intros H. unfold split_target. rewrite (cut_at_none _ _ H). reflexivity. Qed.

(* ---------- clean text: nothing a query parser reacts to ---------- *)

Definition clean_char (a : ascii) : bool :=
  negb (Ascii.eqb a "&") && negb (Ascii.eqb a "=") && negb (Ascii.eqb a "%") &&
  negb (Ascii.eqb a "+") && negb (Ascii.eqb a "?").
Definition clean (s : str) : bool := forallb clean_char s.

Lemma clean_app a b : clean (a ++ b) = clean a && clean b.
Proof. apply forallb_app. Qed.

Lemma clean_nochar c s :
  (forall a, clean_char a = true -> Ascii.eqb a c = false) -> clean s = true -> nochar c s = true.
Proof.
  intros Hc. induction s as [|a s IH]; intros H; [reflexivity|].
  cbn in H. apply andb_true_iff in H as [Ha Hs].
  rewrite nochar_cons, (Hc a Ha), (IH Hs). reflexivity.
Qed.

Lemma clean_char_not c a :
  clean_char c = false -> clean_char a = true -> Ascii.eqb a c = false.
Proof.
  intros Hc Ha. destruct (Ascii.eqb a c) eqn:E; [|reflexivity].
  apply Ascii.eqb_eq in E. subst a. congruence.
Qed.

Lemma clean_no_amp s : clean s = true -> nochar "&" s = true.
Proof. apply clean_nochar. intros a. apply clean_char_not. reflexivity. Qed.
Lemma clean_no_eq s : clean s = true -> nochar "=" s = true.
Proof. apply clean_nochar. intros a. apply clean_char_not. reflexivity. Qed.
Lemma clean_no_q s : clean s = true -> nochar "?" s = true.
Proof. apply clean_nochar. intros a. apply clean_char_not. reflexivity. Qed.

Lemma clean_unescape s : clean s = true -> query_unescape s = Some s.
Proof.
  induction s as [|a s IH]; intros H; [reflexivity|].
  cbn in H. apply andb_true_iff in H as [Ha Hs].
  cbn [query_unescape].
  rewrite (clean_char_not "+" a eq_refl Ha), (clean_char_not "%" a eq_refl Ha), (IH Hs).
  reflexivity.
Qed.

(* ---------- what the decimal printers emit ---------- *)

Lemma digit_cases d : 0 <= d <= 9 ->
  d = 0 \/ d = 1 \/ d = 2 \/ d = 3 \/ d = 4 \/ d = 5 \/ d = 6 \/ d = 7 \/ d = 8 \/ d = 9.
Proof. lia. Qed.

Definition on_digits (P : ascii -> bool) : Prop := forall d, 0 <= d <= 9 -> P (digit d) = true.

Ltac digits_tac :=
  let d := fresh "d" in let H := fresh "H" in
  intros d H; destruct (digit_cases d H) as [?|[?|[?|[?|[?|[?|[?|[?|[?|?]]]]]]]]]; subst d; reflexivity.

Lemma clean_on_digits : on_digits clean_char. Proof. digits_tac. Qed.
Lemma is_digit_on_digits : on_digits is_digit. Proof. digits_tac. Qed.
Lemma nocomma_on_digits : on_digits (fun a => negb (Ascii.eqb a ",")). Proof. digits_tac. Qed.
Lemma nodot_on_digits : on_digits (fun a => negb (Ascii.eqb a ".")). Proof. digits_tac. Qed.
Lemma nodash_on_digits : on_digits (fun a => negb (Ascii.eqb a "-")). Proof. digits_tac. Qed.

Lemma udigits_all P fuel n : on_digits P -> 0 <= n -> forallb P (udigits fuel n) = true.
Proof.
  intros HP. revert n. induction fuel as [|f IH]; intros n Hn; [reflexivity|].
  cbn [udigits]. destruct (Z.ltb_spec n 10) as [Hlt|Hge].
  - cbn. rewrite HP by lia. reflexivity.
  - rewrite forallb_app. rewrite IH by lia. cbn. rewrite HP by lia. reflexivity.
Qed.

Lemma udec_all P n : on_digits P -> 0 <= n -> forallb P (udec n) = true.
Proof. intros HP Hn. apply udigits_all; assumption. Qed.

Lemma udec_nonempty n : udec n <> [].
Proof.
  unfold udec. cbn [udigits]. destruct (n <? 10); [discriminate|].
  intros H. apply app_eq_nil in H as [_ H]. discriminate.
Qed.

Lemma dec_all P z : on_digits P -> P "-"%char = true -> forallb P (dec z) = true.
Proof.
  intros HP Hm. unfold dec. destruct (Z.ltb_spec z 0).
  - cbn. rewrite Hm. apply udec_all; [exact HP|lia].
  - apply udec_all; [exact HP|lia].
Qed.

Lemma dec_nonempty z : dec z <> [].
Proof. unfold dec. destruct (z <? 0); [discriminate|apply udec_nonempty]. Qed.

Lemma fixed_digits_all P k n : on_digits P -> forallb P (fixed_digits k n) = true.
Proof.
  intros HP. revert n. induction k as [|k IH]; intros n; [reflexivity|].
  cbn [fixed_digits]. rewrite forallb_app, IH. cbn. rewrite HP by lia. reflexivity.
Qed.

Lemma fixed_digits_length k n : List.length (fixed_digits k n) = k.
Proof.
  revert n. induction k as [|k IH]; intros n; [reflexivity|].
  cbn [fixed_digits]. rewrite app_length, IH. cbn. lia.
Qed.

Lemma repeat_all (P : ascii -> bool) a k : P a = true -> forallb P (repeat a k) = true.
Proof. intros H. induction k as [|k IH]; [reflexivity|]. cbn. rewrite H, IH. reflexivity. Qed.

Lemma zpad_all P w n : on_digits P -> P "-"%char = true -> forallb P (zpad w n) = true.
Proof.
  intros HP Hm. unfold zpad. rewrite !forallb_app.
  rewrite repeat_all by (exact (HP 0 ltac:(lia))).
  rewrite udec_all by (exact HP || lia).
  destruct (n <? 0); cbn; rewrite ?Hm; reflexivity.
Qed.

Lemma clean_dec z : clean (dec z) = true.
Proof. apply dec_all; [exact clean_on_digits|reflexivity]. Qed.

Lemma clean_zpad w n : clean (zpad w n) = true.
Proof. apply zpad_all; [exact clean_on_digits|reflexivity]. Qed.

Lemma clean_join sep l :
  clean sep = true -> forallb clean l = true -> clean (join sep l) = true.
Proof.
  intros Hs. induction l as [|a l IH]; intros H; [reflexivity|].
  cbn in H. apply andb_true_iff in H as [Ha Hl].
  destruct l as [|b l]; [exact Ha|].
  change (join sep (a :: b :: l)) with (a ++ sep ++ join sep (b :: l)).
  rewrite !clean_app, Ha, Hs, (IH Hl). reflexivity.
Qed.

Lemma clean_ids ids : clean (join (lit ",") (map dec ids)) = true.
Proof.
  apply clean_join; [reflexivity|].
  induction ids as [|a l IH]; [reflexivity|]. cbn. rewrite clean_dec. exact IH.
Qed.

Lemma join_nil_inv sep l : (forall a, In a l -> a <> []) -> join sep l = [] -> l = [].
Proof.
  intros Hne H. destruct l as [|a l]; [reflexivity|]. exfalso.
  assert (Ha : a <> []) by (apply Hne; left; reflexivity).
  destruct l as [|b l]; cbn in H.
  - exact (Ha H).
  - apply app_eq_nil in H as [H _]. exact (Ha H).
Qed.

(* ---------- QueryEscape ---------- *)

Ltac all_ascii a := destruct a as [[] [] [] [] [] [] [] []].

Lemma escape_step a r :
  query_unescape (query_escape (a :: r)) = option_map (cons a) (query_unescape (query_escape r)).
Proof.
  all_ascii a; cbn [query_escape]; vm_compute Ascii.eqb; vm_compute unreserved; cbv iota;
    cbn [query_unescape]; vm_compute Ascii.eqb; cbv iota;
    try reflexivity;
    (vm_compute unhex; destruct (query_unescape (query_escape r)); reflexivity).
Qed.

Lemma escape_roundtrip s : query_unescape (query_escape s) = Some s.
Proof.
  induction s as [|a s IH]; [reflexivity|].
  rewrite escape_step, IH. reflexivity.
Qed.

(* the escaped text contains none of the separators *)
Definition sep_free_char (a : ascii) : bool :=
  negb (Ascii.eqb a "&") && negb (Ascii.eqb a "=") && negb (Ascii.eqb a "?").

Lemma escape_sep_free s : forallb sep_free_char (query_escape s) = true.
Proof.
  induction s as [|a s IH]; [reflexivity|].
  all_ascii a; cbn [query_escape]; vm_compute Ascii.eqb; vm_compute unreserved; cbv iota;
    cbn [forallb]; rewrite IH; reflexivity.
Qed.

Lemma sep_free_nochar c s :
  sep_free_char c = false -> forallb sep_free_char s = true -> nochar c s = true.
Proof.
  intros Hc. induction s as [|a s IH]; intros H; [reflexivity|].
  cbn in H. apply andb_true_iff in H as [Ha Hs].
  rewrite nochar_cons, (IH Hs), andb_true_r.
  destruct (Ascii.eqb a c) eqn:E; [|reflexivity].
  apply Ascii.eqb_eq in E. subst a. congruence.
Qed.

(* ---------- decoding a query made of well-formed pieces ---------- *)

Lemma decode_query_nil : decode_query [] = Some [].
Proof. reflexivity. Qed.

Lemma decode_query_single p kv :
  nochar "&" p = true -> p <> [] -> decode_pair p = Some kv -> decode_query p = Some [kv].
Proof.
  intros Hn Hne Hd. unfold decode_query. rewrite (split_on_none _ _ Hn).
  destruct p as [|a p]; [congruence|]. cbn [decode_pieces]. rewrite Hd. reflexivity.
Qed.

Lemma decode_query_cons p kv rest :
  nochar "&" p = true -> p <> [] -> decode_pair p = Some kv ->
  decode_query (p ++ "&"%char :: rest) = option_map (cons kv) (decode_query rest).
Proof.
  intros Hn Hne Hd. unfold decode_query. rewrite (split_on_app _ _ _ Hn).
  destruct p as [|a p]; [congruence|]. cbn [decode_pieces]. rewrite Hd.
  destruct (decode_pieces (split_on "&" rest)); reflexivity.
Qed.

(* key=value with a clean key: decoded key is the key, decoded value is the decoded rest *)
Lemma decode_pair_kv k v v' :
  clean k = true -> query_unescape v = Some v' -> decode_pair (k ++ "="%char :: v) = Some (k, v').
Proof.
  intros Hk Hv. unfold decode_pair. rewrite (cut_at_app _ _ _ (clean_no_eq _ Hk)).
  rewrite (clean_unescape _ Hk), Hv. reflexivity.
Qed.
