(* Pbf/ProofsArena.v — "every object the scanner has returned is never modified afterwards, even
   though the memory of rejected elements is reused for later ones", in the explicit heap semantics
   of Pbf/Arena.v: the slots reachable from objects already appended to dec.q are disjoint from the
   working slot, every write goes to the working slot or to a fresh slot, hence the value of every
   returned object is unchanged by all later steps; and the heap run refines the pure model. *)
From Coq Require Import ZArith List Bool Arith Lia.
From Verif Require Import Base.Int64 Pbf.Tree Pbf.Model Pbf.Arena.
Import ListNotations.
Open Scope Z_scope.
Open Scope res_scope.

(* ---------- lists ---------- *)
Lemma set_at_length {A} (l : list A) : forall i a, length (set_at l i a) = length l.
Proof. induction l as [|x l IH]; intros [|i] a; simpl; auto. Qed.

Lemma nth_set_at_eq {A} (l : list A) : forall i a d, (i < length l)%nat -> nth i (set_at l i a) d = a.
Proof. induction l as [|x l IH]; intros [|i] a d H; simpl in *; try lia; auto. apply IH. lia. Qed.

Lemma nth_set_at_ne {A} (l : list A) : forall i j a d, i <> j -> nth j (set_at l i a) d = nth j l d.
Proof.
  induction l as [|x l IH]; intros [|i] [|j] a d H; simpl; auto; try congruence.
Qed.

Lemma firstn_set_at {A} (l : list A) : forall n a, firstn n (set_at l n a) = firstn n l.
Proof. induction l as [|x l IH]; intros [|n] a; simpl; auto. f_equal. apply IH. Qed.

Lemma firstn_S_set_at {A} (l : list A) : forall n a, (n < length l)%nat ->
  firstn (S n) (set_at l n a) = firstn n l ++ [a].
Proof.
  induction l as [|x l IH]; intros [|n] a H; simpl in *; try lia; auto.
  f_equal. apply IH. lia.
Qed.

(* ---------- validity and framing ---------- *)
Definition valid_sl (ar : arena) (s : slice) : Prop :=
  (sl_slot s < length ar)%nat /\ (sl_len s <= sl_cap s)%nat /\ length (nth (sl_slot s) ar []) = sl_cap s.
Definition ovalid (ar : arena) (s : option slice) : Prop :=
  match s with Some s => valid_sl ar s | None => True end.
Definition oslot (s : option slice) : option nat := match s with Some s => Some (sl_slot s) | None => None end.

(* only slot w (if any) and fresh slots may differ *)
Definition frame (w : option nat) (ar ar' : arena) : Prop :=
  (length ar <= length ar')%nat /\ forall i, (i < length ar)%nat -> Some i <> w -> nth i ar' [] = nth i ar [].

Lemma frame_refl w ar : frame w ar ar.
Proof. split; auto. Qed.

(* the working slot stays or moves to a fresh slot *)
Definition moved (ar : arena) (w w' : option nat) : Prop :=
  w' = w \/ exists j, w' = Some j /\ (length ar <= j)%nat.

Lemma frame_trans w w1 ar ar1 ar2 :
  frame w ar ar1 -> moved ar w w1 -> frame w1 ar1 ar2 -> frame w ar ar2.
Proof.
  intros [L1 F1] M [L2 F2]. split; [lia|]. intros i Hi Hw.
  rewrite F2; [apply F1; assumption|lia|].
  destruct M as [->|(j & -> & Hj)]; [exact Hw|]. intros E. injection E as E. lia.
Qed.

Lemma moved_trans ar ar1 w w1 w2 :
  (length ar <= length ar1)%nat -> moved ar w w1 -> moved ar1 w1 w2 -> moved ar w w2.
Proof.
  intros L [->|(j & -> & Hj)] [->|(k & -> & Hk)]; unfold moved; auto.
  - right. exists k. split; [reflexivity|lia].
  - right. exists j. auto.
  - right. exists k. split; [reflexivity|lia].
Qed.

Lemma frame_valid w ar ar' s :
  frame w ar ar' -> valid_sl ar s -> Some (sl_slot s) <> w ->
  valid_sl ar' s /\ deref ar' (Some s) = deref ar (Some s).
Proof.
  intros [L F] (H1 & H2 & H3) Hw. unfold valid_sl, deref. rewrite (F _ H1 Hw).
  split; [split; [lia|split; [exact H2|exact H3]]|reflexivity].
Qed.

(* ---------- make, append ---------- *)
Lemma nth_app_new {A} (l : list A) x d : nth (length l) (l ++ [x]) d = x.
Proof. rewrite app_nth2 by lia. rewrite Nat.sub_diag. reflexivity. Qed.

Lemma amake_spec ar c w : let (ar', s) := amake ar c in
  valid_sl ar' s /\ deref ar' (Some s) = [] /\ frame w ar ar' /\ sl_slot s = length ar /\ sl_len s = O.
Proof.
  unfold amake. simpl. repeat split; simpl.
  - unfold valid_sl. simpl. rewrite app_length. simpl. lia.
  - lia.
  - simpl. rewrite nth_app_new. apply repeat_length.
  - rewrite app_length. simpl. lia.
  - intros i Hi _. rewrite app_nth1 by lia. reflexivity.
Qed.

Lemma pad_length l n : (length l <= n)%nat -> length (pad l n) = n.
Proof. intros H. unfold pad. rewrite app_length, repeat_length. lia. Qed.

Lemma firstn_pad l n : firstn (length l) (pad l n) = l.
Proof. unfold pad. rewrite firstn_app, Nat.sub_diag, firstn_all. simpl. apply app_nil_r. Qed.

Lemma aappend_spec ar s t : ovalid ar s ->
  let (ar', s') := aappend ar s t in
  valid_sl ar' s' /\ deref ar' (Some s') = deref ar s ++ [t] /\ frame (oslot s) ar ar'
  /\ moved ar (oslot s) (Some (sl_slot s')).
Proof.
  intros Hv. unfold aappend. destruct s as [sl|].
  - destruct Hv as (H1 & H2 & H3).
    destruct (Nat.ltb (sl_len sl) (sl_cap sl)) eqn:E.
    + apply Nat.ltb_lt in E. repeat split.
      * cbn [sl_slot]. rewrite set_at_length. exact H1.
      * cbn [sl_len sl_cap]. lia.
      * cbn [sl_slot sl_cap]. rewrite nth_set_at_eq by exact H1. rewrite set_at_length. exact H3.
      * unfold deref. cbn [sl_slot sl_len]. rewrite nth_set_at_eq by exact H1. apply firstn_S_set_at. lia.
      * rewrite set_at_length. lia.
      * intros i Hi Hw. apply nth_set_at_ne. intros E'. apply Hw. simpl. congruence.
      * left. reflexivity.
    + apply Nat.ltb_ge in E. assert (El : sl_len sl = sl_cap sl) by lia.
      assert (Ld : length (deref ar (Some sl) ++ [t]) = S (sl_len sl)).
      { rewrite app_length. simpl. rewrite firstn_length, H3. lia. }
      repeat split.
      * cbn [sl_slot]. rewrite app_length. simpl. lia.
      * cbn [sl_len sl_cap]. unfold grow. lia.
      * cbn [sl_slot sl_cap]. rewrite nth_app_new. apply pad_length. rewrite Ld. unfold grow. lia.
      * unfold deref at 1. cbn [sl_slot sl_len]. rewrite nth_app_new. rewrite <- Ld. apply firstn_pad.
      * rewrite app_length. simpl. lia.
      * intros i Hi _. rewrite app_nth1 by lia. reflexivity.
      * right. exists (length ar). auto.
  - repeat split.
    + cbn [sl_slot]. rewrite app_length. simpl. lia.
    + cbn [sl_len sl_cap]. unfold grow. lia.
    + cbn [sl_slot sl_cap]. rewrite nth_app_new. reflexivity.
    + unfold deref. cbn [sl_slot sl_len]. rewrite nth_app_new. reflexivity.
    + rewrite app_length. simpl. lia.
    + intros i Hi _. rewrite app_nth1 by lia. reflexivity.
    + right. exists (length ar). auto.
Qed.

(* ---------- the keys_vals loop on the heap refines the pure one ---------- *)
Lemma kv_loop_a_spec st : forall n kv ar s r ar' s',
  (length kv <= n)%nat -> ovalid ar s ->
  kv_loop_a st kv ar s = Ok (r, ar', s') ->
  ovalid ar' s' /\ kv_loop st kv (deref ar s) = Ok (r, deref ar' s')
  /\ frame (oslot s) ar ar' /\ moved ar (oslot s) (oslot s').
Proof.
  induction n as [|n IH]; intros kv ar s r ar' s' Hl Hv H.
  - destruct kv; [discriminate|simpl in Hl; lia].
  - destruct kv as [|k kr]; [discriminate|]. simpl in H |- *.
    destruct (int32 k =? 0).
    + injection H as -> -> ->.
      split; [exact Hv|]. split; [reflexivity|]. split; [apply frame_refl|left; reflexivity].
    + destruct kr as [|v kr']; [discriminate|].
      destruct (idx st (int32 k)) as [ks| |]; simpl in *; try discriminate.
      destruct (idx st (int32 v)) as [vs| |]; simpl in *; try discriminate.
      pose proof (aappend_spec ar s (ks, vs) Hv) as Ha.
      destruct (aappend ar s (ks, vs)) as [ar1 s1]. destruct Ha as (V1 & D1 & F1 & M1).
      assert (Hl' : (length kr' <= n)%nat) by (simpl in Hl; lia).
      destruct (IH kr' ar1 (Some s1) r ar' s' Hl' V1 H) as (V2 & K2 & F2 & M2).
      rewrite D1 in K2.
      split; [exact V2|]. split; [exact K2|].
      split; [exact (frame_trans _ _ _ _ _ F1 M1 F2)|exact (moved_trans _ _ _ _ _ (proj1 F1) M1 M2)].
Qed.

Lemma tags_a_spec st okv ar s kv' ar' s' :
  ovalid ar s -> olen s = O ->
  tags_a st okv ar s = Ok (kv', ar', s') ->
  ovalid ar' s' /\ frame (oslot s) ar ar' /\ moved ar (oslot s) (oslot s')
  /\ match okv with
     | None => deref ar' s' = []
     | Some kv => exists r, kv_loop st kv [] = Ok (r, deref ar' s')
     end.
Proof.
  intros Hv Hl H. unfold tags_a in H.
  assert (D0 : deref ar s = []).
  { destruct s as [sl|]; [|reflexivity]. simpl in *. rewrite Hl. reflexivity. }
  destruct okv as [kv|].
  - destruct (Nat.ltb (ocap s) (Nat.div (kv_count kv) 2)).
    + pose proof (amake_spec ar (Nat.div (kv_count kv) 2) (oslot s)) as Hm.
      destruct (amake ar (Nat.div (kv_count kv) 2)) as [ar1 s1]. destruct Hm as (V1 & D1 & F1 & S1 & L1).
      destruct (kv_loop_a st kv ar1 (Some s1)) as [[[r a2] s2]| |] eqn:E; simpl in H; try discriminate.
      injection H as _ -> ->.
      destruct (kv_loop_a_spec st (length kv) kv ar1 (Some s1) r ar' s' (le_n _) V1 E) as (V2 & K2 & F2 & M2).
      rewrite D1 in K2.
      assert (M1 : moved ar (oslot s) (Some (sl_slot s1))) by (right; exists (length ar); split; [congruence|lia]).
      split; [exact V2|]. split; [exact (frame_trans _ _ _ _ _ F1 M1 F2)|].
      split; [exact (moved_trans _ _ _ _ _ (proj1 F1) M1 M2)|]. eauto.
    + destruct (kv_loop_a st kv ar s) as [[[r a2] s2]| |] eqn:E; simpl in H; try discriminate.
      injection H as _ -> ->.
      destruct (kv_loop_a_spec st (length kv) kv ar s r ar' s' (le_n _) Hv E) as (V2 & K2 & F2 & M2).
      rewrite D0 in K2. split; [exact V2|]. split; [exact F2|]. split; [exact M2|]. eauto.
  - injection H as _ -> ->. split; [exact Hv|]. split; [apply frame_refl|]. split; [left; reflexivity|exact D0].
Qed.

(* what the pure iteration says about the tags of the node it built *)
Lemma extract_pre_tags p v x n' x1 : extract_pre p v x = Ok (n', x1) ->
  match c_keyvals (x_dc x) with
  | None => n_tags n' = n_tags (x_n x)
  | Some kv => exists r, kv_loop (p_st p) kv (n_tags (x_n x)) = Ok (r, n_tags n')
  end.
Proof.
  unfold extract_pre.
  destruct (col_next (c_versions (c_info (x_dc x)))) as [[? ?]| |]; simpl; try discriminate.
  destruct (col_next (c_timestamps (c_info (x_dc x)))) as [[? ?]| |]; simpl; try discriminate.
  destruct (col_next (c_changesets (c_info (x_dc x)))) as [[? ?]| |]; simpl; try discriminate.
  destruct (col_next (c_uids (c_info (x_dc x)))) as [[? ?]| |]; simpl; try discriminate.
  destruct (col_next (c_usids (c_info (x_dc x)))) as [[o5 ?]| |]; simpl; try discriminate.
  match goal with |- context [rbind ?r _] => destruct r as [?| |]; simpl; try discriminate end.
  destruct (col_next (c_visibles (c_info (x_dc x)))) as [[? ?]| |]; simpl; try discriminate.
  destruct (c_lats (x_dc x)) as [lats|]; try discriminate.
  destruct (c_lons (x_dc x)) as [lons|]; try discriminate.
  destruct (it_next lats) as [[? ?]| |]; simpl; try discriminate.
  destruct (it_next lons) as [[? ?]| |]; simpl; try discriminate.
  destruct (c_keyvals (x_dc x)) as [kv|]; simpl.
  - destruct (kv_loop (p_st p) kv (n_tags (x_n x))) as [[r t]| |]; simpl; try discriminate.
    intros H. injection H as <- _. simpl. eauto.
  - intros H. injection H as <- _. reflexivity.
Qed.

(* ---------- the invariant ---------- *)
Definition objok (ar : arena) (w : option slice) (o : aobj) : Prop :=
  match o with
  | ANode n (Some s) => valid_sl ar s /\ Some (sl_slot s) <> oslot w /\ n_tags n = deref ar (Some s)
  | ANode n None => n_tags n = []
  | AVal _ => True
  end.

Definition Inv (a : ast) : Prop :=
  ovalid (a_ar a) (a_sl a) /\ olen (a_sl a) = O /\ n_tags (x_n (a_x a)) = []
  /\ Forall (objok (a_ar a) (a_sl a)) (a_q a).

Lemma objok_frame ar ar' w w' o :
  frame (oslot w) ar ar' -> moved ar (oslot w) (oslot w') -> objok ar w o ->
  objok ar' w' o /\ deref_obj ar' o = deref_obj ar o.
Proof.
  intros F M H. destruct o as [n [s|]|o]; cbn [objok deref_obj] in *; auto.
  destruct H as (V & Hw & T).
  destruct (frame_valid _ _ _ _ F V Hw) as [V' D'].
  split.
  - split; [exact V'|]. split.
    + destruct M as [E|(j & E & Hj)]; rewrite E; [exact Hw|].
      intros E'. injection E' as E'. destruct V as [V _]. lia.
    + rewrite T. symmetry. exact D'.
  - rewrite D'. reflexivity.
Qed.

Lemma deref_obj_ok ar w o : objok ar w o -> deref_obj ar o = match o with ANode n _ => ONode n | AVal v => v end.
Proof.
  destruct o as [n [s|]|o]; simpl; auto.
  - intros (_ & _ & T). rewrite <- T. destruct n; reflexivity.
  - intros T. rewrite <- T. destruct n; reflexivity.
Qed.

Lemma trunc0_props ar s : ovalid ar s -> ovalid ar (trunc0 s) /\ olen (trunc0 s) = O /\ oslot (trunc0 s) = oslot s.
Proof.
  destruct s as [sl|]; simpl; auto. intros (H1 & H2 & H3). unfold valid_sl. simpl. repeat split; auto; lia.
Qed.

Lemma objs_frame ar ar' w w' q :
  frame (oslot w) ar ar' -> moved ar (oslot w) (oslot w') -> Forall (objok ar w) q ->
  Forall (objok ar' w') q /\ view ar' q = view ar q.
Proof.
  intros F M H. unfold view. induction H as [|o l Ho _ IH]; simpl; [split; [constructor|reflexivity]|].
  destruct (objok_frame _ _ _ w' o F M Ho) as [O1 O2]. destruct IH as [I1 I2].
  split; [constructor; assumption|]. rewrite O2, I2. reflexivity.
Qed.

Lemma objok_none ar w o : objok ar w o -> objok ar None o.
Proof.
  destruct o as [n [s|]|o]; simpl; auto. intros (A & _ & C). split; [exact A|]. split; [discriminate|exact C].
Qed.

(* ---------- one iteration ---------- *)
Lemma body_a_spec c p v a a' : Inv a -> extract_body_a c p v a = Ok a' ->
  Inv a'
  /\ extract_body c p v (a_x a) = Ok (a_x a')
  /\ (exists news, a_q a' = a_q a ++ news /\ x_q (a_x a') = x_q (a_x a) ++ view (a_ar a') news)
  /\ view (a_ar a') (a_q a) = view (a_ar a) (a_q a).
Proof.
  intros (Hv & Hl & Hn & Hq) H. unfold extract_body_a in H. unfold extract_body.
  destruct (extract_pre p v (a_x a)) as [[n' x1]| |] eqn:Ep; simpl in H; try discriminate.
  destruct (tags_a (p_st p) (c_keyvals (x_dc (a_x a))) (a_ar a) (a_sl a)) as [[[kv' ar'] sl']| |] eqn:Et;
    simpl in H; try discriminate.
  destruct (tags_a_spec _ _ _ _ _ _ _ Hv Hl Et) as (V' & F & M & T).
  pose proof (extract_pre_tags p v (a_x a) n' x1 Ep) as Tp. rewrite Hn in Tp.
  assert (Etags : n_tags n' = deref ar' sl').
  { destruct (c_keyvals (x_dc (a_x a))) as [kv|].
    - destruct T as (r & T). destruct Tp as (r2 & Tp). rewrite T in Tp. injection Tp as _ Tp. auto.
    - rewrite T, Tp. reflexivity. }
  assert (Hq1 : forall w', moved (a_ar a) (oslot (a_sl a)) (oslot w') ->
             Forall (objok ar' w') (a_q a) /\ view ar' (a_q a) = view (a_ar a) (a_q a)).
  { intros w' M'. exact (objs_frame _ _ _ w' _ F M' Hq). }
  assert (Exq : x_q x1 = x_q (a_x a)).
  { unfold extract_pre in Ep. clear - Ep.
    destruct (col_next (c_versions (c_info (x_dc (a_x a))))) as [[? ?]| |]; simpl in Ep; try discriminate.
    destruct (col_next (c_timestamps (c_info (x_dc (a_x a))))) as [[? ?]| |]; simpl in Ep; try discriminate.
    destruct (col_next (c_changesets (c_info (x_dc (a_x a))))) as [[? ?]| |]; simpl in Ep; try discriminate.
    destruct (col_next (c_uids (c_info (x_dc (a_x a))))) as [[? ?]| |]; simpl in Ep; try discriminate.
    destruct (col_next (c_usids (c_info (x_dc (a_x a))))) as [[o5 ?]| |]; simpl in Ep; try discriminate.
    match type of Ep with context [rbind ?r _] => destruct r as [?| |]; simpl in Ep; try discriminate end.
    destruct (col_next (c_visibles (c_info (x_dc (a_x a))))) as [[? ?]| |]; simpl in Ep; try discriminate.
    destruct (c_lats (x_dc (a_x a))) as [lats|]; try discriminate.
    destruct (c_lons (x_dc (a_x a))) as [lons|]; try discriminate.
    destruct (it_next lats) as [[? ?]| |]; simpl in Ep; try discriminate.
    destruct (it_next lons) as [[? ?]| |]; simpl in Ep; try discriminate.
    destruct (c_keyvals (x_dc (a_x a))) as [kv|]; simpl in Ep.
    - destruct (kv_loop (p_st p) kv (n_tags (x_n (a_x a)))) as [[r t]| |]; simpl in Ep; try discriminate.
      injection Ep as _ <-. reflexivity.
    - injection Ep as _ <-. reflexivity. }
  destruct (f_node c n') eqn:Ef; injection H as <-; cbn [a_x a_ar a_sl a_q rbind].
  - (* accepted: handed over, a fresh node with nil Tags continues *)
    assert (Hold : Forall (objok ar' None) (a_q a) /\ view ar' (a_q a) = view (a_ar a) (a_q a)).
    { destruct (Hq1 sl' M) as [A B]. split; [|exact B].
      apply Forall_forall. intros o Ho. rewrite Forall_forall in A. exact (objok_none _ _ _ (A o Ho)). }
    destruct Hold as [Ho1 Ho2].
    split.
    { unfold Inv. cbn [a_x a_ar a_sl a_q]. split; [exact I|]. split; [reflexivity|].
      split; [unfold extract_post; rewrite Ef; reflexivity|].
      apply Forall_app. split; [exact Ho1|]. constructor; [|constructor].
      destruct sl' as [s|]; cbn [objok]; [|exact Etags].
      split; [exact V'|]. split; [discriminate|exact Etags]. }
    split; [reflexivity|]. split; [|exact Ho2].
    exists [ANode n' sl']. split; [reflexivity|]. unfold extract_post. rewrite Ef. cbn [x_q view map deref_obj].
    rewrite Exq. f_equal. f_equal. f_equal. rewrite <- Etags. destruct n'; reflexivity.
  - (* rejected: the same backing array is reused, truncated *)
    destruct (trunc0_props ar' sl' V') as (Vt & Lt & St).
    assert (Mt : moved (a_ar a) (oslot (a_sl a)) (oslot (trunc0 sl'))) by (rewrite St; exact M).
    destruct (Hq1 (trunc0 sl') Mt) as [Ho1 Ho2].
    split.
    { unfold Inv. cbn [a_x a_ar a_sl a_q]. split; [exact Vt|]. split; [exact Lt|].
      split; [unfold extract_post; rewrite Ef; reflexivity|exact Ho1]. }
    split; [reflexivity|]. split; [|exact Ho2].
    exists []. split; [rewrite app_nil_r; reflexivity|]. unfold extract_post. rewrite Ef. cbn [x_q view map].
    rewrite app_nil_r. exact Exq.
Qed.

(* ---------- the whole loop ---------- *)
Theorem loop_a_spec c p : forall ids a a', Inv a -> extract_loop_a c p ids a = Ok a' ->
  Inv a'
  /\ extract_loop c p ids (a_x a) = Ok (a_x a')
  /\ (exists news, a_q a' = a_q a ++ news /\ x_q (a_x a') = x_q (a_x a) ++ view (a_ar a') news)
  /\ view (a_ar a') (a_q a) = view (a_ar a) (a_q a).
Proof.
  induction ids as [|v r IH]; intros a a' Hi H; simpl in *.
  - injection H as <-. split; [exact Hi|]. split; [reflexivity|].
    split; [|reflexivity]. exists []. simpl. rewrite !app_nil_r. split; reflexivity.
  - destruct (extract_body_a c p v a) as [a1| |] eqn:E; simpl in H; try discriminate.
    destruct (body_a_spec c p v a a1 Hi E) as (I1 & B1 & (n1 & Q1 & X1) & S1).
    destruct (IH a1 a' I1 H) as (I2 & B2 & (n2 & Q2 & X2) & S2).
    assert (S2' : view (a_ar a') (a_q a) = view (a_ar a1) (a_q a) /\ view (a_ar a') n1 = view (a_ar a1) n1).
    { rewrite Q1 in S2. unfold view in *. rewrite !map_app in S2.
      pose proof (f_equal (firstn (length (a_q a))) S2) as Sa.
      pose proof (f_equal (skipn (length (a_q a))) S2) as Sb.
      rewrite !firstn_app, !map_length, Nat.sub_diag in Sa. simpl in Sa. rewrite !app_nil_r in Sa.
      rewrite !firstn_all2 in Sa by (rewrite map_length; lia).
      rewrite !skipn_app, !map_length, Nat.sub_diag in Sb. simpl in Sb.
      rewrite !skipn_all2 in Sb by (rewrite map_length; lia). simpl in Sb.
      split; assumption. }
    destruct S2' as [Sa Sb].
    split; [exact I2|]. split; [rewrite B1; simpl; exact B2|].
    split; [|rewrite Sa; exact S1].
    exists (n1 ++ n2). split; [rewrite Q2, Q1, app_assoc; reflexivity|].
    rewrite X2, X1. unfold view in *. rewrite map_app, <- app_assoc, Sb. reflexivity.
Qed.

(* extractDenseNodes starts with a fresh node (nil Tags): the invariant holds whenever the objects
   already in dec.q are well-formed in the heap *)
Lemma Inv_init dc q ar qa : Forall (objok ar None) qa ->
  Inv (mkA (mkX dc 0 0 0 0 0 0 0 node0 q) ar None qa).
Proof. intros H. unfold Inv. simpl. auto. Qed.

Theorem returned_objects_stable : forall c p ids a a',
  Inv a -> extract_loop_a c p ids a = Ok a' ->
  (exists news, a_q a' = a_q a ++ news) /\ view (a_ar a') (a_q a) = view (a_ar a) (a_q a) /\ Inv a'.
Proof.
  intros c p ids a a' Hi H. destruct (loop_a_spec c p ids a a' Hi H) as (I & _ & (n & Q & _) & S).
  split; [eauto|]. split; assumption.
Qed.

Theorem arena_refines_model : forall c p ids a a',
  Inv a -> extract_loop_a c p ids a = Ok a' -> x_q (a_x a) = view (a_ar a) (a_q a) ->
  extract_loop c p ids (a_x a) = Ok (a_x a') /\ x_q (a_x a') = view (a_ar a') (a_q a').
Proof.
  intros c p ids a a' Hi H Hq. destruct (loop_a_spec c p ids a a' Hi H) as (I & B & (n & Q & X) & S).
  split; [exact B|]. rewrite X, Q, Hq. unfold view. rewrite map_app. f_equal. symmetry. exact S.
Qed.
