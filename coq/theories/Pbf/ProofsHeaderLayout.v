(* Pbf/ProofsHeaderLayout.v — the header decoder does not depend on the layout of the HeaderBlock:
   for EVERY message tree m, decode_header (canon_header m) = decode_header m (unknown fields dropped,
   fields and the bbox sub-message stably sorted).  With header_faithful: any layout of a valid header
   description is reported unchanged. *)
From Coq Require Import ZArith List Bool Lia Permutation.
From Verif Require Import Base.Int64 Base.Wire Pbf.Tree Pbf.Model Pbf.Spec Pbf.Header Pbf.CheckLib
     Pbf.ProofsArith Pbf.ProofsHeader Pbf.ProofsLayoutGen.
Import ListNotations.
Open Scope Z_scope.
Open Scope res_scope.

(* ---------- every selector only looks at the fields with its number ---------- *)
Lemma all_str_filter n : forall m, all_str n (filter (keyis n) m) = all_str n m.
Proof.
  unfold all_str, keyis. induction m as [|f m IH]; simpl; [reflexivity|].
  destruct (fst f =? n) eqn:E; simpl; rewrite IH; destruct (snd f); rewrite ?E; reflexivity.
Qed.

Lemma all_msg_filter n : forall m, all_msg n (filter (keyis n) m) = all_msg n m.
Proof.
  unfold all_msg, keyis. induction m as [|f m IH]; simpl; [reflexivity|].
  destruct (fst f =? n) eqn:E; simpl; rewrite IH; destruct (snd f); rewrite ?E; reflexivity.
Qed.

Lemma lastg_filter {A} (g : Z * wval -> option A) (p : Z * wval -> bool) :
  (forall f, p f = false -> g f = None) -> forall m acc, lastg g (filter p m) acc = lastg g m acc.
Proof.
  intros H. unfold lastg. induction m as [|f m IH]; intros acc; simpl; [reflexivity|].
  destruct (p f) eqn:E; simpl; [apply IH|]. rewrite (H f E). apply IH.
Qed.

Lemma last_var_filter n m : last_var n (filter (keyis n) m) = last_var n m.
Proof.
  rewrite !last_var_lastg. apply lastg_filter. intros f E. unfold keyis in E. unfold gv.
  destruct (snd f); try reflexivity. rewrite E. reflexivity.
Qed.
Lemma last_str_filter n m : last_str n (filter (keyis n) m) = last_str n m.
Proof.
  rewrite !last_str_lastg. apply lastg_filter. intros f E. unfold keyis in E. unfold gs.
  destruct (snd f); try reflexivity. rewrite E. reflexivity.
Qed.

(* ---------- the fields with a known number survive canonicalisation, in order ---------- *)
Lemma filter_key_map phi n : (forall x, fst (phi x) = fst x) ->
  forall l, filter (keyis n) (map phi l) = map phi (filter (keyis n) l).
Proof.
  intros H. unfold keyis. induction l as [|x l IH]; simpl; [reflexivity|]. rewrite H, IH.
  destruct (fst x =? n); reflexivity.
Qed.

Lemma filter_key_known n : known_num n = true -> forall l, filter (keyis n) (drop_unknown l) = filter (keyis n) l.
Proof.
  intros K. unfold drop_unknown, keyis. induction l as [|x l IH]; simpl; [reflexivity|].
  destruct (known_num (fst x)) eqn:E; simpl; rewrite IH; [reflexivity|].
  destruct (Z.eqb_spec (fst x) n) as [E'|_]; [rewrite E' in E; congruence|reflexivity].
Qed.

Lemma filter_canon_leaf n im : known_num n = true -> filter (keyis n) (canon_leaf im) = filter (keyis n) im.
Proof. intros K. unfold canon_leaf. rewrite filter_sort_fields. apply filter_key_known. exact K. Qed.

Lemma filter_canon_header n m : known_num n = true ->
  filter (keyis n) (canon_header m) = map (on_msg canon_leaf) (filter (keyis n) m).
Proof.
  intros K. unfold canon_header. rewrite filter_sort_fields.
  rewrite (filter_key_map (on_msg canon_leaf) n (on_msg_fst canon_leaf)).
  rewrite (filter_key_known n K). reflexivity.
Qed.

(* ---------- selectors through the canonicalisation of children ---------- *)
Lemma all_str_onmsg g n : forall l, all_str n (map (on_msg g) l) = all_str n l.
Proof.
  unfold all_str. induction l as [|x l IH]; simpl; [reflexivity|]. rewrite IH.
  destruct x as [k [y|p|s|im|fx|fx]]; reflexivity.
Qed.
Lemma all_msg_onmsg g n : forall l, all_msg n (map (on_msg g) l) = map g (all_msg n l).
Proof.
  unfold all_msg. induction l as [|x l IH]; simpl; [reflexivity|]. rewrite IH.
  destruct x as [k [y|p|s|im|fx|fx]]; try reflexivity. unfold on_msg. simpl. destruct (k =? n); reflexivity.
Qed.
Lemma last_var_onmsg g n l : last_var n (map (on_msg g) l) = last_var n l.
Proof.
  unfold last_var. generalize (@None Z). induction l as [|x l IH]; intros acc; simpl; [reflexivity|].
  rewrite IH. destruct x as [k [y|p|s|im|fx|fx]]; reflexivity.
Qed.
Lemma last_str_onmsg g n l : last_str n (map (on_msg g) l) = last_str n l.
Proof.
  unfold last_str. generalize (@None bytes). induction l as [|x l IH]; intros acc; simpl; [reflexivity|].
  rewrite IH. destruct x as [k [y|p|s|im|fx|fx]]; reflexivity.
Qed.

Lemma all_str_canon n m : known_num n = true -> all_str n (canon_header m) = all_str n m.
Proof. intros K. rewrite <- (all_str_filter n (canon_header m)), (filter_canon_header n m K), all_str_onmsg. apply all_str_filter. Qed.
Lemma last_var_canon n m : known_num n = true -> last_var n (canon_header m) = last_var n m.
Proof. intros K. rewrite <- (last_var_filter n (canon_header m)), (filter_canon_header n m K), last_var_onmsg. apply last_var_filter. Qed.
Lemma last_str_canon n m : known_num n = true -> last_str n (canon_header m) = last_str n m.
Proof. intros K. rewrite <- (last_str_filter n (canon_header m)), (filter_canon_header n m K), last_str_onmsg. apply last_str_filter. Qed.
Lemma all_msg_canon n m : known_num n = true -> all_msg n (canon_header m) = map canon_leaf (all_msg n m).
Proof. intros K. rewrite <- (all_msg_filter n (canon_header m)), (filter_canon_header n m K), all_msg_onmsg. rewrite all_msg_filter. reflexivity. Qed.

(* the merged bbox sub-messages *)
Lemma filter_concat_canon n : known_num n = true ->
  forall bbs, filter (keyis n) (concat (map canon_leaf bbs)) = filter (keyis n) (concat bbs).
Proof.
  intros K. induction bbs as [|b bbs IH]; [reflexivity|]. cbn [map concat].
  rewrite !filter_app. f_equal; [apply filter_canon_leaf; exact K|exact IH].
Qed.

Lemma last_var_concat_canon n bbs : known_num n = true ->
  last_var n (concat (map canon_leaf bbs)) = last_var n (concat bbs).
Proof.
  intros K. rewrite <- (last_var_filter n (concat (map canon_leaf bbs))), (filter_concat_canon n K bbs).
  apply last_var_filter.
Qed.

Theorem decode_header_canon : forall m, decode_header (canon_header m) = decode_header m.
Proof.
  intros m. unfold decode_header.
  rewrite (all_msg_canon 1 m eq_refl), (all_str_canon 4 m eq_refl), (all_str_canon 5 m eq_refl),
          (last_str_canon 16 m eq_refl), (last_str_canon 17 m eq_refl), (last_str_canon 34 m eq_refl),
          (last_var_canon 32 m eq_refl), (last_var_canon 33 m eq_refl).
  destruct (all_msg 1 m) as [|bb bbs]; [reflexivity|].
  change (map canon_leaf (bb :: bbs)) with (canon_leaf bb :: map canon_leaf bbs).
  cbv iota.
  change (concat (canon_leaf bb :: map canon_leaf bbs)) with (concat (map canon_leaf (bb :: bbs))).
  rewrite !(last_var_concat_canon _ (bb :: bbs)) by reflexivity. reflexivity.
Qed.

(* Header() for every layout of a valid header description *)
Theorem header_layout_irrelevant : forall h m,
  valid_header h = true -> canon_header m = encode_header h -> decode_header m = Ok (header_of h).
Proof.
  intros h m Hv Hc. rewrite <- decode_header_canon, Hc. apply header_faithful. exact Hv.
Qed.
