(* Pbf/ProofsAll.v — the C01/C08 block statements assembled from the proof files. *)
From Coq Require Import ZArith List Bool.
From Verif Require Import Base.Int64 Pbf.Tree Pbf.Model Pbf.Spec Pbf.ProofsIndep Pbf.ProofsFilter Pbf.ProofsDecode Pbf.ProofsDense.
Import ListNotations.
Open Scope Z_scope.

(* every configuration: the scan of an encoded valid block is the kept subsequence of its elements *)
Theorem decode_encode_filtered b :
  valid_block b = true ->
  forall c st, scan_result c st (encode_block b) = Ok (filter (keeps c) (elements b)).
Proof.
  intros Hv c st. apply filter_is_subsequence. apply decode_encode_block; assumption.
Qed.

(* ---------- the domain of the theorems vs the format ---------- *)
(* valid_block = valid with respect to the format, and no plain (non-dense) Node item *)
Lemma forallb_and {A} (f g : A -> bool) l : forallb (fun x => f x && g x) l = forallb f l && forallb g l.
Proof.
  induction l as [|a l IH]; simpl; [reflexivity|]. rewrite IH.
  destruct (f a), (g a), (forallb f l), (forallb g l); reflexivity.
Qed.

Lemma forallb_ext' {A} (f g : A -> bool) l : (forall x, f x = g x) -> forallb f l = forallb g l.
Proof. intros H. induction l as [|a l IH]; simpl; [reflexivity|]. rewrite H, IH. reflexivity. Qed.

Lemma item_ok_split b it : item_ok b it = format_item_ok b it && negb (is_plain it).
Proof. destruct it; simpl; try (rewrite andb_true_r; reflexivity). rewrite andb_false_r. reflexivity. Qed.

Theorem valid_block_is_format_valid_without_plain_nodes b :
  valid_block b = (format_valid_block b && no_plain_nodes b).
Proof.
  unfold valid_block, format_valid_block, no_plain_nodes, params_ok.
  assert (E : forallb (forallb (item_ok b)) (b_groups b)
              = forallb (forallb (format_item_ok b)) (b_groups b)
                && forallb (forallb (fun it => negb (is_plain it))) (b_groups b)).
  { rewrite <- forallb_and. apply forallb_ext'. intros g. rewrite <- forallb_and. apply forallb_ext'.
    intros it. apply item_ok_split. }
  rewrite E. rewrite andb_assoc. reflexivity.
Qed.

(* REFUTED: "scanning any valid block yields exactly the elements it encodes" is false of the
   faithful model (and of the implementation: replayed, see known_findings.d/C01.json class
   plain-node-group): a block that is valid with respect to the format and encodes one node as a
   plain Node message is answered with the error "plain (non-dense) nodes are not supported" under
   every configuration and from every decoder state. *)
Definition plain_witness : block_d :=
  mkBlockD [[]; [107]; [118]] false None None None None
    [[INode (mkPN 7 10 20 true (mkFl true false false false false false) (mkInfoD 2 0 0 0 0 true) [(1, 2)])]].

Theorem plain_nodes_refuted :
  format_valid_block plain_witness = true
  /\ elements plain_witness = [ONode (mkNode 7 1000 2000 (mkInfo 2 None 0 0 [] true) [([107], [118])])]
  /\ forall c st, scan_result c st (encode_block plain_witness) = Err E_PLAIN.
Proof.
  split; [vm_compute; reflexivity|]. split; [vm_compute; reflexivity|].
  intros c st. rewrite (scan_result_state_independent c st dstate0). reflexivity.
Qed.
