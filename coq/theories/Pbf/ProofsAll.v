(* Pbf/ProofsAll.v — the C01/C08 statements assembled from the three proof files. *)
From Coq Require Import ZArith List Bool.
From Verif Require Import Base.Int64 Pbf.Tree Pbf.Model Pbf.Spec Pbf.ProofsIndep Pbf.ProofsFilter Pbf.ProofsDecode.
Import ListNotations.
Open Scope Z_scope.

Theorem decode_encode_filtered_nodense b :
  valid_block b = true -> no_dense b = true ->
  forall c st, scan_result c st (encode_block b) = Ok (filter (keeps c) (elements b)).
Proof.
  intros Hv Hn c st. apply filter_is_subsequence. apply decode_encode_block_nodense; assumption.
Qed.
