(* Pbf/ProofsAll.v — the C01/C08 block statements assembled from the proof files. *)
From Coq Require Import ZArith List Bool.
From Verif Require Import Base.Int64 Pbf.Tree Pbf.Model Pbf.Spec Pbf.ProofsIndep Pbf.ProofsFilter Pbf.ProofsDecode Pbf.ProofsDense.
Import ListNotations.
Open Scope Z_scope.

(* every configuration: the scan of an encoded valid block is the kept subsequence of its elements *)
Theorem decode_encode_filtered b :
  valid_block b = true ->
  forall c st, scan_result c st (encode_block b) = Ok (filter (keeps c) (elements b)).
Proof.
  intros Hv c st. apply filter_is_subsequence. apply decode_encode_block; assumption.
Qed.
