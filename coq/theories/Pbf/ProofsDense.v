(* Pbf/ProofsDense.v — the DenseNodes item lemma: decoding enc_dense d yields node_of b d n for
   every node, for every subset of the DenseInfo columns, with or without keys_vals, whatever
   iterators the decoder held before. *)
From Coq Require Import ZArith List Bool Lia.
From Verif Require Import Base.Int64 Pbf.Tree Pbf.Model Pbf.Spec Pbf.ProofsArith Pbf.ProofsIndep Pbf.ProofsDecode.
Import ListNotations.
Open Scope Z_scope.
Open Scope res_scope.

Definition optc (f : bool) (l : list Z) : iter := if f then Some l else None.

Record prevs := mkPv { v_id : Z; v_lat : Z; v_lon : Z; v_ts : Z; v_cs : Z; v_uid : Z; v_usid : Z }.
Definition pv0 := mkPv 0 0 0 0 0 0 0.

Definition icols_of (fl : flags) (pv : prevs) (inf : list info_d) : icols :=
  mkIC (optc (fl_version fl) (map (fun i => enc_int (id_version i)) inf))
       (optc (fl_ts fl) (deltas64 (v_ts pv) (map id_ts inf)))
       (optc (fl_cs fl) (deltas64 (v_cs pv) (map id_cs inf)))
       (optc (fl_uid fl) (deltas32 (v_uid pv) (map id_uid inf)))
       (optc (fl_usid fl) (deltas32 (v_usid pv) (map id_usid inf)))
       (optc (fl_visible fl) (map (fun i => enc_bool (id_visible i)) inf)).

Definition dcols_of (fl : flags) (kv : bool) (cids : iter) (pv : prevs) (ns : list dnode_d) : dcols :=
  mkDC cids (icols_of fl pv (map dn_info ns))
       (Some (deltas64 (v_lat pv) (map dn_lat ns)))
       (Some (deltas64 (v_lon pv) (map dn_lon ns)))
       (optc kv (flat_map kv_of ns)).

Definition nextpv (fl : flags) (pv : prevs) (n : dnode_d) : prevs :=
  let i := dn_info n in
  mkPv (dn_id n) (dn_lat n) (dn_lon n)
       (if fl_ts fl then id_ts i else v_ts pv) (if fl_cs fl then id_cs i else v_cs pv)
       (if fl_uid fl then id_uid i else v_uid pv) (if fl_usid fl then id_usid i else v_usid pv).

(* the node a row means, in terms of the effective column flags *)
Definition enode (b : block_d) (fl : flags) (kv : bool) (n : dnode_d) : node :=
  let i := dn_info n in
  mkNode (dn_id n) (blatoff b + bgran b * dn_lat n) (blonoff b + bgran b * dn_lon n)
         (mkInfo (if fl_version fl then id_version i else 0)
                 (if fl_ts fl then Some (id_ts i * bdgran b * 1000000) else None)
                 (if fl_cs fl then id_cs i else 0)
                 (if fl_uid fl then id_uid i else 0)
                 (if fl_usid fl then str b (id_usid i) else [])
                 (if fl_visible fl then id_visible i else true))
         (if kv then tags_of b (dn_tags n) else []).

Definition fl0 := mkFl false false false false false false.
Definition efl (d : dense_d) : flags := if de_hasinfo d then de_cols d else fl0.

Lemma node_of_enode b d n : node_of b d n = enode b (efl d) (de_haskv d) n.
Proof. unfold node_of, enode, efl, meta. destruct (de_hasinfo d); reflexivity. Qed.

(* per-row validity in terms of the effective flags *)
Definition row_ok (b : block_d) (fl : flags) (kv : bool) (n : dnode_d) : Prop :=
  let i := dn_info n in
  in_int64 (dn_id n)
  /\ coord_ok (blatoff b) (bgran b) (dn_lat n) = true /\ coord_ok (blonoff b) (bgran b) (dn_lon n) = true
  /\ (fl_version fl = true -> - two31 <= id_version i < two31)
  /\ (fl_ts fl = true -> in_int64 (id_ts i) /\ in64 (id_ts i * bdgran b) = true /\ in64 (id_ts i * bdgran b * 1000000) = true)
  /\ (fl_cs fl = true -> in_int64 (id_cs i))
  /\ (fl_uid fl = true -> - two31 <= id_uid i < two31)
  /\ (fl_usid fl = true -> sid_ok b (id_usid i) = true)
  /\ tags_ok b true (dn_tags n) = true
  /\ (kv = false -> dn_tags n = []).

Lemma row_ok_of b d n : dnode_ok b d n = true -> row_ok b (efl d) (de_haskv d) n.
Proof.
  unfold dnode_ok, row_ok, efl. intros H.
  apply andb_prop in H. destruct H as [H Hkv]. apply andb_prop in H. destruct H as [H Ht].
  apply andb_prop in H. destruct H as [H Hi]. apply andb_prop in H. destruct H as [H Hlo].
  apply andb_prop in H. destruct H as [Hid Hla]. apply in64_spec in Hid.
  split; [exact Hid|]. split; [exact Hla|]. split; [exact Hlo|].
  assert (Hk : de_haskv d = false -> dn_tags n = []).
  { intros E. rewrite E in Hkv. simpl in Hkv. destruct (dn_tags n); [reflexivity|discriminate]. }
  destruct (de_hasinfo d).
  - apply info_ok_spec in Hi. destruct Hi as (H1 & H2 & H3 & H4 & H5 & H6).
    split; [intros _; exact H1|].
    split; [intros E; rewrite E in H6; simpl in H6; apply andb_prop in H6; destruct H6 as [A B];
            split; [exact H2|split; assumption]|].
    split; [intros _; exact H3|]. split; [intros _; exact H4|].
    split; [intros E; rewrite E in H5; exact H5|]. split; [exact Ht|exact Hk].
  - simpl.
    split; [intros E; discriminate|]. split; [intros E; discriminate|]. split; [intros E; discriminate|].
    split; [intros E; discriminate|]. split; [intros E; discriminate|]. split; [exact Ht|exact Hk].
Qed.

(* ---------- keys_vals runs ---------- *)
Lemma int32_0 : int32 0 = 0.
Proof. reflexivity. Qed.

Lemma kv_loop_enc b : forall tags rest acc, tags_ok b true tags = true ->
  kv_loop (b_strings b) (flat_map (fun t : Z * Z => [enc_int (fst t); enc_int (snd t)]) tags ++ 0 :: rest) acc
  = Ok (rest, acc ++ tags_of b tags).
Proof.
  unfold tags_ok, tags_of.
  induction tags as [|[k v] tags IH]; intros rest acc H.
  - cbn [flat_map app kv_loop map]. rewrite int32_0. simpl. rewrite app_nil_r. reflexivity.
  - cbn [forallb fst snd] in H. apply andb_prop in H. destruct H as [Hh Ht].
    apply andb_prop in Hh. destruct Hh as [Hkv Hnz]. apply andb_prop in Hkv. destruct Hkv as [Hk Hv].
    simpl in Hnz. pose proof Hnz as Hk0.
    pose proof (sid_ok_spec b k Hk) as [Hkr Hk']. pose proof (sid_ok_spec b v Hv) as [Hvr Hv'].
    cbn [flat_map app kv_loop map fst snd].
    rewrite (int32_enc k) by (unfold two31 in *; lia). rewrite (int32_enc v) by (unfold two31 in *; lia).
    destruct (k =? 0) eqn:E; [discriminate|].
    rewrite (idx_str b k Hk), (idx_str b v Hv). cbn [rbind].
    rewrite (IH rest (acc ++ [(str b k, str b v)]) Ht). rewrite <- app_assoc. reflexivity.
Qed.

Lemma kv_of_run b n rest : tags_ok b true (dn_tags n) = true ->
  kv_loop (b_strings b) (kv_of n ++ rest) [] = Ok (rest, tags_of b (dn_tags n)).
Proof.
  intros H. unfold kv_of. rewrite <- app_assoc. simpl app at 2.
  exact (kv_loop_enc b (dn_tags n) rest [] H).
Qed.

Lemma ts_exact b t : in64 (t * bdgran b) = true -> in64 (t * bdgran b * 1000000) = true ->
  ts_ns t (dgran (bp b)) = t * bdgran b * 1000000.
Proof. intros. change (dgran (bp b)) with (bdgran b). apply ts_ns_exact; assumption. Qed.

Lemma coord_lat b x : coord_ok (blatoff b) (bgran b) x = true ->
  coord (latoff (bp b)) (gran (bp b)) x = blatoff b + bgran b * x.
Proof. intros H. change (latoff (bp b)) with (blatoff b). change (gran (bp b)) with (bgran b).
  apply (coord_ok_spec _ _ _ H). Qed.
Lemma coord_lon b x : coord_ok (blonoff b) (bgran b) x = true ->
  coord (lonoff (bp b)) (gran (bp b)) x = blonoff b + bgran b * x.
Proof. intros H. change (lonoff (bp b)) with (blonoff b). change (gran (bp b)) with (bgran b).
  apply (coord_ok_spec _ _ _ H). Qed.

Lemma coord_in64 off g x : coord_ok off g x = true -> in_int64 x.
Proof. intros H. apply (coord_ok_spec _ _ _ H). Qed.

(* ---------- one iteration of extractDenseNodes ---------- *)
Local Opaque wrap64 wrap32 sint64 sint32 zig64 int32 int64 enc_int ts_ns coord vbool enc_bool kv_loop idx kv_of
      dgran gran latoff lonoff.

Ltac spec_flags :=
  repeat match goal with
         | H : true = true -> _ |- _ => specialize (H eq_refl)
         | H : false = true -> _ |- _ => clear H
         | H : false = false -> _ |- _ => specialize (H eq_refl)
         | H : true = false -> _ |- _ => clear H
         end.

Lemma extract_step b fl kv cids pv n ns q :
  row_ok b fl kv n ->
  extract_body cfg_all (bp b) (zig64 (wrap64 (dn_id n - v_id pv)))
    (mkX (dcols_of fl kv cids pv (n :: ns)) (v_id pv) (v_lat pv) (v_lon pv) (v_ts pv) (v_cs pv) (v_uid pv) (v_usid pv) node0 q)
  = let pv' := nextpv fl pv n in
    Ok (mkX (dcols_of fl kv cids pv' ns) (v_id pv') (v_lat pv') (v_lon pv') (v_ts pv') (v_cs pv') (v_uid pv') (v_usid pv')
            node0 (q ++ [ONode (enode b fl kv n)])).
Proof.
  intros (Hid & Hla & Hlo & Hver & Hts & Hcs & Huid & Husid & Htags & Hkv).
  pose proof (coord_in64 _ _ _ Hla) as Hla'. pose proof (coord_in64 _ _ _ Hlo) as Hlo'.
  pose proof (coord_lat b _ Hla) as Ela. pose proof (coord_lon b _ Hlo) as Elo.
  pose proof (delta64_roundtrip (v_id pv) (dn_id n) Hid) as Eid.
  pose proof (delta64_roundtrip (v_lat pv) (dn_lat n) Hla') as Elat.
  pose proof (delta64_roundtrip (v_lon pv) (dn_lon n) Hlo') as Elon.
  pose proof (kv_of_run b n (flat_map kv_of ns) Htags) as Ekv.
  destruct n as [id la lo [ver ts cs uid usid vis] tags].
  destruct pv as [pid pla plo pts pcs puid pusid].
  cbn [dn_id dn_lat dn_lon dn_info dn_tags id_version id_ts id_cs id_uid id_usid id_visible
       v_id v_lat v_lon v_ts v_cs v_uid v_usid] in *.
  destruct fl as [f1 f2 f3 f4 f5 f6].
  cbn [fl_version fl_ts fl_cs fl_uid fl_usid fl_visible] in *.
  unfold extract_body, extract_pre, extract_post, dcols_of, icols_of, nextpv, enode, optc.
  destruct f1, f2, f3, f4, f5, f6, kv; spec_flags;
    cbn [map flat_map deltas64 deltas32 app
         dn_id dn_lat dn_lon dn_info dn_tags id_version id_ts id_cs id_uid id_usid id_visible
         fl_version fl_ts fl_cs fl_uid fl_usid fl_visible
         v_id v_lat v_lon v_ts v_cs v_uid v_usid
         x_dc x_n x_q a_id a_lat a_lon a_ts a_cs a_uid a_usid
         c_ids c_info c_lats c_lons c_keyvals c_versions c_timestamps c_changesets c_uids c_usids c_visibles
         n_info n_tags n_id n_lat n_lon i_version i_ts i_cs i_uid i_user i_visible node0 info0
         col_next it_next rbind f_node cfg_all];
    rewrite ?Eid, ?Elat, ?Elon;
    try (rewrite (int32_enc ver Hver));
    try (destruct Hts as (Hts1 & Hts2 & Hts3); rewrite (delta64_roundtrip pts ts Hts1), (ts_exact b ts Hts2 Hts3));
    try (rewrite (delta64_roundtrip pcs cs Hcs));
    try (rewrite (delta32_roundtrip puid uid Huid));
    try (rewrite (delta32_roundtrip pusid usid) by (apply sid_ok_spec in Husid; unfold two31 in *; lia);
         change (p_st (bp b)) with (b_strings b); rewrite (idx_str b usid Husid));
    cbn [rbind];
    try (change (p_st (bp b)) with (b_strings b); rewrite Ekv);
    cbn [rbind];
    rewrite ?Ela, ?Elo, ?vbool_enc;
    try (rewrite Hkv);
    reflexivity.
Qed.

Lemma extract_loop_enc b fl kv cids : forall ns pv q,
  Forall (row_ok b fl kv) ns ->
  exists x', extract_loop cfg_all (bp b) (deltas64 (v_id pv) (map dn_id ns))
               (mkX (dcols_of fl kv cids pv ns) (v_id pv) (v_lat pv) (v_lon pv) (v_ts pv) (v_cs pv) (v_uid pv) (v_usid pv) node0 q)
             = Ok x' /\ x_q x' = q ++ map (fun n => ONode (enode b fl kv n)) ns.
Proof.
  induction ns as [|n ns IH]; intros pv q H.
  - eexists. split; [reflexivity|]. simpl. rewrite app_nil_r. reflexivity.
  - inversion H as [|? ? Hn Hns]; subst.
    cbn [map deltas64 extract_loop].
    rewrite (extract_step b fl kv cids pv n ns q Hn). cbn [rbind].
    set (pv' := nextpv fl pv n).
    assert (Eid : dn_id n = v_id pv') by reflexivity. rewrite Eid.
    destruct (IH pv' (q ++ [ONode (enode b fl kv n)]) Hns) as (x' & E1 & E2).
    exists x'. split; [exact E1|]. rewrite E2. rewrite <- app_assoc. reflexivity.
Qed.

Local Transparent wrap64 wrap32 sint64 sint32 zig64 int32 int64 enc_int ts_ns coord vbool enc_bool kv_loop idx kv_of
      dgran gran latoff lonoff.

(* ---------- the field loops ---------- *)
Definition enc_dinfo (fl : flags) (inf : list info_d) : msg :=
  opt (fl_version fl) (1, WPacked (map (fun i => enc_int (id_version i)) inf)) ++
  opt (fl_ts fl) (2, WPacked (deltas64 0 (map id_ts inf))) ++
  opt (fl_cs fl) (3, WPacked (deltas64 0 (map id_cs inf))) ++
  opt (fl_uid fl) (4, WPacked (deltas32 0 (map id_uid inf))) ++
  opt (fl_usid fl) (5, WPacked (deltas32 0 (map id_usid inf))) ++
  opt (fl_visible fl) (6, WPacked (map (fun i => enc_bool (id_visible i)) inf)).

Lemma enc_dense_eq d : dense_omitted d = false ->
  enc_dense d =
  ((1, WPacked (deltas64 0 (map dn_id (de_nodes d)))) ::
   opt (de_hasinfo d) (5, WMsg (enc_dinfo (de_cols d) (map dn_info (de_nodes d)))) ++
   (8, WPacked (deltas64 0 (map dn_lat (de_nodes d)))) :: (9, WPacked (deltas64 0 (map dn_lon (de_nodes d)))) ::
   opt (de_haskv d) (10, WPacked (flat_map kv_of (de_nodes d)))).
Proof. intros H. unfold enc_dense. rewrite H. reflexivity. Qed.

Lemma enc_dense_omitted d : dense_omitted d = true -> de_nodes d = [] /\ enc_dense d = [].
Proof.
  intros H. unfold enc_dense. rewrite H. unfold dense_omitted in H.
  apply andb_prop in H. destruct H as [H Hk]. apply andb_prop in H. destruct H as [H Hi].
  apply andb_prop in H. destruct H as [_ H].
  destruct (de_nodes d); [|discriminate]. destruct (de_hasinfo d), (de_haskv d); try discriminate.
  split; reflexivity.
Qed.

Lemma dinfo_enc fl inf ic :
  exists ic' fi, dinfo_loop (enc_dinfo fl inf) (ic, if0) = Ok (ic', fi) /\ nil_info fi ic' = icols_of fl pv0 inf.
Proof.
  unfold enc_dinfo. destruct fl as [f1 f2 f3 f4 f5 f6]. destruct ic as [c1 c2 c3 c4 c5 c6].
  destruct f1, f2, f3, f4, f5, f6; simpl; eexists; eexists; (split; [reflexivity|reflexivity]).
Qed.

Lemma dense_loop_enc hasinfo fl haskv ns dc :
  exists s, dense_loop
      ((1, WPacked (deltas64 0 (map dn_id ns))) ::
       opt hasinfo (5, WMsg (enc_dinfo fl (map dn_info ns))) ++
       (8, WPacked (deltas64 0 (map dn_lat ns))) :: (9, WPacked (deltas64 0 (map dn_lon ns))) ::
       opt haskv (10, WPacked (flat_map kv_of ns))) (dc, df0) = Ok s
    /\ dense_empty (snd s) = false
    /\ dense_fixup s = Ok (dcols_of (if hasinfo then fl else fl0) haskv (Some (deltas64 0 (map dn_id ns))) pv0 ns).
Proof.
  destruct dc as [c1 ic c3 c4 c5].
  destruct (dinfo_enc fl (map dn_info ns) ic) as (ic' & fi & E1 & E2).
  destruct hasinfo, haskv; simpl; try (unfold dense_step; simpl; rewrite E1; simpl);
    eexists; (split; [reflexivity|]); (split; [reflexivity|]);
    unfold dense_fixup, dcols_of, keep, optc; simpl; try rewrite E2; reflexivity.
Qed.

Lemma extract_dense_enc b fl kv ns q : Forall (row_ok b fl kv) ns ->
  exists dc', extract_dense cfg_all (bp b) (dcols_of fl kv (Some (deltas64 0 (map dn_id ns))) pv0 ns) q
              = Ok (dc', q ++ map (fun n => ONode (enode b fl kv n)) ns).
Proof.
  intros H. unfold extract_dense.
  replace (c_ids (dcols_of fl kv (Some (deltas64 0 (map dn_id ns))) pv0 ns))
    with (Some (deltas64 0 (map dn_id ns))) by reflexivity.
  destruct (extract_loop_enc b fl kv (Some (deltas64 0 (map dn_id ns))) ns pv0 q H) as (x' & E3 & E4).
  change (extract_loop cfg_all (bp b) (deltas64 0 (map dn_id ns))
            (mkX (dcols_of fl kv (Some (deltas64 0 (map dn_id ns))) pv0 ns) 0 0 0 0 0 0 0 node0 q) = Ok x') in E3.
  rewrite E3. cbn [rbind]. rewrite E4. eexists. reflexivity.
Qed.

Lemma scan_dense_enc b d dc q :
  forallb (dnode_ok b d) (de_nodes d) = true ->
  exists dc', scan_dense cfg_all (bp b) dc (enc_dense d) q
              = Ok (dc', q ++ map (fun n => ONode (node_of b d n)) (de_nodes d)).
Proof.
  intros Hv.
  assert (Hrows : Forall (row_ok b (efl d) (de_haskv d)) (de_nodes d)).
  { apply Forall_forall. intros n Hn. rewrite forallb_forall in Hv. apply row_ok_of. apply Hv. exact Hn. }
  unfold scan_dense. destruct (dense_omitted d) eqn:Hom.
  { (* the empty DenseNodes message: the early return *)
    destruct (enc_dense_omitted d Hom) as [Hn He]. rewrite He, Hn.
    exists dc. simpl. rewrite app_nil_r. reflexivity. }
  rewrite (enc_dense_eq d Hom).
  destruct (dense_loop_enc (de_hasinfo d) (de_cols d) (de_haskv d) (de_nodes d) dc) as (s & E1 & E0 & E2).
  rewrite E1. cbn [rbind]. rewrite E0. rewrite E2. cbn [rbind].
  destruct (extract_dense_enc b (efl d) (de_haskv d) (de_nodes d) q Hrows) as (dc' & E3).
  unfold efl in E3. rewrite E3. exists dc'. f_equal. f_equal. f_equal. apply map_ext. intros n.
  rewrite (node_of_enode b d n). reflexivity.
Qed.

Lemma dense_decodes b d : forallb (dnode_ok b d) (de_nodes d) = true -> item_decodes b (IDense d).
Proof.
  intros H d0 q Hp. destruct d0 as [p dc wc]. simpl in Hp. subst p.
  destruct (scan_dense_enc b d dc q H) as (dc' & E).
  exists (mkD (bp b) dc' wc). unfold group_step.
  cbn [enc_item fst snd Z.eqb Pos.eqb andb negb skip_nodes cfg_all as_msg rbind g_d d_p d_dc d_wc g_q g_way g_rel].
  rewrite E. cbn [rbind]. simpl. auto.
Qed.

(* ---------- the full block theorem ---------- *)
Lemma all_items_decode b : valid_block b = true -> Forall (Forall (item_decodes b)) (b_groups b).
Proof.
  unfold valid_block. intros Hv.
  apply andb_prop in Hv. destruct Hv as [_ Hv].
  apply Forall_forall. intros g Hg. apply Forall_forall. intros it Hit.
  rewrite forallb_forall in Hv. specialize (Hv g Hg).
  rewrite forallb_forall in Hv. specialize (Hv it Hit).
  destruct it as [d|w|r|id|pn]; simpl in *; [| | | |discriminate].
  - apply dense_decodes. exact Hv.
  - apply way_decodes. exact Hv.
  - apply rel_decodes. exact Hv.
  - apply changeset_decodes.
Qed.

Theorem decode_encode_block b : valid_block b = true ->
  forall st, scan_result cfg_all st (encode_block b) = Ok (elements b).
Proof. intros Hv. apply decode_encode_from_items; [exact Hv|apply all_items_decode; exact Hv]. Qed.
