(* Pbf/Model.v — executable model of /repo/osmpbf/decode_data.go at message-tree level (layer L1)
   and of decodeOSMHeader (decode.go:374-419).  Definitions only; loop by loop after the Go code.

   dstate is the Go dataDecoder: the cached protoscan iterators and the primitiveBlock, threaded
   from block to block exactly as a worker goroutine reuses its decoder.  Int64/int32 arithmetic
   wraps explicitly.  Coordinates are integer nanodegrees (the float64 multiplication by 1e-9 is
   applied outside the model, see C01); timestamps are nanoseconds since the epoch, None = Go's
   zero time.Time. *)
From Coq Require Import ZArith List Bool.
From Verif Require Import Base.Int64 Pbf.Tree.
Import ListNotations.
Open Scope Z_scope.
Open Scope res_scope.

(* ---------- objects ---------- *)
Definition tag := (bytes * bytes)%type.

Record info := mkInfo {
  i_version : Z; i_ts : option Z; i_cs : Z; i_uid : Z; i_user : bytes; i_visible : bool }.
Definition info0 : info := mkInfo 0 None 0 0 [] true.   (* osm.X{Visible: true} *)

Record node := mkNode { n_id : Z; n_lat : Z; n_lon : Z; n_info : info; n_tags : list tag }.
Definition node0 : node := mkNode 0 0 0 info0 [].

Record wnode := mkWN { wn_id : Z; wn_lat : Z; wn_lon : Z }.
Definition wnode0 := mkWN 0 0 0.
Record way := mkWay { w_id : Z; w_info : info; w_tags : list tag; w_nodes : list wnode }.
Definition way0 : way := mkWay 0 info0 [] [].

(* member type: 0 node, 1 way, 2 relation, -1 = "" (never assigned) *)
Record member := mkMem { m_type : Z; m_ref : Z; m_role : bytes }.
Definition member0 := mkMem (-1) 0 [].
Record relation := mkRel { r_id : Z; r_info : info; r_tags : list tag; r_members : list member }.
Definition rel0 : relation := mkRel 0 info0 [] [].

Inductive obj := ONode (n : node) | OWay (w : way) | ORel (r : relation).

(* Scanner knobs: Skip* flags and Filter* functions (nil filter = accept everything) *)
Record cfg := mkCfg {
  skip_nodes : bool; skip_ways : bool; skip_rels : bool;
  f_node : node -> bool; f_way : way -> bool; f_rel : relation -> bool }.
Definition cfg_all : cfg := mkCfg false false false (fun _ => true) (fun _ => true) (fun _ => true).

(* ---------- decoder state ---------- *)
Record bparams := mkP {
  p_st : list bytes; p_gran : option Z; p_dgran : option Z; p_latoff : option Z; p_lonoff : option Z }.
Definition p0 : bparams := mkP [] None None None None.
Definition gran (p : bparams) : Z := match p_gran p with Some g => g | None => 100 end.
Definition dgran (p : bparams) : Z := match p_dgran p with Some g => g | None => 1000 end.
Definition latoff (p : bparams) : Z := match p_latoff p with Some g => g | None => 0 end.
Definition lonoff (p : bparams) : Z := match p_lonoff p with Some g => g | None => 0 end.

Record icols := mkIC {
  c_versions : iter; c_timestamps : iter; c_changesets : iter; c_uids : iter; c_usids : iter; c_visibles : iter }.
Record dcols := mkDC { c_ids : iter; c_info : icols; c_lats : iter; c_lons : iter; c_keyvals : iter }.
Record wcols := mkWC {
  c_keys : iter; c_vals : iter; c_nodes : iter; c_wlats : iter; c_wlons : iter;
  c_roles : iter; c_memids : iter; c_types : iter }.
Record dstate := mkD { d_p : bparams; d_dc : dcols; d_wc : wcols }.
Definition ic0 := mkIC None None None None None None.
Definition dc0 := mkDC None ic0 None None None.
Definition wc0 := mkWC None None None None None None None None.
Definition dstate0 := mkD p0 dc0 wc0.

(* ---------- arithmetic of the decoder ---------- *)
(* time.Duration(t*dateGranularity) * time.Millisecond, in nanoseconds *)
Definition ts_ns (t dg : Z) : Z := wrap64 (wrap64 (t * dg) * 1000000).
(* offset + granularity*raw, int64 *)
Definition coord (off g raw : Z) : Z := wrap64 (off + wrap64 (g * raw)).

(* ---------- scanPrimitiveBlock, first pass ---------- *)
Definition strings_of (d : msg) : list bytes :=
  flat_map (fun f : Z * wval => match snd f with WStr s => if fst f =? 1 then [s] else [] | _ => [] end) d.

Definition pass1_step (p : bparams) (f : Z * wval) : result bparams :=
  let n := fst f in let v := snd f in
  if n =? 1 then d <- as_msg v ;;; Ok (mkP (strings_of d) (p_gran p) (p_dgran p) (p_latoff p) (p_lonoff p))
  else if n =? 17 then x <- as_var v ;;; Ok (mkP (p_st p) (Some (int32 x)) (p_dgran p) (p_latoff p) (p_lonoff p))
  else if n =? 18 then x <- as_var v ;;; Ok (mkP (p_st p) (p_gran p) (Some (int32 x)) (p_latoff p) (p_lonoff p))
  else if n =? 19 then x <- as_var v ;;; Ok (mkP (p_st p) (p_gran p) (p_dgran p) (Some (int64 x)) (p_lonoff p))
  else if n =? 20 then x <- as_var v ;;; Ok (mkP (p_st p) (p_gran p) (p_dgran p) (p_latoff p) (Some (int64 x)))
  else Ok p.

Fixpoint pass1 (m : msg) (p : bparams) : result bparams :=
  match m with
  | [] => Ok p
  | f :: r => p' <- pass1_step p f ;;; pass1 r p'
  end.

(* ---------- Info of ways and relations ---------- *)
Definition info_step (p : bparams) (i : info) (f : Z * wval) : result info :=
  let n := fst f in let v := snd f in
  if n =? 1 then x <- as_var v ;;; Ok (mkInfo (int32 x) (i_ts i) (i_cs i) (i_uid i) (i_user i) (i_visible i))
  else if n =? 2 then x <- as_var v ;;;
    Ok (mkInfo (i_version i) (Some (ts_ns (int64 x) (dgran p))) (i_cs i) (i_uid i) (i_user i) (i_visible i))
  else if n =? 3 then x <- as_var v ;;; Ok (mkInfo (i_version i) (i_ts i) (int64 x) (i_uid i) (i_user i) (i_visible i))
  else if n =? 4 then x <- as_var v ;;; Ok (mkInfo (i_version i) (i_ts i) (i_cs i) (int32 x) (i_user i) (i_visible i))
  else if n =? 5 then x <- as_var v ;;; u <- uint32 x ;;; s <- idx (p_st p) u ;;;
    Ok (mkInfo (i_version i) (i_ts i) (i_cs i) (i_uid i) s (i_visible i))
  else if n =? 6 then x <- as_var v ;;; Ok (mkInfo (i_version i) (i_ts i) (i_cs i) (i_uid i) (i_user i) (vbool x))
  else Ok i.

Fixpoint info_loop (p : bparams) (m : msg) (i : info) : result info :=
  match m with
  | [] => Ok i
  | f :: r => i' <- info_step p i f ;;; info_loop p r i'
  end.

(* ---------- scanTags ---------- *)
Fixpoint scan_tags (st : list bytes) (keys vals : list Z) : result (list tag) :=
  match keys with
  | [] => Ok []
  | k :: kr =>
      ku <- uint32 k ;;;
      match vals with
      | [] => Err E_EOF
      | v :: vr =>
          vu <- uint32 v ;;; ks <- idx st ku ;;; vs <- idx st vu ;;;
          rest <- scan_tags st kr vr ;;; Ok ((ks, vs) :: rest)
      end
  end.

(* keys/vals are read only when both were found in this message *)
Definition tags_if_found (st : list bytes) (fk fv : bool) (wc : wcols) (old : list tag) : result (list tag) :=
  if fk && fv then
    match c_keys wc, c_vals wc with
    | Some ks, Some vs => scan_tags st ks vs
    | _, _ => Panic   (* nil iterator dereference *)
    end
  else Ok old.

(* ---------- scanWays ---------- *)
(* delta-decoded column written into way.Nodes[index] *)
Fixpoint fill (f : Z -> wnode -> wnode) (l : list Z) (prev : Z) (index : nat) (nodes : list wnode)
  : result (list wnode) :=
  match l with
  | [] => full nodes index
  | v :: r =>
      let prev' := wrap64 (sint64 v + prev) in
      nodes' <- upd nodes index (f prev') ;;; fill f r prev' (S index) nodes'
  end.

(* if len(way.Nodes) == 0 { way.Nodes = make(osm.WayNodes, it.Count()) } *)
Definition alloc_nodes (nodes : list wnode) (l : list Z) : list wnode :=
  match nodes with [] => repeat wnode0 (length l) | _ => nodes end.

Definition set_wid (x : Z) (n : wnode) := mkWN x (wn_lat n) (wn_lon n).
Definition set_wlat (p : bparams) (x : Z) (n : wnode) := mkWN (wn_id n) (coord (latoff p) (gran p) x) (wn_lon n).
Definition set_wlon (p : bparams) (x : Z) (n : wnode) := mkWN (wn_id n) (wn_lat n) (coord (lonoff p) (gran p) x).

Record wst := mkWst { ws_way : way; ws_wc : wcols; ws_fk : bool; ws_fv : bool }.

Definition way_step (p : bparams) (s : wst) (f : Z * wval) : result wst :=
  let n := fst f in let v := snd f in
  let w := ws_way s in let wc := ws_wc s in
  if n =? 1 then x <- as_var v ;;;
    Ok (mkWst (mkWay (int64 x) (w_info w) (w_tags w) (w_nodes w)) wc (ws_fk s) (ws_fv s))
  else if n =? 2 then l <- as_packed v ;;;
    Ok (mkWst w (mkWC (Some l) (c_vals wc) (c_nodes wc) (c_wlats wc) (c_wlons wc) (c_roles wc) (c_memids wc) (c_types wc))
          true (ws_fv s))
  else if n =? 3 then l <- as_packed v ;;;
    Ok (mkWst w (mkWC (c_keys wc) (Some l) (c_nodes wc) (c_wlats wc) (c_wlons wc) (c_roles wc) (c_memids wc) (c_types wc))
          (ws_fk s) true)
  else if n =? 4 then d <- as_msg v ;;; i <- info_loop p d (w_info w) ;;;
    Ok (mkWst (mkWay (w_id w) i (w_tags w) (w_nodes w)) wc (ws_fk s) (ws_fv s))
  else if n =? 8 then l <- as_packed v ;;;
    ns <- fill set_wid l 0 O (alloc_nodes (w_nodes w) l) ;;;
    Ok (mkWst (mkWay (w_id w) (w_info w) (w_tags w) ns)
          (mkWC (c_keys wc) (c_vals wc) (Some []) (c_wlats wc) (c_wlons wc) (c_roles wc) (c_memids wc) (c_types wc))
          (ws_fk s) (ws_fv s))
  else if n =? 9 then l <- as_packed v ;;;
    ns <- fill (set_wlat p) l 0 O (alloc_nodes (w_nodes w) l) ;;;
    Ok (mkWst (mkWay (w_id w) (w_info w) (w_tags w) ns)
          (mkWC (c_keys wc) (c_vals wc) (c_nodes wc) (Some []) (c_wlons wc) (c_roles wc) (c_memids wc) (c_types wc))
          (ws_fk s) (ws_fv s))
  else if n =? 10 then l <- as_packed v ;;;
    ns <- fill (set_wlon p) l 0 O (alloc_nodes (w_nodes w) l) ;;;
    Ok (mkWst (mkWay (w_id w) (w_info w) (w_tags w) ns)
          (mkWC (c_keys wc) (c_vals wc) (c_nodes wc) (c_wlats wc) (Some []) (c_roles wc) (c_memids wc) (c_types wc))
          (ws_fk s) (ws_fv s))
  else Ok s.

Fixpoint way_loop (p : bparams) (m : msg) (s : wst) : result wst :=
  match m with
  | [] => Ok s
  | f :: r => s' <- way_step p s f ;;; way_loop p r s'
  end.

Definition scan_way (p : bparams) (wc : wcols) (m : msg) (w : way) : result (way * wcols) :=
  s <- way_loop p m (mkWst w wc false false) ;;;
  let w' := ws_way s in
  tags <- tags_if_found (p_st p) (ws_fk s) (ws_fv s) (ws_wc s) (w_tags w') ;;;
  Ok (mkWay (w_id w') (w_info w') tags (w_nodes w'), ws_wc s).

(* ---------- scanRelations / extractMembers ---------- *)
Definition set_role (r : bytes) (m : member) := mkMem (m_type m) (m_ref m) r.
Definition set_ref_type (ref t : Z) (m : member) :=
  mkMem (if (0 <=? t) && (t <=? 2) then t else m_type m) ref (m_role m).

Fixpoint members_loop (st : list bytes) (roles memids types : list Z) (memid : Z) (index : nat)
  (ms : list member) : result (list member) :=
  match roles with
  | [] =>
      (* if index != len(members) || memids.HasNext() { return errMemberColumns } (fix bf5fa46: a memids
         column longer than roles and types used to lose its trailing members silently) *)
      match memids with [] => full ms index | _ :: _ => Err E_COLUMNS end
  | r :: rr =>
      _ <- upd ms index (fun m => m) ;;;        (* if index >= len(members) *)
      role <- idx st (int32 r) ;;;
      ms1 <- upd ms index (set_role role) ;;;
      match memids with
      | [] => Err E_EOF
      | mi :: mr =>
          let memid' := wrap64 (memid + sint64 mi) in
          match types with
          | [] => Err E_EOF
          | t :: tr =>
              ms2 <- upd ms1 index (set_ref_type memid' (int32 t)) ;;;
              members_loop st rr mr tr memid' (S index) ms2
          end
      end
  end.

Definition extract_members (st : list bytes) (roles memids types : list Z) : result (list member) :=
  members_loop st roles memids types 0 O (repeat member0 (length types)).

Record rst := mkRst { rs_rel : relation; rs_wc : wcols; rs_fk : bool; rs_fv : bool;
                      rs_fr : bool; rs_fm : bool; rs_ft : bool }.

Definition rel_step (p : bparams) (s : rst) (f : Z * wval) : result rst :=
  let n := fst f in let v := snd f in
  let r := rs_rel s in let wc := rs_wc s in
  if n =? 1 then x <- as_var v ;;;
    Ok (mkRst (mkRel (int64 x) (r_info r) (r_tags r) (r_members r)) wc (rs_fk s) (rs_fv s) (rs_fr s) (rs_fm s) (rs_ft s))
  else if n =? 2 then l <- as_packed v ;;;
    Ok (mkRst r (mkWC (Some l) (c_vals wc) (c_nodes wc) (c_wlats wc) (c_wlons wc) (c_roles wc) (c_memids wc) (c_types wc))
          true (rs_fv s) (rs_fr s) (rs_fm s) (rs_ft s))
  else if n =? 3 then l <- as_packed v ;;;
    Ok (mkRst r (mkWC (c_keys wc) (Some l) (c_nodes wc) (c_wlats wc) (c_wlons wc) (c_roles wc) (c_memids wc) (c_types wc))
          (rs_fk s) true (rs_fr s) (rs_fm s) (rs_ft s))
  else if n =? 4 then d <- as_msg v ;;; i <- info_loop p d (r_info r) ;;;
    Ok (mkRst (mkRel (r_id r) i (r_tags r) (r_members r)) wc (rs_fk s) (rs_fv s) (rs_fr s) (rs_fm s) (rs_ft s))
  else if n =? 8 then l <- as_packed v ;;;
    Ok (mkRst r (mkWC (c_keys wc) (c_vals wc) (c_nodes wc) (c_wlats wc) (c_wlons wc) (Some l) (c_memids wc) (c_types wc))
          (rs_fk s) (rs_fv s) true (rs_fm s) (rs_ft s))
  else if n =? 9 then l <- as_packed v ;;;
    Ok (mkRst r (mkWC (c_keys wc) (c_vals wc) (c_nodes wc) (c_wlats wc) (c_wlons wc) (c_roles wc) (Some l) (c_types wc))
          (rs_fk s) (rs_fv s) (rs_fr s) true (rs_ft s))
  else if n =? 10 then l <- as_packed v ;;;
    Ok (mkRst r (mkWC (c_keys wc) (c_vals wc) (c_nodes wc) (c_wlats wc) (c_wlons wc) (c_roles wc) (c_memids wc) (Some l))
          (rs_fk s) (rs_fv s) (rs_fr s) (rs_fm s) true)
  else Ok s.

Fixpoint rel_loop (p : bparams) (m : msg) (s : rst) : result rst :=
  match m with
  | [] => Ok s
  | f :: r => s' <- rel_step p s f ;;; rel_loop p r s'
  end.

Definition members_if_found (st : list bytes) (fr fm ft : bool) (wc : wcols) (old : list member)
  : result (list member) :=
  if fr && fm && ft then
    match c_roles wc, c_memids wc, c_types wc with
    | Some a, Some b, Some c => extract_members st a b c
    | _, _, _ => Panic
    end
  else Ok old.

Definition scan_relation (p : bparams) (wc : wcols) (m : msg) (r : relation) : result (relation * wcols) :=
  s <- rel_loop p m (mkRst r wc false false false false false) ;;;
  let r' := rs_rel s in
  tags <- tags_if_found (p_st p) (rs_fk s) (rs_fv s) (rs_wc s) (r_tags r') ;;;
  mems <- members_if_found (p_st p) (rs_fr s) (rs_fm s) (rs_ft s) (rs_wc s) (r_members r') ;;;
  Ok (mkRel (r_id r') (r_info r') tags mems, rs_wc s).

(* ---------- scanDenseNodes ---------- *)
Record ifound := mkIF { fi_ver : bool; fi_ts : bool; fi_cs : bool; fi_uid : bool; fi_usid : bool; fi_vis : bool }.
Definition if0 := mkIF false false false false false false.

Definition dinfo_step (s : icols * ifound) (f : Z * wval) : result (icols * ifound) :=
  let n := fst f in let v := snd f in
  let ic := fst s in let fi := snd s in
  if n =? 1 then l <- as_packed v ;;;
    Ok (mkIC (Some l) (c_timestamps ic) (c_changesets ic) (c_uids ic) (c_usids ic) (c_visibles ic),
        mkIF true (fi_ts fi) (fi_cs fi) (fi_uid fi) (fi_usid fi) (fi_vis fi))
  else if n =? 2 then l <- as_packed v ;;;
    Ok (mkIC (c_versions ic) (Some l) (c_changesets ic) (c_uids ic) (c_usids ic) (c_visibles ic),
        mkIF (fi_ver fi) true (fi_cs fi) (fi_uid fi) (fi_usid fi) (fi_vis fi))
  else if n =? 3 then l <- as_packed v ;;;
    Ok (mkIC (c_versions ic) (c_timestamps ic) (Some l) (c_uids ic) (c_usids ic) (c_visibles ic),
        mkIF (fi_ver fi) (fi_ts fi) true (fi_uid fi) (fi_usid fi) (fi_vis fi))
  else if n =? 4 then l <- as_packed v ;;;
    Ok (mkIC (c_versions ic) (c_timestamps ic) (c_changesets ic) (Some l) (c_usids ic) (c_visibles ic),
        mkIF (fi_ver fi) (fi_ts fi) (fi_cs fi) true (fi_usid fi) (fi_vis fi))
  else if n =? 5 then l <- as_packed v ;;;
    Ok (mkIC (c_versions ic) (c_timestamps ic) (c_changesets ic) (c_uids ic) (Some l) (c_visibles ic),
        mkIF (fi_ver fi) (fi_ts fi) (fi_cs fi) (fi_uid fi) true (fi_vis fi))
  else if n =? 6 then l <- as_packed v ;;;
    Ok (mkIC (c_versions ic) (c_timestamps ic) (c_changesets ic) (c_uids ic) (c_usids ic) (Some l),
        mkIF (fi_ver fi) (fi_ts fi) (fi_cs fi) (fi_uid fi) (fi_usid fi) true)
  else Ok s.

Fixpoint dinfo_loop (m : msg) (s : icols * ifound) : result (icols * ifound) :=
  match m with
  | [] => Ok s
  | f :: r => s' <- dinfo_step s f ;;; dinfo_loop r s'
  end.

Definition keep (b : bool) (c : iter) : iter := if b then c else None.

(* if !foundX { dec.X = nil } for the six DenseInfo columns *)
Definition nil_info (fi : ifound) (ic : icols) : icols :=
  mkIC (keep (fi_ver fi) (c_versions ic)) (keep (fi_ts fi) (c_timestamps ic))
       (keep (fi_cs fi) (c_changesets ic)) (keep (fi_uid fi) (c_uids ic)) (keep (fi_usid fi) (c_usids ic))
       (keep (fi_vis fi) (c_visibles ic)).

Record dfound := mkDF { fd_ids : bool; fd_info : bool; fd_lats : bool; fd_lons : bool; fd_kv : bool }.
Definition df0 := mkDF false false false false false.

Definition dense_step (s : dcols * dfound) (f : Z * wval) : result (dcols * dfound) :=
  let n := fst f in let v := snd f in
  let dc := fst s in let fd := snd s in
  if n =? 1 then l <- as_packed v ;;;
    Ok (mkDC (Some l) (c_info dc) (c_lats dc) (c_lons dc) (c_keyvals dc),
        mkDF true (fd_info fd) (fd_lats fd) (fd_lons fd) (fd_kv fd))
  else if n =? 5 then d <- as_msg v ;;;
    s' <- dinfo_loop d (c_info dc, if0) ;;;
    Ok (mkDC (c_ids dc) (nil_info (snd s') (fst s')) (c_lats dc) (c_lons dc) (c_keyvals dc),
        mkDF (fd_ids fd) true (fd_lats fd) (fd_lons fd) (fd_kv fd))
  else if n =? 8 then l <- as_packed v ;;;
    Ok (mkDC (c_ids dc) (c_info dc) (Some l) (c_lons dc) (c_keyvals dc),
        mkDF (fd_ids fd) (fd_info fd) true (fd_lons fd) (fd_kv fd))
  else if n =? 9 then l <- as_packed v ;;;
    Ok (mkDC (c_ids dc) (c_info dc) (c_lats dc) (Some l) (c_keyvals dc),
        mkDF (fd_ids fd) (fd_info fd) (fd_lats fd) true (fd_kv fd))
  else if n =? 10 then l <- as_packed v ;;;
    Ok (mkDC (c_ids dc) (c_info dc) (c_lats dc) (c_lons dc) (Some l),
        mkDF (fd_ids fd) (fd_info fd) (fd_lats fd) (fd_lons fd) true)
  else Ok s.

Fixpoint dense_loop (m : msg) (s : dcols * dfound) : result (dcols * dfound) :=
  match m with
  | [] => Ok s
  | f :: r => s' <- dense_step s f ;;; dense_loop r s'
  end.

(* after the field loop: mandatory columns, then nil out what this message did not carry *)
Definition dense_fixup (s : dcols * dfound) : result dcols :=
  let dc := fst s in let fd := snd s in
  if negb (fd_ids fd) then Err E_NO_IDS
  else if negb (fd_lats fd) then Err E_NO_LATS
  else if negb (fd_lons fd) then Err E_NO_LONS
  else
    Ok (mkDC (c_ids dc) (if fd_info fd then c_info dc else ic0) (c_lats dc) (c_lons dc)
             (keep (fd_kv fd) (c_keyvals dc))).

(* ---------- extractDenseNodes ---------- *)
(* for { k := keyvals.Int32(); if k == 0 break; v := keyvals.Int32(); n.Tags = append(n.Tags, {st[k], st[v]}) } *)
Fixpoint kv_loop (st : list bytes) (kv : list Z) (tags : list tag) : result (list Z * list tag) :=
  match kv with
  | [] => Err E_EOF
  | k :: r =>
      if int32 k =? 0 then Ok (r, tags)
      else match r with
           | [] => Err E_EOF
           | v :: r' =>
               ks <- idx st (int32 k) ;;; vs <- idx st (int32 v) ;;;
               kv_loop st r' (tags ++ [(ks, vs)])
           end
  end.

(* loop-carried variables of extractDenseNodes *)
Record xst := mkX {
  x_dc : dcols;                                (* the iterators (ids is the loop's own list) *)
  a_id : Z; a_lat : Z; a_lon : Z; a_ts : Z; a_cs : Z; a_uid : Z; a_usid : Z;
  x_n : node;                                  (* n, the node being filled *)
  x_q : list obj }.                            (* dec.q *)

Definition opt_or {A} (o : option A) (d : A) : A := match o with Some a => a | None => d end.

(* one iteration up to (not including) the filter call: the node as filled in, and the
   loop-carried variables *)
Definition extract_pre (p : bparams) (v1 : Z) (x : xst) : result (node * xst) :=
  let dc := x_dc x in let ic := c_info dc in let n := x_n x in let i := n_info n in
  let id := wrap64 (a_id x + sint64 v1) in
  ' (ov, cver) <- col_next (c_versions ic) ;;;
  let ver := match ov with Some v2 => int32 v2 | None => i_version i end in
  ' (ot, cts) <- col_next (c_timestamps ic) ;;;
  let ats := match ot with Some v3 => wrap64 (a_ts x + sint64 v3) | None => a_ts x end in
  let ts := match ot with Some _ => Some (ts_ns ats (dgran p)) | None => i_ts i end in
  ' (oc, ccs) <- col_next (c_changesets ic) ;;;
  let acs := match oc with Some v4 => wrap64 (a_cs x + sint64 v4) | None => a_cs x end in
  let cs := match oc with Some _ => acs | None => i_cs i end in
  ' (ou, cuid) <- col_next (c_uids ic) ;;;
  let auid := match ou with Some v5 => wrap32 (a_uid x + sint32 v5) | None => a_uid x end in
  let uid := match ou with Some _ => auid | None => i_uid i end in
  ' (os, cusid) <- col_next (c_usids ic) ;;;
  let ausid := match os with Some v6 => wrap32 (a_usid x + sint32 v6) | None => a_usid x end in
  user <- match os with Some _ => idx (p_st p) ausid | None => Ok (i_user i) end ;;;
  ' (ob, cvis) <- col_next (c_visibles ic) ;;;
  let vis := match ob with Some v7 => vbool v7 | None => i_visible i end in
  match c_lats dc, c_lons dc with
  | Some lats, Some lons =>
      ' (v8, lats') <- it_next lats ;;;
      let alat := wrap64 (a_lat x + sint64 v8) in
      ' (v9, lons') <- it_next lons ;;;
      let alon := wrap64 (a_lon x + sint64 v9) in
      ' (ckv, tags) <- match c_keyvals dc with
                       | None => Ok (None, n_tags n)
                       | Some kv => ' (kv', t) <- kv_loop (p_st p) kv (n_tags n) ;;; Ok (Some kv', t)
                       end ;;;
      let n' := mkNode id (coord (latoff p) (gran p) alat) (coord (lonoff p) (gran p) alon)
                       (mkInfo ver ts cs uid user vis) tags in
      let dc' := mkDC (c_ids dc) (mkIC cver cts ccs cuid cusid cvis) (Some lats') (Some lons') ckv in
      Ok (n', mkX dc' id alat alon ats acs auid ausid n' (x_q x))
  | _, _ => Panic
  end.

(* if FilterNode == nil || FilterNode(n) { q = append(q, n); n = &Node{Visible: true} }
   else { *n = Node{Visible: true, Tags: n.Tags[:0]} } *)
Definition extract_post (c : cfg) (n' : node) (x : xst) : xst :=
  if f_node c n'
  then mkX (x_dc x) (a_id x) (a_lat x) (a_lon x) (a_ts x) (a_cs x) (a_uid x) (a_usid x) node0 (x_q x ++ [ONode n'])
  else mkX (x_dc x) (a_id x) (a_lat x) (a_lon x) (a_ts x) (a_cs x) (a_uid x) (a_usid x)
           (mkNode 0 0 0 info0 (firstn 0 (n_tags n'))) (x_q x).

Definition extract_body (c : cfg) (p : bparams) (v1 : Z) (x : xst) : result xst :=
  ' (n', x') <- extract_pre p v1 x ;;; Ok (extract_post c n' x').

Fixpoint extract_loop (c : cfg) (p : bparams) (ids : list Z) (x : xst) : result xst :=
  match ids with
  | [] => Ok x
  | v1 :: r => x' <- extract_body c p v1 x ;;; extract_loop c p r x'
  end.

Definition extract_dense (c : cfg) (p : bparams) (dc : dcols) (q : list obj) : result (dcols * list obj) :=
  match c_ids dc with
  | None => Panic
  | Some ids =>
      x <- extract_loop c p ids (mkX dc 0 0 0 0 0 0 0 node0 q) ;;;
      let dc' := x_dc x in
      Ok (mkDC (Some []) (c_info dc') (c_lats dc') (c_lons dc') (c_keyvals dc'), x_q x)
  end.

(* if !foundIds && !foundInfo && !foundLats && !foundLons && !foundKeyVals { return nil }: a DenseNodes
   message that carries no column at all is a group without nodes - protobuf encoders do not write
   empty packed fields (fix: before it, "did not contain ids").  A message with denseinfo or
   keys_vals but without ids / lats / lons is still an error.  The cached iterators stay as they
   were (nothing was assigned, no nil-ing on this path). *)
Definition dense_empty (fd : dfound) : bool :=
  negb (fd_ids fd) && negb (fd_info fd) && negb (fd_lats fd) && negb (fd_lons fd) && negb (fd_kv fd).

Definition scan_dense (c : cfg) (p : bparams) (dc : dcols) (m : msg) (q : list obj) : result (dcols * list obj) :=
  s <- dense_loop m (dc, df0) ;;;
  if dense_empty (snd s) then Ok (fst s, q)
  else
    dc1 <- dense_fixup s ;;;
    extract_dense c p dc1 q.

(* ---------- scanPrimitiveGroup ---------- *)
Record gst := mkG { g_d : dstate; g_way : way; g_rel : relation; g_q : list obj }.

(* outcome of a plain Node group: an error (fix 9a46487; before it an explicit panic) *)
Definition plain_nodes {A} : result A := Err E_PLAIN.

Definition reset_way (w : way) : way := mkWay 0 info0 (firstn 0 (w_tags w)) (firstn 0 (w_nodes w)).
Definition reset_rel (r : relation) : relation := mkRel 0 info0 (firstn 0 (r_tags r)) (firstn 0 (r_members r)).

Definition group_step (c : cfg) (s : gst) (f : Z * wval) : result gst :=
  let n := fst f in let v := snd f in
  let d := g_d s in
  if n =? 1 then plain_nodes
  else if (n =? 2) && negb (skip_nodes c) then
    m <- as_msg v ;;;
    ' (dc', q') <- scan_dense c (d_p d) (d_dc d) m (g_q s) ;;;
    Ok (mkG (mkD (d_p d) dc' (d_wc d)) (g_way s) (g_rel s) q')
  else if (n =? 3) && negb (skip_ways c) then
    m <- as_msg v ;;;
    ' (w, wc') <- scan_way (d_p d) (d_wc d) m (g_way s) ;;;
    let d' := mkD (d_p d) (d_dc d) wc' in
    if f_way c w then Ok (mkG d' way0 (g_rel s) (g_q s ++ [OWay w]))
    else Ok (mkG d' (reset_way w) (g_rel s) (g_q s))
  else if (n =? 4) && negb (skip_rels c) then
    m <- as_msg v ;;;
    ' (r, wc') <- scan_relation (d_p d) (d_wc d) m (g_rel s) ;;;
    let d' := mkD (d_p d) (d_dc d) wc' in
    if f_rel c r then Ok (mkG d' (g_way s) rel0 (g_q s ++ [ORel r]))
    else Ok (mkG d' (g_way s) (reset_rel r) (g_q s))
  else Ok s.

Fixpoint group_loop (c : cfg) (m : msg) (s : gst) : result gst :=
  match m with
  | [] => Ok s
  | f :: r => s' <- group_step c s f ;;; group_loop c r s'
  end.

Definition scan_group (c : cfg) (d : dstate) (m : msg) (q : list obj) : result (dstate * list obj) :=
  s <- group_loop c m (mkG d way0 rel0 q) ;;; Ok (g_d s, g_q s).

(* ---------- scanPrimitiveBlock ---------- *)
Fixpoint pass2 (c : cfg) (m : msg) (d : dstate) (q : list obj) : result (dstate * list obj) :=
  match m with
  | [] => Ok (d, q)
  | f :: r =>
      if fst f =? 2 then
        g <- as_msg (snd f) ;;;
        ' (d', q') <- scan_group c d g q ;;; pass2 c r d' q'
      else pass2 c r d q
  end.

Definition scan_block (c : cfg) (st : dstate) (m : msg) : result (dstate * list obj) :=
  (* reset of the cached primitiveBlock, then pass 1 (parameters), then pass 2 (groups) *)
  p1 <- pass1 m p0 ;;;
  pass2 c m (mkD p1 (d_dc st) (d_wc st)) [].

Definition scan_result (c : cfg) (st : dstate) (m : msg) : result (list obj) :=
  match scan_block c st m with Ok (_, q) => Ok q | Err e => Err e | Panic => Panic end.

(* a worker decodes the blocks it is handed one after the other with the same decoder *)
Fixpoint scan_blocks (c : cfg) (st : dstate) (ms : list msg) : result (list (list obj)) :=
  match ms with
  | [] => Ok []
  | m :: r => ' (st', q) <- scan_block c st m ;;; qs <- scan_blocks c st' r ;;; Ok (q :: qs)
  end.
