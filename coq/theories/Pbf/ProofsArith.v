(* Pbf/ProofsArith.v — round trips of the varint codings and the wrapping delta coding. *)
From Coq Require Import ZArith List Bool Lia.
From Verif Require Import Base.Int64 Pbf.Tree.
Import ListNotations.
Open Scope Z_scope.
Ltac Zify.zify_post_hook ::= Z.div_mod_to_equations.

Lemma unzig_zig64 : forall x, unzig (zig64 x) = x.
Proof.
  intros x. unfold unzig, zig64.
  destruct (0 <=? x) eqn:Hx.
  - replace (Z.even (2 * x)) with true by (symmetry; rewrite Z.even_spec; exists x; lia). lia.
  - assert (Ho : Z.even (-2 * x - 1) = false).
    { rewrite <- Z.negb_odd. apply Bool.negb_false_iff. rewrite Z.odd_spec. exists (- x - 1). lia. }
    rewrite Ho. lia.
Qed.

Lemma zig64_range : forall x, in_int64 x -> 0 <= zig64 x < two64.
Proof. intros x [H1 H2]. unfold zig64, two63, two64 in *. destruct (0 <=? x) eqn:Hx; lia. Qed.

Lemma int64_enc : forall x, in_int64 x -> int64 (enc_int x) = x.
Proof. intros x [H1 H2]. unfold int64, enc_int, wrap64, two63, two64 in *. lia. Qed.

Lemma int32_enc : forall x, - two31 <= x < two31 -> int32 (enc_int x) = x.
Proof. intros x [H1 H2]. unfold int32, enc_int, wrap32, two31, two32, two64 in *. lia. Qed.

(* decoding a wrapped delta restores the value whatever the previous value was *)
Lemma delta64_roundtrip : forall prev x, in_int64 x ->
  wrap64 (prev + sint64 (zig64 (wrap64 (x - prev)))) = x.
Proof.
  intros prev x [H1 H2]. unfold sint64. rewrite unzig_zig64.
  unfold wrap64, two63, two64 in *. lia.
Qed.

Lemma delta64_roundtrip' : forall prev x, in_int64 x ->
  wrap64 (sint64 (zig64 (wrap64 (x - prev))) + prev) = x.
Proof. intros. rewrite Z.add_comm. apply delta64_roundtrip; assumption. Qed.

Lemma delta32_roundtrip : forall prev x, - two31 <= x < two31 ->
  wrap32 (prev + sint32 (zig64 (wrap32 (x - prev)))) = x.
Proof.
  intros prev x [H1 H2]. unfold sint32. rewrite unzig_zig64.
  unfold wrap32, two31, two32 in *. lia.
Qed.

Lemma vbool_enc : forall b, vbool (enc_bool b) = b.
Proof. destruct b; reflexivity. Qed.
