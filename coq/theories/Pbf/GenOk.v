(* Pbf/GenOk.v — obligations tying the PBF decoder model to /repo BY TRANSLATION.

   coq/gen/GenPbfCode.v (translator/cmd/pbfcode, go/ast over osmpbf/decode_data.go, decode.go and the
   generated *.pb.go) and coq/gen/GenProto.v (translator/cmd/pbfproto over the two .proto files) are
   regenerated from the working tree on every run.  This file checks, by computation:
     A. the dispatch tables of Pbf/Dispatch.v (proved equal to the model's field loops in
        Pbf/ProofsDispatch.v) are exactly the dispatch the source performs: field number, guard,
        accessor called on the message, accessors called on the elements, receiving object fields;
     B. that dispatch agrees with the .proto numbering, types, labels, packing; every field of every
        message is handled or explicitly listed as ignored;
     C. the defaults (granularity 100, date_granularity 1000, offsets 0), the coordinate factor 1e-9,
        the use of the default-applying getters, the capability set;
     D. the generated Go structs agree with the .proto files, and decodeOSMHeader reads the Header
        fields from the HeaderBlock fields with the numbers the model uses.
   A change of a case label, of an accessor, of a target, of a default, of a .proto number breaks one
   of these equalities (reported with the theorem name by bin/check). *)
From Coq Require Import ZArith List Bool String Ascii.
From Verif Require Import Base.Int64 Base.Wire Pbf.Tree Pbf.Model Pbf.Header Pbf.ProtoTypes Pbf.Dispatch Pbf.ProofsDispatch.
From VerifGen Require GenProto GenPbfCode GenPbfConsts.
Import ListNotations.
Open Scope string_scope.
Open Scope list_scope.
Open Scope Z_scope.

(* ---------- A. tables = source dispatch ---------- *)
Lemma A_dispatch_names : GenPbfCode.dispatch_names =
  ["scanDenseNodes"; "scanDenseNodes_info"; "scanPrimitiveBlock"; "scanPrimitiveBlock_pass2";
   "scanPrimitiveGroup"; "scanRelations"; "scanRelations_info"; "scanWays"; "scanWays_info"].
Proof. reflexivity. Qed.

Lemma A_pass1 : map (view p1_targets yes) pass1_table = GenPbfCode.dispatch_scanPrimitiveBlock.
Proof. reflexivity. Qed.
Lemma A_pass2 : map (view p2_targets yes) pass2_table = GenPbfCode.dispatch_scanPrimitiveBlock_pass2.
Proof. reflexivity. Qed.
Lemma A_group : map (view g_targets g_call) group_table = GenPbfCode.dispatch_scanPrimitiveGroup.
Proof. reflexivity. Qed.
Lemma A_dense : map (view d_targets yes) dense_table = GenPbfCode.dispatch_scanDenseNodes.
Proof. reflexivity. Qed.
Lemma A_dense_info : map (view (i_targets "Node") yes) dinfo_table = GenPbfCode.dispatch_scanDenseNodes_info.
Proof. reflexivity. Qed.
Lemma A_way : map (view w_targets yes) way_table = GenPbfCode.dispatch_scanWays.
Proof. reflexivity. Qed.
Lemma A_way_info : map (view (i_targets "Way") yes) info_table = GenPbfCode.dispatch_scanWays_info.
Proof. reflexivity. Qed.
Lemma A_rel : map (view r_targets yes) rel_table = GenPbfCode.dispatch_scanRelations.
Proof. reflexivity. Qed.
Lemma A_rel_info : map (view (i_targets "Relation") yes) info_table = GenPbfCode.dispatch_scanRelations_info.
Proof. reflexivity. Qed.

(* ---------- B. agreement with the .proto files ---------- *)
Definition proto_msg (m : string) : list pfield :=
  match lookup_s m GenProto.proto_messages with Some l => l | None => [] end.
Definition is_enum (t : string) : bool :=
  existsb (fun e => String.eqb (fst e) t || String.eqb (fst e) ("Relation." ++ t)%string) GenProto.proto_enums.
Definition is_message (t : string) : bool :=
  match lookup_s t GenProto.proto_messages with Some _ => true | None => false end.

Definition acc_type (a : acc) (t : string) : bool :=
  match a with
  | AInt32 => String.eqb t "int32" || is_enum t
  | AInt64 => String.eqb t "int64"
  | ASint32 => String.eqb t "sint32"
  | ASint64 => String.eqb t "sint64"
  | AUint32 => String.eqb t "uint32"
  | ABool => String.eqb t "bool"
  end.

Definition singular (l : string) : bool := String.eqb l "optional" || String.eqb l "required".

(* a table row against the .proto field with its number; sub = the message type expected for MData *)
Definition row_proto {S} (fields : list pfield) (sub : S -> string) (r : row S) : bool :=
  match find (fun f => pf_num f =? r_num r) fields with
  | None => false
  | Some f =>
      match r_msg r with
      | MVal a => acc_type a (pf_type f) && singular (pf_label f) && negb (pf_packed f) && (List.length (r_elem r) =? 0)%nat
      | MIter => String.eqb (pf_label f) "repeated" && pf_packed f
                 && negb (List.length (r_elem r) =? 0)%nat && forallb (fun a => acc_type a (pf_type f)) (r_elem r)
      | MData => is_message (pf_type f) && String.eqb (pf_type f) (sub (r_slot r)) && negb (pf_packed f)
      end
  end.

(* every field of the message is in the table or in the ignored list, and nothing else is *)
Definition covers {S} (fields : list pfield) (t : list (row S)) (ignored : list Z) : bool :=
  forallb (fun f => existsb (fun r => r_num r =? pf_num f) t || existsb (Z.eqb (pf_num f)) ignored) fields
  && forallb (fun r => existsb (fun f => pf_num f =? r_num r) fields) t
  && forallb (fun n => existsb (fun f => pf_num f =? n) fields) ignored.

Definition nosub {S} (_ : S) : string := "".
Definition p1_sub (s : p1slot) : string := match s with P1Strings => "StringTable" | _ => "" end.
Definition p2_sub (s : p2slot) : string := "PrimitiveGroup".
Definition g_sub (s : gslot) : string :=
  match s with GPlain => "Node" | GDense => "DenseNodes" | GWay => "Way" | GRel => "Relation" end.
Definition d_sub (s : dslot) : string := match s with DInfo => "DenseInfo" | _ => "" end.
Definition w_sub (s : wslot) : string := match s with WInfo => "Info" | _ => "" end.
Definition r_sub (s : rslot) : string := match s with RInfo => "Info" | _ => "" end.

Definition proto_agrees : bool :=
  forallb (row_proto (proto_msg "PrimitiveBlock") p1_sub) pass1_table
  && forallb (row_proto (proto_msg "PrimitiveBlock") p2_sub) pass2_table
  && forallb (row_proto (proto_msg "PrimitiveGroup") g_sub) group_table
  && forallb (row_proto (proto_msg "DenseNodes") d_sub) dense_table
  && forallb (row_proto (proto_msg "DenseInfo") nosub) dinfo_table
  && forallb (row_proto (proto_msg "Way") w_sub) way_table
  && forallb (row_proto (proto_msg "Relation") r_sub) rel_table
  && forallb (row_proto (proto_msg "Info") nosub) info_table
  (* coverage: PrimitiveBlock = pass 1 + pass 2; changesets (5) are ignored by design *)
  && covers (proto_msg "PrimitiveBlock") pass1_table [2] && covers (proto_msg "PrimitiveBlock") pass2_table [1; 17; 18; 19; 20]
  && covers (proto_msg "PrimitiveGroup") group_table [5]
  && covers (proto_msg "DenseNodes") dense_table [] && covers (proto_msg "DenseInfo") dinfo_table []
  && covers (proto_msg "Way") way_table [] && covers (proto_msg "Relation") rel_table []
  && covers (proto_msg "Info") info_table []
  (* the string table is `repeated string s = 1` and member types are NODE=0, WAY=1, RELATION=2 *)
  && match proto_msg "StringTable" with
     | [f] => (pf_num f =? 1) && String.eqb (pf_type f) "string" && String.eqb (pf_label f) "repeated"
     | _ => false end
  && match lookup_s "Relation.MemberType" GenProto.proto_enums with
     | Some [("NODE", 0); ("WAY", 1); ("RELATION", 2)] => true
     | _ => false end.

Lemma B_proto_agrees : proto_agrees = true.
Proof. vm_compute. reflexivity. Qed.

(* ---------- C. defaults, coordinate factor, getters, capabilities ---------- *)
Fixpoint dec_digits (s : string) (acc : Z) : option Z :=
  match s with
  | EmptyString => Some acc
  | String c r =>
      let n := Z.of_nat (nat_of_ascii c) - 48 in
      if (0 <=? n) && (n <=? 9) then dec_digits r (acc * 10 + n) else None
  end.
Definition z_of_dec (s : string) : option Z :=
  match s with
  | String "-"%char r => match dec_digits r 0 with Some z => Some (- z) | None => None end
  | EmptyString => None
  | _ => dec_digits s 0
  end.

Definition proto_default (m : string) (n : Z) : option Z :=
  match find (fun f => pf_num f =? n) (proto_msg m) with
  | Some f => match pf_default f with Some d => z_of_dec d | None => None end
  | None => None
  end.
Definition pbgo_default (k : string) : option Z :=
  match lookup_s k GenPbfCode.pbgo_defaults with Some d => z_of_dec d | None => None end.

Lemma C_defaults :
  proto_default "PrimitiveBlock" 17 = Some (gran p0) /\ pbgo_default "PrimitiveBlock_Granularity" = Some (gran p0)
  /\ proto_default "PrimitiveBlock" 18 = Some (dgran p0) /\ pbgo_default "PrimitiveBlock_DateGranularity" = Some (dgran p0)
  /\ proto_default "PrimitiveBlock" 19 = Some (latoff p0) /\ pbgo_default "PrimitiveBlock_LatOffset" = Some (latoff p0)
  /\ proto_default "PrimitiveBlock" 20 = Some (lonoff p0) /\ pbgo_default "PrimitiveBlock_LonOffset" = Some (lonoff p0).
Proof. vm_compute. repeat split; reflexivity. Qed.

(* the decoder reads the parameters through the default-applying getters *)
Lemma C_getters :
  lookup_s "scanDenseNodes" GenPbfCode.block_getters
    = Some ["GetDateGranularity"; "GetGranularity"; "GetLatOffset"; "GetLonOffset"; "GetS"; "GetStringtable"]
  /\ lookup_s "scanWays" GenPbfCode.block_getters
    = Some ["GetDateGranularity"; "GetGranularity"; "GetLatOffset"; "GetLonOffset"; "GetS"; "GetStringtable"]
  /\ lookup_s "scanRelations" GenPbfCode.block_getters = Some ["GetDateGranularity"; "GetS"; "GetStringtable"].
Proof. repeat split; reflexivity. Qed.

(* the only floating-point literal: degrees = 1e-9 * nanodegrees *)
Lemma C_coord_factor :
  GenPbfCode.float_literals_decode_data = ["1e-9"] /\ GenPbfCode.float_literals_decodeOSMHeader = ["1e-9"].
Proof. split; reflexivity. Qed.

Definition subset_s (a b : list string) : bool := forallb (fun x => existsb (String.eqb x) b) a.
Lemma C_capabilities :
  subset_s Caps.names GenPbfConsts.parseCapabilities = true /\ subset_s GenPbfConsts.parseCapabilities Caps.names = true.
Proof. split; reflexivity. Qed.

(* ---------- D. generated Go structs, header map ---------- *)
Definition wire_type (w t : string) : bool :=
  if String.eqb w "zigzag64" then String.eqb t "sint64"
  else if String.eqb w "zigzag32" then String.eqb t "sint32"
  else if String.eqb w "varint" then
    String.eqb t "int32" || String.eqb t "int64" || String.eqb t "uint32" || String.eqb t "bool" || is_enum t
  else if String.eqb w "bytes" then String.eqb t "string" || String.eqb t "bytes" || is_message t
  else false.
Definition label3 (l : string) : string :=
  if String.eqb l "optional" then "opt" else if String.eqb l "required" then "req" else "rep".
Definition opt_s_eqb (a b : option string) : bool :=
  match a, b with Some x, Some y => String.eqb x y | None, None => true | _, _ => false end.

Definition struct_agrees (m : string) : bool :=
  match lookup_s m GenPbfCode.pbgo_structs with
  | None => false
  | Some gs =>
      (List.length gs =? List.length (proto_msg m))%nat
      && forallb (fun f =>
           match find (fun g => gf_num g =? pf_num f) gs with
           | Some g => String.eqb (gf_name g) (pf_name f) && String.eqb (gf_label g) (label3 (pf_label f))
                       && Bool.eqb (gf_packed g) (pf_packed f) && opt_s_eqb (gf_default g) (pf_default f)
                       && wire_type (gf_wire g) (pf_type f)
           | None => false
           end) (proto_msg m)
  end.

Lemma D_structs : forallb struct_agrees
  ["Blob"; "BlobHeader"; "HeaderBlock"; "HeaderBBox"; "PrimitiveBlock"; "PrimitiveGroup"; "StringTable"; "Info";
   "DenseInfo"; "ChangeSet"; "Node"; "DenseNodes"; "Way"; "Relation"] = true.
Proof. vm_compute. reflexivity. Qed.

Definition go_num (m goname : string) : option Z :=
  match lookup_s m GenPbfCode.pbgo_structs with
  | Some gs => match find (fun g => String.eqb (gf_go g) goname) gs with Some g => Some (gf_num g) | None => None end
  | None => None
  end.

(* "Bbox.Left" -> number of Left in HeaderBBox; otherwise a field of HeaderBlock *)
Definition src_num (src : string) : option Z :=
  match index 0 "Bbox." src with
  | Some O => go_num "HeaderBBox" (substring 5 (String.length src - 5) src)
  | _ => go_num "HeaderBlock" src
  end.

Lemma D_header_map :
  map (fun r => (fst (fst r), snd (fst r))) header_table = GenPbfCode.header_map
  /\ forallb (fun r => match src_num (snd (fst r)) with Some n => n =? snd r | None => false end) header_table = true
  /\ go_num "HeaderBlock" "Bbox" = Some header_bbox_num.
Proof. vm_compute. repeat split; reflexivity. Qed.

(* the header model reads exactly these numbers *)
Definition hnum (k : string) : Z :=
  match find (fun r => String.eqb (fst (fst r)) k) header_table with Some r => snd r | None => -1 end.

Definition decode_header_t (m : msg) : result header :=
  rbind (match all_msg header_bbox_num m with
         | [] => Ok None
         | bbs =>
             let bb := List.concat bbs in
             match last_var (hnum "Bounds.MinLon") bb, last_var (hnum "Bounds.MaxLon") bb,
                   last_var (hnum "Bounds.MaxLat") bb, last_var (hnum "Bounds.MinLat") bb with
             | Some l, Some r, Some t, Some b => Ok (Some (sint64 l, sint64 r, sint64 b, sint64 t))
             | _, _, _, _ => Err E_REQUIRED
             end
         end)
    (fun bounds =>
       let req := all_str (hnum "RequiredFeatures") m in
       if negb (forallb supported req) then Err E_FEATURE
       else Ok (mkHeader bounds req (all_str (hnum "OptionalFeatures") m)
                         (match last_str (hnum "WritingProgram") m with Some s => s | None => [] end)
                         (match last_str (hnum "Source") m with Some s => s | None => [] end)
                         (match last_var (hnum "ReplicationTimestamp") m with Some x => Some (int64 x) | None => None end)
                         (match last_var (hnum "ReplicationSeqNum") m with Some x => x | None => 0 end)
                         (match last_str (hnum "ReplicationBaseURL") m with Some s => s | None => [] end))).

Lemma D_header_model : forall m, decode_header m = decode_header_t m.
Proof. intros m. reflexivity. Qed.

(* the kinds the header model expects, against the .proto *)
Lemma D_header_proto :
  forallb (fun nk => match find (fun f => pf_num f =? fst nk) (proto_msg "HeaderBlock") with
                     | Some f => String.eqb (pf_type f) (fst (snd nk)) && String.eqb (pf_label f) (snd (snd nk))
                     | None => false end)
    [(1, ("HeaderBBox", "optional")); (4, ("string", "repeated")); (5, ("string", "repeated"));
     (16, ("string", "optional")); (17, ("string", "optional")); (32, ("int64", "optional"));
     (33, ("int64", "optional")); (34, ("string", "optional"))] = true
  /\ forallb (fun f => String.eqb (pf_type f) "sint64" && String.eqb (pf_label f) "required") (proto_msg "HeaderBBox") = true
  /\ map pf_num (proto_msg "HeaderBBox") = [1; 2; 3; 4].
Proof. vm_compute. repeat split; reflexivity. Qed.

(* ---------- E. loop-body structure: found-flag rules, delta accumulation, value formulas ---------- *)
Lemma E_found_dense : dense_rules = GenPbfCode.found_scanDenseNodes. Proof. reflexivity. Qed.
Lemma E_found_ways : way_rules = GenPbfCode.found_scanWays. Proof. reflexivity. Qed.
Lemma E_found_relations : rel_rules = GenPbfCode.found_scanRelations. Proof. reflexivity. Qed.

Definition accum_view (t : list (Z * accum)) : list (Z * string) := map (fun r => (fst r, accum_name (snd r))) t.
Lemma E_accum_dense : accum_view dense_accum = GenPbfCode.accum_scanDenseNodes. Proof. reflexivity. Qed.
Lemma E_accum_dense_info : accum_view dinfo_accum = GenPbfCode.accum_scanDenseNodes_info. Proof. reflexivity. Qed.
Lemma E_accum_ways : accum_view way_accum = GenPbfCode.accum_scanWays. Proof. reflexivity. Qed.
Lemma E_accum_relations : accum_view rel_accum = GenPbfCode.accum_scanRelations. Proof. reflexivity. Qed.

Lemma E_formulas : expected_formulas = GenPbfCode.formulas. Proof. reflexivity. Qed.

Theorem decoder_loop_structure_matches_source :
  (* the model's nil-ing / mandatory-column / use-if-found logic is the rule-driven one *)
  (forall fi ic, nil_info fi ic = nil_info_t fi ic) /\ (forall s, dense_fixup s = dense_fixup_t s)
  /\ (forall fd, dense_empty fd = dense_empty_t fd)
  /\ (forall p v x, extract_pre p v x = extract_pre_t p v x)
  /\ (forall f l prev index nodes, fill f l prev index nodes = fill_t ASint64 (kind_of 8 way_accum) f l prev index nodes)
  (* and rules, accumulation kinds and formulas are those of the source *)
  /\ dense_rules = GenPbfCode.found_scanDenseNodes /\ way_rules = GenPbfCode.found_scanWays
  /\ rel_rules = GenPbfCode.found_scanRelations
  /\ accum_view dense_accum = GenPbfCode.accum_scanDenseNodes
  /\ accum_view dinfo_accum = GenPbfCode.accum_scanDenseNodes_info
  /\ accum_view way_accum = GenPbfCode.accum_scanWays /\ accum_view rel_accum = GenPbfCode.accum_scanRelations
  /\ expected_formulas = GenPbfCode.formulas.
Proof.
  repeat split;
    first [ exact nil_info_table | exact dense_fixup_table | exact dense_empty_table | exact extract_pre_table | exact fill_table
          | exact E_found_dense | exact E_found_ways | exact E_found_relations | exact E_accum_dense
          | exact E_accum_dense_info | exact E_accum_ways | exact E_accum_relations | exact E_formulas ].
Qed.

(* ---------- F. slice discipline (wave 5) ---------- *)
(* The SET of ways decode_data.go (normal form, helpers inlined) makes, grows and re-slices slices.
   It is what the by-value treatment of way / relation slices in Pbf/Model.v rests on:
   - every slice stored in a way / relation is MADE in the scan call that fills it (scanWays: Tags,
     Nodes; scanRelations: Tags, Members), never taken from a longer array;
   - the only appends are to dec.q and, in scanDenseNodes, to n.Tags (modelled in Pbf/Arena.v);
   - the only re-slicing is x[:0] on the reject path (and of the reused primitive block);
   so an array reachable from an object already in dec.q is never written again.  A patch that cuts
   slices from a slab (x[:n], x[n:]), reuses capacity (x[:count]) or appends to a way's slice changes
   this set. *)
Definition expected_slice_ops : list string :=
  ["Decode: make []osm.Object"; "scanDenseNodes: append .Tags"; "scanDenseNodes: append .q";
   "scanDenseNodes: make osm.Tags"; "scanDenseNodes: slice[:0]";
   "scanPrimitiveBlock: slice[:0]";
   "scanPrimitiveGroup: append .q"; "scanPrimitiveGroup: slice[:0]";
   "scanRelations: make osm.Members"; "scanRelations: make osm.Tags";
   "scanWays: make osm.Tags"; "scanWays: make osm.WayNodes"].
Theorem decoder_slice_discipline_matches_source : GenPbfCode.slice_ops = expected_slice_ops.
Proof. reflexivity. Qed.

(* string constants for files that do not open string_scope *)
Definition sNode := "Node". Definition sWay := "Way". Definition sRelation := "Relation".
Definition sPrimitiveBlock := "PrimitiveBlock".

(* ---------- the statement used by Properties/C01.v ---------- *)
Theorem decoder_dispatch_matches_proto :
  (* the model's field loops are the table-driven ones *)
  (forall p f, pass1_step p f = pass1_step_t p f) /\ (forall c s f, group_step c s f = group_step_t c s f)
  /\ (forall s f, dense_step s f = dense_step_t s f) /\ (forall s f, dinfo_step s f = dinfo_step_t s f)
  /\ (forall p s f, way_step p s f = way_step_t p s f) /\ (forall p s f, rel_step p s f = rel_step_t p s f)
  /\ (forall p i f, info_step p i f = info_step_t p i f) /\ (forall p v x, extract_pre p v x = extract_pre_t p v x)
  /\ (forall m, decode_header m = decode_header_t m)
  (* the tables are the dispatch of the source *)
  /\ map (view p1_targets yes) pass1_table = GenPbfCode.dispatch_scanPrimitiveBlock
  /\ map (view p2_targets yes) pass2_table = GenPbfCode.dispatch_scanPrimitiveBlock_pass2
  /\ map (view g_targets g_call) group_table = GenPbfCode.dispatch_scanPrimitiveGroup
  /\ map (view d_targets yes) dense_table = GenPbfCode.dispatch_scanDenseNodes
  /\ map (view (i_targets "Node") yes) dinfo_table = GenPbfCode.dispatch_scanDenseNodes_info
  /\ map (view w_targets yes) way_table = GenPbfCode.dispatch_scanWays
  /\ map (view (i_targets "Way") yes) info_table = GenPbfCode.dispatch_scanWays_info
  /\ map (view r_targets yes) rel_table = GenPbfCode.dispatch_scanRelations
  /\ map (view (i_targets "Relation") yes) info_table = GenPbfCode.dispatch_scanRelations_info
  /\ map (fun r => (fst (fst r), snd (fst r))) header_table = GenPbfCode.header_map
  (* and agree with the .proto numbering, types, labels, packing and defaults *)
  /\ proto_agrees = true
  /\ proto_default "PrimitiveBlock" 17 = Some (gran p0) /\ proto_default "PrimitiveBlock" 18 = Some (dgran p0).
Proof.
  repeat split;
    first [ exact pass1_step_table | exact group_step_table | exact dense_step_table | exact dinfo_step_table
          | exact way_step_table | exact rel_step_table | exact info_step_table | exact extract_pre_table
          | exact D_header_model | exact A_pass1 | exact A_pass2 | exact A_group | exact A_dense | exact A_dense_info
          | exact A_way | exact A_way_info | exact A_rel | exact A_rel_info | exact (proj1 D_header_map)
          | exact B_proto_agrees | exact (proj1 C_defaults) | exact (proj1 (proj2 (proj2 C_defaults))) ].
Qed.
