(* Pbf/Arena.v — explicit heap ("arena") semantics of the dense-node tag slices
   (extractDenseNodes, decode_data.go), executable definitions only.

   n.Tags is a Go slice (pointer, len, cap) into a backing array.  The code re-uses the backing
   array of a REJECTED node for the next node (n.Tags[:0]) and appends in place; an ACCEPTED node is
   handed over and a fresh node with nil Tags continues.  Everything that is not the tag slice is
   kept by value (the pure model of Pbf/Model.v runs in lock step). *)
From Coq Require Import ZArith List Bool Arith.
From Verif Require Import Base.Int64 Pbf.Tree Pbf.Model.
Import ListNotations.
Open Scope Z_scope.
Open Scope res_scope.

Record slice := mkSl { sl_slot : nat; sl_len : nat; sl_cap : nat }.
(* one entry per backing array; its length is the array's capacity *)
Definition arena := list (list tag).
Definition tag0 : tag := ([], []).

Definition deref (ar : arena) (s : option slice) : list tag :=
  match s with None => [] | Some s => firstn (sl_len s) (nth (sl_slot s) ar []) end.

Definition ocap (s : option slice) : nat := match s with Some s => sl_cap s | None => O end.
Definition olen (s : option slice) : nat := match s with Some s => sl_len s | None => O end.

(* make(osm.Tags, 0, c) *)
Definition amake (ar : arena) (c : nat) : arena * slice := (ar ++ [repeat tag0 c], mkSl (length ar) O c).

Fixpoint set_at {A} (l : list A) (i : nat) (a : A) : list A :=
  match l, i with
  | [], _ => []
  | _ :: r, O => a :: r
  | x :: r, S k => x :: set_at r k a
  end.

(* capacity chosen by append when it has to reallocate: the Go specification only promises
   "sufficiently large"; any value > c would do *)
Definition grow (c : nat) : nat := S (2 * c).
Definition pad (l : list tag) (n : nat) : list tag := l ++ repeat tag0 (n - length l).

(* append(s, t) *)
Definition aappend (ar : arena) (s : option slice) (t : tag) : arena * slice :=
  match s with
  | Some sl =>
      if Nat.ltb (sl_len sl) (sl_cap sl)
      then (set_at ar (sl_slot sl) (set_at (nth (sl_slot sl) ar []) (sl_len sl) t),
            mkSl (sl_slot sl) (S (sl_len sl)) (sl_cap sl))
      else let nc := grow (sl_cap sl) in
           (ar ++ [pad (deref ar s ++ [t]) nc], mkSl (length ar) (S (sl_len sl)) nc)
  | None => (ar ++ [pad [t] (grow O)], mkSl (length ar) 1%nat (grow O))
  end.

(* s[:0] *)
Definition trunc0 (s : option slice) : option slice :=
  match s with Some sl => Some (mkSl (sl_slot sl) O (sl_cap sl)) | None => None end.

(* the byte loop that counts the varints before the first 0 *)
Fixpoint kv_count (kv : list Z) : nat :=
  match kv with [] => O | k :: r => if k =? 0 then O else S (kv_count r) end.

Fixpoint kv_loop_a (st : list bytes) (kv : list Z) (ar : arena) (s : option slice)
  : result (list Z * arena * option slice) :=
  match kv with
  | [] => Err E_EOF
  | k :: r =>
      if int32 k =? 0 then Ok (r, ar, s)
      else match r with
           | [] => Err E_EOF
           | v :: r' =>
               ks <- idx st (int32 k) ;;; vs <- idx st (int32 v) ;;;
               let (ar', s') := aappend ar s (ks, vs) in
               kv_loop_a st r' ar' (Some s')
           end
  end.

(* if dec.keyvals != nil { count...; if cap(n.Tags) < count/2 { n.Tags = make(Tags, 0, count/2) }; for {...} } *)
Definition tags_a (st : list bytes) (okv : iter) (ar : arena) (s : option slice)
  : result (iter * arena * option slice) :=
  match okv with
  | None => Ok (None, ar, s)
  | Some kv =>
      let c := Nat.div (kv_count kv) 2 in
      let (ar1, s1) := if Nat.ltb (ocap s) c then let (a, x) := amake ar c in (a, Some x) else (ar, s) in
      ' (kv', ar2, s2) <- kv_loop_a st kv ar1 s1 ;;; Ok (Some kv', ar2, s2)
  end.

(* objects in dec.q: dense nodes carry their tag slice, everything else is a value *)
Inductive aobj := ANode (n : node) (s : option slice) | AVal (o : obj).
Definition deref_obj (ar : arena) (o : aobj) : obj :=
  match o with
  | ANode n s => ONode (mkNode (n_id n) (n_lat n) (n_lon n) (n_info n) (deref ar s))
  | AVal o => o
  end.
Definition view (ar : arena) (qa : list aobj) : list obj := map (deref_obj ar) qa.

Record ast := mkA { a_x : xst; a_ar : arena; a_sl : option slice; a_q : list aobj }.

Definition extract_body_a (c : cfg) (p : bparams) (v1 : Z) (a : ast) : result ast :=
  ' (n', x1) <- extract_pre p v1 (a_x a) ;;;
  ' (_, ar', sl') <- tags_a (p_st p) (c_keyvals (x_dc (a_x a))) (a_ar a) (a_sl a) ;;;
  if f_node c n'
  then Ok (mkA (extract_post c n' x1) ar' None (a_q a ++ [ANode n' sl']))     (* n = &osm.Node{Visible: true} *)
  else Ok (mkA (extract_post c n' x1) ar' (trunc0 sl') (a_q a)).                (* Tags: n.Tags[:0] *)

Fixpoint extract_loop_a (c : cfg) (p : bparams) (ids : list Z) (a : ast) : result ast :=
  match ids with
  | [] => Ok a
  | v1 :: r => a' <- extract_body_a c p v1 a ;;; extract_loop_a c p r a'
  end.
