(* Pbf/ProofsHeader.v — Header() reports the header block unchanged:
   decode_header (encode_header h) = Ok (header_of h) for every valid header description. *)
From Coq Require Import ZArith List Bool Lia.
From Verif Require Import Base.Int64 Base.Wire Pbf.Tree Pbf.Header Pbf.ProofsArith.
Import ListNotations.
Open Scope Z_scope.
Open Scope res_scope.

(* "last occurrence wins" folds, in a form with an append law *)
Definition lastg {A} (g : Z * wval -> option A) (l : msg) (acc : option A) : option A :=
  fold_left (fun acc f => match g f with Some x => Some x | None => acc end) l acc.

Definition gv (n : Z) (f : Z * wval) : option Z :=
  match snd f with WVar x => if fst f =? n then Some x else None | _ => None end.
Definition gs (n : Z) (f : Z * wval) : option bytes :=
  match snd f with WStr x => if fst f =? n then Some x else None | _ => None end.

Lemma last_var_lastg n l : last_var n l = lastg (gv n) l None.
Proof.
  unfold last_var, lastg. generalize (@None Z). induction l as [|f l IH]; intros acc; simpl; [reflexivity|].
  rewrite IH. f_equal. unfold gv. destruct (snd f); try reflexivity. destruct (fst f =? n); reflexivity.
Qed.
Lemma last_str_lastg n l : last_str n l = lastg (gs n) l None.
Proof.
  unfold last_str, lastg. generalize (@None bytes). induction l as [|f l IH]; intros acc; simpl; [reflexivity|].
  rewrite IH. f_equal. unfold gs. destruct (snd f); try reflexivity. destruct (fst f =? n); reflexivity.
Qed.

Lemma lastg_acc {A} (g : Z * wval -> option A) l : forall acc,
  lastg g l acc = match lastg g l None with Some x => Some x | None => acc end.
Proof.
  unfold lastg. induction l as [|f l IH]; intros acc; simpl; [reflexivity|].
  rewrite IH. rewrite (IH (match g f with Some x => Some x | None => None end)).
  destruct (fold_left _ l None); [reflexivity|]. destruct (g f); reflexivity.
Qed.

Lemma lastg_app {A} (g : Z * wval -> option A) l1 l2 :
  lastg g (l1 ++ l2) None = match lastg g l2 None with Some x => Some x | None => lastg g l1 None end.
Proof. unfold lastg at 1. rewrite fold_left_app. apply lastg_acc. Qed.

Lemma lastg_none {A} (g : Z * wval -> option A) l : Forall (fun f => g f = None) l -> lastg g l None = None.
Proof. unfold lastg. induction 1 as [|f l Hf _ IH]; simpl; [reflexivity|]. rewrite Hf. exact IH. Qed.

Lemma Forall_map_str {A} (g : Z * wval -> option A) k l :
  (forall s, g (k, WStr s) = None) -> Forall (fun f => g f = None) (map (fun s => (k, WStr s)) l).
Proof. intros H. induction l; simpl; constructor; auto. Qed.

Lemma all_str_app n l1 l2 : all_str n (l1 ++ l2) = all_str n l1 ++ all_str n l2.
Proof. unfold all_str. apply flat_map_app. Qed.
Lemma all_msg_app n l1 l2 : all_msg n (l1 ++ l2) = all_msg n l1 ++ all_msg n l2.
Proof. unfold all_msg. apply flat_map_app. Qed.

Lemma all_str_map_same k l : all_str k (map (fun s => (k, WStr s)) l) = l.
Proof. unfold all_str. induction l as [|s l IH]; simpl; [reflexivity|]. rewrite Z.eqb_refl. simpl. f_equal. exact IH. Qed.
Lemma all_str_map_other n k l : (k =? n) = false -> all_str n (map (fun s => (k, WStr s)) l) = [].
Proof. intros H. unfold all_str. induction l as [|s l IH]; simpl; [reflexivity|]. rewrite H. exact IH. Qed.
Lemma all_msg_map_str n k l : all_msg n (map (fun s => (k, WStr s)) l) = [].
Proof. unfold all_msg. induction l as [|s l IH]; simpl; [reflexivity|]. exact IH. Qed.

Lemma sint64_zig x : sint64 (zig64 x) = x.
Proof. apply unzig_zig64. Qed.

Lemma in64b_spec x : in_int64b x = true -> in_int64 x.
Proof. unfold in_int64b, in_int64. intros H. apply andb_prop in H. destruct H. lia. Qed.

Theorem header_faithful : forall h, valid_header h = true -> decode_header (encode_header h) = Ok (header_of h).
Proof.
  intros [bb req opt prog src ts seq url]. unfold valid_header, encode_header, header_of, decode_header.
  cbn [hd_bbox hd_required hd_optional hd_program hd_source hd_repl_ts hd_repl_seq hd_repl_url].
  intros H. apply andb_prop in H. destruct H as [H Hseq]. apply andb_prop in H. destruct H as [H Hts].
  apply andb_prop in H. destruct H as [Hbb Hreq].
  set (B := match bb with Some (l, r, t, b) => _ | None => [] end).
  set (R := map (fun s => (4, WStr s)) req). set (O := map (fun s => (5, WStr s)) opt).
  set (T := opts 16 prog ++ opts 17 src ++ optv 32 ts ++ optv 33 seq ++ opts 34 url).
  (* repeated string fields *)
  assert (E4 : all_str 4 (B ++ R ++ O ++ T) = req).
  { rewrite !all_str_app. unfold R, O. rewrite all_str_map_same, (all_str_map_other 4 5) by reflexivity.
    assert (all_str 4 B = []) as -> by (unfold B; destruct bb as [[[[? ?] ?] ?]|]; reflexivity).
    assert (all_str 4 T = []) as -> by (unfold T; destruct prog, src, ts, seq, url; reflexivity).
    simpl. apply app_nil_r. }
  assert (E5 : all_str 5 (B ++ R ++ O ++ T) = opt).
  { rewrite !all_str_app. unfold R, O. rewrite all_str_map_same, (all_str_map_other 5 4) by reflexivity.
    assert (all_str 5 B = []) as -> by (unfold B; destruct bb as [[[[? ?] ?] ?]|]; reflexivity).
    assert (all_str 5 T = []) as -> by (unfold T; destruct prog, src, ts, seq, url; reflexivity).
    simpl. apply app_nil_r. }
  assert (E1 : all_msg 1 (B ++ R ++ O ++ T) = all_msg 1 B).
  { rewrite !all_msg_app. unfold R, O. rewrite !all_msg_map_str.
    assert (all_msg 1 T = []) as -> by (unfold T; destruct prog, src, ts, seq, url; reflexivity).
    simpl. apply app_nil_r. }
  (* optional scalars: only the tail T can carry them *)
  assert (Lv : forall n, last_var n (B ++ R ++ O ++ T) = last_var n T).
  { intros n. rewrite !last_var_lastg, !lastg_app.
    rewrite (lastg_none (gv n) O) by (apply Forall_map_str; reflexivity).
    rewrite (lastg_none (gv n) R) by (apply Forall_map_str; reflexivity).
    assert (lastg (gv n) B None = None) as ->
      by (unfold B; destruct bb as [[[[? ?] ?] ?]|]; reflexivity).
    destruct (lastg (gv n) T None); reflexivity. }
  assert (Ls : forall n, (4 =? n) = false -> (5 =? n) = false -> last_str n (B ++ R ++ O ++ T) = last_str n T).
  { intros n H4 H5. rewrite !last_str_lastg, !lastg_app.
    rewrite (lastg_none (gs n) O) by (apply Forall_map_str; intros s; unfold gs; cbn [fst snd]; rewrite H5; reflexivity).
    rewrite (lastg_none (gs n) R) by (apply Forall_map_str; intros s; unfold gs; cbn [fst snd]; rewrite H4; reflexivity).
    assert (lastg (gs n) B None = None) as ->
      by (unfold B; destruct bb as [[[[? ?] ?] ?]|]; reflexivity).
    destruct (lastg (gs n) T None); reflexivity. }
  rewrite E1, E4, E5, (Lv 32), (Lv 33), (Ls 16), (Ls 17), (Ls 34) by reflexivity.
  rewrite Hreq. cbn [negb].
  assert (Ets : match last_var 32 T with Some x => Some (int64 x) | None => None end = ts).
  { unfold T. destruct prog, src, ts as [t|], seq, url; simpl in *; try reflexivity;
      rewrite (int64_enc t (in64b_spec _ Hts)); reflexivity. }
  assert (Eseq : match last_var 33 T with Some x => x | None => 0 end
                 = match seq with Some x => x mod two64 | None => 0 end).
  { unfold T. destruct prog, src, ts, seq, url; reflexivity. }
  assert (Ep : match last_str 16 T with Some s => s | None => [] end = match prog with Some s => s | None => [] end)
    by (unfold T; destruct prog, src, ts, seq, url; reflexivity).
  assert (Es : match last_str 17 T with Some s => s | None => [] end = match src with Some s => s | None => [] end)
    by (unfold T; destruct prog, src, ts, seq, url; reflexivity).
  assert (Eu : match last_str 34 T with Some s => s | None => [] end = match url with Some s => s | None => [] end)
    by (unfold T; destruct prog, src, ts, seq, url; reflexivity).
  rewrite Ets, Eseq, Ep, Es, Eu.
  unfold B. destruct bb as [[[[l r] t] b]|]; simpl; [|reflexivity].
  rewrite !sint64_zig. reflexivity.
Qed.
