(* Pbf/ProofsLayoutLoops.v — every field loop of the decoder, run on a message whose canonical form
   is a well-formed canonical message E, gives the same result as on E itself. *)
From Coq Require Import ZArith List Bool Lia Permutation.
From Verif Require Import Base.Int64 Pbf.Tree Pbf.Model Pbf.Spec Pbf.Header Pbf.CheckLib Pbf.ProofsLayoutGen.
Import ListNotations.
Open Scope Z_scope.
Open Scope res_scope.

(* G4: G1 + G2 + G3 *)
Section Canon.
  Variable S : Type.
  Variable step : S -> field -> result S.
  Variable Inv : S -> Prop.
  Variable good : field -> Prop.
  Hypothesis ign : forall s f, known_num (fst f) = false -> step s f = Ok s.
  Hypothesis total : forall f s, good f -> Inv s -> exists s', step s f = Ok s' /\ Inv s'.
  Hypothesis diamond : forall f g s s1 s2, good f -> good g -> fst f <> fst g -> Inv s ->
    step s f = Ok s1 -> step s g = Ok s2 -> exists s3, step s1 g = Ok s3 /\ step s2 f = Ok s3.

  Lemma gloop_canon (phi : field -> field) dm E s0 :
    sort_fields (map phi (drop_unknown dm)) = E ->
    (forall x, In x (drop_unknown dm) -> In (phi x) E -> forall s, step s x = step s (phi x)) ->
    Forall good E -> NoDup (map fst E) -> Inv s0 ->
    gloop step dm s0 = gloop step E s0.
  Proof.
    intros Hs Hphi Hg Hn Hi.
    rewrite (gloop_filter S step known_num ign dm s0). fold (drop_unknown dm).
    rewrite (gloop_map S step phi (drop_unknown dm)).
    - symmetry. apply (gloop_perm S step Inv good total diamond); auto.
      rewrite <- Hs. apply sort_fields_perm.
    - apply Forall_forall. intros x Hx. apply Hphi; [exact Hx|].
      rewrite <- Hs. apply in_sort. apply in_map. exact Hx.
  Qed.
End Canon.

Definition idf (x : field) : field := x.
Lemma map_idf (l : msg) : map idf l = l. Proof. apply map_id. Qed.

Ltac inj_ok :=
  repeat match goal with
         | H : Ok _ = Ok _ |- _ => injection H as H; try subst
         end.

(* ---------- block parameters (pass 1) ---------- *)
Lemma pass1_gloop m : forall p, pass1 m p = gloop pass1_step m p.
Proof. induction m as [|f r IH]; intros p; simpl; [reflexivity|]. destruct (pass1_step p f); simpl; auto. Qed.

Definition good_p1 (f : field) : Prop :=
  match f with
  | (k, WMsg _) => k = 1
  | (k, WVar _) => k = 17 \/ k = 18 \/ k = 19 \/ k = 20
  | _ => False
  end.

Lemma p1_total f p : good_p1 f -> True -> exists p', pass1_step p f = Ok p' /\ True.
Proof.
  destruct f as [k [x|l|s|d|fx|fx]]; simpl; intros G _; try contradiction.
  - destruct G as [-> | [-> | [-> | ->]]]; eexists; (split; [reflexivity|exact I]).
  - subst k. eexists; (split; [reflexivity|exact I]).
Qed.

Lemma p1_diamond f g p p1 p2 : good_p1 f -> good_p1 g -> fst f <> fst g -> True ->
  pass1_step p f = Ok p1 -> pass1_step p g = Ok p2 ->
  exists p3, pass1_step p1 g = Ok p3 /\ pass1_step p2 f = Ok p3.
Proof.
  destruct f as [k [x|l|s|d|fx|fx]], g as [k' [x'|l'|s'|d'|fx'|fx']]; simpl; intros G G' Hne _ E1 E2; try contradiction;
    repeat match goal with H : _ \/ _ |- _ => destruct H end; subst;
    try (exfalso; apply Hne; reflexivity);
    unfold pass1_step in *; simpl in *; inj_ok; eexists; (split; reflexivity).
Qed.

Lemma p1_ign p f : known_num (fst f) = false -> pass1_step p f = Ok p.
Proof.
  intros H. unfold pass1_step.
  destruct (Z.eqb_spec (fst f) 1) as [E|_]; [rewrite E in H; discriminate|].
  destruct (Z.eqb_spec (fst f) 17) as [E|_]; [rewrite E in H; discriminate|].
  destruct (Z.eqb_spec (fst f) 18) as [E|_]; [rewrite E in H; discriminate|].
  destruct (Z.eqb_spec (fst f) 19) as [E|_]; [rewrite E in H; discriminate|].
  destruct (Z.eqb_spec (fst f) 20) as [E|_]; [rewrite E in H; discriminate|]. reflexivity.
Qed.

(* ---------- Info of ways and relations ---------- *)
Lemma info_gloop p m : forall i, info_loop p m i = gloop (info_step p) m i.
Proof. induction m as [|f r IH]; intros i; simpl; [reflexivity|]. destruct (info_step p i f); simpl; auto. Qed.

Definition good_info (p : bparams) (f : field) : Prop :=
  match f with
  | (k, WVar x) => k = 1 \/ k = 2 \/ k = 3 \/ k = 4 \/ k = 6 \/
                   (k = 5 /\ exists u s, uint32 x = Ok u /\ idx (p_st p) u = Ok s)
  | _ => False
  end.

Lemma info_total p f i : good_info p f -> True -> exists i', info_step p i f = Ok i' /\ True.
Proof.
  destruct f as [k [x|l|s|d|fx|fx]]; simpl; intros G _; try contradiction.
  destruct G as [-> | [-> | [-> | [-> | [-> | [-> (u & s & U & X)]]]]]]; unfold info_step; simpl;
    try rewrite U; simpl; try rewrite X; simpl; eexists; (split; [reflexivity|exact I]).
Qed.

Lemma info_diamond p f g i i1 i2 : good_info p f -> good_info p g -> fst f <> fst g -> True ->
  info_step p i f = Ok i1 -> info_step p i g = Ok i2 ->
  exists i3, info_step p i1 g = Ok i3 /\ info_step p i2 f = Ok i3.
Proof.
  destruct f as [k [x|l|s|d|fx|fx]], g as [k' [x'|l'|s'|d'|fx'|fx']]; simpl; intros G G' Hne _ E1 E2; try contradiction.
  destruct G as [-> | [-> | [-> | [-> | [-> | [-> (u & s & U & X)]]]]]];
  destruct G' as [-> | [-> | [-> | [-> | [-> | [-> (u' & s' & U' & X')]]]]]];
    try (exfalso; apply Hne; reflexivity);
    unfold info_step in *; simpl in *;
    try rewrite U in *; try rewrite U' in *; simpl in *; try rewrite X in *; try rewrite X' in *; simpl in *;
    inj_ok; eexists; (split; reflexivity).
Qed.

Lemma info_ign p i f : known_num (fst f) = false -> info_step p i f = Ok i.
Proof.
  intros H. unfold info_step.
  destruct (Z.eqb_spec (fst f) 1) as [E|_]; [rewrite E in H; discriminate|].
  destruct (Z.eqb_spec (fst f) 2) as [E|_]; [rewrite E in H; discriminate|].
  destruct (Z.eqb_spec (fst f) 3) as [E|_]; [rewrite E in H; discriminate|].
  destruct (Z.eqb_spec (fst f) 4) as [E|_]; [rewrite E in H; discriminate|].
  destruct (Z.eqb_spec (fst f) 5) as [E|_]; [rewrite E in H; discriminate|].
  destruct (Z.eqb_spec (fst f) 6) as [E|_]; [rewrite E in H; discriminate|]. reflexivity.
Qed.

Lemma info_loop_canon p im E i : canon_leaf im = E -> Forall (good_info p) E -> NoDup (map fst E) ->
  info_loop p im i = info_loop p E i.
Proof.
  intros Hc Hg Hn. rewrite !info_gloop.
  apply (gloop_canon info (info_step p) (fun _ => True) (good_info p) (info_ign p)
           (fun f s => info_total p f s) (fun f g s => info_diamond p f g s) idf); auto.
  rewrite map_idf. exact Hc.
Qed.

(* ---------- DenseInfo ---------- *)
Lemma dinfo_gloop m : forall s, dinfo_loop m s = gloop dinfo_step m s.
Proof. induction m as [|f r IH]; intros s; simpl; [reflexivity|]. destruct (dinfo_step s f); simpl; auto. Qed.

Definition good_dinfo (f : field) : Prop :=
  match f with (k, WPacked _) => k = 1 \/ k = 2 \/ k = 3 \/ k = 4 \/ k = 5 \/ k = 6 | _ => False end.

Lemma dinfo_total f s : good_dinfo f -> True -> exists s', dinfo_step s f = Ok s' /\ True.
Proof.
  destruct f as [k [x|l|b|d|fx|fx]]; simpl; intros G _; try contradiction.
  destruct G as [-> | [-> | [-> | [-> | [-> | ->]]]]]; eexists; (split; [reflexivity|exact I]).
Qed.

Lemma dinfo_diamond f g s s1 s2 : good_dinfo f -> good_dinfo g -> fst f <> fst g -> True ->
  dinfo_step s f = Ok s1 -> dinfo_step s g = Ok s2 ->
  exists s3, dinfo_step s1 g = Ok s3 /\ dinfo_step s2 f = Ok s3.
Proof.
  destruct f as [k [x|l|b|d|fx|fx]], g as [k' [x'|l'|b'|d'|fx'|fx']]; simpl; intros G G' Hne _ E1 E2; try contradiction.
  destruct G as [-> | [-> | [-> | [-> | [-> | ->]]]]]; destruct G' as [-> | [-> | [-> | [-> | [-> | ->]]]]];
    try (exfalso; apply Hne; reflexivity);
    unfold dinfo_step in *; simpl in *; inj_ok; eexists; (split; reflexivity).
Qed.

Lemma dinfo_ign s f : known_num (fst f) = false -> dinfo_step s f = Ok s.
Proof.
  intros H. unfold dinfo_step.
  destruct (Z.eqb_spec (fst f) 1) as [E|_]; [rewrite E in H; discriminate|].
  destruct (Z.eqb_spec (fst f) 2) as [E|_]; [rewrite E in H; discriminate|].
  destruct (Z.eqb_spec (fst f) 3) as [E|_]; [rewrite E in H; discriminate|].
  destruct (Z.eqb_spec (fst f) 4) as [E|_]; [rewrite E in H; discriminate|].
  destruct (Z.eqb_spec (fst f) 5) as [E|_]; [rewrite E in H; discriminate|].
  destruct (Z.eqb_spec (fst f) 6) as [E|_]; [rewrite E in H; discriminate|]. reflexivity.
Qed.

Lemma dinfo_loop_canon im E s : canon_leaf im = E -> Forall good_dinfo E -> NoDup (map fst E) ->
  dinfo_loop im s = dinfo_loop E s.
Proof.
  intros Hc Hg Hn. rewrite !dinfo_gloop.
  apply (gloop_canon _ dinfo_step (fun _ => True) good_dinfo dinfo_ign
           (fun f s => dinfo_total f s) (fun f g s => dinfo_diamond f g s) idf); auto.
  rewrite map_idf. exact Hc.
Qed.

(* ---------- DenseNodes ---------- *)
Lemma dense_gloop m : forall s, dense_loop m s = gloop dense_step m s.
Proof. induction m as [|f r IH]; intros s; simpl; [reflexivity|]. destruct (dense_step s f); simpl; auto. Qed.

Definition good_dense (f : field) : Prop :=
  match f with
  | (k, WPacked _) => k = 1 \/ k = 8 \/ k = 9 \/ k = 10
  | (k, WMsg d) => k = 5 /\ Forall good_dinfo d /\ NoDup (map fst d)
  | _ => False
  end.

Lemma dinfo_loop_total d : Forall good_dinfo d -> forall s, exists s', dinfo_loop d s = Ok s'.
Proof.
  intros H s. rewrite dinfo_gloop.
  destruct (gloop_total _ dinfo_step (fun _ => True) good_dinfo (fun f s => dinfo_total f s) d H s I) as (s' & E & _).
  eauto.
Qed.

Lemma dense_total f s : good_dense f -> True -> exists s', dense_step s f = Ok s' /\ True.
Proof.
  destruct f as [k [x|l|b|d|fx|fx]]; simpl; intros G _; try contradiction.
  - destruct G as [-> | [-> | [-> | ->]]]; eexists; (split; [reflexivity|exact I]).
  - destruct G as (-> & Gd & _). unfold dense_step. simpl.
    destruct (dinfo_loop_total d Gd (c_info (fst s), if0)) as (s' & E). rewrite E. simpl. eauto.
Qed.

Lemma dense_diamond f g s s1 s2 : good_dense f -> good_dense g -> fst f <> fst g -> True ->
  dense_step s f = Ok s1 -> dense_step s g = Ok s2 ->
  exists s3, dense_step s1 g = Ok s3 /\ dense_step s2 f = Ok s3.
Proof.
  destruct s as [[c1 ic c3 c4 c5] [f1 f2 f3 f4 f5]].
  destruct f as [k [x|l|b|d|fx|fx]], g as [k' [x'|l'|b'|d'|fx'|fx']]; simpl; intros G G' Hne _ E1 E2; try contradiction.
  - destruct G as [-> | [-> | [-> | ->]]]; destruct G' as [-> | [-> | [-> | ->]]];
      try (exfalso; apply Hne; reflexivity);
      unfold dense_step in *; simpl in *; inj_ok; eexists; (split; reflexivity).
  - destruct G' as (-> & Gd & _).
    destruct G as [-> | [-> | [-> | ->]]]; unfold dense_step in *; simpl in *;
      destruct (dinfo_loop d' (ic, if0)) as [[ic' fi]| |] eqn:Ed; simpl in *; try discriminate;
      inj_ok; eexists; (split; simpl; rewrite ?Ed; reflexivity).
  - destruct G as (-> & Gd & _).
    destruct G' as [-> | [-> | [-> | ->]]]; unfold dense_step in *; simpl in *;
      destruct (dinfo_loop d (ic, if0)) as [[ic' fi]| |] eqn:Ed; simpl in *; try discriminate;
      inj_ok; eexists; (split; simpl; rewrite ?Ed; reflexivity).
  - destruct G as (-> & _). destruct G' as (-> & _). exfalso. apply Hne. reflexivity.
Qed.

Lemma dense_ign s f : known_num (fst f) = false -> dense_step s f = Ok s.
Proof.
  intros H. unfold dense_step.
  destruct (Z.eqb_spec (fst f) 1) as [E|_]; [rewrite E in H; discriminate|].
  destruct (Z.eqb_spec (fst f) 5) as [E|_]; [rewrite E in H; discriminate|].
  destruct (Z.eqb_spec (fst f) 8) as [E|_]; [rewrite E in H; discriminate|].
  destruct (Z.eqb_spec (fst f) 9) as [E|_]; [rewrite E in H; discriminate|].
  destruct (Z.eqb_spec (fst f) 10) as [E|_]; [rewrite E in H; discriminate|]. reflexivity.
Qed.

(* canonicalising the DenseInfo child does not change the step *)
Lemma dense_step_child E x s : Forall good_dense E -> In (on_msg canon_leaf x) E ->
  dense_step s x = dense_step s (on_msg canon_leaf x).
Proof.
  intros Hg Hin. rewrite Forall_forall in Hg. specialize (Hg _ Hin).
  destruct x as [k [y|l|b|im|fx|fx]]; try reflexivity.
  unfold on_msg in *. simpl in *. destruct Hg as (-> & Gd & Nd).
  unfold dense_step. simpl. rewrite (dinfo_loop_canon im (canon_leaf im) _ eq_refl Gd Nd). reflexivity.
Qed.

Lemma dense_loop_canon dm E s : canon_item dm = E -> Forall good_dense E -> NoDup (map fst E) ->
  dense_loop dm s = dense_loop E s.
Proof.
  intros Hc Hg Hn. rewrite !dense_gloop.
  apply (gloop_canon _ dense_step (fun _ => True) good_dense dense_ign
           (fun f s => dense_total f s) (fun f g s => dense_diamond f g s) (on_msg canon_leaf)); auto.
  intros x _ Hin s0. apply (dense_step_child E); assumption.
Qed.

(* ---------- relations ---------- *)
Lemma rel_gloop p m : forall s, rel_loop p m s = gloop (rel_step p) m s.
Proof. induction m as [|f r IH]; intros s; simpl; [reflexivity|]. destruct (rel_step p s f); simpl; auto. Qed.

Definition good_rel (p : bparams) (f : field) : Prop :=
  match f with
  | (k, WVar _) => k = 1
  | (k, WPacked _) => k = 2 \/ k = 3 \/ k = 8 \/ k = 9 \/ k = 10
  | (k, WMsg d) => k = 4 /\ Forall (good_info p) d /\ NoDup (map fst d)
  | _ => False
  end.

Lemma info_loop_total p d : Forall (good_info p) d -> forall i, exists i', info_loop p d i = Ok i'.
Proof.
  intros H i. rewrite info_gloop.
  destruct (gloop_total _ (info_step p) (fun _ => True) (good_info p) (fun f s => info_total p f s) d H i I) as (s' & E & _).
  eauto.
Qed.

Lemma rel_total p f s : good_rel p f -> True -> exists s', rel_step p s f = Ok s' /\ True.
Proof.
  destruct f as [k [x|l|b|d|fx|fx]]; simpl; intros G _; try contradiction.
  - subst k. eexists; (split; [reflexivity|exact I]).
  - destruct G as [-> | [-> | [-> | [-> | ->]]]]; eexists; (split; [reflexivity|exact I]).
  - destruct G as (-> & Gd & _). unfold rel_step. simpl.
    destruct (info_loop_total p d Gd (r_info (rs_rel s))) as (i' & E). rewrite E. simpl. eauto.
Qed.

Lemma rel_diamond p f g s s1 s2 : good_rel p f -> good_rel p g -> fst f <> fst g -> True ->
  rel_step p s f = Ok s1 -> rel_step p s g = Ok s2 ->
  exists s3, rel_step p s1 g = Ok s3 /\ rel_step p s2 f = Ok s3.
Proof.
  destruct s as [[rid ri rt rm] [c1 c2 c3 c4 c5 c6 c7 c8] fk fv fr fm ft].
  destruct f as [k [x|l|b|d|fx|fx]], g as [k' [x'|l'|b'|d'|fx'|fx']]; simpl; intros G G' Hne _ E1 E2; try contradiction;
    repeat match goal with
           | H : _ /\ _ |- _ => destruct H
           | H : _ \/ _ |- _ => destruct H
           end; subst;
    try (exfalso; apply Hne; reflexivity);
    unfold rel_step in *; simpl in *;
    try (destruct (info_loop p d ri) as [i1| |] eqn:Ed; simpl in *; try discriminate);
    try (destruct (info_loop p d' ri) as [i1'| |] eqn:Ed'; simpl in *; try discriminate);
    inj_ok; eexists; (split; simpl; rewrite ?Ed, ?Ed'; reflexivity).
Qed.

Lemma rel_ign p s f : known_num (fst f) = false -> rel_step p s f = Ok s.
Proof.
  intros H. unfold rel_step.
  destruct (Z.eqb_spec (fst f) 1) as [E|_]; [rewrite E in H; discriminate|].
  destruct (Z.eqb_spec (fst f) 2) as [E|_]; [rewrite E in H; discriminate|].
  destruct (Z.eqb_spec (fst f) 3) as [E|_]; [rewrite E in H; discriminate|].
  destruct (Z.eqb_spec (fst f) 4) as [E|_]; [rewrite E in H; discriminate|].
  destruct (Z.eqb_spec (fst f) 8) as [E|_]; [rewrite E in H; discriminate|].
  destruct (Z.eqb_spec (fst f) 9) as [E|_]; [rewrite E in H; discriminate|].
  destruct (Z.eqb_spec (fst f) 10) as [E|_]; [rewrite E in H; discriminate|]. reflexivity.
Qed.

Lemma rel_step_child p E x s : Forall (good_rel p) E -> In (on_msg canon_leaf x) E ->
  rel_step p s x = rel_step p s (on_msg canon_leaf x).
Proof.
  intros Hg Hin. rewrite Forall_forall in Hg. specialize (Hg _ Hin).
  destruct x as [k [y|l|b|im|fx|fx]]; try reflexivity.
  unfold on_msg in *. simpl in *. destruct Hg as (-> & Gd & Nd).
  unfold rel_step. simpl. rewrite (info_loop_canon p im (canon_leaf im) _ eq_refl Gd Nd). reflexivity.
Qed.

Lemma rel_loop_canon p rm E s : canon_item rm = E -> Forall (good_rel p) E -> NoDup (map fst E) ->
  rel_loop p rm s = rel_loop p E s.
Proof.
  intros Hc Hg Hn. rewrite !rel_gloop.
  apply (gloop_canon _ (rel_step p) (fun _ => True) (good_rel p) (rel_ign p)
           (fun f s => rel_total p f s) (fun f g s => rel_diamond p f g s) (on_msg canon_leaf)); auto.
  intros x _ Hin s0. apply (rel_step_child p E); assumption.
Qed.

(* ---------- ways ---------- *)
Lemma way_gloop p m : forall s, way_loop p m s = gloop (way_step p) m s.
Proof. induction m as [|f r IH]; intros s; simpl; [reflexivity|]. destruct (way_step p s f); simpl; auto. Qed.

Fixpoint map2 {A B} (f : A -> B -> B) (l : list A) (t : list B) : list B :=
  match l, t with
  | x :: l', n :: t' => f x n :: map2 f l' t'
  | _, _ => []
  end.

Lemma map2_length {A B} (f : A -> B -> B) : forall l t, length t = length l -> length (map2 f l t) = length l.
Proof. induction l as [|x l IH]; intros [|n t] H; simpl in *; try discriminate; auto. Qed.

Lemma map2_comm {A A' B} (f : A -> B -> B) (g : A' -> B -> B) :
  (forall x y n, f x (g y n) = g y (f x n)) ->
  forall l l' t, map2 f l (map2 g l' t) = map2 g l' (map2 f l t).
Proof.
  intros H. induction l as [|x l IH]; intros l' t.
  - simpl. destruct l', t; reflexivity.
  - destruct l' as [|y l'], t as [|n t]; simpl; try reflexivity. rewrite H, IH. reflexivity.
Qed.

(* the delta-decoded running values of a column *)
Fixpoint sums (prev : Z) (l : list Z) : list Z :=
  match l with [] => [] | v :: r => let q := wrap64 (sint64 v + prev) in q :: sums q r end.

Lemma sums_length : forall l prev, length (sums prev l) = length l.
Proof. induction l as [|v r IH]; intros prev; simpl; auto. Qed.

Lemma set_nth_app' {A} (done : list A) n todo f :
  set_nth (done ++ n :: todo) (length done) f = Some (done ++ f n :: todo).
Proof. induction done as [|a l IH]; simpl; [reflexivity|]. rewrite IH. reflexivity. Qed.

Lemma fill_gen f : forall l prev done todo, length todo = length l ->
  fill f l prev (length done) (done ++ todo) = Ok (done ++ map2 f (sums prev l) todo).
Proof.
  induction l as [|v r IH]; intros prev done todo Hl.
  - destruct todo; [|discriminate]. simpl. unfold full. rewrite app_nil_r, Nat.eqb_refl. reflexivity.
  - destruct todo as [|n todo]; [discriminate|]. simpl in Hl. injection Hl as Hl.
    cbn [fill sums map2]. unfold upd. rewrite set_nth_app'. cbn [rbind].
    replace (done ++ f (wrap64 (sint64 v + prev)) n :: todo)
      with ((done ++ [f (wrap64 (sint64 v + prev)) n]) ++ todo) by (rewrite <- app_assoc; reflexivity).
    replace (Datatypes.S (length done)) with (length (done ++ [f (wrap64 (sint64 v + prev)) n]))
      by (rewrite app_length, Nat.add_1_r; reflexivity).
    rewrite (IH _ _ todo Hl). rewrite <- app_assoc. reflexivity.
Qed.

Definition InvW (L : nat) (s : wst) : Prop :=
  length (w_nodes (ws_way s)) = O \/ length (w_nodes (ws_way s)) = L.

Definition nodes_upd (f : Z -> wnode -> wnode) (l : list Z) (nodes : list wnode) : list wnode :=
  map2 f (sums 0 l) (alloc_nodes nodes l).

Lemma alloc_length L nodes l : (length nodes = O \/ length nodes = L) -> length l = L ->
  length (alloc_nodes nodes l) = L.
Proof.
  intros [H|H] Hl; destruct nodes; simpl in *; try discriminate; try (rewrite repeat_length); congruence.
Qed.

Lemma alloc_eq_len nodes l l' : length l = length l' -> alloc_nodes nodes l = alloc_nodes nodes l'.
Proof. intros H. destruct nodes; simpl; [rewrite H|]; reflexivity. Qed.

Lemma alloc_keep nodes l : length nodes = length l -> alloc_nodes nodes l = nodes.
Proof. destruct nodes; simpl; intros H; [|reflexivity]. destruct l; [reflexivity|discriminate]. Qed.

Lemma fill_col L f l nodes : (length nodes = O \/ length nodes = L) -> length l = L ->
  fill f l 0 O (alloc_nodes nodes l) = Ok (nodes_upd f l nodes).
Proof.
  intros Hi Hl. unfold nodes_upd.
  apply (fill_gen f l 0 [] (alloc_nodes nodes l)). rewrite (alloc_length L); auto.
Qed.

Lemma nodes_upd_length L f l nodes : (length nodes = O \/ length nodes = L) -> length l = L ->
  length (nodes_upd f l nodes) = L.
Proof.
  intros Hi Hl. unfold nodes_upd. rewrite map2_length; rewrite sums_length; [exact Hl|].
  rewrite (alloc_length L); auto.
Qed.

Lemma nodes_upd_comm L f g l l' nodes :
  (forall x y n, f x (g y n) = g y (f x n)) ->
  (length nodes = O \/ length nodes = L) -> length l = L -> length l' = L ->
  nodes_upd g l' (nodes_upd f l nodes) = nodes_upd f l (nodes_upd g l' nodes).
Proof.
  intros H Hi Hl Hl'. unfold nodes_upd at 1 3.
  rewrite (alloc_keep (nodes_upd f l nodes) l') by (rewrite (nodes_upd_length L); auto; congruence).
  rewrite (alloc_keep (nodes_upd g l' nodes) l) by (rewrite (nodes_upd_length L); auto; congruence).
  unfold nodes_upd. rewrite (alloc_eq_len nodes l' l) by congruence.
  symmetry. apply map2_comm. exact H.
Qed.

Definition good_way (p : bparams) (L : nat) (f : field) : Prop :=
  match f with
  | (k, WVar _) => k = 1
  | (k, WPacked l) => k = 2 \/ k = 3 \/ ((k = 8 \/ k = 9 \/ k = 10) /\ length l = L)
  | (k, WMsg d) => k = 4 /\ Forall (good_info p) d /\ NoDup (map fst d)
  | _ => False
  end.

Lemma way_total p L f s : good_way p L f -> InvW L s -> exists s', way_step p s f = Ok s' /\ InvW L s'.
Proof.
  destruct s as [[wid wi wt wn] wc fk fv]. unfold InvW. simpl.
  destruct f as [k [x|l|b|d|fx|fx]]; simpl; intros G Hi; try contradiction.
  - subst k. eexists; (split; [reflexivity|exact Hi]).
  - destruct G as [-> | [-> | [[-> | [-> | ->]] Hl]]]; unfold way_step; simpl;
      try (eexists; (split; [reflexivity|exact Hi]));
      rewrite (fill_col L _ l wn Hi Hl); simpl; eexists; (split; [reflexivity|]); simpl;
      right; apply (nodes_upd_length L); assumption.
  - destruct G as (-> & Gd & _). unfold way_step. simpl.
    destruct (info_loop_total p d Gd wi) as (i' & E). rewrite E. simpl. eexists; (split; [reflexivity|exact Hi]).
Qed.

Lemma setw_comm1 p x y n : set_wid x (set_wlat p y n) = set_wlat p y (set_wid x n). Proof. reflexivity. Qed.
Lemma setw_comm2 p x y n : set_wid x (set_wlon p y n) = set_wlon p y (set_wid x n). Proof. reflexivity. Qed.
Lemma setw_comm3 p x y n : set_wlat p x (set_wlon p y n) = set_wlon p y (set_wlat p x n). Proof. reflexivity. Qed.
Lemma setw_comm1' p x y n : set_wlat p y (set_wid x n) = set_wid x (set_wlat p y n). Proof. reflexivity. Qed.
Lemma setw_comm2' p x y n : set_wlon p y (set_wid x n) = set_wid x (set_wlon p y n). Proof. reflexivity. Qed.
Lemma setw_comm3' p x y n : set_wlon p y (set_wlat p x n) = set_wlat p x (set_wlon p y n). Proof. reflexivity. Qed.

Lemma way_diamond p L f g s s1 s2 : good_way p L f -> good_way p L g -> fst f <> fst g -> InvW L s ->
  way_step p s f = Ok s1 -> way_step p s g = Ok s2 ->
  exists s3, way_step p s1 g = Ok s3 /\ way_step p s2 f = Ok s3.
Proof.
  destruct s as [[wid wi wt wn] [c1 c2 c3 c4 c5 c6 c7 c8] fk fv]. unfold InvW. simpl.
  destruct f as [k [x|l|b|d|fx|fx]], g as [k' [x'|l'|b'|d'|fx'|fx']]; simpl; intros G G' Hne Hi E1 E2; try contradiction;
    repeat match goal with
           | H : _ /\ _ |- _ => destruct H
           | H : _ \/ _ |- _ => destruct H
           end; subst;
    try (exfalso; apply Hne; reflexivity);
    unfold way_step in *; simpl in *;
    repeat match goal with
           | H : context [fill ?f ?l 0 O (alloc_nodes wn ?l)] |- _ =>
               rewrite (fill_col (length l) f l wn) in H
                 by (first [reflexivity | left; assumption | right; congruence | right; assumption]); simpl in H
           end;
    try (destruct (info_loop p d wi) as [i1| |] eqn:Ed; simpl in *; try discriminate);
    try (destruct (info_loop p d' wi) as [i1'| |] eqn:Ed'; simpl in *; try discriminate);
    inj_ok; eexists;
    (split; simpl; rewrite ?Ed, ?Ed';
     repeat match goal with
            | |- context [fill ?f ?l 0 O (alloc_nodes ?n ?l)] =>
                rewrite (fill_col (length l) f l n)
                  by (first [assumption | reflexivity | congruence
                            | right; apply nodes_upd_length; (assumption || congruence)
                            | (left; assumption) | (right; congruence) | (right; assumption)])
            end; simpl; try reflexivity).
  (* remaining: the pairs among refs / lat / lon *)
  all: try (match goal with
       | |- rbind (fill ?f ?l2 0 O (alloc_nodes (nodes_upd ?g ?l1 ?n0) ?l2)) _ = Ok _ =>
           rewrite (fill_col (length l2) f l2 (nodes_upd g l1 n0));
             [ simpl
             | right; rewrite (nodes_upd_length (length l1) g l1 n0);
                 [ congruence | first [left; assumption | right; congruence | right; assumption] | reflexivity ]
             | reflexivity ]
       end).
  all: try reflexivity.
  all: match goal with
       | |- context [nodes_upd ?g ?la (nodes_upd ?f ?lb ?n0)] =>
           rewrite (nodes_upd_comm (length la) f g lb la n0);
             [ reflexivity
             | intros; reflexivity
             | first [left; assumption | right; congruence | right; assumption]
             | congruence
             | reflexivity ]
       end.
Qed.

Lemma way_ign p s f : known_num (fst f) = false -> way_step p s f = Ok s.
Proof.
  intros H. unfold way_step.
  destruct (Z.eqb_spec (fst f) 1) as [E|_]; [rewrite E in H; discriminate|].
  destruct (Z.eqb_spec (fst f) 2) as [E|_]; [rewrite E in H; discriminate|].
  destruct (Z.eqb_spec (fst f) 3) as [E|_]; [rewrite E in H; discriminate|].
  destruct (Z.eqb_spec (fst f) 4) as [E|_]; [rewrite E in H; discriminate|].
  destruct (Z.eqb_spec (fst f) 8) as [E|_]; [rewrite E in H; discriminate|].
  destruct (Z.eqb_spec (fst f) 9) as [E|_]; [rewrite E in H; discriminate|].
  destruct (Z.eqb_spec (fst f) 10) as [E|_]; [rewrite E in H; discriminate|]. reflexivity.
Qed.

Lemma way_step_child p L E x s : Forall (good_way p L) E -> In (on_msg canon_leaf x) E ->
  way_step p s x = way_step p s (on_msg canon_leaf x).
Proof.
  intros Hg Hin. rewrite Forall_forall in Hg. specialize (Hg _ Hin).
  destruct x as [k [y|l|b|im|fx|fx]]; try reflexivity.
  unfold on_msg in *. simpl in *. destruct Hg as (-> & Gd & Nd).
  unfold way_step. simpl. rewrite (info_loop_canon p im (canon_leaf im) _ eq_refl Gd Nd). reflexivity.
Qed.

Lemma way_loop_canon p L wm E s : canon_item wm = E -> Forall (good_way p L) E -> NoDup (map fst E) ->
  InvW L s -> way_loop p wm s = way_loop p E s.
Proof.
  intros Hc Hg Hn Hi. rewrite !way_gloop.
  apply (gloop_canon _ (way_step p) (InvW L) (good_way p L) (way_ign p)
           (fun f s => way_total p L f s) (fun f g s => way_diamond p L f g s) (on_msg canon_leaf)); auto.
  intros x _ Hin s0. apply (way_step_child p L E); assumption.
Qed.
