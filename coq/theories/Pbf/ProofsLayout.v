(* Pbf/ProofsLayout.v — field_order_irrelevant: a block message whose canonical form (unknown fields
   dropped, fields of every message stably sorted by number, primitive groups keeping the order of
   their items) is the reference encoding of a valid description decodes to exactly the elements of
   that description — for every layout, with any unknown fields, from every decoder state. *)
From Coq Require Import ZArith List Bool Lia Permutation.
From Verif Require Import Base.Int64 Pbf.Tree Pbf.Model Pbf.Spec Pbf.Header Pbf.CheckLib
     Pbf.ProofsArith Pbf.ProofsIndep Pbf.ProofsFilter Pbf.ProofsDecode Pbf.ProofsDense
     Pbf.ProofsLayoutGen Pbf.ProofsLayoutLoops.
Import ListNotations.
Open Scope Z_scope.
Open Scope res_scope.

Ltac forall_good tac := repeat (apply Forall_cons; [simpl; auto 10; tac|]); try apply Forall_nil.

Ltac nodup_keys :=
  simpl; repeat (constructor; [simpl; intuition discriminate|]); try constructor.

(* ---------- the reference encodings are well-formed canonical messages ---------- *)
Lemma enc_dinfo_good fl inf : Forall good_dinfo (enc_dinfo fl inf) /\ NoDup (map fst (enc_dinfo fl inf)).
Proof.
  unfold enc_dinfo. destruct fl as [f1 f2 f3 f4 f5 f6].
  destruct f1, f2, f3, f4, f5, f6; simpl; (split; [forall_good idtac|nodup_keys]).
Qed.

Lemma enc_dense_good d : Forall good_dense (enc_dense d) /\ NoDup (map fst (enc_dense d)).
Proof.
  unfold enc_dense. destruct (enc_dinfo_good (de_cols d) (map dn_info (de_nodes d))) as [G N].
  fold (enc_dinfo (de_cols d) (map dn_info (de_nodes d))).
  destruct (dense_omitted d), (de_hasinfo d), (de_haskv d); simpl;
    (split; [forall_good idtac|nodup_keys]).
Qed.

Lemma enc_info_good b fl i : info_ok b true fl i = true ->
  Forall (good_info (bp b)) (enc_info fl i) /\ NoDup (map fst (enc_info fl i)).
Proof.
  intros H. apply info_ok_spec in H. destruct H as (_ & _ & _ & _ & H5 & _).
  unfold enc_info. destruct fl as [f1 f2 f3 f4 f5 f6]. simpl in H5.
  assert (G5 : f5 = true -> good_info (bp b) (5, WVar (id_usid i))).
  { intros ->. simpl in H5. simpl. right. right. right. right. right. split; [reflexivity|].
    exists (id_usid i), (str b (id_usid i)). pose proof (sid_ok_spec b _ H5) as [A B].
    split; [apply uint32_small; lia|]. apply idx_str. exact H5. }
  destruct f1, f2, f3, f4, f5, f6; simpl;
    (split; [forall_good ltac:(try (apply G5; reflexivity))|nodup_keys]).
Qed.

Lemma enc_rel_good b r : rel_ok b r = true ->
  Forall (good_rel (bp b)) (enc_rel r) /\ NoDup (map fst (enc_rel r)).
Proof.
  intros H. destruct (rel_ok_spec b r H) as (_ & Hinfo & _ & _).
  unfold enc_rel.
  assert (Gi : rd_hasinfo r = true -> good_rel (bp b) (4, WMsg (enc_info (rd_fields r) (rd_info r)))).
  { intros E. rewrite E in Hinfo. destruct (enc_info_good b _ _ Hinfo) as [A B]. simpl. auto. }
  destruct (has_tags (rd_tags r) (rd_forcetags r)), (rd_hasinfo r),
           (match rd_members r with [] => rd_forcemembers r | _ :: _ => true end); simpl;
    (split; [forall_good ltac:(try (apply Gi; reflexivity))|nodup_keys]).
Qed.

Lemma enc_way_good b w : way_ok b w = true ->
  Forall (good_way (bp b) (length (wd_refs w))) (enc_way w) /\ NoDup (map fst (enc_way w)).
Proof.
  intros H. destruct (way_ok_spec b w H) as (_ & Hinfo & _ & _ & Hlocs).
  unfold enc_way.
  assert (Gi : wd_hasinfo w = true -> good_way (bp b) (length (wd_refs w)) (4, WMsg (enc_info (wd_fields w) (wd_info w)))).
  { intros E. rewrite E in Hinfo. destruct (enc_info_good b _ _ Hinfo) as [A B]. simpl. auto. }
  assert (G8 : good_way (bp b) (length (wd_refs w)) (8, WPacked (deltas64 0 (wd_refs w)))).
  { simpl. right. right. split; [auto|apply deltas64_length]. }
  assert (G9 : wd_haslocs w = true ->
               good_way (bp b) (length (wd_refs w)) (9, WPacked (deltas64 0 (wd_lats w)))
               /\ good_way (bp b) (length (wd_refs w)) (10, WPacked (deltas64 0 (wd_lons w)))).
  { intros E. destruct (Hlocs E) as (La & Lo & _). simpl. rewrite !deltas64_length. auto 10. }
  destruct (has_tags (wd_tags w) (wd_forcetags w)), (wd_hasinfo w),
           (match wd_refs w with [] => wd_forcerefs w | _ :: _ => true end), (wd_haslocs w); simpl;
    (split; [forall_good ltac:(try (apply Gi; reflexivity); try exact G8; try (apply (G9 eq_refl)))|nodup_keys]).
Qed.

(* ---------- items ---------- *)
Lemma scan_dense_layout c p dc dm d q : canon_item dm = enc_dense d ->
  scan_dense c p dc dm q = scan_dense c p dc (enc_dense d) q.
Proof.
  intros Hc. unfold scan_dense. destruct (enc_dense_good d) as [G N].
  rewrite (dense_loop_canon dm (enc_dense d) _ Hc G N). reflexivity.
Qed.

Lemma scan_rel_layout b wc rm r r0 : rel_ok b r = true -> canon_item rm = enc_rel r ->
  scan_relation (bp b) wc rm r0 = scan_relation (bp b) wc (enc_rel r) r0.
Proof.
  intros Hv Hc. unfold scan_relation. destruct (enc_rel_good b r Hv) as [G N].
  rewrite (rel_loop_canon (bp b) rm (enc_rel r) _ Hc G N). reflexivity.
Qed.

Lemma scan_way_layout b wc wm w : way_ok b w = true -> canon_item wm = enc_way w ->
  scan_way (bp b) wc wm way0 = scan_way (bp b) wc (enc_way w) way0.
Proof.
  intros Hv Hc. unfold scan_way. destruct (enc_way_good b w Hv) as [G N].
  rewrite (way_loop_canon (bp b) (length (wd_refs w)) wm (enc_way w) _ Hc G N); [reflexivity|].
  left. reflexivity.
Qed.

(* an item in any layout decodes to its meaning *)
Definition item_decodes_l (b : block_d) (it : item_d) : Prop :=
  forall x d q, on_msg canon_item x = enc_item it -> d_p d = bp b ->
  exists d', group_step cfg_all (mkG d way0 rel0 q) x = Ok (mkG d' way0 rel0 (q ++ item_elements b it))
             /\ d_p d' = bp b.

Lemma on_msg_inv g x k m : on_msg g x = (k, WMsg m) -> exists xm, x = (k, WMsg xm) /\ g xm = m.
Proof.
  destruct x as [kx [y|l|s|xm|fx|fx]]; unfold on_msg; simpl; intros H; try discriminate.
  injection H as -> <-. eauto.
Qed.

Lemma item_layout b it : item_ok b it = true -> item_decodes_l b it.
Proof.
  intros Hv x d q Hx Hp.
  destruct it as [dd|w|r|id|pn]; [| | | |discriminate Hv];
  simpl in Hx, Hv; destruct (on_msg_inv _ _ _ _ Hx) as (xm & -> & Hc).
  - destruct (dense_decodes b dd Hv d q Hp) as (d' & E & Hp'). exists d'. split; [|exact Hp'].
    rewrite <- E. unfold group_step. simpl. rewrite (scan_dense_layout _ _ _ xm dd _ Hc). reflexivity.
  - destruct (way_decodes b w Hv d q Hp) as (d' & E & Hp'). exists d'. split; [|exact Hp'].
    rewrite <- E. unfold group_step. simpl. rewrite Hp.
    rewrite (scan_way_layout b _ xm w Hv Hc). reflexivity.
  - destruct (rel_decodes b r Hv d q Hp) as (d' & E & Hp'). exists d'. split; [|exact Hp'].
    rewrite <- E. unfold group_step. simpl. rewrite Hp.
    rewrite (scan_rel_layout b _ xm r _ Hv Hc). reflexivity.
  - exists d. simpl. rewrite app_nil_r. unfold group_step. simpl. auto.
Qed.

(* ---------- groups ---------- *)
Lemma group_step_ign c s x : known_num (fst x) = false -> group_step c s x = Ok s.
Proof.
  intros H. unfold group_step.
  destruct (Z.eqb_spec (fst x) 1) as [E|_]; [rewrite E in H; discriminate|].
  destruct (Z.eqb_spec (fst x) 2) as [E|_]; [rewrite E in H; discriminate|].
  destruct (Z.eqb_spec (fst x) 3) as [E|_]; [rewrite E in H; discriminate|].
  destruct (Z.eqb_spec (fst x) 4) as [E|_]; [rewrite E in H; discriminate|]. reflexivity.
Qed.

Lemma group_layout b : forall gm g d q,
  canon_group gm = map enc_item g -> forallb (item_ok b) g = true -> d_p d = bp b ->
  exists d', group_loop cfg_all gm (mkG d way0 rel0 q) = Ok (mkG d' way0 rel0 (q ++ group_elements b g))
             /\ d_p d' = bp b.
Proof.
  unfold canon_group, drop_unknown, group_elements.
  induction gm as [|x gm IH]; intros g d q Hc Hv Hp; simpl in Hc.
  - destruct g; [|discriminate]. exists d. simpl. rewrite app_nil_r. auto.
  - destruct (known_num (fst x)) eqn:K.
    + destruct g as [|it g]; [discriminate|]. simpl in Hc. injection Hc as Hx Hr.
      simpl in Hv. apply andb_prop in Hv. destruct Hv as [Hit Hg].
      destruct (item_layout b it Hit x d q Hx Hp) as (d1 & E & Hp1).
      simpl. rewrite E. simpl.
      destruct (IH g d1 (q ++ item_elements b it) Hr Hg Hp1) as (d2 & E2 & Hp2).
      exists d2. rewrite E2. rewrite <- app_assoc. auto.
    + simpl. rewrite (group_step_ign cfg_all _ x K). simpl. apply IH; assumption.
Qed.

(* ---------- blocks ---------- *)
Definition gphi (x : field) : field := if fst x =? 2 then on_msg canon_group x else x.

Lemma canon_block_eq m : canon_block m = sort_fields (map gphi (drop_unknown m)).
Proof. reflexivity. Qed.

Lemma gphi_fst x : fst (gphi x) = fst x.
Proof. unfold gphi. destruct (fst x =? 2); [apply on_msg_fst|reflexivity]. Qed.

(* pass 1 only looks at fields 1, 17..20 *)
Definition rel1 (n : Z) : bool := (n =? 1) || (n =? 17) || (n =? 18) || (n =? 19) || (n =? 20).

Lemma p1_ign1 p f : rel1 (fst f) = false -> pass1_step p f = Ok p.
Proof.
  unfold rel1, pass1_step. intros H.
  destruct (fst f =? 1); [discriminate|]. destruct (fst f =? 17); [discriminate|].
  destruct (fst f =? 18); [discriminate|]. destruct (fst f =? 19); [discriminate|].
  destruct (fst f =? 20); [discriminate|]. reflexivity.
Qed.

Lemma filter_rel1_gphi : forall l, filter (fun f => rel1 (fst f)) (map gphi l) = filter (fun f => rel1 (fst f)) l.
Proof.
  induction l as [|x l IH]; simpl; [reflexivity|]. rewrite gphi_fst, IH.
  destruct (rel1 (fst x)) eqn:E; [|reflexivity]. f_equal. unfold gphi.
  destruct (Z.eqb_spec (fst x) 2) as [E2|_]; [rewrite E2 in E; discriminate|reflexivity].
Qed.

Lemma filter_rel1_known : forall l, filter (fun f => rel1 (fst f)) (drop_unknown l) = filter (fun f => rel1 (fst f)) l.
Proof.
  unfold drop_unknown. induction l as [|x l IH]; simpl; [reflexivity|].
  destruct (known_num (fst x)) eqn:K; simpl; rewrite IH; [reflexivity|].
  destruct (rel1 (fst x)) eqn:E; [|reflexivity]. exfalso. unfold rel1 in E.
  repeat (apply orb_prop in E; destruct E as [E|E]); apply Z.eqb_eq in E; rewrite E in K; discriminate.
Qed.

Lemma filter_rel1_groups gs : filter (fun f : Z * wval => rel1 (fst f)) (map enc_group gs) = [].
Proof. induction gs as [|a gs' IHg]; [reflexivity|unfold enc_group; simpl; exact IHg]. Qed.

Lemma pass1_layout m b : canon_block m = encode_block b -> valid_block b = true ->
  pass1 m p0 = Ok (bp b).
Proof.
  intros Hc Hv. rewrite <- (pass1_encode b Hv). rewrite (pass1_gloop m), (pass1_gloop (encode_block b)).
  rewrite (gloop_filter _ pass1_step rel1 p1_ign1 m p0).
  rewrite (gloop_filter _ pass1_step rel1 p1_ign1 (encode_block b) p0).
  assert (Hp : Permutation (filter (fun f => rel1 (fst f)) (encode_block b)) (filter (fun f => rel1 (fst f)) m)).
  { rewrite <- Hc, canon_block_eq.
    eapply Permutation_trans; [apply Permutation_filter, sort_fields_perm|].
    rewrite filter_rel1_gphi, filter_rel1_known. apply Permutation_refl. }
  symmetry.
  apply (gloop_perm _ pass1_step (fun _ => True) good_p1 (fun f s => p1_total f s) (fun f g s => p1_diamond f g s) _ _ Hp);
    [| |exact I].
  - unfold encode_block. destruct b as [st om g dg la lo gs]. simpl.
    rewrite !filter_app.
    rewrite filter_rel1_groups. destruct om, g, dg, la, lo; simpl; forall_good idtac.
  - unfold encode_block. destruct b as [st om g dg la lo gs]. simpl.
    rewrite !filter_app.
    rewrite filter_rel1_groups. destruct om, g, dg, la, lo; nodup_keys.
Qed.

(* pass 2 only looks at the fields numbered 2, in order *)
Lemma pass2_keyis2 c : forall m d q, pass2 c m d q = pass2 c (filter (keyis 2) m) d q.
Proof.
  unfold keyis. induction m as [|f r IH]; intros d q; simpl; [reflexivity|].
  destruct (fst f =? 2) eqn:E; simpl; [rewrite E|apply IH].
  destruct (as_msg (snd f)); simpl; auto. destruct (scan_group c d a q) as [[d' q']| |]; simpl; auto.
Qed.

Lemma filter2_gphi : forall l,
  filter (keyis 2) (map gphi (drop_unknown l)) = map (on_msg canon_group) (filter (keyis 2) l).
Proof.
  unfold drop_unknown, keyis. induction l as [|x l IH]; simpl; [reflexivity|].
  destruct (Z.eqb_spec (fst x) 2) as [E|E].
  - rewrite E. simpl. rewrite gphi_fst, E. simpl. rewrite IH. f_equal. unfold gphi. rewrite E. reflexivity.
  - destruct (known_num (fst x)); simpl; [|exact IH]. rewrite gphi_fst.
    destruct (Z.eqb_spec (fst x) 2) as [E'|_]; [contradiction|]. exact IH.
Qed.

Lemma filter2_groups gs : filter (keyis 2) (map enc_group gs) = map enc_group gs.
Proof. unfold keyis. induction gs as [|a gs' IHg]; simpl; [reflexivity|]. rewrite IHg. reflexivity. Qed.

Lemma filter2_encode b : filter (keyis 2) (encode_block b) = map enc_group (b_groups b).
Proof.
  unfold encode_block. rewrite !filter_app, filter2_groups.
  destruct (b_omit_st b), (b_gran b), (b_dgran b), (b_latoff b), (b_lonoff b); simpl; rewrite ?app_nil_r; reflexivity.
Qed.

Lemma pass2_layout b : forall gs' gs d q,
  map (on_msg canon_group) gs' = map enc_group gs ->
  forallb (forallb (item_ok b)) gs = true -> d_p d = bp b ->
  exists d', pass2 cfg_all gs' d q = Ok (d', q ++ flat_map (group_elements b) gs) /\ d_p d' = bp b.
Proof.
  induction gs' as [|x gs' IH]; intros gs d q Hm Hv Hp.
  - destruct gs; [|discriminate]. exists d. simpl. rewrite app_nil_r. auto.
  - destruct gs as [|g gs]; [discriminate|]. simpl in Hm. injection Hm as Hx Hr.
    simpl in Hv. apply andb_prop in Hv. destruct Hv as [Hg Hgs].
    unfold enc_group in Hx. destruct (on_msg_inv _ _ _ _ Hx) as (gm & -> & Hc).
    destruct (group_layout b gm g d q Hc Hg Hp) as (d1 & E & Hp1).
    simpl. unfold scan_group. rewrite E. simpl.
    destruct (IH gs d1 (q ++ group_elements b g) Hr Hgs Hp1) as (d2 & E2 & Hp2).
    exists d2. rewrite E2. rewrite <- app_assoc. auto.
Qed.

Theorem field_order_irrelevant : forall b m,
  valid_block b = true -> canon_block m = encode_block b ->
  forall c st, scan_result c st m = Ok (filter (keeps c) (elements b)).
Proof.
  intros b m Hv Hc c st. apply filter_is_subsequence.
  unfold scan_result, scan_block. rewrite (pass1_layout m b Hc Hv). simpl.
  rewrite pass2_keyis2.
  assert (Hm : map (on_msg canon_group) (filter (keyis 2) m) = map enc_group (b_groups b)).
  { rewrite <- (filter2_gphi m). rewrite <- (filter_sort_fields 2 (map gphi (drop_unknown m))).
    change (sort_fields (map gphi (drop_unknown m))) with (canon_block m). rewrite Hc. apply filter2_encode. }
  assert (Hg : forallb (forallb (item_ok b)) (b_groups b) = true).
  { unfold valid_block in Hv. apply andb_prop in Hv. destruct Hv as [_ Hv]. exact Hv. }
  destruct (pass2_layout b _ _ (mkD (bp b) (d_dc st) (d_wc st)) [] Hm Hg eq_refl) as (d' & E & _).
  rewrite E. reflexivity.
Qed.

(* REFUTED: field_order_irrelevant with the FORMAT's canonical form (mcanon_block: chunks of a split
   packed column concatenated, as the protobuf encoding rules demand of every parser) instead of
   canon_block is false of the faithful model (and of the implementation: replayed, known finding
   "packed-column-split"): a way whose refs column [1; 2] is written as two chunks decodes silently to
   a way with the single node 1 — the iterator of the second chunk replaces the first. *)
Definition split_witness_block : block_d :=
  mkBlockD [[]] false None None None None
    [[IWay (mkWayD 7 false (mkFl false false false false false false) (mkInfoD 0 0 0 0 0 true) [] false [1; 2] false false [] [])]].
Definition split_witness_tree : msg :=
  [(1, WMsg [(1, WStr [])]); (2, WMsg [(3, WMsg [(1, WVar 7); (8, WPacked [2]); (8, WPacked [2])])])].

Theorem split_packed_refuted :
  valid_block split_witness_block = true
  /\ mcanon_block split_witness_tree = encode_block split_witness_block
  /\ elements split_witness_block = [OWay (mkWay 7 info0 [] [mkWN 1 0 0; mkWN 2 0 0])]
  /\ forall st, scan_result cfg_all st split_witness_tree = Ok [OWay (mkWay 7 info0 [] [mkWN 1 0 0])].
Proof.
  split; [vm_compute; reflexivity|]. split; [vm_compute; reflexivity|]. split; [vm_compute; reflexivity|].
  intros st. rewrite (scan_result_state_independent cfg_all st dstate0). vm_compute. reflexivity.
Qed.

(* ---------- theorem 7 at FILE level: every block of the file in any layout ---------- *)
(* ms are the trees actually fed to the n workers (block k on worker k mod n, any worker states);
   each is some layout of the corresponding valid block description.  Wave 5: closes "canonical
   layout only at file level". *)
Lemma scan_file_from_layout c n : forall (f : list block_d) ms, forallb valid_block f = true ->
  Forall2 (fun m b => canon_block m = encode_block b) ms f ->
  forall states k, scan_file_from c n states k ms = Ok (filter (keeps c) (flat_map elements f)).
Proof.
  intros f ms Hv HF. revert Hv. induction HF as [|m b ms f Hmb HF IH]; intros Hv states k; simpl; [reflexivity|].
  simpl in Hv. apply andb_prop in Hv. destruct Hv as [Hb Hf].
  pose proof (field_order_irrelevant b m Hb Hmb c (nth (Nat.modulo k n) states dstate0)) as Hr.
  unfold scan_result in Hr.
  destruct (scan_block c (nth (Nat.modulo k n) states dstate0) m) as [[st' q]| |]; try discriminate.
  injection Hr as ->. rewrite (IH Hf). rewrite filter_app. reflexivity.
Qed.

Theorem scan_file_layout c n (f : list block_d) ms : forallb valid_block f = true ->
  Forall2 (fun m b => canon_block m = encode_block b) ms f ->
  scan_file c n ms = Ok (filter (keeps c) (flat_map elements f)).
Proof. intros Hv HF. unfold scan_file. apply scan_file_from_layout; assumption. Qed.
