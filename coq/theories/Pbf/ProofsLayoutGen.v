(* Pbf/ProofsLayoutGen.v — generic facts for "field order is irrelevant":
   field loops as folds; skipping unknown fields; canonicalising children; reordering fields with
   distinct numbers whose handlers succeed and commute; the canonical sort is a stable permutation. *)
From Coq Require Import ZArith List Bool Lia Permutation.
From Verif Require Import Base.Int64 Pbf.Tree Pbf.Model Pbf.Spec Pbf.Header Pbf.CheckLib.
Import ListNotations.
Open Scope Z_scope.
Open Scope res_scope.

Definition field := (Z * wval)%type.

Section Loop.
  Variable S : Type.
  Variable step : S -> field -> result S.

  Fixpoint gloop (m : msg) (s : S) : result S :=
    match m with
    | [] => Ok s
    | f :: r => s' <- step s f ;;; gloop r s'
    end.

  (* G1: fields the handler ignores can be dropped *)
  Lemma gloop_filter (rel : Z -> bool) :
    (forall s f, rel (fst f) = false -> step s f = Ok s) ->
    forall m s, gloop m s = gloop (filter (fun f => rel (fst f)) m) s.
  Proof.
    intros H. induction m as [|f r IH]; intros s; simpl; [reflexivity|].
    destruct (rel (fst f)) eqn:E; simpl.
    - destruct (step s f); simpl; auto.
    - rewrite (H s f E). simpl. apply IH.
  Qed.

  (* G2: replacing every field by an equivalent one *)
  Lemma gloop_map (phi : field -> field) :
    forall m, Forall (fun f => forall s, step s f = step s (phi f)) m ->
    forall s, gloop m s = gloop (map phi m) s.
  Proof.
    induction 1 as [|f r Hf _ IH]; intros s; simpl; [reflexivity|].
    rewrite <- (Hf s). destruct (step s f); simpl; auto.
  Qed.

  (* G3: reordering.  good fields always succeed on invariant states, preserve the invariant, and
     two good fields with different numbers reach the same state in either order *)
  Variable Inv : S -> Prop.
  Variable good : field -> Prop.
  Hypothesis total : forall f s, good f -> Inv s -> exists s', step s f = Ok s' /\ Inv s'.
  Hypothesis diamond : forall f g s s1 s2, good f -> good g -> fst f <> fst g -> Inv s ->
    step s f = Ok s1 -> step s g = Ok s2 -> exists s3, step s1 g = Ok s3 /\ step s2 f = Ok s3.

  Lemma gloop_total l : Forall good l -> forall s, Inv s -> exists s', gloop l s = Ok s' /\ Inv s'.
  Proof.
    induction 1 as [|f r Gf _ IH]; intros s Hi; simpl; [eauto|].
    destruct (total f s Gf Hi) as (s1 & E & I1). rewrite E. simpl. apply IH. exact I1.
  Qed.

  Lemma gloop_perm l1 l2 : Permutation l1 l2 -> Forall good l1 -> NoDup (map fst l1) ->
    forall s, Inv s -> gloop l1 s = gloop l2 s.
  Proof.
    induction 1 as [|x l l' Hp IH|x y l|l l' l'' Hp1 IH1 Hp2 IH2]; intros Hg Hn s Hi.
    - reflexivity.
    - inversion Hg as [|? ? Gx Gl]; subst. inversion Hn as [|? ? Nx Nl]; subst. simpl.
      destruct (total x s Gx Hi) as (s' & E & Hi'). rewrite E. simpl. apply IH; assumption.
    - inversion Hg as [|? ? Gy Gl]; subst. inversion Gl as [|? ? Gx Gl']; subst.
      inversion Hn as [|? ? Ny Nl]; subst. simpl in Ny.
      assert (Hne : fst y <> fst x) by (intros E; apply Ny; left; symmetry; exact E).
      destruct (total y s Gy Hi) as (s1 & E1 & I1). destruct (total x s Gx Hi) as (s2 & E2 & I2).
      destruct (diamond y x s s1 s2 Gy Gx Hne Hi E1 E2) as (s3 & D1 & D2).
      simpl. rewrite E1, E2. simpl. rewrite D1, D2. reflexivity.
    - rewrite (IH1 Hg Hn s Hi). apply IH2; [|exact (Permutation_NoDup (Permutation_map fst Hp1) Hn)|exact Hi].
      apply Forall_forall. intros f Hf. rewrite Forall_forall in Hg. apply Hg.
      apply (Permutation_in _ (Permutation_sym Hp1)). exact Hf.
  Qed.
End Loop.
Arguments gloop {S}.

(* ---------- the canonical sort ---------- *)
Lemma insert_field_perm f : forall l, Permutation (insert_field f l) (f :: l).
Proof.
  induction l as [|g r IH]; simpl; [apply Permutation_refl|].
  destruct (fst g <? fst f); [|apply Permutation_refl].
  eapply Permutation_trans; [apply perm_skip; exact IH|apply perm_swap].
Qed.

Lemma sort_fields_perm : forall l, Permutation (sort_fields l) l.
Proof.
  unfold sort_fields. induction l as [|f r IH]; simpl; [constructor|].
  eapply Permutation_trans; [apply insert_field_perm|apply perm_skip; exact IH].
Qed.

Definition keyis (n : Z) (f : field) : bool := fst f =? n.

Lemma filter_insert_field n f : forall l,
  filter (keyis n) (insert_field f l) = if keyis n f then f :: filter (keyis n) l else filter (keyis n) l.
Proof.
  unfold keyis. induction l as [|g r IH]; simpl.
  - destruct (fst f =? n); reflexivity.
  - destruct (fst g <? fst f) eqn:E.
    + simpl. rewrite IH. destruct (fst f =? n) eqn:Ef; [|reflexivity].
      apply Z.eqb_eq in Ef. apply Z.ltb_lt in E.
      destruct (fst g =? n) eqn:Eg; [apply Z.eqb_eq in Eg; lia|reflexivity].
    + simpl. destruct (fst f =? n); reflexivity.
Qed.

(* stability: the fields with a given number keep their relative order *)
Lemma filter_sort_fields n : forall l, filter (keyis n) (sort_fields l) = filter (keyis n) l.
Proof.
  unfold sort_fields. induction l as [|f r IH]; simpl; [reflexivity|].
  rewrite filter_insert_field, IH. reflexivity.
Qed.

Lemma Permutation_filter {A} (p : A -> bool) l l' : Permutation l l' -> Permutation (filter p l) (filter p l').
Proof.
  induction 1 as [|x l l' _ IH|x y l|l l' l'' _ IH1 _ IH2]; simpl.
  - constructor.
  - destruct (p x); [apply perm_skip|]; exact IH.
  - destruct (p x), (p y); try apply Permutation_refl. apply perm_swap.
  - eapply Permutation_trans; eassumption.
Qed.

Lemma on_msg_fst g x : fst (on_msg g x) = fst x.
Proof. unfold on_msg. destruct (snd x); reflexivity. Qed.

Lemma in_sort l x : In x (sort_fields l) <-> In x l.
Proof. split; apply Permutation_in; [apply sort_fields_perm|apply Permutation_sym, sort_fields_perm]. Qed.

(* a canonical message with pairwise distinct numbers is determined, field by field, by its numbers *)
Lemma nodup_key_unique (E : msg) x y : NoDup (map fst E) -> In x E -> In y E -> fst x = fst y -> x = y.
Proof.
  induction E as [|e E IH]; intros Hn Hx Hy Hk; [contradiction|].
  inversion Hn as [|? ? N1 N2]; subst. simpl in Hx, Hy.
  destruct Hx as [<-|Hx], Hy as [<-|Hy]; auto.
  - exfalso. apply N1. rewrite Hk. apply in_map. exact Hy.
  - exfalso. apply N1. rewrite <- Hk. apply in_map. exact Hx.
Qed.
