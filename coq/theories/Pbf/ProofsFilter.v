(* Pbf/ProofsFilter.v — skip flags and filters select exactly a subsequence of the unfiltered
   scan, for EVERY message tree and every incoming decoder state: a rejected element's fields
   never reach a later one (the reset-on-reject code gives back a fresh accumulator). *)
From Coq Require Import ZArith List Bool Lia.
From Verif Require Import Base.Int64 Pbf.Tree Pbf.Model Pbf.Spec Pbf.ProofsIndep.
Import ListNotations.
Open Scope Z_scope.
Open Scope res_scope.

Definition setq (x : xst) (q : list obj) : xst :=
  mkX (x_dc x) (a_id x) (a_lat x) (a_lon x) (a_ts x) (a_cs x) (a_uid x) (a_usid x) (x_n x) q.

Definition lift_q (q : list obj) (r : result (node * xst)) : result (node * xst) :=
  match r with Ok (n, x') => Ok (n, setq x' q) | Err e => Err e | Panic => Panic end.

Ltac step_res :=
  match goal with
  | |- context [rbind ?r _] => destruct r as [?| |]; simpl; try reflexivity
  | |- context [match ?r with Ok _ => _ | Err _ => _ | Panic => _ end] =>
      destruct r as [?| |]; simpl; try reflexivity
  end.

(* the iteration body before the filter call neither reads nor writes dec.q *)
Lemma extract_pre_q p v x q : extract_pre p v (setq x q) = lift_q q (extract_pre p v x).
Proof.
  unfold extract_pre, setq, lift_q. simpl.
  destruct (col_next (c_versions (c_info (x_dc x)))) as [[? ?]| |]; simpl; try reflexivity.
  destruct (col_next (c_timestamps (c_info (x_dc x)))) as [[? ?]| |]; simpl; try reflexivity.
  destruct (col_next (c_changesets (c_info (x_dc x)))) as [[? ?]| |]; simpl; try reflexivity.
  destruct (col_next (c_uids (c_info (x_dc x)))) as [[? ?]| |]; simpl; try reflexivity.
  destruct (col_next (c_usids (c_info (x_dc x)))) as [[o5 ?]| |]; simpl; try reflexivity.
  match goal with |- context [rbind ?r _] => destruct r as [?| |]; simpl; try reflexivity end.
  destruct (col_next (c_visibles (c_info (x_dc x)))) as [[? ?]| |]; simpl; try reflexivity.
  destruct (c_lats (x_dc x)) as [lats|]; try reflexivity.
  destruct (c_lons (x_dc x)) as [lons|]; try reflexivity.
  destruct (it_next lats) as [[? ?]| |]; simpl; try reflexivity.
  destruct (it_next lons) as [[? ?]| |]; simpl; try reflexivity.
  destruct (c_keyvals (x_dc x)) as [kv|]; simpl; try reflexivity.
  destruct (kv_loop (p_st p) kv (n_tags (x_n x))) as [[? ?]| |]; simpl; reflexivity.
Qed.

Lemma setq_id x : setq x (x_q x) = x.
Proof. destruct x; reflexivity. Qed.

Lemma extract_pre_keeps_q p v x n x' : extract_pre p v x = Ok (n, x') -> x_q x' = x_q x.
Proof.
  intros H. pose proof (extract_pre_q p v x (x_q x)) as E. rewrite setq_id, H in E. simpl in E.
  injection E as E. rewrite E. reflexivity.
Qed.

Definition is_node (o : obj) : Prop := match o with ONode _ => True | _ => False end.
Definition nkeep (c : cfg) (o : obj) : bool := match o with ONode n => f_node c n | _ => false end.

Lemma extract_loop_filter c p : forall ids x x',
  extract_loop cfg_all p ids x = Ok x' -> x_n x = node0 ->
  forall q2, exists news,
    x_q x' = x_q x ++ news /\ Forall is_node news /\ x_n x' = node0 /\
    extract_loop c p ids (setq x q2) = Ok (setq x' (q2 ++ filter (nkeep c) news)).
Proof.
  induction ids as [|v r IH]; intros x x' H Hn q2; simpl in *.
  - injection H as H. subst x'. exists []. rewrite !app_nil_r. repeat split; auto.
  - unfold extract_body in *.
    destruct (extract_pre p v x) as [[n' x1]| |] eqn:Hp; simpl in H; try discriminate.
    rewrite (extract_pre_q p v x q2), Hp. simpl.
    pose proof (extract_pre_keeps_q p v x n' x1 Hp) as Hq.
    unfold extract_post in H at 1. simpl in H.
    match type of H with extract_loop _ _ _ ?xm = _ => remember xm as xm' eqn:Exm end.
    assert (Hn' : x_n xm' = node0) by (subst xm'; reflexivity).
    destruct (IH xm' x' H Hn' (q2 ++ filter (nkeep c) [ONode n'])) as (news & E1 & E2 & E3 & E4).
    exists (ONode n' :: news). repeat split.
    + rewrite E1. subst xm'. simpl. rewrite Hq, <- app_assoc. reflexivity.
    + constructor; [exact I|exact E2].
    + exact E3.
    + assert (Es : extract_post c n' (setq x1 q2) = setq xm' (q2 ++ filter (nkeep c) [ONode n'])).
      { subst xm'. unfold extract_post, setq. simpl. destruct (f_node c n'); simpl; [reflexivity|].
        rewrite app_nil_r. reflexivity. }
      rewrite Es, E4. f_equal. f_equal. simpl. destruct (f_node c n'); simpl; rewrite <- app_assoc; reflexivity.
Qed.

Lemma scan_dense_filter c p dc m q dc' q' :
  scan_dense cfg_all p dc m q = Ok (dc', q') ->
  forall q2, exists news, q' = q ++ news /\ Forall is_node news /\
    scan_dense c p dc m q2 = Ok (dc', q2 ++ filter (nkeep c) news).
Proof.
  unfold scan_dense. intros H q2.
  destruct (dense_loop m (dc, df0)) as [s| |]; simpl in *; try discriminate.
  destruct (dense_empty (snd s)).
  { injection H as Hd Hq. exists []. simpl. rewrite !app_nil_r.
    split; [congruence|]. split; [constructor|]. congruence. }
  destruct (dense_fixup s) as [dc1| |]; simpl in *; try discriminate.
  unfold extract_dense in *.
  destruct (c_ids dc1) as [ids|]; try discriminate.
  destruct (extract_loop cfg_all p ids (mkX dc1 0 0 0 0 0 0 0 node0 q)) as [x'| |] eqn:Hl; simpl in H; try discriminate.
  injection H as Hd Hq.
  destruct (extract_loop_filter c p ids _ x' Hl eq_refl q2) as (news & E1 & E2 & _ & E4).
  exists news. simpl in E1. repeat split; [congruence|exact E2|].
  unfold setq in E4 at 1. simpl in E4. rewrite E4. simpl. rewrite Hd. reflexivity.
Qed.

Lemma filter_nodes c news : Forall is_node news ->
  filter (keeps c) news = if skip_nodes c then [] else filter (nkeep c) news.
Proof.
  induction 1 as [|o l Ho _ IH]; simpl.
  - destruct (skip_nodes c); reflexivity.
  - destruct o; simpl in Ho; try contradiction. simpl. rewrite IH.
    destruct (skip_nodes c); simpl; reflexivity.
Qed.

(* ---------- groups ---------- *)
Lemma group_loop_filter c m : forall d1 d2 q1 q2 s1, d_p d1 = d_p d2 ->
  group_loop cfg_all m (mkG d1 way0 rel0 q1) = Ok s1 ->
  exists news s2,
    g_q s1 = q1 ++ news /\ group_loop c m (mkG d2 way0 rel0 q2) = Ok s2 /\
    g_q s2 = q2 ++ filter (keeps c) news /\ d_p (g_d s2) = d_p (g_d s1).
Proof.
  induction m as [|f r IH]; intros d1 d2 q1 q2 s1 Hp H; simpl in *.
  - injection H as H. subst s1. exists [], (mkG d2 way0 rel0 q2). simpl. rewrite !app_nil_r. auto.
  - unfold group_step in *. simpl in *.
    destruct f as [n v]. simpl in *.
    destruct d1 as [p dc1 wc1], d2 as [p2 dc2 wc2]. simpl in Hp. subst p2. simpl in *.
    destruct (Z.eqb_spec n 1) as [E|E]; [simpl in H; discriminate|].
    destruct (Z.eqb_spec n 2) as [E2|E2].
    { subst n. simpl in H. destruct (as_msg v) as [g| |]; simpl in *; try discriminate.
      destruct (scan_dense cfg_all p dc1 g q1) as [[dc' q']| |] eqn:Hs; simpl in H; try discriminate.
      destruct (skip_nodes c) eqn:Hsk; simpl.
      - destruct (scan_dense_filter c p dc1 g q1 dc' q' Hs q2) as (news & E1 & E2' & _).
        destruct (IH (mkD p dc' wc1) (mkD p dc2 wc2) q' q2 s1 eq_refl H) as (news' & s2 & F1 & F2 & F3 & F4).
        exists (news ++ news'), s2. repeat split; auto.
        + rewrite F1, E1, <- app_assoc. reflexivity.
        + rewrite filter_app, (filter_nodes c news E2'), Hsk. simpl. exact F3.
      - destruct (scan_dense_filter c p dc1 g q1 dc' q' Hs q2) as (news & E1 & E2' & E3).
        pose proof (scan_dense_indep c p dc2 dc1 g q2) as Hi. rewrite E3 in Hi.
        destruct (scan_dense c p dc2 g q2) as [[dc2' q2']| |]; simpl in Hi; try contradiction.
        unfold snd_eq in Hi. simpl in Hi. subst q2'. simpl.
        destruct (IH (mkD p dc' wc1) (mkD p dc2' wc2) q' (q2 ++ filter (nkeep c) news) s1 eq_refl H)
          as (news' & s2 & F1 & F2 & F3 & F4).
        exists (news ++ news'), s2. repeat split; auto.
        + rewrite F1, E1, <- app_assoc. reflexivity.
        + rewrite filter_app, (filter_nodes c news E2'), Hsk, app_assoc. exact F3. }
    destruct (Z.eqb_spec n 3) as [E3|E3].
    { subst n. simpl in H. destruct (as_msg v) as [g| |]; simpl in *; try discriminate.
      pose proof (scan_way_indep p wc1 wc2 g way0) as Hi.
      destruct (scan_way p wc1 g way0) as [[w wc1']| |] eqn:Hs; simpl in H; try discriminate.
      destruct (skip_ways c) eqn:Hsk; simpl.
      - destruct (IH (mkD p dc1 wc1') (mkD p dc2 wc2) (q1 ++ [OWay w]) q2 s1 eq_refl H) as (news' & s2 & F1 & F2 & F3 & F4).
        exists (OWay w :: news'), s2. repeat split; auto.
        + rewrite F1, <- app_assoc. reflexivity.
        + simpl. rewrite Hsk. simpl. exact F3.
      - destruct (scan_way p wc2 g way0) as [[w2 wc2']| |]; simpl in Hi; try contradiction.
        unfold fst_eq in Hi. simpl in Hi. subst w2. simpl.
        destruct (f_way c w) eqn:Hf.
        + destruct (IH (mkD p dc1 wc1') (mkD p dc2 wc2') (q1 ++ [OWay w]) (q2 ++ [OWay w]) s1 eq_refl H)
            as (news' & s2 & F1 & F2 & F3 & F4).
          exists (OWay w :: news'), s2. repeat split; auto.
          * rewrite F1, <- app_assoc. reflexivity.
          * simpl. rewrite Hsk, Hf. simpl. rewrite F3, <- app_assoc. reflexivity.
        + change (reset_way w) with way0.
          destruct (IH (mkD p dc1 wc1') (mkD p dc2 wc2') (q1 ++ [OWay w]) q2 s1 eq_refl H)
            as (news' & s2 & F1 & F2 & F3 & F4).
          exists (OWay w :: news'), s2. repeat split; auto.
          * rewrite F1, <- app_assoc. reflexivity.
          * simpl. rewrite Hsk, Hf. simpl. exact F3. }
    destruct (Z.eqb_spec n 4) as [E4|E4].
    { subst n. simpl in H. destruct (as_msg v) as [g| |]; simpl in *; try discriminate.
      pose proof (scan_relation_indep p wc1 wc2 g rel0) as Hi.
      destruct (scan_relation p wc1 g rel0) as [[w wc1']| |] eqn:Hs; simpl in H; try discriminate.
      destruct (skip_rels c) eqn:Hsk; simpl.
      - destruct (IH (mkD p dc1 wc1') (mkD p dc2 wc2) (q1 ++ [ORel w]) q2 s1 eq_refl H) as (news' & s2 & F1 & F2 & F3 & F4).
        exists (ORel w :: news'), s2. repeat split; auto.
        + rewrite F1, <- app_assoc. reflexivity.
        + simpl. rewrite Hsk. simpl. exact F3.
      - destruct (scan_relation p wc2 g rel0) as [[w2 wc2']| |]; simpl in Hi; try contradiction.
        unfold fst_eq in Hi. simpl in Hi. subst w2. simpl.
        destruct (f_rel c w) eqn:Hf.
        + destruct (IH (mkD p dc1 wc1') (mkD p dc2 wc2') (q1 ++ [ORel w]) (q2 ++ [ORel w]) s1 eq_refl H)
            as (news' & s2 & F1 & F2 & F3 & F4).
          exists (ORel w :: news'), s2. repeat split; auto.
          * rewrite F1, <- app_assoc. reflexivity.
          * simpl. rewrite Hsk, Hf. simpl. rewrite F3, <- app_assoc. reflexivity.
        + change (reset_rel w) with rel0.
          destruct (IH (mkD p dc1 wc1') (mkD p dc2 wc2') (q1 ++ [ORel w]) q2 s1 eq_refl H)
            as (news' & s2 & F1 & F2 & F3 & F4).
          exists (ORel w :: news'), s2. repeat split; auto.
          * rewrite F1, <- app_assoc. reflexivity.
          * simpl. rewrite Hsk, Hf. simpl. exact F3. }
    simpl in *.
    destruct (IH (mkD p dc1 wc1) (mkD p dc2 wc2) q1 q2 s1 eq_refl H) as (news' & s2 & F1 & F2 & F3 & F4).
    exists news', s2. auto.
Qed.

Lemma pass2_filter c m : forall d1 d2 q1 q2 d1' q1', d_p d1 = d_p d2 ->
  pass2 cfg_all m d1 q1 = Ok (d1', q1') ->
  exists news d2', q1' = q1 ++ news /\ pass2 c m d2 q2 = Ok (d2', q2 ++ filter (keeps c) news).
Proof.
  induction m as [|f r IH]; intros d1 d2 q1 q2 d1' q1' Hp H; simpl in *.
  - injection H as H1 H2. subst. exists [], d2. rewrite !app_nil_r. auto.
  - destruct (fst f =? 2).
    + destruct (as_msg (snd f)) as [g| |]; simpl in *; try discriminate.
      unfold scan_group in *.
      destruct (group_loop cfg_all g (mkG d1 way0 rel0 q1)) as [s1| |] eqn:Hg; simpl in H; try discriminate.
      destruct (group_loop_filter c g d1 d2 q1 q2 s1 Hp Hg) as (news & s2 & F1 & F2 & F3 & F4).
      rewrite F2. simpl.
      destruct (IH (g_d s1) (g_d s2) (g_q s1) (g_q s2) d1' q1' (eq_sym F4) H) as (news' & d2' & G1 & G2).
      exists (news ++ news'), d2'. split.
      * rewrite G1, F1, <- app_assoc. reflexivity.
      * rewrite G2, F3, filter_app, <- app_assoc. reflexivity.
    + exact (IH d1 d2 q1 q2 d1' q1' Hp H).
Qed.

(* C08, first clause, for every message tree, every decoder state and every configuration:
   what a configured scan returns is exactly the kept subsequence of the unfiltered scan. *)
Theorem filter_is_subsequence : forall c st m objs,
  scan_result cfg_all st m = Ok objs -> scan_result c st m = Ok (filter (keeps c) objs).
Proof.
  intros c st m objs. unfold scan_result, scan_block.
  destruct (pass1 m p0) as [p1| |]; simpl; try discriminate.
  destruct (pass2 cfg_all m (mkD p1 (d_dc st) (d_wc st)) []) as [[d1' q1']| |] eqn:H; try discriminate.
  intros E. injection E as E. subst q1'.
  destruct (pass2_filter c m _ (mkD p1 (d_dc st) (d_wc st)) [] [] d1' objs eq_refl H) as (news & d2' & G1 & G2).
  rewrite G2. simpl in *. subst objs. reflexivity.
Qed.

(* ---------- the working way / relation of scanPrimitiveGroup is always a fresh one ---------- *)
(* At every iteration of the group loop the way / relation handed to scanWays / scanRelations is the
   zero value (no tags, NO NODES, no members): accepted -> a new object, rejected -> the reset, which
   truncates every slice to length 0.  Hence in scanWays `len(way.Nodes) == 0` holds at entry, the
   first column present MAKES the node array, and every index write of that call goes into an
   array made in that call (wave 5; with GenOk.decoder_slice_discipline_matches_source this is what
   justifies treating way / relation slices by value). *)
Lemma group_step_fresh c s f s' :
  g_way s = way0 -> g_rel s = rel0 -> group_step c s f = Ok s' -> g_way s' = way0 /\ g_rel s' = rel0.
Proof.
  intros Hw Hr. unfold group_step.
  destruct (fst f =? 1); [discriminate|].
  destruct ((fst f =? 2) && negb (skip_nodes c)).
  { destruct (as_msg (snd f)) as [m| |]; simpl; try discriminate.
    destruct (scan_dense c (d_p (g_d s)) (d_dc (g_d s)) m (g_q s)) as [[dc' q']| |]; simpl; try discriminate.
    intros H. injection H as <-. simpl. auto. }
  destruct ((fst f =? 3) && negb (skip_ways c)).
  { destruct (as_msg (snd f)) as [m| |]; simpl; try discriminate.
    destruct (scan_way (d_p (g_d s)) (d_wc (g_d s)) m (g_way s)) as [[w wc']| |]; simpl; try discriminate.
    destruct (f_way c w); intros H; injection H as <-; simpl; auto. }
  destruct ((fst f =? 4) && negb (skip_rels c)).
  { destruct (as_msg (snd f)) as [m| |]; simpl; try discriminate.
    destruct (scan_relation (d_p (g_d s)) (d_wc (g_d s)) m (g_rel s)) as [[r wc']| |]; simpl; try discriminate.
    destruct (f_rel c r); intros H; injection H as <-; simpl; auto. }
  intros H. injection H as <-. auto.
Qed.

Theorem group_loop_fresh c m : forall s s',
  g_way s = way0 -> g_rel s = rel0 -> group_loop c m s = Ok s' -> g_way s' = way0 /\ g_rel s' = rel0.
Proof.
  induction m as [|f r IH]; intros s s' Hw Hr H; simpl in H.
  - injection H as <-. auto.
  - destruct (group_step c s f) as [s1| |] eqn:E; simpl in H; try discriminate.
    destruct (group_step_fresh c s f s1 Hw Hr E) as [A B]. exact (IH s1 s' A B H).
Qed.
