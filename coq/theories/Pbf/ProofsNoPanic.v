(* Pbf/ProofsNoPanic.v — the block decoder never panics: for EVERY message tree, configuration and
   incoming decoder state, scan_block returns Ok or Err.  (The nil-iterator dereferences guarded by
   the found-flags are unreachable; index failures are errors since fixes 7644851/ed32e9e/9a46487.) *)
From Coq Require Import ZArith List Bool Lia.
From Verif Require Import Base.Int64 Pbf.Tree Pbf.Model.
Import ListNotations.
Open Scope Z_scope.
Open Scope res_scope.

Definition post {A} (P : A -> Prop) (r : result A) : Prop :=
  match r with Ok a => P a | Err _ => True | Panic => False end.
Definition tt1 {A} (_ : A) : Prop := True.

Lemma post_bind {A B} (P : A -> Prop) (Q : B -> Prop) r f :
  post P r -> (forall a, P a -> post Q (f a)) -> post Q (rbind r f).
Proof. destruct r; simpl; auto. Qed.

Lemma post_weaken {A} (P Q : A -> Prop) r : post P r -> (forall a, P a -> Q a) -> post Q r.
Proof. destruct r; simpl; auto. Qed.

Lemma post_any {A} (r : result A) : post tt1 r -> r <> Panic.
Proof. destruct r; simpl; intros H E; try discriminate; contradiction. Qed.

Lemma np_as_var v : post tt1 (as_var v). Proof. destruct v; exact I. Qed.
Lemma np_as_packed v : post tt1 (as_packed v). Proof. destruct v; exact I. Qed.
Lemma np_as_msg v : post tt1 (as_msg v). Proof. destruct v; exact I. Qed.
Lemma np_uint32 v : post tt1 (uint32 v). Proof. unfold uint32. destruct (v <? two35); exact I. Qed.
Lemma np_idx {A} (l : list A) i : post tt1 (idx l i).
Proof. unfold idx, oob. destruct (i <? 0); [exact I|]. destruct (nth_error l (Z.to_nat i)); exact I. Qed.
Lemma np_upd {A} (l : list A) i f : post tt1 (upd l i f).
Proof. unfold upd. destruct (set_nth l i f); exact I. Qed.
Lemma np_full {A} (l : list A) i : post tt1 (full l i).
Proof. unfold full. destruct (Nat.eqb i (length l)); exact I. Qed.
Lemma np_col_next c : post tt1 (col_next c).
Proof. destruct c as [[|? ?]|]; exact I. Qed.
Lemma np_it_next l : post tt1 (it_next l).
Proof. destruct l; exact I. Qed.

Ltac np_step :=
  match goal with
  | |- post _ (rbind (as_var _) _) => apply post_bind with (P := tt1); [apply np_as_var|intros ? _]
  | |- post _ (rbind (as_packed _) _) => apply post_bind with (P := tt1); [apply np_as_packed|intros ? _]
  | |- post _ (rbind (as_msg _) _) => apply post_bind with (P := tt1); [apply np_as_msg|intros ? _]
  | |- post _ (rbind (uint32 _) _) => apply post_bind with (P := tt1); [apply np_uint32|intros ? _]
  | |- post _ (rbind (idx _ _) _) => apply post_bind with (P := tt1); [apply np_idx|intros ? _]
  | |- post _ (rbind (upd _ _ _) _) => apply post_bind with (P := tt1); [apply np_upd|intros ? _]
  | |- post _ (rbind (col_next _) _) => apply post_bind with (P := tt1); [apply np_col_next|intros [? ?] _]
  | |- post _ (rbind (it_next _) _) => apply post_bind with (P := tt1); [apply np_it_next|intros [? ?] _]
  | |- post _ (Ok _) => simpl
  | |- post _ (if ?b then _ else _) => destruct b
  end.

Lemma np_pass1_step p f : post tt1 (pass1_step p f).
Proof. unfold pass1_step. repeat np_step; exact I. Qed.
Lemma np_pass1 m : forall p, post tt1 (pass1 m p).
Proof. induction m as [|f r IH]; intros p; simpl; [exact I|].
  apply post_bind with (P := tt1); [apply np_pass1_step|intros a _; apply IH]. Qed.

Lemma np_info_step p i f : post tt1 (info_step p i f).
Proof. unfold info_step. repeat np_step; exact I. Qed.
Lemma np_info_loop p m : forall i, post tt1 (info_loop p m i).
Proof. induction m as [|f r IH]; intros i; simpl; [exact I|].
  apply post_bind with (P := tt1); [apply np_info_step|intros a _; apply IH]. Qed.

Lemma np_scan_tags st : forall keys vals, post tt1 (scan_tags st keys vals).
Proof.
  induction keys as [|k kr IH]; intros vals; simpl; [exact I|].
  np_step. destruct vals as [|v vr]; [exact I|]. repeat np_step.
  apply post_bind with (P := tt1); [apply IH|intros ? _; exact I].
Qed.

Lemma np_fill f : forall l prev index nodes, post tt1 (fill f l prev index nodes).
Proof.
  induction l as [|v r IH]; intros prev index nodes; simpl; [apply np_full|].
  np_step. apply IH.
Qed.

(* ---------- ways ---------- *)
Definition Iw (s : wst) : Prop :=
  (ws_fk s = true -> c_keys (ws_wc s) <> None) /\ (ws_fv s = true -> c_vals (ws_wc s) <> None).

Lemma np_way_step p s f : Iw s -> post Iw (way_step p s f).
Proof.
  intros [H1 H2]. unfold way_step.
  repeat (match goal with |- post _ (if ?b then _ else _) => destruct b end);
    try (np_step; simpl; split; simpl; auto; intros; discriminate).
  - np_step. apply post_bind with (P := tt1); [apply np_info_loop|intros ? _]. simpl. split; auto.
  - np_step. apply post_bind with (P := tt1); [apply np_fill|intros ? _]. simpl. split; auto.
  - np_step. apply post_bind with (P := tt1); [apply np_fill|intros ? _]. simpl. split; auto.
  - np_step. apply post_bind with (P := tt1); [apply np_fill|intros ? _]. simpl. split; auto.
Qed.

Lemma np_way_loop p m : forall s, Iw s -> post Iw (way_loop p m s).
Proof. induction m as [|f r IH]; intros s H; simpl; [exact H|].
  apply post_bind with (P := Iw); [apply np_way_step; exact H|intros a Ha; apply IH; exact Ha]. Qed.

Lemma np_tags_if_found st fk fv wc old :
  (fk = true -> c_keys wc <> None) -> (fv = true -> c_vals wc <> None) -> post tt1 (tags_if_found st fk fv wc old).
Proof.
  intros H1 H2. unfold tags_if_found. destruct fk, fv; simpl; try exact I.
  destruct (c_keys wc) as [ks|]; [|exfalso; apply H1; reflexivity].
  destruct (c_vals wc) as [vs|]; [|exfalso; apply H2; reflexivity].
  apply np_scan_tags.
Qed.

Lemma np_scan_way p wc m w : post tt1 (scan_way p wc m w).
Proof.
  unfold scan_way.
  apply post_bind with (P := Iw); [apply np_way_loop; split; intros; discriminate|intros s [H1 H2]].
  apply post_bind with (P := tt1); [apply np_tags_if_found; assumption|intros ? _; exact I].
Qed.

(* ---------- relations ---------- *)
Definition Ir (s : rst) : Prop :=
  (rs_fk s = true -> c_keys (rs_wc s) <> None) /\ (rs_fv s = true -> c_vals (rs_wc s) <> None) /\
  (rs_fr s = true -> c_roles (rs_wc s) <> None) /\ (rs_fm s = true -> c_memids (rs_wc s) <> None) /\
  (rs_ft s = true -> c_types (rs_wc s) <> None).

Lemma np_rel_step p s f : Ir s -> post Ir (rel_step p s f).
Proof.
  intros (H1 & H2 & H3 & H4 & H5). unfold rel_step.
  repeat (match goal with |- post _ (if ?b then _ else _) => destruct b end);
    try (np_step; simpl; repeat split; simpl; auto; intros; discriminate).
  np_step. apply post_bind with (P := tt1); [apply np_info_loop|intros ? _]. simpl. repeat split; auto.
Qed.

Lemma np_rel_loop p m : forall s, Ir s -> post Ir (rel_loop p m s).
Proof. induction m as [|f r IH]; intros s H; simpl; [exact H|].
  apply post_bind with (P := Ir); [apply np_rel_step; exact H|intros a Ha; apply IH; exact Ha]. Qed.

Lemma np_members_loop st : forall roles memids types memid index ms,
  post tt1 (members_loop st roles memids types memid index ms).
Proof.
  induction roles as [|r rr IH]; intros memids types memid index ms; simpl;
    [destruct memids; [apply np_full|exact I]|].
  repeat np_step. destruct memids as [|mi mr]; [exact I|]. destruct types as [|t tr]; [exact I|].
  np_step. apply IH.
Qed.

Lemma np_members_if_found st fr fm ft wc old :
  (fr = true -> c_roles wc <> None) -> (fm = true -> c_memids wc <> None) -> (ft = true -> c_types wc <> None) ->
  post tt1 (members_if_found st fr fm ft wc old).
Proof.
  intros H1 H2 H3. unfold members_if_found. destruct fr, fm, ft; simpl; try exact I.
  destruct (c_roles wc); [|exfalso; apply H1; reflexivity].
  destruct (c_memids wc); [|exfalso; apply H2; reflexivity].
  destruct (c_types wc); [|exfalso; apply H3; reflexivity].
  apply np_members_loop.
Qed.

Lemma np_scan_relation p wc m r : post tt1 (scan_relation p wc m r).
Proof.
  unfold scan_relation.
  apply post_bind with (P := Ir); [apply np_rel_loop; repeat split; intros; discriminate|intros s (H1 & H2 & H3 & H4 & H5)].
  apply post_bind with (P := tt1); [apply np_tags_if_found; assumption|intros ? _].
  apply post_bind with (P := tt1); [apply np_members_if_found; assumption|intros ? _; exact I].
Qed.

(* ---------- dense nodes ---------- *)
Lemma np_dinfo_step s f : post tt1 (dinfo_step s f).
Proof. unfold dinfo_step. repeat np_step; exact I. Qed.
Lemma np_dinfo_loop m : forall s, post tt1 (dinfo_loop m s).
Proof. induction m as [|f r IH]; intros s; simpl; [exact I|].
  apply post_bind with (P := tt1); [apply np_dinfo_step|intros a _; apply IH]. Qed.

Definition Id (s : dcols * dfound) : Prop :=
  (fd_ids (snd s) = true -> c_ids (fst s) <> None) /\ (fd_lats (snd s) = true -> c_lats (fst s) <> None) /\
  (fd_lons (snd s) = true -> c_lons (fst s) <> None).

Lemma np_dense_step s f : Id s -> post Id (dense_step s f).
Proof.
  intros (H1 & H2 & H3). unfold dense_step.
  repeat (match goal with |- post _ (if ?b then _ else _) => destruct b end);
    try (np_step; simpl; repeat split; simpl; auto; intros; discriminate).
  np_step. apply post_bind with (P := tt1); [apply np_dinfo_loop|intros ? _]. simpl. repeat split; auto.
Qed.

Lemma np_dense_loop m : forall s, Id s -> post Id (dense_loop m s).
Proof. induction m as [|f r IH]; intros s H; simpl; [exact H|].
  apply post_bind with (P := Id); [apply np_dense_step; exact H|intros a Ha; apply IH; exact Ha]. Qed.

Definition Ic (dc : dcols) : Prop := c_ids dc <> None /\ c_lats dc <> None /\ c_lons dc <> None.

Lemma np_dense_fixup s : Id s -> post Ic (dense_fixup s).
Proof.
  intros (H1 & H2 & H3). unfold dense_fixup.
  destruct (fd_ids (snd s)); simpl; [|exact I]. destruct (fd_lats (snd s)); simpl; [|exact I].
  destruct (fd_lons (snd s)); simpl; [|exact I]. repeat split; simpl; auto.
Qed.

Lemma np_kv_loop st : forall n kv tags, (length kv <= n)%nat -> post tt1 (kv_loop st kv tags).
Proof.
  induction n as [|n IH]; intros kv tags Hl.
  - destruct kv; [exact I|simpl in Hl; lia].
  - destruct kv as [|k r]; [exact I|]. simpl. destruct (int32 k =? 0); [exact I|].
    destruct r as [|v r']; [exact I|]. repeat np_step. apply IH. simpl in Hl. lia.
Qed.

Definition Ix (x : xst) : Prop := c_lats (x_dc x) <> None /\ c_lons (x_dc x) <> None.

Lemma np_extract_pre p v x : Ix x -> post (fun r => Ix (snd r)) (extract_pre p v x).
Proof.
  intros [H1 H2]. unfold extract_pre. repeat np_step.
  apply post_bind with (P := tt1).
  { match goal with |- post _ (match ?o with Some _ => _ | None => _ end) => destruct o end; [apply np_idx|exact I]. }
  intros ? _. np_step.
  destruct (c_lats (x_dc x)) as [lats|]; [|exfalso; apply H1; reflexivity].
  destruct (c_lons (x_dc x)) as [lons|]; [|exfalso; apply H2; reflexivity].
  repeat np_step.
  apply post_bind with (P := tt1).
  { destruct (c_keyvals (x_dc x)) as [kv|]; [|exact I].
    apply post_bind with (P := tt1); [apply (np_kv_loop _ (length kv)); lia|intros [? ?] _; exact I]. }
  intros [? ?] _. simpl. split; simpl; intros E; discriminate.
Qed.

Lemma np_extract_loop c p : forall ids x, Ix x -> post tt1 (extract_loop c p ids x).
Proof.
  induction ids as [|v r IH]; intros x H; simpl; [exact I|].
  unfold extract_body.
  apply post_bind with (P := Ix); [|intros a Ha; apply IH; exact Ha].
  apply post_bind with (P := fun r => Ix (snd r)); [apply np_extract_pre; exact H|].
  intros [n' x'] Hx. simpl in *. unfold extract_post, Ix in *. destruct (f_node c n'); simpl; exact Hx.
Qed.

Lemma np_scan_dense c p dc m q : post tt1 (scan_dense c p dc m q).
Proof.
  unfold scan_dense.
  apply post_bind with (P := Id); [apply np_dense_loop; repeat split; intros; discriminate|intros s Hs].
  destruct (dense_empty (snd s)); [exact I|].
  apply post_bind with (P := Ic); [apply np_dense_fixup; exact Hs|intros dc1 (H1 & H2 & H3)].
  unfold extract_dense. destruct (c_ids dc1) as [ids|]; [|exfalso; apply H1; reflexivity].
  apply post_bind with (P := tt1); [apply np_extract_loop; split; assumption|intros ? _; exact I].
Qed.

(* ---------- groups, blocks ---------- *)
Lemma np_group_step c s f : post tt1 (group_step c s f).
Proof.
  unfold group_step, plain_nodes.
  destruct (fst f =? 1); [exact I|].
  destruct ((fst f =? 2) && negb (skip_nodes c)).
  { np_step. apply post_bind with (P := tt1); [apply np_scan_dense|intros [? ?] _; exact I]. }
  destruct ((fst f =? 3) && negb (skip_ways c)).
  { np_step. apply post_bind with (P := tt1); [apply np_scan_way|intros [w ?] _]. destruct (f_way c w); exact I. }
  destruct ((fst f =? 4) && negb (skip_rels c)).
  { np_step. apply post_bind with (P := tt1); [apply np_scan_relation|intros [r ?] _]. destruct (f_rel c r); exact I. }
  exact I.
Qed.

Lemma np_group_loop c m : forall s, post tt1 (group_loop c m s).
Proof. induction m as [|f r IH]; intros s; simpl; [exact I|].
  apply post_bind with (P := tt1); [apply np_group_step|intros a _; apply IH]. Qed.

Lemma np_pass2 c m : forall d q, post tt1 (pass2 c m d q).
Proof.
  induction m as [|f r IH]; intros d q; simpl; [exact I|].
  destruct (fst f =? 2); [|apply IH].
  np_step. apply post_bind with (P := tt1).
  - unfold scan_group. apply post_bind with (P := tt1); [apply np_group_loop|intros ? _; exact I].
  - intros [? ?] _. apply IH.
Qed.

Theorem scan_block_never_panics : forall c st m, scan_block c st m <> Panic.
Proof.
  intros c st m. apply post_any. unfold scan_block.
  apply post_bind with (P := tt1); [apply np_pass1|intros p1 _]. apply np_pass2.
Qed.

Theorem scan_result_never_panics : forall c st m, scan_result c st m <> Panic.
Proof.
  intros c st m. unfold scan_result. pose proof (scan_block_never_panics c st m) as H.
  destruct (scan_block c st m) as [[? ?]| |]; try discriminate. contradiction.
Qed.
