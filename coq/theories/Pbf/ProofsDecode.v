(* Pbf/ProofsDecode.v — decoding the reference encoding of a valid block description yields
   exactly the elements the description means, from EVERY incoming decoder state. *)
From Coq Require Import ZArith List Bool Lia.
From Verif Require Import Base.Int64 Pbf.Tree Pbf.Model Pbf.Spec Pbf.ProofsArith Pbf.ProofsIndep.
Import ListNotations.
Open Scope Z_scope.
Open Scope res_scope.

Ltac bsplit :=
  repeat match goal with
         | H : _ && _ = true |- _ => apply andb_prop in H; destruct H
         end.

Lemma in32_spec x : in32 x = true -> - two31 <= x < two31.
Proof. unfold in32. intros H. bsplit. lia. Qed.
Lemma in64_spec x : in64 x = true -> in_int64 x.
Proof. unfold in64, in_int64b, in_int64. intros H. bsplit. lia. Qed.

(* the block parameters a description denotes *)
Definition bp (b : block_d) : bparams :=
  mkP (b_strings b) (b_gran b) (b_dgran b) (b_latoff b) (b_lonoff b).

(* ---------- pass 1 ---------- *)
Lemma pass1_app l1 : forall l2 p, pass1 (l1 ++ l2) p = rbind (pass1 l1 p) (pass1 l2).
Proof.
  induction l1 as [|a l IH]; intros l2 p; simpl; [reflexivity|].
  destruct (pass1_step p a); simpl; auto.
Qed.

Lemma strings_of_map l : strings_of (map (fun s => (1, WStr s)) l) = l.
Proof. unfold strings_of. induction l as [|a l IH]; simpl; [reflexivity|]. f_equal. exact IH. Qed.

Lemma pass1_groups gs : forall p, pass1 (map enc_group gs) p = Ok p.
Proof. induction gs as [|g r IH]; intros p; simpl; [reflexivity|]. apply IH. Qed.

Lemma pass1_encode b : valid_block b = true -> pass1 (encode_block b) p0 = Ok (bp b).
Proof.
  destruct b as [st om g dg la lo gs]. unfold valid_block, encode_block, bp. simpl. intros H. bsplit.
  rewrite pass1_app.
  assert (E1 : pass1 (opt (negb om) (1, WMsg (map (fun s : bytes => (1, WStr s)) st))) p0
               = Ok (mkP st None None None None)).
  { destruct om; simpl in *.
    - destruct st; [reflexivity|discriminate].
    - rewrite strings_of_map. reflexivity. }
  rewrite E1. simpl. rewrite pass1_app, pass1_groups. simpl.
  destruct g as [g|]; simpl in *; [rewrite (int32_enc g (in32_spec _ H4))|];
  destruct dg as [dg|]; simpl in *; try rewrite (int32_enc dg (in32_spec _ H3));
  destruct la as [la|]; simpl in *; try rewrite (int64_enc la (in64_spec _ H2));
  destruct lo as [lo|]; simpl in *; try rewrite (int64_enc lo (in64_spec _ H1)); reflexivity.
Qed.

(* ---------- pass 2 ---------- *)
Definition lift2 (k : dstate -> list obj -> result (dstate * list obj)) (r : result (dstate * list obj)) :=
  match r with Ok (d, q) => k d q | Err e => Err e | Panic => Panic end.

Lemma pass2_app c l1 : forall l2 d q, pass2 c (l1 ++ l2) d q = lift2 (pass2 c l2) (pass2 c l1 d q).
Proof.
  induction l1 as [|a l IH]; intros l2 d q; simpl; [reflexivity|].
  destruct (fst a =? 2); [|apply IH].
  destruct (as_msg (snd a)) as [g| |]; simpl; auto.
  destruct (scan_group c d g q) as [[d' q']| |]; simpl; auto.
Qed.

Lemma pass2_skip c l : Forall (fun f : Z * wval => (fst f =? 2) = false) l -> forall d q, pass2 c l d q = Ok (d, q).
Proof.
  induction 1 as [|a l Ha _ IH]; intros d q; simpl; [reflexivity|]. rewrite Ha. apply IH.
Qed.

(* an item decodes to its meaning, leaving fresh way/relation accumulators, from any state *)
Definition item_decodes (b : block_d) (it : item_d) : Prop :=
  forall d q, d_p d = bp b ->
  exists d', group_step cfg_all (mkG d way0 rel0 q) (enc_item it) = Ok (mkG d' way0 rel0 (q ++ item_elements b it))
             /\ d_p d' = bp b.

Lemma group_items b g : Forall (item_decodes b) g -> forall d q, d_p d = bp b ->
  exists d', scan_group cfg_all d (map enc_item g) q = Ok (d', q ++ group_elements b g) /\ d_p d' = bp b.
Proof.
  unfold scan_group, group_elements.
  induction 1 as [|it g Hit _ IH]; intros d q Hp; simpl.
  - exists d. rewrite app_nil_r. auto.
  - destruct (Hit d q Hp) as (d1 & E & Hp1). rewrite E. simpl.
    destruct (IH d1 (q ++ item_elements b it) Hp1) as (d2 & E2 & Hp2).
    exists d2. rewrite <- app_assoc in E2. auto.
Qed.

Lemma pass2_groups b gs : Forall (Forall (item_decodes b)) gs -> forall d q, d_p d = bp b ->
  exists d', pass2 cfg_all (map enc_group gs) d q = Ok (d', q ++ flat_map (group_elements b) gs) /\ d_p d' = bp b.
Proof.
  induction 1 as [|g gs Hg _ IH]; intros d q Hp; simpl.
  - exists d. rewrite app_nil_r. auto.
  - destruct (group_items b g Hg d q Hp) as (d1 & E & Hp1). rewrite E. simpl.
    destruct (IH d1 (q ++ group_elements b g) Hp1) as (d2 & E2 & Hp2).
    exists d2. rewrite <- app_assoc in E2. auto.
Qed.

Lemma optv_skip n o : (n =? 2) = false -> Forall (fun f : Z * wval => (fst f =? 2) = false) (optv n o).
Proof. intros H. destruct o; simpl; repeat constructor; exact H. Qed.

Theorem decode_encode_from_items b :
  valid_block b = true -> Forall (Forall (item_decodes b)) (b_groups b) ->
  forall st, scan_result cfg_all st (encode_block b) = Ok (elements b).
Proof.
  intros Hv Hi st. unfold scan_result, scan_block. rewrite (pass1_encode b Hv). simpl.
  unfold encode_block. rewrite pass2_app.
  rewrite pass2_skip by (destruct (negb (b_omit_st b)); simpl; repeat constructor). simpl.
  rewrite pass2_app.
  destruct (pass2_groups b (b_groups b) Hi (mkD (bp b) (d_dc st) (d_wc st)) [] eq_refl) as (d' & E & _).
  rewrite E. simpl.
  rewrite pass2_skip; [reflexivity|].
  repeat (apply Forall_app; split); apply optv_skip; reflexivity.
Qed.

(* ---------- changesets ---------- *)
Lemma changeset_decodes b id : item_decodes b (IChangeset id).
Proof. intros d q Hp. exists d. simpl. rewrite app_nil_r. unfold group_step. simpl. auto. Qed.

(* ---------- shared pieces: strings, tags, Info ---------- *)
Lemma sid_ok_spec b i : sid_ok b i = true -> 0 <= i < Z.of_nat (length (b_strings b)) /\ i < two31.
Proof. unfold sid_ok. intros H. bsplit. lia. Qed.

Lemma idx_str b i : sid_ok b i = true -> idx (b_strings b) i = Ok (str b i).
Proof.
  intros H. apply sid_ok_spec in H. destruct H as [[H0 H1] _]. unfold idx, str.
  destruct (i <? 0) eqn:E; [lia|].
  rewrite (nth_error_nth' (b_strings b) [] (n := Z.to_nat i)) by lia. reflexivity.
Qed.

Lemma uint32_small x : 0 <= x < two31 -> uint32 x = Ok x.
Proof.
  intros H. unfold uint32, two35, two31, two32 in *. destruct (x <? 34359738368) eqn:E; [|lia].
  rewrite Z.mod_small by lia. reflexivity.
Qed.

Lemma scan_tags_enc b ts : tags_ok b false ts = true ->
  scan_tags (b_strings b) (map fst ts) (map snd ts) = Ok (tags_of b ts).
Proof.
  unfold tags_ok, tags_of. induction ts as [|[k v] ts IH]; intros H; [reflexivity|].
  cbn [forallb fst snd] in H. apply andb_prop in H. destruct H as [Hh Ht].
  apply andb_prop in Hh. destruct Hh as [Hkv _]. apply andb_prop in Hkv. destruct Hkv as [H1 H2].
  pose proof (sid_ok_spec b k H1) as [Hk Hk']. pose proof (sid_ok_spec b v H2) as [Hv Hv'].
  simpl. rewrite (uint32_small k) by lia. simpl. rewrite (uint32_small v) by lia. simpl.
  rewrite (idx_str b k H1), (idx_str b v H2). simpl. rewrite (IH Ht). reflexivity.
Qed.

Lemma info_loop_app p l1 : forall l2 i, info_loop p (l1 ++ l2) i = rbind (info_loop p l1 i) (info_loop p l2).
Proof.
  induction l1 as [|a l IH]; intros l2 i; simpl; [reflexivity|].
  destruct (info_step p i a); simpl; auto.
Qed.

Lemma info_opt p f x i r : info_step p i x = Ok r -> info_loop p (opt f x) i = Ok (if f then r else i).
Proof. intros H. destruct f; simpl; [rewrite H|]; reflexivity. Qed.

Lemma ts_ns_exact t dg : in64 (t * dg) = true -> in64 (t * dg * 1000000) = true -> ts_ns t dg = t * dg * 1000000.
Proof.
  intros H1 H2. apply in64_spec in H1. apply in64_spec in H2. unfold ts_ns.
  rewrite (wrap64_id (t * dg) H1). apply wrap64_id. exact H2.
Qed.

Lemma info_ok_spec b fl i : info_ok b true fl i = true ->
  (- two31 <= id_version i < two31) /\ in_int64 (id_ts i) /\ in_int64 (id_cs i) /\ (- two31 <= id_uid i < two31)
  /\ (negb (fl_usid fl) || sid_ok b (id_usid i) = true)
  /\ (negb (fl_ts fl) || (in64 (id_ts i * bdgran b) && in64 (id_ts i * bdgran b * 1000000)) = true).
Proof.
  unfold info_ok. cbn [negb orb]. intros H.
  apply andb_prop in H. destruct H as [H Hts].
  apply andb_prop in H. destruct H as [H Hus].
  apply andb_prop in H. destruct H as [H Hu].
  apply andb_prop in H. destruct H as [H Hc].
  apply andb_prop in H. destruct H as [Hv Ht].
  repeat split; try (apply in32_spec; assumption); try (apply in64_spec; assumption); assumption.
Qed.

Lemma info_enc b fl i : info_ok b true fl i = true ->
  info_loop (bp b) (enc_info fl i) info0 = Ok (meta b true fl i).
Proof.
  intros H. apply info_ok_spec in H.
  destruct i as [ver ts cs uid usid vis]. cbn [id_version id_ts id_cs id_uid id_usid id_visible] in *.
  destruct H as (H4 & H6 & H5 & H3 & H2 & H0).
  unfold enc_info. simpl.
  rewrite info_loop_app.
  rewrite (info_opt (bp b) (fl_version fl) _ info0 (mkInfo ver None 0 0 [] true))
    by (unfold info_step; simpl; rewrite (int32_enc ver H4); reflexivity).
  simpl. rewrite info_loop_app.
  set (i1 := if fl_version fl then _ else info0).
  assert (Ets : fl_ts fl = true -> ts_ns ts (bdgran b) = ts * bdgran b * 1000000).
  { intros Ef. rewrite Ef in H0. simpl in H0. apply andb_prop in H0. destruct H0 as [Ha Hb].
    apply ts_ns_exact; assumption. }
  rewrite (info_opt (bp b) (fl_ts fl) _ i1
             (mkInfo (i_version i1) (Some (ts_ns ts (bdgran b))) (i_cs i1) (i_uid i1) (i_user i1) (i_visible i1)))
    by (unfold info_step; simpl; rewrite (int64_enc ts H6); reflexivity).
  simpl. rewrite info_loop_app.
  set (i2 := if fl_ts fl then _ else i1).
  rewrite (info_opt (bp b) (fl_cs fl) _ i2
             (mkInfo (i_version i2) (i_ts i2) cs (i_uid i2) (i_user i2) (i_visible i2)))
    by (unfold info_step; simpl; rewrite (int64_enc cs H5); reflexivity).
  simpl. rewrite info_loop_app.
  set (i3 := if fl_cs fl then _ else i2).
  rewrite (info_opt (bp b) (fl_uid fl) _ i3
             (mkInfo (i_version i3) (i_ts i3) (i_cs i3) uid (i_user i3) (i_visible i3)))
    by (unfold info_step; simpl; rewrite (int32_enc uid H3); reflexivity).
  simpl. rewrite info_loop_app.
  set (i4 := if fl_uid fl then _ else i3).
  assert (E5 : info_loop (bp b) (opt (fl_usid fl) (5, WVar usid)) i4
               = Ok (if fl_usid fl then mkInfo (i_version i4) (i_ts i4) (i_cs i4) (i_uid i4) (str b usid) (i_visible i4) else i4)).
  { destruct (fl_usid fl) eqn:Ef; simpl in *; [|reflexivity].
    pose proof (sid_ok_spec b usid H2) as [Hu Hu'].
    unfold info_step. simpl. rewrite (uint32_small usid) by lia. simpl.
    rewrite (idx_str b usid H2). reflexivity. }
  rewrite E5. simpl.
  set (i5 := if fl_usid fl then _ else i4).
  rewrite (info_opt (bp b) (fl_visible fl) _ i5
             (mkInfo (i_version i5) (i_ts i5) (i_cs i5) (i_uid i5) (i_user i5) vis))
    by (unfold info_step; simpl; rewrite vbool_enc; reflexivity).
  subst i5 i4 i3 i2 i1. unfold meta. simpl.
  destruct fl as [f1 f2 f3 f4 f5 f6]. simpl in *.
  destruct f2; [rewrite (Ets eq_refl)|]; destruct f1, f3, f4, f5, f6; reflexivity.
Qed.

(* ---------- relations ---------- *)
Lemma set_nth_app {A} (done : list A) n todo f :
  set_nth (done ++ n :: todo) (length done) f = Some (done ++ f n :: todo).
Proof. induction done as [|a l IH]; simpl; [reflexivity|]. rewrite IH. reflexivity. Qed.

Lemma upd_app {A} (done : list A) n todo f : upd (done ++ n :: todo) (length done) f = Ok (done ++ f n :: todo).
Proof. unfold upd. rewrite set_nth_app. reflexivity. Qed.

Lemma member_ok_spec b m : member_ok b m = true ->
  - two31 <= md_type m < two31 /\ in_int64 (md_ref m) /\ sid_ok b (md_role m) = true.
Proof.
  unfold member_ok. intros H.
  apply andb_prop in H. destruct H as [H Hs]. apply andb_prop in H. destruct H as [H Hr].
  apply in64_spec in Hr. apply in32_spec in H. split; [exact H|]. split; assumption.
Qed.

Lemma repeat_member0_type k : Forall (fun n => m_type n = -1) (repeat member0 k).
Proof. induction k; simpl; constructor; [reflexivity | assumption]. Qed.

Lemma members_enc b : forall ms prev done todo,
  forallb (member_ok b) ms = true -> length todo = length ms ->
  Forall (fun n => m_type n = -1) todo ->
  members_loop (b_strings b) (map (fun m => enc_int (md_role m)) ms) (deltas64 prev (map md_ref ms))
               (map (fun m => enc_int (md_type m)) ms) prev (length done) (done ++ todo)
  = Ok (done ++ map (member_of b) ms).
Proof.
  induction ms as [|m ms IH]; intros prev done todo H Hl Hty.
  - destruct todo; [|discriminate]. cbn [map deltas64 members_loop]. unfold full.
    rewrite app_nil_r, Nat.eqb_refl. reflexivity.
  - destruct todo as [|n todo]; [discriminate|]. simpl in Hl. injection Hl as Hl.
    cbn [forallb] in H. apply andb_prop in H. destruct H as [Hm Hms].
    destruct (member_ok_spec b m Hm) as (Ht & Hr & Hs).
    inversion Hty as [|n' todo' Hn Hty']; subst n' todo'.
    pose proof (sid_ok_spec b (md_role m) Hs) as [Hro Hro'].
    cbn [map deltas64 members_loop].
    rewrite upd_app. cbn [rbind].
    rewrite (int32_enc (md_role m)) by (unfold two31 in *; lia).
    rewrite (idx_str b _ Hs). cbn [rbind].
    rewrite upd_app. cbn [rbind].
    rewrite upd_app. cbn [rbind].
    rewrite (delta64_roundtrip prev (md_ref m) Hr).
    rewrite (int32_enc (md_type m)) by exact Ht.
    replace (done ++ set_ref_type (md_ref m) (md_type m) (set_role (str b (md_role m)) n) :: todo)
      with ((done ++ [member_of b m]) ++ todo).
    + replace (S (length done)) with (length (done ++ [member_of b m])) by (rewrite app_length, Nat.add_1_r; reflexivity).
      rewrite (IH (md_ref m) (done ++ [member_of b m]) todo Hms Hl Hty'). rewrite <- app_assoc. reflexivity.
    + rewrite <- app_assoc. simpl. unfold set_ref_type, set_role, member_of, mtype_meaning. simpl.
      rewrite Hn. reflexivity.
Qed.

Lemma rel_ok_spec b r : rel_ok b r = true ->
  in_int64 (rd_id r) /\ info_ok b (rd_hasinfo r) (rd_fields r) (rd_info r) = true
  /\ tags_ok b false (rd_tags r) = true /\ forallb (member_ok b) (rd_members r) = true.
Proof.
  unfold rel_ok. intros H.
  apply andb_prop in H. destruct H as [H Hm]. apply andb_prop in H. destruct H as [H Ht].
  apply andb_prop in H. destruct H as [Hi Hinfo]. apply in64_spec in Hi. auto.
Qed.

Lemma scan_relation_enc b wc r : rel_ok b r = true ->
  exists wc', scan_relation (bp b) wc (enc_rel r) rel0 = Ok (rel_of b r, wc').
Proof.
  intros H. destruct (rel_ok_spec b r H) as (Hid & Hinfo & Htags & Hmem).
  destruct r as [id hasinfo fl info tags ft ms fm]. cbn [rd_id rd_hasinfo rd_fields rd_info rd_tags rd_forcetags rd_members rd_forcemembers] in *.
  unfold scan_relation, enc_rel, rel_of.
  cbn [rd_id rd_hasinfo rd_fields rd_info rd_tags rd_forcetags rd_members rd_forcemembers].
  pose proof (scan_tags_enc b tags Htags) as Et.
  pose proof (members_enc b ms 0 [] (repeat member0 (length ms)) Hmem (repeat_length _ _)
                (repeat_member0_type _)) as Em.
  assert (Ei : hasinfo = true -> info_loop (bp b) (enc_info fl info) info0 = Ok (meta b true fl info)).
  { intros E. subst hasinfo. apply info_enc. exact Hinfo. }
  destruct wc as [k1 k2 k3 k4 k5 k6 k7 k8].
  destruct (has_tags tags ft) eqn:Eht;
  destruct hasinfo;
  destruct (match ms with [] => fm | _ :: _ => true end) eqn:Ehm;
    simpl; rewrite (int64_enc id Hid); simpl;
    try (unfold rel_step; simpl; rewrite (Ei eq_refl); simpl);
    unfold tags_if_found, members_if_found, extract_members; simpl;
    try rewrite Et; simpl;
    try (rewrite map_length; simpl in Em; rewrite Em; simpl);
    try (destruct tags; [|discriminate Eht]);
    try (destruct ms; [|discriminate Ehm]);
    eexists; reflexivity.
Qed.

Lemma rel_decodes b r : rel_ok b r = true -> item_decodes b (IRel r).
Proof.
  intros H d q Hp. destruct d as [p dc wc]. simpl in Hp. subst p.
  destruct (scan_relation_enc b wc r H) as (wc' & E).
  exists (mkD (bp b) dc wc'). unfold group_step. simpl. rewrite E. simpl. auto.
Qed.

(* ---------- ways ---------- *)
Fixpoint map2 {A B} (f : A -> B -> B) (l : list A) (t : list B) : list B :=
  match l, t with
  | x :: l', n :: t' => f x n :: map2 f l' t'
  | _, _ => []
  end.

Lemma map2_length {A B} (f : A -> B -> B) : forall l t, length t = length l -> length (map2 f l t) = length l.
Proof. induction l as [|x l IH]; intros [|n t] H; simpl in *; try discriminate; auto. Qed.

Lemma deltas64_length : forall l prev, length (deltas64 prev l) = length l.
Proof. induction l as [|x l IH]; intros prev; simpl; auto. Qed.

Lemma fill_enc f : forall l prev done todo, forallb in64 l = true -> length todo = length l ->
  fill f (deltas64 prev l) prev (length done) (done ++ todo) = Ok (done ++ map2 f l todo).
Proof.
  induction l as [|x l IH]; intros prev done todo H Hl.
  - destruct todo; [|discriminate]. cbn [deltas64 fill map2]. unfold full.
    rewrite app_nil_r, Nat.eqb_refl. reflexivity.
  - destruct todo as [|n todo]; [discriminate|]. simpl in Hl. injection Hl as Hl.
    cbn [forallb] in H. apply andb_prop in H. destruct H as [Hx Hr]. apply in64_spec in Hx.
    cbn [deltas64 fill map2].
    rewrite (delta64_roundtrip' prev x Hx). rewrite upd_app. cbn [rbind].
    replace (done ++ f x n :: todo) with ((done ++ [f x n]) ++ todo) by (rewrite <- app_assoc; reflexivity).
    replace (S (length done)) with (length (done ++ [f x n])) by (rewrite app_length, Nat.add_1_r; reflexivity).
    rewrite (IH x (done ++ [f x n]) todo Hr Hl). rewrite <- app_assoc. reflexivity.
Qed.

Lemma fill_enc0 f l todo : forallb in64 l = true -> length todo = length l ->
  fill f (deltas64 0 l) 0 O todo = Ok (map2 f l todo).
Proof. intros H Hl. exact (fill_enc f l 0 [] todo H Hl). Qed.

Lemma alloc_same nodes l : length l = length nodes -> alloc_nodes nodes l = nodes.
Proof. destruct nodes; simpl; intros H; [|reflexivity]. destruct l; [reflexivity|discriminate]. Qed.

Lemma coord_ok_spec off g raw : coord_ok off g raw = true -> in_int64 raw /\ coord off g raw = off + g * raw.
Proof.
  unfold coord_ok. intros H. apply andb_prop in H. destruct H as [H H3]. apply andb_prop in H. destruct H as [H1 H2].
  apply in64_spec in H1. apply in64_spec in H2. apply in64_spec in H3. split; [exact H1|].
  unfold coord. rewrite (wrap64_id _ H2). apply wrap64_id. exact H3.
Qed.

Lemma coord_ok_in64 off g l : forallb (coord_ok off g) l = true -> forallb in64 l = true.
Proof.
  induction l as [|x l IH]; simpl; intros H; [reflexivity|]. apply andb_prop in H. destruct H as [Hx Hl].
  rewrite (IH Hl), andb_true_r. unfold coord_ok in Hx. apply andb_prop in Hx. destruct Hx as [Hx _].
  apply andb_prop in Hx. destruct Hx as [Hx _]. exact Hx.
Qed.

Lemma wnodes_nolocs b : forall refs lats lons,
  map2 set_wid refs (repeat wnode0 (length refs)) = wnodes_of b false refs lats lons.
Proof. induction refs as [|r refs IH]; intros lats lons; simpl; [reflexivity|]. f_equal. apply IH. Qed.

Lemma wnodes_locs b : forall refs lats lons,
  length lats = length refs -> length lons = length refs ->
  forallb (coord_ok (blatoff b) (bgran b)) lats = true -> forallb (coord_ok (blonoff b) (bgran b)) lons = true ->
  map2 (set_wlon (bp b)) lons (map2 (set_wlat (bp b)) lats (map2 set_wid refs (repeat wnode0 (length refs))))
  = wnodes_of b true refs lats lons.
Proof.
  induction refs as [|r refs IH]; intros [|la lats] [|lo lons] H1 H2 H3 H4; simpl in *; try discriminate; [reflexivity|].
  apply andb_prop in H3. destruct H3 as [Ha H3]. apply andb_prop in H4. destruct H4 as [Hb H4].
  destruct (coord_ok_spec _ _ _ Ha) as [_ Ea]. destruct (coord_ok_spec _ _ _ Hb) as [_ Eb].
  f_equal.
  - unfold set_wlon, set_wlat, set_wid. simpl.
    change (latoff (bp b)) with (blatoff b). change (lonoff (bp b)) with (blonoff b). change (gran (bp b)) with (bgran b).
    rewrite Ea, Eb. reflexivity.
  - apply IH; auto.
Qed.

Lemma way_ok_spec b w : way_ok b w = true ->
  in_int64 (wd_id w) /\ info_ok b (wd_hasinfo w) (wd_fields w) (wd_info w) = true
  /\ tags_ok b false (wd_tags w) = true /\ forallb in64 (wd_refs w) = true
  /\ (wd_haslocs w = true ->
      length (wd_lats w) = length (wd_refs w) /\ length (wd_lons w) = length (wd_refs w)
      /\ forallb (coord_ok (blatoff b) (bgran b)) (wd_lats w) = true
      /\ forallb (coord_ok (blonoff b) (bgran b)) (wd_lons w) = true).
Proof.
  unfold way_ok. intros H.
  apply andb_prop in H. destruct H as [H Hl]. apply andb_prop in H. destruct H as [H Hr].
  apply andb_prop in H. destruct H as [H Ht]. apply andb_prop in H. destruct H as [Hi Hinfo].
  apply in64_spec in Hi.
  split; [exact Hi|]. split; [exact Hinfo|]. split; [exact Ht|]. split; [exact Hr|].
  intros E. rewrite E in Hl. simpl in Hl.
  apply andb_prop in Hl. destruct Hl as [Hl H4]. apply andb_prop in Hl. destruct Hl as [Hl H3].
  apply andb_prop in Hl. destruct Hl as [H1 H2]. apply Nat.eqb_eq in H1. apply Nat.eqb_eq in H2. auto.
Qed.

Definition N1 (refs : list Z) : list wnode := map2 set_wid refs (repeat wnode0 (length refs)).

Lemma fill_refs refs : forallb in64 refs = true ->
  fill set_wid (deltas64 0 refs) 0 O (alloc_nodes [] (deltas64 0 refs)) = Ok (N1 refs).
Proof. intros H. unfold alloc_nodes. rewrite deltas64_length. apply fill_enc0; [exact H|apply repeat_length]. Qed.

Lemma N1_length refs : length (N1 refs) = length refs.
Proof. apply map2_length, repeat_length. Qed.

Lemma fill_lats b refs lats : length lats = length refs ->
  forallb (coord_ok (blatoff b) (bgran b)) lats = true ->
  fill (set_wlat (bp b)) (deltas64 0 lats) 0 O (alloc_nodes (N1 refs) (deltas64 0 lats))
  = Ok (map2 (set_wlat (bp b)) lats (N1 refs)).
Proof.
  intros La Ca. rewrite alloc_same by (rewrite deltas64_length, N1_length; exact La).
  apply fill_enc0; [exact (coord_ok_in64 _ _ _ Ca)|rewrite N1_length; congruence].
Qed.

Lemma fill_lons b refs lats lons : length lats = length refs -> length lons = length refs ->
  forallb (coord_ok (blatoff b) (bgran b)) lats = true -> forallb (coord_ok (blonoff b) (bgran b)) lons = true ->
  fill (set_wlon (bp b)) (deltas64 0 lons) 0 O (alloc_nodes (map2 (set_wlat (bp b)) lats (N1 refs)) (deltas64 0 lons))
  = Ok (wnodes_of b true refs lats lons).
Proof.
  intros La Lo Ca Co.
  assert (L2 : length (map2 (set_wlat (bp b)) lats (N1 refs)) = length refs)
    by (rewrite map2_length; [exact La|rewrite N1_length; congruence]).
  rewrite alloc_same by (rewrite deltas64_length; congruence).
  rewrite fill_enc0; [|exact (coord_ok_in64 _ _ _ Co)|congruence].
  unfold N1. rewrite (wnodes_locs b refs lats lons La Lo Ca Co). reflexivity.
Qed.

Lemma N1_nolocs b refs lats lons : N1 refs = wnodes_of b false refs lats lons.
Proof. apply wnodes_nolocs. Qed.

Local Opaque alloc_nodes fill N1 wnodes_of.

Lemma scan_way_enc b wc w : way_ok b w = true ->
  exists wc', scan_way (bp b) wc (enc_way w) way0 = Ok (way_of b w, wc').
Proof.
  intros H. destruct (way_ok_spec b w H) as (Hid & Hinfo & Htags & Hrefs & Hlocs).
  destruct w as [id hasinfo fl info tags ft refs fr haslocs lats lons].
  cbn [wd_id wd_hasinfo wd_fields wd_info wd_tags wd_forcetags wd_refs wd_forcerefs wd_haslocs wd_lats wd_lons] in *.
  unfold scan_way, enc_way, way_of.
  cbn [wd_id wd_hasinfo wd_fields wd_info wd_tags wd_forcetags wd_refs wd_forcerefs wd_haslocs wd_lats wd_lons].
  pose proof (scan_tags_enc b tags Htags) as Et.
  assert (Ei : hasinfo = true -> info_loop (bp b) (enc_info fl info) info0 = Ok (meta b true fl info)).
  { intros E. subst hasinfo. apply info_enc. exact Hinfo. }
  pose proof (fill_refs refs Hrefs) as Er.
  destruct wc as [k1 k2 k3 k4 k5 k6 k7 k8].
  destruct haslocs.
  - destruct (Hlocs eq_refl) as (La & Lo & Ca & Co).
    pose proof (fill_lats b refs lats La Ca) as Ea.
    pose proof (fill_lons b refs lats lons La Lo Ca Co) as Eo.
    assert (Ea0 : refs = [] -> fill (set_wlat (bp b)) (deltas64 0 lats) 0 O (alloc_nodes [] (deltas64 0 lats))
                               = Ok (map2 (set_wlat (bp b)) lats (N1 refs))).
    { intros E. subst refs. exact Ea. }
    destruct (has_tags tags ft) eqn:Eht; destruct hasinfo;
    destruct (match refs with [] => fr | _ :: _ => true end) eqn:Ehr;
      simpl; rewrite (int64_enc id Hid); simpl;
      try (unfold way_step; simpl; rewrite (Ei eq_refl); simpl);
      try (unfold way_step; simpl);
      try (rewrite Er; simpl);
      try (destruct refs; [|discriminate Ehr]; rewrite (Ea0 eq_refl); simpl);
      try (rewrite Ea; simpl); try (rewrite Eo; simpl);
      unfold tags_if_found; simpl; try rewrite Et; simpl;
      try (destruct tags; [|discriminate Eht]);
      eexists; reflexivity.
  - clear Hlocs.
    destruct (has_tags tags ft) eqn:Eht; destruct hasinfo;
    destruct (match refs with [] => fr | _ :: _ => true end) eqn:Ehr;
      simpl; rewrite (int64_enc id Hid); simpl;
      try (unfold way_step; simpl; rewrite (Ei eq_refl); simpl);
      try (unfold way_step; simpl);
      try (rewrite Er; simpl);
      unfold tags_if_found; simpl; try rewrite Et; simpl;
      try (destruct tags; [|discriminate Eht]);
      try (rewrite (N1_nolocs b refs lats lons));
      try (destruct refs; [|discriminate Ehr]);
      eexists; reflexivity.
Qed.

Lemma way_decodes b w : way_ok b w = true -> item_decodes b (IWay w).
Proof.
  intros H d q Hp. destruct d as [p dc wc]. simpl in Hp. subst p.
  destruct (scan_way_enc b wc w H) as (wc' & E).
  exists (mkD (bp b) dc wc'). unfold group_step. simpl. rewrite E. simpl. auto.
Qed.

(* ---------- blocks ---------- *)
Definition no_dense (b : block_d) : bool :=
  forallb (forallb (fun it => match it with IDense _ => false | _ => true end)) (b_groups b).

Lemma items_decode b : valid_block b = true -> no_dense b = true ->
  Forall (Forall (item_decodes b)) (b_groups b).
Proof.
  unfold valid_block, no_dense. intros Hv Hn.
  apply andb_prop in Hv. destruct Hv as [_ Hv].
  apply Forall_forall. intros g Hg. apply Forall_forall. intros it Hit.
  rewrite forallb_forall in Hv, Hn. specialize (Hv g Hg). specialize (Hn g Hg).
  rewrite forallb_forall in Hv, Hn. specialize (Hv it Hit). specialize (Hn it Hit).
  destruct it as [d|w|r|id|pn]; simpl in *; [| | | |discriminate].
  - discriminate.
  - apply way_decodes. exact Hv.
  - apply rel_decodes. exact Hv.
  - apply changeset_decodes.
Qed.

(* faithfulness for blocks of ways, relations and changesets (every Info/field/tag/ref/location/
   member combination), from every incoming decoder state *)
Theorem decode_encode_block_nodense b :
  valid_block b = true -> no_dense b = true ->
  forall st, scan_result cfg_all st (encode_block b) = Ok (elements b).
Proof. intros Hv Hn. apply decode_encode_from_items; [exact Hv|apply items_decode; assumption]. Qed.
