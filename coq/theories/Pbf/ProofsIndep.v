(* Pbf/ProofsIndep.v — the result of decoding a block does not depend on the decoder state left
   by earlier blocks, for EVERY message tree (valid or not): the cached iterators of dataDecoder
   are either overwritten before they are read or set to nil. *)
From Coq Require Import ZArith List Bool Lia.
From Verif Require Import Base.Int64 Pbf.Tree Pbf.Model.
Import ListNotations.
Open Scope Z_scope.
Open Scope res_scope.

Definition rrel {A} (R : A -> A -> Prop) (r1 r2 : result A) : Prop :=
  match r1, r2 with
  | Ok a, Ok b => R a b
  | Err x, Err y => x = y
  | Panic, Panic => True
  | _, _ => False
  end.

Lemma rrel_bind {A B} (R : A -> A -> Prop) (S : B -> B -> Prop) r1 r2 f g :
  rrel R r1 r2 -> (forall a b, R a b -> rrel S (f a) (g b)) -> rrel S (rbind r1 f) (rbind r2 g).
Proof. destruct r1, r2; simpl; intros H K; try contradiction; auto. Qed.

Lemma rrel_refl {A} (R : A -> A -> Prop) r : (forall a, R a a) -> rrel R r r.
Proof. destruct r; simpl; auto. Qed.

Lemma rrel_eq {A} (r1 r2 : result A) : rrel eq r1 r2 -> r1 = r2.
Proof. destruct r1, r2; simpl; intros H; try contradiction; congruence. Qed.

(* ---------- DenseInfo columns ---------- *)
Definition Ri (s1 s2 : icols * ifound) : Prop :=
  snd s1 = snd s2 /\ nil_info (snd s1) (fst s1) = nil_info (snd s1) (fst s2).

Lemma dinfo_step_indep s1 s2 f : Ri s1 s2 -> rrel Ri (dinfo_step s1 f) (dinfo_step s2 f).
Proof.
  destruct s1 as [[a1 a2 a3 a4 a5 a6] fi], s2 as [[b1 b2 b3 b4 b5 b6] fi2].
  intros [Hf H]. simpl in Hf. subst fi2. destruct fi as [f1 f2 f3 f4 f5 f6].
  unfold nil_info, keep in H. simpl in H.
  unfold dinfo_step. simpl.
  repeat (match goal with |- context [if ?n =? ?k then _ else _] => destruct (n =? k) end);
    try (destruct (as_packed (snd f)); simpl; auto; split; [reflexivity|]);
    try (split; [reflexivity|]);
    unfold nil_info, keep; simpl;
    destruct f1, f2, f3, f4, f5, f6; simpl in *; congruence.
Qed.

Lemma dinfo_loop_indep m : forall s1 s2, Ri s1 s2 -> rrel Ri (dinfo_loop m s1) (dinfo_loop m s2).
Proof.
  induction m as [|f r IH]; intros s1 s2 H; simpl.
  - exact H.
  - apply rrel_bind with (R := Ri); [apply dinfo_step_indep; exact H|]. intros a b Hab. apply IH. exact Hab.
Qed.

Lemma Ri_if0 ic1 ic2 : Ri (ic1, if0) (ic2, if0).
Proof. split; reflexivity. Qed.

(* ---------- DenseNodes field loop ---------- *)
(* what dense_fixup can see of the state *)
Definition dview (s : dcols * dfound) : dcols :=
  let dc := fst s in let fd := snd s in
  mkDC (keep (fd_ids fd) (c_ids dc)) (if fd_info fd then c_info dc else ic0)
       (keep (fd_lats fd) (c_lats dc)) (keep (fd_lons fd) (c_lons dc)) (keep (fd_kv fd) (c_keyvals dc)).

Definition Rd (s1 s2 : dcols * dfound) : Prop := snd s1 = snd s2 /\ dview s1 = dview s2.

Lemma dense_step_indep s1 s2 f : Rd s1 s2 -> rrel Rd (dense_step s1 f) (dense_step s2 f).
Proof.
  destruct s1 as [[a1 a2 a3 a4 a5] fd], s2 as [[b1 b2 b3 b4 b5] fd2].
  intros [Hf H]. simpl in Hf. subst fd2. destruct fd as [f1 f2 f3 f4 f5].
  unfold dview, keep in H. simpl in H.
  unfold dense_step. simpl.
  destruct (fst f =? 1).
  { destruct (as_packed (snd f)); simpl; auto. split; [reflexivity|].
    unfold dview, keep; simpl. destruct f2, f3, f4, f5; simpl in *; congruence. }
  destruct (fst f =? 5).
  { destruct (as_msg (snd f)) as [d| |]; simpl; auto.
    pose proof (dinfo_loop_indep d (a2, if0) (b2, if0) (Ri_if0 a2 b2)) as Hi.
    destruct (dinfo_loop d (a2, if0)) as [[x fx]| |], (dinfo_loop d (b2, if0)) as [[y fy]| |];
      simpl in *; try contradiction; auto.
    destruct Hi as [Hfx Hn]. simpl in Hfx, Hn. subst fy. split; [reflexivity|].
    unfold dview, keep; simpl. rewrite Hn. destruct f1, f3, f4, f5; simpl in *; congruence. }
  destruct (fst f =? 8).
  { destruct (as_packed (snd f)); simpl; auto. split; [reflexivity|].
    unfold dview, keep; simpl. destruct f1, f2, f4, f5; simpl in *; congruence. }
  destruct (fst f =? 9).
  { destruct (as_packed (snd f)); simpl; auto. split; [reflexivity|].
    unfold dview, keep; simpl. destruct f1, f2, f3, f5; simpl in *; congruence. }
  destruct (fst f =? 10).
  { destruct (as_packed (snd f)); simpl; auto. split; [reflexivity|].
    unfold dview, keep; simpl. destruct f1, f2, f3, f4; simpl in *; congruence. }
  simpl. split; [reflexivity|]. unfold dview, keep; simpl. exact H.
Qed.

Lemma dense_loop_indep m : forall s1 s2, Rd s1 s2 -> rrel Rd (dense_loop m s1) (dense_loop m s2).
Proof.
  induction m as [|f r IH]; intros s1 s2 H; simpl.
  - exact H.
  - apply rrel_bind with (R := Rd); [apply dense_step_indep; exact H|]. intros a b Hab. apply IH. exact Hab.
Qed.

Lemma dense_fixup_view s1 s2 : Rd s1 s2 -> dense_fixup s1 = dense_fixup s2.
Proof.
  destruct s1 as [[a1 a2 a3 a4 a5] fd], s2 as [[b1 b2 b3 b4 b5] fd2].
  intros [Hf H]. simpl in Hf. subst fd2. destruct fd as [f1 f2 f3 f4 f5].
  unfold dview, keep in H. simpl in H. unfold dense_fixup, keep. simpl.
  destruct f1, f2, f3, f4, f5; simpl in *; congruence.
Qed.

(* scanDenseNodes: the objects (and the error class / panic) are independent of the iterators it
   finds.  (The iterators it LEAVES are too, except on the no-nodes path, which returns before the
   nil-ing and leaves the columns it did not see untouched - never read again before being
   overwritten or niled, as this very theorem shows for the next call.) *)
Definition snd_eq {A B} (x y : A * B) : Prop := snd x = snd y.

Theorem scan_dense_indep c p dc1 dc2 m q : rrel snd_eq (scan_dense c p dc1 m q) (scan_dense c p dc2 m q).
Proof.
  unfold scan_dense.
  assert (H : Rd (dc1, df0) (dc2, df0)) by (split; reflexivity).
  pose proof (dense_loop_indep m _ _ H) as Hl.
  destruct (dense_loop m (dc1, df0)) as [s1| |], (dense_loop m (dc2, df0)) as [s2| |];
    simpl in *; try contradiction; try congruence.
  destruct Hl as [Hf Hv]. rewrite <- Hf.
  destruct (dense_empty (snd s1)); [reflexivity|].
  rewrite (dense_fixup_view s1 s2 (conj Hf Hv)).
  apply rrel_refl. intros a. reflexivity.
Qed.

(* ---------- ways ---------- *)
Definition Rw (s1 s2 : wst) : Prop :=
  ws_way s1 = ws_way s2 /\ ws_fk s1 = ws_fk s2 /\ ws_fv s1 = ws_fv s2 /\
  keep (ws_fk s1) (c_keys (ws_wc s1)) = keep (ws_fk s1) (c_keys (ws_wc s2)) /\
  keep (ws_fv s1) (c_vals (ws_wc s1)) = keep (ws_fv s1) (c_vals (ws_wc s2)).

Lemma way_step_indep p s1 s2 f : Rw s1 s2 -> rrel Rw (way_step p s1 f) (way_step p s2 f).
Proof.
  destruct s1 as [w [a1 a2 a3 a4 a5 a6 a7 a8] fk fv], s2 as [w2 [b1 b2 b3 b4 b5 b6 b7 b8] fk2 fv2].
  intros (Hw & Hk & Hv & H1 & H2). simpl in *. subst w2 fk2 fv2.
  unfold way_step. simpl.
  repeat (match goal with |- context [if ?n =? ?k then _ else _] => destruct (n =? k) end);
    try (destruct (as_var (snd f)); simpl; auto);
    try (destruct (as_packed (snd f)) as [l| |]; simpl; auto);
    try (destruct (as_msg (snd f)) as [d| |]; simpl; auto);
    try (destruct (info_loop p d (w_info w)); simpl; auto);
    try (match goal with |- context [fill ?a ?b ?c ?d ?e] => destruct (fill a b c d e); simpl; auto end);
    unfold Rw; simpl; repeat split; auto.
Qed.

Lemma way_loop_indep p m : forall s1 s2, Rw s1 s2 -> rrel Rw (way_loop p m s1) (way_loop p m s2).
Proof.
  induction m as [|f r IH]; intros s1 s2 H; simpl.
  - exact H.
  - apply rrel_bind with (R := Rw); [apply way_step_indep; exact H|]. intros a b Hab. apply IH. exact Hab.
Qed.

Lemma tags_if_found_indep st fk fv wc1 wc2 old :
  keep fk (c_keys wc1) = keep fk (c_keys wc2) -> keep fv (c_vals wc1) = keep fv (c_vals wc2) ->
  tags_if_found st fk fv wc1 old = tags_if_found st fk fv wc2 old.
Proof.
  unfold tags_if_found, keep. destruct fk, fv; simpl; intros H1 H2; try reflexivity.
  rewrite H1, H2. reflexivity.
Qed.

Definition fst_eq {A B} (x y : A * B) : Prop := fst x = fst y.

Theorem scan_way_indep p wc1 wc2 m w : rrel fst_eq (scan_way p wc1 m w) (scan_way p wc2 m w).
Proof.
  unfold scan_way.
  assert (H : Rw (mkWst w wc1 false false) (mkWst w wc2 false false)) by (repeat split).
  pose proof (way_loop_indep p m _ _ H) as Hl.
  destruct (way_loop p m (mkWst w wc1 false false)) as [s1| |],
           (way_loop p m (mkWst w wc2 false false)) as [s2| |]; simpl in *; try contradiction; auto.
  destruct Hl as (Hw & Hk & Hv & H1 & H2).
  rewrite <- Hw, <- Hk, <- Hv.
  rewrite (tags_if_found_indep (p_st p) (ws_fk s1) (ws_fv s1) (ws_wc s1) (ws_wc s2) (w_tags (ws_way s1)) H1 H2).
  destruct (tags_if_found (p_st p) (ws_fk s1) (ws_fv s1) (ws_wc s2) (w_tags (ws_way s1))); simpl; auto.
  reflexivity.
Qed.

(* ---------- relations ---------- *)
Definition Rr (s1 s2 : rst) : Prop :=
  rs_rel s1 = rs_rel s2 /\ rs_fk s1 = rs_fk s2 /\ rs_fv s1 = rs_fv s2 /\
  rs_fr s1 = rs_fr s2 /\ rs_fm s1 = rs_fm s2 /\ rs_ft s1 = rs_ft s2 /\
  keep (rs_fk s1) (c_keys (rs_wc s1)) = keep (rs_fk s1) (c_keys (rs_wc s2)) /\
  keep (rs_fv s1) (c_vals (rs_wc s1)) = keep (rs_fv s1) (c_vals (rs_wc s2)) /\
  keep (rs_fr s1) (c_roles (rs_wc s1)) = keep (rs_fr s1) (c_roles (rs_wc s2)) /\
  keep (rs_fm s1) (c_memids (rs_wc s1)) = keep (rs_fm s1) (c_memids (rs_wc s2)) /\
  keep (rs_ft s1) (c_types (rs_wc s1)) = keep (rs_ft s1) (c_types (rs_wc s2)).

Lemma rel_step_indep p s1 s2 f : Rr s1 s2 -> rrel Rr (rel_step p s1 f) (rel_step p s2 f).
Proof.
  destruct s1 as [r [a1 a2 a3 a4 a5 a6 a7 a8] fk fv fr fm ft],
           s2 as [r2 [b1 b2 b3 b4 b5 b6 b7 b8] fk2 fv2 fr2 fm2 ft2].
  intros (Hr & Hk & Hv & Hfr & Hfm & Hft & H1 & H2 & H3 & H4 & H5). simpl in *. subst r2 fk2 fv2 fr2 fm2 ft2.
  unfold rel_step. simpl.
  repeat (match goal with |- context [if ?n =? ?k then _ else _] => destruct (n =? k) end);
    try (destruct (as_var (snd f)); simpl; auto);
    try (destruct (as_packed (snd f)) as [l| |]; simpl; auto);
    try (destruct (as_msg (snd f)) as [d| |]; simpl; auto);
    try (destruct (info_loop p d (r_info r)); simpl; auto);
    unfold Rr; simpl; repeat split; auto.
Qed.

Lemma rel_loop_indep p m : forall s1 s2, Rr s1 s2 -> rrel Rr (rel_loop p m s1) (rel_loop p m s2).
Proof.
  induction m as [|f r IH]; intros s1 s2 H; simpl.
  - exact H.
  - apply rrel_bind with (R := Rr); [apply rel_step_indep; exact H|]. intros a b Hab. apply IH. exact Hab.
Qed.

Lemma members_if_found_indep st fr fm ft wc1 wc2 old :
  keep fr (c_roles wc1) = keep fr (c_roles wc2) -> keep fm (c_memids wc1) = keep fm (c_memids wc2) ->
  keep ft (c_types wc1) = keep ft (c_types wc2) ->
  members_if_found st fr fm ft wc1 old = members_if_found st fr fm ft wc2 old.
Proof.
  unfold members_if_found, keep. destruct fr, fm, ft; simpl; intros H1 H2 H3; try reflexivity.
  rewrite H1, H2, H3. reflexivity.
Qed.

Theorem scan_relation_indep p wc1 wc2 m r : rrel fst_eq (scan_relation p wc1 m r) (scan_relation p wc2 m r).
Proof.
  unfold scan_relation.
  assert (H : Rr (mkRst r wc1 false false false false false) (mkRst r wc2 false false false false false))
    by (repeat split).
  pose proof (rel_loop_indep p m _ _ H) as Hl.
  destruct (rel_loop p m (mkRst r wc1 false false false false false)) as [s1| |],
           (rel_loop p m (mkRst r wc2 false false false false false)) as [s2| |];
    simpl in *; try contradiction; auto.
  destruct Hl as (Hr & Hk & Hv & Hfr & Hfm & Hft & H1 & H2 & H3 & H4 & H5).
  rewrite <- Hr, <- Hk, <- Hv, <- Hfr, <- Hfm, <- Hft.
  rewrite (tags_if_found_indep (p_st p) _ _ (rs_wc s1) (rs_wc s2) (r_tags (rs_rel s1)) H1 H2).
  destruct (tags_if_found (p_st p) (rs_fk s1) (rs_fv s1) (rs_wc s2) (r_tags (rs_rel s1))); simpl; auto.
  rewrite (members_if_found_indep (p_st p) _ _ _ (rs_wc s1) (rs_wc s2) (r_members (rs_rel s1)) H3 H4 H5).
  destruct (members_if_found (p_st p) (rs_fr s1) (rs_fm s1) (rs_ft s1) (rs_wc s2) (r_members (rs_rel s1)));
    simpl; auto.
  reflexivity.
Qed.

(* ---------- groups, blocks ---------- *)
(* two group states that differ only in the cached iterators *)
Definition Rg (s1 s2 : gst) : Prop :=
  d_p (g_d s1) = d_p (g_d s2) /\ g_way s1 = g_way s2 /\ g_rel s1 = g_rel s2 /\ g_q s1 = g_q s2.

Lemma group_step_indep c s1 s2 f : Rg s1 s2 -> rrel Rg (group_step c s1 f) (group_step c s2 f).
Proof.
  destruct s1 as [[p dc1 wc1] w r q], s2 as [[p2 dc2 wc2] w2 r2 q2].
  intros (Hp & Hw & Hr & Hq). simpl in *. subst p2 w2 r2 q2.
  unfold group_step. simpl.
  destruct (fst f =? 1); [simpl; reflexivity|].
  destruct ((fst f =? 2) && negb (skip_nodes c)).
  { destruct (as_msg (snd f)) as [m| |]; simpl; auto.
    pose proof (scan_dense_indep c p dc1 dc2 m q) as Hs.
    destruct (scan_dense c p dc1 m q) as [[dc1' q1']| |], (scan_dense c p dc2 m q) as [[dc2' q2']| |];
      simpl in *; try contradiction; auto.
    unfold snd_eq in Hs. simpl in Hs. subst q2'. repeat split. }
  destruct ((fst f =? 3) && negb (skip_ways c)).
  { destruct (as_msg (snd f)) as [m| |]; simpl; auto.
    pose proof (scan_way_indep p wc1 wc2 m w) as Hs.
    destruct (scan_way p wc1 m w) as [[w1 wc1']| |], (scan_way p wc2 m w) as [[w2 wc2']| |];
      simpl in *; try contradiction; auto.
    unfold fst_eq in Hs. simpl in Hs. subst w2.
    destruct (f_way c w1); simpl; repeat split. }
  destruct ((fst f =? 4) && negb (skip_rels c)).
  { destruct (as_msg (snd f)) as [m| |]; simpl; auto.
    pose proof (scan_relation_indep p wc1 wc2 m r) as Hs.
    destruct (scan_relation p wc1 m r) as [[r1 wc1']| |], (scan_relation p wc2 m r) as [[r2 wc2']| |];
      simpl in *; try contradiction; auto.
    unfold fst_eq in Hs. simpl in Hs. subst r2.
    destruct (f_rel c r1); simpl; repeat split. }
  simpl. repeat split.
Qed.

Lemma group_loop_indep c m : forall s1 s2, Rg s1 s2 -> rrel Rg (group_loop c m s1) (group_loop c m s2).
Proof.
  induction m as [|f r IH]; intros s1 s2 H; simpl.
  - exact H.
  - apply rrel_bind with (R := Rg); [apply group_step_indep; exact H|]. intros a b Hab. apply IH. exact Hab.
Qed.

Definition Rb (x y : dstate * list obj) : Prop := d_p (fst x) = d_p (fst y) /\ snd x = snd y.

Lemma scan_group_indep c d1 d2 m q : d_p d1 = d_p d2 -> rrel Rb (scan_group c d1 m q) (scan_group c d2 m q).
Proof.
  intros Hp. unfold scan_group.
  assert (H : Rg (mkG d1 way0 rel0 q) (mkG d2 way0 rel0 q)) by (repeat split; exact Hp).
  pose proof (group_loop_indep c m _ _ H) as Hl.
  destruct (group_loop c m (mkG d1 way0 rel0 q)) as [s1| |], (group_loop c m (mkG d2 way0 rel0 q)) as [s2| |];
    simpl in *; try contradiction; auto.
  destruct Hl as (H1 & _ & _ & H4). split; assumption.
Qed.

Lemma pass2_indep c m : forall d1 d2 q, d_p d1 = d_p d2 -> rrel Rb (pass2 c m d1 q) (pass2 c m d2 q).
Proof.
  induction m as [|f r IH]; intros d1 d2 q Hp; simpl.
  - split; [exact Hp|reflexivity].
  - destruct (fst f =? 2); [|apply IH; exact Hp].
    destruct (as_msg (snd f)) as [g| |]; simpl; auto.
    pose proof (scan_group_indep c d1 d2 g q Hp) as Hs.
    destruct (scan_group c d1 g q) as [[d1' q1]| |], (scan_group c d2 g q) as [[d2' q2]| |];
      simpl in *; try contradiction; auto.
    destruct Hs as [H1 H2]. simpl in H1, H2. subst q2. apply IH. exact H1.
Qed.

(* THE "never inherits from an earlier block" clause, for every message tree and every pair of
   incoming decoder states: same objects, same error class, same panic. *)
Theorem scan_result_state_independent : forall c st1 st2 m, scan_result c st1 m = scan_result c st2 m.
Proof.
  intros c st1 st2 m. unfold scan_result, scan_block.
  destruct (pass1 m p0) as [p1| |]; simpl; auto.
  pose proof (pass2_indep c m (mkD p1 (d_dc st1) (d_wc st1)) (mkD p1 (d_dc st2) (d_wc st2)) [] eq_refl) as H.
  destruct (pass2 c m (mkD p1 (d_dc st1) (d_wc st1)) []) as [[d1 q1]| |],
           (pass2 c m (mkD p1 (d_dc st2) (d_wc st2)) []) as [[d2 q2]| |];
    simpl in *; try contradiction; try congruence.
  destruct H as [_ H]. simpl in H. congruence.
Qed.
