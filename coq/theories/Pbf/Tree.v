(* Pbf/Tree.v — protobuf message trees and protoscan's typed accessors (executable only).

   A message tree is what protoscan hands to osmpbf/decode_data.go: the list of fields of a
   message in wire order.  Bytes -> tree is protoscan/protobuf and is exercised by
   correspondence only (the harness parses the very bytes it feeds to the decoder with an
   independent protowire walk and sends that tree).

   WELL-TYPED TREES.  The constructors WVar / WPacked / WStr / WMsg / WFix64 / WFix32 record the wire
   type AND the way the decoder reads the field.  protoscan v0.2.1 checks no wire type (iterator.go:
   "TODO: validate wiretype"): Int32() on a length-delimited field reads the length prefix as the
   value, Iterator()/MessageData() on a varint take its value as a length.  The typed views below
   (as_var, as_packed, as_msg) answer Err E_WIRE instead.  So model and implementation agree only on
   well-typed trees: every field whose number the enclosing message's schema defines carries the
   constructor the schema's type requires (scalar -> WVar, packed column -> WPacked, bytes/string ->
   WStr, sub-message -> WMsg), recursively; fields with undefined numbers may carry anything (they are
   skipped by wire type).  Every tree the harness ships is well-typed by construction (its parser is
   schema-directed) and the checks reject a case on which the model answers E_WIRE (code 4).
   Statements quantified over "every message tree" are statements about the MODEL; they transfer to
   the implementation on well-typed trees only (byte-level misreads of ill-typed input belong to the
   framing/damage properties C06/C09, which feed bytes, not trees).

   Raw varints are Z in [0, 2^64).  Fixed32/fixed64 fields only occur as unknown fields (no OSM PBF
   message defines one); the decoder skips them (skipField, fix 29230da: protoscan v0.2.1 mis-skips a
   fixed-width field that ends a message), so a typed view of one is a wire-type error. *)
From Coq Require Import ZArith List Bool.
From Verif Require Import Base.Int64.
Import ListNotations.
Open Scope Z_scope.

Definition bytes := list Z.

Inductive wval : Type :=
| WVar (n : Z)                      (* wire type 0 *)
| WPacked (l : list Z)              (* wire type 2 read through Message.Iterator *)
| WStr (s : bytes)                  (* wire type 2, opaque *)
| WMsg (m : list (Z * wval))        (* wire type 2 read through MessageData *)
| WFix64 (n : Z)                    (* wire type 1 (only ever skipped: no OSM PBF field is fixed-width) *)
| WFix32 (n : Z).                   (* wire type 5 *)

Definition msg := list (Z * wval).

(* outcome of a decoding step: a returned error (small enum), or a run-time panic
   (index out of range, explicit panic) which kills the worker goroutine = the process *)
Inductive result (A : Type) : Type :=
| Ok (a : A)
| Err (c : Z)
| Panic.
Arguments Ok {A} a.
Arguments Err {A} c.
Arguments Panic {A}.

Definition rbind {A B} (r : result A) (f : A -> result B) : result B :=
  match r with Ok a => f a | Err c => Err c | Panic => Panic end.

Declare Scope res_scope.
Delimit Scope res_scope with res.
Notation "x <- r ;;; k" := (rbind r (fun x => k))
  (at level 61, r at next level, right associativity) : res_scope.
Notation "' p <- r ;;; k" := (rbind r (fun p => k))
  (at level 61, p pattern, r at next level, right associativity) : res_scope.
Open Scope res_scope.

(* error classes.  The correspondence checks compare only ok / error / panic with the implementation
   (C01/Check.v, C08/Check.v: `Err _ => status = 1`), not the class, and not the objects delivered
   before a failing block; the classes serve the theorems and C06. *)
Definition E_WIRE : Z := 1.      (* field has an unexpected wire type *)
Definition E_EOF : Z := 2.       (* a column ran out: io.ErrUnexpectedEOF *)
Definition E_OVERFLOW : Z := 3.  (* protoscan.ErrIntOverflow (Uint32 of a varint > 5 bytes) *)
Definition E_NO_IDS : Z := 4.
Definition E_NO_LATS : Z := 5.
Definition E_NO_LONS : Z := 6.
Definition E_INDEX : Z := 7.     (* stringAt: string table index out of range *)
Definition E_COLUMNS : Z := 10.  (* errWayColumns / errMemberColumns: parallel columns differ in length *)
Definition E_PLAIN : Z := 11.    (* plain (non-dense) nodes are not supported *)

(* ---- protoscan scalar accessors on a raw varint v, 0 <= v < 2^64 ---- *)
Definition unzig (v : Z) : Z := if Z.even v then v / 2 else - ((v + 1) / 2).
Definition sint64 (v : Z) : Z := unzig v.                 (* unZig64 *)
Definition sint32 (v : Z) : Z := wrap32 (unzig v).        (* int32(unZig64(v)) *)
Definition int64 (v : Z) : Z := wrap64 v.                 (* int64(v) *)
Definition int32 (v : Z) : Z := wrap32 v.                 (* int32(v) *)
Definition two35 : Z := 34359738368.
Definition uint32 (v : Z) : result Z :=                   (* varint32: overflow after 5 bytes *)
  if v <? two35 then Ok (v mod two32) else Err E_OVERFLOW.
Definition vbool (v : Z) : bool := v =? 1.                (* Bool(): v == 1 *)

(* writer side (spec): raw varints of typed values *)
Definition zig64 (x : Z) : Z := if 0 <=? x then 2 * x else - 2 * x - 1.
Definition enc_int (x : Z) : Z := x mod two64.            (* int32/int64/enum: sign-extended *)
Definition enc_bool (b : bool) : Z := if b then 1 else 0.

(* ---- typed views of a field value ---- *)
Definition as_var (v : wval) : result Z := match v with WVar n => Ok n | _ => Err E_WIRE end.
Definition as_packed (v : wval) : result (list Z) := match v with WPacked l => Ok l | _ => Err E_WIRE end.
Definition as_msg (v : wval) : result msg := match v with WMsg m => Ok m | _ => Err E_WIRE end.

(* an Iterator is modelled by the values it has not yet returned; nil iterator = None *)
Definition iter := option (list Z).

(* if it != nil { v, err := it.X() ... } *)
Definition col_next (c : iter) : result (option Z * iter) :=
  match c with
  | None => Ok (None, None)
  | Some [] => Err E_EOF
  | Some (v :: r) => Ok (Some v, Some r)
  end.

(* mandatory column read: it.X() on a non-nil iterator *)
Definition it_next (l : list Z) : result (Z * list Z) :=
  match l with [] => Err E_EOF | v :: r => Ok (v, r) end.

(* Outcome of an out-of-range string-table index: stringAt returns an error
   (fix 7644851; before it, st[i] panicked in the worker goroutine). *)
Definition oob {A} : result A := Err E_INDEX.

Definition idx {A} (l : list A) (i : Z) : result A :=
  if i <? 0 then oob else match nth_error l (Z.to_nat i) with Some a => Ok a | None => oob end.

Fixpoint set_nth {A} (l : list A) (n : nat) (f : A -> A) : option (list A) :=
  match l, n with
  | [], _ => None
  | a :: r, O => Some (f a :: r)
  | a :: r, S k => match set_nth r k f with Some r' => Some (a :: r') | None => None end
  end.

(* if index >= len(s) { return errColumns }; s[index] = ...   (fix ed32e9e) *)
Definition upd {A} (l : list A) (i : nat) (f : A -> A) : result (list A) :=
  match set_nth l i f with Some l' => Ok l' | None => Err E_COLUMNS end.
(* after the loop: if index != len(s) { return errColumns } *)
Definition full {A} (l : list A) (i : nat) : result (list A) :=
  if Nat.eqb i (length l) then Ok l else Err E_COLUMNS.
