(* Pbf/Spec.v — specification side of the PBF layer L1 (executable only).

   block_d   : a description of one PrimitiveBlock at the level of the format (mirrors
               harness/pbfgen's Block: string table + indices, raw grid coordinates, raw
               timestamps, presence flags for every optional column / field).
   elements  : the meaning of a description, written from the comments of osmformat.proto —
               visibly simpler than the decoder: no iterators, no state, no deltas.
   encode_block : reference encoder into a message tree, canonical field order
               (ascending field numbers: string table, groups, then the block parameters).
   valid_block : the domain of the faithfulness theorem. *)
From Coq Require Import ZArith List Bool.
From Verif Require Import Base.Int64 Pbf.Tree Pbf.Model.
Import ListNotations.
Open Scope Z_scope.

Record info_d := mkInfoD {
  id_version : Z; id_ts : Z; id_cs : Z; id_uid : Z; id_usid : Z; id_visible : bool }.
Record flags := mkFl {
  fl_version : bool; fl_ts : bool; fl_cs : bool; fl_uid : bool; fl_usid : bool; fl_visible : bool }.

Record dnode_d := mkDN { dn_id : Z; dn_lat : Z; dn_lon : Z; dn_info : info_d; dn_tags : list (Z * Z) }.
(* de_omit: a group without nodes, without denseinfo and without keys_vals is written as the
   EMPTY DenseNodes message (protobuf encoders do not write empty packed fields); otherwise the
   id / lat / lon columns are always written (with length 0 when there are no nodes) *)
Record dense_d := mkDense { de_nodes : list dnode_d; de_hasinfo : bool; de_cols : flags; de_haskv : bool;
                            de_omit : bool }.

Record way_d := mkWayD {
  wd_id : Z; wd_hasinfo : bool; wd_fields : flags; wd_info : info_d; wd_tags : list (Z * Z);
  wd_forcetags : bool; wd_refs : list Z; wd_forcerefs : bool;
  wd_haslocs : bool; wd_lats : list Z; wd_lons : list Z }.

Record member_d := mkMemD { md_type : Z; md_ref : Z; md_role : Z }.
Record rel_d := mkRelD {
  rd_id : Z; rd_hasinfo : bool; rd_fields : flags; rd_info : info_d; rd_tags : list (Z * Z);
  rd_forcetags : bool; rd_members : list member_d; rd_forcemembers : bool }.

(* a plain (non-dense) Node message: field 1 of a PrimitiveGroup.  Valid OSM PBF (osmformat.proto:
   `repeated Node nodes = 1`), written by few tools; the decoder under test answers with an error
   (known finding "plain-node-group", see plain_nodes_refuted in ProofsAll.v) *)
Record pnode_d := mkPN {
  pn_id : Z; pn_lat : Z; pn_lon : Z; pn_hasinfo : bool; pn_fields : flags; pn_info : info_d; pn_tags : list (Z * Z) }.

Inductive item_d := IDense (d : dense_d) | IWay (w : way_d) | IRel (r : rel_d) | IChangeset (id : Z)
                  | INode (n : pnode_d).

Record block_d := mkBlockD {
  b_strings : list bytes; b_omit_st : bool;
  b_gran : option Z; b_dgran : option Z; b_latoff : option Z; b_lonoff : option Z;
  b_groups : list (list item_d) }.

(* effective block parameters: the format defaults when absent *)
Definition bgran (b : block_d) : Z := match b_gran b with Some g => g | None => 100 end.
Definition bdgran (b : block_d) : Z := match b_dgran b with Some g => g | None => 1000 end.
Definition blatoff (b : block_d) : Z := match b_latoff b with Some g => g | None => 0 end.
Definition blonoff (b : block_d) : Z := match b_lonoff b with Some g => g | None => 0 end.

(* ---------- meaning ---------- *)
Definition str (b : block_d) (i : Z) : bytes := nth (Z.to_nat i) (b_strings b) [].

(* absent Info / field / column: version 0, no timestamp, changeset 0, uid 0, user "", visible *)
Definition meta (b : block_d) (present : bool) (fl : flags) (i : info_d) : info :=
  if present then
    mkInfo (if fl_version fl then id_version i else 0)
           (if fl_ts fl then Some (id_ts i * bdgran b * 1000000) else None)
           (if fl_cs fl then id_cs i else 0)
           (if fl_uid fl then id_uid i else 0)
           (if fl_usid fl then str b (id_usid i) else [])
           (if fl_visible fl then id_visible i else true)
  else info0.

Definition tags_of (b : block_d) (ts : list (Z * Z)) : list tag :=
  map (fun t => (str b (fst t), str b (snd t))) ts.

Definition node_of (b : block_d) (d : dense_d) (n : dnode_d) : node :=
  mkNode (dn_id n) (blatoff b + bgran b * dn_lat n) (blonoff b + bgran b * dn_lon n)
         (meta b (de_hasinfo d) (de_cols d) (dn_info n))
         (if de_haskv d then tags_of b (dn_tags n) else []).

Fixpoint wnodes_of (b : block_d) (haslocs : bool) (refs lats lons : list Z) : list wnode :=
  match refs with
  | [] => []
  | r :: rr =>
      mkWN r (if haslocs then blatoff b + bgran b * hd 0 lats else 0)
             (if haslocs then blonoff b + bgran b * hd 0 lons else 0)
      :: wnodes_of b haslocs rr (tl lats) (tl lons)
  end.

Definition way_of (b : block_d) (w : way_d) : way :=
  mkWay (wd_id w) (meta b (wd_hasinfo w) (wd_fields w) (wd_info w)) (tags_of b (wd_tags w))
        (wnodes_of b (wd_haslocs w) (wd_refs w) (wd_lats w) (wd_lons w)).

(* The member type column is an enum {NODE = 0, WAY = 1, RELATION = 2} stored as int32.  A value
   outside the enum (a newer writer, a damaged file) is not an error of the format: the member
   is still a member, it just has no known type (-1, osm.Type "").  First-class in the
   description since round 3 (a stale type from an earlier, rejected relation is not "no type"). *)
Definition mtype_meaning (t : Z) : Z := if (0 <=? t) && (t <=? 2) then t else -1.

Definition member_of (b : block_d) (m : member_d) : member :=
  mkMem (mtype_meaning (md_type m)) (md_ref m) (str b (md_role m)).

Definition rel_of (b : block_d) (r : rel_d) : relation :=
  mkRel (rd_id r) (meta b (rd_hasinfo r) (rd_fields r) (rd_info r)) (tags_of b (rd_tags r))
        (map (member_of b) (rd_members r)).

Definition pnode_of (b : block_d) (n : pnode_d) : node :=
  mkNode (pn_id n) (blatoff b + bgran b * pn_lat n) (blonoff b + bgran b * pn_lon n)
         (meta b (pn_hasinfo n) (pn_fields n) (pn_info n)) (tags_of b (pn_tags n)).

Definition item_elements (b : block_d) (it : item_d) : list obj :=
  match it with
  | INode n => [ONode (pnode_of b n)]
  | IDense d => map (fun n => ONode (node_of b d n)) (de_nodes d)
  | IWay w => [OWay (way_of b w)]
  | IRel r => [ORel (rel_of b r)]
  | IChangeset _ => []
  end.

Definition group_elements (b : block_d) (g : list item_d) : list obj := flat_map (item_elements b) g.
Definition elements (b : block_d) : list obj := flat_map (group_elements b) (b_groups b).

(* the nanodegree coordinates an element carries, and the bound under which the float64 result of
   1e-9 * float64(n) is within 1e-10 degrees of n * 1e-9 (PbfFloat/CoordFloat.v: elements_coord_float_error) *)
Definition max_coord_nano : Z := 400000000000000.
Definition obj_coords (o : obj) : list Z :=
  match o with
  | ONode n => [n_lat n; n_lon n]
  | OWay w => flat_map (fun x => [wn_lat x; wn_lon x]) (w_nodes w)
  | ORel _ => []
  end.
Definition coords_small (b : block_d) : bool :=
  forallb (fun o => forallb (fun n => Z.abs n <=? max_coord_nano) (obj_coords o)) (elements b).

(* what a scanner configuration keeps *)
Definition keeps (c : cfg) (o : obj) : bool :=
  match o with
  | ONode n => negb (skip_nodes c) && f_node c n
  | OWay w => negb (skip_ways c) && f_way c w
  | ORel r => negb (skip_rels c) && f_rel c r
  end.

(* ---------- reference encoder ---------- *)
Definition opt {A} (b : bool) (x : A) : list A := if b then [x] else [].

(* sint64 DELTA column; the running value wraps like the reader's accumulator *)
Fixpoint deltas64 (prev : Z) (l : list Z) : list Z :=
  match l with [] => [] | x :: r => zig64 (wrap64 (x - prev)) :: deltas64 x r end.
(* sint32 DELTA column *)
Fixpoint deltas32 (prev : Z) (l : list Z) : list Z :=
  match l with [] => [] | x :: r => zig64 (wrap32 (x - prev)) :: deltas32 x r end.

Definition enc_info (fl : flags) (i : info_d) : msg :=
  opt (fl_version fl) (1, WVar (enc_int (id_version i))) ++
  opt (fl_ts fl) (2, WVar (enc_int (id_ts i))) ++
  opt (fl_cs fl) (3, WVar (enc_int (id_cs i))) ++
  opt (fl_uid fl) (4, WVar (enc_int (id_uid i))) ++
  opt (fl_usid fl) (5, WVar (id_usid i)) ++
  opt (fl_visible fl) (6, WVar (enc_bool (id_visible i))).

Definition kv_of (n : dnode_d) : list Z :=
  flat_map (fun t => [enc_int (fst t); enc_int (snd t)]) (dn_tags n) ++ [0].

Definition dense_omitted (d : dense_d) : bool :=
  de_omit d && match de_nodes d with [] => true | _ => false end && negb (de_hasinfo d) && negb (de_haskv d).

Definition enc_dense (d : dense_d) : msg :=
  let ns := de_nodes d in
  let inf := map dn_info ns in
  let fl := de_cols d in
  opt (negb (dense_omitted d)) (1, WPacked (deltas64 0 (map dn_id ns))) ++
  opt (de_hasinfo d) (5, WMsg (
    opt (fl_version fl) (1, WPacked (map (fun i => enc_int (id_version i)) inf)) ++
    opt (fl_ts fl) (2, WPacked (deltas64 0 (map id_ts inf))) ++
    opt (fl_cs fl) (3, WPacked (deltas64 0 (map id_cs inf))) ++
    opt (fl_uid fl) (4, WPacked (deltas32 0 (map id_uid inf))) ++
    opt (fl_usid fl) (5, WPacked (deltas32 0 (map id_usid inf))) ++
    opt (fl_visible fl) (6, WPacked (map (fun i => enc_bool (id_visible i)) inf)))) ++
  opt (negb (dense_omitted d)) (8, WPacked (deltas64 0 (map dn_lat ns))) ++
  opt (negb (dense_omitted d)) (9, WPacked (deltas64 0 (map dn_lon ns))) ++
  opt (de_haskv d) (10, WPacked (flat_map kv_of ns)).

Definition has_tags (ts : list (Z * Z)) (force : bool) : bool :=
  match ts with [] => force | _ => true end.

Definition enc_way (w : way_d) : msg :=
  [(1, WVar (enc_int (wd_id w)))] ++
  (if has_tags (wd_tags w) (wd_forcetags w)
   then [(2, WPacked (map fst (wd_tags w))); (3, WPacked (map snd (wd_tags w)))] else []) ++
  opt (wd_hasinfo w) (4, WMsg (enc_info (wd_fields w) (wd_info w))) ++
  opt (match wd_refs w with [] => wd_forcerefs w | _ => true end) (8, WPacked (deltas64 0 (wd_refs w))) ++
  (if wd_haslocs w
   then [(9, WPacked (deltas64 0 (wd_lats w))); (10, WPacked (deltas64 0 (wd_lons w)))] else []).

Definition enc_rel (r : rel_d) : msg :=
  [(1, WVar (enc_int (rd_id r)))] ++
  (if has_tags (rd_tags r) (rd_forcetags r)
   then [(2, WPacked (map fst (rd_tags r))); (3, WPacked (map snd (rd_tags r)))] else []) ++
  opt (rd_hasinfo r) (4, WMsg (enc_info (rd_fields r) (rd_info r))) ++
  (if match rd_members r with [] => rd_forcemembers r | _ => true end
   then [(8, WPacked (map (fun m => enc_int (md_role m)) (rd_members r)));
         (9, WPacked (deltas64 0 (map md_ref (rd_members r))));
         (10, WPacked (map (fun m => enc_int (md_type m)) (rd_members r)))] else []).

(* Node: required sint64 id = 1; packed uint32 keys = 2, vals = 3; Info info = 4;
   required sint64 lat = 8, lon = 9 *)
Definition enc_pnode (n : pnode_d) : msg :=
  [(1, WVar (zig64 (pn_id n)))] ++
  (match pn_tags n with [] => []
   | _ => [(2, WPacked (map fst (pn_tags n))); (3, WPacked (map snd (pn_tags n)))] end) ++
  opt (pn_hasinfo n) (4, WMsg (enc_info (pn_fields n) (pn_info n))) ++
  [(8, WVar (zig64 (pn_lat n))); (9, WVar (zig64 (pn_lon n)))].

Definition enc_item (it : item_d) : Z * wval :=
  match it with
  | INode n => (1, WMsg (enc_pnode n))
  | IDense d => (2, WMsg (enc_dense d))
  | IWay w => (3, WMsg (enc_way w))
  | IRel r => (4, WMsg (enc_rel r))
  | IChangeset id => (5, WMsg [(1, WVar (enc_int id))])
  end.

Definition enc_group (g : list item_d) : Z * wval := (2, WMsg (map enc_item g)).

Definition optv (n : Z) (o : option Z) : msg :=
  match o with Some x => [(n, WVar (enc_int x))] | None => [] end.

Definition encode_block (b : block_d) : msg :=
  opt (negb (b_omit_st b)) (1, WMsg (map (fun s => (1, WStr s)) (b_strings b))) ++
  map enc_group (b_groups b) ++
  optv 17 (b_gran b) ++ optv 18 (b_dgran b) ++ optv 19 (b_latoff b) ++ optv 20 (b_lonoff b).

(* ---------- validity ---------- *)
Definition in32 (z : Z) : bool := (- two31 <=? z) && (z <? two31).
Definition in64 (z : Z) : bool := in_int64b z.
Definition sid_ok (b : block_d) (i : Z) : bool := (0 <=? i) && (i <? Z.of_nat (length (b_strings b))) && (i <? two31).

Definition coord_ok (off g raw : Z) : bool := in64 raw && in64 (g * raw) && in64 (off + g * raw).

Definition info_ok (b : block_d) (present : bool) (fl : flags) (i : info_d) : bool :=
  negb present ||
  (in32 (id_version i) && in64 (id_ts i) && in64 (id_cs i) && in32 (id_uid i)
   && (negb (fl_usid fl) || sid_ok b (id_usid i))
   && (negb (fl_ts fl) || (in64 (id_ts i * bdgran b) && in64 (id_ts i * bdgran b * 1000000)))).

(* nonzero (dense keys_vals): a KEY index 0 is the end-of-node delimiter, so a dense tag's key index
   must not be 0; its VALUE index may be (the empty string) *)
Definition tags_ok (b : block_d) (nonzero : bool) (ts : list (Z * Z)) : bool :=
  forallb (fun t => sid_ok b (fst t) && sid_ok b (snd t)
                    && (negb nonzero || negb (fst t =? 0))) ts.

Definition dnode_ok (b : block_d) (d : dense_d) (n : dnode_d) : bool :=
  in64 (dn_id n) && coord_ok (blatoff b) (bgran b) (dn_lat n) && coord_ok (blonoff b) (bgran b) (dn_lon n)
  && info_ok b (de_hasinfo d) (de_cols d) (dn_info n)
  && tags_ok b true (dn_tags n)
  && (de_haskv d || match dn_tags n with [] => true | _ => false end).

Definition way_ok (b : block_d) (w : way_d) : bool :=
  in64 (wd_id w) && info_ok b (wd_hasinfo w) (wd_fields w) (wd_info w) && tags_ok b false (wd_tags w)
  && forallb in64 (wd_refs w)
  && (negb (wd_haslocs w) ||
      ((length (wd_lats w) =? length (wd_refs w))%nat && (length (wd_lons w) =? length (wd_refs w))%nat
       && forallb (coord_ok (blatoff b) (bgran b)) (wd_lats w)
       && forallb (coord_ok (blonoff b) (bgran b)) (wd_lons w))).

Definition member_ok (b : block_d) (m : member_d) : bool :=
  in32 (md_type m) && in64 (md_ref m) && sid_ok b (md_role m).

Definition rel_ok (b : block_d) (r : rel_d) : bool :=
  in64 (rd_id r) && info_ok b (rd_hasinfo r) (rd_fields r) (rd_info r) && tags_ok b false (rd_tags r)
  && forallb (member_ok b) (rd_members r).

Definition pnode_ok (b : block_d) (n : pnode_d) : bool :=
  in64 (pn_id n) && coord_ok (blatoff b) (bgran b) (pn_lat n) && coord_ok (blonoff b) (bgran b) (pn_lon n)
  && info_ok b (pn_hasinfo n) (pn_fields n) (pn_info n) && tags_ok b false (pn_tags n).

(* item_ok: the items the decoder under test supports (the domain of the faithfulness theorems);
   format_item_ok: the items the FORMAT allows — the same plus plain nodes. *)
Definition item_ok (b : block_d) (it : item_d) : bool :=
  match it with
  | INode _ => false
  | IDense d => forallb (dnode_ok b d) (de_nodes d)
  | IWay w => way_ok b w
  | IRel r => rel_ok b r
  | IChangeset id => in64 id
  end.

Definition optin (f : Z -> bool) (o : option Z) : bool := match o with Some x => f x | None => true end.

Definition params_ok (b : block_d) : bool :=
  (negb (b_omit_st b) || match b_strings b with [] => true | _ => false end)
  && optin in32 (b_gran b) && optin in32 (b_dgran b) && optin in64 (b_latoff b) && optin in64 (b_lonoff b).

Definition valid_block (b : block_d) : bool :=
  (negb (b_omit_st b) || match b_strings b with [] => true | _ => false end)
  && optin in32 (b_gran b) && optin in32 (b_dgran b) && optin in64 (b_latoff b) && optin in64 (b_lonoff b)
  && forallb (forallb (item_ok b)) (b_groups b).

(* validity with respect to the FORMAT alone: plain Node items allowed *)
Definition format_item_ok (b : block_d) (it : item_d) : bool :=
  match it with INode n => pnode_ok b n | _ => item_ok b it end.
Definition format_valid_block (b : block_d) : bool :=
  params_ok b && forallb (forallb (format_item_ok b)) (b_groups b).
Definition is_plain (it : item_d) : bool := match it with INode _ => true | _ => false end.
Definition no_plain_nodes (b : block_d) : bool := forallb (forallb (fun it => negb (is_plain it))) (b_groups b).
