(* Pbf/CheckLib.v — shared executable pieces of the PBF correspondence checks (C01, C08, ...):
   token readers for descriptions, message trees and observed objects; boolean equalities;
   canonical field order; the multi-worker scan of a file. *)
From Coq Require Import ZArith List Bool.
From Verif Require Import Base.Int64 Base.Wire Pbf.Tree Pbf.Model Pbf.Spec Pbf.Header.
Import ListNotations.
Open Scope Z_scope.
Open Scope wire_scope.

(* ---------- readers ---------- *)
Definition praw : P Z := x <- pint ;; ret (x mod two64).   (* raw varint sent as int64 *)

Fixpoint pmsg (fuel : nat) : P msg :=
  match fuel with
  | O => pfail
  | S k =>
      plist (n <- pint ;; kind <- pint ;;
             if kind =? 0 then (x <- praw ;; ret (n, WVar x))
             else if kind =? 1 then (l <- plist praw ;; ret (n, WPacked l))
             else if kind =? 2 then (s <- pbytes ;; ret (n, WStr s))
             else if kind =? 3 then (m <- pmsg k ;; ret (n, WMsg m))
             else if kind =? 4 then (x <- praw ;; ret (n, WFix64 x))
             else if kind =? 5 then (x <- praw ;; ret (n, WFix32 x))
             else pfail)
  end.
Definition ptree : P msg := pmsg 6.

Definition pflags : P flags :=
  a <- pbool ;; b <- pbool ;; c <- pbool ;; d <- pbool ;; e <- pbool ;; f <- pbool ;; ret (mkFl a b c d e f).
Definition pinfo_d : P info_d :=
  a <- pint ;; b <- pint ;; c <- pint ;; d <- pint ;; e <- pint ;; f <- pbool ;; ret (mkInfoD a b c d e f).
Definition ptags_d : P (list (Z * Z)) := plist (ppair pint pint).

Definition pitem : P item_d :=
  k <- pint ;;
  if k =? 0 then
    hi <- pbool ;; cols <- pflags ;; kv <- pbool ;; om <- pbool ;;
    ns <- plist (id <- pint ;; la <- pint ;; lo <- pint ;; i <- pinfo_d ;; t <- ptags_d ;; ret (mkDN id la lo i t)) ;;
    ret (IDense (mkDense ns hi cols kv om))
  else if k =? 1 then
    id <- pint ;; hi <- pbool ;; fl <- pflags ;; i <- pinfo_d ;; t <- ptags_d ;; ft <- pbool ;;
    refs <- plist pint ;; fr <- pbool ;; hl <- pbool ;; la <- plist pint ;; lo <- plist pint ;;
    ret (IWay (mkWayD id hi fl i t ft refs fr hl la lo))
  else if k =? 2 then
    id <- pint ;; hi <- pbool ;; fl <- pflags ;; i <- pinfo_d ;; t <- ptags_d ;; ft <- pbool ;;
    ms <- plist (ty <- pint ;; rf <- pint ;; ro <- pint ;; ret (mkMemD ty rf ro)) ;; fm <- pbool ;;
    ret (IRel (mkRelD id hi fl i t ft ms fm))
  else if k =? 3 then id <- pint ;; ret (IChangeset id)
  else if k =? 4 then
    id <- pint ;; la <- pint ;; lo <- pint ;; hi <- pbool ;; fl <- pflags ;; i <- pinfo_d ;; t <- ptags_d ;;
    ret (INode (mkPN id la lo hi fl i t))
  else pfail.

Definition pblock_d : P block_d :=
  st <- plist pbytes ;; om <- pbool ;;
  g <- popt pint ;; dg <- popt pint ;; la <- popt pint ;; lo <- popt pint ;;
  gs <- plist (plist pitem) ;;
  ret (mkBlockD st om g dg la lo gs).

(* observed objects: strings are indices into the case's string pool *)
Definition pstr (pool : list bytes) : P bytes :=
  i <- pnat ;; match nth_error pool i with Some s => ret s | None => pfail end.

Definition pinfo (pool : list bytes) : P info :=
  v <- pint ;; ts <- popt pint ;; cs <- pint ;; uid <- pint ;; u <- pstr pool ;; vis <- pbool ;;
  ret (mkInfo v ts cs uid u vis).
Definition ptags (pool : list bytes) : P (list tag) := plist (ppair (pstr pool) (pstr pool)).

(* an observed object and its "all coordinates within 1e-10 degrees" flag *)
Definition pobj (pool : list bytes) : P (obj * bool) :=
  k <- pint ;;
  if k =? 0 then
    id <- pint ;; la <- pint ;; lo <- pint ;; tol <- pbool ;; i <- pinfo pool ;; t <- ptags pool ;;
    ret (ONode (mkNode id la lo i t), tol)
  else if k =? 1 then
    id <- pint ;; tol <- pbool ;; i <- pinfo pool ;; t <- ptags pool ;;
    ns <- plist (a <- pint ;; b <- pint ;; c <- pint ;; ret (mkWN a b c)) ;;
    ret (OWay (mkWay id i t ns), tol)
  else if k =? 2 then
    id <- pint ;; i <- pinfo pool ;; t <- ptags pool ;;
    ms <- plist (a <- pint ;; b <- pint ;; c <- pstr pool ;; ret (mkMem a b c)) ;;
    ret (ORel (mkRel id i t ms), true)
  else pfail.

Definition pheader_d : P header_d :=
  bb <- popt (a <- pint ;; b <- pint ;; c <- pint ;; d <- pint ;; ret (a, b, c, d)) ;;
  rq <- plist pbytes ;; op <- plist pbytes ;;
  pr <- popt pbytes ;; so <- popt pbytes ;; ts <- popt pint ;; sq <- popt pint ;; url <- popt pbytes ;;
  ret (mkHeaderD bb rq op pr so ts sq url).

(* observed header: bounds as rounded integer nanodegrees + tolerance flag; seq as int64 bits *)
Definition pheader_obs : P (header * bool) :=
  bb <- popt (a <- pint ;; b <- pint ;; c <- pint ;; d <- pint ;; ret (a, b, c, d)) ;; tol <- pbool ;;
  rq <- plist pbytes ;; op <- plist pbytes ;; pr <- pbytes ;; so <- pbytes ;;
  ts <- popt pint ;; sq <- praw ;; url <- pbytes ;;
  ret (mkHeader bb rq op pr so ts sq url, tol).

(* ---------- equalities ---------- *)
Definition tag_eqb (a b : tag) : bool := bytes_eqb (fst a) (fst b) && bytes_eqb (snd a) (snd b).
Definition info_eqb (a b : info) : bool :=
  (i_version a =? i_version b) && opt_eqb Z.eqb (i_ts a) (i_ts b) && (i_cs a =? i_cs b)
  && (i_uid a =? i_uid b) && bytes_eqb (i_user a) (i_user b) && Bool.eqb (i_visible a) (i_visible b).
Definition wnode_eqb (a b : wnode) : bool :=
  (wn_id a =? wn_id b) && (wn_lat a =? wn_lat b) && (wn_lon a =? wn_lon b).
Definition member_eqb (a b : member) : bool :=
  (m_type a =? m_type b) && (m_ref a =? m_ref b) && bytes_eqb (m_role a) (m_role b).
Definition obj_eqb (a b : obj) : bool :=
  match a, b with
  | ONode x, ONode y =>
      (n_id x =? n_id y) && (n_lat x =? n_lat y) && (n_lon x =? n_lon y) && info_eqb (n_info x) (n_info y)
      && list_eqb tag_eqb (n_tags x) (n_tags y)
  | OWay x, OWay y =>
      (w_id x =? w_id y) && info_eqb (w_info x) (w_info y) && list_eqb tag_eqb (w_tags x) (w_tags y)
      && list_eqb wnode_eqb (w_nodes x) (w_nodes y)
  | ORel x, ORel y =>
      (r_id x =? r_id y) && info_eqb (r_info x) (r_info y) && list_eqb tag_eqb (r_tags x) (r_tags y)
      && list_eqb member_eqb (r_members x) (r_members y)
  | _, _ => false
  end.
Definition objs_eqb := list_eqb obj_eqb.

Fixpoint wval_eqb (fuel : nat) (a b : wval) : bool :=
  match fuel with
  | O => false
  | S k =>
      match a, b with
      | WVar x, WVar y => x =? y
      | WPacked x, WPacked y => list_eqb Z.eqb x y
      | WStr x, WStr y => bytes_eqb x y
      | WMsg x, WMsg y => list_eqb (fun f g => (fst f =? fst g) && wval_eqb k (snd f) (snd g)) x y
      | WFix64 x, WFix64 y => x =? y
      | WFix32 x, WFix32 y => x =? y
      | _, _ => false
      end
  end.
Definition msg_eqb (a b : msg) : bool :=
  list_eqb (fun f g => (fst f =? fst g) && wval_eqb 6 (snd f) (snd g)) a b.

Definition bounds_eqb (a b : Z * Z * Z * Z) : bool :=
  let '(a1, a2, a3, a4) := a in let '(b1, b2, b3, b4) := b in
  (a1 =? b1) && (a2 =? b2) && (a3 =? b3) && (a4 =? b4).
Definition header_eqb (a b : header) : bool :=
  opt_eqb bounds_eqb (h_bounds a) (h_bounds b)
  && list_eqb bytes_eqb (h_required a) (h_required b) && list_eqb bytes_eqb (h_optional a) (h_optional b)
  && bytes_eqb (h_program a) (h_program b) && bytes_eqb (h_source a) (h_source b)
  && opt_eqb Z.eqb (h_repl_ts a) (h_repl_ts b) && (h_repl_seq a =? h_repl_seq b)
  && bytes_eqb (h_repl_url a) (h_repl_url b).

(* ---------- canonical layout ---------- *)
(* field numbers defined by some OSM PBF message; everything else is an unknown field *)
Definition known_num (n : Z) : bool :=
  ((1 <=? n) && (n <=? 10)) || ((16 <=? n) && (n <=? 20)) || ((32 <=? n) && (n <=? 34)).
Definition drop_unknown (m : msg) : msg := filter (fun f => known_num (fst f)) m.

Fixpoint insert_field (f : Z * wval) (l : msg) : msg :=
  match l with
  | [] => [f]
  | g :: r => if fst g <? fst f then g :: insert_field f r else f :: l
  end.
(* stable sort by field number *)
Definition sort_fields (m : msg) : msg := fold_right insert_field [] m.

Definition on_msg (f : msg -> msg) (x : Z * wval) : Z * wval :=
  match snd x with WMsg m => (fst x, WMsg (f m)) | _ => x end.

Definition canon_leaf (m : msg) : msg := sort_fields (drop_unknown m).
(* dense / way / relation / bbox: own fields sorted, nested Info / DenseInfo sorted *)
Definition canon_item (m : msg) : msg := sort_fields (map (on_msg canon_leaf) (drop_unknown m)).
(* a primitive group keeps the order of its items *)
Definition canon_group (m : msg) : msg := map (on_msg canon_item) (drop_unknown m).
Definition canon_block (m : msg) : msg :=
  sort_fields (map (fun x => if fst x =? 2 then on_msg canon_group x else x) (drop_unknown m)).
Definition canon_header (m : msg) : msg := sort_fields (map (on_msg canon_leaf) (drop_unknown m)).

(* ---------- packed columns split into several chunks ---------- *)
(* protobuf: "a packed repeated field may occur more than once in a message; the payloads are
   concatenated".  After the stable sort the chunks of one column are adjacent and in wire order:
   merge them.  mcanon_* = canon_* followed by this merge at every level: the canonical form of a
   tree with respect to the FORMAT's notion of equality.  On trees without split columns (every
   reference encoding) mcanon_* and canon_* agree.  The decoder under test keeps only the LAST chunk
   of a split column (known finding "packed-column-split", split_packed_refuted in ProofsLayout.v). *)
Fixpoint merge_adj (m : msg) : msg :=
  match m with
  | [] => []
  | (n, WPacked a) :: r =>
      match merge_adj r with
      | (k, WPacked b) :: r' => if n =? k then (n, WPacked (a ++ b)) :: r' else (n, WPacked a) :: (k, WPacked b) :: r'
      | r' => (n, WPacked a) :: r'
      end
  | f :: r => f :: merge_adj r
  end.
Definition mcanon_leaf (m : msg) : msg := merge_adj (canon_leaf m).
Definition mcanon_item (m : msg) : msg := merge_adj (sort_fields (map (on_msg mcanon_leaf) (drop_unknown m))).
Definition mcanon_group (m : msg) : msg := map (on_msg mcanon_item) (drop_unknown m).
Definition mcanon_block (m : msg) : msg :=
  sort_fields (map (fun x => if fst x =? 2 then on_msg mcanon_group x else x) (drop_unknown m)).

(* ---------- a file scanned by n workers ---------- *)
(* block k goes to worker k mod n; each worker threads its own decoder state; the serializer
   restores file order (C02), so the result is the concatenation in block order up to the
   first failing block *)
Fixpoint set_state (l : list dstate) (i : nat) (s : dstate) : list dstate :=
  match l, i with
  | [], _ => []
  | _ :: r, O => s :: r
  | a :: r, S k => a :: set_state r k s
  end.

Fixpoint scan_file_from (c : cfg) (n : nat) (states : list dstate) (k : nat) (ms : list msg)
  : result (list obj) :=
  match ms with
  | [] => Ok []
  | m :: r =>
      let w := Nat.modulo k n in
      match scan_block c (nth w states dstate0) m with
      | Ok (st', q) =>
          match scan_file_from c n (set_state states w st') (S k) r with
          | Ok q' => Ok (q ++ q')
          | Err e => Err e
          | Panic => Panic
          end
      | Err e => Err e
      | Panic => Panic
      end
  end.
Definition scan_file (c : cfg) (n : nat) (ms : list msg) : result (list obj) :=
  scan_file_from c n (repeat dstate0 n) 0 ms.

(* ---------- filter predicate language (interpreted identically by the Go harness) ---------- *)
(* code 0: accept all; 1: reject all; 2 k r: id mod k = r (Go's %: sign of the dividend);
   3: has at least one tag; 4: version is even; 5 k: (id*31+7) mod 11 < k (Euclidean);
   6 a b: id outside [a, b]; 7 a b: id inside [a, b] *)
Record pred := mkPred { pr_code : Z; pr_a : Z; pr_b : Z }.
Definition ppred : P pred := a <- pint ;; b <- pint ;; c <- pint ;; ret (mkPred a b c).

Definition eval_pred (p : pred) (id : Z) (version : Z) (ntags : nat) : bool :=
  let c := pr_code p in
  if c =? 0 then true
  else if c =? 1 then false
  else if c =? 2 then Z.rem id (pr_a p) =? pr_b p
  else if c =? 3 then negb (Nat.eqb ntags 0)
  else if c =? 4 then Z.even version
  else if c =? 5 then (wrap64 (wrap64 (id * 31) + 7)) mod 11 <? pr_a p
  else if c =? 6 then negb ((pr_a p <=? id) && (id <=? pr_b p))   (* everything outside an id range *)
  else if c =? 7 then (pr_a p <=? id) && (id <=? pr_b p)          (* an id range (bounding-range filter) *)
  else true.

(* predicates that read EVERY field of the element (wave 8): refs = way node ids / member refs,
   coords = (lat, lon) in nanodegrees of the node / of the way nodes.
   8 a: at least a refs; 9: closed (>= 2 refs, first = last); 10 a: some ref = a; 11: visible;
   12: has a timestamp; 13: changeset even; 14: uid even; 15: user name not empty;
   16: node: lat + lon even; way / relation: some coordinate pair is not (0, 0);
   17: some tag has an empty key or an empty value *)
Definition is_nilb {A} (l : list A) : bool := match l with [] => true | _ => false end.
Definition eval_full (p : pred) (isnode : bool) (id : Z) (i : info) (tags : list tag) (refs : list Z)
  (coords : list (Z * Z)) : bool :=
  let c := pr_code p in
  if c <? 8 then eval_pred p id (i_version i) (length tags)
  else if c =? 8 then pr_a p <=? Z.of_nat (length refs)
  else if c =? 9 then match refs with a :: _ :: _ => a =? last refs a | _ => false end
  else if c =? 10 then existsb (Z.eqb (pr_a p)) refs
  else if c =? 11 then i_visible i
  else if c =? 12 then match i_ts i with Some _ => true | None => false end
  else if c =? 13 then Z.even (i_cs i)
  else if c =? 14 then Z.even (i_uid i)
  else if c =? 15 then negb (is_nilb (i_user i))
  else if c =? 16 then
    if isnode then match coords with (la, lo) :: _ => Z.even (la + lo) | [] => true end
    else existsb (fun x => negb ((fst x =? 0) && (snd x =? 0))) coords
  else if c =? 17 then existsb (fun t => is_nilb (fst t) || is_nilb (snd t)) tags
  else true.

Definition cfg_of (sn sw sr : bool) (pn pw pr : pred) : cfg :=
  mkCfg sn sw sr
        (fun n => eval_full pn true (n_id n) (n_info n) (n_tags n) [] [(n_lat n, n_lon n)])
        (fun w => eval_full pw false (w_id w) (w_info w) (w_tags w) (map wn_id (w_nodes w))
                            (map (fun x => (wn_lat x, wn_lon x)) (w_nodes w)))
        (fun r => eval_full pr false (r_id r) (r_info r) (r_tags r) (map m_ref (r_members r)) []).
