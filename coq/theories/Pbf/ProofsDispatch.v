(* Pbf/ProofsDispatch.v — the table-driven field loops of Pbf/Dispatch.v ARE the model's loops. *)
From Coq Require Import ZArith List Bool String.
From Verif Require Import Base.Int64 Pbf.Tree Pbf.Model Pbf.ProtoTypes Pbf.Dispatch.
Import ListNotations.
Open Scope Z_scope.
Open Scope res_scope.

Ltac by_cases n :=
  repeat match goal with
         | |- context [n =? ?k] => destruct (n =? k); [reflexivity|]
         end; try reflexivity.

Lemma pass1_step_table p f : pass1_step p f = pass1_step_t p f.
Proof. unfold pass1_step, pass1_step_t, pass1_table, find_row. cbn [r_num r_slot r_msg]. by_cases (fst f). Qed.

Lemma info_step_table p i f : info_step p i f = info_step_t p i f.
Proof. unfold info_step, info_step_t, info_table, find_row. cbn [r_num r_slot r_msg]. by_cases (fst f). Qed.

Lemma dinfo_step_table s f : dinfo_step s f = dinfo_step_t s f.
Proof. unfold dinfo_step, dinfo_step_t, dinfo_table, find_row. cbn [r_num r_slot r_msg]. by_cases (fst f). Qed.

Lemma dense_step_table s f : dense_step s f = dense_step_t s f.
Proof. unfold dense_step, dense_step_t, dense_table, find_row. cbn [r_num r_slot r_msg]. by_cases (fst f). Qed.

Lemma fill_table f : forall l prev index nodes, fill f l prev index nodes = fill_t ASint64 Delta64 f l prev index nodes.
Proof.
  induction l as [|v r IH]; intros prev index nodes; simpl; [reflexivity|].
  destruct (upd nodes index (f (wrap64 (sint64 v + prev)))); simpl; auto.
Qed.

Lemma way_step_table p s f : way_step p s f = way_step_t p s f.
Proof.
  unfold way_step, way_step_t, way_table, find_row. cbn [r_num r_slot r_msg r_elem hd].
  destruct (fst f =? 1); [reflexivity|]. destruct (fst f =? 2); [reflexivity|].
  destruct (fst f =? 3); [reflexivity|]. destruct (fst f =? 4); [reflexivity|].
  destruct (fst f =? 8); [simpl; destruct (as_packed (snd f)); simpl; try reflexivity; rewrite <- fill_table; reflexivity|].
  destruct (fst f =? 9); [simpl; destruct (as_packed (snd f)); simpl; try reflexivity; rewrite <- fill_table; reflexivity|].
  destruct (fst f =? 10); [simpl; destruct (as_packed (snd f)); simpl; try reflexivity; rewrite <- fill_table; reflexivity|].
  reflexivity.
Qed.

Lemma rel_step_table p s f : rel_step p s f = rel_step_t p s f.
Proof. unfold rel_step, rel_step_t, rel_table, find_row. cbn [r_num r_slot r_msg]. by_cases (fst f). Qed.

Lemma scan_tags_table st : forall keys vals,
  scan_tags st keys vals = scan_tags_t (elem1 2 way_table) (elem1 3 way_table) st keys vals.
Proof.
  change (elem1 2 way_table) with AUint32. change (elem1 3 way_table) with AUint32.
  induction keys as [|k kr IH]; intros vals; simpl; [reflexivity|].
  destruct (uint32 k); simpl; auto. destruct vals as [|v vr]; [reflexivity|].
  destruct (uint32 v); simpl; auto. destruct (idx st a); simpl; auto. destruct (idx st a0); simpl; auto.
  rewrite IH. reflexivity.
Qed.

Lemma scan_tags_table_rel : elem1 2 rel_table = elem1 2 way_table /\ elem1 3 rel_table = elem1 3 way_table.
Proof. split; reflexivity. Qed.

Lemma members_loop_table st : forall roles memids types memid index ms,
  members_loop st roles memids types memid index ms
  = members_loop_t (elem1 8 rel_table) (elem1 9 rel_table) (elem1 10 rel_table) st roles memids types memid index ms.
Proof.
  change (elem1 8 rel_table) with AInt32. change (elem1 9 rel_table) with ASint64. change (elem1 10 rel_table) with AInt32.
  induction roles as [|r rr IH]; intros memids types memid index ms; simpl; [reflexivity|].
  destruct (upd ms index (fun m => m)); simpl; auto.
  destruct (idx st (int32 r)); simpl; auto.
  destruct (upd ms index (set_role a0)); simpl; auto.
  destruct memids as [|mi mr]; [reflexivity|]. destruct types as [|t tr]; [reflexivity|].
  destruct (upd a1 index (set_ref_type (wrap64 (memid + sint64 mi)) (int32 t))); simpl; auto.
Qed.

Lemma kv_loop_table st : forall n kv tags, (List.length kv <= n)%nat -> kv_loop st kv tags = kv_loop_t st kv tags.
Proof. intros n kv tags _. reflexivity. Qed.

Lemma extract_pre_table p v x : extract_pre p v x = extract_pre_t p v x.
Proof. reflexivity. Qed.

Lemma group_step_table c s f : group_step c s f = group_step_t c s f.
Proof.
  destruct f as [n v].
  unfold group_step, group_step_t, group_table, find_row, guard_on. cbn [r_num r_slot r_msg r_guard fst snd].
  destruct (Z.eqb_spec n 1) as [E|_]; [reflexivity|].
  destruct (Z.eqb_spec n 2) as [E|_]; [subst; simpl; destruct (skip_nodes c); reflexivity|].
  destruct (Z.eqb_spec n 3) as [E|_]; [subst; simpl; destruct (skip_ways c); reflexivity|].
  destruct (Z.eqb_spec n 4) as [E|_]; [subst; simpl; destruct (skip_rels c); reflexivity|].
  reflexivity.
Qed.

(* ---------- found-flag rules ---------- *)
Lemma nil_info_table fi ic : nil_info fi ic = nil_info_t fi ic.
Proof. destruct fi as [f1 f2 f3 f4 f5 f6]. destruct f1, f2, f3, f4, f5, f6; reflexivity. Qed.

Lemma dense_fixup_table s : dense_fixup s = dense_fixup_t s.
Proof.
  destruct s as [[c1 [i1 i2 i3 i4 i5 i6] c3 c4 c5] [f1 f2 f3 f4 f5]].
  destruct f1, f2, f3, f4, f5; reflexivity.
Qed.

Lemma dense_empty_table fd : dense_empty fd = dense_empty_t fd.
Proof. destruct fd as [f1 f2 f3 f4 f5]. destruct f1, f2, f3, f4, f5; reflexivity. Qed.

Lemma tags_if_found_table_way st fk fv wc old :
  tags_if_found st fk fv wc old
  = if forallb (wflag fk fv) (use_flags way_rules "set:Way.Tags")
    then match c_keys wc, c_vals wc with Some ks, Some vs => scan_tags st ks vs | _, _ => Panic end
    else Ok old.
Proof. destruct fk, fv; reflexivity. Qed.

Lemma tags_if_found_table_rel st fk fv fr fm ft wc old :
  tags_if_found st fk fv wc old
  = if forallb (rflag fk fv fr fm ft) (use_flags rel_rules "set:Relation.Tags")
    then match c_keys wc, c_vals wc with Some ks, Some vs => scan_tags st ks vs | _, _ => Panic end
    else Ok old.
Proof. destruct fk, fv; reflexivity. Qed.

Lemma members_if_found_table st fk fv fr fm ft wc old :
  members_if_found st fr fm ft wc old
  = if forallb (rflag fk fv fr fm ft) (use_flags rel_rules "set:Relation.Members")
    then match c_roles wc, c_memids wc, c_types wc with
         | Some a, Some b, Some c => extract_members st a b c | _, _, _ => Panic end
    else Ok old.
Proof. destruct fr, fm, ft; reflexivity. Qed.
