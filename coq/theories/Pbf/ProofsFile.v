(* Pbf/ProofsFile.v — from blocks to files.

   encode_file / elements_file are the block-wise liftings of encode_block / elements.
   1. one decoder reused for all blocks (procs = 1, or any single worker): scan_blocks;
   2. n workers with round-robin dispatch and file-order concatenation (CheckLib.scan_file),
      for every n;
   3. the form that composes with C02's order theorem: whatever worker state each block meets
      (any assignment, any history), block k contributes exactly keeps-filtered elements of
      block k — so "delivered = concatenation in file order of the per-block results" (C02,
      coq/theories/Pipeline: delivered_is_prefix / completes over the LTS, where a block is an
      [IBlock os] with os independent of the worker — justified by scan_result_state_independent)
      gives scan (encode_file f) = elements_file f. *)
From Coq Require Import ZArith List Bool Lia.
From Verif Require Import Base.Int64 Pbf.Tree Pbf.Model Pbf.Spec Pbf.Header Pbf.CheckLib
     Pbf.ProofsIndep Pbf.ProofsFilter Pbf.ProofsDecode Pbf.ProofsDense Pbf.ProofsAll.
Import ListNotations.
Open Scope Z_scope.
Open Scope res_scope.

Definition file_d := list block_d.
Definition encode_file (f : file_d) : list msg := map encode_block f.
Definition elements_file (f : file_d) : list obj := flat_map elements f.
Definition valid_file (f : file_d) : bool := forallb valid_block f.

Lemma scan_result_block c st m q : scan_result c st m = Ok q -> exists st', scan_block c st m = Ok (st', q).
Proof.
  unfold scan_result. destruct (scan_block c st m) as [[st' q']| |]; intros H; try discriminate.
  injection H as H. subst. eauto.
Qed.

(* 1. a single decoder, block after block *)
Theorem scan_blocks_encode : forall f, valid_file f = true -> forall c st,
  scan_blocks c st (encode_file f) = Ok (map (fun b => filter (keeps c) (elements b)) f).
Proof.
  unfold valid_file, encode_file. induction f as [|b f IH]; intros H c st; simpl; [reflexivity|].
  simpl in H. apply andb_prop in H. destruct H as [Hb Hf].
  destruct (scan_result_block c st _ _ (decode_encode_filtered b Hb c st)) as (st' & E).
  rewrite E. simpl. rewrite (IH Hf c st'). reflexivity.
Qed.

(* 2. n workers, block k on worker k mod n, results concatenated in file order *)
Lemma scan_file_from_encode c n : forall f, valid_file f = true -> forall states k,
  scan_file_from c n states k (encode_file f) = Ok (filter (keeps c) (elements_file f)).
Proof.
  unfold valid_file, encode_file, elements_file. induction f as [|b f IH]; intros H states k; simpl; [reflexivity|].
  simpl in H. apply andb_prop in H. destruct H as [Hb Hf].
  destruct (scan_result_block c (nth (Nat.modulo k n) states dstate0) _ _
              (decode_encode_filtered b Hb c _)) as (st' & E).
  rewrite E. rewrite (IH Hf). rewrite filter_app. reflexivity.
Qed.

Theorem scan_file_encode : forall f, valid_file f = true -> forall c n,
  scan_file c n (encode_file f) = Ok (filter (keeps c) (elements_file f)).
Proof. intros f H c n. apply scan_file_from_encode. exact H. Qed.

(* 3. any assignment of decoder states to blocks (any worker, any history, any schedule) *)
Theorem blocks_any_states : forall f, valid_file f = true -> forall c (sts : nat -> dstate),
  concat (map (fun kb => match scan_result c (sts (fst kb)) (encode_block (snd kb)) with Ok q => q | _ => [] end)
              (combine (seq 0 (length f)) f))
  = filter (keeps c) (elements_file f)
  /\ Forall (fun kb => exists q, scan_result c (sts (fst kb)) (encode_block (snd kb)) = Ok q)
            (combine (seq 0 (length f)) f).
Proof.
  unfold valid_file, elements_file. intros f H c sts. generalize 0%nat as k0.
  induction f as [|b f IH]; intros k0; simpl; [split; [reflexivity|constructor]|].
  simpl in H. apply andb_prop in H. destruct H as [Hb Hf].
  rewrite (decode_encode_filtered b Hb c (sts k0)). destruct (IH Hf (S k0)) as [E1 E2].
  split.
  - rewrite E1, filter_app. reflexivity.
  - constructor; [simpl; rewrite (decode_encode_filtered b Hb c (sts k0)); eauto|exact E2].
Qed.

(* ---------- C08 at file level, for ARBITRARY message trees ---------- *)
(* if the unfiltered scan of a file (any trees, n workers, any worker states) succeeds with q, the
   configured scan succeeds with exactly the kept subsequence (whatever states its workers are in).
   Nothing is claimed when the unfiltered scan fails: a skip flag can hide an error. *)
Lemma scan_file_from_filter c n : forall ms states1 states2 k q,
  scan_file_from cfg_all n states1 k ms = Ok q ->
  scan_file_from c n states2 k ms = Ok (filter (keeps c) q).
Proof.
  induction ms as [|m r IH]; intros states1 states2 k q H; simpl in *.
  - injection H as <-. reflexivity.
  - destruct (scan_block cfg_all (nth (Nat.modulo k n) states1 dstate0) m) as [[st1 q1]| |] eqn:E1; try discriminate.
    destruct (scan_file_from cfg_all n (set_state states1 (Nat.modulo k n) st1) (S k) r) as [q'| |] eqn:E2;
      try discriminate.
    injection H as <-.
    assert (Hr : scan_result cfg_all (nth (Nat.modulo k n) states1 dstate0) m = Ok q1)
      by (unfold scan_result; rewrite E1; reflexivity).
    pose proof (filter_is_subsequence c _ m q1 Hr) as Hf.
    rewrite (scan_result_state_independent c _ (nth (Nat.modulo k n) states2 dstate0)) in Hf.
    destruct (scan_result_block c _ m _ Hf) as (st2 & E3). rewrite E3.
    rewrite (IH _ (set_state states2 (Nat.modulo k n) st2) (S k) q' E2).
    rewrite filter_app. reflexivity.
Qed.

Theorem scan_file_filter c n ms q :
  scan_file cfg_all n ms = Ok q -> scan_file c n ms = Ok (filter (keeps c) q).
Proof. unfold scan_file. apply scan_file_from_filter. Qed.
