(* Pbf/Dispatch.v — the field dispatch of the block decoder as explicit TABLES (executable only).

   Every field loop of Pbf/Model.v is an inline chain `if n =? 1 then ... else if n =? 17 ...`.
   Here the same loops are written through tables: field number -> (slot, accessor on the message,
   accessors on the elements of the iterator it fills).  Pbf/ProofsDispatch.v proves the table-driven
   functions equal to the model's; Pbf/GenOk.v proves the tables equal to the dispatch that
   translator/cmd/pbfcode re-reads from /repo/osmpbf/decode_data.go on every run, and consistent with
   the .proto files (translator/cmd/pbfproto). *)
From Coq Require Import ZArith List Bool String.
From Verif Require Import Base.Int64 Pbf.Tree Pbf.Model Pbf.ProtoTypes.
Import ListNotations.
Open Scope string_scope.
Open Scope list_scope.
Open Scope Z_scope.
Open Scope res_scope.

(* protoscan accessors *)
Inductive acc := AInt32 | AInt64 | ASint32 | ASint64 | AUint32 | ABool.
(* what is called on the message for a field: a scalar accessor, Iterator, or MessageData *)
Inductive macc := MVal (a : acc) | MIter | MData.

Definition acc_name (a : acc) : string :=
  match a with AInt32 => "Int32" | AInt64 => "Int64" | ASint32 => "Sint32" | ASint64 => "Sint64"
             | AUint32 => "Uint32" | ABool => "Bool" end.
Definition macc_name (m : macc) : string :=
  match m with MVal a => acc_name a | MIter => "Iterator" | MData => "MessageData" end.

(* value of a raw varint under an accessor (integer accessors) *)
Definition ev_z (a : acc) (x : Z) : Z :=
  match a with AInt32 => int32 x | AInt64 => int64 x | ASint32 => sint32 x | ASint64 => sint64 x
             | AUint32 => x mod two32 | ABool => if vbool x then 1 else 0 end.
Definition ev_r (a : acc) (x : Z) : result Z :=
  match a with AUint32 => uint32 x | _ => Ok (ev_z a x) end.
Definition ev_b (a : acc) (x : Z) : bool := match a with ABool => vbool x | _ => negb (ev_z a x =? 0) end.

Record row (S : Type) := mkRow { r_num : Z; r_slot : S; r_guard : string; r_msg : macc; r_elem : list acc }.
Arguments mkRow {S}. Arguments r_num {S}. Arguments r_slot {S}. Arguments r_guard {S}. Arguments r_msg {S}. Arguments r_elem {S}.

Fixpoint find_row {S} (n : Z) (t : list (row S)) : option (row S) :=
  match t with [] => None | r :: t' => if n =? r_num r then Some r else find_row n t' end.

Definition the_acc (m : macc) : acc := match m with MVal a => a | _ => AInt64 end.
Definition elem1 {S} (n : Z) (t : list (row S)) : acc :=
  match find_row n t with Some r => hd AInt64 (r_elem r) | None => AInt64 end.
Definition elem2 {S} (n : Z) (t : list (row S)) : acc :=
  match find_row n t with Some r => hd AInt64 (tl (r_elem r)) | None => AInt64 end.

(* ---------- PrimitiveBlock, pass 1 ---------- *)
Inductive p1slot := P1Strings | P1Gran | P1DGran | P1LatOff | P1LonOff.
Definition pass1_table : list (row p1slot) :=
  [ mkRow 1 P1Strings "" MData [];
    mkRow 17 P1Gran "" (MVal AInt32) [];
    mkRow 18 P1DGran "" (MVal AInt32) [];
    mkRow 19 P1LatOff "" (MVal AInt64) [];
    mkRow 20 P1LonOff "" (MVal AInt64) [] ].

Definition pass1_step_t (p : bparams) (f : Z * wval) : result bparams :=
  match find_row (fst f) pass1_table with
  | None => Ok p
  | Some r =>
      let v := snd f in let a := the_acc (r_msg r) in
      match r_slot r with
      | P1Strings => d <- as_msg v ;;; Ok (mkP (strings_of d) (p_gran p) (p_dgran p) (p_latoff p) (p_lonoff p))
      | P1Gran => x <- as_var v ;;; Ok (mkP (p_st p) (Some (ev_z a x)) (p_dgran p) (p_latoff p) (p_lonoff p))
      | P1DGran => x <- as_var v ;;; Ok (mkP (p_st p) (p_gran p) (Some (ev_z a x)) (p_latoff p) (p_lonoff p))
      | P1LatOff => x <- as_var v ;;; Ok (mkP (p_st p) (p_gran p) (p_dgran p) (Some (ev_z a x)) (p_lonoff p))
      | P1LonOff => x <- as_var v ;;; Ok (mkP (p_st p) (p_gran p) (p_dgran p) (p_latoff p) (Some (ev_z a x)))
      end
  end.

(* pass 2: only field 2 *)
Inductive p2slot := P2Group.
Definition pass2_table : list (row p2slot) := [ mkRow 2 P2Group "" MData [] ].

(* ---------- PrimitiveGroup ---------- *)
Inductive gslot := GPlain | GDense | GWay | GRel.
Definition group_table : list (row gslot) :=
  [ mkRow 1 GPlain "" MData [];          (* rejected: no accessor is called *)
    mkRow 2 GDense "SkipNodes" MData [];
    mkRow 3 GWay "SkipWays" MData [];
    mkRow 4 GRel "SkipRelations" MData [] ].

Definition guard_on (c : cfg) (g : string) : bool :=
  if String.eqb g "SkipNodes" then skip_nodes c
  else if String.eqb g "SkipWays" then skip_ways c
  else if String.eqb g "SkipRelations" then skip_rels c
  else false.

Definition group_step_t (c : cfg) (s : gst) (f : Z * wval) : result gst :=
  let v := snd f in let d := g_d s in
  match find_row (fst f) group_table with
  | None => Ok s
  | Some r =>
      if guard_on c (r_guard r) then Ok s else
      match r_slot r with
      | GPlain => plain_nodes
      | GDense =>
          m <- as_msg v ;;;
          ' (dc', q') <- scan_dense c (d_p d) (d_dc d) m (g_q s) ;;;
          Ok (mkG (mkD (d_p d) dc' (d_wc d)) (g_way s) (g_rel s) q')
      | GWay =>
          m <- as_msg v ;;;
          ' (w, wc') <- scan_way (d_p d) (d_wc d) m (g_way s) ;;;
          let d' := mkD (d_p d) (d_dc d) wc' in
          if f_way c w then Ok (mkG d' way0 (g_rel s) (g_q s ++ [OWay w]))
          else Ok (mkG d' (reset_way w) (g_rel s) (g_q s))
      | GRel =>
          m <- as_msg v ;;;
          ' (r', wc') <- scan_relation (d_p d) (d_wc d) m (g_rel s) ;;;
          let d' := mkD (d_p d) (d_dc d) wc' in
          if f_rel c r' then Ok (mkG d' (g_way s) rel0 (g_q s ++ [ORel r']))
          else Ok (mkG d' (g_way s) (reset_rel r') (g_q s))
      end
  end.

(* ---------- Info (ways and relations share the shape; the source has two copies) ---------- *)
Inductive islot := IVersion | ITimestamp | IChangeset | IUid | IUser | IVisible.
Definition info_table : list (row islot) :=
  [ mkRow 1 IVersion "" (MVal AInt32) [];
    mkRow 2 ITimestamp "" (MVal AInt64) [];
    mkRow 3 IChangeset "" (MVal AInt64) [];
    mkRow 4 IUid "" (MVal AInt32) [];
    mkRow 5 IUser "" (MVal AUint32) [];
    mkRow 6 IVisible "" (MVal ABool) [] ].

Definition info_step_t (p : bparams) (i : info) (f : Z * wval) : result info :=
  match find_row (fst f) info_table with
  | None => Ok i
  | Some r =>
      let v := snd f in let a := the_acc (r_msg r) in
      match r_slot r with
      | IVersion => x <- as_var v ;;; Ok (mkInfo (ev_z a x) (i_ts i) (i_cs i) (i_uid i) (i_user i) (i_visible i))
      | ITimestamp => x <- as_var v ;;;
          Ok (mkInfo (i_version i) (Some (ts_ns (ev_z a x) (dgran p))) (i_cs i) (i_uid i) (i_user i) (i_visible i))
      | IChangeset => x <- as_var v ;;; Ok (mkInfo (i_version i) (i_ts i) (ev_z a x) (i_uid i) (i_user i) (i_visible i))
      | IUid => x <- as_var v ;;; Ok (mkInfo (i_version i) (i_ts i) (i_cs i) (ev_z a x) (i_user i) (i_visible i))
      | IUser => x <- as_var v ;;; u <- ev_r a x ;;; s <- idx (p_st p) u ;;;
          Ok (mkInfo (i_version i) (i_ts i) (i_cs i) (i_uid i) s (i_visible i))
      | IVisible => x <- as_var v ;;; Ok (mkInfo (i_version i) (i_ts i) (i_cs i) (i_uid i) (i_user i) (ev_b a x))
      end
  end.

(* ---------- DenseInfo and DenseNodes ---------- *)
Definition dinfo_table : list (row islot) :=
  [ mkRow 1 IVersion "" MIter [AInt32];
    mkRow 2 ITimestamp "" MIter [ASint64];
    mkRow 3 IChangeset "" MIter [ASint64];
    mkRow 4 IUid "" MIter [ASint32];
    mkRow 5 IUser "" MIter [ASint32];
    mkRow 6 IVisible "" MIter [ABool] ].

Definition dinfo_step_t (s : icols * ifound) (f : Z * wval) : result (icols * ifound) :=
  let ic := fst s in let fi := snd s in
  match find_row (fst f) dinfo_table with
  | None => Ok s
  | Some r =>
      l <- as_packed (snd f) ;;;
      match r_slot r with
      | IVersion => Ok (mkIC (Some l) (c_timestamps ic) (c_changesets ic) (c_uids ic) (c_usids ic) (c_visibles ic),
                        mkIF true (fi_ts fi) (fi_cs fi) (fi_uid fi) (fi_usid fi) (fi_vis fi))
      | ITimestamp => Ok (mkIC (c_versions ic) (Some l) (c_changesets ic) (c_uids ic) (c_usids ic) (c_visibles ic),
                          mkIF (fi_ver fi) true (fi_cs fi) (fi_uid fi) (fi_usid fi) (fi_vis fi))
      | IChangeset => Ok (mkIC (c_versions ic) (c_timestamps ic) (Some l) (c_uids ic) (c_usids ic) (c_visibles ic),
                          mkIF (fi_ver fi) (fi_ts fi) true (fi_uid fi) (fi_usid fi) (fi_vis fi))
      | IUid => Ok (mkIC (c_versions ic) (c_timestamps ic) (c_changesets ic) (Some l) (c_usids ic) (c_visibles ic),
                    mkIF (fi_ver fi) (fi_ts fi) (fi_cs fi) true (fi_usid fi) (fi_vis fi))
      | IUser => Ok (mkIC (c_versions ic) (c_timestamps ic) (c_changesets ic) (c_uids ic) (Some l) (c_visibles ic),
                     mkIF (fi_ver fi) (fi_ts fi) (fi_cs fi) (fi_uid fi) true (fi_vis fi))
      | IVisible => Ok (mkIC (c_versions ic) (c_timestamps ic) (c_changesets ic) (c_uids ic) (c_usids ic) (Some l),
                        mkIF (fi_ver fi) (fi_ts fi) (fi_cs fi) (fi_uid fi) (fi_usid fi) true)
      end
  end.

Inductive dslot := DIds | DInfo | DLats | DLons | DKeyVals.
Definition dense_table : list (row dslot) :=
  [ mkRow 1 DIds "" MIter [ASint64];
    mkRow 5 DInfo "" MData [];
    mkRow 8 DLats "" MIter [ASint64];
    mkRow 9 DLons "" MIter [ASint64];
    mkRow 10 DKeyVals "" MIter [AInt32; AInt32] ].

Definition dense_step_t (s : dcols * dfound) (f : Z * wval) : result (dcols * dfound) :=
  let dc := fst s in let fd := snd s in let v := snd f in
  match find_row (fst f) dense_table with
  | None => Ok s
  | Some r =>
      match r_slot r with
      | DIds => l <- as_packed v ;;;
          Ok (mkDC (Some l) (c_info dc) (c_lats dc) (c_lons dc) (c_keyvals dc),
              mkDF true (fd_info fd) (fd_lats fd) (fd_lons fd) (fd_kv fd))
      | DInfo => d <- as_msg v ;;; s' <- dinfo_loop d (c_info dc, if0) ;;;
          Ok (mkDC (c_ids dc) (nil_info (snd s') (fst s')) (c_lats dc) (c_lons dc) (c_keyvals dc),
              mkDF (fd_ids fd) true (fd_lats fd) (fd_lons fd) (fd_kv fd))
      | DLats => l <- as_packed v ;;;
          Ok (mkDC (c_ids dc) (c_info dc) (Some l) (c_lons dc) (c_keyvals dc),
              mkDF (fd_ids fd) (fd_info fd) true (fd_lons fd) (fd_kv fd))
      | DLons => l <- as_packed v ;;;
          Ok (mkDC (c_ids dc) (c_info dc) (c_lats dc) (Some l) (c_keyvals dc),
              mkDF (fd_ids fd) (fd_info fd) (fd_lats fd) true (fd_kv fd))
      | DKeyVals => l <- as_packed v ;;;
          Ok (mkDC (c_ids dc) (c_info dc) (c_lats dc) (c_lons dc) (Some l),
              mkDF (fd_ids fd) (fd_info fd) (fd_lats fd) (fd_lons fd) true)
      end
  end.

(* ---------- accumulation: which element values are DELTA coded, and in which integer type ---------- *)
Inductive accum := Plain | Delta64 | Delta32.
Definition accum_name (k : accum) : string :=
  match k with Plain => "plain" | Delta64 => "delta:int64" | Delta32 => "delta:int32" end.
(* x += v *)
Definition acc_l (k : accum) (prev v : Z) : Z :=
  match k with Plain => v | Delta64 => wrap64 (prev + v) | Delta32 => wrap32 (prev + v) end.
(* prev = v + prev *)
Definition acc_r (k : accum) (prev v : Z) : Z :=
  match k with Plain => v | Delta64 => wrap64 (v + prev) | Delta32 => wrap32 (v + prev) end.
Fixpoint kind_of (n : Z) (t : list (Z * accum)) : accum :=
  match t with [] => Plain | (k, a) :: r => if n =? k then a else kind_of n r end.

Definition dense_accum : list (Z * accum) := [(1, Delta64); (8, Delta64); (9, Delta64); (10, Plain)].
Definition dinfo_accum : list (Z * accum) :=
  [(1, Plain); (2, Delta64); (3, Delta64); (4, Delta32); (5, Delta32); (6, Plain)].
Definition way_accum : list (Z * accum) := [(2, Plain); (3, Plain); (8, Delta64); (9, Delta64); (10, Delta64)].
Definition rel_accum : list (Z * accum) := [(2, Plain); (3, Plain); (8, Plain); (9, Delta64); (10, Plain)].

(* element accessors of extractDenseNodes, read from the tables *)
Definition a_ids := elem1 1 dense_table.
Definition a_lats := elem1 8 dense_table.
Definition a_lons := elem1 9 dense_table.
Definition a_kvk := elem1 10 dense_table.
Definition a_kvv := elem2 10 dense_table.
Definition a_ver := elem1 1 dinfo_table.
Definition a_ts' := elem1 2 dinfo_table.
Definition a_cs' := elem1 3 dinfo_table.
Definition a_uid' := elem1 4 dinfo_table.
Definition a_usid' := elem1 5 dinfo_table.
Definition a_vis := elem1 6 dinfo_table.

Fixpoint kv_loop_t (st : list bytes) (kv : list Z) (tags : list tag) : result (list Z * list tag) :=
  match kv with
  | [] => Err E_EOF
  | k :: r =>
      if ev_z a_kvk k =? 0 then Ok (r, tags)
      else match r with
           | [] => Err E_EOF
           | v :: r' =>
               ks <- idx st (ev_z a_kvk k) ;;; vs <- idx st (ev_z a_kvv v) ;;;
               kv_loop_t st r' (tags ++ [(ks, vs)])
           end
  end.

Definition extract_pre_t (p : bparams) (v1 : Z) (x : xst) : result (node * xst) :=
  let dc := x_dc x in let ic := c_info dc in let n := x_n x in let i := n_info n in
  let id := acc_l (kind_of 1 dense_accum) (a_id x) (ev_z a_ids v1) in
  ' (ov, cver) <- col_next (c_versions ic) ;;;
  let ver := match ov with Some v2 => acc_l (kind_of 1 dinfo_accum) 0 (ev_z a_ver v2) | None => i_version i end in
  ' (ot, cts) <- col_next (c_timestamps ic) ;;;
  let ats := match ot with Some v3 => acc_l (kind_of 2 dinfo_accum) (a_ts x) (ev_z a_ts' v3) | None => a_ts x end in
  let ts := match ot with Some _ => Some (ts_ns ats (dgran p)) | None => i_ts i end in
  ' (oc, ccs) <- col_next (c_changesets ic) ;;;
  let acs := match oc with Some v4 => acc_l (kind_of 3 dinfo_accum) (a_cs x) (ev_z a_cs' v4) | None => a_cs x end in
  let cs := match oc with Some _ => acs | None => i_cs i end in
  ' (ou, cuid) <- col_next (c_uids ic) ;;;
  let auid := match ou with Some v5 => acc_l (kind_of 4 dinfo_accum) (a_uid x) (ev_z a_uid' v5) | None => a_uid x end in
  let uid := match ou with Some _ => auid | None => i_uid i end in
  ' (os, cusid) <- col_next (c_usids ic) ;;;
  let ausid := match os with Some v6 => acc_l (kind_of 5 dinfo_accum) (a_usid x) (ev_z a_usid' v6) | None => a_usid x end in
  user <- match os with Some _ => idx (p_st p) ausid | None => Ok (i_user i) end ;;;
  ' (ob, cvis) <- col_next (c_visibles ic) ;;;
  let vis := match ob with Some v7 => ev_b a_vis v7 | None => i_visible i end in
  match c_lats dc, c_lons dc with
  | Some lats, Some lons =>
      ' (v8, lats') <- it_next lats ;;;
      let alat := acc_l (kind_of 8 dense_accum) (a_lat x) (ev_z a_lats v8) in
      ' (v9, lons') <- it_next lons ;;;
      let alon := acc_l (kind_of 9 dense_accum) (a_lon x) (ev_z a_lons v9) in
      ' (ckv, tags) <- match c_keyvals dc with
                       | None => Ok (None, n_tags n)
                       | Some kv => ' (kv', t) <- kv_loop_t (p_st p) kv (n_tags n) ;;; Ok (Some kv', t)
                       end ;;;
      let n' := mkNode id (coord (latoff p) (gran p) alat) (coord (lonoff p) (gran p) alon)
                       (mkInfo ver ts cs uid user vis) tags in
      let dc' := mkDC (c_ids dc) (mkIC cver cts ccs cuid cusid cvis) (Some lats') (Some lons') ckv in
      Ok (n', mkX dc' id alat alon ats acs auid ausid n' (x_q x))
  | _, _ => Panic
  end.

(* ---------- ways ---------- *)
Inductive wslot := WId | WKeys | WVals | WInfo | WRefs | WLat | WLon.
Definition way_table : list (row wslot) :=
  [ mkRow 1 WId "" (MVal AInt64) [];
    mkRow 2 WKeys "" MIter [AUint32];
    mkRow 3 WVals "" MIter [AUint32];
    mkRow 4 WInfo "" MData [];
    mkRow 8 WRefs "" MIter [ASint64];
    mkRow 9 WLat "" MIter [ASint64];
    mkRow 10 WLon "" MIter [ASint64] ].

Fixpoint fill_t (a : acc) (k : accum) (f : Z -> wnode -> wnode) (l : list Z) (prev : Z) (index : nat) (nodes : list wnode)
  : result (list wnode) :=
  match l with
  | [] => full nodes index
  | v :: r =>
      let prev' := acc_r k prev (ev_z a v) in
      nodes' <- upd nodes index (f prev') ;;; fill_t a k f r prev' (S index) nodes'
  end.

Definition way_step_t (p : bparams) (s : wst) (f : Z * wval) : result wst :=
  let v := snd f in let w := ws_way s in let wc := ws_wc s in
  match find_row (fst f) way_table with
  | None => Ok s
  | Some r =>
      let a := the_acc (r_msg r) in let e := hd AInt64 (r_elem r) in
      match r_slot r with
      | WId => x <- as_var v ;;;
          Ok (mkWst (mkWay (ev_z a x) (w_info w) (w_tags w) (w_nodes w)) wc (ws_fk s) (ws_fv s))
      | WKeys => l <- as_packed v ;;;
          Ok (mkWst w (mkWC (Some l) (c_vals wc) (c_nodes wc) (c_wlats wc) (c_wlons wc) (c_roles wc) (c_memids wc) (c_types wc))
                true (ws_fv s))
      | WVals => l <- as_packed v ;;;
          Ok (mkWst w (mkWC (c_keys wc) (Some l) (c_nodes wc) (c_wlats wc) (c_wlons wc) (c_roles wc) (c_memids wc) (c_types wc))
                (ws_fk s) true)
      | WInfo => d <- as_msg v ;;; i <- info_loop p d (w_info w) ;;;
          Ok (mkWst (mkWay (w_id w) i (w_tags w) (w_nodes w)) wc (ws_fk s) (ws_fv s))
      | WRefs => l <- as_packed v ;;;
          ns <- fill_t e (kind_of 8 way_accum) set_wid l 0 O (alloc_nodes (w_nodes w) l) ;;;
          Ok (mkWst (mkWay (w_id w) (w_info w) (w_tags w) ns)
                (mkWC (c_keys wc) (c_vals wc) (Some []) (c_wlats wc) (c_wlons wc) (c_roles wc) (c_memids wc) (c_types wc))
                (ws_fk s) (ws_fv s))
      | WLat => l <- as_packed v ;;;
          ns <- fill_t e (kind_of 9 way_accum) (set_wlat p) l 0 O (alloc_nodes (w_nodes w) l) ;;;
          Ok (mkWst (mkWay (w_id w) (w_info w) (w_tags w) ns)
                (mkWC (c_keys wc) (c_vals wc) (c_nodes wc) (Some []) (c_wlons wc) (c_roles wc) (c_memids wc) (c_types wc))
                (ws_fk s) (ws_fv s))
      | WLon => l <- as_packed v ;;;
          ns <- fill_t e (kind_of 10 way_accum) (set_wlon p) l 0 O (alloc_nodes (w_nodes w) l) ;;;
          Ok (mkWst (mkWay (w_id w) (w_info w) (w_tags w) ns)
                (mkWC (c_keys wc) (c_vals wc) (c_nodes wc) (c_wlats wc) (Some []) (c_roles wc) (c_memids wc) (c_types wc))
                (ws_fk s) (ws_fv s))
      end
  end.

(* scanTags: keys and vals are read with the accessors of fields 2 and 3 *)
Fixpoint scan_tags_t (ak av : acc) (st : list bytes) (keys vals : list Z) : result (list tag) :=
  match keys with
  | [] => Ok []
  | k :: kr =>
      ku <- ev_r ak k ;;;
      match vals with
      | [] => Err E_EOF
      | v :: vr =>
          vu <- ev_r av v ;;; ks <- idx st ku ;;; vs <- idx st vu ;;;
          rest <- scan_tags_t ak av st kr vr ;;; Ok ((ks, vs) :: rest)
      end
  end.

(* ---------- relations ---------- *)
Inductive rslot := RId | RKeys | RVals | RInfo | RRoles | RMemids | RTypes.
Definition rel_table : list (row rslot) :=
  [ mkRow 1 RId "" (MVal AInt64) [];
    mkRow 2 RKeys "" MIter [AUint32];
    mkRow 3 RVals "" MIter [AUint32];
    mkRow 4 RInfo "" MData [];
    mkRow 8 RRoles "" MIter [AInt32];
    mkRow 9 RMemids "" MIter [ASint64];
    mkRow 10 RTypes "" MIter [AInt32] ].

Definition rel_step_t (p : bparams) (s : rst) (f : Z * wval) : result rst :=
  let v := snd f in let r := rs_rel s in let wc := rs_wc s in
  match find_row (fst f) rel_table with
  | None => Ok s
  | Some rw =>
      let a := the_acc (r_msg rw) in
      match r_slot rw with
      | RId => x <- as_var v ;;;
          Ok (mkRst (mkRel (ev_z a x) (r_info r) (r_tags r) (r_members r)) wc (rs_fk s) (rs_fv s) (rs_fr s) (rs_fm s) (rs_ft s))
      | RKeys => l <- as_packed v ;;;
          Ok (mkRst r (mkWC (Some l) (c_vals wc) (c_nodes wc) (c_wlats wc) (c_wlons wc) (c_roles wc) (c_memids wc) (c_types wc))
                true (rs_fv s) (rs_fr s) (rs_fm s) (rs_ft s))
      | RVals => l <- as_packed v ;;;
          Ok (mkRst r (mkWC (c_keys wc) (Some l) (c_nodes wc) (c_wlats wc) (c_wlons wc) (c_roles wc) (c_memids wc) (c_types wc))
                (rs_fk s) true (rs_fr s) (rs_fm s) (rs_ft s))
      | RInfo => d <- as_msg v ;;; i <- info_loop p d (r_info r) ;;;
          Ok (mkRst (mkRel (r_id r) i (r_tags r) (r_members r)) wc (rs_fk s) (rs_fv s) (rs_fr s) (rs_fm s) (rs_ft s))
      | RRoles => l <- as_packed v ;;;
          Ok (mkRst r (mkWC (c_keys wc) (c_vals wc) (c_nodes wc) (c_wlats wc) (c_wlons wc) (Some l) (c_memids wc) (c_types wc))
                (rs_fk s) (rs_fv s) true (rs_fm s) (rs_ft s))
      | RMemids => l <- as_packed v ;;;
          Ok (mkRst r (mkWC (c_keys wc) (c_vals wc) (c_nodes wc) (c_wlats wc) (c_wlons wc) (c_roles wc) (Some l) (c_types wc))
                (rs_fk s) (rs_fv s) (rs_fr s) true (rs_ft s))
      | RTypes => l <- as_packed v ;;;
          Ok (mkRst r (mkWC (c_keys wc) (c_vals wc) (c_nodes wc) (c_wlats wc) (c_wlons wc) (c_roles wc) (c_memids wc) (Some l))
                (rs_fk s) (rs_fv s) (rs_fr s) (rs_fm s) true)
      end
  end.

Fixpoint members_loop_t (ar am at' : acc) (st : list bytes) (roles memids types : list Z) (memid : Z) (index : nat)
  (ms : list member) : result (list member) :=
  match roles with
  | [] => match memids with [] => full ms index | _ :: _ => Err E_COLUMNS end
  | r :: rr =>
      _ <- upd ms index (fun m => m) ;;;
      role <- idx st (ev_z ar r) ;;;
      ms1 <- upd ms index (set_role role) ;;;
      match memids with
      | [] => Err E_EOF
      | mi :: mr =>
          let memid' := acc_l (kind_of 9 rel_accum) memid (ev_z am mi) in
          match types with
          | [] => Err E_EOF
          | t :: tr =>
              ms2 <- upd ms1 index (set_ref_type memid' (ev_z at' t)) ;;;
              members_loop_t ar am at' st rr mr tr memid' (S index) ms2
          end
      end
  end.

(* ---------- HeaderBlock (decodeOSMHeader reads the generated struct; numbers from the struct tags) ---------- *)
(* Header field of the Go API, HeaderBlock / HeaderBBox field it is read from, its number in the model *)
Definition header_table : list (string * string * Z) :=
  [ ("Bounds.MaxLat", "Bbox.Top", 3); ("Bounds.MaxLon", "Bbox.Right", 2);
    ("Bounds.MinLat", "Bbox.Bottom", 4); ("Bounds.MinLon", "Bbox.Left", 1);
    ("OptionalFeatures", "OptionalFeatures", 5);
    ("ReplicationBaseURL", "OsmosisReplicationBaseUrl", 34);
    ("ReplicationSeqNum", "OsmosisReplicationSequenceNumber", 33);
    ("ReplicationTimestamp", "OsmosisReplicationTimestamp", 32);
    ("RequiredFeatures", "RequiredFeatures", 4);
    ("Source", "Source", 17);
    ("WritingProgram", "Writingprogram", 16) ].
Definition header_bbox_num : Z := 1.

(* ---------- found-flag rules (if !foundX { dec.X = nil } / return error; if foundA && foundB { use }) ---------- *)
(* flags and iterators are named by the dispatch arm (message variable, field number) that sets / fills them;
   the translator emits the rules sorted by (scope, number) of their flag, the niled iterators sorted too *)
Definition dense_rules : list frule :=
  [ mkFR "nil" [("info", 1)] [("info", 1)] []; mkFR "nil" [("info", 2)] [("info", 2)] [];
    mkFR "nil" [("info", 3)] [("info", 3)] []; mkFR "nil" [("info", 4)] [("info", 4)] [];
    mkFR "nil" [("info", 5)] [("info", 5)] []; mkFR "nil" [("info", 6)] [("info", 6)] [];
    mkFR "empty" [("msg", 1); ("msg", 5); ("msg", 8); ("msg", 9); ("msg", 10)] [] ["before:error"];
    mkFR "error" [("msg", 1)] [] [];
    mkFR "nil" [("msg", 5)] [("info", 1); ("info", 2); ("info", 3); ("info", 4); ("info", 5); ("info", 6)] [];
    mkFR "error" [("msg", 8)] [] []; mkFR "error" [("msg", 9)] [] [];
    mkFR "nil" [("msg", 10)] [("msg", 10)] [] ].
Definition way_rules : list frule := [ mkFR "use" [("msg", 2); ("msg", 3)] [] ["set:Way.Tags"] ].
Definition rel_rules : list frule :=
  [ mkFR "use" [("msg", 2); ("msg", 3)] [] ["set:Relation.Tags"];
    mkFR "use" [("msg", 8); ("msg", 9); ("msg", 10)] [] ["set:Relation.Members"] ].

Definition ref_eqb (a b : string * Z) : bool := String.eqb (fst a) (fst b) && (snd a =? snd b).
(* is iterator [col] set to nil, given the flags of scope [sc]? *)
Definition niled (rules : list frule) (sc : string) (flag : Z -> bool) (col : string * Z) : bool :=
  existsb (fun r => String.eqb (fr_kind r) "nil"
                    && forallb (fun f => String.eqb (fst f) sc) (fr_flags r)
                    && existsb (fun f => negb (flag (snd f))) (fr_flags r)
                    && existsb (ref_eqb col) (fr_nil r)) rules.
Definition keep_col (rules : list frule) (sc : string) (flag : Z -> bool) (col : string * Z) (c : iter) : iter :=
  if niled rules sc flag col then None else c.

Definition iflag (fi : ifound) (n : Z) : bool :=
  if n =? 1 then fi_ver fi else if n =? 2 then fi_ts fi else if n =? 3 then fi_cs fi
  else if n =? 4 then fi_uid fi else if n =? 5 then fi_usid fi else if n =? 6 then fi_vis fi else true.
Definition nil_info_t (fi : ifound) (ic : icols) : icols :=
  let k := keep_col dense_rules "info" (iflag fi) in
  mkIC (k ("info", 1) (c_versions ic)) (k ("info", 2) (c_timestamps ic)) (k ("info", 3) (c_changesets ic))
       (k ("info", 4) (c_uids ic)) (k ("info", 5) (c_usids ic)) (k ("info", 6) (c_visibles ic)).

Definition dflag (fd : dfound) (n : Z) : bool :=
  if n =? 1 then fd_ids fd else if n =? 5 then fd_info fd else if n =? 8 then fd_lats fd
  else if n =? 9 then fd_lons fd else if n =? 10 then fd_kv fd else true.
Definition missing_code (n : Z) : Z := if n =? 1 then E_NO_IDS else if n =? 8 then E_NO_LATS else E_NO_LONS.
(* the first "error" rule whose flag is not set *)
Fixpoint first_missing (rules : list frule) (flag : Z -> bool) : option Z :=
  match rules with
  | [] => None
  | r :: t =>
      if String.eqb (fr_kind r) "error" then
        match fr_flags r with
        | [(_, n)] => if flag n then first_missing t flag else Some n
        | _ => first_missing t flag
        end
      else first_missing t flag
  end.
Definition dense_fixup_t (s : dcols * dfound) : result dcols :=
  let dc := fst s in let fd := snd s in
  match first_missing dense_rules (dflag fd) with
  | Some n => Err (missing_code n)
  | None =>
      let k := keep_col dense_rules "msg" (dflag fd) in
      let ic := c_info dc in
      Ok (mkDC (c_ids dc)
               (mkIC (k ("info", 1) (c_versions ic)) (k ("info", 2) (c_timestamps ic)) (k ("info", 3) (c_changesets ic))
                     (k ("info", 4) (c_uids ic)) (k ("info", 5) (c_usids ic)) (k ("info", 6) (c_visibles ic)))
               (c_lats dc) (c_lons dc) (k ("msg", 10) (c_keyvals dc)))
  end.

(* "empty" rules placed before the mandatory-column errors: none of the listed columns present = return nil *)
Definition dense_empty_t (fd : dfound) : bool :=
  existsb (fun r => String.eqb (fr_kind r) "empty" && existsb (String.eqb "before:error") (fr_info r)
                    && forallb (fun f => negb (dflag fd (snd f))) (fr_flags r)) dense_rules.

(* "use" rules: the flags that must all be set *)
Definition use_flags (rules : list frule) (what : string) : list Z :=
  flat_map (fun r => if String.eqb (fr_kind r) "use" && existsb (String.eqb what) (fr_info r)
                     then map snd (fr_flags r) else []) rules.
Definition wflag (fk fv : bool) (n : Z) : bool := if n =? 2 then fk else if n =? 3 then fv else true.
Definition rflag (fk fv fr fm ft : bool) (n : Z) : bool :=
  if n =? 2 then fk else if n =? 3 then fv else if n =? 8 then fr else if n =? 9 then fm else if n =? 10 then ft else true.

(* the value formulas of the source, with locals replaced by the getter that defines them and values by v;
   the model's [coord] is  off + gran*v  in int64 (the float factor is applied outside, C01 / CoordFloat),
   [ts_ns] is  (v * date_granularity) * 1000000 ns  in int64 *)
Definition expected_formulas : list (string * string * string) :=
  [ ("scanDenseNodes", "Node.Timestamp", "time.Unix(0, [time.Duration(v * GetDateGranularity) * time.Millisecond].Nanoseconds()).UTC()");
    ("scanDenseNodes", "Node.Lat", "1e-9 * float64(GetLatOffset + (GetGranularity * v))");
    ("scanDenseNodes", "Node.Lon", "1e-9 * float64(GetLonOffset + (GetGranularity * v))");
    ("scanRelations", "Relation.Timestamp", "time.Unix(0, [time.Duration(v * GetDateGranularity) * time.Millisecond].Nanoseconds()).UTC()");
    ("scanWays", "Way.Timestamp", "time.Unix(0, [time.Duration(v * GetDateGranularity) * time.Millisecond].Nanoseconds()).UTC()");
    ("scanWays", "Way.Nodes.Lat", "1e-9 * float64(GetLatOffset + (GetGranularity * v))");
    ("scanWays", "Way.Nodes.Lon", "1e-9 * float64(GetLonOffset + (GetGranularity * v))") ].

(* ---------- the tables as the translator prints the source ---------- *)
Definition view {S} (targets : S -> list string) (has_call : S -> bool) (r : row S) : darm :=
  mkArm (r_num r) (r_guard r)
        (if has_call (r_slot r) then [macc_name (r_msg r)] else [])
        (map acc_name (r_elem r)) (targets (r_slot r)).

Definition yes {S} (_ : S) : bool := true.

Definition p1_targets (s : p1slot) : list string :=
  match s with
  | P1Strings => ["PrimitiveBlock.Stringtable"] | P1Gran => ["PrimitiveBlock.Granularity"]
  | P1DGran => ["PrimitiveBlock.DateGranularity"] | P1LatOff => ["PrimitiveBlock.LatOffset"]
  | P1LonOff => ["PrimitiveBlock.LonOffset"]
  end.
Definition p2_targets (s : p2slot) : list string := ["call:scanPrimitiveGroup"].
Definition g_targets (s : gslot) : list string :=
  match s with GPlain => ["error"] | GDense => ["call:scanDenseNodes"] | GWay => ["call:scanWays"]
             | GRel => ["call:scanRelations"] end.
Definition g_call (s : gslot) : bool := match s with GPlain => false | _ => true end.
Definition i_targets (obj : string) (s : islot) : list string :=
  match s with
  | IVersion => [obj ++ ".Version"] | ITimestamp => [obj ++ ".Timestamp"] | IChangeset => [obj ++ ".ChangesetID"]
  | IUid => [obj ++ ".UserID"] | IUser => [obj ++ ".User"] | IVisible => [obj ++ ".Visible"]
  end%string.
Definition d_targets (s : dslot) : list string :=
  match s with
  | DIds => ["Node.ID"] | DInfo => ["sub:info"] | DLats => ["Node.Lat"] | DLons => ["Node.Lon"]
  | DKeyVals => ["Node.Tags.Key"; "Node.Tags.Value"]
  end.
Definition w_targets (s : wslot) : list string :=
  match s with
  | WId => ["Way.ID"] | WKeys => ["Tags.Key"] | WVals => ["Tags.Value"] | WInfo => ["sub:info"]
  | WRefs => ["Way.Nodes.ID"] | WLat => ["Way.Nodes.Lat"] | WLon => ["Way.Nodes.Lon"]
  end.
Definition r_targets (s : rslot) : list string :=
  match s with
  | RId => ["Relation.ID"] | RKeys => ["Tags.Key"] | RVals => ["Tags.Value"] | RInfo => ["sub:info"]
  | RRoles => ["Members.Role"] | RMemids => ["Members.Ref"] | RTypes => ["Members.Type"]
  end.
