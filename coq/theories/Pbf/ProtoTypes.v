(* Pbf/ProtoTypes.v — types of the data regenerated from /repo by translator/cmd/pbfproto and
   translator/cmd/pbfcode (coq/gen/GenProto.v, coq/gen/GenPbfCode.v). *)
From Coq Require Import ZArith List String Bool.
Import ListNotations.
Open Scope Z_scope.

(* one field of a .proto message *)
Record pfield := mkPF {
  pf_num : Z; pf_name : string; pf_type : string; pf_label : string; pf_packed : bool;
  pf_default : option string }.

(* one arm of a `switch x.FieldNumber()` (or `if fn == N`) dispatch in the decoder:
   field number; guard ("" or the skip flag that disables the arm); the accessor methods called on
   the message in that arm; the accessor methods called on the iterator the arm fills (wherever
   in the file it is consumed); the fields of public objects assigned from it *)
Record darm := mkArm {
  da_num : Z; da_guard : string; da_msg : list string; da_elem : list string; da_targets : list string }.

(* one field of a generated Go struct (osmformat.pb.go / fileformat.pb.go): Go name and its
   `protobuf:"..."` struct tag *)
Record gofield := mkGF {
  gf_go : string; gf_wire : string; gf_num : Z; gf_label : string; gf_name : string; gf_packed : bool;
  gf_default : option string }.

(* a rule about found-flags in a scan function (translator/cmd/pbfcode): kind "nil" | "error" | "use";
   flags and iterators are named by the dispatch arm (message variable, field number) *)
Record frule := mkFR {
  fr_kind : string; fr_flags : list (string * Z); fr_nil : list (string * Z); fr_info : list string }.

Fixpoint lookup_s {A} (k : string) (l : list (string * A)) : option A :=
  match l with [] => None | (k', a) :: r => if String.eqb k k' then Some a else lookup_s k r end.
