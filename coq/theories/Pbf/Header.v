(* Pbf/Header.v — decodeOSMHeader (decode.go:374-419) at message-tree level, and its spec side.
   Executable definitions only.

   proto.Unmarshal of HeaderBlock is modelled by its proto2 semantics on a tree: the last
   occurrence of an optional scalar wins, repeated fields accumulate in order, occurrences of a
   sub-message merge, a known field with another wire type is an unknown field, required fields
   of HeaderBBox must be set.  Bounds are integer nanodegrees (the multiplication by 1e-9 is
   outside the model). *)
From Coq Require Import ZArith List Bool.
From Coq Require String.
From Verif Require Import Base.Int64 Base.Wire Pbf.Tree.
Import ListNotations.
Open Scope Z_scope.
Open Scope res_scope.

Record header := mkHeader {
  h_bounds : option (Z * Z * Z * Z);     (* MinLon, MaxLon, MinLat, MaxLat in nanodegrees *)
  h_required : list bytes; h_optional : list bytes;
  h_program : bytes; h_source : bytes;
  h_repl_ts : option Z;                  (* seconds; None = zero time.Time *)
  h_repl_seq : Z;                        (* uint64 *)
  h_repl_url : bytes }.

Definition last_var (n : Z) (m : msg) : option Z :=
  fold_left (fun acc f => match snd f with WVar x => if fst f =? n then Some x else acc | _ => acc end) m None.
Definition last_str (n : Z) (m : msg) : option bytes :=
  fold_left (fun acc f => match snd f with WStr x => if fst f =? n then Some x else acc | _ => acc end) m None.
Definition all_str (n : Z) (m : msg) : list bytes :=
  flat_map (fun f : Z * wval => match snd f with WStr x => if fst f =? n then [x] else [] | _ => [] end) m.
Definition all_msg (n : Z) (m : msg) : list msg :=
  flat_map (fun f : Z * wval => match snd f with WMsg x => if fst f =? n then [x] else [] | _ => [] end) m.

(* parseCapabilities (decode.go:24-28) as byte strings *)
Module Caps.
  Import String.
  Local Open Scope string_scope.
  Definition names : list string := [ "OsmSchema-V0.6"; "DenseNodes"; "HistoricalInformation" ].
End Caps.
Definition capabilities : list bytes := map bytes_of_string Caps.names.
Definition supported (f : bytes) : bool := existsb (bytes_eqb f) capabilities.

Definition E_REQUIRED : Z := 8.   (* proto: required field not set *)
Definition E_FEATURE : Z := 9.    (* parser does not have ... capability *)

Definition decode_header (m : msg) : result header :=
  bounds <- match all_msg 1 m with
            | [] => Ok None
            | bbs =>
                let bb := concat bbs in
                match last_var 1 bb, last_var 2 bb, last_var 3 bb, last_var 4 bb with
                | Some l, Some r, Some t, Some b => Ok (Some (sint64 l, sint64 r, sint64 b, sint64 t))
                | _, _, _, _ => Err E_REQUIRED
                end
            end ;;;
  let req := all_str 4 m in
  if negb (forallb supported req) then Err E_FEATURE
  else Ok (mkHeader bounds req (all_str 5 m)
                    (match last_str 16 m with Some s => s | None => [] end)
                    (match last_str 17 m with Some s => s | None => [] end)
                    (match last_var 32 m with Some x => Some (int64 x) | None => None end)
                    (match last_var 33 m with Some x => x | None => 0 end)   (* uint64(int64(x)) = x *)
                    (match last_str 34 m with Some s => s | None => [] end)).

(* ---------- spec side ---------- *)
Record header_d := mkHeaderD {
  hd_bbox : option (Z * Z * Z * Z);      (* left right top bottom *)
  hd_required : list bytes; hd_optional : list bytes;
  hd_program : option bytes; hd_source : option bytes;
  hd_repl_ts : option Z; hd_repl_seq : option Z; hd_repl_url : option bytes }.

Definition opts (n : Z) (o : option bytes) : msg := match o with Some s => [(n, WStr s)] | None => [] end.
Definition optv (n : Z) (o : option Z) : msg := match o with Some x => [(n, WVar (enc_int x))] | None => [] end.

Definition encode_header (h : header_d) : msg :=
  (match hd_bbox h with
   | Some (l, r, t, b) => [(1, WMsg [(1, WVar (zig64 l)); (2, WVar (zig64 r)); (3, WVar (zig64 t)); (4, WVar (zig64 b))])]
   | None => [] end) ++
  map (fun s => (4, WStr s)) (hd_required h) ++
  map (fun s => (5, WStr s)) (hd_optional h) ++
  opts 16 (hd_program h) ++ opts 17 (hd_source h) ++
  optv 32 (hd_repl_ts h) ++ optv 33 (hd_repl_seq h) ++ opts 34 (hd_repl_url h).

(* what Header() must report: every field unchanged; absent optional parts stay absent/empty *)
Definition header_of (h : header_d) : header :=
  mkHeader (match hd_bbox h with Some (l, r, t, b) => Some (l, r, b, t) | None => None end)
           (hd_required h) (hd_optional h)
           (match hd_program h with Some s => s | None => [] end)
           (match hd_source h with Some s => s | None => [] end)
           (hd_repl_ts h)
           (match hd_repl_seq h with Some x => x mod two64 | None => 0 end)
           (match hd_repl_url h with Some s => s | None => [] end).

Definition in64o (o : option Z) : bool := match o with Some x => in_int64b x | None => true end.
Definition valid_header (h : header_d) : bool :=
  (match hd_bbox h with
   | Some (l, r, t, b) => in_int64b l && in_int64b r && in_int64b t && in_int64b b
   | None => true end)
  && forallb supported (hd_required h)
  && in64o (hd_repl_ts h) && in64o (hd_repl_seq h).
