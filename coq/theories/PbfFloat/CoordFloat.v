(* PbfFloat/CoordFloat.v — the one real-number statement of the development (C01):

     for every integer nanodegree value n with |n| <= 4*10^14 (400000 degrees),
     | RN( RN(1e-9) * n ) - n * 1e-9 |  <=  1e-10
   where RN is IEEE-754 binary64 round-to-nearest-even (Flocq: FLT_exp (-1074) 53, ZnearestE),
   i.e. Go's  1e-9 * float64(n)  (float64(n) is exact: |n| < 2^53).

   This file uses Coq's classical real numbers through Flocq; the axioms it depends on are printed
   below and named in checks.d/C01.json (trusted_base).  Nothing else in the development imports
   this file. *)
From Coq Require Import ZArith Reals Lra Lia.
From Flocq Require Import Core Relative.
Open Scope R_scope.

Definition fexp64 := FLT_exp (-1074) 53.
Definition RN (x : R) : R := round radix2 fexp64 ZnearestE x.

Local Instance prec53 : Prec_gt_0 53. Proof. unfold Prec_gt_0. lia. Qed.

Definition u : R := / 9007199254740992.   (* 2^-53 *)

Lemma half_bpow52 : /2 * bpow radix2 (-53 + 1) = u.
Proof.
  change (-53 + 1)%Z with (-52)%Z. change (bpow radix2 (-52)) with (/ IZR (Zpower_pos 2 52)).
  replace (Zpower_pos 2 52) with 4503599627370496%Z by reflexivity. unfold u. lra.
Qed.

Lemma bpow_min_small : bpow radix2 (-1074 + 53 - 1) <= / 2147483648.
Proof.
  apply Rle_trans with (bpow radix2 (-31)).
  - apply bpow_le. lia.
  - change (bpow radix2 (-31)) with (/ IZR (Zpower_pos 2 31)).
    replace (Zpower_pos 2 31) with 2147483648%Z by reflexivity. lra.
Qed.

Lemma rel_err x : / 2147483648 <= Rabs x -> Rabs (RN x - x) <= u * Rabs x.
Proof.
  intros H. unfold RN, fexp64. rewrite <- half_bpow52.
  apply relative_error_N_FLT; [exact prec53|].
  apply Rle_trans with (2 := H). exact bpow_min_small.
Qed.

Definition c9 : R := RN (1 / 1000000000).

Lemma c9_close : Rabs (c9 - 1 / 1000000000) <= u * (1 / 1000000000).
Proof.
  unfold c9.
  assert (H : / 2147483648 <= Rabs (1 / 1000000000)) by (rewrite Rabs_pos_eq; lra).
  pose proof (rel_err _ H) as E. rewrite (Rabs_pos_eq (1 / 1000000000)) in E by lra. exact E.
Qed.

Lemma c9_bounds : 9 / 10000000000 <= c9 <= (1 + u) * (1 / 1000000000).
Proof.
  pose proof c9_close as H. apply Rabs_le_inv in H. unfold u in *. lra.
Qed.

Theorem coord_float_error : forall n : Z,
  (Z.abs n <= 400000000000000)%Z ->
  Rabs (RN (c9 * IZR n) - IZR n / 1000000000) <= 1 / 10000000000.
Proof.
  intros n Hn.
  destruct (Z.eq_dec n 0) as [->|Hz].
  - replace (c9 * 0) with 0 by ring. unfold RN. rewrite round_0; [|apply valid_rnd_N].
    replace (0 - 0 / 1000000000) with 0 by (unfold Rdiv; ring). rewrite Rabs_R0. lra.
  - set (a := Rabs (IZR n)).
    assert (Ha1 : 1 <= a).
    { unfold a. rewrite <- abs_IZR. apply (IZR_le 1). lia. }
    assert (Ha2 : a <= 400000000000000).
    { unfold a. rewrite <- abs_IZR. apply IZR_le. exact Hn. }
    pose proof c9_bounds as [Hc1 Hc2]. pose proof c9_close as Hcc.
    assert (Hcpos : 0 < c9) by lra.
    assert (Hx : Rabs (c9 * IZR n) = c9 * a).
    { rewrite Rabs_mult, (Rabs_pos_eq c9) by lra. reflexivity. }
    assert (Hbig : / 2147483648 <= Rabs (c9 * IZR n)).
    { rewrite Hx. apply Rle_trans with (c9 * 1); [lra|]. apply Rmult_le_compat_l; lra. }
    pose proof (rel_err _ Hbig) as E. rewrite Hx in E.
    replace (RN (c9 * IZR n) - IZR n / 1000000000)
      with ((RN (c9 * IZR n) - c9 * IZR n) + (c9 - 1 / 1000000000) * IZR n) by (unfold Rdiv; ring).
    eapply Rle_trans; [apply Rabs_triang|].
    rewrite (Rabs_mult (c9 - 1 / 1000000000)). fold a.
    assert (E2 : Rabs (c9 - 1 / 1000000000) * a <= u * (1 / 1000000000) * a)
      by (apply Rmult_le_compat_r; lra).
    assert (E3 : u * (c9 * a) <= u * ((1 + u) * (1 / 1000000000) * a)).
    { apply Rmult_le_compat_l; [unfold u; lra|]. apply Rmult_le_compat_r; lra. }
    unfold u in *. lra.
Qed.

Print Assumptions coord_float_error.

(* float64(n) is exact for these n (|n| < 2^53), so Go's  1e-9 * float64(n)  is RN (c9 * IZR n) *)
Lemma int_exact : forall n : Z, (Z.abs n <= 400000000000000)%Z -> RN (IZR n) = IZR n.
Proof.
  intros n Hn. unfold RN. apply round_generic; [apply valid_rnd_N|].
  apply generic_format_FLT. apply (FLT_spec radix2 (-1074) 53 (IZR n) (Float radix2 n 0)).
  - unfold F2R. simpl. ring.
  - simpl. change (2 ^ 53)%Z with 9007199254740992%Z. lia.
  - simpl. lia.
Qed.

Theorem coord_float_error_go : forall n : Z,
  (Z.abs n <= 400000000000000)%Z ->
  Rabs (RN (RN (1 / 1000000000) * RN (IZR n)) - IZR n / 1000000000) <= 1 / 10000000000.
Proof. intros n Hn. rewrite (int_exact n Hn). exact (coord_float_error n Hn). Qed.
Print Assumptions coord_float_error_go.

(* ---------- composed with the PBF specification (wave 5) ---------- *)
(* For every block description whose coordinates are within 4e14 nanodegrees (coords_small, a
   boolean the correspondence check evaluates on every case: code 4), every coordinate n that an
   element of the block carries - node lat/lon, way-node lat/lon - is turned by the decoder's
   float64 expression 1e-9 * float64(n) into a value within 1e-10 degrees of n * 1e-9.
   (That the decoder's integer n IS the element's coordinate is C01_decode_encode_block /
   C01_field_order_irrelevant.) *)
From Coq Require Import List Bool.
From Verif Require Import Pbf.Tree Pbf.Model Pbf.Spec.

Theorem elements_coord_float_error : forall b o n,
  coords_small b = true -> In o (elements b) -> In n (obj_coords o) ->
  (Rabs (RN (RN (1 / 1000000000) * RN (IZR n)) - IZR n / 1000000000) <= 1 / 10000000000)%R.
Proof.
  intros b o n H Ho Hn. apply coord_float_error_go.
  unfold coords_small in H. rewrite forallb_forall in H. specialize (H o Ho).
  rewrite forallb_forall in H. specialize (H n Hn). apply Z.leb_le in H. exact H.
Qed.
Print Assumptions elements_coord_float_error.
