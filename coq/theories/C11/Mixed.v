(* C11/Mixed.v — histories that MIX versions with and without commit times (and any regime of
   the parents): the loop invariant of FindVisible that holds for every mixture, and the coverage
   of nextVersionIndex for visible versions.  With them time travel holds without any regime
   hypothesis (C11/Generic.v states it over this coverage). *)
From Coq Require Import ZArith List Bool Lia Permutation Sorted Arith.
From Verif Require Import Annotate.Model Annotate.SortProofs Annotate.Plans Annotate.Determinism
  C11.Spec C11.Proofs C11.Exact C11.TimeTravel.
Import ListNotations.
Open Scope Z_scope.

(* a version the selection must not skip: stamped before the window, or visible and stamped
   no later than [at_] *)
Definition must_cover (cis at_ eps : Z) (c : child) : Prop :=
  stamp cis c < at_ - eps \/ (c_visible c = true /\ stamp cis c <= at_).

Definition fv_inv2 (cis at_ eps : Z) (cl : list child) (k : nat) (st : fv_state) : Prop :=
  (forall x, fv_nearest st = Some x ->
     exists i, (i < k)%nat /\ nth_error cl i = Some x /\
       forall i' c', (i' < k)%nat -> nth_error cl i' = Some c' -> must_cover cis at_ eps c' -> (i' <= i)%nat) /\
  (fv_diff st = -1 \/ exists i0 c0, (i0 < k)%nat /\ nth_error cl i0 = Some c0 /\ fv_diff st = Z.abs (stamp cis c0 - at_)) /\
  (fv_done st = true -> forall i' c', (k <= i')%nat -> nth_error cl i' = Some c' -> at_ < stamp cis c').

Lemma fv_step_inv2 : forall cis cid at_ eps cl k c st,
  0 <= eps -> mono cis cl -> nth_error cl k = Some c ->
  fv_inv2 cis at_ eps cl k st ->
  fv_inv2 cis at_ eps cl (S k) (fv_step cis cid at_ eps st c).
Proof.
  intros cis cid at_ eps cl k c st Heps Hm Hk [Hn [Hdf Hd]].
  (* extending the first component in the three possible ways *)
  assert (Hkeep : forall st', fv_nearest st' = fv_nearest st -> ~ must_cover cis at_ eps c ->
            forall x, fv_nearest st' = Some x ->
            exists i, (i < S k)%nat /\ nth_error cl i = Some x /\
              forall i' c', (i' < S k)%nat -> nth_error cl i' = Some c' -> must_cover cis at_ eps c' -> (i' <= i)%nat).
  { intros st' En Hnc x Hx. rewrite En in Hx. destruct (Hn x Hx) as [i [Hi [Hxi Hle]]].
    exists i. split; [lia|]. split; [exact Hxi|]. intros i' c' Hi' Hc' Hmc.
    destruct (Nat.eq_dec i' k) as [E|E]; [subst i'; rewrite Hk in Hc'; inversion Hc'; subst c'; contradiction|].
    apply (Hle i' c'); [lia|exact Hc'|exact Hmc]. }
  assert (Hself : forall st', fv_nearest st' = Some c ->
            forall x, fv_nearest st' = Some x ->
            exists i, (i < S k)%nat /\ nth_error cl i = Some x /\
              forall i' c', (i' < S k)%nat -> nth_error cl i' = Some c' -> must_cover cis at_ eps c' -> (i' <= i)%nat).
  { intros st' En x Hx. rewrite En in Hx. inversion Hx; subst x. exists k. split; [lia|]. split; [exact Hk|].
    intros i' c' Hi' _ _. lia. }
  assert (Hdiff_keep : fv_diff st = -1 \/ exists i0 c0, (i0 < S k)%nat /\ nth_error cl i0 = Some c0 /\ fv_diff st = Z.abs (stamp cis c0 - at_)).
  { destruct Hdf as [H|[i0 [c0 [H1 [H2 H3]]]]]; [left; exact H|right; exists i0, c0; split; [lia|split; assumption]]. }
  assert (Hdone_new : at_ < stamp cis c -> forall i' c', (S k <= i')%nat -> nth_error cl i' = Some c' -> at_ < stamp cis c').
  { intros Hlt i' c' Hi' Hc'. pose proof (Hm k i' c c' Hk Hc' ltac:(lia)). lia. }
  unfold fv_step. destruct (fv_done st) eqn:Ed.
  - (* already stopped: c is later than at_ *)
    pose proof (Hd eq_refl k c ltac:(lia) Hk) as Hlate.
    split; [|split].
    + apply (Hkeep st eq_refl). intros [H|[_ H]]; lia.
    + exact Hdiff_keep.
    + intros _. apply Hdone_new. exact Hlate.
  - destruct (c_committed c <? cis) eqn:Ereg.
    + (* version without commit time *)
      assert (stamp cis c = c_timestamp c) as Hst by (unfold stamp, time_threshold; rewrite Ereg; lia).
      rewrite <- Hst.
      destruct (stamp cis c - (at_ - eps) >? 2 * eps) eqn:E1.
      * split; [|split]; cbn [fv_nearest fv_diff fv_done].
        -- apply (Hkeep (mkFv (fv_diff st) (fv_nearest st) true) eq_refl). intros [H|[_ H]]; lia.
        -- exact Hdiff_keep.
        -- intros _. apply Hdone_new. lia.
      * destruct (stamp cis c - (at_ - eps) <? 0) eqn:E2.
        -- split; [|split]; cbn [fv_nearest fv_diff fv_done]; [|exact Hdiff_keep|discriminate].
           unfold vis_opt. destruct (c_visible c) eqn:Ev.
           ++ apply (Hself (mkFv (fv_diff st) (Some c) false) eq_refl).
           ++ intros x Hx. discriminate.
        -- replace (stamp cis c - (at_ - eps) - eps) with (stamp cis c - at_) by lia.
           assert (Hdiff_new : fv_diff st = -1 \/ exists i0 c0, (i0 < S k)%nat /\ nth_error cl i0 = Some c0 /\
                                 Z.abs (stamp cis c - at_) = Z.abs (stamp cis c0 - at_))
             by (right; exists k, c; split; [lia|split; [exact Hk|reflexivity]]).
           destruct ((fv_diff st <? 0) || (Z.abs (stamp cis c - at_) <=? fv_diff st)) eqn:Econd.
           ++ destruct (c_visible c) eqn:Ev; cbn [negb].
              ** rewrite andb_false_r. cbn [andb].
                 destruct (stamp cis c - (at_ - eps) <=? eps) eqn:E3.
                 --- split; [|split]; cbn [fv_nearest fv_diff fv_done]; [apply (Hself (mkFv (Z.abs (stamp cis c - at_)) (Some c) false) eq_refl)| |discriminate].
                     right. exists k, c. split; [lia|split; [exact Hk|reflexivity]].
                 --- destruct (c_changeset c =? cid).
                     +++ split; [|split]; cbn [fv_nearest fv_diff fv_done]; [apply (Hself (mkFv (Z.abs (stamp cis c - at_)) (Some c) false) eq_refl)| |discriminate].
                         right. exists k, c. split; [lia|split; [exact Hk|reflexivity]].
                     +++ split; [|split]; cbn [fv_nearest fv_diff fv_done]; [|exact Hdiff_keep|discriminate].
                         apply (Hkeep (mkFv (fv_diff st) (fv_nearest st) false) eq_refl). intros [H|[_ H]]; lia.
              ** rewrite andb_true_r. split; [|split]; cbn [fv_nearest fv_diff fv_done]; [| |discriminate].
                 --- destruct ((fv_diff st =? -1) && (stamp cis c - (at_ - eps) =? 0)).
                     +++ intros x Hx. discriminate.
                     +++ apply (Hkeep (mkFv (Z.abs (stamp cis c - at_)) (fv_nearest st) false) eq_refl).
                         intros [H|[H _]]; [lia|congruence].
                 --- right. exists k, c. split; [lia|split; [exact Hk|reflexivity]].
           ++ (* farther than the closest so far: impossible for a visible version stamped <= at_ *)
              split; [|split]; [|exact Hdiff_keep|rewrite Ed; discriminate].
              apply (Hkeep st eq_refl). intros [H|[Hv Hle]]; [lia|].
              apply orb_false_iff in Econd. destruct Econd as [Ec1 Ec2].
              destruct Hdf as [Hm1|[i0 [c0 [Hi0 [Hc0 Hdiff]]]]]; [lia|].
              pose proof (Hm i0 k c0 c Hc0 Hk ltac:(lia)). lia.
    + (* version with a commit time *)
      assert (stamp cis c = c_committed c) as Hst by (unfold stamp, time_threshold; rewrite Ereg; reflexivity).
      rewrite <- Hst.
      destruct (stamp cis c >? at_) eqn:E1.
      * split; [|split]; cbn [fv_nearest fv_diff fv_done].
        -- apply (Hkeep (mkFv (fv_diff st) (fv_nearest st) true) eq_refl). intros [H|[_ H]]; lia.
        -- exact Hdiff_keep.
        -- intros _. apply Hdone_new. lia.
      * split; [|split]; cbn [fv_nearest fv_diff fv_done]; [|exact Hdiff_keep|discriminate].
        unfold vis_opt. destruct (c_visible c) eqn:Ev.
        -- apply (Hself (mkFv (fv_diff st) (Some c) false) eq_refl).
        -- intros x Hx. discriminate.
Qed.

Lemma fv_fold_inv2 : forall cis cid at_ eps cl l2 l1 st,
  0 <= eps -> mono cis cl -> cl = l1 ++ l2 -> fv_inv2 cis at_ eps cl (length l1) st ->
  fv_inv2 cis at_ eps cl (length cl) (fold_left (fv_step cis cid at_ eps) l2 st).
Proof.
  intros cis cid at_ eps cl l2. induction l2 as [|c r IH]; intros l1 st Heps Hm Hcl Hinv; cbn [fold_left].
  - rewrite app_nil_r in Hcl. subst l1. exact Hinv.
  - assert (nth_error cl (length l1) = Some c) as Hk by (subst cl; rewrite nth_error_app2, Nat.sub_diag by lia; reflexivity).
    apply (IH (l1 ++ [c])); try assumption.
    + subst cl. rewrite <- app_assoc. reflexivity.
    + rewrite app_length. cbn [length]. replace (length l1 + 1)%nat with (S (length l1)) by lia.
      apply fv_step_inv2; assumption.
Qed.

(* every mixture: no version that must be covered is later than the selected one *)
Lemma find_visible_covers : forall cis cl cid at_ eps x,
  0 <= eps -> vidx_ok cl -> mono cis cl ->
  find_visible cis cl cid at_ eps = Some x ->
  forall i c, nth_error cl i = Some c -> must_cover cis at_ eps c -> (i <= c_vidx x)%nat.
Proof.
  intros cis cl cid at_ eps x Heps Hv Hm H i c Hi Hmc. unfold find_visible in H.
  destruct (fv_fold_inv2 cis cid at_ eps cl cl [] (mkFv (-1) None false) Heps Hm eq_refl) as [Hn _].
  - split; [intros y Hy; discriminate|]. split; [left; reflexivity|intros Hd; discriminate].
  - destruct (Hn x H) as [ix [_ [Hx Hle]]]. rewrite (Hv _ _ Hx).
    apply (Hle i c); [apply nth_error_Some; congruence|exact Hi|exact Hmc].
Qed.
