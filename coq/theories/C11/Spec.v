(* C11/Spec.v — ground truth for "the child version that was current at time T".
   Visibly simpler than the model: no windows, no changesets, no loops with break. *)
From Coq Require Import ZArith List Bool.
From Verif Require Import Annotate.Model.
Import ListNotations.
Open Scope Z_scope.

(* the commit time of a version when it is known (on or after CommitInfoStart), else its timestamp *)
Definition stamp (cis : Z) (c : child) : Z := time_threshold cis c 0.
Definition pstamp (cis : Z) (p : parent) : Z := time_threshold_parent cis p 0.

(* the last version, in version order, whose stamp is <= T *)
Definition current_at (cis : Z) (hist : list child) (T : Z) : option child :=
  fold_left (fun acc c => if stamp cis c <=? T then Some c else acc) hist None.

(* the later of two versions of one child (by position in version order) *)
Definition later (a b : option child) : option child :=
  match a, b with
  | Some x, Some y => if Nat.ltb (c_vidx x) (c_vidx y) then Some y else Some x
  | Some x, None => Some x
  | None, y => y
  end.

(* commit-time regime: every commit time is known *)
Definition commit_child (cis : Z) (c : child) : bool := cis <=? c_committed c.
Definition commit_parent (cis : Z) (p : parent) : bool := cis <=? p_committed p.

(* stamps never decrease with the version *)
Fixpoint stamps_monotone (cis : Z) (l : list child) : bool :=
  match l with
  | a :: ((b :: _) as r) => (stamp cis a <=? stamp cis b) && stamps_monotone cis r
  | _ => true
  end.

(* the stamp an update must carry *)
Definition stamp_consistent (cis : Z) (c : child) : bool :=
  update_timestamp cis (c_timestamp c) (c_committed c) =? stamp cis c.

(* a history the annotation treats as missing: not found, or found but empty *)
Definition missing_hist (h : hres) : bool :=
  match h with HNotFound => true | HFound [] => true | _ => false end.
