(* C11/Proofs.v — FindVisible against the ground truth [current_at] in the commit-time regime,
   where every annotation and every error of Compute comes from, deleted parents, and the
   semantics of ApplyUpdatesUpTo. *)
From Coq Require Import ZArith List Bool Lia Permutation Sorted Arith.
From Verif Require Import Annotate.Model Annotate.SortProofs Annotate.Plans Annotate.Determinism C11.Spec.
Import ListNotations.
Open Scope Z_scope.

(* ------------------------------------------------------------------------- *)
(* 1. commit-time regime: FindVisible = the version current at [at_], if it is visible *)

Definition visible_only (c : option child) : option child :=
  match c with Some x => if c_visible x then Some x else None | None => None end.

Lemma fv_done_fold : forall cis cid at_ eps cl st,
  fv_done st = true -> fold_left (fv_step cis cid at_ eps) cl st = st.
Proof.
  intros cis cid at_ eps cl. induction cl as [|c r IH]; intros st H; cbn [fold_left]; [reflexivity|].
  unfold fv_step at 2. rewrite H. apply IH. exact H.
Qed.

(* stamps of the remaining versions are all >= the stamp of the head (monotone list) *)
Fixpoint all_ge (cis : Z) (x : Z) (l : list child) : Prop :=
  match l with [] => True | c :: r => x <= stamp cis c /\ all_ge cis x r end.

Lemma stamps_monotone_all_ge : forall cis c r,
  stamps_monotone cis (c :: r) = true -> all_ge cis (stamp cis c) r /\ stamps_monotone cis r = true.
Proof.
  intros cis c r. revert c. induction r as [|d r IH]; intros c H.
  - split; [exact I|reflexivity].
  - cbn [stamps_monotone] in H. apply andb_true_iff in H. destruct H as [H1 H2].
    apply Z.leb_le in H1. split; [|exact H2].
    destruct (IH d H2) as [Hge _]. split; [exact H1|].
    clear - H1 Hge. induction r as [|e r IHr]; [exact I|].
    destruct Hge as [He Hr]. split; [lia|apply IHr; exact Hr].
Qed.

Lemma current_at_all_later : forall cis cl T acc,
  (forall c, In c cl -> T < stamp cis c) ->
  fold_left (fun a c => if stamp cis c <=? T then Some c else a) cl acc = acc.
Proof.
  intros cis cl T. induction cl as [|c r IH]; intros acc H; cbn [fold_left]; [reflexivity|].
  assert (stamp cis c <=? T = false) as -> by (apply Z.leb_gt; apply H; left; reflexivity).
  apply IH. intros d Hd. apply H. right. exact Hd.
Qed.

Lemma all_ge_in : forall cis x l c, all_ge cis x l -> In c l -> x <= stamp cis c.
Proof.
  intros cis x l. induction l as [|d r IH]; intros c H Hin; [destruct Hin|].
  destruct H as [H1 H2]. destruct Hin as [<-|Hin]; [exact H1|apply IH; assumption].
Qed.

Lemma find_visible_commit_gen : forall cis cid at_ eps cl d acc,
  forallb (commit_child cis) cl = true -> stamps_monotone cis cl = true ->
  fv_nearest (fold_left (fv_step cis cid at_ eps) cl (mkFv d (visible_only acc) false)) =
  visible_only (fold_left (fun a c => if stamp cis c <=? at_ then Some c else a) cl acc).
Proof.
  intros cis cid at_ eps cl. induction cl as [|c r IH]; intros d acc Hc Hm; cbn [fold_left].
  - reflexivity.
  - cbn [forallb] in Hc. apply andb_true_iff in Hc. destruct Hc as [Hc1 Hc2].
    unfold commit_child in Hc1. apply Z.leb_le in Hc1.
    destruct (stamps_monotone_all_ge _ _ _ Hm) as [Hge Hm'].
    assert (stamp cis c = c_committed c) as Hst.
    { unfold stamp, time_threshold. assert (c_committed c <? cis = false) as -> by (apply Z.ltb_ge; lia). reflexivity. }
    unfold fv_step at 2. cbn [fv_done fv_diff fv_nearest].
    assert (c_committed c <? cis = false) as -> by (apply Z.ltb_ge; lia).
    rewrite Hst. destruct (c_committed c >? at_) eqn:E.
    + (* break: every later version is later than at_ too *)
      rewrite fv_done_fold by reflexivity. cbn [fv_nearest].
      assert (c_committed c <=? at_ = false) as -> by lia.
      rewrite current_at_all_later; [reflexivity|].
      intros x Hx. pose proof (all_ge_in _ _ _ _ Hge Hx). lia.
    + assert (c_committed c <=? at_ = true) as -> by lia.
      change (vis_opt c) with (visible_only (Some c)). apply IH; assumption.
Qed.

Lemma find_visible_commit : forall cis cid at_ eps cl,
  forallb (commit_child cis) cl = true -> stamps_monotone cis cl = true ->
  find_visible cis cl cid at_ eps = visible_only (current_at cis cl at_).
Proof.
  intros. unfold find_visible, current_at.
  apply (find_visible_commit_gen cis cid at_ eps cl (-1) None); assumption.
Qed.
