(* C11/Proofs.v — FindVisible against the ground truth [current_at] in the commit-time regime,
   where every annotation and every error of Compute comes from, deleted parents, and the
   semantics of ApplyUpdatesUpTo. *)
From Coq Require Import ZArith List Bool Lia Permutation Sorted Arith.
From Verif Require Import Annotate.Model Annotate.SortProofs Annotate.Plans Annotate.Determinism C11.Spec.
Import ListNotations.
Open Scope Z_scope.

(* ------------------------------------------------------------------------- *)
(* 1. commit-time regime: FindVisible = the version current at [at_], if it is visible *)

Definition visible_only (c : option child) : option child :=
  match c with Some x => if c_visible x then Some x else None | None => None end.

Lemma fv_done_fold : forall cis cid at_ eps cl st,
  fv_done st = true -> fold_left (fv_step cis cid at_ eps) cl st = st.
Proof.
  intros cis cid at_ eps cl. induction cl as [|c r IH]; intros st H; cbn [fold_left]; [reflexivity|].
  unfold fv_step at 2. rewrite H. apply IH. exact H.
Qed.

(* stamps of the remaining versions are all >= the stamp of the head (monotone list) *)
Fixpoint all_ge (cis : Z) (x : Z) (l : list child) : Prop :=
  match l with [] => True | c :: r => x <= stamp cis c /\ all_ge cis x r end.

Lemma stamps_monotone_all_ge : forall cis c r,
  stamps_monotone cis (c :: r) = true -> all_ge cis (stamp cis c) r /\ stamps_monotone cis r = true.
Proof.
  intros cis c r. revert c. induction r as [|d r IH]; intros c H.
  - split; [exact I|reflexivity].
  - cbn [stamps_monotone] in H. apply andb_true_iff in H. destruct H as [H1 H2].
    apply Z.leb_le in H1. split; [|exact H2].
    destruct (IH d H2) as [Hge _]. split; [exact H1|].
    clear - H1 Hge. induction r as [|e r IHr]; [exact I|].
    destruct Hge as [He Hr]. split; [lia|apply IHr; exact Hr].
Qed.

Lemma current_at_all_later : forall cis cl T acc,
  (forall c, In c cl -> T < stamp cis c) ->
  fold_left (fun a c => if stamp cis c <=? T then Some c else a) cl acc = acc.
Proof.
  intros cis cl T. induction cl as [|c r IH]; intros acc H; cbn [fold_left]; [reflexivity|].
  assert (stamp cis c <=? T = false) as -> by (apply Z.leb_gt; apply H; left; reflexivity).
  apply IH. intros d Hd. apply H. right. exact Hd.
Qed.

Lemma all_ge_in : forall cis x l c, all_ge cis x l -> In c l -> x <= stamp cis c.
Proof.
  intros cis x l. induction l as [|d r IH]; intros c H Hin; [destruct Hin|].
  destruct H as [H1 H2]. destruct Hin as [<-|Hin]; [exact H1|apply IH; assumption].
Qed.

Lemma find_visible_commit_gen : forall cis cid at_ eps cl d acc,
  forallb (commit_child cis) cl = true -> stamps_monotone cis cl = true ->
  fv_nearest (fold_left (fv_step cis cid at_ eps) cl (mkFv d (visible_only acc) false)) =
  visible_only (fold_left (fun a c => if stamp cis c <=? at_ then Some c else a) cl acc).
Proof.
  intros cis cid at_ eps cl. induction cl as [|c r IH]; intros d acc Hc Hm; cbn [fold_left].
  - reflexivity.
  - cbn [forallb] in Hc. apply andb_true_iff in Hc. destruct Hc as [Hc1 Hc2].
    unfold commit_child in Hc1. apply Z.leb_le in Hc1.
    destruct (stamps_monotone_all_ge _ _ _ Hm) as [Hge Hm'].
    assert (stamp cis c = c_committed c) as Hst.
    { unfold stamp, time_threshold. assert (c_committed c <? cis = false) as -> by (apply Z.ltb_ge; lia). reflexivity. }
    unfold fv_step at 2. cbn [fv_done fv_diff fv_nearest].
    assert (c_committed c <? cis = false) as -> by (apply Z.ltb_ge; lia).
    rewrite Hst. destruct (c_committed c >? at_) eqn:E.
    + (* break: every later version is later than at_ too *)
      rewrite fv_done_fold by reflexivity. cbn [fv_nearest].
      assert (c_committed c <=? at_ = false) as -> by lia.
      rewrite current_at_all_later; [reflexivity|].
      intros x Hx. pose proof (all_ge_in _ _ _ _ Hge Hx). lia.
    + assert (c_committed c <=? at_ = true) as -> by lia.
      change (vis_opt c) with (visible_only (Some c)). apply IH; assumption.
Qed.

Lemma find_visible_commit : forall cis cid at_ eps cl,
  forallb (commit_child cis) cl = true -> stamps_monotone cis cl = true ->
  find_visible cis cl cid at_ eps = visible_only (current_at cis cl at_).
Proof.
  intros. unfold find_visible, current_at.
  apply (find_visible_commit_gen cis cid at_ eps cl (-1) None); assumption.
Qed.

(* ------------------------------------------------------------------------- *)
(* 2. completeness of mapChildLocs / GroupByParent: every unfiltered reference is planned *)

Definition has (m : list (Z * list loc)) (k : Z) (x : loc) : Prop :=
  exists ls, In (k, ls) m /\ In x ls.

Lemma add_loc_has_new : forall m fid l, has (add_loc m fid l) fid l.
Proof.
  induction m as [|[k ls] r IH]; intros fid l; cbn [add_loc].
  - exists [l]. split; left; reflexivity.
  - destruct (k =? fid) eqn:E.
    + apply Z.eqb_eq in E. subst. exists (ls ++ [l]). split; [left; reflexivity|].
      apply in_or_app. right. left. reflexivity.
    + destruct (IH fid l) as [ls' [H1 H2]]. exists ls'. split; [right; exact H1|exact H2].
Qed.

Lemma add_loc_has_old : forall m fid l k x, has m k x -> has (add_loc m fid l) k x.
Proof.
  induction m as [|[k0 ls0] r IH]; intros fid l k x [ls [H1 H2]]; [destruct H1|].
  cbn [add_loc]. destruct (k0 =? fid) eqn:E.
  - destruct H1 as [H1|H1].
    + inversion H1; subst. exists (ls ++ [l]). split; [left; reflexivity|apply in_or_app; left; exact H2].
    + exists ls. split; [right; exact H1|exact H2].
  - destruct H1 as [H1|H1].
    + inversion H1; subst. exists ls. split; [left; reflexivity|exact H2].
    + destruct (IH fid l k x) as [ls' [H3 H4]]; [exists ls; split; assumption|].
      exists ls'. split; [right; exact H3|exact H4].
Qed.

Lemma map_refs_has_old : forall filter i refs j m k x,
  has m k x -> has (map_refs filter i j refs m) k x.
Proof.
  intros filter i refs. induction refs as [|r rest IH]; intros j m k x H; cbn [map_refs]; [exact H|].
  apply IH. destruct (filtered_out filter r); [exact H|apply add_loc_has_old; exact H].
Qed.

Lemma map_refs_has_new : forall filter i refs j m n r,
  nth_error refs n = Some r -> filtered_out filter r = false ->
  has (map_refs filter i j refs m) (r_id r) (i, (j + n)%nat).
Proof.
  intros filter i refs. induction refs as [|r0 rest IH]; intros j m n r Hn Hf; [destruct n; discriminate|].
  cbn [map_refs]. destruct n as [|n].
  - inversion Hn; subst r0. rewrite Hf. rewrite Nat.add_0_r.
    apply map_refs_has_old. apply add_loc_has_new.
  - cbn [nth_error] in Hn. replace (j + S n)%nat with (S j + n)%nat by lia. apply IH; assumption.
Qed.

Lemma map_parents_has_old : forall filter ps i m k x,
  has m k x -> has (map_parents filter i ps m) k x.
Proof.
  intros filter ps. induction ps as [|p rest IH]; intros i m k x H; cbn [map_parents]; [exact H|].
  apply IH. apply map_refs_has_old. exact H.
Qed.

Lemma map_parents_has_new : forall filter ps i m n par j r,
  nth_error ps n = Some par -> nth_error (p_refs par) j = Some r -> filtered_out filter r = false ->
  has (map_parents filter i ps m) (r_id r) ((i + n)%nat, j).
Proof.
  intros filter ps. induction ps as [|p rest IH]; intros i m n par j r Hn Hj Hf; [destruct n; discriminate|].
  cbn [map_parents]. destruct n as [|n].
  - inversion Hn; subst p. rewrite Nat.add_0_r. apply map_parents_has_old.
    apply (map_refs_has_new filter i (p_refs par) 0%nat m j r Hj Hf).
  - cbn [nth_error] in Hn. replace (i + S n)%nat with (S i + n)%nat by lia. eapply IH; eassumption.
Qed.

Lemma map_child_locs_complete : forall ps filter p par j r,
  nth_error ps p = Some par -> nth_error (p_refs par) j = Some r -> filtered_out filter r = false ->
  has (map_child_locs ps filter) (r_id r) (p, j).
Proof.
  intros. unfold map_child_locs.
  apply (map_parents_has_new filter ps 0%nat [] p par j r); assumption.
Qed.

Lemma group_by_parent_cover : forall l x, In x l -> exists g, In g (group_by_parent l) /\ In x g.
Proof.
  induction l as [|y r IH]; intros x Hx; [destruct Hx|].
  cbn [group_by_parent]. destruct Hx as [Hx|Hx].
  - subst y. destruct (group_by_parent r) as [|[|z g0] gs].
    + exists [x]. split; left; reflexivity.
    + exists [x]. split; left; reflexivity.
    + destruct (Nat.eqb (fst x) (fst z)).
      * exists (x :: z :: g0). split; left; reflexivity.
      * exists [x]. split; left; reflexivity.
  - destruct (IH x Hx) as [g [Hg Hxg]]. destruct (group_by_parent r) as [|[|z g0] gs] eqn:E; [destruct Hg| |].
    + exfalso. assert (In [] (group_by_parent r)) as H0 by (rewrite E; left; reflexivity).
      destruct (group_by_parent_ok _ _ H0) as [a [b [Hab _]]]. discriminate Hab.
    + destruct (Nat.eqb (fst y) (fst z)).
      * destruct Hg as [Hg|Hg].
        -- subst g. exists (y :: z :: g0). split; [left; reflexivity|right; exact Hxg].
        -- exists g. split; [right; exact Hg|exact Hxg].
      * exists g. split; [right; exact Hg|exact Hxg].
Qed.

(* ------------------------------------------------------------------------- *)
(* 3. the final reference of a cell after running all writes *)

Lemma set_ref_set_ref : forall c c' r, set_ref c (set_ref c' r) = set_ref c r.
Proof. intros. reflexivity. Qed.

Lemma writes_ref : forall ws ps p par j r,
  nth_error ps p = Some par -> nth_error (p_refs par) j = Some r ->
  exists par' r',
    nth_error (fold_left apply_write ws ps) p = Some par' /\
    nth_error (p_refs par') j = Some r' /\
    ((r' = r /\ forall c, ~ In (p, j, Some c) ws) \/
     (exists c, In (p, j, Some c) ws /\ r' = set_ref c r)).
Proof.
  induction ws as [|[[p' j'] c'] ws IH]; intros ps p par j r Hp Hj; cbn [fold_left].
  - exists par, r. split; [exact Hp|]. split; [exact Hj|]. left. split; [reflexivity|intros c []].
  - unfold apply_write at 2.
    assert (exists par1 r1,
              nth_error (update_nth p' (set_child j' c') ps) p = Some par1 /\
              nth_error (p_refs par1) j = Some r1 /\
              ((r1 = r /\ ~ (p' = p /\ j' = j /\ exists c, c' = Some c)) \/
               (exists c, p' = p /\ j' = j /\ c' = Some c /\ r1 = set_ref c r))) as [par1 [r1 [H1 [H2 H3]]]].
    { rewrite nth_error_update_nth. destruct (Nat.eqb p' p) eqn:Epp.
      - apply Nat.eqb_eq in Epp. subst p'. rewrite Hp. cbn [option_map].
        destruct c' as [c|]; cbn [set_child].
        + destruct (Nat.eqb j' j) eqn:Ejj.
          * exists (set_child j' (Some c) par), (set_ref c r). split; [reflexivity|].
            cbn [set_child p_refs]. rewrite nth_error_update_nth, Ejj.
            apply Nat.eqb_eq in Ejj. subst j'. rewrite Hj. cbn [option_map]. split; [reflexivity|].
            right. exists c. repeat split; reflexivity.
          * exists (set_child j' (Some c) par), r. split; [reflexivity|].
            cbn [set_child p_refs]. rewrite nth_error_update_nth, Ejj.
            split; [exact Hj|]. left. split; [reflexivity|].
            apply Nat.eqb_neq in Ejj. intros [_ [E _]]. congruence.
        + exists par, r. split; [reflexivity|]. split; [exact Hj|]. left. split; [reflexivity|].
          intros [_ [_ [c Hc]]]. discriminate.
      - exists par, r. split; [exact Hp|]. split; [exact Hj|]. left. split; [reflexivity|].
        apply Nat.eqb_neq in Epp. intros [E _]. congruence. }
    destruct (IH _ p par1 j r1 H1 H2) as [par' [r' [H4 [H5 H6]]]].
    exists par', r'. split; [exact H4|]. split; [exact H5|].
    destruct H6 as [[E6 Hno]|[c [Hin E6]]]; destruct H3 as [[E3 Hnot]|[c0 [Ea [Eb [Ec E3]]]]].
    + left. subst. split; [reflexivity|]. intros c [Hc|Hc]; [|exact (Hno c Hc)].
      inversion Hc; subst. apply Hnot. repeat split. exists c. reflexivity.
    + right. subst. exists c0. split; [left; reflexivity|reflexivity].
    + right. subst r1. exists c. split; [right; exact Hin|exact E6].
    + right. subst. exists c. split; [right; exact Hin|]. apply set_ref_set_ref.
Qed.

(* every unfiltered reference of a visible parent whose child has a history is covered by a plan *)
Lemma plan_exists : forall cis o ps hist entries pls p par j r cl,
  valid_order o ps entries ->
  all_plans cis o ps hist entries = Ok pls ->
  nth_error ps p = Some par -> p_visible par = true ->
  nth_error (p_refs par) j = Some r -> filtered_out (o_filter o) r = false ->
  hist (r_id r) = HFound cl -> cl <> [] ->
  exists pl, In pl pls /\ pl_pidx pl = p /\ In (p, j) (pl_locs pl) /\
             pl_child pl = find_visible cis cl (p_changeset par) (time_threshold_parent cis par 0) (o_threshold o).
Proof.
  intros cis o ps hist entries pls p par j r cl Hv Hall Hp Hvis Hj Hf Hh Hne.
  destruct (map_child_locs_complete ps (o_filter o) p par j r Hp Hj Hf) as [locs [Hent Hloc]].
  assert (In (r_id r, locs) entries) as Hent'
    by (eapply Permutation_in; [apply Permutation_sym; exact Hv|exact Hent]).
  unfold all_plans in Hall. destruct (collect_ok _ _ _ _ _ Hall) as [Hpls Hok]. subst pls.
  destruct (Hok _ Hent') as [x Hx].
  pose proof Hx as Hx0. unfold child_plans in Hx. cbn [fst snd] in Hx. rewrite Hh in Hx.
  assert (collect (group_plans cis o ps (r_id r) cl) (group_by_parent locs) = Ok x) as Hx'
    by (destruct cl; [congruence|exact Hx]).
  clear Hx. rename Hx' into Hx.
  destruct (collect_ok _ _ _ _ _ Hx) as [Hxs Hgok].
  destruct (group_by_parent_cover locs (p, j) Hloc) as [g [Hg Hpg]].
  destruct (group_by_parent_ok _ _ Hg) as [y [rest [Ey Hyall]]].
  destruct (Hgok g Hg) as [z Hz].
  pose proof Hz as Hz0. unfold group_plans in Hz. subst g.
  assert (fst y = p) as Efy by (destruct (Hyall _ Hpg) as [H1 _]; cbn [fst] in H1; lia).
  rewrite Efy, Hp, Hvis in Hz. cbn [negb] in Hz.
  destruct (group_plan cis o (r_id r) cl par (nth_error ps (S p)) (y :: rest)) as [[c ups]|] eqn:Eg; [|discriminate].
  inversion Hz; subst z.
  exists (mkPlan p (y :: rest) c ups). cbn [pl_pidx pl_locs pl_child].
  split.
  - apply in_flat_map. exists (r_id r, locs). split; [exact Hent'|].
    unfold ok_or_nil. rewrite Hx0. subst x. apply in_flat_map. exists (y :: rest). split; [exact Hg|].
    unfold ok_or_nil. rewrite Hz0. left. reflexivity.
  - split; [reflexivity|]. split; [exact Hpg|].
    unfold group_plan in Eg.
    destruct (find_visible cis cl (p_changeset par) (time_threshold_parent cis par 0) (o_threshold o)) as [c0|];
      [|destruct (o_ignore_incons o); [|discriminate]];
      (destruct (next_version_index cis _ cl (nth_error ps (S p)) o); [|discriminate]);
      (destruct (updates_loop cis o (r_id r) cl (y :: rest) _ _ []); [|discriminate]);
      inversion Eg; reflexivity.
Qed.

(* annotate_child_current, general form: the annotated reference carries what FindVisible selects *)
Lemma annotate_child_selected : forall cis o ps hist entries sortf ps' results p par j r cl,
  valid_order o ps entries ->
  compute_with cis o ps hist entries sortf = Ok (ps', results) ->
  nth_error ps p = Some par -> p_visible par = true ->
  nth_error (p_refs par) j = Some r -> filtered_out (o_filter o) r = false ->
  hist (r_id r) = HFound cl -> cl <> [] ->
  exists par' r',
    nth_error ps' p = Some par' /\ nth_error (p_refs par') j = Some r' /\
    r' = match find_visible cis cl (p_changeset par) (pstamp cis par) (o_threshold o) with
         | Some c => set_ref c r
         | None => r
         end.
Proof.
  intros cis o ps hist entries sortf ps' results p par j r cl Hv Hc Hp Hvis Hj Hf Hh Hne.
  rewrite compute_with_plans in Hc.
  destruct (all_plans cis o ps hist entries) as [pls|] eqn:E; [|discriminate].
  cbv zeta in Hc. inversion Hc; subst ps' results. clear Hc.
  rewrite run_plans_fst. cbn [fst].
  destruct (writes_ref (flat_map plan_writes pls) ps p par j r Hp Hj) as [par' [r' [H1 [H2 H3]]]].
  exists par', r'. split; [exact H1|]. split; [exact H2|].
  destruct (plan_exists cis o ps hist entries pls p par j r cl Hv E Hp Hvis Hj Hf Hh Hne)
    as [pl [Hpl [Epl [Hloc Hchild]]]].
  assert (In (p, j, pl_child pl) (flat_map plan_writes pls)) as Hw.
  { apply in_flat_map. exists pl. split; [exact Hpl|]. unfold plan_writes.
    apply in_map_iff. exists (p, j). cbn [snd]. rewrite Epl. split; [reflexivity|exact Hloc]. }
  pose proof (plans_cell_consistent cis o ps hist pls
                (all_plans_ok cis o ps hist entries pls (valid_order_ok o ps entries Hv) E)) as Hcc.
  unfold pstamp. rewrite <- Hchild.
  destruct H3 as [[Er Hno]|[c [Hin Er]]].
  - destruct (pl_child pl) as [c|]; [exfalso; exact (Hno c Hw)|exact Er].
  - rewrite (Hcc p j _ _ Hw Hin). exact Er.
Qed.

(* annotate_child_current, commit-time regime *)
Lemma annotate_child_current : forall cis o ps hist entries sortf ps' results p par j r cl,
  valid_order o ps entries ->
  compute_with cis o ps hist entries sortf = Ok (ps', results) ->
  nth_error ps p = Some par -> p_visible par = true ->
  nth_error (p_refs par) j = Some r -> filtered_out (o_filter o) r = false ->
  hist (r_id r) = HFound cl -> cl <> [] ->
  forallb (commit_child cis) cl = true -> stamps_monotone cis cl = true ->
  exists par' r',
    nth_error ps' p = Some par' /\ nth_error (p_refs par') j = Some r' /\
    r' = match visible_only (current_at cis cl (pstamp cis par)) with
         | Some c => set_ref c r
         | None => r
         end.
Proof.
  intros cis o ps hist entries sortf ps' results p par j r cl Hv Hc Hp Hvis Hj Hf Hh Hne Hcc Hm.
  destruct (annotate_child_selected cis o ps hist entries sortf ps' results p par j r cl
              Hv Hc Hp Hvis Hj Hf Hh Hne) as [par' [r' [H1 [H2 H3]]]].
  exists par', r'. split; [exact H1|]. split; [exact H2|].
  rewrite (find_visible_commit cis (p_changeset par) (pstamp cis par) (o_threshold o) cl Hcc Hm) in H3.
  exact H3.
Qed.

(* ------------------------------------------------------------------------- *)
(* 4. deleted parents; where errors come from *)

Definition plan_facts (o : opts) (ps0 : list parent) (pl : plan) : Prop :=
  (exists par, nth_error ps0 (pl_pidx pl) = Some par /\ p_visible par = true) /\
  (pl_child pl = None -> o_ignore_incons o = true).

Lemma group_plans_facts : forall cis o ps0 fid cl locs pls,
  group_plans cis o ps0 fid cl locs = Ok pls -> forall pl, In pl pls -> plan_facts o ps0 pl.
Proof.
  intros cis o ps0 fid cl locs pls H pl Hpl. unfold group_plans in H.
  destruct locs as [|l0 rest]; [inversion H; subst; destruct Hpl|].
  destruct (nth_error ps0 (fst l0)) as [par|] eqn:Ep; [|discriminate].
  destruct (p_visible par) eqn:Ev; cbn [negb] in H; [|inversion H; subst; destruct Hpl].
  destruct (group_plan cis o fid cl par (nth_error ps0 (S (fst l0))) (l0 :: rest)) as [[c ups]|] eqn:Eg; [|discriminate].
  inversion H; subst. destruct Hpl as [<-|[]]. cbn [pl_pidx pl_child]. split.
  - exists par. split; assumption.
  - intros Hc. cbn [pl_child] in Hc. rewrite Hc in Eg. unfold group_plan in Eg.
    destruct (find_visible cis cl (p_changeset par) (time_threshold_parent cis par 0) (o_threshold o)) as [c0|].
    + destruct (next_version_index cis (Some c0) cl (nth_error ps0 (S (fst l0))) o); [|discriminate].
      destruct (updates_loop cis o fid cl (l0 :: rest) _ _ []); [|discriminate]. inversion Eg.
    + destruct (o_ignore_incons o); [reflexivity|discriminate].
Qed.

Lemma all_plans_facts : forall cis o ps0 hist entries pls,
  all_plans cis o ps0 hist entries = Ok pls -> forall pl, In pl pls -> plan_facts o ps0 pl.
Proof.
  intros cis o ps0 hist entries pls H pl Hpl. unfold all_plans in H.
  destruct (collect_ok _ _ _ _ _ H) as [Hpls Hall]. subst pls.
  apply in_flat_map in Hpl. destruct Hpl as [[fid locs] [Hent Hpl]].
  destruct (Hall _ Hent) as [x Hx]. unfold ok_or_nil in Hpl. rewrite Hx in Hpl.
  unfold child_plans in Hx. cbn [fst snd] in Hx.
  destruct (hist fid) as [[|c0 cl0]| |]; [| | |discriminate].
  - destruct (o_ignore_missing o); [|discriminate]. inversion Hx; subst. destruct Hpl.
  - set (cl := c0 :: cl0) in *.
    destruct (collect_ok _ _ _ _ _ Hx) as [Hxs Hgall]. subst x.
    apply in_flat_map in Hpl. destruct Hpl as [g [Hg Hpl]].
    destruct (Hgall g Hg) as [y Hy]. unfold ok_or_nil in Hpl. rewrite Hy in Hpl.
    eapply group_plans_facts; eassumption.
  - destruct (o_ignore_missing o); [|discriminate]. inversion Hx; subst. destruct Hpl.
Qed.

Lemma writes_untouched : forall ws ps p,
  (forall w, In w ws -> fst (fst w) <> p) ->
  nth_error (fold_left apply_write ws ps) p = nth_error ps p.
Proof.
  induction ws as [|[[p' j'] c'] ws IH]; intros ps p H; cbn [fold_left]; [reflexivity|].
  rewrite IH by (intros w Hw; apply H; right; exact Hw).
  unfold apply_write. rewrite nth_error_update_nth.
  assert (p' <> p) as Hne by (apply (H (p', j', c')); left; reflexivity).
  apply Nat.eqb_neq in Hne. rewrite Hne. reflexivity.
Qed.

(* deleted parent versions receive no annotations and no updates *)
Lemma deleted_parent_untouched : forall cis o ps hist entries sortf ps' results p par,
  sort_spec less sortf ->
  compute_with cis o ps hist entries sortf = Ok (ps', results) ->
  nth_error ps p = Some par -> p_visible par = false ->
  nth_error ps' p = Some par /\ nth_error results p = Some [].
Proof.
  intros cis o ps hist entries sortf ps' results p par Hs Hc Hp Hvis.
  rewrite compute_with_plans in Hc.
  destruct (all_plans cis o ps hist entries) as [pls|] eqn:E; [|discriminate].
  cbv zeta in Hc. inversion Hc; subst ps' results. clear Hc.
  assert (forall pl, In pl pls -> pl_pidx pl <> p) as Hnp.
  { intros pl Hpl Eq. destruct (all_plans_facts _ _ _ _ _ _ E pl Hpl) as [[par' [H1 H2]] _].
    rewrite Eq, Hp in H1. inversion H1; subst. congruence. }
  split.
  - rewrite run_plans_fst. cbn [fst]. rewrite writes_untouched; [exact Hp|].
    intros w Hw. apply in_flat_map in Hw. destruct Hw as [pl [Hpl Hw]].
    unfold plan_writes in Hw. apply in_map_iff in Hw. destruct Hw as [l [El _]]. subst w.
    cbn [fst]. apply Hnp. exact Hpl.
  - rewrite nth_error_map, run_plans_snd_nth. cbn [snd]. rewrite nth_error_map, Hp. cbn [option_map app].
    assert (flat_map (ups_for p) pls = []) as ->.
    { clear E. induction pls as [|pl r IH]; [reflexivity|]. cbn [flat_map]. unfold ups_for at 1.
      assert (pl_pidx pl <> p) as Hne by (apply Hnp; left; reflexivity).
      apply Nat.eqb_neq in Hne. rewrite Hne. cbn [app]. apply IH. intros x Hx. apply Hnp. right. exact Hx. }
    f_equal. destruct (Hs []) as [Hperm _]. apply Permutation_nil in Hperm. exact Hperm.
Qed.

(* which errors a group can produce *)
Lemma updates_loop_err : forall cis o fid cl locs n k acc e,
  updates_loop cis o fid cl locs k n acc = Err e ->
  e = EPanic \/ (e = EDeletedBetween fid /\ o_ignore_incons o = false).
Proof.
  intros cis o fid cl locs n. induction n as [|n IH]; intros k acc e H; cbn [updates_loop] in H; [discriminate|].
  destruct (nth_error cl k) as [ck|]; [|inversion H; left; reflexivity].
  destruct (c_visible ck); [eapply IH; exact H|].
  destruct (o_ignore_incons o) eqn:Ei; [eapply IH; exact H|]. inversion H. right. split; reflexivity.
Qed.

Lemma next_version_index_err : forall cis cur cl np o e,
  next_version_index cis cur cl np o = Err e -> e = EPanic.
Proof.
  intros cis cur cl np o e H. unfold next_version_index in H.
  destruct np as [np|].
  - destruct (find_visible cis cl (p_changeset np) (time_threshold_parent cis np 0) (o_threshold o)) as [nx|].
    + destruct (time_threshold cis nx 0 <? time_threshold_parent cis np (- o_threshold o)); discriminate.
    + destruct (match cur with Some cur0 => negb (time_threshold_parent cis np (- o_threshold o) >? time_threshold cis cur0 0) | None => false end);
        [discriminate|]. destruct (version_before cis cl (time_threshold_parent cis np (- o_threshold o))); discriminate.
  - destruct (last (map Some cl) None); [discriminate|]. inversion H. reflexivity.
Qed.

Lemma group_plan_err : forall cis o fid cl par np locs e,
  group_plan cis o fid cl par np locs = Err e ->
  e = EPanic \/ (e = EDeletedBetween fid /\ o_ignore_incons o = false) \/
  (e = ENoVisibleChild fid (pstamp cis par) /\ o_ignore_incons o = false /\
   find_visible cis cl (p_changeset par) (pstamp cis par) (o_threshold o) = None).
Proof.
  intros cis o fid cl par np locs e H. unfold group_plan in H. fold (pstamp cis par) in H.
  destruct (find_visible cis cl (p_changeset par) (pstamp cis par) (o_threshold o)) as [c|] eqn:Ef.
  - destruct (next_version_index cis (Some c) cl np o) as [nv|e'] eqn:En.
    + destruct (updates_loop cis o fid cl locs (S (c_vidx c)) (nv - S (c_vidx c)) []) as [ups|e''] eqn:Eu; [discriminate|].
      inversion H; subst. destruct (updates_loop_err _ _ _ _ _ _ _ _ _ Eu) as [Hp|Hd]; [left; exact Hp|right; left; exact Hd].
    + inversion H; subst. left. eapply next_version_index_err. exact En.
  - destruct (o_ignore_incons o) eqn:Ei.
    + destruct (next_version_index cis None cl np o) as [nv|e'] eqn:En.
      * match type of H with context [updates_loop ?a ?b ?c ?d ?e ?f ?g ?h] =>
          destruct (updates_loop a b c d e f g h) as [ups|e''] eqn:Eu end; [discriminate|].
        inversion H; subst. destruct (updates_loop_err _ _ _ _ _ _ _ _ _ Eu) as [Hp|[Hd1 Hd2]]; [left; exact Hp|congruence].
      * inversion H; subst. left. eapply next_version_index_err. exact En.
    + inversion H; subst. right. right. repeat split; reflexivity.
Qed.

(* NoHistoryError is reported only for a child that is referenced, has no history, option off *)
Lemma no_history_error_typed : forall cis o ps hist entries sortf fid,
  compute_with cis o ps hist entries sortf = Err (ENoHistory fid) ->
  o_ignore_missing o = false /\ missing_hist (hist fid) = true /\ exists locs, In (fid, locs) entries.
Proof.
  intros cis o ps hist entries sortf fid H. rewrite compute_with_plans in H.
  destruct (all_plans cis o ps hist entries) as [pls|e] eqn:E; [cbv zeta in H; discriminate|].
  inversion H; subst e. unfold all_plans in E.
  destruct (collect_err _ _ _ _ _ E) as [[f locs] [Hent Hf]].
  unfold child_plans in Hf. cbn [fst snd] in Hf.
  destruct (hist f) as [[|c0 cl0]| |] eqn:Eh.
  - destruct (o_ignore_missing o); [discriminate|]. inversion Hf; subst f.
    split; [reflexivity|]. split; [rewrite Eh; reflexivity|]. exists locs. exact Hent.
  - set (cl := c0 :: cl0) in *.
    exfalso. destruct (collect_err _ _ _ _ _ Hf) as [g [Hg Hge]].
    unfold group_plans in Hge. destruct g as [|l0 rest]; [discriminate|].
    destruct (nth_error ps (fst l0)) as [par|]; [|discriminate].
    destruct (negb (p_visible par)); [discriminate|].
    destruct (group_plan cis o f cl par (nth_error ps (S (fst l0))) (l0 :: rest)) as [[c u]|e'] eqn:Eg; [discriminate|].
    inversion Hge; subst e'.
    destruct (group_plan_err _ _ _ _ _ _ _ _ Eg) as [Hx|[[Hx _]|[Hx _]]]; discriminate.
  - destruct (o_ignore_missing o); [discriminate|]. inversion Hf; subst f.
    split; [reflexivity|]. split; [rewrite Eh; reflexivity|]. exists locs. exact Hent.
  - discriminate.
Qed.

(* NoVisibleChildError is reported only for a visible parent whose child has no visible version
   selected by FindVisible at the parent's time, option off *)
Lemma no_visible_child_error_typed : forall cis o ps hist entries sortf fid ts,
  compute_with cis o ps hist entries sortf = Err (ENoVisibleChild fid ts) ->
  o_ignore_incons o = false /\
  exists locs cl p par,
    In (fid, locs) entries /\ hist fid = HFound cl /\ nth_error ps p = Some par /\
    p_visible par = true /\ ts = pstamp cis par /\
    find_visible cis cl (p_changeset par) (pstamp cis par) (o_threshold o) = None.
Proof.
  intros cis o ps hist entries sortf fid ts H. rewrite compute_with_plans in H.
  destruct (all_plans cis o ps hist entries) as [pls|e] eqn:E; [cbv zeta in H; discriminate|].
  inversion H; subst e. unfold all_plans in E.
  destruct (collect_err _ _ _ _ _ E) as [[f locs] [Hent Hf]].
  unfold child_plans in Hf. cbn [fst snd] in Hf.
  destruct (hist f) as [[|c0 cl0]| |] eqn:Eh; [| | |discriminate].
  - destruct (o_ignore_missing o); discriminate.
  - set (cl := c0 :: cl0) in *.
    destruct (collect_err _ _ _ _ _ Hf) as [g [Hg Hge]].
    unfold group_plans in Hge. destruct g as [|l0 rest]; [discriminate|].
    destruct (nth_error ps (fst l0)) as [par|] eqn:Ep; [|discriminate].
    destruct (p_visible par) eqn:Ev; cbn [negb] in Hge; [|discriminate].
    destruct (group_plan cis o f cl par (nth_error ps (S (fst l0))) (l0 :: rest)) as [[c u]|e'] eqn:Eg; [discriminate|].
    inversion Hge; subst e'.
    destruct (group_plan_err _ _ _ _ _ _ _ _ Eg) as [Hx|[[Hx _]|[Hx [Hi Hfv]]]]; try discriminate.
    inversion Hx; subst f ts. split; [exact Hi|].
    exists locs, cl, (fst l0), par. repeat split; assumption.
  - destruct (o_ignore_missing o); discriminate.
Qed.

(* conversely: a missing history / no visible child makes every run fail unless ignored *)
Lemma missing_history_error : forall cis o ps hist entries sortf p par j r,
  valid_order o ps entries ->
  nth_error ps p = Some par -> nth_error (p_refs par) j = Some r ->
  filtered_out (o_filter o) r = false -> missing_hist (hist (r_id r)) = true -> o_ignore_missing o = false ->
  exists e, compute_with cis o ps hist entries sortf = Err e.
Proof.
  intros cis o ps hist entries sortf p par j r Hv Hp Hj Hf Hh Hi.
  rewrite compute_with_plans.
  destruct (all_plans cis o ps hist entries) as [pls|e] eqn:E; [|eauto]. exfalso.
  destruct (map_child_locs_complete ps (o_filter o) p par j r Hp Hj Hf) as [locs [Hent _]].
  assert (In (r_id r, locs) entries) as Hent'
    by (eapply Permutation_in; [apply Permutation_sym; exact Hv|exact Hent]).
  unfold all_plans in E. destruct (collect_ok _ _ _ _ _ E) as [_ Hok].
  destruct (Hok _ Hent') as [x Hx]. unfold child_plans in Hx. cbn [fst] in Hx.
  destruct (hist (r_id r)) as [[|c0 cl0]| |]; try discriminate Hh; rewrite Hi in Hx; discriminate.
Qed.

Lemma no_visible_child_error : forall cis o ps hist entries sortf p par j r cl,
  valid_order o ps entries ->
  nth_error ps p = Some par -> p_visible par = true -> nth_error (p_refs par) j = Some r ->
  filtered_out (o_filter o) r = false -> hist (r_id r) = HFound cl -> cl <> [] ->
  find_visible cis cl (p_changeset par) (pstamp cis par) (o_threshold o) = None ->
  o_ignore_incons o = false ->
  exists e, compute_with cis o ps hist entries sortf = Err e.
Proof.
  intros cis o ps hist entries sortf p par j r cl Hv Hp Hvis Hj Hf Hh Hne Hfv Hi.
  rewrite compute_with_plans.
  destruct (all_plans cis o ps hist entries) as [pls|e] eqn:E; [|eauto]. exfalso.
  destruct (plan_exists cis o ps hist entries pls p par j r cl Hv E Hp Hvis Hj Hf Hh Hne)
    as [pl [Hpl [_ [_ Hchild]]]].
  fold (pstamp cis par) in Hchild. rewrite Hfv in Hchild.
  destruct (all_plans_facts _ _ _ _ _ _ E pl Hpl) as [_ Hnone].
  rewrite (Hnone Hchild) in Hi. discriminate.
Qed.

(* ------------------------------------------------------------------------- *)
(* 5. the updates of one (child, parent) group in closed form *)

Definition version_updates (cis : Z) (locs : list loc) (ck : child) : list update :=
  if c_visible ck then map (fun l : loc => child_update cis ck (snd l)) locs else [].

Lemma skipn_nth : forall A (l : list A) k x, nth_error l k = Some x -> skipn k l = x :: skipn (S k) l.
Proof.
  induction l as [|y r IH]; intros k x H; [destruct k; discriminate|].
  destruct k as [|k]; [inversion H; reflexivity|]. cbn [nth_error] in H.
  change (skipn (S k) (y :: r)) with (skipn k r). rewrite (IH k x H). reflexivity.
Qed.

(* the loop emits, for each VISIBLE version at positions start .. start+n-1, one update per
   location of the child in the parent, in version order, and nothing else *)
Lemma updates_loop_exact : forall cis o fid cl locs n k acc ups,
  updates_loop cis o fid cl locs k n acc = Ok ups ->
  ups = acc ++ flat_map (version_updates cis locs) (firstn n (skipn k cl)).
Proof.
  intros cis o fid cl locs n. induction n as [|n IH]; intros k acc ups H; cbn [updates_loop] in H.
  - inversion H. cbn [firstn flat_map]. rewrite app_nil_r. reflexivity.
  - destruct (nth_error cl k) as [ck|] eqn:Ek; [|discriminate].
    rewrite (skipn_nth _ _ _ _ Ek). cbn [firstn flat_map]. unfold version_updates at 1.
    destruct (c_visible ck).
    + rewrite (IH _ _ _ H), <- app_assoc. reflexivity.
    + destruct (o_ignore_incons o); [|discriminate]. cbn [app]. apply (IH _ _ _ H).
Qed.

(* without IgnoreInconsistency every version in the range is visible *)
Lemma updates_loop_all_visible : forall cis o fid cl locs n k acc ups,
  o_ignore_incons o = false ->
  updates_loop cis o fid cl locs k n acc = Ok ups ->
  forall ck, In ck (firstn n (skipn k cl)) -> c_visible ck = true.
Proof.
  intros cis o fid cl locs n. induction n as [|n IH]; intros k acc ups Hi H ck Hck; cbn [updates_loop] in H.
  - destruct Hck.
  - destruct (nth_error cl k) as [c0|] eqn:Ek; [|discriminate].
    rewrite (skipn_nth _ _ _ _ Ek) in Hck. cbn [firstn] in Hck.
    destruct (c_visible c0) eqn:Ev.
    + destruct Hck as [<-|Hck]; [exact Ev|]. eapply IH; eassumption.
    + rewrite Hi in H. discriminate.
Qed.

(* ------------------------------------------------------------------------- *)
(* 6. ApplyUpdatesUpTo: every reference is overwritten by the applicable updates of its index, in
      list order (so the last one wins); the rest stays pending in order *)

Definition applicable (t : Z) (j : nat) (u : update) : bool :=
  negb (u_timestamp u >? t) && Nat.eqb (u_index u) j.

Definition applied_ref (is_rel : bool) (t : Z) (us : list update) (j : nat) (r : ref) : ref :=
  fold_left (fun r u => if applicable t j u then apply_update is_rel u r else r) us r.

Lemma apply_updates_from_exact : forall is_rel t us refs na,
  (forall u, In u us -> u_timestamp u >? t = false -> (u_index u < length refs)%nat) ->
  exists refs',
    apply_updates_from is_rel t us refs na =
      ApplyOk refs' (na ++ filter (fun u => u_timestamp u >? t) us) /\
    length refs' = length refs /\
    forall j r, nth_error refs j = Some r -> nth_error refs' j = Some (applied_ref is_rel t us j r).
Proof.
  intros is_rel t us. induction us as [|u rest IH]; intros refs na Hin; cbn [apply_updates_from filter].
  - exists refs. rewrite app_nil_r. split; [reflexivity|]. split; [reflexivity|]. intros j r Hj. exact Hj.
  - destruct (u_timestamp u >? t) eqn:Et.
    + destruct (IH refs (na ++ [u])) as [refs' [H1 [H2 H3]]];
        [intros x Hx; apply Hin; right; exact Hx|].
      exists refs'. rewrite H1, <- app_assoc. split; [reflexivity|]. split; [exact H2|].
      intros j r Hj. rewrite (H3 j r Hj). unfold applied_ref. cbn [fold_left].
      assert (applicable t j u = false) as Ha by (unfold applicable; rewrite Et; reflexivity).
      rewrite Ha. reflexivity.
    + assert (u_index u < length refs)%nat as Hlt by (apply Hin; [left; reflexivity|exact Et]).
      assert (Nat.leb (length refs) (u_index u) = false) as -> by (apply Nat.leb_gt; exact Hlt).
      destruct (IH (update_nth (u_index u) (apply_update is_rel u) refs) na) as [refs' [H1 [H2 H3]]].
      { intros x Hx Hxt. rewrite update_nth_length. apply Hin; [right; exact Hx|exact Hxt]. }
      exists refs'. split; [exact H1|]. split; [rewrite H2; apply update_nth_length|].
      intros j r Hj. unfold applied_ref. cbn [fold_left].
      assert (applicable t j u = Nat.eqb (u_index u) j) as Ha by (unfold applicable; rewrite Et; reflexivity).
      rewrite Ha.
      fold (applied_ref is_rel t rest j (if Nat.eqb (u_index u) j then apply_update is_rel u r else r)).
      apply H3. rewrite nth_error_update_nth. destruct (Nat.eqb (u_index u) j); rewrite Hj; reflexivity.
Qed.

Lemma apply_exact : forall is_rel t us refs,
  (forall u, In u us -> u_timestamp u >? t = false -> (u_index u < length refs)%nat) ->
  exists refs',
    apply_updates_up_to is_rel t refs us = ApplyOk refs' (filter (fun u => u_timestamp u >? t) us) /\
    length refs' = length refs /\
    forall j r, nth_error refs j = Some r -> nth_error refs' j = Some (applied_ref is_rel t us j r).
Proof. intros. unfold apply_updates_up_to. apply (apply_updates_from_exact is_rel t us refs []). assumption. Qed.

(* the last applicable update decides version, changeset and location *)
Lemma applied_ref_last : forall is_rel t us u rest j r,
  us = rest ++ [u] -> applicable t j u = true ->
  let r' := applied_ref is_rel t us j r in
  r_version r' = u_version u /\ r_changeset r' = u_changeset u /\ r_lat r' = u_lat u /\ r_lon r' = u_lon u.
Proof.
  intros is_rel t us u rest j r Hus Ha. subst us. unfold applied_ref. rewrite fold_left_app. cbn [fold_left].
  rewrite Ha. cbn. repeat split; reflexivity.
Qed.

Lemma applied_ref_skip : forall is_rel t us u j r,
  applicable t j u = false -> applied_ref is_rel t (us ++ [u]) j r = applied_ref is_rel t us j r.
Proof.
  intros. unfold applied_ref. rewrite fold_left_app. cbn [fold_left]. rewrite H. reflexivity.
Qed.

(* ------------------------------------------------------------------------- *)
(* 7. the link from C12's order to time travel: on an update list ordered by (index, time,
      version), ApplyUpdatesUpTo(t) leaves at index j the applicable update that is greatest for
      (timestamp, version) — i.e. the newest version committed up to t *)

Lemma strongly_sorted_snoc : forall (l : list update) u,
  StronglySorted itv_le (l ++ [u]) -> StronglySorted itv_le l /\ forall x, In x l -> itv_le x u.
Proof.
  induction l as [|a r IH]; intros u H.
  - split; [constructor|intros x []].
  - cbn [app] in H. inversion H as [|? ? Hs Hall]; subst.
    destruct (IH u Hs) as [H1 H2]. rewrite Forall_forall in Hall. split.
    + constructor; [exact H1|]. rewrite Forall_forall. intros x Hx. apply Hall. apply in_or_app. left. exact Hx.
    + intros x [<-|Hx]; [apply Hall; apply in_or_app; right; left; reflexivity|apply H2; exact Hx].
Qed.

Lemma applied_sorted_max : forall is_rel t j us,
  StronglySorted itv_le us -> key_functional us ->
  forall r u, In u us -> applicable t j u = true ->
  (forall u', In u' us -> applicable t j u' = true -> itv_le u' u) ->
  let r' := applied_ref is_rel t us j r in
  r_version r' = u_version u /\ r_changeset r' = u_changeset u /\ r_lat r' = u_lat u /\ r_lon r' = u_lon u.
Proof.
  intros is_rel t j us. induction us as [|u0 rest IH] using rev_ind; intros Hs Hk r u Hin Ha Hmax.
  - destruct Hin.
  - destruct (strongly_sorted_snoc _ _ Hs) as [Hs' Hle].
    destruct (applicable t j u0) eqn:E0.
    + (* the last element is applicable: it is the maximum, hence it is u *)
      assert (u0 = u) as ->.
      { apply in_app_or in Hin. destruct Hin as [Hin|[<-|[]]]; [|reflexivity].
        apply Hk; [apply in_or_app; right; left; reflexivity|apply in_or_app; left; exact Hin|].
        apply itv_le_antisym_key; [|apply Hle; exact Hin].
        apply Hmax; [apply in_or_app; right; left; reflexivity|exact E0]. }
      eapply applied_ref_last; [reflexivity|exact E0].
    + cbv zeta. rewrite applied_ref_skip by exact E0.
      apply in_app_or in Hin. destruct Hin as [Hin|[<-|[]]]; [|congruence].
      apply IH; try assumption.
      * intros a b Ha' Hb'. apply Hk; apply in_or_app; left; assumption.
      * intros u' Hu' Hau'. apply Hmax; [apply in_or_app; left; exact Hu'|exact Hau'].
Qed.

(* and when no update of index j is applicable the reference is unchanged *)
Lemma applied_none : forall is_rel t j us r,
  (forall u, In u us -> applicable t j u = false) -> applied_ref is_rel t us j r = r.
Proof.
  intros is_rel t j us. induction us as [|u rest IH]; intros r H; [reflexivity|].
  unfold applied_ref. cbn [fold_left]. rewrite (H u (or_introl eq_refl)).
  apply IH. intros x Hx. apply H. right. exact Hx.
Qed.
