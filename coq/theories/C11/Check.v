(* C11/Check.v — correspondence + property oracle for one harness case (executable only).

   tag 1:  <annotation input (Annotate/Case.v)>  outcome
           observations : list (pidx t status refs npending)
             the implementation's own ApplyUpdatesUpTo(t) on a deep copy of annotated parent pidx
             status 0 ok | 1 UpdateIndexOutOfRangeError
           after : list (list update)   the update lists of the annotated objects read again
             after the observations (taken from shallow copies sharing the Updates slice)
   codes: 1 model <> implementation (annotation result, or state after ApplyUpdatesUpTo);
          2 the property fails on the observation (see [j2]); 3 osm.CommitInfoStart at run time differs
          from the time.Date literal in the source (translator); 0 did not parse. *)
From Coq Require Import ZArith List Bool.
From Verif Require Import Base.Wire Annotate.Model Annotate.Case Annotate.GenConst C11.Spec.
Import ListNotations.
Open Scope Z_scope.
Open Scope wire_scope.

Record tobs := mkTobs { to_pidx : nat; to_t : Z; to_status : Z; to_refs : list ref; to_pending : nat }.

Definition ptobs : P tobs :=
  p <- pnat ;; t <- pint ;; st <- pint ;; refs <- plist pref ;; n <- pnat ;;
  ret (mkTobs p t st refs n).

(* ---- judgement 1 -------------------------------------------------------- *)
Definition tobs_matches (i : ainput) (m : res state) (ob : tobs) : bool :=
  match m with
  | Ok (ps, us) =>
      match nth_error ps (to_pidx ob), nth_error us (to_pidx ob) with
      | Some p, Some u =>
          match apply_updates_up_to (i_rel i) (to_t ob) (p_refs p) u with
          | ApplyOk refs pending =>
              (to_status ob =? 0) && list_eqb ref_eqb refs (to_refs ob)
              && Nat.eqb (length pending) (to_pending ob)
          | ApplyIndexError _ => to_status ob =? 1
          end
      | _, _ => false
      end
  | Err _ => false
  end.

(* ---- judgement 2: the property, on what the implementation returned ------ *)

Definition hist_of (i : ainput) (fid : Z) : hres := input_hist i fid.

Fixpoint find_version (cl : list child) (v : Z) : option child :=
  match cl with
  | [] => None
  | c :: r => if c_version c =? v then Some c else find_version r v
  end.

Definition carries (r : ref) (c : child) : bool :=
  (r_version r =? c_version c) && (r_changeset r =? c_changeset c)
  && (r_lat r =? c_lat c) && (r_lon r =? c_lon c).

(* all versions strictly after position a up to position b are visible *)
Definition visible_between (cl : list child) (a : nat) (b : nat) : bool :=
  forallb (fun c => negb (Nat.ltb a (c_vidx c) && Nat.leb (c_vidx c) b) || c_visible c) cl.

Definition vidx_opt (c : option child) : Z :=
  match c with Some x => Z.of_nat (c_vidx x) | None => -1 end.

(* time travel at one reference: [r0] the input reference, [ra] the annotated reference,
   [rt] the reference after ApplyUpdatesUpTo(t) *)
Definition travel_ref_ok (i : ainput) (t : Z) (r0 ra rt : ref) : bool :=
  let cis := i_cis i in
  if filtered_out (o_filter (i_opts i)) r0 then ref_eqb rt ra      (* not handled in this batch *)
  else
    match hist_of i (r_id r0) with
    | HFound cl =>
        let sel := if r_version ra =? 0 then None
                   else match find_version cl (r_version ra) with
                        | Some s => if carries ra s then Some s else None   (* a stale pre-annotation *)
                        | None => None
                        end in
        match sel with
        | None => true     (* nothing selected (inconsistency ignored): no claim *)
        | Some s =>
            match later (Some s) (current_at cis cl t) with
            | Some e =>
                if visible_between cl (c_vidx s) (c_vidx e) then carries rt e
                else o_ignore_incons (i_opts i)   (* a deleted version in between: only when ignored *)
            | None => false
            end
        end
    | _ => ref_eqb rt ra
    end.

Fixpoint forallb3 {A B C} (f : A -> B -> C -> bool) (a : list A) (b : list B) (c : list C) : bool :=
  match a, b, c with
  | [], [], [] => true
  | x :: a', y :: b', z :: c' => f x y z && forallb3 f a' b' c'
  | _, _, _ => false
  end.

(* the window of the property: committed p <= t < committed next - threshold *)
Definition in_window (i : ainput) (pidx : nat) (t : Z) : bool :=
  let cis := i_cis i in
  match nth_error (i_parents i) pidx with
  | Some p =>
      (pstamp cis p <=? t) &&
      match nth_error (i_parents i) (S pidx) with
      | Some np => t <? pstamp cis np - o_threshold (i_opts i)
      | None => true
      end
  | None => false
  end.

Definition travel_ok (i : ainput) (o : outcome) (ob : tobs) : bool :=
  match nth_error (i_parents i) (to_pidx ob), nth_error (oc_parents o) (to_pidx ob) with
  | Some p0, Some refs_a =>
      if p_visible p0 && in_window i (to_pidx ob) (to_t ob) then
        (to_status ob =? 0) && forallb3 (travel_ref_ok i (to_t ob)) (p_refs p0) refs_a (to_refs ob)
      else true
  | _, _ => false
  end.

(* the annotated reference of a visible parent in the commit-time regime carries the version
   current when the parent was committed *)
Definition commit_regime_ref (i : ainput) (p0 : parent) (cl : list child) : bool :=
  commit_parent (i_cis i) p0 && forallb (commit_child (i_cis i)) cl && stamps_monotone (i_cis i) cl.

(* SPEC (timestamp regime, no deleted version inside the window; theorem C11_find_visible_spec):
   the closest candidate in [at - eps, at + eps] — versions stamped after [at] only from the
   parent's changeset, ties to the later version — else the last version before the window *)
Definition spec_select (cis cid at_ eps : Z) (cl : list child) : option child :=
  let candb := fun c => (at_ - eps <=? stamp cis c) && (stamp cis c <=? at_ + eps)
                        && ((stamp cis c <=? at_) || (c_changeset c =? cid)) in
  let dist := fun c => Z.abs (stamp cis c - at_) in
  match filter candb cl with
  | [] => match last (map Some (filter (fun c => stamp cis c <? at_ - eps) cl)) None with
          | Some c => if c_visible c then Some c else None
          | None => None
          end
  | cands => fold_left (fun best c => match best with
                                      | None => Some c
                                      | Some b => if dist c <=? dist b then Some c else Some b
                                      end) cands None
  end.

Definition ts_regime_clean (cis at_ eps : Z) (cl : list child) : bool :=
  (0 <=? eps) && forallb (fun c => c_committed c <? cis) cl && stamps_monotone cis cl
  && forallb (fun c => negb ((at_ - eps <=? stamp cis c) && (stamp cis c <=? at_ + eps)) || c_visible c) cl.

(* mixtures of versions with and without commit times *)
Definition mixed_old_before_window (cis at_ eps : Z) (cl : list child) : bool :=
  (0 <=? eps) && stamps_monotone cis cl
  && forallb (fun c => negb (c_committed c <? cis) || (stamp cis c <? at_ - eps)) cl.

(* the two bounds that hold for the selection in every mixture: visible, stamped <= at + eps,
   after [at] only without commit time and in the parent's changeset; and no version that must be
   covered (stamped before the window, or visible and stamped <= at) is later *)
Definition selectable_b (cis cid at_ eps : Z) (cl : list child) (c : child) : bool :=
  c_visible c && (stamp cis c <=? at_ + eps)
  && (negb (at_ <? stamp cis c) || ((c_committed c <? cis) && (c_changeset c =? cid)))
  && (negb ((0 <=? eps) && stamps_monotone cis cl)
      || forallb (fun d => negb ((stamp cis d <? at_ - eps) || (c_visible d && (stamp cis d <=? at_)))
                           || Nat.leb (c_vidx d) (c_vidx c)) cl).

Definition annotated_ref_ok (i : ainput) (p0 : parent) (r0 ra : ref) : bool :=
  let cis := i_cis i in
  if filtered_out (o_filter (i_opts i)) r0 then ref_eqb ra r0
  else
    match hist_of i (r_id r0) with
    | HFound [] => o_ignore_missing (i_opts i) && ref_eqb ra r0     (* an empty history is missing *)
    | HFound cl =>
        if commit_regime_ref i p0 cl then
          match current_at cis cl (pstamp cis p0) with
          | Some c => if c_visible c then carries ra c
                      else o_ignore_incons (i_opts i) && ref_eqb ra r0
          | None => o_ignore_incons (i_opts i) && ref_eqb ra r0
          end
        else if ts_regime_clean cis (pstamp cis p0) (o_threshold (i_opts i)) cl then
          match spec_select cis (p_changeset p0) (pstamp cis p0) (o_threshold (i_opts i)) cl with
          | Some c => carries ra c
          | None => o_ignore_incons (i_opts i) && ref_eqb ra r0
          end
        else if mixed_old_before_window cis (pstamp cis p0) (o_threshold (i_opts i)) cl then
          (* every version without commit time lies before the window: ground truth
             (theorem C11_find_visible_old_before_window) *)
          match current_at cis cl (pstamp cis p0) with
          | Some c => if c_visible c then carries ra c
                      else o_ignore_incons (i_opts i) && ref_eqb ra r0
          | None => o_ignore_incons (i_opts i) && ref_eqb ra r0
          end
        else
          (* any other mixture: nothing selected (only when inconsistencies are ignored), or a
             version inside the two bounds proved for every mixture (C11_find_visible_selectable,
             C11_find_visible_covers) *)
          (o_ignore_incons (i_opts i) && ref_eqb ra r0) ||
          match find_version cl (r_version ra) with
          | Some c => carries ra c
                      && selectable_b cis (p_changeset p0) (pstamp cis p0) (o_threshold (i_opts i)) cl c
          | None => false
          end
    | HNotFound => o_ignore_missing (i_opts i) && ref_eqb ra r0
    | HError => false
    end.

Fixpoint forallb2 {A B} (f : A -> B -> bool) (a : list A) (b : list B) : bool :=
  match a, b with
  | [], [] => true
  | x :: a', y :: b' => f x y && forallb2 f a' b'
  | _, _ => false
  end.

(* every update is a visible later version of the child at its index, stamped with its stamp *)
(* when no version was selected for a reference (inconsistency ignored) its updates are still "the
   LATER child versions": versions stamped before the parent version are not resurrected *)
Definition later_than_parent (i : ainput) (p0 : parent) (c : child) : bool :=
  pstamp (i_cis i) p0 <=? stamp (i_cis i) c.

Definition update_ok (i : ainput) (p0 : parent) (refs_a : list ref) (u : update) : bool :=
  match nth_error refs_a (u_index u) with
  | Some ra =>
      match hist_of i (r_id ra) with
      | HFound cl =>
          match find_version cl (u_version u) with
          | Some c =>
              c_visible c && (u_changeset u =? c_changeset c) && (u_lat u =? c_lat c)
              && (u_lon u =? c_lon c) && Bool.eqb (u_reverse u) (c_reverse c)
              && (if stamp_consistent (i_cis i) c then u_timestamp u =? stamp (i_cis i) c else true)
              && match find_version cl (r_version ra) with
                 | Some s => if carries ra s then Nat.ltb (c_vidx s) (c_vidx c)
                             else later_than_parent i p0 c   (* a stale pre-annotation, nothing was selected *)
                 | None => later_than_parent i p0 c
                 end
          | None => false
          end
      | _ => false
      end
  | None => false
  end.

Definition parent_ok (i : ainput) (p0 : parent) (refs_a : list ref) (us : list update) : bool :=
  if p_visible p0 then
    forallb2 (annotated_ref_ok i p0) (p_refs p0) refs_a && forallb (update_ok i p0 refs_a) us
  else
    (* deleted parent versions receive no annotations *)
    list_eqb ref_eqb (p_refs p0) refs_a && Nat.eqb (length us) 0.

(* updates_exact, commit-time regime: the updates of index j are exactly the visible versions after
   the selected one, up to (excluding) the version current at the next parent version — that one
   included only when it was committed strictly earlier than the next parent; when the version
   current at the next parent is deleted: those committed strictly earlier than the next parent;
   all later versions for the last parent version.  (With known commit times the code does not
   subtract the threshold: timeThresholdParent ignores its offset then.) *)
Definition expected_commit_from (i : ainput) (np : option parent) (cl after : list child)
  : list child :=
  let cis := i_cis i in
  (* the bound of the next parent: its commit time; (its timestamp less the threshold when the
     commit time is unknown — not used here, this oracle is applied in the commit regime only) *)
  let nbound := fun n => time_threshold_parent cis n (- o_threshold (i_opts i)) in
  filter c_visible
    match np with
    | None => after
    | Some n =>
        match current_at cis cl (pstamp cis n) with
        | Some cn =>
            if c_visible cn then
              filter (fun c => Nat.ltb (c_vidx c) (c_vidx cn)
                               || (Nat.eqb (c_vidx c) (c_vidx cn) && (stamp cis cn <? nbound n)))
                     after
            else filter (fun c => stamp cis c <? nbound n) after
        | None => []
        end
    end.

Definition expected_updates_commit (i : ainput) (np : option parent) (cl : list child) (s : child)
  : list child :=
  expected_commit_from i np cl (filter (fun c => Nat.ltb (c_vidx s) (c_vidx c)) cl).

(* no version selected for the reference (inconsistency ignored, the reference stays as it was): the
   updates are still exactly "the later child versions" — every version stamped at or after the
   parent version, up to the same bound of the next parent version *)
Definition not_before_parent (i : ainput) (p0 : parent) (cl : list child) : list child :=
  filter (fun c => pstamp (i_cis i) p0 <=? stamp (i_cis i) c) cl.

(* updates_exact in the timestamp regime (theorem C11_updates_exact_generic with the declarative
   selection of theorem 14 for the next parent version): later versions up to (excluding) the
   version selected for the next parent version, that one included iff stamped before
   (next parent's timestamp - threshold); nothing selected there: those stamped before that bound *)
Definition expected_ts_from (i : ainput) (np : option parent) (cl after : list child) : list child :=
  let cis := i_cis i in
  let eps := o_threshold (i_opts i) in
  filter c_visible
    match np with
    | None => after
    | Some n =>
        let bound := p_timestamp n - eps in
        match spec_select cis (p_changeset n) (p_timestamp n) eps cl with
        | Some nx => filter (fun c => Nat.ltb (c_vidx c) (c_vidx nx)
                                      || (Nat.eqb (c_vidx c) (c_vidx nx) && (stamp cis nx <? bound))) after
        | None => filter (fun c => stamp cis c <? bound) after
        end
    end.

Definition expected_updates_ts (i : ainput) (np : option parent) (cl : list child) (s : child) : list child :=
  expected_ts_from i np cl (filter (fun c => Nat.ltb (c_vidx s) (c_vidx c)) cl).

Definition ts_regime_pair (i : ainput) (p0 : parent) (np : option parent) (cl : list child) : bool :=
  let cis := i_cis i in
  let eps := o_threshold (i_opts i) in
  (p_committed p0 <? cis) && ts_regime_clean cis (pstamp cis p0) eps cl
  && match np with
     | Some n => (p_committed n <? cis) && ts_regime_clean cis (p_timestamp n) eps cl
     | None => true
     end.

Definition updates_exact_ref (i : ainput) (p0 : parent) (np : option parent) (us : list update)
  (j : nat) (r0 ra : ref) : bool :=
  if filtered_out (o_filter (i_opts i)) r0 then true
  else
    match hist_of i (r_id r0) with
    | HFound cl =>
        if commit_regime_ref i p0 cl
           && match np with Some n => commit_parent (i_cis i) n && (pstamp (i_cis i) p0 <=? pstamp (i_cis i) n) | None => true end
        then
          if match current_at (i_cis i) cl (pstamp (i_cis i) p0) with Some c => negb (c_visible c) | None => true end
          then
            negb (ref_eqb ra r0) ||
            list_eqb Z.eqb (map c_version (expected_commit_from i np cl (not_before_parent i p0 cl)))
                           (map u_version (filter (fun u => Nat.eqb (u_index u) j) us))
          else
          match find_version cl (r_version ra) with
          | Some s =>
              if carries ra s then
                list_eqb Z.eqb (map c_version (expected_updates_commit i np cl s))
                               (map u_version (filter (fun u => Nat.eqb (u_index u) j) us))
              else true
          | None => true
          end
        else if ts_regime_pair i p0 np cl then
          if match spec_select (i_cis i) (p_changeset p0) (pstamp (i_cis i) p0) (o_threshold (i_opts i)) cl with
             | Some _ => false | None => true end
          then
            negb (ref_eqb ra r0) ||
            list_eqb Z.eqb (map c_version (expected_ts_from i np cl (not_before_parent i p0 cl)))
                           (map u_version (filter (fun u => Nat.eqb (u_index u) j) us))
          else
          match find_version cl (r_version ra) with
          | Some s =>
              if carries ra s then
                list_eqb Z.eqb (map c_version (expected_updates_ts i np cl s))
                               (map u_version (filter (fun u => Nat.eqb (u_index u) j) us))
              else true
          | None => true
          end
        else true
    | _ => true
    end.

Fixpoint forallb2i {A B} (f : nat -> A -> B -> bool) (k : nat) (a : list A) (b : list B) : bool :=
  match a, b with
  | [], [] => true
  | x :: a', y :: b' => f k x y && forallb2i f (S k) a' b'
  | _, _ => false
  end.

Definition updates_exact_ok (i : ainput) (o : outcome) : bool :=
  forallb (fun k =>
    match nth_error (i_parents i) k, nth_error (oc_parents o) k, nth_error (oc_updates o) k with
    | Some p0, Some refs_a, Some us =>
        negb (p_visible p0)
        || forallb2i (updates_exact_ref i p0 (nth_error (i_parents i) (S k)) us) 0 (p_refs p0) refs_a
    | _, _, _ => false
    end) (seq 0 (length (i_parents i))).

(* a referenced child without history / without a visible version *)
Definition missing_child (i : ainput) : bool :=
  existsb (fun p => existsb (fun r =>
      negb (filtered_out (o_filter (i_opts i)) r) && missing_hist (hist_of i (r_id r))) (p_refs p)) (i_parents i).

Definition error_ok (i : ainput) (o : outcome) : bool :=
  if oc_status o =? 1 then
    (* NoHistoryError: the named child is referenced, has no history, and the option is off *)
    negb (o_ignore_missing (i_opts i)) &&
    existsb (fun p => existsb (fun r => (r_id r =? oc_fid o) && missing_hist (hist_of i (r_id r)))
                              (p_refs p)) (i_parents i)
  else if oc_status o =? 2 then
    negb (o_ignore_incons (i_opts i)) &&
    existsb (fun p => p_visible p && existsb (fun r => (r_id r =? oc_fid o) &&
       match hist_of i (r_id r) with
       | HFound [] => false
       | HFound cl =>
           if commit_regime_ref i p cl
              || mixed_old_before_window (i_cis i) (pstamp (i_cis i) p) (o_threshold (i_opts i)) cl then
             match current_at (i_cis i) cl (pstamp (i_cis i) p) with
             | Some c => negb (c_visible c)
             | None => true
             end
           else if ts_regime_clean (i_cis i) (pstamp (i_cis i) p) (o_threshold (i_opts i)) cl then
             match spec_select (i_cis i) (p_changeset p) (pstamp (i_cis i) p) (o_threshold (i_opts i)) cl with
             | Some _ => false
             | None => true
             end
           else true
       | _ => false
       end) (p_refs p)) (i_parents i)
  else if oc_status o =? 3 then
    (* any other error needs a reason in the input: a datasource failure for a referenced child, or
       (a child deleted between two parent versions) inconsistencies not being ignored *)
    existsb (fun p => existsb (fun r =>
       match hist_of i (r_id r) with
       | HError => true
       | HFound cl => negb (o_ignore_incons (i_opts i)) && existsb (fun c => negb (c_visible c)) cl
       | HNotFound => false
       end) (p_refs p)) (i_parents i)
  else false.   (* a panic is never acceptable *)

Definition j2 (i : ainput) (o : outcome) (obs : list tobs) : bool :=
  if oc_status o =? 0 then
    (* success: no referenced child may lack a history unless that is ignored *)
    (o_ignore_missing (i_opts i) || negb (missing_child i))
    && forallb3 (parent_ok i) (i_parents i) (oc_parents o) (oc_updates o)
    && updates_exact_ok i o
    && forallb (travel_ok i o) obs
  else error_ok i o.

Definition check_main : P (list Z) :=
  i <- pinput ;; o <- poutcome ;; obs <- plist ptobs ;; after <- plist (plist pupdate) ;;
  let m := model_outcome i in
  let j1 := outcome_matches i m o && ((negb (oc_status o =? 0)) || forallb (tobs_matches i m) obs) in
  (* input immutability of ApplyUpdatesUpTo: the update lists of the annotated objects, read again
     after all the snapshots were taken from shallow copies, are the lists returned by annotate *)
  let unchanged := negb (oc_status o =? 0) || list_eqb (list_eqb update_eqb) (oc_updates o) after in
  (* 3: the CommitInfoStart the implementation runs with is the one written in update.go *)
  ret (code_if j1 1 ++ code_if (j2 i o obs && unchanged) 2 ++ code_if (i_cis i =? commit_info_start) 3)%list.

Definition check_case (t : toks) : list Z :=
  match parse_all (tag <- pint ;; if tag =? 1 then check_main else pfail) t with
  | Some codes => codes
  | None => [0]
  end.
