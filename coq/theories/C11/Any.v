(* C11/Any.v — time travel for EVERY history with non-decreasing stamps: versions with and without
   commit times mixed in one history, parents of any regime.  No regime hypothesis remains. *)
From Coq Require Import ZArith List Bool Lia Permutation Sorted Arith.
From Verif Require Import Annotate.Model Annotate.SortProofs Annotate.Plans Annotate.Determinism
  C11.Spec C11.Proofs C11.Exact C11.TimeTravel C11.Generic C11.Mixed.
Import ListNotations.
Open Scope Z_scope.

Lemma pbound_le_at : forall cis o n, 0 <= o_threshold o -> pbound cis o n <= time_threshold_parent cis n 0.
Proof. intros cis o n H. unfold pbound, time_threshold_parent. destruct (p_committed n <? cis); lia. Qed.

Lemma pbound_ge_lo : forall cis o n, 0 <= o_threshold o -> time_threshold_parent cis n 0 - o_threshold o <= pbound cis o n.
Proof. intros cis o n H. unfold pbound, time_threshold_parent. destruct (p_committed n <? cis); lia. Qed.

(* nextVersionIndex covers every VISIBLE version stamped before the bound of the next parent *)
Lemma nv_covers_visible : forall cis o cl np s nv,
  0 <= o_threshold o -> vidx_ok cl -> stamps_monotone cis cl = true -> cl <> [] ->
  nth_error cl (c_vidx s) = Some s ->
  next_version_index cis (Some s) cl np o = Ok nv ->
  forall i ck, nth_error cl i = Some ck -> (c_vidx s < i)%nat -> c_visible ck = true ->
  before_bound cis o np (stamp cis ck) -> (i < nv)%nat.
Proof.
  intros cis o cl np s nv Heps Hv Hsm Hne Hs Hnv i ck Hi Hsi Hvis Hb.
  pose proof (stamps_monotone_mono _ _ Hsm) as Hm.
  unfold next_version_index in Hnv. destruct np as [n|].
  - cbn [before_bound] in Hb.
    pose proof (pbound_le_at cis o n Heps) as Hle. fold (pbound cis o n) in Hnv.
    destruct (find_visible cis cl (p_changeset n) (time_threshold_parent cis n 0) (o_threshold o)) as [nx|] eqn:Ef.
    + assert (i <= c_vidx nx)%nat as Hcov.
      { apply (find_visible_covers cis cl _ _ _ nx Heps Hv Hm Ef i ck Hi). right. split; [exact Hvis|lia]. }
      fold (stamp cis nx) in Hnv.
      destruct (stamp cis nx <? pbound cis o n) eqn:E; inversion Hnv; subst nv; [lia|].
      apply Z.ltb_ge in E.
      destruct (Nat.eq_dec i (c_vidx nx)) as [Eq|Hneq]; [|lia]. exfalso.
      pose proof (find_visible_in _ _ _ _ _ _ Ef) as Hin. apply In_nth_error in Hin. destruct Hin as [ix Hix].
      rewrite (Hv _ _ Hix) in Eq. subst ix. rewrite Hi in Hix. inversion Hix; subst nx. lia.
    + fold (stamp cis s) in Hnv.
      destruct (negb (pbound cis o n >? stamp cis s)) eqn:Ew.
      * exfalso. pose proof (Hm (c_vidx s) i s ck Hs Hi ltac:(lia)). apply negb_true_iff in Ew. lia.
      * rewrite version_before_pos in Hnv.
        set (B := pbound cis o n) in *.
        assert (i < pre (lt_T cis B) cl)%nat as Hpos.
        { destruct (Nat.lt_ge_cases i (pre (lt_T cis B) cl)) as [H|H]; [exact H|]. exfalso.
          pose proof (pre_ge _ cl i ck (lt_T_closed cis B cl Hm) H Hi) as Hf.
          unfold lt_T in Hf. apply Z.ltb_ge in Hf. lia. }
        destruct (pre (lt_T cis B) cl) as [|m] eqn:Ep; [lia|]. cbn [at_pos] in Hnv.
        assert (m < pre (lt_T cis B) cl)%nat as Hmlt by (rewrite Ep; lia).
        destruct (pre_lt _ cl m Hmlt) as [nx [Hnx _]]. rewrite Hnx in Hnv.
        inversion Hnv; subst nv. rewrite (Hv _ _ Hnx). lia.
  - rewrite last_map_some in Hnv.
    destruct (at_pos cl (length cl)) as [c|] eqn:E.
    + destruct (at_pos_some _ _ _ E) as [m [Em Hm']]. pose proof (Hv _ _ Hm') as Hvm.
      inversion Hnv; subst nv. assert (i < length cl)%nat by (apply nth_error_Some; congruence). lia.
    + discriminate.
Qed.

Section Any.
Variables (cis : Z) (o : opts) (ps : list parent) (hist : Z -> hres).
Variables (entries : list (Z * list loc)) (sortf : list update -> list update).
Variables (ps' : list parent) (results : list (list update)).
Variables (p : nat) (par : parent) (j : nat) (r : ref) (cl : list child) (s : child).

Hypothesis Hhist : hist_ok hist.
Hypothesis Hv : valid_order o ps entries.
Hypothesis Hs : sort_spec less sortf.
Hypothesis Hc : compute_with cis o ps hist entries sortf = Ok (ps', results).
Hypothesis Hp : nth_error ps p = Some par.
Hypothesis Hvis : p_visible par = true.
Hypothesis Hj : nth_error (p_refs par) j = Some r.
Hypothesis Hf : filtered_out (o_filter o) r = false.
Hypothesis Hh : hist (r_id r) = HFound cl.
Hypothesis Hne : cl <> [].
Hypothesis Hvx : vidx_ok cl.
Hypothesis Hsm : stamps_monotone cis cl = true.
Hypothesis Hvm : versions_mono cl.
Hypothesis Hsc : forall ck, In ck cl -> stamp_consistent cis ck = true.
Hypothesis Heps : 0 <= o_threshold o.
Hypothesis Hsel : find_visible cis cl (p_changeset par) (pstamp cis par) (o_threshold o) = Some s.

Lemma time_travel_any : forall is_rel t par' us refs' pend,
  before_bound cis o (nth_error ps (S p)) t ->
  (forall e, current_at cis cl t = Some e -> (c_vidx s < c_vidx e)%nat -> c_visible e = true) ->
  nth_error ps' p = Some par' -> nth_error results p = Some us ->
  apply_updates_up_to is_rel t (p_refs par') us = ApplyOk refs' pend ->
  exists e r', later (Some s) (current_at cis cl t) = Some e /\ nth_error refs' j = Some r' /\ ref_carries r' e.
Proof.
  intros is_rel t par' us refs' pend Hbb Hbetween Hpar' Hus Happ.
  pose proof (stamps_monotone_mono _ _ Hsm) as Hm.
  destruct (annotate_child_selected cis o ps hist entries sortf ps' results p par j r cl
              Hv Hc Hp Hvis Hj Hf Hh Hne) as [par'' [r0 [H1 [H2 H3]]]].
  rewrite Hpar' in H1. inversion H1; subst par''. rewrite Hsel in H3. subst r0.
  destruct (updates_slice cis o ps hist entries sortf ps' results p par j r cl s
              Hv Hs Hc Hp Hvis Hj Hf Hh Hne Hsel) as [us' [nv [Hus' [Hnv Hmem]]]].
  rewrite Hus in Hus'. inversion Hus'; subst us'. clear Hus'.
  pose proof (apply_ok_exact _ _ _ _ _ _ Happ j _ H2) as Href.
  assert (StronglySorted itv_le us) as Hsorted.
  { eapply (updates_sorted_index_time_version cis o ps hist entries sortf ps' results Hs Hc).
    eapply nth_error_In. exact Hus. }
  pose proof (find_visible_in _ _ _ _ _ _ Hsel) as Hsin. apply In_nth_error in Hsin.
  destruct Hsin as [ms Hms]. pose proof (Hvx _ _ Hms) as Hvs.
  assert (nth_error cl (c_vidx s) = Some s) as Hspos by (rewrite Hvs; exact Hms).
  assert (forall u, In u us -> applicable t j u = true ->
            exists ck i, nth_error cl i = Some ck /\ u = child_update cis ck j /\ (ms < i)%nat /\
                         (i < pre (le_T cis t) cl)%nat) as Happl.
  { intros u Hu Ha. unfold applicable in Ha. apply andb_true_iff in Ha. destruct Ha as [Ha1 Ha2].
    apply Nat.eqb_eq in Ha2.
    destruct (proj1 (Hmem u) (conj Hu Ha2)) as [ck [i [Hi [Hvck [Hlt [_ Eu]]]]]].
    exists ck, i. split; [exact Hi|]. split; [exact Eu|]. split; [lia|].
    assert (stamp cis ck <= t) as Hst.
    { subst u. rewrite child_update_stamp in Ha1 by (apply Hsc; eapply nth_error_In; exact Hi).
      apply negb_true_iff in Ha1. lia. }
    exact (pos_lt_pre cis t cl i ck Hm Hi Hst). }
  assert (Hnone_case : (forall i, (ms < i)%nat -> (i < pre (le_T cis t) cl)%nat -> False) ->
                       ref_carries (applied_ref is_rel t us j (set_ref s r)) s).
  { intros Hno. rewrite applied_none.
    - unfold ref_carries. cbn. repeat split; reflexivity.
    - intros u Hu. destruct (applicable t j u) eqn:Ea; [|reflexivity]. exfalso.
      destruct (Happl u Hu Ea) as [ck [i [_ [_ [H4 H5]]]]]. exact (Hno i H4 H5). }
  rewrite (current_at_pos cis t cl Hm).
  destruct (pre (le_T cis t) cl) as [|m] eqn:Epre.
  - exists s, (applied_ref is_rel t us j (set_ref s r)). cbn [at_pos later].
    split; [reflexivity|]. split; [exact Href|]. apply Hnone_case. intros i _ Hi. lia.
  - cbn [at_pos].
    assert (m < pre (le_T cis t) cl)%nat as Hm_lt by (rewrite Epre; lia).
    destruct (pre_lt _ cl m Hm_lt) as [e [He Hpe]]. unfold le_T in Hpe. apply Z.leb_le in Hpe.
    pose proof (Hvx _ _ He) as Hve. rewrite He. cbn [later]. rewrite Hvs, Hve.
    destruct (Nat.ltb ms m) eqn:Elt.
    + apply Nat.ltb_lt in Elt.
      exists e, (applied_ref is_rel t us j (set_ref s r)). split; [reflexivity|]. split; [exact Href|].
      set (ue := child_update cis e j).
      assert (c_visible e = true) as Hevis
        by (apply (Hbetween e); [rewrite (current_at_pos cis t cl Hm), Epre; exact He|lia]).
      assert (m < nv)%nat as Hmnv.
      { apply (nv_covers_visible cis o cl (nth_error ps (S p)) s nv Heps Hvx Hsm Hne Hspos Hnv m e He); [lia|exact Hevis|].
        unfold before_bound in *. destruct (nth_error ps (S p)); [lia|exact I]. }
      assert (In ue us /\ u_index ue = j) as [Hue _].
      { apply (proj2 (Hmem ue)). exists e, m. split; [exact He|]. split; [exact Hevis|].
        split; [lia|]. split; [exact Hmnv|reflexivity]. }
      assert (applicable t j ue = true) as Haue.
      { unfold applicable. apply andb_true_iff. split; [|apply Nat.eqb_refl].
        unfold ue. rewrite child_update_stamp by (apply Hsc; eapply nth_error_In; exact He).
        apply negb_true_iff. lia. }
      assert (forall u', In u' us -> applicable t j u' = true -> itv_le u' ue) as Hmax.
      { intros u' Hu' Ha'. destruct (Happl u' Hu' Ha') as [ck [i [Hi [Eu' [H4 H5]]]]]. subst u'.
        unfold itv_le, ukey, ue. cbn [child_update u_index u_timestamp u_version].
        change (update_timestamp cis (c_timestamp ck) (c_committed ck)) with (u_timestamp (child_update cis ck j)).
        change (update_timestamp cis (c_timestamp e) (c_committed e)) with (u_timestamp (child_update cis e j)).
        rewrite !child_update_stamp by (apply Hsc; eapply nth_error_In; eassumption).
        assert (i <= m)%nat as Him by lia.
        pose proof (Hm i m ck e Hi He Him). pose proof (Hvm i m ck e Hi He Him). right. split; [reflexivity|lia]. }
      assert (forall a b, In a us -> In b us -> applicable t j a = true -> applicable t j b = true ->
                          ukey a = ukey b -> a = b) as Hkf.
      { intros a b Ha Hb Haa Hab Hkey.
        destruct (Happl a Ha Haa) as [ca [ia [Hia [Ea _]]]]. destruct (Happl b Hb Hab) as [cb [ib [Hib [Eb _]]]].
        subst a b. apply child_update_key in Hkey. destruct Hkey as [_ Hver].
        rewrite (Hhist _ _ Hh ca cb (nth_error_In _ _ Hia) (nth_error_In _ _ Hib) Hver). reflexivity. }
      destruct (applied_sorted_max' is_rel t j us Hsorted Hkf (set_ref s r) ue Hue Haue Hmax) as [E1 [E2 [E3 E4]]].
      unfold ref_carries. rewrite E1, E2, E3, E4. unfold ue. cbn. repeat split; reflexivity.
    + apply Nat.ltb_ge in Elt.
      exists s, (applied_ref is_rel t us j (set_ref s r)). split; [reflexivity|]. split; [exact Href|].
      apply Hnone_case. intros i H4 H5. lia.
Qed.

End Any.

(* ------------------------------------------------------------------------- *)
(* a mixed witness: node 100 with v1, v2 without commit time and v3, v4 with commit times; the way
   itself has no commit time while its next version has one *)
Definition x_cis : Z := 1347442203000000000.
Definition x_t (s : Z) : Z := x_cis + s * 1000000000.
Definition x_versions : list hver :=
  [ mkHver 1 3 (x_t (-90000)) zero_time 1 0 false true;
    mkHver 2 7 (x_t (-3000)) zero_time 2 0 false true;
    mkHver 3 8 (x_t 5000) (x_t 5002) 3 0 false true;
    mkHver 4 9 (x_t 90000) (x_t 90001) 4 0 false true ].
Definition x_cl := to_child_list 100 x_versions.
Definition x_hist (fid : Z) : hres := if fid =? 100 then HFound x_cl else HNotFound.
Definition x_parents : list parent :=
  [ mkParent 7 true (x_t (-3600)) zero_time [mkRef 100 0 0 0 0 0];
    mkParent 11 true (x_t 80000) (x_t 80001) [mkRef 100 0 0 0 0 0] ].
Definition x_opts : opts := mkOpts 1800000000000 false false None.
Definition x_entries := map_child_locs x_parents None.

Lemma x_hist_ok : hist_ok x_hist.
Proof.
  intros fid cl H a b Ha Hb Hv. unfold x_hist in H.
  destruct (fid =? 100); [|discriminate]. inversion H; subst cl. clear H.
  vm_compute in Ha, Hb.
  destruct Ha as [<-|[<-|[<-|[<-|[]]]]]; destruct Hb as [<-|[<-|[<-|[<-|[]]]]];
    try reflexivity; vm_compute in Hv; discriminate Hv.
Qed.
